import Percival.Model.Events
/-!
# `events_immediate.c`: the 32 queues + `minq` refine one stable priority queue (C05 helper lemmas)
-/
set_option linter.unusedSimpArgs false
namespace Percival.Proofs.EventsImm
open Percival.Spec.Events Percival.Model.Events

/-! ## the 32 queues + `minq` are one stable priority queue -/

/-- the queue for priority `p` is the sub-sequence of `l` with that priority -/
def proj (l : List C05.Imm) (p : Nat) : List Nat := (l.filter (fun i => i.prio == p)).map (·.id)

structure RQ (q : Imm) (l : List C05.Imm) : Prop where
  size : q.heads.size = 32
  prio : ∀ i ∈ l, i.prio < 32
  heads : ∀ p, p < 32 → q.heads[p]? = some (proj l p)
  minq : ∀ i ∈ l, q.minq ≤ i.prio
  minq32 : q.minq ≤ 32

theorem rq_init : RQ {} [] := by
  refine ⟨by simp, by simp, ?_, by simp, by simp⟩
  intro p hp
  simp [proj, Array.getElem?_replicate, hp]

theorem proj_append (l : List C05.Imm) (i : C05.Imm) (p : Nat) :
    proj (l ++ [i]) p = if i.prio = p then proj l p ++ [i.id] else proj l p := by
  unfold proj
  rw [List.filter_append, List.map_append]
  by_cases h : i.prio = p <;> simp [h]

theorem immRegister_rq (q : Imm) (l : List C05.Imm) (id prio : Nat) (h : RQ q l) (hp : prio < 32) :
    ∃ q', immRegister q id prio = some q' ∧ RQ q' (l ++ [⟨id, prio⟩]) := by
  unfold immRegister
  rw [h.heads prio hp]
  refine ⟨_, rfl, ⟨by simp [h.size], ?_, ?_, ?_, ?_⟩⟩
  · intro i hi
    simp only [List.mem_append, List.mem_singleton] at hi
    rcases hi with hi | rfl
    · exact h.prio i hi
    · exact hp
  · intro p hp'
    rw [Array.getElem?_setIfInBounds, proj_append]
    by_cases hpp : prio = p
    · subst hpp; simp [h.size, hp]
    · simp only [hpp, if_false]; exact h.heads p hp'
  · intro i hi
    simp only [List.mem_append, List.mem_singleton] at hi
    rcases hi with hi | rfl
    · have := h.minq i hi
      show (if prio < q.minq then prio else q.minq) ≤ i.prio
      split <;> omega
    · show (if prio < q.minq then prio else q.minq) ≤ prio
      split <;> omega
  · show (if prio < q.minq then prio else q.minq) ≤ 32
    have := h.minq32
    split <;> omega


theorem proj_cons (i : C05.Imm) (l : List C05.Imm) (p : Nat) :
    proj (i :: l) p = if i.prio = p then i.id :: proj l p else proj l p := by
  unfold proj
  by_cases h : i.prio = p <;> simp [List.filter_cons, h]

theorem nextImm_none (l : List C05.Imm) : C05.nextImm l = none ↔ l = [] := by
  cases l with
  | nil => simp [C05.nextImm]
  | cons i is =>
    simp only [C05.nextImm]
    split <;> simp
    split <;> simp

/-- `nextImm` picks an element of least priority value which is the oldest of that priority -/
theorem nextImm_spec : ∀ (l : List C05.Imm) (j : C05.Imm), C05.nextImm l = some j →
    j ∈ l ∧ (∀ i ∈ l, j.prio ≤ i.prio) ∧ ∃ rest, proj l j.prio = j.id :: rest ∧
      ∀ p, proj (l.erase j) p = if p = j.prio then rest else proj l p := by
  intro l
  induction l with
  | nil => intro j h; simp [C05.nextImm] at h
  | cons i is ih =>
    intro j h
    simp only [C05.nextImm] at h
    cases hn : C05.nextImm is with
    | none =>
      rw [hn] at h; simp only [Option.some.injEq] at h; subst h
      have his : is = [] := (nextImm_none is).mp hn
      subst his
      refine ⟨by simp, by simp, [], by simp [proj], ?_⟩
      intro p; simp [proj]; intro h1 h2; omega
    | some k =>
      rw [hn] at h
      simp only at h
      obtain ⟨hk, hmin, rest, hrest, her⟩ := ih k hn
      by_cases hlt : k.prio < i.prio
      · simp only [hlt, if_true, Option.some.injEq] at h; subst h
        have hne : i ≠ k := by intro hc; subst hc; omega
        refine ⟨List.mem_cons_of_mem _ hk, ?_, rest, ?_, ?_⟩
        · intro x hx
          rcases List.mem_cons.mp hx with rfl | hx
          · omega
          · exact hmin x hx
        · rw [proj_cons]; have : ¬ i.prio = k.prio := by omega
          simp [this, hrest]
        · intro p
          have hbeq : (i == k) = false := by simpa using hne
          rw [List.erase_cons, hbeq]
          simp only [Bool.false_eq_true, if_false]
          rw [proj_cons, proj_cons, her p]
          by_cases hp : p = k.prio
          · subst hp; have : ¬ i.prio = k.prio := by omega
            simp [this]
          · simp [hp]
      · simp only [hlt, if_false, Option.some.injEq] at h; subst h
        refine ⟨by simp, ?_, proj is i.prio, by rw [proj_cons]; simp, ?_⟩
        · intro x hx
          rcases List.mem_cons.mp hx with rfl | hx
          · exact Nat.le_refl _
          · have := hmin x hx; omega
        · intro p
          simp only [List.erase_cons_head]
          rw [proj_cons]
          by_cases hp : p = i.prio
          · subst hp; simp
          · have : ¬ i.prio = p := fun h => hp h.symm
            simp [hp, this]

/-- the `minq` loop keeps the relation and stops at a non-empty queue (or at 32) -/
theorem immAdvance_rq : ∀ (f : Nat) (q : Imm) (l : List C05.Imm), RQ q l → 32 - q.minq ≤ f →
    RQ (immAdvance f q) l ∧ (immAdvance f q).heads = q.heads ∧
      ((immAdvance f q).minq = 32 ∨ ∃ x xs, (immAdvance f q).heads[(immAdvance f q).minq]? = some (x :: xs)) := by
  intro f
  induction f with
  | zero =>
    intro q l h hf
    have := h.minq32
    refine ⟨h, rfl, Or.inl ?_⟩
    show q.minq = 32
    omega
  | succ f ih =>
    intro q l h hf
    unfold immAdvance
    by_cases h32 : q.minq = 32
    · have : q.heads[q.minq]? = none := by
        rw [h32]; exact Array.getElem?_eq_none_iff.mpr (by rw [h.size]; omega)
      simp only [this]
      exact ⟨h, trivial, Or.inl h32⟩
    · have hlt : q.minq < 32 := by have := h.minq32; omega
      have hh := h.heads q.minq hlt
      rw [hh]
      cases hpl : proj l q.minq with
      | nil =>
        simp only
        have h' : RQ { q with minq := q.minq + 1 } l := by
          refine ⟨h.size, h.prio, h.heads, ?_, by show q.minq + 1 ≤ 32; omega⟩
          intro i hi
          have h1 := h.minq i hi
          show q.minq + 1 ≤ i.prio
          by_cases he : i.prio = q.minq
          · exfalso
            have : i.id ∈ proj l q.minq := by
              unfold proj
              simp only [List.mem_map, List.mem_filter]
              exact ⟨i, ⟨hi, by simp [he]⟩, rfl⟩
            rw [hpl] at this; simp at this
          · omega
        obtain ⟨r1, r2, r3⟩ := ih { q with minq := q.minq + 1 } l h' (by show 32 - (q.minq + 1) ≤ f; omega)
        exact ⟨r1, r2, r3⟩
      | cons x xs =>
        simp only
        exact ⟨h, trivial, Or.inr ⟨x, xs, by rw [hh, hpl]⟩⟩

/-- **the 32 queues + `minq` behave as one stable priority queue**: `events_immediate_get` returns
    exactly `nextImm` (least priority value, oldest first) and removes it -/
theorem immGet_rq (q : Imm) (l : List C05.Imm) (h : RQ q l) :
    (l = [] ∧ (immGet q).2 = none ∧ RQ (immGet q).1 []) ∨
    (∃ j, C05.nextImm l = some j ∧ (immGet q).2 = some j.id ∧ RQ (immGet q).1 (l.erase j)) := by
  obtain ⟨h1, hheads, hstop⟩ := immAdvance_rq 32 q l h (by omega)
  unfold immGet
  simp only
  rcases hstop with h32 | ⟨x, xs, hx⟩
  · -- no queue is non-empty
    have hnone : (immAdvance 32 q).heads[(immAdvance 32 q).minq]? = none := by
      rw [h32]; exact Array.getElem?_eq_none_iff.mpr (by rw [h1.size]; omega)
    have hl : l = [] := by
      cases l with
      | nil => rfl
      | cons i is =>
        have := h1.minq i (by simp)
        have := h1.prio i (by simp)
        omega
    left
    simp only [hnone]
    subst hl
    exact ⟨rfl, trivial, h1⟩
  · right
    have hmlt : (immAdvance 32 q).minq < 32 := by
      have := (Array.getElem?_eq_some_iff.mp hx).1
      rw [h1.size] at this; exact this
    have hproj : proj l (immAdvance 32 q).minq = x :: xs := by
      have := h1.heads _ hmlt
      rw [hx] at this; simp only [Option.some.injEq] at this; exact this.symm
    -- some element has priority minq, so the list is non-empty and nextImm picks priority minq
    have hxin : x ∈ proj l (immAdvance 32 q).minq := by rw [hproj]; simp
    unfold proj at hxin
    simp only [List.mem_map, List.mem_filter] at hxin
    obtain ⟨i0, ⟨hi0, hi0p⟩, _⟩ := hxin
    have hi0p' : i0.prio = (immAdvance 32 q).minq := by simpa using hi0p
    cases hn : C05.nextImm l with
    | none => rw [(nextImm_none l).mp hn] at hi0; simp at hi0
    | some j =>
      obtain ⟨hj, hmin, rest, hrest, her⟩ := nextImm_spec l j hn
      have hjp : j.prio = (immAdvance 32 q).minq := by
        have a := hmin i0 hi0
        have b := h1.minq j hj
        omega
      rw [hjp, hproj] at hrest
      simp only [List.cons.injEq] at hrest
      refine ⟨j, rfl, ?_, ?_⟩
      · simp only [hx]; rw [hrest.1]
      · simp only [hx]
        refine ⟨by simp [h1.size], ?_, ?_, ?_, h1.minq32⟩
        · intro i hi; exact h1.prio i (List.mem_of_mem_erase hi)
        · intro p hp
          rw [Array.getElem?_setIfInBounds, her p]
          by_cases hpp : (immAdvance 32 q).minq = p
          · subst hpp; simp [h1.size, hmlt, hjp, hrest.2]
          · have : ¬ p = j.prio := by omega
            simp only [hpp, this, if_false]; exact h1.heads p hp
        · intro i hi; exact h1.minq i (List.mem_of_mem_erase hi)


/-! ### cancel, and membership -/

def IdsNodup (l : List C05.Imm) : Prop := (l.map (·.id)).Nodup

theorem mem_proj (l : List C05.Imm) (id p : Nat) : id ∈ proj l p ↔ (⟨id, p⟩ : C05.Imm) ∈ l := by
  unfold proj
  simp only [List.mem_map, List.mem_filter]
  constructor
  · rintro ⟨i, ⟨hi, hp⟩, rfl⟩
    have : i.prio = p := by simpa using hp
    subst this; exact hi
  · intro h; exact ⟨⟨id, p⟩, ⟨h, by simp⟩, rfl⟩

theorem inj_of_nodup_map {α β : Type} (f : α → β) : ∀ (l : List α), (l.map f).Nodup →
    ∀ x ∈ l, ∀ y ∈ l, f x = f y → x = y := by
  intro l
  induction l with
  | nil => intro _ x hx; simp at hx
  | cons a as ih =>
    intro h x hx y hy hxy
    simp only [List.map_cons, List.nodup_cons, List.mem_map, not_exists, not_and] at h
    rcases List.mem_cons.mp hx with rfl | hx' <;> rcases List.mem_cons.mp hy with rfl | hy'
    · rfl
    · exact absurd hxy.symm (h.1 y hy')
    · exact absurd hxy (h.1 x hx')
    · exact ih h.2 x hx' y hy' hxy

theorem nodup_of_map {α β : Type} (f : α → β) : ∀ (l : List α), (l.map f).Nodup → l.Nodup := by
  intro l
  induction l with
  | nil => intro _; simp
  | cons a as ih =>
    intro h
    simp only [List.map_cons, List.nodup_cons, List.mem_map, not_exists, not_and] at h
    exact List.nodup_cons.mpr ⟨fun hm => h.1 a hm rfl, ih h.2⟩

theorem ids_inj {l : List C05.Imm} (h : IdsNodup l) {x y : C05.Imm} (hx : x ∈ l) (hy : y ∈ l) (hid : x.id = y.id) : x = y :=
  inj_of_nodup_map (fun i : C05.Imm => i.id) l h x hx y hy hid

theorem proj_filter (l : List C05.Imm) (id p : Nat) :
    proj (l.filter (fun i => i.id != id)) p = (proj l p).filter (fun x => x != id) := by
  unfold proj
  induction l with
  | nil => simp
  | cons i is ih =>
    simp only [List.filter_cons]
    by_cases h1 : i.id = id <;> by_cases h2 : i.prio = p <;> simp_all [List.filter_cons]

theorem proj_nodup {l : List C05.Imm} (h : IdsNodup l) (p : Nat) : (proj l p).Nodup := by
  unfold proj IdsNodup at *
  exact (List.Nodup.sublist (List.Sublist.map _ List.filter_sublist) h)

theorem erase_eq_filter_id {l : List C05.Imm} (h : IdsNodup l) {j : C05.Imm} (hj : j ∈ l) :
    l.erase j = l.filter (fun i => i.id != j.id) := by
  have hnd : l.Nodup := nodup_of_map (fun i : C05.Imm => i.id) l h
  rw [List.Nodup.erase_eq_filter hnd]
  apply List.filter_congr
  intro x hx
  by_cases hxe : x = j
  · subst hxe; simp
  · have : x.id ≠ j.id := fun hid => hxe (ids_inj h hx hj hid)
    show (x != j) = (x.id != j.id)
    rw [bne_iff_ne.mpr hxe, bne_iff_ne.mpr this]

theorem filter_idsNodup {l : List C05.Imm} (h : IdsNodup l) (id : Nat) : IdsNodup (l.filter (fun i => i.id != id)) := by
  unfold IdsNodup at *
  exact List.Nodup.sublist (List.Sublist.map _ List.filter_sublist) h

theorem immCancel_rq (q : Imm) (l : List C05.Imm) (id p : Nat) (h : RQ q l) (hn : IdsNodup l)
    (hm : (⟨id, p⟩ : C05.Imm) ∈ l) :
    ∃ q', immCancel q id p = some q' ∧ RQ q' (l.filter (fun i => i.id != id)) := by
  have hp : p < 32 := h.prio _ hm
  unfold immCancel
  rw [h.heads p hp]
  refine ⟨_, rfl, ⟨by simp [h.size], ?_, ?_, ?_, h.minq32⟩⟩
  · intro i hi; exact h.prio i (List.mem_filter.mp hi).1
  · intro p' hp'
    rw [Array.getElem?_setIfInBounds, proj_filter]
    by_cases hpp : p = p'
    · subst hpp
      simp only [h.size, hp, if_true]
      rw [List.Nodup.erase_eq_filter (proj_nodup hn p)]
    · simp only [hpp, if_false]
      rw [h.heads p' hp']
      congr 1
      symm
      apply List.filter_eq_self.mpr
      intro x hx
      by_cases hxe : x = id
      · subst hxe
        have h2 := (mem_proj l x p').mp hx
        have := ids_inj hn hm h2 rfl
        simp only [C05.Imm.mk.injEq, true_and] at this
        exact absurd this hpp
      · simp [hxe]
  · intro i hi; exact h.minq i (List.mem_filter.mp hi).1

theorem immPrioOf_some (q : Imm) (l : List C05.Imm) (id p : Nat) (h : RQ q l) (hq : immPrioOf q id = some p) :
    (⟨id, p⟩ : C05.Imm) ∈ l := by
  unfold immPrioOf at hq
  have h1 := List.find?_some hq
  have h2 := List.mem_of_find?_eq_some hq
  rw [h.size, List.mem_range] at h2
  rw [h.heads p h2] at h1
  simp only [List.contains_eq_mem, decide_eq_true_eq] at h1
  exact (mem_proj l id p).mp h1

theorem immPrioOf_none (q : Imm) (l : List C05.Imm) (id : Nat) (h : RQ q l) (hq : immPrioOf q id = none) (p : Nat) :
    (⟨id, p⟩ : C05.Imm) ∉ l := by
  intro hm
  have hp : p < 32 := h.prio _ hm
  unfold immPrioOf at hq
  rw [List.find?_eq_none] at hq
  have := hq p (by rw [h.size, List.mem_range]; exact hp)
  rw [h.heads p hp] at this
  simp only [List.contains_eq_mem, decide_eq_true_eq] at this
  exact this ((mem_proj l id p).mpr hm)

end Percival.Proofs.EventsImm
