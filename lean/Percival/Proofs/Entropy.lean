import Percival.Model.Entropy
/-!
# Helper lemmas for C11: the model of crypto_entropy.c refines SP 800-90A HMAC_DRBG

`Cfg.doc I M` is the documented configuration with reseed interval `I` and piece size `M` left
open, so that the same lemmas give the theorems at the source's values (256, 65536) and the
quickly evaluated small-parameter examples.
-/
namespace Percival.Proofs.Entropy
open Percival Percival.Spec
open Percival.Spec.HmacDrbg (State Params Oracle Outcome getEntropy pieces std)
open Percival.Model.Entropy (Cfg Drbg St)

theorem sha256_length (m : Bytes) : (Sha256.hash m).length = 32 := by
  simp [Sha256.hash, MD.hash, Sha256.params, Sha256.out, be32enc]

theorem hmac_length (k m : Bytes) : (Hmac.hmacSha256 k m).length = 32 := by
  unfold Hmac.hmacSha256 Hmac.hmac
  exact sha256_length _

theorem blocks_succ (key v : Bytes) (n : Nat) :
    HmacDrbg.blocks key (n+1) v =
      (Hmac.hmacSha256 key v ++ (HmacDrbg.blocks key n (Hmac.hmacSha256 key v)).1,
       (HmacDrbg.blocks key n (Hmac.hmacSha256 key v)).2) := by
  simp [HmacDrbg.blocks, HmacDrbg.hmac]

theorem genLoop_eq (I M : Nat) (key : Bytes) : ∀ (fuel : Nat) (v : Bytes) (rem : Nat), rem ≤ fuel →
    Model.Entropy.genLoop (Cfg.doc I M) key fuel v rem =
      (((HmacDrbg.blocks key ((rem + 32 - 1) / 32) v).1).take rem,
       (HmacDrbg.blocks key ((rem + 32 - 1) / 32) v).2) := by
  intro fuel
  induction fuel with
  | zero =>
    intro v rem h
    have : rem = 0 := by omega
    subst this
    simp [Model.Entropy.genLoop, HmacDrbg.blocks]
  | succ f ih =>
    intro v rem h
    unfold Model.Entropy.genLoop
    by_cases h0 : rem = 0
    · subst h0; simp [HmacDrbg.blocks]
    · simp only [h0, if_false]
      have hl := hmac_length key v
      by_cases hge : rem ≥ 32
      · have hc : (rem + 32 - 1) / 32 = (rem - 32 + 32 - 1) / 32 + 1 := by omega
        have hb : (Cfg.doc I M).blockLen = 32 := rfl
        simp only [hb, hge, if_true, Model.Entropy.hmac]
        rw [ih _ (rem - 32) (by omega), hc, blocks_succ]
        simp only [List.take_append, hl]
        have t1 : List.take 32 (Hmac.hmacSha256 key v) = Hmac.hmacSha256 key v := by
          rw [← hl, List.take_length]
        have t2 : List.take rem (Hmac.hmacSha256 key v) = Hmac.hmacSha256 key v := by
          apply List.take_of_length_le; omega
        rw [t1, t2]
      · have hc : (rem + 32 - 1) / 32 = 1 := by omega
        have hlt : ¬ (rem ≥ 32) := hge
        have hb : (Cfg.doc I M).blockLen = 32 := rfl
        simp only [hb, hlt, if_false, Model.Entropy.hmac]
        rw [hc, blocks_succ]
        simp [HmacDrbg.blocks]

theorem update_eq (I M : Nat) (d : Drbg) (data : Bytes) :
    Model.Entropy.update (Cfg.doc I M) d data =
      { d with key := (HmacDrbg.update data d.key d.v).1, v := (HmacDrbg.update data d.key d.v).2 } := by
  unfold Model.Entropy.update HmacDrbg.update
  cases data with
  | nil => simp [Cfg.doc, Model.Entropy.hmac, HmacDrbg.hmac]
  | cons a as => simp [Cfg.doc, Model.Entropy.hmac, HmacDrbg.hmac]

/-- the SP 800-90A working state a `drbg` struct denotes -/
def absD (d : Drbg) : State := { K := d.key, V := d.v, reseedCounter := d.reseedCounter.toNat }

/-- the generator state the static variables denote: nothing until `instantiated` is set -/
def abs (st : St) : Option State := if st.instantiated then some (absD st.drbg) else none

/-- the property's numbers with the two schedule numbers left open -/
def params (I M : Nat) : Params := { std with reseedInterval := I, maxRequest := M }

theorem getEntropy_length {n : Nat} {o o' : Oracle} {e : Bytes} (h : getEntropy n o = (some e, o')) :
    e.length = n := by
  unfold getEntropy at h
  split at h
  · simp at h
  · simp at h
  · split at h
    · simp at h; rw [← h.1]; assumption
    · simp at h

theorem generate_eq (I M : Nat) (hI : I + 1 < 2^32) (d : Drbg) (n : Nat)
    (hn : n ≤ M) (hc : d.reseedCounter.toNat ≤ I) :
    ∃ d', Model.Entropy.generate (Cfg.doc I M) d n = some ((HmacDrbg.generateBits (absD d) n).1, d') ∧
      absD d' = (HmacDrbg.generateBits (absD d) n).2 := by
  unfold Model.Entropy.generate
  have h1 : (Cfg.doc I M).generateMaxlen = M := rfl
  have h2 : (Cfg.doc I M).reseedInterval = I := rfl
  have h3 : (Cfg.doc I M).ctrIncrement = 1 := rfl
  rw [h1, h2, h3, if_neg (by omega), if_neg (by omega), genLoop_eq I M _ _ _ _ (Nat.le_refl _)]
  simp only [update_eq]
  refine ⟨_, rfl, ?_⟩
  simp only [absD, HmacDrbg.generateBits, HmacDrbg.outlen]
  congr 1
  rw [UInt32.toNat_add]
  have : (UInt32.ofNat 1).toNat = 1 := by decide
  rw [this]
  have := d.reseedCounter.toNat_lt
  omega

theorem pieces_zero (M : Nat) : pieces M 0 = [] := by
  simp [pieces]

theorem pieces_small {M n : Nat} (h0 : 0 < n) (h : n ≤ M) : pieces M n = [n] := by
  unfold pieces
  by_cases he : n = M
  · subst he
    simp [Nat.div_self h0]
  · have hlt : n < M := by omega
    simp [Nat.div_eq_of_lt hlt, Nat.mod_eq_of_lt hlt]
    omega

theorem pieces_big {M n : Nat} (hM : 0 < M) (h : M < n) : pieces M n = M :: pieces M (n - M) := by
  unfold pieces
  obtain ⟨m, rfl⟩ : ∃ m, n = m + M := ⟨n - M, by omega⟩
  rw [Nat.add_sub_cancel, Nat.add_div_right _ hM, Nat.add_mod_right, List.replicate_succ]
  rfl

/-- apply `f` to the state component -/
def mapSt {α β : Type} (f : α → β) : Outcome × α × Oracle → Outcome × β × Oracle
  | (r, s, o) => (r, f s, o)


theorem spec_generate_ok {I n : Nat} {s : State} (hn : n ≤ 65536) (hc : s.reseedCounter ≤ I) :
    HmacDrbg.generate I s n = .success (HmacDrbg.generateBits s n).1 (HmacDrbg.generateBits s n).2 := by
  unfold HmacDrbg.generate
  have : HmacDrbg.maxBytesPerRequest = 65536 := by decide
  rw [this, if_neg (by omega), if_neg (by omega)]

theorem spec_generate_reseed {I n : Nat} {s : State} (hn : n ≤ 65536) (hc : s.reseedCounter > I) :
    HmacDrbg.generate I s n = .reseedRequired := by
  unfold HmacDrbg.generate
  have : HmacDrbg.maxBytesPerRequest = 65536 := by decide
  rw [this, if_neg (by omega), if_pos hc]

theorem reseed_fail (I M : Nat) (d : Drbg) {o o' : Oracle} (h : getEntropy 32 o = (none, o')) :
    Model.Entropy.reseed (Cfg.doc I M) d o = (none, o') := by
  unfold Model.Entropy.reseed
  have c : (Cfg.doc I M).reseedSeedLen = 32 := rfl
  rw [c, h]

theorem reseed_ok (I M : Nat) (d : Drbg) {o o' : Oracle} {e : Bytes} (h : getEntropy 32 o = (some e, o')) :
    ∃ d1, Model.Entropy.reseed (Cfg.doc I M) d o = (some d1, o') ∧ absD d1 = HmacDrbg.reseed (absD d) e := by
  unfold Model.Entropy.reseed
  have c : (Cfg.doc I M).reseedSeedLen = 32 := rfl
  have c2 : (Cfg.doc I M).reseedUpdateLen = 32 := rfl
  have c3 : (Cfg.doc I M).ctrReseed = 1 := rfl
  have hl := getEntropy_length h
  rw [c, h]
  simp only [c2, c3, update_eq]
  refine ⟨_, rfl, ?_⟩
  have : e.take 32 = e := by rw [← hl, List.take_length]
  rw [this]
  simp [absD, HmacDrbg.reseed]

theorem readLoop_eq (I M : Nat) (hI0 : 0 < I) (hI : I + 1 < 2^32) (hM0 : 0 < M) (hM : M ≤ 65536) :
    ∀ (fuel : Nat) (d : Drbg) (o : Oracle) (n : Nat), n ≤ fuel →
      mapSt absD (Model.Entropy.readLoop (Cfg.doc I M) fuel d o n) =
        HmacDrbg.Service.serve (params I M) (absD d) o (pieces M n) := by
  intro fuel
  induction fuel with
  | zero =>
    intro d o n h
    have : n = 0 := by omega
    subst this
    simp [Model.Entropy.readLoop, pieces_zero, HmacDrbg.Service.serve, mapSt]
  | succ f ih =>
    intro d o n h
    unfold Model.Entropy.readLoop
    by_cases h0 : n = 0
    · subst h0; simp [pieces_zero, HmacDrbg.Service.serve, mapSt]
    · simp only [h0, if_false]
      have c1 : (Cfg.doc I M).generateMaxlen = M := rfl
      have c2 : (Cfg.doc I M).reseedInterval = I := rfl
      rw [c1, c2]
      -- the piece served in this iteration
      generalize hk : (if n > M then M else n) = k
      have hkM : k ≤ M := by subst hk; split <;> omega
      have hk0 : 0 < k := by subst hk; split <;> omega
      have hkn : k ≤ n := by subst hk; split <;> omega
      have hp : pieces M n = k :: pieces M (n - k) := by
        subst hk
        by_cases hb : n > M
        · rw [if_pos hb]; exact pieces_big hM0 hb
        · rw [if_neg hb, pieces_small (by omega) (by omega), Nat.sub_self, pieces_zero]
      rw [hp, HmacDrbg.Service.serve]
      have hp1 : (params I M).reseedInterval = I := rfl
      have hp2 : (params I M).reseedLen = 32 := rfl
      rw [hp1, hp2]
      have hk65 : k ≤ 65536 := by omega
      by_cases hc : d.reseedCounter.toNat > I
      · rw [if_pos hc, spec_generate_reseed hk65 (by simpa [absD] using hc)]
        rcases hg : getEntropy 32 o with ⟨_ | e, o'⟩
        · rw [reseed_fail I M d hg]; simp [mapSt]
        · obtain ⟨d1, hr, ha⟩ := reseed_ok I M d hg
          rw [hr]
          simp only []
          have hc1 : d1.reseedCounter.toNat ≤ I := by
            have : (absD d1).reseedCounter = 1 := by rw [ha]; rfl
            simp [absD] at this; omega
          obtain ⟨d2, hgen, ha2⟩ := generate_eq I M hI d1 k hkM hc1
          rw [hgen, ← ha, spec_generate_ok hk65 (by simpa [absD] using hc1)]
          simp only []
          have hih := ih d2 o' (n - k) (by omega)
          rw [ha2] at hih
          rw [← hih]
          generalize Model.Entropy.readLoop (Cfg.doc I M) f d2 o' (n - k) = r
          obtain ⟨r, d, o⟩ := r
          cases r <;> simp [mapSt, HmacDrbg.Service.prepend]
      · rw [if_neg hc]
        simp only []
        have hc1 : d.reseedCounter.toNat ≤ I := by omega
        obtain ⟨d2, hgen, ha2⟩ := generate_eq I M hI d k hkM hc1
        rw [hgen, spec_generate_ok hk65 (by simpa [absD] using hc1)]
        simp only []
        have hih := ih d2 o (n - k) (by omega)
        rw [ha2] at hih
        rw [← hih]
        generalize Model.Entropy.readLoop (Cfg.doc I M) f d2 o (n - k) = r
        obtain ⟨r, d, o⟩ := r
        cases r <;> simp [mapSt, HmacDrbg.Service.prepend]

theorem instantiate_fail (I M : Nat) {o o' : Oracle} (h : getEntropy 48 o = (none, o')) :
    Model.Entropy.instantiate (Cfg.doc I M) o = (none, o') := by
  unfold Model.Entropy.instantiate
  have c : (Cfg.doc I M).instSeedLen = 48 := rfl
  rw [c, h]

theorem instantiate_ok (I M : Nat) {o o' : Oracle} {seed : Bytes} (h : getEntropy 48 o = (some seed, o')) :
    ∃ d, Model.Entropy.instantiate (Cfg.doc I M) o = (some d, o') ∧
      absD d = HmacDrbg.instantiate (seed.take 32) (seed.drop 32) := by
  unfold Model.Entropy.instantiate
  have c : (Cfg.doc I M).instSeedLen = 48 := rfl
  have hl := getEntropy_length h
  rw [c, h]
  simp only [update_eq]
  refine ⟨_, rfl, ?_⟩
  have c2 : (Cfg.doc I M).instUpdateLen = 48 := rfl
  have : seed.take 48 = seed := by rw [← hl, List.take_length]
  rw [c2, this]
  simp [absD, HmacDrbg.instantiate, HmacDrbg.outlen, Cfg.doc]

theorem read_eq (I M : Nat) (hI0 : 0 < I) (hI : I + 1 < 2^32) (hM0 : 0 < M) (hM : M ≤ 65536)
    (st : St) (o : Oracle) (n : Nat) :
    mapSt abs (Model.Entropy.read (Cfg.doc I M) st o n) =
      HmacDrbg.Service.read (params I M) (abs st) o n := by
  unfold Model.Entropy.read HmacDrbg.Service.read
  have hp : (params I M).entropyLen + (params I M).nonceLen = 48 := rfl
  have hp1 : (params I M).entropyLen = 32 := rfl
  have hp2 : (params I M).maxRequest = M := rfl
  rw [hp, hp1, hp2]
  cases hinst : st.instantiated with
  | false =>
    have ha : abs st = none := by simp [abs, hinst]
    rw [ha]
    simp only [if_true]
    rcases hg : getEntropy 48 o with ⟨_ | seed, o'⟩
    · rw [instantiate_fail I M hg]; simp [mapSt, ha]
    · obtain ⟨d, hi, hd⟩ := instantiate_ok I M hg
      rw [hi]
      simp only []
      rw [← hd, ← readLoop_eq I M hI0 hI hM0 hM n d o' n (Nat.le_refl _)]
      generalize Model.Entropy.readLoop (Cfg.doc I M) n d o' n = r
      obtain ⟨r, d', o''⟩ := r
      simp [mapSt, abs]
  | true =>
    have ha : abs st = some (absD st.drbg) := by simp [abs, hinst]
    rw [ha]
    simp only [Bool.true_eq_false, if_false]
    rw [← readLoop_eq I M hI0 hI hM0 hM n st.drbg o n (Nat.le_refl _)]
    generalize Model.Entropy.readLoop (Cfg.doc I M) n st.drbg o n = r
    obtain ⟨r, d', o''⟩ := r
    simp [mapSt, abs]

/-- what `runFull` denotes on the specification side -/
theorem run_eq (I M : Nat) (hI0 : 0 < I) (hI : I + 1 < 2^32) (hM0 : 0 < M) (hM : M ≤ 65536) :
    ∀ (reqs : List Nat) (st : St) (o : Oracle),
      Model.Entropy.run (Cfg.doc I M) st o reqs = HmacDrbg.Service.run (params I M) (abs st) o reqs := by
  intro reqs
  induction reqs with
  | nil => intro st o; rfl
  | cons n ns ih =>
    intro st o
    have h := read_eq I M hI0 hI hM0 hM st o n
    unfold Model.Entropy.run at ih ⊢
    unfold Model.Entropy.runFull HmacDrbg.Service.run
    rw [← h]
    generalize Model.Entropy.read (Cfg.doc I M) st o n = r
    obtain ⟨r, st', o'⟩ := r
    simp only [mapSt]
    rw [← ih st' o']

theorem spec_hmac_length (k m : Bytes) : (HmacDrbg.hmac k m).length = 32 := hmac_length k m

theorem spec_update_length (data K V : Bytes) :
    (HmacDrbg.update data K V).1.length = 32 ∧ (HmacDrbg.update data K V).2.length = 32 := by
  unfold HmacDrbg.update
  split <;> simp [spec_hmac_length]

theorem blocks_length (K : Bytes) : ∀ (c : Nat) (V : Bytes), (HmacDrbg.blocks K c V).1.length = 32 * c := by
  intro c
  induction c with
  | zero => intro V; simp [HmacDrbg.blocks]
  | succ c ih =>
    intro V
    simp only [HmacDrbg.blocks, List.length_append, ih, spec_hmac_length]
    omega

theorem generateBits_length (s : State) (n : Nat) : (HmacDrbg.generateBits s n).1.length = n := by
  simp only [HmacDrbg.generateBits, HmacDrbg.outlen, List.length_take, blocks_length]
  omega

theorem generateBits_state (s : State) (n : Nat) :
    (HmacDrbg.generateBits s n).2.reseedCounter = s.reseedCounter + 1 ∧
    (HmacDrbg.generateBits s n).2.K.length = 32 ∧ (HmacDrbg.generateBits s n).2.V.length = 32 := by
  simp only [HmacDrbg.generateBits]
  exact ⟨trivial, (spec_update_length _ _ _).1, (spec_update_length _ _ _).2⟩

/-- a usable SP 800-90A working state for reseed interval `I`: seeded, and at most `I`
    Generate calls made since (the counter is one more than that number) -/
def InvS (I : Nat) (s : State) : Prop :=
  1 ≤ s.reseedCounter ∧ s.reseedCounter ≤ I + 1 ∧ s.K.length = 32 ∧ s.V.length = 32

theorem reseed_inv (I : Nat) (s : State) (e : Bytes) : InvS I (HmacDrbg.reseed s e) ∧ (HmacDrbg.reseed s e).reseedCounter = 1 := by
  simp only [HmacDrbg.reseed, InvS]
  refine ⟨⟨Nat.le_refl _, by omega, (spec_update_length _ _ _).1, (spec_update_length _ _ _).2⟩, trivial⟩

theorem instantiate_inv (I : Nat) (a b : Bytes) : InvS I (HmacDrbg.instantiate a b) ∧ (HmacDrbg.instantiate a b).reseedCounter = 1 := by
  simp only [HmacDrbg.instantiate, InvS]
  refine ⟨⟨Nat.le_refl _, by omega, (spec_update_length _ _ _).1, (spec_update_length _ _ _).2⟩, trivial⟩

theorem serve_props (I M : Nat) (hI0 : 0 < I) :
    ∀ (ps : List Nat) (s : State) (o : Oracle), (∀ n ∈ ps, n ≤ 65536) →
      ∀ r s' o', HmacDrbg.Service.serve (params I M) s o ps = (r, s', o') →
        r ≠ .abort ∧ (∀ out, r = .ok out → out.length = ps.sum) ∧ (InvS I s → InvS I s') ∧
        (r = .fail → s'.reseedCounter > I) := by
  intro ps
  induction ps with
  | nil =>
    intro s o _ r s' o' h
    simp [HmacDrbg.Service.serve] at h
    obtain ⟨rfl, rfl, rfl⟩ := h
    simp
  | cons n ns ih =>
    intro s o hps r s' o' h
    have hn : n ≤ 65536 := hps n (by simp)
    have hns : ∀ m ∈ ns, m ≤ 65536 := fun m hm => hps m (by simp [hm])
    rw [HmacDrbg.Service.serve] at h
    have hp1 : (params I M).reseedInterval = I := rfl
    have hp2 : (params I M).reseedLen = 32 := rfl
    rw [hp1, hp2] at h
    -- the tail of the call after a successful Generate from state `t`
    have tail : ∀ (t : State) (o1 : Oracle), (InvS I s → t.reseedCounter ≤ I ∧ 1 ≤ t.reseedCounter ∧ True) →
        HmacDrbg.Service.prepend (HmacDrbg.generateBits t n).1
          (HmacDrbg.Service.serve (params I M) (HmacDrbg.generateBits t n).2 o1 ns) = (r, s', o') →
        r ≠ .abort ∧ (∀ out, r = .ok out → out.length = (n :: ns).sum) ∧ (InvS I s → InvS I s') ∧
        (r = .fail → s'.reseedCounter > I) := by
      intro t o1 ht h
      rcases hs : HmacDrbg.Service.serve (params I M) (HmacDrbg.generateBits t n).2 o1 ns with ⟨r2, s2, o2⟩
      obtain ⟨a1, a2, a3, a4⟩ := ih _ _ hns _ _ _ hs
      rw [hs] at h
      have hinv : InvS I s → InvS I s2 := by
        intro hi
        apply a3
        obtain ⟨g1, g2, g3⟩ := generateBits_state t n
        have := ht hi
        exact ⟨by omega, by omega, g2, g3⟩
      cases r2 with
      | ok rest =>
        simp [HmacDrbg.Service.prepend] at h
        obtain ⟨rfl, rfl, rfl⟩ := h
        refine ⟨by simp, ?_, hinv, by simp⟩
        intro out ho
        simp at ho
        subst ho
        simp [generateBits_length, a2 rest rfl]
      | fail =>
        simp [HmacDrbg.Service.prepend] at h
        obtain ⟨rfl, rfl, rfl⟩ := h
        exact ⟨by simp, by simp, hinv, fun _ => a4 rfl⟩
      | abort => exact absurd rfl a1
    by_cases hc : s.reseedCounter > I
    · rw [spec_generate_reseed hn hc] at h
      simp only [] at h
      rcases hg : getEntropy 32 o with ⟨_ | e, o1⟩
      · rw [hg] at h
        simp at h
        obtain ⟨rfl, rfl, rfl⟩ := h
        exact ⟨by simp, by simp, id, fun _ => hc⟩
      · rw [hg] at h
        simp only [] at h
        have hr := (reseed_inv I s e).2
        rw [spec_generate_ok hn (by omega)] at h
        simp only [] at h
        exact tail _ _ (fun _ => ⟨by omega, by omega, trivial⟩) h
    · rw [spec_generate_ok hn (by omega)] at h
      simp only [] at h
      exact tail _ _ (fun hi => ⟨by omega, hi.1, trivial⟩) h

theorem pieces_le {M : Nat} (hM : 0 < M) (n : Nat) : ∀ k ∈ pieces M n, k ≤ M := by
  intro k hk
  unfold pieces at hk
  simp only [List.mem_append, List.mem_replicate] at hk
  rcases hk with ⟨_, rfl⟩ | hk
  · exact Nat.le_refl _
  · split at hk
    · simp at hk
    · simp at hk; subst hk; exact Nat.le_of_lt (Nat.mod_lt _ hM)

theorem pieces_sum (M n : Nat) : (pieces M n).sum = n := by
  unfold pieces
  have := Nat.div_add_mod n M
  split
  · simp [List.sum_replicate_nat]; rw [Nat.mul_comm]; omega
  · simp [List.sum_replicate_nat]; rw [Nat.mul_comm]; omega

theorem pieces_pos {M : Nat} (n : Nat) (hM : 0 < M) : ∀ k ∈ pieces M n, 0 < k := by
  intro k hk
  unfold pieces at hk
  simp only [List.mem_append, List.mem_replicate] at hk
  rcases hk with ⟨_, rfl⟩ | hk
  · exact hM
  · split at hk
    · simp at hk
    · simp at hk; subst hk; omega

theorem succ_mod {I : Nat} (hI : 0 < I) (j : Nat) :
    (j + 1) % I = if j % I + 1 = I then 0 else j % I + 1 := by
  have hlt := Nat.mod_lt j hI
  rw [Nat.add_mod]
  by_cases h1 : I = 1
  · subst h1; simp [Nat.mod_one]
  · have : 1 % I = 1 := Nat.mod_eq_of_lt (by omega)
    rw [this]
    split
    · next h => rw [h, Nat.mod_self]
    · next h => exact Nat.mod_eq_of_lt (by omega)

/-- the value of `reseed_counter` when `k` Generate calls have been made since instantiation and
    generate number `k+1` has not yet been preceded by its reseed -/
def ctrAt (I k : Nat) : Nat := if k = 0 then 1 else (k - 1) % I + 2

theorem ctrAt_gt {I : Nat} (hI : 0 < I) (k : Nat) : ctrAt I k > I ↔ (k > 0 ∧ k % I = 0) := by
  unfold ctrAt
  by_cases hk : k = 0
  · subst hk; simp; omega
  · obtain ⟨j, rfl⟩ : ∃ j, k = j + 1 := ⟨k - 1, by omega⟩
    have hlt := Nat.mod_lt j hI
    rw [if_neg hk, Nat.add_sub_cancel, succ_mod hI]
    split <;> omega

theorem ctrAt_succ {I : Nat} (hI : 0 < I) (k : Nat) (h : ¬ (k > 0 ∧ k % I = 0)) :
    ctrAt I (k + 1) = ctrAt I k + 1 := by
  unfold ctrAt
  by_cases hk : k = 0
  · subst hk; simp
  · obtain ⟨j, rfl⟩ : ∃ j, k = j + 1 := ⟨k - 1, by omega⟩
    have hlt := Nat.mod_lt j hI
    rw [if_neg (by omega), if_neg hk, Nat.add_sub_cancel, Nat.add_sub_cancel]
    rw [succ_mod hI] at h ⊢
    split <;> simp_all <;> omega

theorem ctrAt_succ_reseed {I : Nat} (k : Nat) (h : k > 0 ∧ k % I = 0) : ctrAt I (k + 1) = 2 := by
  unfold ctrAt
  rw [if_neg (by omega), Nat.add_sub_cancel, h.2]

theorem getEntropy_some (e : Bytes) (rest : Oracle) : getEntropy e.length (some e :: rest) = (some e, rest) := by
  simp [getEntropy]

theorem serve_scheduled (I M : Nat) (hI0 : 0 < I) :
    ∀ (ps : List Nat) (s : State) (seeds : List Bytes) (k : Nat) (out : Bytes) (s' : State)
      (seeds' : List Bytes) (k' : Nat),
      (∀ n ∈ ps, n ≤ 65536) → (∀ e ∈ seeds, e.length = 32) → s.reseedCounter = ctrAt I k →
      HmacDrbg.Scheduled.servePieces (params I M) s seeds k ps = some (out, s', seeds', k') →
      HmacDrbg.Service.serve (params I M) s (seeds.map some) ps = (.ok out, s', seeds'.map some) ∧
        s'.reseedCounter = ctrAt I k' ∧ (∀ e ∈ seeds', e.length = 32) := by
  intro ps
  induction ps with
  | nil =>
    intro s seeds k out s' seeds' k' _ hs hc h
    simp [HmacDrbg.Scheduled.servePieces] at h
    obtain ⟨rfl, rfl, rfl, rfl⟩ := h
    exact ⟨by simp [HmacDrbg.Service.serve], hc, hs⟩
  | cons n ns ih =>
    intro s seeds k out s' seeds' k' hps hs hc h
    have hn : n ≤ 65536 := hps n (by simp)
    have hns : ∀ m ∈ ns, m ≤ 65536 := fun m hm => hps m (by simp [hm])
    have hp1 : (params I M).reseedInterval = I := rfl
    have hp2 : (params I M).reseedLen = 32 := rfl
    rw [HmacDrbg.Scheduled.servePieces.eq_def] at h
    simp only [hp1] at h
    rw [HmacDrbg.Service.serve, hp1, hp2]
    by_cases hr : k > 0 ∧ k % I = 0
    · rw [if_pos hr] at h
      have hgt : s.reseedCounter > I := by rw [hc]; exact (ctrAt_gt hI0 k).mpr hr
      rw [spec_generate_reseed hn hgt]
      cases seeds with
      | nil => simp at h
      | cons e seeds1 =>
        simp only [] at h
        have he : e.length = 32 := hs e (by simp)
        have hs1 : ∀ x ∈ seeds1, x.length = 32 := fun x hx => hs x (by simp [hx])
        have hg : getEntropy 32 (List.map some (e :: seeds1)) = (some e, seeds1.map some) := by
          rw [← he]; exact getEntropy_some e _
        rw [hg]
        simp only []
        have hr1 := (reseed_inv I s e).2
        rw [spec_generate_ok hn (by omega)]
        simp only []
        rcases hrec : HmacDrbg.Scheduled.servePieces (params I M) (HmacDrbg.generateBits (HmacDrbg.reseed s e) n).2 seeds1 (k+1) ns with _ | ⟨rest, s2, sd2, k2⟩
        · rw [hrec] at h; simp at h
        · rw [hrec] at h
          simp at h
          obtain ⟨rfl, rfl, rfl, rfl⟩ := h
          have hc2 : (HmacDrbg.generateBits (HmacDrbg.reseed s e) n).2.reseedCounter = ctrAt I (k+1) := by
            rw [(generateBits_state _ _).1, hr1, ctrAt_succ_reseed k hr]
          obtain ⟨b1, b2, b3⟩ := ih _ _ _ _ _ _ _ hns hs1 hc2 hrec
          rw [b1]
          exact ⟨by simp [HmacDrbg.Service.prepend], b2, b3⟩
    · rw [if_neg hr] at h
      have hle : s.reseedCounter ≤ I := by
        have : ¬ ctrAt I k > I := fun hgt => hr ((ctrAt_gt hI0 k).mp hgt)
        rw [hc]; omega
      rw [spec_generate_ok hn hle]
      simp only [] at h ⊢
      rcases hrec : HmacDrbg.Scheduled.servePieces (params I M) (HmacDrbg.generateBits s n).2 seeds (k+1) ns with _ | ⟨rest, s2, sd2, k2⟩
      · rw [hrec] at h; simp at h
      · rw [hrec] at h
        simp at h
        obtain ⟨rfl, rfl, rfl, rfl⟩ := h
        have hc2 : (HmacDrbg.generateBits s n).2.reseedCounter = ctrAt I (k+1) := by
          rw [(generateBits_state _ _).1, hc, ctrAt_succ hI0 k hr]
        obtain ⟨b1, b2, b3⟩ := ih _ _ _ _ _ _ _ hns hs hc2 hrec
        rw [b1]
        exact ⟨by simp [HmacDrbg.Service.prepend], b2, b3⟩

theorem serve_reseed_fails (I M : Nat) :
    ∀ (ps : List Nat) (s : State) (o o' : Oracle), (∀ n ∈ ps, n ≤ 65536) →
      s.reseedCounter ≤ I + 1 → ps.length + s.reseedCounter > I + 1 → getEntropy 32 o = (none, o') →
      ∃ s', HmacDrbg.Service.serve (params I M) s o ps = (.fail, s', o') ∧ s'.reseedCounter = I + 1 := by
  intro ps
  induction ps with
  | nil => intro s o o' _ h1 h2 _; simp at h2; omega
  | cons n ns ih =>
    intro s o o' hps h1 h2 hg
    have hn : n ≤ 65536 := hps n (by simp)
    have hns : ∀ m ∈ ns, m ≤ 65536 := fun m hm => hps m (by simp [hm])
    have hp1 : (params I M).reseedInterval = I := rfl
    have hp2 : (params I M).reseedLen = 32 := rfl
    rw [HmacDrbg.Service.serve, hp1, hp2]
    by_cases hc : s.reseedCounter > I
    · rw [spec_generate_reseed hn hc, hg]
      exact ⟨s, rfl, by omega⟩
    · rw [spec_generate_ok hn (by omega)]
      simp only []
      have hcs := (generateBits_state s n).1
      obtain ⟨s', e1, e2⟩ := ih (HmacDrbg.generateBits s n).2 o o' hns (by omega)
        (by simp only [List.length_cons] at h2; omega) hg
      rw [e1]
      exact ⟨s', by simp [HmacDrbg.Service.prepend], e2⟩

theorem sread_some (p : Params) (s : State) (o : Oracle) (n : Nat) :
    HmacDrbg.Service.read p (some s) o n =
      ((HmacDrbg.Service.serve p s o (pieces p.maxRequest n)).1,
       some (HmacDrbg.Service.serve p s o (pieces p.maxRequest n)).2.1,
       (HmacDrbg.Service.serve p s o (pieces p.maxRequest n)).2.2) := by
  simp [HmacDrbg.Service.read]

theorem sread_none_ok (p : Params) {o o' : Oracle} {seed : Bytes} (n : Nat)
    (h : getEntropy (p.entropyLen + p.nonceLen) o = (some seed, o')) :
    HmacDrbg.Service.read p none o n =
      HmacDrbg.Service.read p (some (HmacDrbg.instantiate (seed.take p.entropyLen) (seed.drop p.entropyLen))) o' n := by
  simp [HmacDrbg.Service.read, h]

theorem sread_none_fail (p : Params) {o o' : Oracle} (n : Nat)
    (h : getEntropy (p.entropyLen + p.nonceLen) o = (none, o')) :
    HmacDrbg.Service.read p none o n = (.fail, none, o') := by
  simp [HmacDrbg.Service.read, h]

theorem calls_scheduled (I M : Nat) (hI0 : 0 < I) (hM0 : 0 < M) (hM : M ≤ 65536) :
    ∀ (reqs : List Nat) (s : State) (seeds : List Bytes) (k : Nat) (outs : List Bytes),
      (∀ e ∈ seeds, e.length = 32) → s.reseedCounter = ctrAt I k →
      HmacDrbg.Scheduled.calls (params I M) s seeds k reqs = some outs →
      HmacDrbg.Service.run (params I M) (some s) (seeds.map some) reqs = outs.map .ok := by
  intro reqs
  induction reqs with
  | nil =>
    intro s seeds k outs _ _ h
    simp [HmacDrbg.Scheduled.calls] at h
    subst h
    rfl
  | cons n ns ih =>
    intro s seeds k outs hs hc h
    rw [HmacDrbg.Scheduled.calls] at h
    have hp : (params I M).maxRequest = M := rfl
    rw [hp] at h
    rcases hsp : HmacDrbg.Scheduled.servePieces (params I M) s seeds k (pieces M n) with _ | ⟨out, s1, seeds1, k1⟩
    · rw [hsp] at h; simp at h
    · rw [hsp] at h
      simp only [] at h
      rcases hrec : HmacDrbg.Scheduled.calls (params I M) s1 seeds1 k1 ns with _ | outs1
      · rw [hrec] at h; simp at h
      · rw [hrec] at h
        simp at h
        subst h
        have hle : ∀ x ∈ pieces M n, x ≤ 65536 := fun x hx => Nat.le_trans (pieces_le hM0 n x hx) hM
        obtain ⟨a1, a2, a3⟩ := serve_scheduled I M hI0 _ _ _ _ _ _ _ _ hle hs hc hsp
        rw [HmacDrbg.Service.run, sread_some, hp, a1]
        simp only [List.map_cons]
        rw [ih s1 seeds1 k1 outs1 a3 a2 hrec]

theorem run_scheduled (I M : Nat) (hI0 : 0 < I) (hM0 : 0 < M) (hM : M ≤ 65536)
    (seed0 : Bytes) (seeds : List Bytes) (reqs : List Nat) (outs : List Bytes)
    (h0 : seed0.length = 48) (hs : ∀ e ∈ seeds, e.length = 32)
    (h : HmacDrbg.Scheduled.run (params I M) seed0 seeds reqs = some outs) :
    HmacDrbg.Service.run (params I M) none (some seed0 :: seeds.map some) reqs = outs.map .ok := by
  cases reqs with
  | nil =>
    simp [HmacDrbg.Scheduled.run] at h
    subst h; rfl
  | cons n ns =>
    simp only [HmacDrbg.Scheduled.run] at h
    have hg : getEntropy ((params I M).entropyLen + (params I M).nonceLen) (some seed0 :: seeds.map some)
        = (some seed0, seeds.map some) := by
      have : (params I M).entropyLen + (params I M).nonceLen = seed0.length := by rw [h0]; rfl
      rw [this]; exact getEntropy_some _ _
    have := calls_scheduled I M hI0 hM0 hM (n :: ns) _ seeds 0 outs hs (instantiate_inv I _ _).2 h
    rw [HmacDrbg.Service.run, sread_none_ok _ n hg]
    rw [HmacDrbg.Service.run] at this
    exact this

/-- the static state is usable: if instantiated, the counter is between 1 and `I + 1` and
    Key, V are 32 bytes -/
def Inv (I : Nat) (st : St) : Prop :=
  st.instantiated = true →
    1 ≤ st.drbg.reseedCounter.toNat ∧ st.drbg.reseedCounter.toNat ≤ I + 1 ∧
    st.drbg.key.length = 32 ∧ st.drbg.v.length = 32

theorem inv_iff (I : Nat) (st : St) : Inv I st ↔ ∀ s, abs st = some s → InvS I s := by
  unfold Inv abs InvS absD
  cases st.instantiated <;> simp

theorem sread_props_some (I M : Nat) (hI0 : 0 < I) (hM0 : 0 < M) (hM : M ≤ 65536)
    (t : State) (o : Oracle) (n : Nat) (r : Outcome) (s' : Option State) (o' : Oracle)
    (h : HmacDrbg.Service.read (params I M) (some t) o n = (r, s', o')) :
    r ≠ .abort ∧ (∀ out, r = .ok out → out.length = n) ∧
    (∃ x, s' = some x ∧ (InvS I t → InvS I x) ∧ (r = .fail → x.reseedCounter > I)) := by
  have hp : (params I M).maxRequest = M := rfl
  have hle : ∀ x ∈ pieces M n, x ≤ 65536 := fun x hx => Nat.le_trans (pieces_le hM0 n x hx) hM
  rw [sread_some, hp] at h
  rcases hs : HmacDrbg.Service.serve (params I M) t o (pieces M n) with ⟨r1, t1, o1⟩
  rw [hs] at h
  simp at h
  obtain ⟨rfl, rfl, rfl⟩ := h
  obtain ⟨a1, a2, a3, a4⟩ := serve_props I M hI0 _ _ _ hle _ _ _ hs
  refine ⟨a1, ?_, t1, rfl, a3, a4⟩
  intro out ho; rw [a2 out ho, pieces_sum]

theorem sread_props (I M : Nat) (hI0 : 0 < I) (hM0 : 0 < M) (hM : M ≤ 65536)
    (s : Option State) (o : Oracle) (n : Nat) (r : Outcome) (s' : Option State) (o' : Oracle)
    (h : HmacDrbg.Service.read (params I M) s o n = (r, s', o')) :
    r ≠ .abort ∧ (∀ out, r = .ok out → out.length = n ∧ s'.isSome = true) ∧
    ((∀ x, s = some x → InvS I x) → ∀ x, s' = some x → InvS I x) ∧
    (r = .fail → (s = none ∧ s' = none) ∨ (∃ x, s' = some x ∧ x.reseedCounter > I)) := by
  cases s with
  | some t =>
    obtain ⟨a1, a2, x, rfl, a3, a4⟩ := sread_props_some I M hI0 hM0 hM t o n r s' o' h
    refine ⟨a1, fun out ho => ⟨a2 out ho, rfl⟩, ?_, fun hf => Or.inr ⟨x, rfl, a4 hf⟩⟩
    intro hi y hy; simp at hy; subst hy; exact a3 (hi t rfl)
  | none =>
    rcases hg : getEntropy ((params I M).entropyLen + (params I M).nonceLen) o with ⟨_ | seed, o1⟩
    · rw [sread_none_fail _ n hg] at h
      simp at h
      obtain ⟨rfl, rfl, rfl⟩ := h
      simp
    · rw [sread_none_ok _ n hg] at h
      obtain ⟨a1, a2, x, rfl, a3, a4⟩ := sread_props_some I M hI0 hM0 hM _ o1 n r s' o' h
      refine ⟨a1, fun out ho => ⟨a2 out ho, rfl⟩, ?_, fun hf => Or.inr ⟨x, rfl, a4 hf⟩⟩
      intro _ y hy; simp at hy; subst hy; exact a3 (instantiate_inv I _ _).1

/-- a call that leaves the generator un-instantiated has failed and has changed nothing -/
theorem read_uninst (c : Cfg) (st : St) (o : Oracle) (n : Nat) (r : Outcome) (st' : St) (o' : Oracle)
    (h : Model.Entropy.read c st o n = (r, st', o')) (hu : st'.instantiated = false) :
    r = .fail ∧ st' = st := by
  unfold Model.Entropy.read at h
  split at h
  · split at h
    · simp at h; exact ⟨h.1.symm, h.2.1.symm⟩
    · simp at h; obtain ⟨_, rfl, _⟩ := h; simp at hu
  · next hi =>
    simp at h; obtain ⟨_, rfl, _⟩ := h; simp at hu; simp [hu] at hi

theorem read_props (I M : Nat) (hI0 : 0 < I) (hI : I + 1 < 2^32) (hM0 : 0 < M) (hM : M ≤ 65536)
    (st : St) (o : Oracle) (n : Nat) (r : Outcome) (st' : St) (o' : Oracle)
    (h : Model.Entropy.read (Cfg.doc I M) st o n = (r, st', o')) :
    r ≠ .abort ∧ (∀ out, r = .ok out → out.length = n ∧ st'.instantiated = true) ∧
    (Inv I st → Inv I st') ∧
    (r = .fail → (st'.instantiated = false ∧ st' = st) ∨
                 (st'.instantiated = true ∧ st'.drbg.reseedCounter.toNat > I)) := by
  have he := read_eq I M hI0 hI hM0 hM st o n
  rw [h] at he
  simp only [mapSt] at he
  obtain ⟨a1, a2, a3, a4⟩ := sread_props I M hI0 hM0 hM _ _ _ _ _ _ he.symm
  refine ⟨a1, ?_, ?_, ?_⟩
  · intro out ho
    obtain ⟨b1, b2⟩ := a2 out ho
    refine ⟨b1, ?_⟩
    unfold abs at b2
    cases hi : st'.instantiated <;> simp [hi] at b2 ⊢
  · intro hi
    rw [inv_iff] at hi ⊢
    exact a3 hi
  · intro hf
    cases hi : st'.instantiated with
    | false => exact Or.inl ⟨rfl, (read_uninst _ _ _ _ _ _ _ h hi).2⟩
    | true =>
      refine Or.inr ⟨rfl, ?_⟩
      rcases a4 hf with ⟨_, hn⟩ | ⟨x, hx, hc⟩
      · simp [abs, hi] at hn
      · simp [abs, hi] at hx; subst hx; exact hc

theorem read_instantiate_fails (I M : Nat) (st : St) {o o' : Oracle} (n : Nat)
    (hu : st.instantiated = false) (hg : getEntropy 48 o = (none, o')) :
    Model.Entropy.read (Cfg.doc I M) st o n = (.fail, st, o') := by
  unfold Model.Entropy.read
  rw [if_pos hu, instantiate_fail I M hg]

theorem read_reseed_fails (I M : Nat) (hI0 : 0 < I) (hI : I + 1 < 2^32) (hM0 : 0 < M) (hM : M ≤ 65536)
    (st : St) {o o' : Oracle} (n : Nat) (hi : st.instantiated = true)
    (hc : st.drbg.reseedCounter.toNat ≤ I + 1)
    (hn : (pieces M n).length + st.drbg.reseedCounter.toNat > I + 1)
    (hg : getEntropy 32 o = (none, o')) :
    ∃ st', Model.Entropy.read (Cfg.doc I M) st o n = (.fail, st', o') ∧ st'.instantiated = true ∧
      st'.drbg.reseedCounter.toNat = I + 1 := by
  have he := read_eq I M hI0 hI hM0 hM st o n
  have ha : abs st = some (absD st.drbg) := by simp [abs, hi]
  have hp : (params I M).maxRequest = M := rfl
  have hle : ∀ x ∈ pieces M n, x ≤ 65536 := fun x hx => Nat.le_trans (pieces_le hM0 n x hx) hM
  obtain ⟨s', e1, e2⟩ := serve_reseed_fails I M (pieces M n) (absD st.drbg) o o' hle hc hn hg
  rw [ha, sread_some, hp, e1] at he
  rcases hr : Model.Entropy.read (Cfg.doc I M) st o n with ⟨r, st', o2⟩
  rw [hr] at he
  simp [mapSt] at he
  obtain ⟨rfl, h2, rfl⟩ := he
  refine ⟨st', rfl, ?_⟩
  unfold abs at h2
  cases hi' : st'.instantiated <;> simp [hi'] at h2
  subst h2
  exact ⟨rfl, e2⟩

theorem runFull_inv (I M : Nat) (hI0 : 0 < I) (hI : I + 1 < 2^32) (hM0 : 0 < M) (hM : M ≤ 65536) :
    ∀ (reqs : List Nat) (st : St) (o : Oracle), Inv I st →
      Inv I (Model.Entropy.runFull (Cfg.doc I M) st o reqs).2.1 := by
  intro reqs
  induction reqs with
  | nil => intro st o h; exact h
  | cons n ns ih =>
    intro st o h
    unfold Model.Entropy.runFull
    rcases hr : Model.Entropy.read (Cfg.doc I M) st o n with ⟨r, st', o'⟩
    simp only []
    exact ih st' o' ((read_props I M hI0 hI hM0 hM _ _ _ _ _ _ hr).2.2.1 h)

theorem run_outcomes (I M : Nat) (hI0 : 0 < I) (hI : I + 1 < 2^32) (hM0 : 0 < M) (hM : M ≤ 65536) :
    ∀ (reqs : List Nat) (st : St) (o : Oracle),
      (Model.Entropy.run (Cfg.doc I M) st o reqs).length = reqs.length ∧
      ∀ r n, (r, n) ∈ (Model.Entropy.run (Cfg.doc I M) st o reqs).zip reqs →
        r ≠ .abort ∧ ∀ out, r = .ok out → out.length = n := by
  intro reqs
  induction reqs with
  | nil => intro st o; simp [Model.Entropy.run, Model.Entropy.runFull]
  | cons n ns ih =>
    intro st o
    unfold Model.Entropy.run at ih ⊢
    unfold Model.Entropy.runFull
    rcases hr : Model.Entropy.read (Cfg.doc I M) st o n with ⟨r, st', o'⟩
    simp only []
    obtain ⟨l, hz⟩ := ih st' o'
    refine ⟨by simp [l], ?_⟩
    intro r2 m hm
    simp only [List.zip_cons_cons, List.mem_cons] at hm
    rcases hm with hm | hm
    · simp at hm
      obtain ⟨rfl, rfl⟩ := hm
      have := read_props I M hI0 hI hM0 hM _ _ _ _ _ _ hr
      exact ⟨this.1, fun out ho => (this.2.1 out ho).1⟩
    · exact hz r2 m hm

theorem inv_init (I : Nat) : Inv I St.init := by
  intro h; simp [St.init] at h

/-! ## One call = the same request made in pieces of `GENERATE_MAXLEN` bytes (`readChunked`) -/

section Chunks
open Percival.Model.Entropy (readLoop readChunked chunkSizes prepend reseed generate)

theorem readLoop_zero (c : Cfg) (f : Nat) (d : Drbg) (o : Oracle) : readLoop c f d o 0 = (.ok [], d, o) := by
  cases f <;> simp [readLoop]

/-- one turn of the `while` loop -/
theorem readLoop_succ (c : Cfg) (f : Nat) (d : Drbg) (o : Oracle) (n : Nat) (hn : n ≠ 0) :
    readLoop c (f+1) d o n =
      match (if d.reseedCounter.toNat > c.reseedInterval then reseed c d o else (some d, o)) with
      | (none, o') => (.fail, d, o')
      | (some d, o) =>
        match generate c d (if n > c.generateMaxlen then c.generateMaxlen else n) with
        | none => (.abort, d, o)
        | some (out, d) =>
          prepend out (readLoop c f d o (n - (if n > c.generateMaxlen then c.generateMaxlen else n))) := by
  simp only [readLoop, hn, if_false]
  rcases (if d.reseedCounter.toNat > c.reseedInterval then reseed c d o else (some d, o)) with ⟨_ | d1, o1⟩
  · rfl
  · simp only
    rcases generate c d1 (if n > c.generateMaxlen then c.generateMaxlen else n) with _ | ⟨out, d2⟩
    · rfl
    · simp only [prepend]
      rcases readLoop c f d2 o1 (n - (if n > c.generateMaxlen then c.generateMaxlen else n)) with ⟨r | _ | _, d3, o3⟩ <;> rfl

/-- the loop does not depend on its fuel once there is enough of it -/
theorem readLoop_fuel (c : Cfg) (hM : 0 < c.generateMaxlen) :
    ∀ (f1 f2 : Nat) (d : Drbg) (o : Oracle) (n : Nat), n ≤ f1 → n ≤ f2 →
      readLoop c f1 d o n = readLoop c f2 d o n := by
  intro f1
  induction f1 with
  | zero =>
    intro f2 d o n h1 h2
    have : n = 0 := by omega
    subst this
    rw [readLoop_zero, readLoop_zero]
  | succ f1 ih =>
    intro f2 d o n h1 h2
    by_cases hn : n = 0
    · subst hn; rw [readLoop_zero, readLoop_zero]
    · obtain ⟨f2, rfl⟩ : ∃ k, f2 = k + 1 := ⟨f2 - 1, by omega⟩
      have key : ∀ d' o', readLoop c f1 d' o' (n - (if n > c.generateMaxlen then c.generateMaxlen else n))
          = readLoop c f2 d' o' (n - (if n > c.generateMaxlen then c.generateMaxlen else n)) := by
        intro d' o'
        apply ih <;> (split <;> omega)
      rw [readLoop_succ c f1 d o n hn, readLoop_succ c f2 d o n hn]
      simp only [key]

/-- a request of more than `GENERATE_MAXLEN` bytes: the loop serves the first `GENERATE_MAXLEN` bytes exactly as a
    request for those alone, and goes on from the state and OS answers that request leaves -/
theorem readLoop_split (c : Cfg) (hM : 0 < c.generateMaxlen) (d : Drbg) (o : Oracle) (n : Nat)
    (hn : n > c.generateMaxlen) :
    readLoop c n d o n =
      match readLoop c c.generateMaxlen d o c.generateMaxlen with
      | (.ok out, d', o') => prepend out (readLoop c (n - c.generateMaxlen) d' o' (n - c.generateMaxlen))
      | r => r := by
  obtain ⟨k, rfl⟩ : ∃ k, n = k + 1 := ⟨n - 1, by omega⟩
  have hfirst : readLoop c c.generateMaxlen d o c.generateMaxlen =
      readLoop c (c.generateMaxlen - 1 + 1) d o c.generateMaxlen := by
    rw [Nat.sub_add_cancel hM]
  rw [hfirst, readLoop_succ c k d o (k+1) (by omega), readLoop_succ c _ d o c.generateMaxlen (by omega)]
  simp only [hn, if_true, Nat.lt_irrefl, if_false, Nat.sub_self, readLoop_zero, gt_iff_lt]
  have key : ∀ d' o', readLoop c k d' o' (k + 1 - c.generateMaxlen)
      = readLoop c (k + 1 - c.generateMaxlen) d' o' (k + 1 - c.generateMaxlen) := by
    intro d' o'
    apply readLoop_fuel c hM <;> omega
  simp only [key]
  split
  · rfl
  · split
    · rfl
    · simp [prepend]

/-- the same at the level of `crypto_entropy_read` (instantiation included) -/
theorem read_split (c : Cfg) (hM : 0 < c.generateMaxlen) (st : St) (o : Oracle) (n : Nat)
    (hn : n > c.generateMaxlen) :
    Model.Entropy.read c st o n =
      match Model.Entropy.read c st o c.generateMaxlen with
      | (.ok out, st', o') => prepend out (Model.Entropy.read c st' o' (n - c.generateMaxlen))
      | r => r := by
  unfold Model.Entropy.read
  by_cases hi : st.instantiated = false
  · simp only [hi, if_true]
    rcases hinst : Model.Entropy.instantiate c o with ⟨_ | d, o1⟩
    · rfl
    · simp only [readLoop_split c hM d o1 n hn]
      rcases h1 : readLoop c c.generateMaxlen d o1 c.generateMaxlen with ⟨r | _ | _, d1, o2⟩
      · simp only [Bool.true_eq_false, if_false]
        rcases h2 : readLoop c (n - c.generateMaxlen) d1 o2 (n - c.generateMaxlen) with ⟨r2 | _ | _, d2, o3⟩ <;> rfl
      · rfl
      · rfl
  · obtain ⟨dr, inst⟩ := st
    have : inst = true := by simpa using hi
    subst this
    simp only [Bool.true_eq_false, if_false, readLoop_split c hM dr o n hn]
    rcases h1 : readLoop c c.generateMaxlen dr o c.generateMaxlen with ⟨r | _ | _, d1, o2⟩
    · simp only [Bool.true_eq_false, if_false]
      rcases h2 : readLoop c (n - c.generateMaxlen) d1 o2 (n - c.generateMaxlen) with ⟨r2 | _ | _, d2, o3⟩ <;> rfl
    · rfl
    · rfl

/-- **one call = the chunked sequence**, for every configuration with a positive piece size, every state (instantiated
    or not, any counter), every script of OS answers (failures anywhere) and every length: outcome (bytes, or the
    failure), state afterwards and unused OS answers are those of the calls for `GENERATE_MAXLEN` bytes each and the
    final shorter one, stopped at the first that fails -/
theorem readChunked_eq (c : Cfg) (hM : 0 < c.generateMaxlen) :
    ∀ (fuel : Nat) (st : St) (o : Oracle) (n : Nat), n ≤ fuel → readChunked c fuel st o n = Model.Entropy.read c st o n := by
  intro fuel
  induction fuel with
  | zero =>
    intro st o n h
    have : n = 0 := by omega
    subst this
    simp [readChunked]
  | succ fuel ih =>
    intro st o n h
    by_cases hn : n > c.generateMaxlen
    · simp only [readChunked, hn, if_true]
      rw [read_split c hM st o n hn]
      rcases h1 : Model.Entropy.read c st o c.generateMaxlen with ⟨r | _ | _, st1, o1⟩
      · simp only
        rw [ih st1 o1 (n - c.generateMaxlen) (by omega)]
      · rfl
      · rfl
    · simp only [readChunked, hn, if_false]

/-- the calls of the chunked sequence: none asks for more than `GENERATE_MAXLEN`, all but the last for exactly that,
    together for `n` bytes -/
theorem chunkSizes_spec (M : Nat) (hM : 0 < M) : ∀ (fuel n : Nat), n ≤ fuel →
    (∀ k ∈ chunkSizes M fuel n, k ≤ M) ∧ (chunkSizes M fuel n).sum = n ∧
    (chunkSizes M fuel n).length = (n - 1) / M + 1 := by
  intro fuel
  induction fuel with
  | zero =>
    intro n h
    have : n = 0 := by omega
    subst this
    simp [chunkSizes]
  | succ fuel ih =>
    intro n h
    by_cases hn : n > M
    · obtain ⟨i1, i2, i3⟩ := ih (n - M) (by omega)
      simp only [chunkSizes, hn, if_true, List.mem_cons, List.sum_cons, List.length_cons]
      refine ⟨?_, by omega, ?_⟩
      · rintro k (rfl | hk)
        · exact Nat.le_refl _
        · exact i1 k hk
      · rw [i3]
        have : n - 1 = (n - M - 1) + M := by omega
        rw [this, Nat.add_div_right _ hM]
    · simp only [chunkSizes, hn, if_false, List.mem_singleton, List.sum_singleton, List.length_singleton]
      refine ⟨by rintro k rfl; omega, trivial, ?_⟩
      have : (n - 1) / M = 0 := Nat.div_eq_of_lt (by omega)
      omega

end Chunks

end Percival.Proofs.Entropy
