import Percival.Proofs.AfMonRel
import Percival.Proofs.EvRegAcct
/-!
# C14, `af` protocol: the answer to `end` (accounting piece of the monitor-soundness relation), part A

`stepOp s .end_ = (releaseAll s, .end_ live n)` and the monitor accepts iff `live = 0`.  This file proves that
`releaseAll` leaves no block: **`AcctRel s → Side s → (releaseAll s).m.live = 0`**, where

* `AcctRel s` — the accounting piece: the oracle's ghost counter is exactly what the event layer holds
  (`EvRegAcct.evBlocks`) plus what the pointer heap holds (`heapBlocks`), `AcctInv`, the 32 queues exist, and every
  descriptor registration of the event layer is in the harness' list `s.net`;
* `Side s` — the invariants of the registry piece (`AfMonRel.RegRel`) that the argument uses.

Part B (`AfMonEndB.lean`) proves that `AcctRel` is kept by every other operation.
-/
namespace Percival.Proofs.AfMonEnd
open Percival.Model Percival.Model.EvReg Percival.Model.AfStep
open Percival.Spec.AfMon (Op Ans MState monStep MAXID)
open Percival.Proofs.EvRegNet (regNet NetInv netRegistered)
open Percival.Proofs.EvRegTimer (regImm regTimers TmInv)
open Percival.Proofs.EvRegAcct
open Percival.Proofs.AfMonRel

/-! ### the relation -/

/-- blocks held by the harness' pointer heap: `struct ptrheap`, `struct elasticarray`, the buffer -/
def heapBlocks : Option HeapAlloc.HeapA → Int
  | none => 0
  | some ha => 2 + bb ha.alloc

/-- the accounting piece of the state relation (it does not mention the monitor's state) -/
structure AcctRel (s : S) : Prop where
  /-- every live block is a block of the event layer or of the pointer heap -/
  live : s.m.live = evBlocks s.ev + heapBlocks s.h
  acct : AcctInv s.ev
  /-- the 32 immediate queues exist (`events_immediate_register` asserts `prio < 32`) -/
  heads : s.ev.heads.length = 32
  /-- what is registered for a descriptor is in the harness' list -/
  net : ∀ fd w, netRegistered s.ev fd w → (fd, w) ∈ s.net

/-- the invariants of the registry piece (`RegRel`) used here -/
structure Side (s : S) : Prop where
  netInv : NetInv s.ev
  tmInv : TmInv s.ev s.m
  immNd : (regImm s.ev).flatten.Nodup
  disj : ∀ i, i ∈ (regImm s.ev).flatten → i ∉ regTimers s.ev

theorem side_of_regRel {s : S} {ms : MState} (h : RegRel s ms) : Side s :=
  ⟨h.netInv, h.tmInv, h.immNd, h.disj⟩

theorem acctRel_init : AcctRel ({} : S) :=
  ⟨by decide, acctInv_init, by decide, fun fd w h => by
    obtain ⟨id, hid⟩ := h
    simp [regNet, registry, netOf] at hid⟩

theorem side_init : Side ({} : S) :=
  ⟨Percival.Proofs.EvRegNet.netInv_init, Percival.Proofs.EvRegTimer.tmInv_init _, by decide, fun i h => by
    simp [regTimers, registry]⟩

/-! ### the event layer along `release_all` -/

/-- everything the argument carries about an event state and the oracle, `c` blocks being held elsewhere -/
structure EvGood (c : Int) (e : Ev) (m : Mem) : Prop where
  live : m.live = evBlocks e + c
  acct : AcctInv e
  netInv : NetInv e
  tmInv : TmInv e m
  immNd : (regImm e).flatten.Nodup
  disj : ∀ i, i ∈ (regImm e).flatten → i ∉ regTimers e

/-- nothing new is registered -/
structure Shrinks (e e' : Ev) : Prop where
  imm : ∀ i, i ∈ (regImm e').flatten → i ∈ (regImm e).flatten
  tm : ∀ i, i ∈ regTimers e' → i ∈ regTimers e
  net : ∀ x, x ∈ regNet e' → x ∈ regNet e

theorem Shrinks.refl (e : Ev) : Shrinks e e := ⟨fun _ h => h, fun _ h => h, fun _ h => h⟩

theorem Shrinks.trans {a b c : Ev} (h1 : Shrinks a b) (h2 : Shrinks b c) : Shrinks a c :=
  ⟨fun i h => h1.imm i (h2.imm i h), fun i h => h1.tm i (h2.tm i h), fun x h => h1.net x (h2.net x h)⟩

theorem regImm_of_heads {e e' : Ev} (h : e'.heads = e.heads) : regImm e' = regImm e := by
  simp only [regImm, registry, h]

theorem regTimers_of_timers {e e' : Ev} (h : e'.timers = e.timers) : regTimers e' = regTimers e := by
  simp only [regTimers, registry, h]

theorem regNet_of_socks {e e' : Ev} (h : e'.socks = e.socks) : regNet e' = regNet e := by
  simp only [regNet, registry, h]

theorem mem_regImm_flatten (e : Ev) (i : Nat) : i ∈ (regImm e).flatten ↔ ∃ ent ∈ e.heads.flatten, ent.id = i := by
  simp only [regImm, registry, ← List.map_flatten, List.mem_map]

theorem immCancel_none (e : Ev) (id : Nat) (m : Mem) (h : id ∉ (regImm e).flatten) : immCancel e id m = none := by
  unfold immCancel
  cases hfind : e.heads.flatten.find? (·.id == id) with
  | none => rfl
  | some ent =>
    exfalso
    apply h
    rw [mem_regImm_flatten]
    exact ⟨ent, List.mem_of_find?_eq_some hfind, by simpa using List.find?_some hfind⟩

theorem tmCancel_none (e : Ev) (id : Nat) (m : Mem) (h : id ∉ regTimers e) : tmCancel e id m = none := by
  unfold tmCancel
  cases hfind : e.timers.find? (·.id == id) with
  | none => rfl
  | some ent =>
    exfalso
    apply h
    simp only [regTimers, registry, List.mem_map]
    exact ⟨ent, List.mem_of_find?_eq_some hfind, by simpa using List.find?_some hfind⟩

theorem flatten_map_filter {α : Type} (p : α → Bool) (l : List (List α)) :
    (l.map (·.filter p)).flatten = l.flatten.filter p := by
  rw [List.filter_flatten]

/-- one step of the first loop of `release_all`: cancel the immediate event `id`, else the timer `id` -/
def cancelId (em : Ev × Mem) (id : Nat) : Ev × Mem :=
  match immCancel em.1 id em.2 with
  | some r => r
  | none => match tmCancel em.1 id em.2 with
    | some r => r
    | none => em

theorem cancelId_spec (c : Int) (e : Ev) (m : Mem) (id : Nat) (h : EvGood c e m) :
    EvGood c (cancelId (e, m) id).1 (cancelId (e, m) id).2 ∧ Shrinks e (cancelId (e, m) id).1 ∧
    id ∉ (regImm (cancelId (e, m) id).1).flatten ∧ id ∉ regTimers (cancelId (e, m) id).1 := by
  by_cases h1 : id ∈ (regImm e).flatten
  · obtain ⟨e', m', hc, hreg, htq, htm, hsa, hso, hfd, hfa, _, hn, _⟩ :=
      Percival.Proofs.EvRegTimer.immCancel_ok e id m h1
    have heq : cancelId (e, m) id = (e', m') := by simp only [cancelId, hc]
    rw [heq]
    dsimp only
    have hfl : (regImm e').flatten = (regImm e).flatten.filter (· != id) := by rw [hreg, flatten_map_filter]
    have hT := regTimers_of_timers htm
    have hsub : ∀ i, i ∈ (regImm e').flatten → i ∈ (regImm e).flatten := fun i hi => by
      rw [hfl] at hi; exact (List.mem_filter.1 hi).1
    have l1 := immCancel_acct e id m h.immNd hc
    refine ⟨⟨?_, immCancel_acctInv e id m h.acct hc, Percival.Proofs.EvRegNet.netInv_congr e e' h.netInv hsa hso hfd hfa,
        Percival.Proofs.EvRegTimer.tmInv_congr e e' m m' h.tmInv htq htm hn, ?_, ?_⟩,
      ⟨hsub, fun i hi => by rw [hT] at hi; exact hi, fun x hx => by rw [regNet_of_socks hso] at hx; exact hx⟩, ?_, ?_⟩
    · have := h.live; omega
    · rw [hfl]; exact h.immNd.filter _
    · intro i hi; rw [hT]; exact h.disj i (hsub i hi)
    · rw [hfl]; simp
    · rw [hT]; exact h.disj id h1
  · have hc1 := immCancel_none e id m h1
    by_cases h2 : id ∈ regTimers e
    · obtain ⟨e', m', hc, hti, hreg, hhe, _, _, hsa, hso, hfd, hfa, _, hn⟩ :=
        Percival.Proofs.EvRegTimer.tmCancel_ok e id m h.tmInv h2
      have heq : cancelId (e, m) id = (e', m') := by simp only [cancelId, hc1, hc]
      rw [heq]
      dsimp only
      have hI := regImm_of_heads hhe
      have l1 := tmCancel_acct e id m h.tmInv hc
      refine ⟨⟨?_, tmCancel_acctInv e id m h.acct hc, Percival.Proofs.EvRegNet.netInv_congr e e' h.netInv hsa hso hfd hfa,
          hti, by rw [hI]; exact h.immNd, ?_⟩,
        ⟨fun i hi => by rw [hI] at hi; exact hi, fun i hi => by rw [hreg] at hi; exact (List.mem_filter.1 hi).1,
          fun x hx => by rw [regNet_of_socks hso] at hx; exact hx⟩, by rw [hI]; exact h1, ?_⟩
      · have := h.live; omega
      · intro i hi hi'
        rw [hI] at hi; rw [hreg] at hi'
        exact h.disj i hi (List.mem_filter.1 hi').1
      · rw [hreg]; simp
    · have hc2 := tmCancel_none e id m h2
      have heq : cancelId (e, m) id = (e, m) := by simp only [cancelId, hc1, hc2]
      rw [heq]
      exact ⟨h, Shrinks.refl e, h1, h2⟩

theorem foldl_cancelId (c : Int) : ∀ (l : List Nat) (e : Ev) (m : Mem), EvGood c e m →
    EvGood c (l.foldl cancelId (e, m)).1 (l.foldl cancelId (e, m)).2 ∧ Shrinks e (l.foldl cancelId (e, m)).1 ∧
    ∀ id ∈ l, id ∉ (regImm (l.foldl cancelId (e, m)).1).flatten ∧ id ∉ regTimers (l.foldl cancelId (e, m)).1
  | [], e, m, h => ⟨h, Shrinks.refl e, fun _ hx => by cases hx⟩
  | id :: l, e, m, h => by
    obtain ⟨g1, s1, n1, n2⟩ := cancelId_spec c e m id h
    rw [List.foldl_cons]
    rcases hr : cancelId (e, m) id with ⟨e1, m1⟩
    rw [hr] at g1 s1 n1 n2
    obtain ⟨g2, s2, n3⟩ := foldl_cancelId c l e1 m1 g1
    refine ⟨g2, s1.trans s2, fun x hx => ?_⟩
    rcases List.mem_cons.1 hx with rfl | hx
    · exact ⟨fun hh => n1 (s2.imm _ hh), fun hh => n2 (s2.tm _ hh)⟩
    · exact n3 x hx

/-! ### descriptor registrations -/

/-- `events_network_cancel` on any descriptor, registered or not: the invariant stays, nothing new is registered,
and afterwards nothing is registered for that descriptor and direction -/
theorem netCancel_any (e : Ev) (s : Nat) (w : Bool) (m : Mem) (h : NetInv e) :
    NetInv (netCancel e s w m).2.1 ∧ (∀ x, x ∈ regNet (netCancel e s w m).2.1 → x ∈ regNet e) ∧
    ¬ netRegistered (netCancel e s w m).2.1 s w := by
  by_cases hreg : netRegistered e s w
  · obtain ⟨id, hid⟩ := hreg
    obtain ⟨_, hinv, hperm⟩ := Percival.Proofs.EvRegNet.netCancel_ok e s id w m h hid
    have hnd : ((s, w, id) :: regNet (netCancel e s w m).2.1).Nodup :=
      hperm.nodup_iff.1 (Percival.Proofs.EvRegNet.regNet_nodup e)
    have hsub : ∀ x, x ∈ regNet (netCancel e s w m).2.1 → x ∈ regNet e := fun x hx =>
      hperm.mem_iff.2 (List.mem_cons_of_mem _ hx)
    refine ⟨hinv, hsub, ?_⟩
    rintro ⟨id', hid'⟩
    have := Percival.Proofs.EvRegNet.regNet_unique e s w id' id (hsub _ hid') hid
    subst this
    exact (List.nodup_cons.1 hnd).1 hid'
  · -- nothing registered: the call stops after `init()`
    have hi := (Percival.Proofs.EvRegNet.netInit_spec e m).2.2.2.2.2.2 h
    have hev : (netCancel e s w m).2.1 = (netInit e m).2.1 := by
      have hnr : ¬ netRegistered (netInit e m).2.1 s w := by
        simpa only [netRegistered, regNet, hi.2] using hreg
      rw [Percival.Proofs.EvRegNet.netRegistered_iff] at hnr
      unfold netCancel
      rcases hni : netInit e m with ⟨ok0, e0, m0⟩
      rw [hni] at hnr
      dsimp only at hnr ⊢
      cases ok0
      · rfl
      · dsimp only
        cases hs : e0.socks[s]? with
        | none => rfl
        | some rec =>
          dsimp only
          cases hsl : slot rec w with
          | none => rfl
          | some p =>
            exfalso
            exact hnr ⟨rec, hs, by simp [hsl]⟩
    rw [hev]
    refine ⟨hi.1, fun x hx => by simpa only [regNet, hi.2] using hx, ?_⟩
    simpa only [netRegistered, regNet, hi.2] using hreg

/-- one step of the second loop of `release_all` -/
def cancelSock (em : Ev × Mem) (sw : Nat × Bool) : Ev × Mem :=
  match netCancel em.1 sw.1 sw.2 em.2 with
  | (_, e', m') => (e', m')

theorem cancelSock_eq (e : Ev) (m : Mem) (sw : Nat × Bool) :
    cancelSock (e, m) sw = ((netCancel e sw.1 sw.2 m).2.1, (netCancel e sw.1 sw.2 m).2.2) := rfl

theorem cancelSock_spec (c : Int) (e : Ev) (m : Mem) (sw : Nat × Bool) (h : EvGood c e m) :
    EvGood c (cancelSock (e, m) sw).1 (cancelSock (e, m) sw).2 ∧ Shrinks e (cancelSock (e, m) sw).1 ∧
    ¬ netRegistered (cancelSock (e, m) sw).1 sw.1 sw.2 := by
  rw [cancelSock_eq]
  dsimp only
  obtain ⟨hinv, hsub, hnot⟩ := netCancel_any e sw.1 sw.2 m h.netInv
  obtain ⟨hhe, _, htq, htm, _⟩ := Percival.Proofs.EvRegNet.netCancel_other e sw.1 sw.2 m
  obtain ⟨_, hn, _⟩ := Percival.Proofs.EvRegNet.netCancel_mono e sw.1 sw.2 m
  have l1 := netCancel_acct e sw.1 sw.2 m h.acct
  have hI := regImm_of_heads hhe
  have hT := regTimers_of_timers htm
  refine ⟨⟨?_, netCancel_acctInv e sw.1 sw.2 m h.acct, hinv,
      Percival.Proofs.EvRegTimer.tmInv_congr e _ m _ h.tmInv htq htm hn, by rw [hI]; exact h.immNd, ?_⟩,
    ⟨fun i hi => by rw [hI] at hi; exact hi, fun i hi => by rw [hT] at hi; exact hi, hsub⟩, hnot⟩
  · have := h.live; omega
  · intro i hi; rw [hI] at hi; rw [hT]; exact h.disj i hi

theorem foldl_cancelSock (c : Int) : ∀ (l : List (Nat × Bool)) (e : Ev) (m : Mem), EvGood c e m →
    EvGood c (l.foldl cancelSock (e, m)).1 (l.foldl cancelSock (e, m)).2 ∧ Shrinks e (l.foldl cancelSock (e, m)).1 ∧
    ∀ sw ∈ l, ¬ netRegistered (l.foldl cancelSock (e, m)).1 sw.1 sw.2
  | [], e, m, h => ⟨h, Shrinks.refl e, fun _ hx => by cases hx⟩
  | sw :: l, e, m, h => by
    obtain ⟨g1, s1, n1⟩ := cancelSock_spec c e m sw h
    rw [List.foldl_cons]
    rcases hr : cancelSock (e, m) sw with ⟨e1, m1⟩
    rw [hr] at g1 s1 n1
    obtain ⟨g2, s2, n3⟩ := foldl_cancelSock c l e1 m1 g1
    refine ⟨g2, s1.trans s2, fun x hx => ?_⟩
    rcases List.mem_cons.1 hx with rfl | hx
    · rintro ⟨id, hid⟩
      exact n1 ⟨id, s2.net _ hid⟩
    · exact n3 x hx

/-! ### `release_all` -/

/-- the ids `release_all` walks through -/
def relIds (s : S) : List Nat :=
  ((s.ev.heads.flatten.map (·.id)) ++ (s.ev.timers.map (·.id))).mergeSort (· ≤ ·)

/-- the descriptor registrations `release_all` walks through -/
def relSocks (s : S) : List (Nat × Bool) :=
  s.net.mergeSort (fun a b => a.1 < b.1 || (a.1 == b.1 && (!a.2 || b.2)))

/-- event layer and oracle after the two loops of `release_all` -/
def relEv (s : S) : Ev × Mem :=
  (relSocks s).foldl cancelSock ((relIds s).foldl cancelId (s.ev, { s.m with f := DsStep.sched 0 0 0 }))

/-- the oracle after `release_all` -/
def relMem (s : S) : Mem :=
  match s.h with
  | some ha => HeapAlloc.free ha (shutdown (relEv s).1 (relEv s).2).2
  | none => (shutdown (relEv s).1 (relEv s).2).2

theorem releaseAll_m (s : S) : (releaseAll s).m = relMem s := rfl

theorem releaseAll_rest (s : S) :
    (releaseAll s).h = none ∧ (releaseAll s).ev = {} ∧ (releaseAll s).net = [] ∧ (releaseAll s).hlive = [] := ⟨rfl, rfl, rfl, rfl⟩

theorem heapFree_live (ha : HeapAlloc.HeapA) (m : Mem) : (HeapAlloc.free ha m).live = m.live - heapBlocks (some ha) := by
  simp only [HeapAlloc.free, free_live, eaFree_live, HeapAlloc.shape, heapBlocks]
  simp; omega

/-- after the two loops nothing is registered, and the oracle's counter is still event layer + heap -/
theorem relEv_spec (s : S) (ha : AcctRel s) (hs : Side s) :
    EvGood (heapBlocks s.h) (relEv s).1 (relEv s).2 ∧ (regImm (relEv s).1).flatten = [] ∧
    regTimers (relEv s).1 = [] ∧ regNet (relEv s).1 = [] := by
  have g0 : EvGood (heapBlocks s.h) s.ev { s.m with f := DsStep.sched 0 0 0 } :=
    ⟨ha.live, ha.acct, hs.netInv, ⟨hs.tmInv.noq, hs.tmInv.tq, hs.tmInv.lt, hs.tmInv.nodup⟩, hs.immNd, hs.disj⟩
  obtain ⟨g1, s1, n1⟩ := foldl_cancelId _ (relIds s) s.ev _ g0
  rcases hr1 : (relIds s).foldl cancelId (s.ev, { s.m with f := DsStep.sched 0 0 0 }) with ⟨e1, m1⟩
  rw [hr1] at g1 s1 n1
  dsimp only at g1 s1 n1
  obtain ⟨g2, s2, n2⟩ := foldl_cancelSock _ (relSocks s) e1 m1 g1
  have hre : relEv s = (relSocks s).foldl cancelSock (e1, m1) := by rw [relEv, hr1]
  rw [← hre] at g2 s2 n2
  -- every registered id is walked through
  have hids : ∀ i, i ∈ (regImm s.ev).flatten ∨ i ∈ regTimers s.ev → i ∈ relIds s := by
    intro i hi
    simp only [relIds, List.mem_mergeSort, List.mem_append]
    simpa only [regImm, regTimers, registry, ← List.map_flatten] using hi
  have h1 : (regImm e1).flatten = [] :=
    List.eq_nil_iff_forall_not_mem.2 fun i hi => (n1 i (hids i (Or.inl (s1.imm i hi)))).1 hi
  have h2 : regTimers e1 = [] :=
    List.eq_nil_iff_forall_not_mem.2 fun i hi => (n1 i (hids i (Or.inr (s1.tm i hi)))).2 hi
  refine ⟨g2, List.eq_nil_iff_forall_not_mem.2 fun i hi => ?_, List.eq_nil_iff_forall_not_mem.2 fun i hi => ?_,
    List.eq_nil_iff_forall_not_mem.2 fun x hx => ?_⟩
  · have := s2.imm i hi; rw [h1] at this; cases this
  · have := s2.tm i hi; rw [h2] at this; cases this
  · obtain ⟨fd, w, id⟩ := x
    have hin : (fd, w) ∈ relSocks s := by
      simp only [relSocks, List.mem_mergeSort]
      exact ha.net fd w ⟨id, s1.net _ (s2.net _ hx)⟩
    exact n2 (fd, w) hin ⟨id, hx⟩

/-- **`release_all` leaves no block allocated** -/
theorem releaseAll_live (s : S) (ha : AcctRel s) (hs : Side s) : (releaseAll s).m.live = 0 := by
  obtain ⟨g, h3, h2, h1⟩ := relEv_spec s ha hs
  have hsd := shutdown_acct (relEv s).1 (relEv s).2 g.netInv g.tmInv g.acct h1 h2 h3
  have hl := g.live
  rw [releaseAll_m, relMem]
  cases hh : s.h with
  | none =>
    rw [hh] at hl
    simp only [heapBlocks] at hl
    dsimp only
    omega
  | some hp =>
    rw [hh] at hl
    dsimp only
    rw [heapFree_live]
    omega

/-- the state after `end` satisfies the accounting relation again -/
theorem releaseAll_acctRel (s : S) (ha : AcctRel s) (hs : Side s) : AcctRel (releaseAll s) := by
  obtain ⟨r1, r2, r3, _⟩ := releaseAll_rest s
  refine ⟨?_, by rw [r2]; exact acctInv_init, by rw [r2]; decide, fun fd w h => ?_⟩
  · rw [releaseAll_live s ha hs, r1, r2, evBlocks_init]; rfl
  · rw [r2] at h
    obtain ⟨id, hid⟩ := h
    simp [regNet, registry, netOf] at hid

/-- **the monitor accepts the model's answer to `end`** (for every monitor state) -/
theorem accepts_end (s : S) (ms : MState) (ha : AcctRel s) (hs : Side s) : Accepts s ms .end_ := by
  have h := releaseAll_live s ha hs
  simp [Accepts, ansOf, stepOp, Out.ans, monStep, h]

theorem accepts_end_of_regRel (s : S) (ms : MState) (hr : RegRel s ms) (ha : AcctRel s) : Accepts s ms .end_ :=
  accepts_end s ms ha (side_of_regRel hr)

end Percival.Proofs.AfMonEnd
