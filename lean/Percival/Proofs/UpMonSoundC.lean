import Percival.Proofs.UpMonSoundB
/-!
# C14, component `upstart` — part C: the objects the harness can name

`Vis t k c`: the object `c` of kind `k` exists in the tables `t` and is not owned by another object (a read
started by a buffered reader belongs to that reader, a write to its writer, a connection attempt to its HTTP
request): exactly the objects the harness holds a handle for.  `delta`: one call changes this set by the object
it returns (`addOf`) and the object it releases (`delOf`), nothing else.
-/
namespace Percival.Proofs.UpMonSound
open Percival.Model Percival.Model.EvReg Percival.Model.AllocFail Percival.Model.UpStep
open Percival.Proofs.AllocFailUpper
open Percival.Model.Connect (AddrOutcome)

/-- the kinds of objects (one handle table of the harness each) -/
inductive K where
  | rd | wr | acc | conn | nbr | nbw | http
  deriving DecidableEq, Repr

def Vis (t : Tables) : K → Nat → Prop
  | .rd, c => c ∈ t.reads.map (·.cookie) ∧ ∀ r ∈ t.readers, r.readCookie ≠ some c
  | .wr, c => c ∈ t.writes.map (·.cookie) ∧ ∀ x ∈ t.writers, Run.ownW x ≠ some c
  | .acc, c => c ∈ t.accepts.map (·.cookie)
  | .conn, c => c ∈ t.conns.map (·.cookie) ∧ ∀ x ∈ t.https, x.conn ≠ some c
  | .nbr, c => c ∈ t.readers.map (·.id)
  | .nbw, c => c ∈ t.writers.map (·.id)
  | .http, c => c ∈ t.https.map (·.cookie)

/-- the object a successful start / init call adds -/
def addOf : LOp → Option Nat → Option (K × Nat)
  | .read _, some c => some (.rd, c)
  | .write _, some c => some (.wr, c)
  | .accept _, some c => some (.acc, c)
  | .connect _ _ _, some c => some (.conn, c)
  | .nbrInit _, some c => some (.nbr, c)
  | .nbwInit _, some c => some (.nbw, c)
  | .http _ _ _, some c => some (.http, c)
  | .https _ _ _ _, some c => some (.http, c)
  | _, _ => none

/-- the object a release call removes -/
def delOf : LOp → Option (K × Nat)
  | .readCancel c => some (.rd, c)
  | .writeCancel c => some (.wr, c)
  | .acceptCancel c => some (.acc, c)
  | .connectCancel c => some (.conn, c)
  | .nbrFree c => some (.nbr, c)
  | .nbwFree c => some (.nbw, c)
  | .httpCancel c => some (.http, c)
  | _ => none

/-! ## lists with distinct keys -/

section
variable {α : Type} (k : α → Nat)

theorem forall_split {l : List α} {a : α} (hnd : (l.map k).Nodup) (ha : a ∈ l) (P : α → Prop) :
    (∀ y ∈ l, P y) ↔ ((∀ y ∈ l, k y ≠ k a → P y) ∧ P a) := by
  constructor
  · intro h; exact ⟨fun y hy _ => h y hy, h a ha⟩
  · rintro ⟨h1, h2⟩ y hy
    by_cases hk : k y = k a
    · have : y = a := by
        clear h1 h2
        induction l with
        | nil => cases hy
        | cons x rest ih =>
          simp only [List.map_cons, List.nodup_cons] at hnd
          rcases List.mem_cons.1 hy with rfl | hy' <;> rcases List.mem_cons.1 ha with rfl | ha'
          · rfl
          · exact absurd (hk ▸ List.mem_map_of_mem ha') hnd.1
          · exact absurd (hk ▸ List.mem_map_of_mem hy') hnd.1
          · exact ih hnd.2 ha' hy'
      exact this ▸ h2
    · exact h1 y hy hk

theorem forall_upd {l : List α} {a a' : α} (ha : a ∈ l) (hid : k a' = k a) (P : α → Prop) :
    (∀ y ∈ l.map (fun x => if k x == k a' then a' else x), P y) ↔ ((∀ y ∈ l, k y ≠ k a → P y) ∧ P a') := by
  simp only [List.mem_map, forall_exists_index, and_imp, hid]
  constructor
  · intro h
    refine ⟨fun y hy hne => ?_, ?_⟩
    · have := h y y hy
      simpa [hne] using this
    · have := h a' a ha
      simpa using this
  · rintro ⟨h1, h2⟩ y x hx rfl
    by_cases hk : k x = k a
    · simpa [hk] using h2
    · simpa [hk] using h1 x hx hk

theorem forall_filter_ne {l : List α} (c : Nat) (P : α → Prop) :
    (∀ y ∈ l.filter (fun x => k x != c), P y) ↔ (∀ y ∈ l, k y ≠ c → P y) := by
  simp [List.mem_filter]

theorem map_upd {l : List α} {a' : α} : (l.map (fun x => if k x == k a' then a' else x)).map k = l.map k := by
  induction l with
  | nil => rfl
  | cons x rest ih =>
    simp only [List.map_cons, ih, List.cons.injEq, and_true]
    by_cases h : k x = k a' <;> simp [h]

theorem mem_map_filter_ne {l : List α} (c c0 : Nat) :
    c ∈ (l.filter (fun x => k x != c0)).map k ↔ c ∈ l.map k ∧ c ≠ c0 := by
  simp only [List.mem_map, List.mem_filter, bne_iff_ne, ne_eq]
  constructor
  · rintro ⟨a, ⟨ha, hne⟩, rfl⟩; exact ⟨⟨a, ha, rfl⟩, hne⟩
  · rintro ⟨⟨a, ha, rfl⟩, hne⟩; exact ⟨a, ⟨ha, hne⟩, rfl⟩

end

/-- a cookie has one owner -/
theorem owner_unique {α : Type} (own : α → Option Nat) : ∀ {l : List α}, (l.filterMap own).Nodup → ∀ {a b : α},
    a ∈ l → b ∈ l → ∀ {c : Nat}, own a = some c → own b = some c → a = b
  | [], _, _, _, ha, _, _, _, _ => by cases ha
  | z :: rest, hnd, a, b, ha, hb, c, h1, h2 => by
    rcases List.mem_cons.1 ha with rfl | ha' <;> rcases List.mem_cons.1 hb with rfl | hb'
    · rfl
    · simp only [List.filterMap_cons, h1, List.nodup_cons] at hnd
      exact absurd (List.mem_filterMap.2 ⟨b, hb', h2⟩) hnd.1
    · simp only [List.filterMap_cons, h2, List.nodup_cons] at hnd
      exact absurd (List.mem_filterMap.2 ⟨a, ha', h1⟩) hnd.1
    · refine owner_unique own ?_ ha' hb' h1 h2
      simp only [List.filterMap_cons] at hnd
      split at hnd
      · exact hnd
      · exact (List.nodup_cons.1 hnd).2

/-- the tables have distinct keys and the references between objects resolve (from `Inv`) -/
structure TOk (t : Tables) : Prop where
  ndReads : (t.reads.map (·.cookie)).Nodup
  ndWrites : (t.writes.map (·.cookie)).Nodup
  ndAccepts : (t.accepts.map (·.cookie)).Nodup
  ndConns : (t.conns.map (·.cookie)).Nodup
  ndReaders : (t.readers.map (·.id)).Nodup
  ndWriters : (t.writers.map (·.id)).Nodup
  ndHttps : (t.https.map (·.cookie)).Nodup
  refs : Refs t

theorem tOk_of_inv {w : World} (h : Inv w) : TOk (tables w) := by
  obtain ⟨h1, h2, h3, h4, h5, h6, h7⟩ := nd_of_inv h
  exact ⟨h1, h2, h3, h4, h5, h6, h7, h.refs⟩

theorem unownedR_of_fresh {t : Tables} (ht : TOk t) {c : Nat} (hf : ∀ a ∈ t.reads, a.cookie ≠ c) :
    ∀ r ∈ t.readers, r.readCookie ≠ some c :=
  fun r hr hc => hf _ (ht.refs.rdRef r hr c hc) rfl

theorem unownedW_of_fresh {t : Tables} (ht : TOk t) {c : Nat} (hf : ∀ a ∈ t.writes, a.cookie ≠ c) :
    ∀ x ∈ t.writers, Run.ownW x ≠ some c := by
  intro x hx hc
  unfold Run.ownW at hc
  cases hcur : x.curr with
  | none => rw [hcur] at hc; cases hc
  | some p =>
    obtain ⟨wb, c'⟩ := p
    rw [hcur] at hc
    simp only [Option.map_some, Option.some.injEq] at hc
    subst hc
    exact hf _ (ht.refs.wrRef x hx wb c' hcur) rfl

theorem unownedC_of_fresh {t : Tables} (ht : TOk t) {c : Nat} (hf : ∀ a ∈ t.conns, a.cookie ≠ c) :
    ∀ x ∈ t.https, x.conn ≠ some c := by
  intro x hx hc
  obtain ⟨k, hk, hkc⟩ := ht.refs.htRef x hx c hc
  exact hf k hk hkc

def Delta (t t' : Tables) (add del : Option (K × Nat)) : Prop :=
  ∀ k c, Vis t' k c ↔ ((Vis t k c ∧ del ≠ some (k, c)) ∨ add = some (k, c))

theorem delta {t t' : Tables} {c0 : LOp} {rc : Rc} {o : Option Nat} (hev : Ev t c0 rc o t') (ht : TOk t) :
    Delta t t' (addOf c0 o) (delOf c0) := by
  cases hev with
  | same c0 rc hrel =>
    intro k c
    cases c0 <;> first | (simp [addOf, delOf]; done) | cases hrel
  | read fd c1 hf =>
    intro k c
    have hu := unownedR_of_fresh ht hf
    cases k <;> simp [Vis, addOf, delOf]
    grind
  | write fd c1 hf =>
    intro k c
    have hu := unownedW_of_fresh ht hf
    cases k <;> simp [Vis, addOf, delOf]
    grind
  | accept fd c1 hf =>
    intro k c
    cases k <;> simp [Vis, addOf, delOf]
    grind
  | connect a tm s c1 k1 hk hf =>
    intro k c
    have hu := unownedC_of_fresh ht hf
    cases k <;> simp [Vis, addOf, delOf]
    grind
  | nbrInit fd c1 r hid hfd hc hf =>
    intro k c
    cases k <;> simp [Vis, addOf, delOf, hc, hid]
    grind
  | nbwInit fd c1 x hid hfd hc hres hf =>
    intro k c
    have hown : Run.ownW x = none := by simp [Run.ownW, hc]
    cases k <;> simp [Vis, addOf, delOf, hown, hid]
    grind
  | http c0 a l s x hd c1 ho k1 hc0 hk hfc hfx =>
    intro k c
    have hu := unownedC_of_fresh ht hfc
    rcases hc0 with rfl | ⟨hl, rfl⟩
    · cases k <;> simp [Vis, addOf, delOf]
      all_goals grind
    · cases k <;> simp [Vis, addOf, delOf]
      all_goals grind
  | readCancel c1 hun =>
    intro k c
    cases k <;> simp [Vis, addOf, delOf]
    grind
  | writeCancel c1 hun =>
    intro k c
    cases k <;> simp [Vis, addOf, delOf]
    grind
  | acceptCancel c1 =>
    intro k c
    cases k <;> simp [Vis, addOf, delOf]
    grind
  | connectCancel c1 hun =>
    intro k c
    cases k <;> simp [Vis, addOf, delOf]
    grind
  | nbrUpd len rc r r' hr hc hid hfd hc' =>
    intro k c
    have e1 : ∀ c, (∀ y ∈ updReader t.readers r', ¬ y.readCookie = some c) ↔ (∀ y ∈ t.readers, ¬ y.readCookie = some c) := by
      intro c; unfold updReader
      have s1 := forall_split Reader.id ht.ndReaders hr (fun y => ¬ y.readCookie = some c)
      rw [forall_upd Reader.id hr hid, s1]; simp [hc, hc']
    have e2 : (updReader t.readers r').map (·.id) = t.readers.map (·.id) := map_upd Reader.id
    cases k <;> simp [Vis, addOf, delOf, e1, e2]
  | nbrRead len r r' c1 hr hc hid hfd hc' hf =>
    intro k c
    have hu := unownedR_of_fresh ht hf
    have e1 : ∀ c, (∀ y ∈ updReader t.readers r', ¬ y.readCookie = some c) ↔
        ((∀ y ∈ t.readers, ¬ y.readCookie = some c) ∧ ¬ c1 = c) := by
      intro c; unfold updReader
      have s1 := forall_split Reader.id ht.ndReaders hr (fun y => ¬ y.readCookie = some c)
      rw [forall_upd Reader.id hr hid, s1]; simp [hc, hc']
    have e2 : (updReader t.readers r').map (·.id) = t.readers.map (·.id) := map_upd Reader.id
    cases k <;> simp [Vis, addOf, delOf, e1, e2]
    grind
  | nbrCancel r hr =>
    intro k c
    have e1 : ∀ c, (∀ y ∈ updReader t.readers { r with readCookie := none, immediate := false }, ¬ y.readCookie = some c) ↔
        (∀ y ∈ t.readers, y.id ≠ r.id → ¬ y.readCookie = some c) := by
      intro c; unfold updReader
      rw [forall_upd Reader.id (a' := { r with readCookie := none, immediate := false }) hr rfl]; simp
    have s1 := fun c => forall_split Reader.id ht.ndReaders hr (fun y => ¬ y.readCookie = some c)
    have e2 : (updReader t.readers { r with readCookie := none, immediate := false }).map (·.id) = t.readers.map (·.id) :=
      map_upd Reader.id
    have hown : ∀ c1, r.readCookie = some c1 → ∀ y ∈ t.readers, y.id ≠ r.id → ¬ y.readCookie = some c1 := by
      intro c1 h1 y hy hne h2
      exact hne (owner_unique (·.readCookie) ht.refs.rdOwn hy hr h2 h1 ▸ rfl)
    cases hrc : r.readCookie with
    | none =>
      cases k <;> simp [Vis, addOf, delOf, e1, e2]
      rw [s1 c]; simp [hrc]
    | some c1 =>
      have ho := hown c1 hrc
      cases k <;> simp [Vis, addOf, delOf, e1, e2]
      rw [s1 c]; simp only [hrc]
      grind
  | nbrFree r hr hc =>
    intro k c
    have e1 : ∀ c, (∀ y ∈ t.readers.filter (fun x => x.id != r.id), ¬ y.readCookie = some c) ↔
        (∀ y ∈ t.readers, ¬ y.readCookie = some c) := by
      intro c
      have s1 := forall_split Reader.id ht.ndReaders hr (fun y => ¬ y.readCookie = some c)
      rw [forall_filter_ne Reader.id r.id, s1]; simp [hc]
    have e2 := fun c => mem_map_filter_ne (l := t.readers) Reader.id c r.id
    cases k <;> simp only [Vis, addOf, delOf, e1, e2] <;> simp
    grind
  | nbwReserve len x q hx hres hq =>
    intro k c
    have e1 : ∀ c, (∀ y ∈ updWriter t.writers { x with reserved := true, queue := q }, ¬ Run.ownW y = some c) ↔
        (∀ y ∈ t.writers, ¬ Run.ownW y = some c) := by
      intro c; unfold updWriter
      have s1 := forall_split Writer.id ht.ndWriters hx (fun y => ¬ Run.ownW y = some c)
      rw [forall_upd Writer.id (a' := { x with reserved := true, queue := q }) hx rfl, s1]; simp [Run.ownW]
    have e2 : (updWriter t.writers { x with reserved := true, queue := q }).map (·.id) = t.writers.map (·.id) :=
      map_upd Writer.id
    cases k <;> simp [Vis, addOf, delOf, e1, e2]
  | nbwUpd c0 rc len x x' hc0 hx hid hfd hres hc =>
    intro k c
    have e1 : ∀ c, (∀ y ∈ updWriter t.writers x', ¬ Run.ownW y = some c) ↔
        (∀ y ∈ t.writers, ¬ Run.ownW y = some c) := by
      intro c; unfold updWriter
      have s1 := forall_split Writer.id ht.ndWriters hx (fun y => ¬ Run.ownW y = some c)
      rw [forall_upd Writer.id hx hid, s1]; simp [Run.ownW, hc]
    have e2 : (updWriter t.writers x').map (·.id) = t.writers.map (·.id) := map_upd Writer.id
    rcases hc0 with rfl | rfl <;> cases k <;> simp [Vis, addOf, delOf, e1, e2]
  | nbwStart c0 len x x' wb c1 hc0 hx hid hfd hres hc hc' hf =>
    intro k c
    have hu := unownedW_of_fresh ht hf
    have e1 : ∀ c, (∀ y ∈ updWriter t.writers x', ¬ Run.ownW y = some c) ↔
        ((∀ y ∈ t.writers, ¬ Run.ownW y = some c) ∧ ¬ c1 = c) := by
      intro c; unfold updWriter
      have s1 := forall_split Writer.id ht.ndWriters hx (fun y => ¬ Run.ownW y = some c)
      rw [forall_upd Writer.id hx hid, s1]; simp [Run.ownW, hc, hc']
    have e2 : (updWriter t.writers x').map (·.id) = t.writers.map (·.id) := map_upd Writer.id
    rcases hc0 with rfl | rfl <;> cases k <;> simp [Vis, addOf, delOf, e1, e2]
    all_goals grind
  | nbwFree x hx =>
    intro k c
    have e1 := fun c => forall_filter_ne (l := t.writers) Writer.id x.id (fun y => ¬ Run.ownW y = some c)
    have s1 := fun c => forall_split Writer.id ht.ndWriters hx (fun y => ¬ Run.ownW y = some c)
    have e2 := fun c => mem_map_filter_ne (l := t.writers) Writer.id c x.id
    cases hcur : x.curr with
    | none =>
      have hown : Run.ownW x = none := by simp [Run.ownW, hcur]
      cases k <;> simp only [Vis, addOf, delOf, e1, e2] <;> simp
      · rw [s1 c]; simp [hown]
      · grind
    | some p =>
      obtain ⟨wb, c1⟩ := p
      have hown : Run.ownW x = some c1 := by simp [Run.ownW, hcur]
      have e3 := fun c => mem_map_filter_ne (l := t.writes) NetReq.cookie c c1
      cases k <;> simp only [Vis, addOf, delOf, e1, e2, e3] <;> simp
      · rw [s1 c]; simp only [hown]; grind
      · grind
  | httpCancel x hx =>
    intro k c
    have e1 := fun c => forall_filter_ne (l := t.https) Http.cookie x.cookie (fun y => ¬ y.conn = some c)
    have s1 := fun c => forall_split Http.cookie ht.ndHttps hx (fun y => ¬ y.conn = some c)
    have e2 := fun c => mem_map_filter_ne (l := t.https) Http.cookie c x.cookie
    cases hcur : x.conn with
    | none =>
      cases k <;> simp only [Vis, addOf, delOf, e1, e2] <;> simp
      · rw [s1 c]; simp [hcur]
      · grind
    | some c1 =>
      have e3 := fun c => mem_map_filter_ne (l := t.conns) Conn.cookie c c1
      cases k <;> simp only [Vis, addOf, delOf, e1, e2, e3] <;> simp
      · rw [s1 c]; simp only [hcur]; grind
      · grind

end Percival.Proofs.UpMonSound
