import Percival.Proofs.Sha256Transform
import Percival.Proofs.Counters
import Percival.Proofs.HmacStream
/-! `Model.Sha256.alg` refines `Spec.Sha256.params` (helper lemmas for C01). -/
namespace Percival.Proofs.Sha256T
open Percival Percival.Model.Sha256
open Percival.Spec (Bytes)

/-- the eight state words as `H₀ … H₇` -/
def R (s : State) : Spec.Sha256.Regs := regsAt s 0

theorem regsAt_ofFn (f : Fin 8 → UInt32) :
    regsAt (Vector.ofFn f) 0 = ⟨f 0, f 1, f 2, f 3, f 4, f 5, f 6, f 7⟩ := by
  simp [regsAt, slot, Fin.getElem_fin, Vector.getElem_ofFn]

/-- **P2**: the C's macro-structured `SHA256_Transform` is the FIPS 180-4 compression function -/
theorem transform_eq (s : State) (b : Bytes) (hb : b.length = 64) :
    R (transform s b) = Spec.Sha256.compress (R s) b := by
  unfold transform Spec.Sha256.compress R
  simp only
  rw [regsAt_ofFn, rounds_spec _ b hb, ← mix_spec]
  generalize mix s (decodeBlock b) = S
  simp only [Spec.Sha256.addRegs, regsAt, slot, Fin.getElem_fin]
  simp only [Spec.Sha256.Regs.mk.injEq]
  refine ⟨?_, ?_, ?_, ?_, ?_, ?_, ?_, ?_⟩ <;> exact UInt32.add_comm _ _

theorem toList8 (v : Vector UInt32 8) : v.toList = [v[0], v[1], v[2], v[3], v[4], v[5], v[6], v[7]] := by
  obtain ⟨⟨l⟩, h⟩ := v
  match l, h with
  | [_, _, _, _, _, _, _, _], _ => rfl

theorem digest_eq (s : State) : digest s = Spec.Sha256.out (R s) := by
  unfold digest Spec.Sha256.out R regsAt
  rw [toList8]
  simp [List.flatMap_cons, slot, Fin.getElem_fin]
  rfl

theorem init_eq : R initialState = Spec.Sha256.H0 := by decide

def refines : MDStream.Refines alg Spec.Sha256.params where
  R := R
  init := init_eq
  transform := transform_eq
  digest := digest_eq
  PAD := by decide
  cnt := Counters.cnt64OK

theorem hash_len (m : Bytes) : (Spec.Sha256.hash m).length = 32 := by
  unfold Spec.Sha256.hash Spec.MD.hash
  simp [Spec.Sha256.params, Spec.Sha256.out, Spec.be32enc]

def hashOK : HmacStream.HashOK Model.Hmac.sha256 Spec.Sha256.params where
  rf := refines
  final := fun c msg h => MDStream.final256_eq_hash refines c msg h
  hlen := hash_len
  hlen_le := by decide

end Percival.Proofs.Sha256T
