import Percival.Proofs.HeapRun
/-!
# C13 helper lemmas, part 7: the timer queue on top of the heap
-/
namespace Percival.Proofs.TQ
open Percival.Model Percival.Model.TimerQueue Percival.Proofs.Heap Percival.Spec Percival.Spec.PQ

/-- timer-queue invariant: the heap invariant under the records' times, and every record in the
heap has a binding (time + stored pointer) -/
structure TQInv (q : TQ) : Prop where
  inv : Inv (key q.recs) q.h
  bound : ∀ r ∈ q.h.a.toList, ∃ x, lookup q.recs r = some x

theorem lookup_cons (recs : List (Nat × Rec)) (r r' : Nat) (x : Rec) :
    lookup ((r, x) :: recs) r' = if r' = r then some x else lookup recs r' := by
  unfold lookup
  simp only [List.find?_cons]
  by_cases h : r' = r
  · subst h; simp
  · have : (r == r') = false := by simp; omega
    simp [this, h]

theorem key_cons_ne (recs : List (Nat × Rec)) (r r' : Nat) (x : Rec) (h : r' ≠ r) :
    key ((r, x) :: recs) r' = key recs r' := by
  unfold key; rw [lookup_cons]; simp [h]

theorem key_of_lookup (recs : List (Nat × Rec)) (r : Nat) (x : Rec) (h : lookup recs r = some x) :
    key recs r = tvKey x.sec x.usec := by
  unfold key; rw [h]

/-- `tvKey` orders `(sec, usec)` lexicographically for every `usec` that fits a 64-bit `long`,
    i.e. exactly as `tvcmp` in timerqueue.c does -/
theorem tvKey_le_iff (s u s' u' : Int) (hu : -2^63 ≤ u ∧ u < 2^63) (hu' : -2^63 ≤ u' ∧ u' < 2^63) :
    tvKey s u ≤ tvKey s' u' ↔ (s < s' ∨ (s = s' ∧ u ≤ u')) := by
  unfold tvKey; omega

theorem tq_inv_empty : TQInv TimerQueue.empty :=
  ⟨inv_empty _, by intro r hr; simp [TimerQueue.empty, Heap.empty] at hr⟩

theorem tq_add (q : TQ) (r : Nat) (sec usec : Int) (ptr : Nat) (hi : TQInv q) (hf : r ∉ q.h.a.toList) :
    TQInv (add q r sec usec ptr) ∧ (add q r sec usec ptr).h.a.toList.Perm (r :: q.h.a.toList) ∧
    (add q r sec usec ptr).recs = (r, ⟨sec, usec, ptr⟩) :: q.recs := by
  have hfresh : ∀ i : Nat, q.h.a[i]? ≠ some r := by
    intro i hie; exact hf ((mem_iff_get _ _).mpr ⟨i, hie⟩)
  have hi2 : Inv (key ((r, ⟨sec, usec, ptr⟩) :: q.recs)) q.h := by
    apply inv_key_congr _ _ q.h hi.inv
    intro i x hx
    apply key_cons_ne
    intro hxe; subst hxe; exact hfresh i hx
  have hperm := add_perm (key ((r, ⟨sec, usec, ptr⟩) :: q.recs)) q.h r
  refine ⟨⟨add_inv _ _ _ hi2 hfresh, ?_⟩, hperm, rfl⟩
  intro r' hr'
  have := hperm.mem_iff.mp hr'
  simp only [add, lookup_cons]
  by_cases h : r' = r
  · simp [h]
  · simp only [h, if_false]
    apply hi.bound
    simpa [h] using this

theorem tq_delete (q : TQ) (r : Nat) (hi : TQInv q) (hr : r ∈ q.h.a.toList) :
    ∃ q', delete q r = some q' ∧ TQInv q' ∧ q.h.a.toList.Perm (r :: q'.h.a.toList) ∧ q'.recs = q.recs := by
  obtain ⟨rc, hrc⟩ := (mem_iff_get _ _).mp hr
  have hpos := hi.inv.handles rc r hrc
  obtain ⟨h', x, hdel, hi', hx, _, hperm, _⟩ := delete_spec (key q.recs) q.h rc hi.inv (lt_of_get hrc)
  have hxe : x = r := by rw [hx] at hrc; cases hrc; rfl
  subst hxe
  refine ⟨{ q with h := h' }, ?_, ⟨hi', ?_⟩, hperm, rfl⟩
  · simp [delete, hpos, hdel]
  · intro r' hr'
    exact hi.bound r' (hperm.mem_iff.mpr (List.mem_cons_of_mem _ hr'))

theorem tq_increase (q : TQ) (r : Nat) (sec usec : Int) (old : Rec) (hi : TQInv q) (hr : r ∈ q.h.a.toList)
    (hold : lookup q.recs r = some old) (hge : tvKey old.sec old.usec ≤ tvKey sec usec) :
    ∃ q', increase q r sec usec = some q' ∧ TQInv q' ∧ q'.h.a.toList.Perm q.h.a.toList ∧
      q'.recs = (r, { old with sec, usec }) :: q.recs := by
  obtain ⟨rc, hrc⟩ := (mem_iff_get _ _).mp hr
  have hpos := hi.inv.handles rc r hrc
  generalize hrecs : (r, ({ old with sec, usec } : Rec)) :: q.recs = recs'
  have hsome : Heap.increase (key recs') q.h rc =
      some (Heap.siftDown (key recs') true q.h.a.size q.h.a.size q.h rc) := by
    simp [Heap.increase, lt_of_get hrc]
  have hinv := increase_inv_key (key recs') (key q.recs) q.h _ rc r hi.inv hrc
    (fun x hx => by rw [← hrecs]; exact key_cons_ne _ _ _ _ hx)
    (by rw [key_of_lookup _ _ _ hold, ← hrecs, key_of_lookup _ r { old with sec, usec } (by rw [lookup_cons]; simp)]
        exact hge) hsome
  have hperm := increase_perm _ _ _ _ hsome
  refine ⟨⟨_, recs'⟩, ?_, ⟨hinv, ?_⟩, hperm, rfl⟩
  · simp [increase, hold, hpos, hrecs, hsome]
  · intro r' hr'
    have := hi.bound r' (hperm.mem_iff.mp hr')
    rw [← hrecs]; simp only [lookup_cons]
    by_cases h : r' = r
    · simp [h]
    · simpa [h] using this

/-- `timerqueue_getmin`: the least time among the live records -/
theorem tq_getmin (q : TQ) (hi : TQInv q) :
    match getmin q with
    | none => q.h.a.toList = []
    | some (s, u) => ∃ r x, IsLeast (key q.recs) q.h.a.toList r ∧ lookup q.recs r = some x ∧ s = x.sec ∧ u = x.usec := by
  unfold getmin
  cases hg : Heap.getmin q.h with
  | none => simpa using (getmin_none_iff q.h).mp hg
  | some r =>
    have hl := getmin_isLeast _ q.h r hi.inv hg
    obtain ⟨x, hx⟩ := hi.bound r hl.1
    simp only [hx, Option.bind_eq_bind, Option.bind_some, Option.pure_def]
    exact ⟨r, x, hl, hx, rfl, rfl⟩

/-- `timerqueue_getptr(Q, tv)` -/
theorem tq_getptr (q : TQ) (sec usec : Int) (hi : TQInv q) :
    match getptr q sec usec with
    | (q', some (r, p)) =>
        IsLeast (key q.recs) q.h.a.toList r ∧ key q.recs r ≤ tvKey sec usec ∧
        (∃ x, lookup q.recs r = some x ∧ p = x.ptr) ∧
        TQInv q' ∧ q.h.a.toList.Perm (r :: q'.h.a.toList) ∧ q'.recs = q.recs
    | (q', none) => q' = q ∧ ∀ x ∈ q.h.a.toList, key q.recs x > tvKey sec usec := by
  unfold getptr
  cases hg : Heap.getmin q.h with
  | none =>
    have := (getmin_none_iff q.h).mp hg
    simp [this]
  | some r =>
    have hl := getmin_isLeast _ q.h r hi.inv hg
    obtain ⟨x, hx⟩ := hi.bound r hl.1
    simp only [hx]
    have hk := key_of_lookup _ _ _ hx
    by_cases hgt : tvKey x.sec x.usec > tvKey sec usec
    · simp only [hgt, if_true]
      refine ⟨trivial, ?_⟩
      intro y hy
      have := hl.2 y hy
      omega
    · simp only [hgt, if_false]
      have hsz : 0 < q.h.a.size := lt_of_get hg
      obtain ⟨h', y, hdel, hi', hy, _, hperm, _⟩ := delete_spec (key q.recs) q.h 0 hi.inv hsz
      have hye : y = r := by
        have : q.h.a[0]? = some r := hg
        rw [hy] at this; cases this; rfl
      subst hye
      have hdm : Heap.deletemin (key q.recs) q.h = some h' := hdel
      simp only [hdm]
      refine ⟨hl, by omega, ⟨x, hx, rfl⟩, ⟨hi', ?_⟩, hperm, trivial⟩
      intro r' hr'
      exact hi.bound r' (hperm.mem_iff.mpr (List.mem_cons_of_mem _ hr'))

/-- a drain with nothing added in between releases records in non-decreasing time order, each due,
each live at the start, each with the pointer stored for it -/
theorem tq_drain (sec usec : Int) (fuel : Nat) (q : TQ) (hi : TQInv q) :
    let out := HeapRun.tqDrain sec usec fuel q
    out.Pairwise (fun a b => key q.recs a.1 ≤ key q.recs b.1) ∧
    ∀ a ∈ out, key q.recs a.1 ≤ tvKey sec usec ∧ a.1 ∈ q.h.a.toList ∧
      ∃ x, lookup q.recs a.1 = some x ∧ a.2 = x.ptr := by
  induction fuel generalizing q with
  | zero => simp [HeapRun.tqDrain]
  | succ fuel ih =>
    have hgp := tq_getptr q sec usec hi
    simp only [HeapRun.tqDrain]
    generalize getptr q sec usec = res at hgp
    obtain ⟨q', o⟩ := res
    cases o with
    | none => simp
    | some rp =>
      obtain ⟨r, p⟩ := rp
      simp only at hgp
      obtain ⟨hl, hdue, hptr, hi', hperm, hrecs⟩ := hgp
      have ih' := ih q' hi'
      simp only [hrecs] at ih'
      obtain ⟨ih1, ih2⟩ := ih'
      refine ⟨List.pairwise_cons.mpr ⟨?_, ih1⟩, ?_⟩
      · intro a ha
        exact hl.2 a.1 (hperm.mem_iff.mpr (List.mem_cons_of_mem _ (ih2 a ha).2.1))
      · intro a ha
        cases List.mem_cons.mp ha with
        | inl h => subst h; exact ⟨hdue, hl.1, hptr⟩
        | inr h =>
          obtain ⟨h1, h2, h3⟩ := ih2 a h
          exact ⟨h1, hperm.mem_iff.mpr (List.mem_cons_of_mem _ h2), h3⟩

end Percival.Proofs.TQ
