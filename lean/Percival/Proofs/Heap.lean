import Percival.Model.Heap
/-!
# C13 helper lemmas, part 1: primitives, predicates, sift-up, sift-down

All predicates are stated for a *prefix* `N ≤ h.a.size` of the array, because
`ptrheap_delete` works for a while on an array whose last slot holds a stale copy of the
element that was moved into the hole: the first `N = nelems - 1` slots are the heap.
-/
namespace Percival.Proofs.Heap
open Percival.Model.Heap

/-! ## `posOf` and `swap` -/

theorem posOf_cons (a : Array Nat) (l : List (Nat × Nat)) (x i e : Nat) :
    posOf { a := a, log := (x, i) :: l } e = if e = x then some i else posOf { a := a, log := l } e := by
  unfold posOf
  simp only [List.find?_cons]
  by_cases h : e = x
  · subst h; simp
  · have : (x == e) = false := by simp; omega
    simp [this, h]

theorem posOf_congr (h h' : Heap) (hl : h.log = h'.log) (e : Nat) : posOf h e = posOf h' e := by
  unfold posOf; rw [hl]

theorem swap_size (b : Bool) (h : Heap) (i j : Nat) : (swap b h i j).a.size = h.a.size := by
  unfold swap; split <;> try split
  all_goals (try split)
  all_goals simp

theorem swap_get (b : Bool) (h : Heap) (i j k : Nat) (hi : i < h.a.size) (hj : j < h.a.size) :
    (swap b h i j).a[k]? = if k = i then h.a[j]? else if k = j then h.a[i]? else h.a[k]? := by
  have key : (h.a.swap i j hi hj)[k]? = if k = i then h.a[j]? else if k = j then h.a[i]? else h.a[k]? := by
    by_cases hk : k < h.a.size
    · rw [Array.getElem?_eq_getElem (by simpa using hk), Array.getElem_swap]
      split
      · subst_vars; simp [hj]
      · split
        · subst_vars; simp [hi]
        · simp [hk]
    · have h1 : k ≠ i := by omega
      have h2 : k ≠ j := by omega
      simp [h1, h2, hk]
  unfold swap
  simp only [hi, hj, dite_true]
  cases b <;> simpa using key

theorem swap_log_false (h : Heap) (i j : Nat) : (swap false h i j).log = h.log := by
  unfold swap; split <;> try split
  all_goals simp

theorem swap_posOf (h : Heap) (i j x y : Nat) (hx : h.a[i]? = some x) (hy : h.a[j]? = some y) (e : Nat) :
    posOf (swap true h i j) e = if e = x then some j else if e = y then some i else posOf h e := by
  have hi : i < h.a.size := by
    have := Array.getElem?_eq_some_iff.mp hx; exact this.1
  have hj : j < h.a.size := by
    have := Array.getElem?_eq_some_iff.mp hy; exact this.1
  have ex : h.a[i] = x := by
    have := Array.getElem?_eq_some_iff.mp hx; exact this.2
  have ey : h.a[j] = y := by
    have := Array.getElem?_eq_some_iff.mp hy; exact this.2
  unfold swap
  simp only [hi, hj, dite_true, if_true, ex, ey]
  rw [posOf_cons, posOf_cons]
  rfl

theorem swap_perm (b : Bool) (h : Heap) (i j : Nat) : (swap b h i j).a.toList.Perm h.a.toList := by
  unfold swap
  split
  · split
    · rename_i hi hj
      have := Array.perm_iff_toList_perm.mp (Array.swap_perm (xs := h.a) hi hj)
      cases b <;> simpa using this
    · exact List.Perm.refl _
  · exact List.Perm.refl _

/-! ## Predicates -/

/-- ids in the first `N` slots are pairwise distinct -/
def DistinctN (h : Heap) (N : Nat) : Prop :=
  ∀ i j x, i < N → j < N → h.a[i]? = some x → h.a[j]? = some x → i = j

/-- the position last reported for each element of the first `N` slots is its index -/
def PosN (h : Heap) (N : Nat) : Prop :=
  ∀ i x, i < N → h.a[i]? = some x → posOf h x = some i

variable (key : Nat → Int)

/-- heap order among the first `N` slots on every edge whose parent index is `≥ lo` -/
def OrderedFrom (h : Heap) (N lo : Nat) : Prop :=
  ∀ i c q, 0 < i → i < N → lo ≤ (i-1)/2 → h.a[i]? = some c → h.a[(i-1)/2]? = some q → key q ≤ key c

/-- heap order among the first `N` slots -/
def OrderedN (h : Heap) (N : Nat) : Prop :=
  ∀ i c q, 0 < i → i < N → h.a[i]? = some c → h.a[(i-1)/2]? = some q → key q ≤ key c

/-- heap order among the first `N` slots except possibly on the edge (parent x, x) -/
def OrderedExcept (h : Heap) (N x : Nat) : Prop :=
  ∀ i c q, 0 < i → i < N → i ≠ x → h.a[i]? = some c → h.a[(i-1)/2]? = some q → key q ≤ key c

/-- while sifting up: the children of `x` are `≥` the parent of `x` -/
def GrandOK (h : Heap) (N x : Nat) : Prop :=
  ∀ c e q, 0 < x → 0 < c → c < N → (c - 1) / 2 = x → h.a[c]? = some e → h.a[(x-1)/2]? = some q → key q ≤ key e

/-- heap order among the first `N` slots on edges with parent `≥ lo`, except the edges below `x` -/
def OrderedBelowExcept (h : Heap) (N lo x : Nat) : Prop :=
  ∀ i c q, 0 < i → i < N → lo ≤ (i-1)/2 → (i-1)/2 ≠ x → h.a[i]? = some c → h.a[(i-1)/2]? = some q → key q ≤ key c

/-- while sifting down: the children of `x` are `≥` the parent of `x` (if that edge is in scope) -/
def ParentOK (h : Heap) (N lo x : Nat) : Prop :=
  ∀ c e q, 0 < x → lo ≤ (x-1)/2 → c < N → 0 < c → (c - 1) / 2 = x → h.a[c]? = some e → h.a[(x-1)/2]? = some q → key q ≤ key e

theorem orderedFrom_zero (h : Heap) (N : Nat) : OrderedFrom key h N 0 ↔ OrderedN key h N := by
  unfold OrderedFrom OrderedN
  constructor
  · intro H i c q h1 h2 h3 h4; exact H i c q h1 h2 (Nat.zero_le _) h3 h4
  · intro H i c q h1 h2 _ h3 h4; exact H i c q h1 h2 h3 h4

/-! ## Handles are preserved by a notifying swap inside the prefix -/

theorem swap_distinct (b : Bool) (h : Heap) (N i j : Nat) (hN : N ≤ h.a.size) (hi : i < N) (hj : j < N)
    (hd : DistinctN h N) : DistinctN (swap b h i j) N := by
  intro k l x hk hl hkx hlx
  rw [swap_get b h _ _ _ (by omega) (by omega)] at hkx hlx
  have d1 := hd k l x hk hl
  have d2 := hd k i x hk hi; have d3 := hd k j x hk hj
  have d4 := hd l i x hl hi; have d5 := hd l j x hl hj
  have d6 := hd i j x hi hj; have d7 := hd j i x hj hi
  grind

theorem swap_pos (h : Heap) (N i j : Nat) (hN : N ≤ h.a.size) (hi : i < N) (hj : j < N)
    (hd : DistinctN h N) (hp : PosN h N) : PosN (swap true h i j) N := by
  intro k e hk hke
  have hi' : i < h.a.size := by omega
  have hj' : j < h.a.size := by omega
  have hx : h.a[i]? = some h.a[i] := Array.getElem?_eq_getElem hi'
  have hy : h.a[j]? = some h.a[j] := Array.getElem?_eq_getElem hj'
  rw [swap_posOf h i j _ _ hx hy]
  rw [swap_get true h _ _ _ hi' hj'] at hke
  have d2 := hd k i e hk hi; have d3 := hd k j e hk hj
  have d6 := hd i j e hi hj
  have p1 := hp k e hk
  grind

/-! ## `siftUp` (`heapifyup`) -/

theorem siftUp_size (b : Bool) (f : Nat) (h : Heap) (x : Nat) : (siftUp key b f h x).a.size = h.a.size := by
  induction f generalizing h x with
  | zero => simp [siftUp]
  | succ f ih =>
    simp only [siftUp]
    split
    · rfl
    · split
      · split
        · rfl
        · rw [ih, swap_size]
      · rfl

/-- slots above the start index are never touched -/
theorem siftUp_frame (b : Bool) (f : Nat) (h : Heap) (x k : Nat) (hk : x < k) :
    (siftUp key b f h x).a[k]? = h.a[k]? := by
  induction f generalizing h x with
  | zero => simp [siftUp]
  | succ f ih =>
    simp only [siftUp]
    split
    · rfl
    · split
      · split
        · rfl
        · rename_i hx0 hx _
          rw [ih _ _ (by omega), swap_get b h _ _ _ hx (by omega)]
          have : k ≠ x := by omega
          have : k ≠ (x-1)/2 := by omega
          simp [*]
      · rfl

theorem siftUp_perm (b : Bool) (f : Nat) (h : Heap) (x : Nat) :
    (siftUp key b f h x).a.toList.Perm h.a.toList := by
  induction f generalizing h x with
  | zero => simp [siftUp]
  | succ f ih =>
    simp only [siftUp]
    split
    · exact List.Perm.refl _
    · split
      · split
        · exact List.Perm.refl _
        · exact (ih _ _).trans (swap_perm b h _ _)
      · exact List.Perm.refl _

theorem siftUp_handles (f : Nat) (h : Heap) (N x : Nat) (hN : N ≤ h.a.size) (hx : x < N)
    (hd : DistinctN h N) (hp : PosN h N) :
    DistinctN (siftUp key true f h x) N ∧ PosN (siftUp key true f h x) N := by
  induction f generalizing h x with
  | zero => simp only [siftUp]; exact ⟨hd, hp⟩
  | succ f ih =>
    simp only [siftUp]
    split
    · exact ⟨hd, hp⟩
    · split
      · split
        · exact ⟨hd, hp⟩
        · apply ih
          · rw [swap_size]; exact hN
          · omega
          · exact swap_distinct true h N _ _ hN hx (by omega) hd
          · exact swap_pos h N _ _ hN hx (by omega) hd hp
      · exact ⟨hd, hp⟩

theorem siftUp_ordered (b : Bool) (f : Nat) (h : Heap) (N x : Nat) (hN : N ≤ h.a.size) (hfuel : x ≤ 2 * f)
    (hex : OrderedExcept key h N x) (hg : GrandOK key h N x) : OrderedN key (siftUp key b f h x) N := by
  induction f generalizing h x with
  | zero =>
    have : x = 0 := by omega
    subst this
    simp only [siftUp]
    intro i c q hi hiN hc hq
    exact hex i c q hi hiN (by omega) hc hq
  | succ f ih =>
    simp only [siftUp]
    split
    · rename_i hx0; subst hx0
      intro i c q hi hiN hc hq
      exact hex i c q hi hiN (by omega) hc hq
    · rename_i hx0
      split
      · rename_i hx
        have hp : (x - 1) / 2 < h.a.size := by omega
        split
        · rename_i hge
          intro i c q hi hiN hc hq
          by_cases hix : i = x
          · subst hix
            rw [Array.getElem?_eq_getElem hx] at hc
            rw [Array.getElem?_eq_getElem hp] at hq
            cases hc; cases hq; exact hge
          · exact hex i c q hi hiN hix hc hq
        · rename_i hlt
          apply ih
          · rw [swap_size]; exact hN
          · omega
          · intro i c q hi hiN hne hc hq
            rw [swap_get b h _ _ _ hx hp] at hc hq
            have e1 := hex i; have e2 := hex ((i-1)/2)
            have g1 := hg i
            grind [Array.getElem?_eq_getElem]
          · intro c e q hpar hc hcN hcpar he hq
            rw [swap_get b h _ _ _ hx hp] at he hq
            have e1 := hex c; have e2 := hex ((x-1)/2)
            grind [Array.getElem?_eq_getElem]
      · intro i c q hi hiN hc hq
        rename_i hx
        have : i ≠ x := by
          intro hix; subst hix
          have := Array.getElem?_eq_none (xs := h.a) (i := i) (by omega)
          simp [this] at hc
        exact hex i c q hi hiN this hc hq

end Percival.Proofs.Heap
