import Percival.Proofs.EArrayStep
import Percival.Proofs.EQueue
import Percival.Proofs.SeqMap
import Percival.Proofs.MPool
import Percival.Model.EvReg
/-!
# Helper lemmas for C14 (allocation failure)
-/
namespace Percival.Proofs.AllocFail
open Percival.Model Percival.Spec.DS
open Percival.Proofs.EArray

/-! ### elastic array: a reported failure leaves the array exactly as it was -/

theorem ea_fail_unchanged (a : EArray.EA) (op : EaOp) (m : Mem) (h : Inv a) (hc : eaContract (EArray.abs a) op)
    (hf : (EArray.step a op m).1.st = .fail) : (EArray.step a op m).2.1 = a := by
  cases op with
  | resize n r fill =>
    have hs := resizeRec_spec a n r m h
    simp only [EArray.step] at hf ⊢
    rcases hres : EArray.resizeRec a n r m with ⟨ok, a', m'⟩
    rw [hres] at hs hf
    cases ok
    · exact (hs.2.2.1 rfl).1
    · simp only at hf ⊢
      split at hf <;> simp [EArray.ans] at hf
  | append data n r =>
    have hal := abs_length h
    simp only [eaContract] at hc
    have hs := append_spec a data n r m h (fun hle => by rw [hc (by rw [← SIZE_MAX_same]; exact hle)]; exact Nat.le_refl _)
    simp only [EArray.step] at hf ⊢
    rcases hres : EArray.append a data n r m with ⟨st, a', m'⟩
    rw [hres] at hs hf
    simp only [EArray.ans] at hf
    subst hf
    exact (hs.2.2.2.1 rfl).1
  | shrink n r => simp [EArray.step, EArray.ans] at hf
  | truncate =>
    have hs := truncate_spec a m h
    simp only [EArray.step] at hf ⊢
    rcases hres : EArray.truncate a m with ⟨ok, a', m'⟩
    rw [hres] at hs hf
    cases ok
    · exact (hs.2.2.1 rfl).1
    · simp [EArray.ans] at hf
  | get pos r =>
    simp only [EArray.step] at hf ⊢
    split at hf <;> simp [EArray.ans] at hf
  | set pos r rec =>
    simp only [EArray.step] at hf ⊢
    split at hf <;> simp [EArray.ans] at hf
  | getsize r => simp [EArray.step, EArray.ans] at hf
  | exportdup r =>
    simp only [EArray.step]

/-- `elasticarray_shrink` cannot fail, whatever the allocator does -/
theorem ea_shrink_ok (a : EArray.EA) (n : Nat) (r : RecLen) (m : Mem) :
    (EArray.step a (.shrink n r) m).1.st = .ok := by
  simp [EArray.step, EArray.ans]

/-! ### live blocks: every operation keeps "blocks allocated = blocks reachable from the structure" -/

/-- copies handed to the caller by successful `exportdup`s in a trace (the caller owns and frees them) -/
def dups : List (EaOp × EaAns) → Int
  | [] => 0
  | (.exportdup _, a) :: rest => (if a.st = .ok then 1 else 0) + dups rest
  | _ :: rest => dups rest

theorem ea_step_live (a : EArray.EA) (op : EaOp) (m : Mem) (h : Inv a) (hc : eaContract (EArray.abs a) op) :
    (EArray.step a op m).2.2.live + bufBlocks a + dups [(op, (EArray.step a op m).1)]
      = m.live + bufBlocks (EArray.step a op m).2.1 + 2 * dups [(op, (EArray.step a op m).1)] := by
  cases op with
  | resize n r fill =>
    have hs := resizeRec_spec a n r m h
    simp only [EArray.step, dups]
    rcases hres : EArray.resizeRec a n r m with ⟨ok, a', m'⟩
    rw [hres] at hs
    have hl := hs.2.2.2
    simp only at hl
    cases ok
    · simp only; omega
    · simp only
      have hinv' : Inv a' := hs.1
      obtain ⟨_, hsz, _, _, _⟩ := hs.2.1 rfl
      simp only at hsz
      have hal := abs_length h
      simp only [eaContract, hal] at hc
      cases hff : EArray.fillFrom a' a.size fill with
      | none => simp only; omega
      | some a'' =>
        simp only
        have : a''.alloc = a'.alloc := by
          unfold EArray.fillFrom at hff
          split at hff
          · cases hff; rfl
          · split at hff
            · cases hw : EArray.writeAt a'.buf a.size fill with
              | none => rw [hw] at hff; cases hff
              | some b => rw [hw] at hff; cases hff; rfl
            · cases hff
        simp only [bufBlocks, this] at hl ⊢; omega
  | append data n r =>
    have hal := abs_length h
    simp only [eaContract] at hc
    have hs := append_spec a data n r m h (fun hle => by rw [hc (by rw [← SIZE_MAX_same]; exact hle)]; exact Nat.le_refl _)
    simp only [EArray.step, dups]
    rcases hres : EArray.append a data n r m with ⟨st, a', m'⟩
    rw [hres] at hs
    have := hs.2.2.2.2
    simp only at this ⊢; omega
  | shrink n r =>
    have hs := shrink_spec a n r m h
    simp only [EArray.step, dups]
    rcases hres : EArray.shrink a n r m with ⟨a', m'⟩
    rw [hres] at hs
    have := hs.2.2.2.2
    simp only at this ⊢; omega
  | truncate =>
    have hs := truncate_spec a m h
    simp only [EArray.step, dups]
    rcases hres : EArray.truncate a m with ⟨ok, a', m'⟩
    rw [hres] at hs
    have := hs.2.2.2
    cases ok <;> simp only at this ⊢ <;> omega
  | get pos r =>
    simp only [EArray.step, dups]
    split <;> simp only <;> omega
  | set pos r rec =>
    have hal := abs_length h
    simp only [eaContract, hal] at hc
    obtain ⟨a', hset, _, halloc, _, _⟩ := setRec_spec a pos r rec h hc.1 hc.2
    simp only [EArray.step, dups, hset, bufBlocks, halloc]; omega
  | getsize r => simp only [EArray.step, dups]; omega
  | exportdup r =>
    have hs := exportdup_spec a r m h
    simp only [EArray.step, dups, EArray.ans]
    rcases hs with ⟨h1, _, _, h4⟩ | ⟨h1, _, _, h4⟩
    · simp only [h1, h4]; simp; omega
    · simp only [h1, h4]; simp

theorem dups_cons (x : EaOp × EaAns) (rest : List (EaOp × EaAns)) : dups (x :: rest) = dups [x] + dups rest := by
  obtain ⟨op, a⟩ := x
  cases op <;> simp [dups]

theorem ea_run_live : ∀ (ops : List EaOp) (a : EArray.EA) (m : Mem), Inv a → Contracts a ops m →
    (EArray.run a ops m).2.2.live + bufBlocks a = m.live + bufBlocks (EArray.run a ops m).2.1 + dups (EArray.run a ops m).1
  | [], a, m, _, _ => by simp [EArray.run, dups]
  | op :: rest, a, m, h, hc => by
    obtain ⟨hc1, hc2⟩ := hc
    have hs := step_ok a op m h hc1
    have hl := ea_step_live a op m h hc1
    have ih := ea_run_live rest (EArray.step a op m).2.1 (EArray.step a op m).2.2 hs.1 hc2
    simp only [EArray.run]
    rcases hst : EArray.step a op m with ⟨an, a', m'⟩
    rw [hst] at hl ih
    simp only at hl ih ⊢
    rcases hrun : EArray.run a' rest m' with ⟨tr, a'', m''⟩
    rw [hrun] at ih
    simp only at ih ⊢
    rw [dups_cons]; omega

/-! ### queue and map: live blocks -/

open Percival.Proofs.EQueue in
theorem eq_step_live (q : EQueue.EQ) (op : EqOp) (m : Mem) (h : QInv q)
    (hc : eqContract q.reclen.val (EQueue.abs q) op)
    (hsmall : (q.offset + q.len + 1) * q.reclen.val ≤ EArray.SIZE_MAX) :
    (EQueue.step q op m).2.2.live + bufBlocks q.ea = m.live + bufBlocks (EQueue.step q op m).2.1.ea := by
  cases op with
  | add rec =>
    simp only [eqContract] at hc
    have hs := add_spec q rec m h hc (by rw [h.sz]; rw [Nat.succ_mul] at hsmall; exact hsmall)
    simp only [EQueue.step]
    rcases hres : EQueue.add q rec m with ⟨st, q', m'⟩
    rw [hres] at hs
    exact hs.2.2.2.2.2
  | delete =>
    have hs := delete_spec q m h
    simp only [EQueue.step]
    rcases hres : EQueue.delete q m with ⟨st, q', m'⟩
    rw [hres] at hs
    exact hs.2.2.2.2.2.2
  | getlen => simp only [EQueue.step]
  | get pos => simp only [EQueue.step]; split <;> rfl
  | set pos rec =>
    simp only [eqContract, EQueue.abs_length] at hc
    obtain ⟨q', hset, _, _, _, _, _, hal, _⟩ := set_spec q pos rec h hc.1 hc.2
    simp only [EQueue.step, hset, bufBlocks, hal]

open Percival.Proofs.EQueue in
theorem eq_run_live : ∀ (ops : List EqOp) (q : EQueue.EQ) (m : Mem), QInv q → EQueue.Contracts q ops m →
    (q.offset + q.len + ops.length) * q.reclen.val ≤ EArray.SIZE_MAX →
    (EQueue.run q ops m).2.2.live + bufBlocks q.ea = m.live + bufBlocks (EQueue.run q ops m).2.1.ea
  | [], q, m, _, _, _ => by simp [EQueue.run]
  | op :: rest, q, m, h, hc, hsm => by
    obtain ⟨hc1, hc2⟩ := hc
    have hsm1 : (q.offset + q.len + 1) * q.reclen.val ≤ EArray.SIZE_MAX :=
      Nat.le_trans (Nat.mul_le_mul_right _ (by simp only [List.length_cons]; omega)) hsm
    have hs := qstep_ok q op m h hc1 hsm1
    have hl := eq_step_live q op m h hc1 hsm1
    obtain ⟨s1, s2, _, s4⟩ := hs
    have ih := eq_run_live rest (EQueue.step q op m).2.1 (EQueue.step q op m).2.2 s1 hc2
      (by rw [s2]; exact Nat.le_trans (Nat.mul_le_mul_right _ (by simp only [List.length_cons]; omega)) hsm)
    simp only [EQueue.run]
    rcases hst : EQueue.step q op m with ⟨an, q', m'⟩
    rw [hst] at hl ih
    simp only at hl ih ⊢
    rcases hrun : EQueue.run q' rest m' with ⟨tr, q'', m''⟩
    rw [hrun] at ih
    simp only at ih ⊢
    omega

open Percival.Proofs.SeqMap in
theorem sm_step_live (s : SeqMap.SM) (op : SmOp) (m : Mem) (h : MInv s) (hc : smContract op)
    (hq : (s.q.offset + s.q.len + 1) * 8 ≤ EArray.SIZE_MAX) (hn : s.offset + s.len + 1 ≤ SeqMap.INT64_MAX) :
    (SeqMap.step s op m).2.2.live + bufBlocks s.q.ea = m.live + bufBlocks (SeqMap.step s op m).2.1.q.ea := by
  cases op with
  | add p =>
    simp only [smContract] at hc
    have hs := add_spec s p m h hc.1 hc.2 hq hn
    simp only [SeqMap.step]
    rcases hres : SeqMap.add s p m with ⟨r, s', m'⟩
    rw [hres] at hs
    have := hs.2.2
    cases r <;> exact this
  | get i => simp only [SeqMap.step]; split <;> rfl
  | delete i =>
    have hs := delete_spec s i m h
    simp only [SeqMap.step]
    rcases hres : SeqMap.delete s i m with ⟨st, s', m'⟩
    rw [hres] at hs
    exact hs.2.2.2.2.2
  | getmin => simp only [SeqMap.step]

open Percival.Proofs.SeqMap in
theorem sm_run_live : ∀ (ops : List SmOp) (s : SeqMap.SM) (m : Mem), MInv s → (∀ op ∈ ops, smContract op) →
    (s.q.offset + s.q.len + ops.length) * 8 ≤ EArray.SIZE_MAX → s.offset + s.len + ops.length ≤ SeqMap.INT64_MAX →
    (SeqMap.run s ops m).2.2.live + bufBlocks s.q.ea = m.live + bufBlocks (SeqMap.run s ops m).2.1.q.ea
  | [], s, m, _, _, _, _ => by simp [SeqMap.run]
  | op :: rest, s, m, h, hc, hq, hn => by
    simp only [List.length_cons, Int.natCast_add, Int.natCast_one] at hq hn
    have hq1 := Nat.le_trans (Nat.mul_le_mul_right 8 (show s.q.offset + s.q.len + 1 ≤ s.q.offset + s.q.len + (rest.length + 1) by omega)) hq
    have hs := mstep_ok s op m h (hc op List.mem_cons_self) hq1 (by omega)
    have hl := sm_step_live s op m h (hc op List.mem_cons_self) hq1 (by omega)
    obtain ⟨s1, _, s3, s4⟩ := hs
    have ih := sm_run_live rest (SeqMap.step s op m).2.1 (SeqMap.step s op m).2.2 s1
      (fun o ho => hc o (List.mem_cons_of_mem _ ho))
      (Nat.le_trans (Nat.mul_le_mul_right _ (by omega)) hq) (by omega)
    simp only [SeqMap.run]
    rcases hst : SeqMap.step s op m with ⟨an, s', m'⟩
    rw [hst] at hl ih
    simp only at hl ih ⊢
    rcases hrun : SeqMap.run s' rest m' with ⟨tr, s'', m''⟩
    rw [hrun] at ih
    simp only at ih ⊢
    omega

/-! ### pointer heap and timer queue -/

open Percival.Model.HeapAlloc in
/-- the heap's storage invariant: the elastic array holds the `8 * nelems` bytes -/
def HInv (ha : HeapAlloc.HeapA) : Prop := 8 * ha.h.a.size ≤ ha.alloc ∧ ha.alloc < EArray.SZ

theorem shape_inv {n alloc : Nat} (h1 : 8 * n ≤ alloc) (h2 : alloc < EArray.SZ) : Inv (HeapAlloc.shape n alloc) :=
  ⟨h1, by simp [HeapAlloc.shape], h2⟩

theorem swap_size (nt : Bool) (h : Heap.Heap) (i j : Nat) : (Heap.swap nt h i j).a.size = h.a.size := by
  unfold Heap.swap
  split
  · split
    · split <;> simp
    · rfl
  · rfl

theorem siftUp_size (key : Nat → Int) (nt : Bool) : ∀ (f : Nat) (h : Heap.Heap) (i : Nat),
    (Heap.siftUp key nt f h i).a.size = h.a.size
  | 0, _, _ => rfl
  | f+1, h, i => by
    unfold Heap.siftUp
    split
    · rfl
    · split
      · simp only
        split
        · rfl
        · rw [siftUp_size key nt f, swap_size]
      · rfl

theorem heap_add_size (key : Nat → Int) (h : Heap.Heap) (e : Nat) : (Heap.add key h e).a.size = h.a.size + 1 := by
  simp only [Heap.add, Heap.note]
  rw [siftUp_size]; simp

theorem heap_add_spec (key : Nat → Int) (ha : HeapAlloc.HeapA) (e : Nat) (m : Mem) (h : HInv ha)
    (hsmall : 8 * (ha.h.a.size + 1) ≤ EArray.SIZE_MAX) :
    ((HeapAlloc.add key ha e m).1 = true →
      (HeapAlloc.add key ha e m).2.1.h = Heap.add key ha.h e ∧ HInv (HeapAlloc.add key ha e m).2.1 ∧
      (HeapAlloc.add key ha e m).2.2.refusals = m.refusals) ∧
    ((HeapAlloc.add key ha e m).1 = false →
      (HeapAlloc.add key ha e m).2.1 = ha ∧ (HeapAlloc.add key ha e m).2.2.refusals = m.refusals + 1 ∧
      (HeapAlloc.add key ha e m).2.2.live = m.live) ∧
    ((HeapAlloc.add key ha e m).1 = false ↔
      (EArray.append (HeapAlloc.shape ha.h.a.size ha.alloc) (SeqMap.encPtr e) 1 SeqMap.ptrLen m).1 ≠ .ok) := by
  have hinv := shape_inv h.1 h.2
  have hs := append_spec (HeapAlloc.shape ha.h.a.size ha.alloc) (SeqMap.encPtr e) 1 SeqMap.ptrLen m hinv
    (by intro _; simp [SeqMap.ptrLen, SeqMap.encPtr])
  unfold HeapAlloc.add
  rcases hres : EArray.append (HeapAlloc.shape ha.h.a.size ha.alloc) (SeqMap.encPtr e) 1 SeqMap.ptrLen m with ⟨st, a', m'⟩
  rw [hres] at hs
  obtain ⟨hinv', hno, hok, hfail, hlive⟩ := hs
  simp only at hinv' hno hok hfail hlive
  cases st
  · obtain ⟨_, hsz, _, hrf, _⟩ := hok rfl
    simp only
    refine ⟨fun _ => ⟨by triv, ⟨?_, hinv'.lt⟩, hrf⟩, by simp, by simp⟩
    rw [heap_add_size]
    have := hinv'.le
    simp only [HeapAlloc.shape, SeqMap.ptrLen, Nat.one_mul] at hsz
    show 8 * (ha.h.a.size + 1) ≤ a'.alloc
    omega
  · obtain ⟨ha', hrf⟩ := hfail rfl
    subst ha'
    simp only
    have hrf' : m'.refusals = m.refusals + 1 := by
      rcases hrf with h1 | ⟨_, h2⟩
      · exact h1
      · simp only [HeapAlloc.shape, SeqMap.ptrLen, Nat.one_mul] at h2; omega
    refine ⟨by simp, fun _ => ⟨by triv, hrf', by omega⟩, by simp⟩
  · exact absurd rfl hno

theorem tq_add_fail_spec (t : HeapAlloc.TQA) (sec usec : Int) (ptr : Nat) (m : Mem)
    (h : HInv (HeapAlloc.heapOf t)) (hsmall : 8 * (t.q.h.a.size + 1) ≤ EArray.SIZE_MAX)
    (hf : (HeapAlloc.tqAdd t sec usec ptr m).1 = none) :
    (HeapAlloc.tqAdd t sec usec ptr m).2.1 = t ∧ (HeapAlloc.tqAdd t sec usec ptr m).2.2.live = m.live ∧
    (HeapAlloc.tqAdd t sec usec ptr m).2.2.refusals = m.refusals + 1 := by
  unfold HeapAlloc.tqAdd at hf ⊢
  cases hr : (m.malloc HeapAlloc.tqRecSize).1
  · have hfm := malloc_fail hr
    rw [pair_eta _ hr] at hf ⊢
    exact ⟨by triv, hfm.2.1, hfm.1⟩
  · have hfm := malloc_ok hr
    rw [pair_eta _ hr] at hf ⊢
    simp only at hf ⊢
    have hinv := shape_inv h.1 h.2
    have hs := append_spec (HeapAlloc.shape t.q.h.a.size t.alloc) (SeqMap.encPtr m.n) 1 SeqMap.ptrLen
      (m.malloc HeapAlloc.tqRecSize).2 hinv (by intro _; simp [SeqMap.ptrLen, SeqMap.encPtr])
    rcases hres : EArray.append (HeapAlloc.shape t.q.h.a.size t.alloc) (SeqMap.encPtr m.n) 1 SeqMap.ptrLen
      (m.malloc HeapAlloc.tqRecSize).2 with ⟨st, a', m'⟩
    rw [hres] at hs hf
    obtain ⟨_, hno, _, hfail, hlive⟩ := hs
    simp only at hno hfail hlive hf ⊢
    cases st
    · simp at hf
    · obtain ⟨ha', hrf⟩ := hfail rfl
      subst ha'
      simp only
      have f := free_facts m' false
      refine ⟨by triv, by rw [f.2.1]; simp; omega, ?_⟩
      rw [f.1]
      rcases hrf with h1 | ⟨_, h2⟩
      · omega
      · simp only [HeapAlloc.shape, SeqMap.ptrLen, Nat.one_mul] at h2; omega
    · exact absurd rfl hno

/-! ### event registration: a failed registration leaves nothing registered -/

open Percival.Model.EvReg

theorem registry_mkrec (e : Ev) (m : Mem) : registry (mkrec e m).2.1 = registry e := by
  simp [mkrec, registry]

theorem registry_freerec (e : Ev) (rid : Nat) (m : Mem) : registry (freerec e rid m).1 = registry e := by
  simp [freerec, registry]

theorem imm_fail_unchanged (e : Ev) (id prio : Nat) (m : Mem) (hf : (immReg e id prio m).1 = false) :
    registry (immReg e id prio m).2.1 = registry e := by
  unfold immReg at hf ⊢
  have h1 := registry_mkrec e m
  rcases hmk : mkrec e m with ⟨o, e1, m1⟩
  rw [hmk] at h1 hf
  simp only at h1 hf ⊢
  cases o with
  | none => exact h1
  | some rid =>
    simp only at hf ⊢
    rcases hq : MPool.malloc e1.qPool qSize m1 with ⟨oq, qp, m2⟩
    rw [hq] at hf
    cases oq with
    | none =>
      simp only
      have h2 := registry_freerec { e1 with qPool := qp } rid m2
      rw [h2]; rw [← h1]; simp [registry]
    | some qid => simp at hf

/-- immediate registration cannot fail when the allocator grants what is asked from now on -/
theorem imm_succeeds_when_granted (e : Ev) (id prio : Nat) (m : Mem) (hg : ∀ n sz, m.n ≤ n → m.f n sz = true) :
    (immReg e id prio m).1 = true := by
  unfold immReg mkrec MPool.malloc
  cases hst : e.recPool.stack with
  | cons x rest =>
    simp only
    cases hst2 : e.qPool.stack with
    | cons y rest2 => simp
    | nil => simp [Mem.malloc, hg m.n qSize (Nat.le_refl _)]
  | nil =>
    simp only [Mem.malloc, hg m.n recSize (Nat.le_refl _)]
    cases hst2 : e.qPool.stack with
    | cons y rest2 => simp
    | nil => simp [hg (m.n + 1) qSize (by omega)]

theorem tm_fail_unchanged (e : Ev) (id : Nat) (usec now : Int) (m : Mem) (hf : (tmReg e id usec now m).1 = false) :
    registry (tmReg e id usec now m).2.1 = registry e := by
  unfold tmReg at hf ⊢
  split at hf
  · rfl
  · rename_i t m0 hq
    simp only at hf ⊢
    have h0 : registry { e with tq := some t } = registry e := by simp [registry]
    have h1 := registry_mkrec { e with tq := some t } m0
    rcases hmk : mkrec { e with tq := some t } m0 with ⟨o, e1, m1⟩
    rw [hmk] at h1 hf
    simp only at h1 hf ⊢
    cases o with
    | none => simp only; rw [h1, h0]
    | some rid =>
      simp only at hf ⊢
      cases hr : (m1.malloc tmSize).1
      · rw [pair_eta _ hr]
        simp only
        rw [registry_freerec, h1, h0]
      · rw [pair_eta _ hr] at hf ⊢
        simp only at hf ⊢
        rcases hta : HeapAlloc.tqAdd t (secOf (now + usec)) (usecOf (now + usec)) m1.n (m1.malloc tmSize).2 with ⟨oc, t', m3⟩
        rw [hta] at hf
        cases oc with
        | none =>
          simp only
          rw [registry_freerec, ← h0, ← h1]; simp [registry]
        | some c => simp at hf

theorem netOf_append_empty : ∀ (l : List SockRec) (fd k : Nat),
    netOf fd (l ++ List.replicate k SockRec.empty) = netOf fd l
  | [], fd, k => by
    induction k generalizing fd with
    | zero => rfl
    | succ k ih => simp only [List.nil_append, List.replicate_succ, netOf, SockRec.empty] at ih ⊢; simpa using ih (fd + 1)
  | r :: rest, fd, k => by
    simp only [List.cons_append, netOf, netOf_append_empty rest (fd + 1) k]

theorem registry_netInit (e : Ev) (m : Mem) (hS : e.sAlloc = none → e.socks = []) :
    registry (netInit e m).2.1 = registry e := by
  unfold netInit
  split
  · rfl
  · rename_i hnone
    split
    · simp [registry, hS hnone]
    · rfl

theorem net_fail_unchanged (e : Ev) (id s : Nat) (w : Bool) (m : Mem) (hS : e.sAlloc = none → e.socks = [])
    (hf : (netReg e id s w m).1 ≠ .ok) :
    registry (netReg e id s w m).2.1 = registry e := by
  have hi := registry_netInit e m hS
  unfold netReg at hf ⊢
  rcases hni : netInit e m with ⟨ok0, e0, m0⟩
  rw [hni] at hi hf
  simp only at hi hf ⊢
  cases ok0
  · exact hi
  · simp only at hf ⊢
    cases hsa : e0.sAlloc with
    | none => simp only; exact hi
    | some sal =>
      rw [hsa] at hf
      simp only at hf ⊢
      -- the (possibly grown) socket list holds the same registrations
      have hgrow : ∀ (al k : Nat) (ss : List SockRec), ss = e0.socks ++ List.replicate k SockRec.empty →
          registry { e0 with sAlloc := some al, socks := ss } = registry e0 := by
        intro al k ss hss; subst hss; simp [registry, netOf_append_empty]
      split at hf
      · -- growing failed
        rename_i e1 m1 hg
        have : registry e1 = registry e0 := by
          split at hg
          · split at hg <;> (cases hg)
            · rfl
          · cases hg
        rw [this]; exact hi
      · rename_i e1 m1 hg
        have he1 : registry e1 = registry e0 := by
          split at hg
          · split at hg
            · cases hg; exact hgrow _ _ _ rfl
            · cases hg
          · cases hg; rfl
        split at hf
        · (try simp only); rw [he1]; exact hi
        · rename_i rec hrec
          by_cases hsl : (slot rec w).isSome = true
          · simp only [hsl, if_true]; rw [he1]; exact hi
          · simp only [hsl, Bool.false_eq_true, if_false] at hf ⊢
            have hmk := registry_mkrec e1 m1
            rcases hmkr : mkrec e1 m1 with ⟨o, e2, m2⟩
            rw [hmkr] at hmk hf
            simp only at hmk hf ⊢
            cases o with
            | none => (try simp only); rw [hmk, he1]; exact hi
            | some rid =>
              simp only at hf ⊢
              split at hf
              · rename_i e3 m3 hgp
                (try simp only)
                rw [registry_freerec]
                have : registry e3 = registry e2 := by
                  split at hgp
                  · cases hgp
                  · split at hgp
                    · split at hgp <;> cases hgp
                      · rfl
                    · cases hgp
                rw [this, hmk, he1]; exact hi
              · simp at hf

end Percival.Proofs.AllocFail
