import Percival.Model.Json
/-! C15 for json.c: every function of the model, on every buffer, returns `ok j` with `j` between its start
offset and the end of the buffer — no `oob`, no `nofuel`. -/
namespace Percival.Proofs.JsonSafe
open Percival.Model Percival.Model.Json

/-- the result is a pointer in `[i, end]` -/
def InR (b : Buf) (i : Nat) (r : Res Nat) : Prop := ∃ j, r = .ok j ∧ i ≤ j ∧ j ≤ b.size

theorem InR.mono {b : Buf} {i i' : Nat} {r : Res Nat} (h : InR b i r) (hi : i' ≤ i) : InR b i' r := by
  obtain ⟨j, hj, h1, h2⟩ := h
  exact ⟨j, hj, by omega, h2⟩

theorem rdR_lt {b : Buf} {i : Nat} (h : i < b.size) : rdR b i = .ok b[i] := by
  simp [rdR, rd, h]

theorem skipWsF_ok (b : Buf) (f i : Nat) (hi : i ≤ b.size) (hf : b.size - i < f) : InR b i (skipWsF b f i) := by
  induction f generalizing i with
  | zero => omega
  | succ f ih =>
    simp only [skipWsF]
    split
    · rename_i hlt
      simp only [rd_lt hlt]
      split
      · exact (ih (i+1) (by omega) (by omega)).mono (by omega)
      · exact ⟨i, rfl, Nat.le_refl _, hi⟩
    · exact ⟨i, rfl, Nat.le_refl _, hi⟩

theorem skipWs_ok (b : Buf) (i : Nat) (hi : i ≤ b.size) : InR b i (skipWs b i) :=
  skipWsF_ok b _ i hi (by omega)

theorem skipNumberF_ok (b : Buf) (f i : Nat) (hi : i ≤ b.size) (hf : b.size - i < f) : InR b i (skipNumberF b f i) := by
  induction f generalizing i with
  | zero => omega
  | succ f ih =>
    simp only [skipNumberF]
    split
    · rename_i hlt
      simp only [rd_lt hlt]
      split
      · exact (ih (i+1) (by omega) (by omega)).mono (by omega)
      · exact ⟨i, rfl, Nat.le_refl _, hi⟩
    · exact ⟨i, rfl, Nat.le_refl _, hi⟩

theorem skipNumber_ok (b : Buf) (i : Nat) (hi : i ≤ b.size) : InR b i (skipNumber b i) :=
  skipNumberF_ok b _ i hi (by omega)

theorem memEq_ok (b : Buf) (i : Nat) (lit : List UInt8) (h : i + lit.length ≤ b.size) :
    ∃ r, memEq b i lit = .ok r := by
  induction lit generalizing i with
  | nil => exact ⟨true, rfl⟩
  | cons x xs ih =>
    simp only [List.length_cons] at h
    simp only [memEq, rd_lt (show i < b.size by omega)]
    obtain ⟨r, hr⟩ := ih (i+1) (by omega)
    rw [hr]
    exact ⟨_, rfl⟩

theorem litAt_ok (b : Buf) (i : Nat) (lit : List UInt8) (hi : i ≤ b.size) :
    ∃ r, litAt b i lit = .ok r ∧ (r = true → i + lit.length ≤ b.size) := by
  simp only [litAt]
  split
  · rename_i h
    obtain ⟨r, hr⟩ := memEq_ok b i lit (by omega)
    exact ⟨r, hr, fun _ => by omega⟩
  · exact ⟨false, rfl, fun h => by cases h⟩

theorem skipLiteral_ok (b : Buf) (i : Nat) (hi : i ≤ b.size) : InR b i (skipLiteral b i) := by
  simp only [skipLiteral]
  obtain ⟨r1, h1, l1⟩ := litAt_ok b i litFalse hi
  obtain ⟨r2, h2, l2⟩ := litAt_ok b i litNull hi
  obtain ⟨r3, h3, l3⟩ := litAt_ok b i litTrue hi
  rw [h1]
  cases r1 with
  | true => exact ⟨i+5, rfl, by omega, by have := l1 rfl; simp [litFalse] at this; omega⟩
  | false =>
    simp only [h2]
    cases r2 with
    | true => exact ⟨i+4, rfl, by omega, by have := l2 rfl; simp [litNull] at this; omega⟩
    | false =>
      simp only [h3]
      cases r3 with
      | true => exact ⟨i+4, rfl, by omega, by have := l3 rfl; simp [litTrue] at this; omega⟩
      | false => exact ⟨b.size, rfl, hi, Nat.le_refl _⟩

theorem skipStringF_ok (b : Buf) (f i : Nat) (hi : i ≤ b.size) (hf : b.size - i < f) : InR b i (skipStringF b f i) := by
  induction f generalizing i with
  | zero => omega
  | succ f ih =>
    simp only [skipStringF]
    split
    · rename_i hlt
      simp only [rd_lt hlt]
      split
      · exact ⟨i+1, rfl, by omega, by omega⟩
      · split
        · split
          · exact ⟨i+1, rfl, by omega, by omega⟩
          · rename_i hne
            have hne' : i + 1 ≠ b.size := by simpa using hne
            have hlt2 : i + 1 < b.size := by omega
            simp only [rd_lt hlt2]
            split
            · split
              · exact ⟨i+2, rfl, by omega, by omega⟩
              · exact (ih (i+6) (by omega) (by omega)).mono (by omega)
            · exact (ih (i+2) (by omega) (by omega)).mono (by omega)
        · exact (ih (i+1) (by omega) (by omega)).mono (by omega)
    · exact ⟨i, rfl, Nat.le_refl _, hi⟩

/-- `skip_string` called (as the C does) with `buf < end` -/
theorem skipString_ok (b : Buf) (i : Nat) (hi : i < b.size) : InR b (i+1) (skipString b i) :=
  skipStringF_ok b _ (i+1) (by omega) (by omega)


theorem InR.bind {b : Buf} {i k : Nat} {r : Res Nat} {g : Nat → Res Nat} (h : InR b i r)
    (hg : ∀ j, i ≤ j → j ≤ b.size → InR b k (g j)) : InR b k (r >>= g) := by
  obtain ⟨j, hj, h1, h2⟩ := h
  rw [hj, Res.ok_bind]
  exact hg j h1 h2

/-- fuel bounds under which the five mutually recursive skippers succeed (m = bytes remaining) -/
structure Inv (b : Buf) (f : Nat) : Prop where
  value : ∀ i, i ≤ b.size → 3 * (b.size - i) + 1 ≤ f → InR b i (skipValueF b f i)
  array : ∀ i, i < b.size → 3 * (b.size - i) ≤ f → InR b i (skipArrayF b f i)
  aloop : ∀ i, i ≤ b.size → 3 * (b.size - i) + 2 ≤ f → InR b i (arrLoopF b f i)
  object : ∀ i, i < b.size → 3 * (b.size - i) ≤ f → InR b i (skipObjectF b f i)
  oloop : ∀ i, i ≤ b.size → 3 * (b.size - i) + 2 ≤ f → InR b i (objLoopF b f i)

theorem inv_all (b : Buf) : ∀ f, Inv b f := by
  intro f
  induction f with
  | zero =>
    constructor
    · intro i _ h; omega
    · intro i h1 h2; omega
    · intro i _ h; omega
    · intro i h1 h2; omega
    · intro i _ h; omega
  | succ f ih =>
    constructor
    · -- skip_value
      intro i hi hf
      simp only [skipValueF]
      split
      · exact ⟨b.size, rfl, hi, Nat.le_refl _⟩
      · rename_i hne
        have hlt : i < b.size := by
          have : i ≠ b.size := by simpa using hne
          omega
        rw [rdR_lt hlt, Res.ok_bind]
        split
        · exact skipLiteral_ok b i hi
        · split
          · exact (skipString_ok b i hlt).mono (by omega)
          · split
            · exact ih.array i hlt (by omega)
            · split
              · exact ih.object i hlt (by omega)
              · split
                · exact skipNumber_ok b i hi
                · exact ⟨b.size, rfl, hi, Nat.le_refl _⟩
    · -- skip_array
      intro i hi hf
      simp only [skipArrayF]
      refine (skipWs_ok b (i+1) (by omega)).bind ?_
      intro j hj1 hj2
      split
      · exact ⟨b.size, rfl, by omega, Nat.le_refl _⟩
      · rename_i hne
        have hlt : j < b.size := by
          have : j ≠ b.size := by simpa using hne
          omega
        rw [rdR_lt hlt, Res.ok_bind]
        split
        · exact ⟨j+1, rfl, by omega, by omega⟩
        · exact (ih.aloop j hj2 (by omega)).mono (by omega)
    · -- the loop of skip_array
      intro i hi hf
      simp only [arrLoopF]
      refine (skipWs_ok b i hi).bind ?_
      intro j1 h11 h12
      refine (ih.value j1 h12 (by omega)).bind ?_
      intro j2 h21 h22
      refine (skipWs_ok b j2 h22).bind ?_
      intro j h1 h2
      split
      · exact ⟨b.size, rfl, by omega, Nat.le_refl _⟩
      · rename_i hne
        have hlt : j < b.size := by
          have : j ≠ b.size := by simpa using hne
          omega
        rw [rdR_lt hlt, Res.ok_bind]
        split
        · exact ⟨j+1, rfl, by omega, by omega⟩
        · split
          · exact ⟨b.size, rfl, by omega, Nat.le_refl _⟩
          · exact (ih.aloop (j+1) (by omega) (by omega)).mono (by omega)
    · -- skip_object
      intro i hi hf
      simp only [skipObjectF]
      refine (skipWs_ok b (i+1) (by omega)).bind ?_
      intro j hj1 hj2
      split
      · exact ⟨b.size, rfl, by omega, Nat.le_refl _⟩
      · rename_i hne
        have hlt : j < b.size := by
          have : j ≠ b.size := by simpa using hne
          omega
        rw [rdR_lt hlt, Res.ok_bind]
        split
        · exact ⟨j+1, rfl, by omega, by omega⟩
        · exact (ih.oloop j hj2 (by omega)).mono (by omega)
    · -- the loop of skip_object
      intro i hi hf
      simp only [objLoopF]
      refine (skipWs_ok b i hi).bind ?_
      intro j0 h01 h02
      split
      · exact ⟨b.size, rfl, by omega, Nat.le_refl _⟩
      · rename_i hne0
        have hlt0 : j0 < b.size := by
          have : j0 ≠ b.size := by simpa using hne0
          omega
        refine (skipString_ok b j0 hlt0).bind ?_
        intro j1 h11 h12
        refine (skipWs_ok b j1 h12).bind ?_
        intro j2 h21 h22
        split
        · exact ⟨b.size, rfl, by omega, Nat.le_refl _⟩
        · rename_i hne2
          have hlt2 : j2 < b.size := by
            have : j2 ≠ b.size := by simpa using hne2
            omega
          rw [rdR_lt hlt2, Res.ok_bind]
          split
          · exact ⟨b.size, rfl, by omega, Nat.le_refl _⟩
          · refine (skipWs_ok b (j2+1) (by omega)).bind ?_
            intro j3 h31 h32
            refine (ih.value j3 h32 (by omega)).bind ?_
            intro j4 h41 h42
            refine (skipWs_ok b j4 h42).bind ?_
            intro j h1 h2
            split
            · exact ⟨b.size, rfl, by omega, Nat.le_refl _⟩
            · rename_i hne
              have hlt : j < b.size := by
                have : j ≠ b.size := by simpa using hne
                omega
              rw [rdR_lt hlt, Res.ok_bind]
              split
              · exact ⟨j+1, rfl, by omega, by omega⟩
              · split
                · exact ⟨b.size, rfl, by omega, Nat.le_refl _⟩
                · exact (ih.oloop (j+1) (by omega) (by omega)).mono (by omega)

/-- `skip_value` from any offset inside the buffer: fuel suffices, no read outside, result in `[i, end]` -/
theorem skipValue_ok (b : Buf) (i : Nat) (hi : i ≤ b.size) : InR b i (skipValue b i) :=
  (inv_all b _).value i hi (by simp only [valueFuel]; omega)


/-! ### `match_str`, `SCAN`, `json_find` -/

theorem cstr_size (k : List UInt8) : (cstr k).size = k.length + 1 := by simp [cstr]

/-- reading the key at `s ≤ strlen`: in bounds; a non-NUL character means `s` is before the terminator -/
theorem key_rd (k : List UInt8) (s : Nat) (hs : s ≤ k.length) :
    ∃ c, rdR (cstr k) s = .ok c ∧ (c ≠ 0 → s < k.length) := by
  have hlt : s < (cstr k).size := by rw [cstr_size]; omega
  refine ⟨(cstr k)[s], rdR_lt hlt, ?_⟩
  intro hc
  by_cases h : s < k.length
  · exact h
  · exfalso
    have hs' : s = k.length := by omega
    apply hc
    subst hs'
    simp [cstr]

theorem matchStep_ok (k : List UInt8) (s : Nat) (ch : UInt8) (found : Bool) (hs : s ≤ k.length) :
    ∃ r, matchStep (cstr k) s ch found = .ok r ∧ r.1 ≤ k.length := by
  obtain ⟨c, hc, hlt⟩ := key_rd k s hs
  simp only [matchStep, hc, Res.ok_bind]
  refine ⟨_, rfl, ?_⟩
  by_cases h0 : c = 0
  · simp [h0, hs]
  · have := hlt h0
    simp [h0]; omega

/-- the result of `match_str`: a pointer in `[i, end]` and a flag -/
def InR2 (b : Buf) (i : Nat) (r : Res (Nat × Bool)) : Prop := ∃ j fd, r = .ok (j, fd) ∧ i ≤ j ∧ j ≤ b.size

theorem InR2.mono {b : Buf} {i i' : Nat} {r : Res (Nat × Bool)} (h : InR2 b i r) (hi : i' ≤ i) : InR2 b i' r := by
  obtain ⟨j, fd, hj, h1, h2⟩ := h
  exact ⟨j, fd, hj, by omega, h2⟩

theorem matchStrF_ok (b : Buf) (k : List UInt8) (f i s : Nat) (found : Bool) (hi : i ≤ b.size)
    (hf : b.size - i < f) (hs : s ≤ k.length) : InR2 b i (matchStrF b (cstr k) f i s found) := by
  induction f generalizing i s found with
  | zero => omega
  | succ f ih =>
    simp only [matchStrF]
    split
    · exact ⟨b.size, found, rfl, hi, Nat.le_refl _⟩
    · rename_i hne
      have hlt : i < b.size := by
        have : i ≠ b.size := by simpa using hne
        omega
      rw [rdR_lt hlt, Res.ok_bind]
      split
      · obtain ⟨c, hc, _⟩ := key_rd k s hs
        rw [hc, Res.ok_bind]
        exact ⟨i+1, _, rfl, by omega, by omega⟩
      · split
        · split
          · exact ⟨b.size, found, rfl, hi, Nat.le_refl _⟩
          · rename_i hne1
            have hlt1 : i + 1 < b.size := by
              have : i + 1 ≠ b.size := by simpa using hne1
              omega
            rw [rdR_lt hlt1, Res.ok_bind]
            split
            · split
              · exact ⟨b.size, found, rfl, hi, Nat.le_refl _⟩
              · obtain ⟨r, hr, hrs⟩ := matchStep_ok k s b[i] false hs
                rw [hr, Res.ok_bind]
                exact (ih (i+6) r.1 r.2 (by omega) (by omega) hrs).mono (by omega)
            · split
              · exact ⟨b.size, false, rfl, hi, Nat.le_refl _⟩
              · rename_i ch' _
                obtain ⟨r, hr, hrs⟩ := matchStep_ok k s ch' found hs
                rw [hr, Res.ok_bind]
                exact (ih (i+2) r.1 r.2 (by omega) (by omega) hrs).mono (by omega)
        · obtain ⟨r, hr, hrs⟩ := matchStep_ok k s b[i] found hs
          rw [hr, Res.ok_bind]
          exact (ih (i+1) r.1 r.2 (by omega) (by omega) hrs).mono (by omega)

theorem matchStr_ok (b : Buf) (k : List UInt8) (i : Nat) (hi : i ≤ b.size) : InR2 b i (matchStr b (cstr k) i) :=
  matchStrF_ok b k _ i 0 true hi (by omega) (Nat.zero_le _)

/-- `SCAN`: either "return end" or a pointer strictly after `i`, still inside -/
theorem scan_ok (b : Buf) (i : Nat) (ch : UInt8) (hi : i ≤ b.size) :
    ∃ r, scan b i ch = .ok r ∧ ∀ j, r = some j → i < j ∧ j ≤ b.size := by
  simp only [scan]
  obtain ⟨j, hj, h1, h2⟩ := skipWs_ok b i hi
  rw [hj, Res.ok_bind]
  split
  · exact ⟨none, rfl, fun _ h => by cases h⟩
  · rename_i hne
    have hlt : j < b.size := by
      have : j ≠ b.size := by simpa using hne
      omega
    rw [rdR_lt hlt, Res.ok_bind]
    split
    · exact ⟨none, rfl, fun _ h => by cases h⟩
    · refine ⟨some (j+1), rfl, ?_⟩
      intro j' h
      cases h
      omega

theorem findLoopF_ok (b : Buf) (k : List UInt8) (f i : Nat) (hi : i ≤ b.size) (hf : b.size - i < f) :
    InR b i (findLoopF b (cstr k) f i) := by
  induction f generalizing i with
  | zero => omega
  | succ f ih =>
    simp only [findLoopF]
    obtain ⟨r1, hr1, p1⟩ := scan_ok b i 0x22 hi
    rw [hr1, Res.ok_bind]
    cases r1 with
    | none => exact ⟨b.size, rfl, hi, Nat.le_refl _⟩
    | some j1 =>
      obtain ⟨h11, h12⟩ := p1 j1 rfl
      obtain ⟨j2, fd, hm, h21, h22⟩ := matchStr_ok b k j1 h12
      simp only [hm, Res.ok_bind]
      obtain ⟨r3, hr3, p3⟩ := scan_ok b j2 0x3a h22
      rw [hr3, Res.ok_bind]
      cases r3 with
      | none => exact ⟨b.size, rfl, hi, Nat.le_refl _⟩
      | some j3 =>
        obtain ⟨h31, h32⟩ := p3 j3 rfl
        obtain ⟨j4, hj4, h41, h42⟩ := skipWs_ok b j3 h32
        simp only [hj4, Res.ok_bind]
        cases fd with
        | true => exact ⟨j4, rfl, by omega, h42⟩
        | false =>
          obtain ⟨j5, hj5, h51, h52⟩ := skipValue_ok b j4 h42
          simp only [hj5, Res.ok_bind, Bool.false_eq_true, if_false]
          obtain ⟨r6, hr6, p6⟩ := scan_ok b j5 0x2c h52
          rw [hr6, Res.ok_bind]
          cases r6 with
          | none => exact ⟨b.size, rfl, hi, Nat.le_refl _⟩
          | some j6 =>
            obtain ⟨h61, h62⟩ := p6 j6 rfl
            exact (ih j6 h62 (by omega)).mono (by omega)

/-- C15 for `json_find`: for every buffer and every key, the model reads nothing outside `[buf, end)` or the key
    string, terminates within its fuel, and returns an offset in `[0, n]`. -/
theorem jsonFind_ok (b : Buf) (k : List UInt8) : ∃ j, jsonFind b (cstr k) = .ok j ∧ j ≤ b.size := by
  simp only [jsonFind]
  obtain ⟨r, hr, p⟩ := scan_ok b 0 0x7b (Nat.zero_le _)
  rw [hr, Res.ok_bind]
  cases r with
  | none => exact ⟨b.size, rfl, Nat.le_refl _⟩
  | some j =>
    obtain ⟨h1, h2⟩ := p j rfl
    obtain ⟨j', hj', _, h4⟩ := findLoopF_ok b k (b.size + 1) j h2 (by omega)
    exact ⟨j', hj', h4⟩

end Percival.Proofs.JsonSafe
