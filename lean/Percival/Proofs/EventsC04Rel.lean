import Percival.Proofs.EventsNetGet
import Percival.Proofs.EventsNetReg
import Percival.Proofs.EventsImm
import Percival.Proofs.EventsLive
import Percival.Proofs.EventsTQ
/-!
# C04: the relation between the monitor's state and the model's state, and how each
  immediate / socket / poll step keeps it (helper lemmas)
-/
set_option linter.unusedSimpArgs false
namespace Percival.Proofs.EventsC04
open Percival.Spec.Events Percival.Spec.Events.C04 Percival.Model.Events Percival.Model
open Percival.Proofs.EventsNet Percival.Proofs.EventsImm Percival.Proofs.EventsLive Percival.Proofs.EventsTQ

/-! ## the relation between the C04 monitor's state and the model's state -/

/-- immediates: the monitor's `imm p` entries are exactly the contents of queue `p` -/
def RImm (live : List (Nat × Reg)) (q : Imm) : Prop :=
  ∃ l : List C05.Imm, RQ q l ∧ IdsNodup l ∧ ∀ id p, lookup live id = some (.imm p) ↔ (⟨id, p⟩ : C05.Imm) ∈ l

/-- sockets: the monitor's `net fd d` entries are exactly the filled slots; a reported direction is
    justified by "ready since registered" or by ERR/HUP in the latest poll -/
structure RNet (live : List (Nat × Reg)) (errhup : List Nat) (n : Net) : Prop where
  inv : Inv n
  iff : ∀ id fd d, (∃ rs, lookup live id = some (.net fd d rs)) ↔ slot n fd d = some id
  ghostR : ∀ (j : Nat) (e : PollFd) (d : Dir) (id : Nat), n.fds[j]? = some e → e.rev.dir d = true →
      slot n e.fd d = some id → ∃ rs, lookup live id = some (.net e.fd d rs) ∧ (rs = true ∨ e.fd ∈ errhup)
  ghostE : ∀ (j : Nat) (e : PollFd), n.fds[j]? = some e → e.rev.errhup = true → e.fd ∈ errhup

/-- what the model knows about timer `id`: original timeout `us` and absolute deadline `dl` (µs) -/
def TmView (tq : TimerQueue.TQ) (timers : List (Nat × TimerRec)) (id us dl : Nat) : Prop :=
  ∃ (t : TimerRec) (x : TimerQueue.Rec), (id, t) ∈ timers ∧ TimerQueue.lookup tq.recs t.qrec = some x ∧
    x.sec * 1000000 + x.usec = dl ∧ t.osec * 1000000 + t.ousec = us

/-- well-formedness of the timer side (independent of the monitor) -/
structure TmOk (C : TQContract) (tq : TimerQueue.TQ) (timers : List (Nat × TimerRec)) (nextRec : Nat) : Prop where
  inv : C.TQInv tq
  keys : (timers.map (·.1)).Nodup
  recsNd : (timers.map (·.2.qrec)).Nodup
  perm : tq.h.a.toList.Perm (timers.map (·.2.qrec))
  fresh : ∀ p ∈ timers, p.2.qrec < nextRec
  bound : ∀ p ∈ timers, ∃ x, TimerQueue.lookup tq.recs p.2.qrec = some x ∧ x.ptr = p.1 ∧
      0 ≤ x.sec ∧ 0 ≤ x.usec ∧ x.usec < 1000000 ∧ 0 ≤ p.2.osec ∧ 0 ≤ p.2.ousec ∧ p.2.ousec < 1000000

structure RTm (C : TQContract) (live : List (Nat × Reg)) (clock : Nat) (tq : TimerQueue.TQ)
    (timers : List (Nat × TimerRec)) (nextRec : Nat) : Prop where
  ok : TmOk C tq timers nextRec
  iff : ∀ id us dl, lookup live id = some (.timer us dl) ↔ TmView tq timers id us dl
  dl : ∀ id us dl, lookup live id = some (.timer us dl) → dl ≤ clock + us

structure Rel (C : TQContract) (m : M) (s : State) : Prop where
  keys : KeysNodup m.live
  clock : m.clock = s.clock
  imm : RImm m.live s.imm
  net : RNet m.live m.errhup s.net
  tm : RTm C m.live m.clock s.tq s.timers s.nextRec

/-! ### frame lemmas: each part only looks at its own kind of entry -/

theorem RImm.congr {live live' : List (Nat × Reg)} {q : Imm}
    (h : ∀ id p, lookup live' id = some (.imm p) ↔ lookup live id = some (.imm p)) (r : RImm live q) : RImm live' q := by
  obtain ⟨l, h1, h2, h3⟩ := r
  exact ⟨l, h1, h2, fun id p => (h id p).trans (h3 id p)⟩

theorem RNet.congr {live live' : List (Nat × Reg)} {eh : List Nat} {n : Net}
    (h : ∀ id fd d rs, lookup live' id = some (.net fd d rs) ↔ lookup live id = some (.net fd d rs))
    (r : RNet live eh n) : RNet live' eh n := by
  refine ⟨r.inv, ?_, ?_, r.ghostE⟩
  · intro id fd d
    rw [← r.iff id fd d]
    constructor <;> (rintro ⟨rs, hrs⟩; exact ⟨rs, by first | exact (h id fd d rs).mp hrs | exact (h id fd d rs).mpr hrs⟩)
  · intro j e d id he hr hs
    obtain ⟨rs, h1, h2⟩ := r.ghostR j e d id he hr hs
    exact ⟨rs, (h id e.fd d rs).mpr h1, h2⟩

theorem RTm.congr {C : TQContract} {live live' : List (Nat × Reg)} {clock : Nat} {tq : TimerQueue.TQ}
    {timers : List (Nat × TimerRec)} {nextRec : Nat}
    (h : ∀ id us dl, lookup live' id = some (.timer us dl) ↔ lookup live id = some (.timer us dl))
    (r : RTm C live clock tq timers nextRec) : RTm C live' clock tq timers nextRec :=
  ⟨r.ok, fun id us dl => (h id us dl).trans (r.iff id us dl), fun id us dl hh => r.dl id us dl ((h id us dl).mp hh)⟩


theorem netHolds_iff (n : Net) (id : Nat) : netHolds n id = true ↔ ∃ fd d, slot n fd d = some id := by
  unfold netHolds slot
  rw [Array.any_eq_true]
  constructor
  · rintro ⟨i, hi, h⟩
    simp only [Bool.or_eq_true, beq_iff_eq] at h
    rcases h with h | h
    · exact ⟨i, .rd, by simp [hi, Sock.get, h]⟩
    · exact ⟨i, .wr, by simp [hi, Sock.get, h]⟩
  · rintro ⟨fd, d, h⟩
    cases hS : n.S[fd]? with
    | none => simp [hS] at h
    | some s =>
      obtain ⟨hlt, hs⟩ := Array.getElem?_eq_some_iff.mp hS
      simp only [hS, Option.bind_some] at h
      refine ⟨fd, hlt, ?_⟩
      rw [hs]
      cases d <;> simp only [Sock.get] at h <;> simp [h]

theorem timerOf_some_mem (s : State) (id : Nat) (t : TimerRec) (h : timerOf s id = some t) : (id, t) ∈ s.timers := by
  unfold timerOf at h
  rw [Option.map_eq_some_iff] at h
  obtain ⟨p, hp, rfl⟩ := h
  have h1 := List.find?_some hp
  have h2 := List.mem_of_find?_eq_some hp
  simp only [beq_iff_eq] at h1
  rw [← h1]; exact h2

theorem timerOf_none (s : State) (id : Nat) (h : timerOf s id = none) (t : TimerRec) : (id, t) ∉ s.timers := by
  unfold timerOf at h
  rw [Option.map_eq_none_iff, List.find?_eq_none] at h
  intro hm
  have := h _ hm
  simp at this

theorem timerOf_of_mem (s : State) (id : Nat) (t : TimerRec) (hk : (s.timers.map (·.1)).Nodup) (hm : (id, t) ∈ s.timers) :
    timerOf s id = some t := by
  cases h : timerOf s id with
  | none => exact absurd hm (timerOf_none s id h t)
  | some t' =>
    have hm' := timerOf_some_mem s id t' h
    have := inj_of_nodup_map (fun p : Nat × TimerRec => p.1) s.timers hk _ hm _ hm' rfl
    simp only [Prod.mk.injEq, true_and] at this
    rw [this]

/-- an id that is not registered in the model is not in the monitor's table -/
theorem lookup_none_of_not_live {C : TQContract} {m : M} {s : State} (r : Rel C m s) (id : Nat)
    (h : isLive s id = false) : lookup m.live id = none := by
  unfold isLive at h
  simp only [Bool.or_eq_false_iff, Option.isSome_eq_false_iff, Option.isNone_iff_eq_none] at h
  obtain ⟨⟨h1, h2⟩, h3⟩ := h
  cases hl : lookup m.live id with
  | none => rfl
  | some reg =>
    exfalso
    cases reg with
    | imm p =>
      obtain ⟨l, hq, _, hiff⟩ := r.imm
      exact immPrioOf_none s.imm l id hq h1 p ((hiff id p).mp hl)
    | net fd d rs =>
      have := (r.net.iff id fd d).mp ⟨rs, hl⟩
      have hh : netHolds s.net id = true := (netHolds_iff s.net id).mpr ⟨fd, d, this⟩
      rw [h2] at hh; cases hh
    | timer us dl =>
      obtain ⟨t, x, hm, _⟩ := (r.tm.iff id us dl).mp hl
      exact timerOf_none s id h3 t hm


/-! ### inserting / removing one entry of the monitor's table -/

theorem lookup_insert_fresh (live : List (Nat × Reg)) (id : Nat) (r : Reg) (h : lookup live id = none) (id' : Nat) (reg : Reg) :
    lookup ((id, r) :: remove live id) id' = some reg ↔ (id' = id ∧ reg = r) ∨ lookup live id' = some reg := by
  rw [lookup_cons]
  by_cases hi : id' = id
  · subst hi; simp [h]; exact eq_comm
  · simp [hi, lookup_remove]

theorem lookup_remove_iff (live : List (Nat × Reg)) (id id' : Nat) (reg : Reg) :
    lookup (remove live id) id' = some reg ↔ id' ≠ id ∧ lookup live id' = some reg := by
  rw [lookup_remove]
  by_cases hi : id' = id <;> simp [hi]

/-- registering an immediate -/
theorem rel_regImm {C : TQContract} {m : M} {s : State} (r : Rel C m s) (id prio : Nat)
    (hl : isLive s id = false) (hp : prio < 32) :
    ∃ q', immRegister s.imm id prio = some q' ∧
      Rel C { m with live := (id, .imm prio) :: remove m.live id } { s with imm := q' } := by
  have hnone := lookup_none_of_not_live r id hl
  obtain ⟨l, hq, hnd, hiff⟩ := r.imm
  obtain ⟨q', heq, hq'⟩ := immRegister_rq s.imm l id prio hq hp
  refine ⟨q', heq, ⟨keys_cons_remove _ _ _ r.keys, r.clock, ?_, ?_, ?_⟩⟩
  · refine ⟨l ++ [⟨id, prio⟩], hq', ?_, ?_⟩
    · unfold IdsNodup at *
      rw [List.map_append, List.nodup_append]
      refine ⟨hnd, by simp, ?_⟩
      intro a ha b hb
      simp only [List.map_cons, List.map_nil, List.mem_singleton] at hb
      subst hb
      intro hab; subst hab
      simp only [List.mem_map] at ha
      obtain ⟨i, hi, hid⟩ := ha
      have : lookup m.live i.id = some (.imm i.prio) := (hiff i.id i.prio).mpr hi
      rw [hid, hnone] at this; cases this
    · intro id' p
      rw [lookup_insert_fresh _ _ _ hnone, List.mem_append, List.mem_singleton, hiff]
      constructor
      · rintro (⟨rfl, h2⟩ | h)
        · cases h2; exact Or.inr rfl
        · exact Or.inl h
      · rintro (h | h)
        · exact Or.inr h
        · cases h; exact Or.inl ⟨rfl, rfl⟩
  · apply RNet.congr _ r.net
    intro id' fd d rs
    rw [lookup_insert_fresh _ _ _ hnone]
    constructor
    · rintro (⟨_, h2⟩ | h)
      · cases h2
      · exact h
    · exact Or.inr
  · apply RTm.congr _ r.tm
    intro id' us dl
    rw [lookup_insert_fresh _ _ _ hnone]
    constructor
    · rintro (⟨_, h2⟩ | h)
      · cases h2
      · exact h
    · exact Or.inr

/-- cancelling an immediate -/
theorem rel_cancelImm {C : TQContract} {m : M} {s : State} (r : Rel C m s) (id p : Nat)
    (hp : immPrioOf s.imm id = some p) :
    ∃ q', immCancel s.imm id p = some q' ∧ Rel C { m with live := remove m.live id } { s with imm := q' } := by
  obtain ⟨l, hq, hnd, hiff⟩ := r.imm
  have hm := immPrioOf_some s.imm l id p hq hp
  have hlive : lookup m.live id = some (.imm p) := (hiff id p).mpr hm
  obtain ⟨q', heq, hq'⟩ := immCancel_rq s.imm l id p hq hnd hm
  refine ⟨q', heq, ⟨keys_remove _ _ r.keys, r.clock, ?_, ?_, ?_⟩⟩
  · refine ⟨_, hq', filter_idsNodup hnd id, ?_⟩
    intro id' p'
    rw [lookup_remove_iff, hiff, List.mem_filter]
    simp only [bne_iff_ne, ne_eq, and_comm]
  · apply RNet.congr _ r.net
    intro id' fd d rs
    rw [lookup_remove_iff]
    constructor
    · exact fun h => h.2
    · intro h; refine ⟨?_, h⟩
      intro hc; subst hc; rw [hlive] at h; cases h
  · apply RTm.congr _ r.tm
    intro id' us dl
    rw [lookup_remove_iff]
    constructor
    · exact fun h => h.2
    · intro h; refine ⟨?_, h⟩
      intro hc; subst hc; rw [hlive] at h; cases h


/-! ### sockets -/

/-- registering a socket event that the code accepts -/
theorem rel_regNet_ok {C : TQContract} {m : M} {s : State} (r : Rel C m s) (id fd : Nat) (d : Dir) (n' : Net)
    (hl : isLive s id = false) (hfree : slot s.net fd d = none) (hinv : Inv n')
    (hslot : ∀ i d', slot n' i d' = if i = fd ∧ d' = d then some id else slot s.net i d')
    (hent : EntriesKept n' s.net fd)
    (hrev : ∀ (j' : Nat) (e' : PollFd), n'.fds[j']? = some e' → e'.fd = fd → e'.rev.dir d = false) :
    Rel C { m with live := (id, .net fd d false) :: remove m.live id } { s with net := n' } := by
  have hnone := lookup_none_of_not_live r id hl
  refine ⟨keys_cons_remove _ _ _ r.keys, r.clock, ?_, ?_, ?_⟩
  · apply RImm.congr _ r.imm
    intro id' p
    rw [lookup_insert_fresh _ _ _ hnone]
    constructor
    · rintro (⟨_, h2⟩ | h)
      · cases h2
      · exact h
    · exact Or.inr
  · refine ⟨hinv, ?_, ?_, ?_⟩
    · intro id' fd' d'
      rw [hslot]
      constructor
      · rintro ⟨rs, h⟩
        rw [lookup_insert_fresh _ _ _ hnone] at h
        rcases h with ⟨rfl, h2⟩ | h
        · cases h2; simp
        · have := (r.net.iff id' fd' d').mp ⟨rs, h⟩
          have hne : ¬ (fd' = fd ∧ d' = d) := by
            rintro ⟨rfl, rfl⟩; rw [hfree] at this; cases this
          simp [hne, this]
      · intro h
        by_cases hc : fd' = fd ∧ d' = d
        · obtain ⟨rfl, rfl⟩ := hc
          simp only [and_self, if_true, Option.some.injEq] at h
          subst h
          exact ⟨false, by rw [lookup_insert_fresh _ _ _ hnone]; exact Or.inl ⟨rfl, rfl⟩⟩
        · simp only [hc, if_false] at h
          obtain ⟨rs, hrs⟩ := (r.net.iff id' fd' d').mpr h
          exact ⟨rs, by rw [lookup_insert_fresh _ _ _ hnone]; exact Or.inr hrs⟩
    · intro j e' d' id' he' hr hs
      rcases hent j e' he' with ⟨e, he, hfd, hrv⟩ | ⟨_, hrv⟩
      · rw [hslot] at hs
        by_cases hc : e'.fd = fd ∧ d' = d
        · obtain ⟨h1, rfl⟩ := hc
          rw [hrev j e' he' h1] at hr; cases hr
        · simp only [hc, if_false] at hs
          rw [hfd] at hs
          rw [hrv] at hr
          obtain ⟨rs, h1, h2⟩ := r.net.ghostR j e d' id' he hr hs
          refine ⟨rs, ?_, by rw [hfd]; exact h2⟩
          rw [lookup_insert_fresh _ _ _ hnone, hfd]; exact Or.inr h1
      · rw [hrv] at hr; cases d' <;> simp [Bits.dir] at hr
    · intro j e' he' hr
      rcases hent j e' he' with ⟨e, he, hfd, hrv⟩ | ⟨_, hrv⟩
      · rw [hrv] at hr; rw [hfd]; exact r.net.ghostE j e he hr
      · rw [hrv] at hr; simp [Bits.errhup] at hr
  · apply RTm.congr _ r.tm
    intro id' us dl
    rw [lookup_insert_fresh _ _ _ hnone]
    constructor
    · rintro (⟨_, h2⟩ | h)
      · cases h2
      · exact h
    · exact Or.inr

/-- one socket registration `id` on `(fd, d)` leaves the table and its slot is dropped -/
theorem rnet_drop {live live' : List (Nat × Reg)} {eh : List Nat} {n n' : Net} (r : RNet live eh n) (id fd : Nat) (d : Dir)
    (hs : slot n fd d = some id)
    (hl : ∀ id' reg, lookup live' id' = some reg ↔ id' ≠ id ∧ lookup live id' = some reg)
    (hinv : Inv n') (hslot : ∀ i d', slot n' i d' = if i = fd ∧ d' = d then none else slot n i d')
    (hent : EntriesFrom n' n fd d) : RNet live' eh n' := by
  refine ⟨hinv, ?_, ?_, ?_⟩
  · intro id' fd' d'
    rw [hslot]
    constructor
    · rintro ⟨rs, h⟩
      obtain ⟨hne, h⟩ := (hl _ _).mp h
      have := (r.iff id' fd' d').mp ⟨rs, h⟩
      have hc : ¬ (fd' = fd ∧ d' = d) := by
        rintro ⟨rfl, rfl⟩; rw [hs] at this; cases this; exact hne rfl
      simp [hc, this]
    · intro h
      by_cases hc : fd' = fd ∧ d' = d
      · simp [hc] at h
      · simp only [hc, if_false] at h
        obtain ⟨rs, hrs⟩ := (r.iff id' fd' d').mpr h
        refine ⟨rs, (hl _ _).mpr ⟨?_, hrs⟩⟩
        intro hid; subst hid
        obtain ⟨rs0, h0⟩ := (r.iff id' fd d).mpr hs
        rw [h0] at hrs; cases hrs; exact hc ⟨rfl, rfl⟩
  · intro j e' d' id' he' hr hs'
    obtain ⟨j0, e, he, ⟨hfd, hrr, hrw, _, _⟩, hcl⟩ := hent j e' he'
    rw [hslot] at hs'
    by_cases hc : e'.fd = fd ∧ d' = d
    · simp [hc] at hs'
    · simp only [hc, if_false] at hs'
      have hr0 : e.rev.dir d' = true := by
        cases d' with
        | rd => exact hrr hr
        | wr => exact hrw hr
      rw [hfd] at hs'
      obtain ⟨rs, h1, h2⟩ := r.ghostR j0 e d' id' he hr0 hs'
      refine ⟨rs, ?_, by rw [hfd]; exact h2⟩
      rw [hfd]
      refine (hl _ _).mpr ⟨?_, h1⟩
      intro hid; subst hid
      obtain ⟨rs0, h0⟩ := (r.iff id' fd d).mpr hs
      rw [h0] at h1; cases h1
      exact hc ⟨hfd, rfl⟩
  · intro j e' he' hr
    obtain ⟨j0, e, he, ⟨hfd, _, _, hee, hhh⟩, _⟩ := hent j e' he'
    rw [hfd]
    apply r.ghostE j0 e he
    simp only [Bits.errhup] at *
    rw [← hee, ← hhh]; exact hr


theorem isNet_iff (fd : Nat) (d : Dir) (id : Nat) (reg : Reg) :
    isNet fd d (id, reg) = true ↔ ∃ rs, reg = .net fd d rs := by
  cases reg <;> simp [isNet]

/-- the table after the monitor's `cancelNet fd d` step, when `id` holds that slot -/
theorem lookup_cancelNet {live : List (Nat × Reg)} {eh : List Nat} {n : Net} (r : RNet live eh n) (hk : KeysNodup live)
    (id fd : Nat) (d : Dir) (hs : slot n fd d = some id) (id' : Nat) (reg : Reg) :
    lookup (live.filter (fun p => !isNet fd d p)) id' = some reg ↔ id' ≠ id ∧ lookup live id' = some reg := by
  rw [lookup_filter _ _ _ hk]
  cases hl : lookup live id' with
  | none => simp
  | some r0 =>
    simp only [Option.bind_some]
    by_cases hn : isNet fd d (id', r0) = true
    · obtain ⟨rs, rfl⟩ := (isNet_iff fd d id' r0).mp hn
      have := (r.iff id' fd d).mp ⟨rs, hl⟩
      rw [hs] at this; cases this
      simp [hn]
    · have hn' : isNet fd d (id', r0) = false := by simpa using hn
      simp only [hn', Bool.not_false, if_true, Option.some.injEq]
      constructor
      · intro h; subst h
        refine ⟨?_, rfl⟩
        intro hid; subst hid
        obtain ⟨rs0, h0⟩ := (r.iff id' fd d).mpr hs
        rw [h0] at hl; cases hl
        simp [isNet] at hn'
      · exact fun h => h.2

theorem rel_cancelNet_ok {C : TQContract} {m : M} {s : State} (r : Rel C m s) (id fd : Nat) (d : Dir) (n' : Net)
    (hs : slot s.net fd d = some id) (hinv : Inv n')
    (hslot : ∀ i d', slot n' i d' = if i = fd ∧ d' = d then none else slot s.net i d')
    (hent : EntriesFrom n' s.net fd d) :
    Rel C { m with live := m.live.filter (fun p => !isNet fd d p) } { s with net := n' } := by
  have hl := lookup_cancelNet r.net r.keys id fd d hs
  obtain ⟨rs0, h0⟩ := (r.net.iff id fd d).mpr hs
  refine ⟨keys_filter _ _ r.keys, r.clock, ?_, rnet_drop r.net id fd d hs hl hinv hslot hent, ?_⟩
  · apply RImm.congr _ r.imm
    intro id' p
    rw [hl]
    constructor
    · exact fun h => h.2
    · intro h; refine ⟨?_, h⟩
      intro hid; subst hid; rw [h0] at h; cases h
  · apply RTm.congr _ r.tm
    intro id' us dl
    rw [hl]
    constructor
    · exact fun h => h.2
    · intro h; refine ⟨?_, h⟩
      intro hid; subst hid; rw [h0] at h; cases h

/-- ERR/HUP expansion during the scan keeps the socket part -/
theorem rnet_expanded {live : List (Nat × Reg)} {eh : List Nat} {n n1 : Net} (r : RNet live eh n)
    (hx : Expanded n n1) (hinv : Inv n1) : RNet live eh n1 := by
  have hslot : ∀ i d, slot n1 i d = slot n i d := by intro i d; unfold slot; rw [hx.S]
  refine ⟨hinv, ?_, ?_, ?_⟩
  · intro id fd d; rw [hslot]; exact r.iff id fd d
  · intro j e1 d id he1 hr hs
    rw [hslot] at hs
    obtain ⟨e, he, hc⟩ := hx.ent j e1 he1
    rcases hc with rfl | rfl
    · exact r.ghostR j _ d id he hr hs
    · have hf := expand_fields e
      rw [hf.1] at hs ⊢
      have hcase : e.rev.dir d = true ∨ ((e.rev.e = true ∨ e.rev.h = true) ∧ e.ev.dir d = true) := by
        cases d with
        | rd => exact hf.2.2.1 hr
        | wr => exact hf.2.2.2.1 hr
      rcases hcase with h1 | ⟨h1, _⟩
      · exact r.ghostR j e d id he h1 hs
      · obtain ⟨rs, hrs⟩ := (r.iff id e.fd d).mpr hs
        refine ⟨rs, hrs, Or.inr (r.ghostE j e he ?_)⟩
        simp only [Bits.errhup, Bool.or_eq_true]; exact h1
  · intro j e1 he1 hr
    obtain ⟨e, he, hc⟩ := hx.ent j e1 he1
    rcases hc with rfl | rfl
    · exact r.ghostE j _ he hr
    · have hf := expand_fields e
      rw [hf.1]
      apply r.ghostE j e he
      simp only [Bits.errhup, Bool.or_eq_true] at *
      rcases hr with h | h
      · exact Or.inl (hf.2.2.2.2.1 h)
      · exact Or.inr (hf.2.2.2.2.2.1 h)

theorem rel_net_expanded {C : TQContract} {m : M} {s : State} (r : Rel C m s) (n1 : Net)
    (hx : Expanded s.net n1) (hinv : Inv n1) : Rel C m { s with net := n1 } :=
  ⟨r.keys, r.clock, r.imm, rnet_expanded r.net hx hinv, r.tm⟩

/-- `events_network_get` found the record of registration `id`: the monitor accepts `cb id` -/
theorem rel_netGet_found {C : TQContract} {m : M} {s : State} (r : Rel C m s) (n1 n' : Net) (p id : Nat)
    (hf : Found s.net n1 n' p id) (hinv : Inv n') :
    ∃ m', C04.step m (.cb id) = .ok m' ∧ Rel C m' { s with net := n' } := by
  obtain ⟨q, e, sk, d, _, he, hr, hsk, hpp, hget, hsc, hb, hdrop⟩ := hf.spec
  have hinv1 : Inv n1 := ⟨hf.inv0, fun j e' hj hany => ⟨q, hsc, hb j e' hj hany⟩⟩
  have r1 := rnet_expanded r.net hf.ex hinv1
  have hs1 : slot n1 e.fd d = some id := by simp [slot, hsk, hget]
  obtain ⟨rs, hl, hjust⟩ := r1.ghostR q e d id he hr hs1
  have hjust' : (rs || m.errhup.contains e.fd) = true := by
    rcases hjust with h | h
    · simp [h]
    · simp [h]
  refine ⟨{ m with live := remove m.live id }, ?_, ?_⟩
  · simp only [C04.step, hl, hjust', if_true]; rfl
  · have hlk : ∀ id' reg, lookup (remove m.live id) id' = some reg ↔ id' ≠ id ∧ lookup m.live id' = some reg :=
      fun id' reg => lookup_remove_iff _ _ _ _
    refine ⟨keys_remove _ _ r.keys, r.clock, ?_, ?_, ?_⟩
    · apply RImm.congr _ r.imm
      intro id' p'
      rw [hlk]
      constructor
      · exact fun h => h.2
      · intro h; refine ⟨?_, h⟩
        intro hid; subst hid; rw [hl] at h; cases h
    · exact rnet_drop r1 id e.fd d hs1 hlk hinv
        (fun i d' => dropDir_slot n1 n' e.fd sk q d hf.inv0 hsk hpp hdrop i d')
        (dropDir_entries n1 n' e.fd sk q d hf.inv0 hsk hpp hdrop)
    · apply RTm.congr _ r.tm
      intro id' us dl
      rw [hlk]
      constructor
      · exact fun h => h.2
      · intro h; refine ⟨?_, h⟩
        intro hid; subst hid; rw [hl] at h; cases h


/-! ### poll -/

theorem find?_unique {α : Type} (p : α → Bool) : ∀ (l : List α) (j : Nat) (x : α), l[j]? = some x → p x = true →
    (∀ i y, l[i]? = some y → p y = true → i = j) → l.find? p = some x := by
  intro l
  induction l with
  | nil => intro j x h; simp at h
  | cons a as ih =>
    intro j x hj hp hu
    rw [List.find?_cons]
    cases j with
    | zero =>
      simp only [List.getElem?_cons_zero, Option.some.injEq] at hj
      subst hj; simp [hp]
    | succ j =>
      have hpa : p a = false := by
        cases hpa : p a with
        | false => rfl
        | true => have := hu 0 a (by simp) hpa; omega
      simp only [hpa]
      simp only [List.getElem?_cons_succ] at hj
      apply ih j x hj hp
      intro i y hi hy
      have := hu (i + 1) y (by simpa using hi) hy
      omega

theorem revOf_entries (n : Net) (h : Inv0 n) (f : PollFd → Bits) (j : Nat) (e : PollFd) (he : n.fds[j]? = some e) :
    revOf (pollEntries n.fds f) e.fd = f e := by
  unfold revOf pollEntries
  have hfind : (n.fds.toList.map (fun e => ({ fd := e.fd, ev := e.ev, rev := f e } : PollEntry))).find? (fun x => x.fd == e.fd)
      = some { fd := e.fd, ev := e.ev, rev := f e } := by
    apply find?_unique _ _ j
    · simp [he]
    · simp
    · intro i y hi hy
      simp only [List.getElem?_map, Array.getElem?_toList, Option.map_eq_some_iff] at hi
      obtain ⟨e2, he2, rfl⟩ := hi
      simp only [beq_iff_eq] at hy
      obtain ⟨s1, hs1, hp1⟩ := h.i1b i e2 he2
      obtain ⟨s2, hs2, hp2⟩ := h.i1b j e he
      rw [hy] at hs1; rw [hs1] at hs2; cases hs2
      rw [hp1] at hp2; cases hp2; rfl
  rw [hfind]

theorem rel_clock {C : TQContract} {m : M} {s : State} (r : Rel C m s) (a : Nat) :
    Rel C { m with clock := m.clock + a } { s with clock := s.clock + a } := by
  refine ⟨r.keys, by show m.clock + a = s.clock + a; rw [r.clock], r.imm, r.net, ⟨r.tm.ok, r.tm.iff, ?_⟩⟩
  intro id us dl h
  have := r.tm.dl id us dl h
  show dl ≤ m.clock + a + us
  omega

theorem rel_rescan {C : TQContract} {m : M} {s : State} (r : Rel C m s) :
    Rel C m { s with net := { s.net with scan := topScan s.net } } := by
  refine ⟨r.keys, r.clock, r.imm, ⟨rescan_inv _ r.net.inv.inv0, ?_, ?_, ?_⟩, r.tm⟩
  · exact r.net.iff
  · exact r.net.ghostR
  · exact r.net.ghostE

theorem markReady_imm (fds : List PollEntry) (id : Nat) (r : Reg) (p : Nat) :
    (markReady fds (id, r)).2 = .imm p ↔ r = .imm p := by
  cases r <;> simp [markReady]

theorem markReady_timer (fds : List PollEntry) (id : Nat) (r : Reg) (us dl : Nat) :
    (markReady fds (id, r)).2 = .timer us dl ↔ r = .timer us dl := by
  cases r <;> simp [markReady]

theorem markReady_net (fds : List PollEntry) (id : Nat) (r : Reg) (fd : Nat) (d : Dir) (rs : Bool) :
    (markReady fds (id, r)).2 = .net fd d rs ↔ ∃ rs0, r = .net fd d rs0 ∧ rs = (rs0 || (revOf fds fd).dir d) := by
  cases r with
  | imm p => simp [markReady]
  | timer a b => simp [markReady]
  | net fd0 d0 rs0 =>
    simp only [markReady, Reg.net.injEq]
    constructor
    · rintro ⟨rfl, rfl, rfl⟩; exact ⟨rs0, ⟨rfl, rfl, rfl⟩, rfl⟩
    · rintro ⟨rs1, ⟨rfl, rfl, rfl⟩, rfl⟩; exact ⟨rfl, rfl, rfl⟩

/-- a poll that answered: `revents` overwritten, `fdscanpos` reset; the monitor marks what was reported -/
theorem rel_poll_ok {C : TQContract} {m : M} {s : State} (r : Rel C m s) (a : List (Nat × Bits)) (adv : Nat) :
    Rel C { live := m.live.map (markReady (pollEntries s.net.fds (maskAns a))), clock := m.clock + adv,
            errhup := ((pollEntries s.net.fds (maskAns a)).filter (fun e => e.rev.errhup)).map (·.fd) }
      { s with clock := s.clock + adv, net := { polled s.net a with scan := topScan (polled s.net a) } } := by
  have hlm := fun id => lookup_map m.live (markReady (pollEntries s.net.fds (maskAns a))) (markReady_key _) id
  have hslot : ∀ i d, slot { polled s.net a with scan := topScan (polled s.net a) } i d = slot s.net i d := fun _ _ => rfl
  refine ⟨keys_map _ _ (markReady_key _) r.keys, by show m.clock + adv = s.clock + adv; rw [r.clock], ?_, ?_, ?_⟩
  · apply RImm.congr _ r.imm
    intro id p
    show lookup (m.live.map _) id = _ ↔ _
    rw [hlm, Option.map_eq_some_iff]
    constructor
    · rintro ⟨r0, h1, h2⟩; rw [(markReady_imm _ _ _ _).mp h2] at h1; exact h1
    · intro h; exact ⟨_, h, (markReady_imm _ _ _ _).mpr rfl⟩
  · refine ⟨polled_inv s.net a r.net.inv.inv0, ?_, ?_, ?_⟩
    · intro id fd d
      rw [hslot, ← r.net.iff id fd d]
      show (∃ rs, lookup (m.live.map _) id = _) ↔ _
      constructor
      · rintro ⟨rs, h⟩
        rw [hlm, Option.map_eq_some_iff] at h
        obtain ⟨r0, h1, h2⟩ := h
        obtain ⟨rs0, rfl, _⟩ := (markReady_net _ _ _ _ _ _).mp h2
        exact ⟨rs0, h1⟩
      · rintro ⟨rs0, h⟩
        refine ⟨rs0 || (revOf (pollEntries s.net.fds (maskAns a)) fd).dir d, ?_⟩
        rw [hlm, Option.map_eq_some_iff]
        exact ⟨_, h, (markReady_net _ _ _ _ _ _).mpr ⟨rs0, rfl, rfl⟩⟩
    · intro j e' d id he' hr hs
      have he'' : (polled s.net a).fds[j]? = some e' := he'
      rw [polled_get, Option.map_eq_some_iff] at he''
      obtain ⟨e, he, rfl⟩ := he''
      have hs' : slot s.net e.fd d = some id := hs
      obtain ⟨rs0, h0⟩ := (r.net.iff id e.fd d).mpr hs'
      refine ⟨rs0 || (revOf (pollEntries s.net.fds (maskAns a)) e.fd).dir d, ?_, Or.inl ?_⟩
      · show lookup (m.live.map _) id = _
        rw [hlm, Option.map_eq_some_iff]
        exact ⟨_, h0, (markReady_net _ _ _ _ _ _).mpr ⟨rs0, rfl, rfl⟩⟩
      · rw [revOf_entries s.net r.net.inv.inv0 (maskAns a) j e he]
        have : (maskAns a e).dir d = true := hr
        simp [this]
    · intro j e' he' hr
      have he'' : (polled s.net a).fds[j]? = some e' := he'
      rw [polled_get, Option.map_eq_some_iff] at he''
      obtain ⟨e, he, rfl⟩ := he''
      show e.fd ∈ List.map (·.fd) ((pollEntries s.net.fds (maskAns a)).filter (fun e => e.rev.errhup))
      simp only [List.mem_map, List.mem_filter]
      refine ⟨{ fd := e.fd, ev := e.ev, rev := maskAns a e }, ⟨?_, hr⟩, rfl⟩
      unfold pollEntries
      simp only [List.mem_map]
      exact ⟨e, by rw [← Array.mem_def]; exact Array.mem_of_getElem? he, rfl⟩
  · refine ⟨r.tm.ok, ?_, ?_⟩
    · intro id us dl
      rw [← r.tm.iff id us dl]
      show lookup (m.live.map _) id = _ ↔ _
      rw [hlm, Option.map_eq_some_iff]
      constructor
      · rintro ⟨r0, h1, h2⟩; rw [(markReady_timer _ _ _ _ _).mp h2] at h1; exact h1
      · intro h; exact ⟨_, h, (markReady_timer _ _ _ _ _).mpr rfl⟩
    · intro id us dl h
      have h' : lookup (m.live.map (markReady (pollEntries s.net.fds (maskAns a)))) id = some (.timer us dl) := h
      rw [hlm, Option.map_eq_some_iff] at h'
      obtain ⟨r0, h1, h2⟩ := h'
      rw [(markReady_timer _ _ _ _ _).mp h2] at h1
      have := r.tm.dl id us dl h1
      show dl ≤ m.clock + adv + us
      omega

end Percival.Proofs.EventsC04
