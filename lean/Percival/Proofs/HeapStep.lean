import Percival.Proofs.TimerQueueRun
import Percival.Model.HeapStep
import Percival.Spec.PQMonStep
/-!
# C13 helper lemmas, part 9: the functions the executables run (`Model.HeapStep`, `Spec.PQMonStep`)
are the proved model / monitor in another representation

1. No heap operation reads the notification log: running it on a heap whose log has older entries
   `L` below gives the same array and the same new notifications on top of `L` (`*_under`).
2. Hence cutting the log after every operation and keeping "last reported position" in a hash map
   (`updPos`) changes no answer: `hstep_refines`, `tstep_refines`.
3. The hash-map monitors are `monStep` / `tmonStep` on the state they stand for: `monStepF_abs`, `tmonStepF_abs`.
-/
namespace Percival.Proofs.HeapStep
open Percival.Model Percival.Model.Heap Percival.Model.HeapStep Percival.Spec.PQ
open Percival.Model.HeapRun (step tstep tqDrain)
open Percival.Proofs.Heap Percival.Proofs.TQ

/-- the same heap with older notifications `L` below its log -/
def under (h : Heap) (L : List (Nat × Nat)) : Heap := { h with log := h.log ++ L }

@[simp] theorem under_a (h : Heap) (L) : (under h L).a = h.a := rfl
@[simp] theorem under_log (h : Heap) (L) : (under h L).log = h.log ++ L := rfl

theorem swap_under (n : Bool) (h : Heap) (L) (i j : Nat) : swap n (under h L) i j = under (swap n h i j) L := by
  by_cases hi : i < h.a.size
  · by_cases hj : j < h.a.size
    · cases n <;> simp [swap, under, hi, hj]
    · simp [swap, under, hi, hj]
  · simp [swap, under, hi]

theorem siftUp_under (key : Nat → Int) (n : Bool) (L) : ∀ (f : Nat) (h : Heap) (i : Nat),
    siftUp key n f (under h L) i = under (siftUp key n f h i) L := by
  intro f
  induction f with
  | zero => intro h i; rfl
  | succ f ih =>
    intro h i
    by_cases h0 : i = 0
    · simp [siftUp, h0]
    · by_cases hi : i < h.a.size
      · by_cases hk : key h.a[i] ≥ key h.a[(i-1)/2]
        · simp [siftUp, h0, hi, hk]
        · simp only [siftUp, h0, under_a, hi, hk, ↓reduceIte, ↓reduceDIte]
          rw [swap_under, ih]
      · simp [siftUp, h0, hi]

theorem minChild_under (key : Nat → Int) (h : Heap) (L) (N i : Nat) :
    minChild key (under h L) N i = minChild key h N i := rfl

theorem siftDown_under (key : Nat → Int) (n : Bool) (N : Nat) (L) : ∀ (f : Nat) (h : Heap) (i : Nat),
    siftDown key n N f (under h L) i = under (siftDown key n N f h i) L := by
  intro f
  induction f with
  | zero => intro h i; rfl
  | succ f ih =>
    intro h i
    simp only [siftDown, minChild_under]
    by_cases hm : minChild key h N i = i
    · simp [hm]
    · simp only [hm, if_false]
      rw [swap_under, ih]

theorem add_under (key : Nat → Int) (h : Heap) (L) (e : Nat) : add key (under h L) e = under (add key h e) L := by
  unfold add note
  simp only [under_a, under_log]
  exact siftUp_under key true L _ ⟨h.a.push e, (e, (h.a.push e).size - 1) :: h.log⟩ _

theorem under_mk (a : Array Nat) (l L : List (Nat × Nat)) : (⟨a, l ++ L⟩ : Heap) = under ⟨a, l⟩ L := rfl
theorem under_mk_cons (a : Array Nat) (x) (l L : List (Nat × Nat)) : (⟨a, x :: (l ++ L)⟩ : Heap) = under ⟨a, x :: l⟩ L := rfl

/-- the two branches of `ptrheap_delete` after the last element was moved into the hole -/
def delGo (key : Nat → Int) (n : Nat) (g : Heap) (rc : Nat) : Heap :=
  if (decide (rc > 0) &&
        (match keyAt key g rc, keyAt key g ((rc - 1) / 2) with
         | some kc, some kp => decide (kc < kp)
         | _, _ => false)) = true then
    siftUp key true ((rc - 1) / 2) (swap true g rc ((rc - 1) / 2)) ((rc - 1) / 2)
  else siftDown key true n n g rc

/-- the heap `ptrheap_delete` has built before it drops the last slot -/
def delCore (key : Nat → Int) (h : Heap) (rc : Nat) (hrc : rc < h.a.size) : Heap :=
  if rc ≠ h.a.size - 1 then
    delGo key h.a.size { a := h.a.set rc h.a[h.a.size - 1] hrc, log := (h.a[h.a.size - 1], rc) :: h.log } rc
  else h

theorem delete_eq (key : Nat → Int) (h : Heap) (rc : Nat) (hrc : rc < h.a.size) :
    delete key h rc = some { delCore key h rc hrc with a := (delCore key h rc hrc).a.pop } := by
  simp only [delete, hrc, ↓reduceDIte]; rfl

theorem delGo_under (key : Nat → Int) (n : Nat) (g : Heap) (L) (rc : Nat) :
    delGo key n (under g L) rc = under (delGo key n g rc) L := by
  unfold delGo
  have hk : ∀ i, keyAt key (under g L) i = keyAt key g i := fun _ => rfl
  simp only [hk]
  rw [swap_under, siftUp_under, siftDown_under]
  generalize (decide (rc > 0) &&
        (match keyAt key g rc, keyAt key g ((rc - 1) / 2) with
         | some kc, some kp => decide (kc < kp)
         | _, _ => false)) = c
  cases c <;> rfl

theorem delCore_under (key : Nat → Int) (h : Heap) (L) (rc : Nat) (hrc : rc < h.a.size) :
    delCore key (under h L) rc hrc = under (delCore key h rc hrc) L := by
  unfold delCore
  by_cases hl : rc ≠ h.a.size - 1
  · simp only [under_a, hl, ↓reduceIte, ne_eq, not_false_eq_true]
    exact delGo_under key h.a.size ⟨h.a.set rc h.a[h.a.size - 1] hrc, (h.a[h.a.size - 1], rc) :: h.log⟩ L rc
  · simp only [under_a, hl, ↓reduceIte]

theorem delete_under (key : Nat → Int) (h : Heap) (L) (rc : Nat) :
    delete key (under h L) rc = (delete key h rc).map (under · L) := by
  by_cases hrc : rc < h.a.size
  · rw [delete_eq key (under h L) rc hrc, delete_eq key h rc hrc, delCore_under]; rfl
  · simp [delete, hrc]

theorem decrease_under (key : Nat → Int) (h : Heap) (L) (rc : Nat) :
    decrease key (under h L) rc = (decrease key h rc).map (under · L) := by
  by_cases hrc : rc < h.a.size
  · simp [decrease, hrc, siftUp_under]
  · simp [decrease, hrc]

theorem increase_under (key : Nat → Int) (h : Heap) (L) (rc : Nat) :
    increase key (under h L) rc = (increase key h rc).map (under · L) := by
  by_cases hrc : rc < h.a.size
  · simp [increase, hrc, siftDown_under]
  · simp [increase, hrc]

theorem increasemin_under (key : Nat → Int) (h : Heap) (L) :
    increasemin key (under h L) = under (increasemin key h) L := by
  unfold increasemin
  simp only [under_a, siftDown_under]

theorem drainList_under (key : Nat → Int) (L) : ∀ (fuel : Nat) (h : Heap),
    HeapRun.drainList key fuel (under h L) = HeapRun.drainList key fuel h := by
  intro fuel
  induction fuel with
  | zero => intro h; rfl
  | succ f ih =>
    intro h
    simp only [HeapRun.drainList, deletemin, delete_under]
    have hg : getmin (under h L) = getmin h := rfl
    rw [hg]
    cases getmin h with
    | none => rfl
    | some e =>
      cases delete key h 0 with
      | none => rfl
      | some h' => simp only [Option.map_some]; rw [ih]

/-! ## 2. hash maps for keys and positions -/

theorem keyFn_insert (m : Std.HashMap Nat Int) (e : Nat) (k : Int) :
    keyFn (m.insert e k) = upd (keyFn m) e k := by
  funext x
  simp only [keyFn, upd, Std.HashMap.getD_insert]
  by_cases h : x = e
  · simp [h]
  · have : ¬ (e = x) := fun h' => h h'.symm
    simp [h, this]

theorem keyFn_setKeys (ps : List (Nat × Int)) : ∀ m : Std.HashMap Nat Int,
    keyFn (setKeysM m ps) = setKeys (keyFn m) ps := by
  induction ps with
  | nil => intro m; rfl
  | cons p ps ih =>
    intro m
    simp only [setKeysM, setKeys, List.foldl_cons]
    have := ih (m.insert p.1 p.2)
    simp only [setKeysM, setKeys] at this
    rw [this, keyFn_insert]

/-- the position the notifications `l` (newest first) report last for `e` -/
def lastIn (l : List (Nat × Nat)) (e : Nat) : Option Nat := (l.find? (fun p => p.1 == e)).map (·.2)

theorem posOf_mk (a : Array Nat) (l : List (Nat × Nat)) (e : Nat) : posOf ⟨a, l⟩ e = lastIn l e := rfl

theorem lastIn_append (l L : List (Nat × Nat)) (e : Nat) :
    lastIn (l ++ L) e = (lastIn l e).or (lastIn L e) := by
  unfold lastIn
  rw [List.find?_append]
  cases l.find? (fun p => p.1 == e) <;> simp

theorem updPos_get (m : Std.HashMap Nat Nat) (l : List (Nat × Nat)) (e : Nat) :
    (updPos m l)[e]? = (lastIn l e).or m[e]? := by
  induction l with
  | nil => simp [updPos, lastIn]
  | cons p l ih =>
    have : updPos m (p :: l) = (updPos m l).insert p.1 p.2 := rfl
    rw [this, Std.HashMap.getElem?_insert, ih]
    unfold lastIn
    by_cases h : p.1 == e
    · simp [h]
    · simp [h]


/-! ## 3. the heap half of `stepOp` refines `HeapRun.step` -/

/-- the model state a fast state stands for, given the log so far -/
def mk (f : HSt) (L : List (Nat × Nat)) : HeapRun.St := ⟨under f.heap L, keyFn f.keys, f.live⟩

/-- the position map agrees with the log -/
def PosOk (f : HSt) (L : List (Nat × Nat)) : Prop := ∀ e, f.pos[e]? = lastIn L e

theorem posOf_under (f : HSt) (L) (e : Nat) : posOf (under f.heap L) e = lastIn L e := rfl

theorem hfinish_ok (f : HSt) (L : List (Nat × Nat)) (hp : PosOk f L) (g : Heap) (keys live ans) :
    mk (hfinish f g keys live ans).1 (g.log ++ L) = ⟨under g L, keyFn keys, live⟩ ∧
    PosOk (hfinish f g keys live ans).1 (g.log ++ L) := by
  refine ⟨rfl, ?_⟩
  intro e
  show (updPos f.pos g.log)[e]? = _
  rw [updPos_get, hp e, lastIn_append]

/-- One step of the executable's function is one step of the model: same answer, and the states
correspond again (`L'` = the model's log afterwards).  The line's L2 part shows the model's array and
exactly the notifications the model's step has put on top of its log. -/
theorem hstep_mk (f : HSt) (L : List (Nat × Nat)) (hp : PosOk f L) (op : Op) :
    ∃ L', (step (mk f L) op).1 = mk (hstep f op).1 L' ∧ PosOk (hstep f op).1 L' ∧
      (hstep f op).2.ans = (step (mk f L) op).2 ∧
      ∀ x, (hstep f op).2.l2 = some x → x.a = (step (mk f L) op).1.h.a ∧
        ∃ L0, L' = x.notes ++ L0 := by
  unfold mk
  have hg : getmin (under f.heap L) = getmin f.heap := rfl
  cases op with
  | create ps =>
    simp only [hstep, step]
    by_cases hnd : (ps.map (·.1)).Nodup
    · rw [if_pos hnd, if_pos hnd]
      have hk : setKeys (keyFn f.keys) ps = keyFn (setKeysM f.keys ps) := (keyFn_setKeys ps f.keys).symm
      rw [hk]
      obtain ⟨h1, h2⟩ := hfinish_ok { f with pos := {} } [] (fun e => by simp [lastIn])
        (create (keyFn (setKeysM f.keys ps)) (ps.map (·.1))) (setKeysM f.keys ps) (ps.map (·.1)) .ok
      refine ⟨_, ?_, h2, rfl, ?_⟩
      · unfold mk at h1; rw [h1]; simp [under]
      · intro x hx; cases hx; exact ⟨rfl, [], rfl⟩
    · rw [if_neg hnd, if_neg hnd]
      exact ⟨L, rfl, hp, rfl, fun x hx => by cases hx⟩
  | add e k =>
    simp only [hstep, step]
    by_cases hc : f.live.contains e = true
    · rw [if_pos hc, if_pos hc]
      exact ⟨L, rfl, hp, rfl, fun x hx => by cases hx⟩
    · rw [if_neg hc, if_neg hc]
      have hk : upd (keyFn f.keys) e k = keyFn (f.keys.insert e k) := (keyFn_insert _ _ _).symm
      rw [hk, add_under]
      obtain ⟨h1, h2⟩ := hfinish_ok f L hp (add (keyFn (f.keys.insert e k)) f.heap e) (f.keys.insert e k) (e :: f.live) .ok
      exact ⟨_, h1.symm, h2, rfl, fun x hx => by cases hx; exact ⟨rfl, L, rfl⟩⟩
  | getmin => exact ⟨L, rfl, hp, rfl, fun x hx => by cases hx⟩
  | delmin =>
    simp only [hstep, step, hg, deletemin, delete_under]
    cases hg' : getmin f.heap with
    | none => exact ⟨L, rfl, hp, rfl, fun x hx => by cases hx⟩
    | some e =>
      cases hd : delete (keyFn f.keys) f.heap 0 with
      | none => exact ⟨L, rfl, hp, rfl, fun x hx => by cases hx⟩
      | some g =>
        obtain ⟨h1, h2⟩ := hfinish_ok f L hp g f.keys (f.live.erase e) (.okId e)
        exact ⟨_, h1.symm, h2, rfl, fun x hx => by cases hx; exact ⟨rfl, L, rfl⟩⟩
  | del e =>
    simp only [hstep, step, posOf_under, ← hp e, delete_under]
    by_cases hc : (!f.live.contains e) = true
    · rw [if_pos hc, if_pos hc]
      exact ⟨L, rfl, hp, rfl, fun x hx => by cases hx⟩
    · rw [if_neg hc, if_neg hc]
      cases hpos : f.pos[e]? with
      | none => exact ⟨L, rfl, hp, rfl, fun x hx => by cases hx⟩
      | some rc =>
        simp only []
        cases hd : delete (keyFn f.keys) f.heap rc with
        | none => exact ⟨L, rfl, hp, rfl, fun x hx => by cases hx⟩
        | some g =>
          obtain ⟨h1, h2⟩ := hfinish_ok f L hp g f.keys (f.live.erase e) .ok
          exact ⟨_, h1.symm, h2, rfl, fun x hx => by cases hx; exact ⟨rfl, L, rfl⟩⟩
  | inc e k =>
    have hk : upd (keyFn f.keys) e k = keyFn (f.keys.insert e k) := (keyFn_insert _ _ _).symm
    simp only [hstep, step, posOf_under, ← hp e, increase_under, hk]
    by_cases hc : (!f.live.contains e || decide (k < keyFn f.keys e)) = true
    · rw [if_pos hc, if_pos hc]
      exact ⟨L, rfl, hp, rfl, fun x hx => by cases hx⟩
    · rw [if_neg hc, if_neg hc]
      cases hpos : f.pos[e]? with
      | none => exact ⟨L, rfl, hp, rfl, fun x hx => by cases hx⟩
      | some rc =>
        simp only []
        cases hd : increase (keyFn (f.keys.insert e k)) f.heap rc with
        | none => exact ⟨L, rfl, hp, rfl, fun x hx => by cases hx⟩
        | some g =>
          obtain ⟨h1, h2⟩ := hfinish_ok f L hp g (f.keys.insert e k) f.live .ok
          exact ⟨_, h1.symm, h2, rfl, fun x hx => by cases hx; exact ⟨rfl, L, rfl⟩⟩
  | dec e k =>
    have hk : upd (keyFn f.keys) e k = keyFn (f.keys.insert e k) := (keyFn_insert _ _ _).symm
    simp only [hstep, step, posOf_under, ← hp e, decrease_under, hk]
    by_cases hc : (!f.live.contains e || decide (k > keyFn f.keys e)) = true
    · rw [if_pos hc, if_pos hc]
      exact ⟨L, rfl, hp, rfl, fun x hx => by cases hx⟩
    · rw [if_neg hc, if_neg hc]
      cases hpos : f.pos[e]? with
      | none => exact ⟨L, rfl, hp, rfl, fun x hx => by cases hx⟩
      | some rc =>
        simp only []
        cases hd : decrease (keyFn (f.keys.insert e k)) f.heap rc with
        | none => exact ⟨L, rfl, hp, rfl, fun x hx => by cases hx⟩
        | some g =>
          obtain ⟨h1, h2⟩ := hfinish_ok f L hp g (f.keys.insert e k) f.live .ok
          exact ⟨_, h1.symm, h2, rfl, fun x hx => by cases hx; exact ⟨rfl, L, rfl⟩⟩
  | incmin k =>
    simp only [hstep, step, hg]
    cases hg' : getmin f.heap with
    | none => exact ⟨L, rfl, hp, rfl, fun x hx => by cases hx⟩
    | some e =>
      simp only []
      by_cases hc : k < keyFn f.keys e
      · rw [if_pos hc, if_pos hc]
        exact ⟨L, rfl, hp, rfl, fun x hx => by cases hx⟩
      · rw [if_neg hc, if_neg hc]
        have hk : upd (keyFn f.keys) e k = keyFn (f.keys.insert e k) := (keyFn_insert _ _ _).symm
        rw [hk, increasemin_under]
        obtain ⟨h1, h2⟩ := hfinish_ok f L hp (increasemin (keyFn (f.keys.insert e k)) f.heap) (f.keys.insert e k) f.live (.okId e)
        exact ⟨_, h1.symm, h2, rfl, fun x hx => by cases hx; exact ⟨rfl, L, rfl⟩⟩
  | drain =>
    simp only [hstep, step, drainList_under]
    refine ⟨[], rfl, fun e => by simp [lastIn], rfl, fun x hx => by cases hx⟩

/-! ## 4. the timer-queue half of `stepOp` refines `HeapRun.tstep` -/

def underQ (q : TimerQueue.TQ) (L : List (Nat × Nat)) : TimerQueue.TQ := { q with h := under q.h L }

theorem getptr_under (q : TimerQueue.TQ) (L) (sec usec : Int) :
    TimerQueue.getptr (underQ q L) sec usec =
      (underQ (TimerQueue.getptr q sec usec).1 L, (TimerQueue.getptr q sec usec).2) := by
  unfold TimerQueue.getptr
  have hg2 : getmin (under q.h L) = getmin q.h := rfl
  have hr : (underQ q L).recs = q.recs := rfl
  have hh : (underQ q L).h = under q.h L := rfl
  simp only [hr, deletemin, hh, hg2, delete_under]
  cases getmin q.h with
  | none => rfl
  | some r =>
    simp only []
    cases TimerQueue.lookup q.recs r with
    | none => rfl
    | some x =>
      simp only []
      split
      · rfl
      · cases delete (TimerQueue.key q.recs) q.h 0 with
        | none => rfl
        | some g => rfl

theorem tqDrain_under (sec usec : Int) (L) : ∀ (fuel : Nat) (q : TimerQueue.TQ),
    tqDrain sec usec fuel (underQ q L) = tqDrain sec usec fuel q := by
  intro fuel
  induction fuel with
  | zero => intro q; rfl
  | succ n ih =>
    intro q
    simp only [tqDrain, getptr_under]
    cases hq : TimerQueue.getptr q sec usec with
    | mk q' res =>
      cases res with
      | none => rfl
      | some rp => simp only [ih]

/-- the model state a fast timer-queue state stands for, given the log so far -/
def mkT (f : TSt) (L : List (Nat × Nat)) : HeapRun.TSt := ⟨underQ f.q L, f.live⟩

def TPosOk (f : TSt) (L : List (Nat × Nat)) : Prop := ∀ e, f.pos[e]? = lastIn L e

theorem tfinish_ok (f : TSt) (L : List (Nat × Nat)) (hp : TPosOk f L) (q : TimerQueue.TQ) (live ans) :
    mkT (tfinish f q live ans).1 (q.h.log ++ L) = ⟨underQ q L, live⟩ ∧
    TPosOk (tfinish f q live ans).1 (q.h.log ++ L) := by
  refine ⟨rfl, ?_⟩
  intro e
  show (updPos f.pos q.h.log)[e]? = _
  rw [updPos_get, hp e, lastIn_append]

theorem tqDelete_under (f : TSt) (L) (hp : TPosOk f L) (r : Nat) :
    TimerQueue.delete (underQ f.q L) r = (tqDelete f r).map (underQ · L) := by
  have hpos : posOf (underQ f.q L).h r = f.pos[r]? := (hp r).symm
  have hh : (underQ f.q L).h = under f.q.h L := rfl
  have hr : (underQ f.q L).recs = f.recs := rfl
  simp only [TimerQueue.delete, tqDelete, hpos, Option.bind_eq_bind, Option.pure_def]
  cases f.pos[r]? with
  | none => rfl
  | some rc =>
    simp only [Option.bind_some, hh, hr, delete_under]
    cases delete (TimerQueue.key f.recs) f.q.h rc <;> rfl

theorem tqIncrease_under (f : TSt) (L) (hp : TPosOk f L) (r : Nat) (sec usec : Int) :
    TimerQueue.increase (underQ f.q L) r sec usec = (tqIncrease f r sec usec).map (underQ · L) := by
  have hpos : posOf (underQ f.q L).h r = f.pos[r]? := (hp r).symm
  have hh : (underQ f.q L).h = under f.q.h L := rfl
  have hr : (underQ f.q L).recs = f.recs := rfl
  simp only [TimerQueue.increase, tqIncrease, hpos, hr, Option.bind_eq_bind, Option.pure_def]
  cases TimerQueue.lookup f.recs r with
  | none => rfl
  | some old =>
    simp only [Option.bind_some]
    cases f.pos[r]? with
    | none => rfl
    | some rc =>
      simp only [Option.bind_some, hh, increase_under]
      cases increase (TimerQueue.key ((r, { old with sec, usec }) :: f.recs)) f.q.h rc <;> rfl
/-- what the implementation-independent part of a timer-queue answer is -/
theorem tstep_mk (f : TSt) (L : List (Nat × Nat)) (hp : TPosOk f L) (op : TOp) :
    ∃ L', (tstep (mkT f L) op).1 = mkT (tstepX f (.op op)).1 L' ∧ TPosOk (tstepX f (.op op)).1 L' ∧
      (tstepX f (.op op)).2.ans = .ans (tstep (mkT f L) op).2 ∧
      ∀ x, (tstepX f (.op op)).2.l2 = some x → x.a = (tstep (mkT f L) op).1.q.h.a := by
  unfold mkT
  cases op with
  | add r sec usec p =>
    simp only [tstepX, tstep]
    by_cases hc : f.live.contains r = true
    · rw [if_pos hc, if_pos hc]
      exact ⟨L, rfl, hp, rfl, fun x hx => by cases hx⟩
    · rw [if_neg hc, if_neg hc]
      have : TimerQueue.add (underQ f.q L) r sec usec p = underQ (TimerQueue.add f.q r sec usec p) L := by
        simp only [TimerQueue.add, underQ, add_under]
      rw [this]
      obtain ⟨h1, h2⟩ := tfinish_ok f L hp (TimerQueue.add f.q r sec usec p) (r :: f.live) .ok
      exact ⟨_, h1.symm, h2, rfl, fun x hx => by cases hx; rfl⟩
  | del r =>
    simp only [tstepX, tstep]
    by_cases hc : (!f.live.contains r) = true
    · rw [if_pos hc, if_pos hc]
      exact ⟨L, rfl, hp, rfl, fun x hx => by cases hx⟩
    · rw [if_neg hc, if_neg hc]
      have := tqDelete_under f L hp r
      rw [this]
      cases hd : tqDelete f r with
      | none => exact ⟨L, rfl, hp, rfl, fun x hx => by cases hx⟩
      | some q =>
        obtain ⟨h1, h2⟩ := tfinish_ok f L hp q (f.live.erase r) .ok
        exact ⟨_, h1.symm, h2, rfl, fun x hx => by cases hx; rfl⟩
  | inc r sec usec =>
    simp only [tstepX, tstep]
    have hr : (underQ f.q L).recs = f.recs := rfl
    rw [hr]
    by_cases hc : (!f.live.contains r || decide (timeKey sec usec < TimerQueue.key f.recs r)) = true
    · rw [if_pos hc, if_pos hc]
      exact ⟨L, rfl, hp, rfl, fun x hx => by cases hx⟩
    · rw [if_neg hc, if_neg hc]
      have := tqIncrease_under f L hp r sec usec
      rw [this]
      cases hd : tqIncrease f r sec usec with
      | none => exact ⟨L, rfl, hp, rfl, fun x hx => by cases hx⟩
      | some q =>
        obtain ⟨h1, h2⟩ := tfinish_ok f L hp q f.live .ok
        exact ⟨_, h1.symm, h2, rfl, fun x hx => by cases hx; rfl⟩
  | getmin => exact ⟨L, rfl, hp, rfl, fun x hx => by cases hx⟩
  | get sec usec =>
    simp only [tstepX, tstep, getptr_under]
    cases hq : TimerQueue.getptr f.q sec usec with
    | mk q res =>
      cases res with
      | none => exact ⟨L, rfl, hp, rfl, fun x hx => by cases hx⟩
      | some rp =>
        obtain ⟨r, p⟩ := rp
        obtain ⟨h1, h2⟩ := tfinish_ok f L hp q (f.live.erase r) (.rel (some (r, p)))
        exact ⟨_, h1.symm, h2, rfl, fun x hx => by cases hx; rfl⟩

/-- the final drain releases what repeated `getptr` on the model's queue releases -/
theorem tdrain_mk (f : TSt) (L : List (Nat × Nat)) (sec usec : Int) :
    (tstepX f (.drain sec usec)).2.ans =
      .drained ((tqDrain sec usec (mkT f L).q.h.a.size (mkT f L).q).map (·.2)) := by
  simp only [tstepX, mkT, tqDrain_under]; rfl

/-! ## 5. the hash-map monitors are the monitors of `Spec/PQMon.lean` -/

theorem fkey_insert (s : FMSt) (e : Nat) (k : Int) (live : List Nat) :
    FMSt.key { keys := s.keys.insert e k, live } = upd s.key e k := keyFn_insert s.keys e k

theorem monStepF_abs (s : FMSt) (op : Op) (a : Ans) :
    (monStepF s op a).1.abs = (monStep s.abs op a).1 ∧ (monStepF s op a).2 = (monStep s.abs op a).2 := by
  have hk : ∀ e k live, FMSt.abs { keys := s.keys.insert e k, live } = ⟨upd s.key e k, live⟩ := by
    intro e k live; simp only [FMSt.abs, fkey_insert]
  have hl : s.abs.live = s.live := rfl
  have hkk : s.abs.key = s.key := rfl
  cases op with
  | create ps =>
    simp only [monStepF, monStep]
    by_cases hnd : (ps.map (·.1)).Nodup
    · rw [if_pos hnd, if_pos hnd]
      refine ⟨?_, rfl⟩
      simp only [FMSt.abs]
      congr 1
      exact keyFn_setKeys ps s.keys
    · rw [if_neg hnd, if_neg hnd]; exact ⟨rfl, rfl⟩
  | add e k =>
    simp only [monStepF, monStep, hl, hkk]
    by_cases hc : s.live.contains e = true
    · rw [if_pos hc, if_pos hc]; exact ⟨rfl, rfl⟩
    · rw [if_neg hc, if_neg hc]; exact ⟨hk _ _ _, rfl⟩
  | getmin => cases a <;> exact ⟨rfl, rfl⟩
  | delmin => cases a <;> exact ⟨rfl, rfl⟩
  | del e =>
    simp only [monStepF, monStep, hl]
    by_cases hc : (!s.live.contains e) = true
    · rw [if_pos hc, if_pos hc]; exact ⟨rfl, rfl⟩
    · rw [if_neg hc, if_neg hc]; exact ⟨rfl, rfl⟩
  | inc e k =>
    simp only [monStepF, monStep, hl, hkk]
    by_cases hc : (!s.live.contains e || decide (k < s.key e)) = true
    · rw [if_pos hc, if_pos hc]; exact ⟨rfl, rfl⟩
    · rw [if_neg hc, if_neg hc]; exact ⟨hk _ _ _, rfl⟩
  | dec e k =>
    simp only [monStepF, monStep, hl, hkk]
    by_cases hc : (!s.live.contains e || decide (k > s.key e)) = true
    · rw [if_pos hc, if_pos hc]; exact ⟨rfl, rfl⟩
    · rw [if_neg hc, if_neg hc]; exact ⟨hk _ _ _, rfl⟩
  | incmin k => cases a <;> first | exact ⟨rfl, rfl⟩ | exact ⟨hk _ _ _, rfl⟩
  | drain => cases a <;> exact ⟨rfl, rfl⟩

theorem ftime_insert (m : Std.HashMap Nat (Int × Int × Nat)) (r : Nat) (sec usec : Int) (p : Nat) (l l' : List Nat) :
    FTMSt.time { recs := m.insert r (sec, usec, p), live := l } = upd (FTMSt.time { recs := m, live := l' }) r (timeKey sec usec) := by
  funext x
  simp only [FTMSt.time, upd, Std.HashMap.getElem?_insert]
  by_cases h : x = r
  · simp [h]
  · have : ¬ (r = x) := fun h' => h h'.symm
    simp [h, this]

theorem fptr_insert (m : Std.HashMap Nat (Int × Int × Nat)) (r : Nat) (sec usec : Int) (p : Nat) (l l' : List Nat) :
    FTMSt.ptr { recs := m.insert r (sec, usec, p), live := l } = updN (FTMSt.ptr { recs := m, live := l' }) r p := by
  funext x
  simp only [FTMSt.ptr, updN, Std.HashMap.getElem?_insert]
  by_cases h : x = r
  · simp [h]
  · have : ¬ (r = x) := fun h' => h h'.symm
    simp [h, this]

theorem tmonStepF_abs (s : FTMSt) (op : TOp) (a : TAns) :
    (tmonStepF s op a).1.abs = (tmonStep s.abs op a).1 ∧ (tmonStepF s op a).2 = (tmonStep s.abs op a).2 := by
  have hl : s.abs.live = s.live := rfl
  have ht : s.abs.time = s.time := rfl
  have hpt : s.abs.ptr = s.ptr := rfl
  cases op with
  | add r sec usec p =>
    simp only [tmonStepF, tmonStep, hl, ht, hpt]
    by_cases hc : s.live.contains r = true
    · rw [if_pos hc, if_pos hc]; exact ⟨rfl, rfl⟩
    · rw [if_neg hc, if_neg hc]
      refine ⟨?_, rfl⟩
      simp only [FTMSt.abs, ftime_insert s.recs r sec usec p (r :: s.live) s.live, fptr_insert s.recs r sec usec p (r :: s.live) s.live]
  | del r =>
    simp only [tmonStepF, tmonStep, hl]
    by_cases hc : (!s.live.contains r) = true
    · rw [if_pos hc, if_pos hc]; exact ⟨rfl, rfl⟩
    · rw [if_neg hc, if_neg hc]; exact ⟨rfl, rfl⟩
  | inc r sec usec =>
    simp only [tmonStepF, tmonStep, hl, ht]
    by_cases hc : (!s.live.contains r || decide (timeKey sec usec < s.time r)) = true
    · rw [if_pos hc, if_pos hc]; exact ⟨rfl, rfl⟩
    · rw [if_neg hc, if_neg hc]
      refine ⟨?_, rfl⟩
      simp only [FTMSt.abs, ftime_insert s.recs r sec usec (s.ptr r) s.live s.live, fptr_insert s.recs r sec usec (s.ptr r) s.live s.live]
      congr 1
      funext y; unfold updN; by_cases h : y = r <;> simp [h]
  | getmin =>
    cases a with
    | tmin x => cases x with
      | none => exact ⟨rfl, rfl⟩
      | some su => obtain ⟨a, b⟩ := su; exact ⟨rfl, rfl⟩
    | _ => exact ⟨rfl, rfl⟩
  | get sec usec =>
    cases a with
    | rel x => cases x with
      | none => exact ⟨rfl, rfl⟩
      | some rp => obtain ⟨a, b⟩ := rp; exact ⟨rfl, rfl⟩
    | _ => exact ⟨rfl, rfl⟩

theorem tmonStepIF_abs (s : FTMSt) (op : TOpI) (a : TAnsI) :
    (tmonStepIF s op a).1.abs = (tmonStepI s.abs op a).1 ∧ (tmonStepIF s op a).2 = (tmonStepI s.abs op a).2 := by
  cases op with
  | op o =>
    simp only [tmonStepIF, tmonStepI]
    cases toTAns s.abs a with
    | none => exact ⟨rfl, rfl⟩
    | some a' => exact tmonStepF_abs s o a'
  | drain =>
    cases a with
    | drained ps =>
      refine ⟨?_, rfl⟩
      show FTMSt.abs {} = TMSt.init
      simp only [FTMSt.abs, TMSt.init]
      congr 1
      · funext r; simp [FTMSt.time]
      · funext r; simp [FTMSt.ptr]
    | _ => exact ⟨rfl, rfl⟩

/-! ## 6. invariants of the executable's state; its answers are accepted by the executable monitor -/

/-- the heap half `f` of the model executable's state stands for a reachable model state (with log `L`), and
the heap half `m` of the monitor executable's state is the monitor state that belongs to it -/
def HRel (f : HSt) (m : FMSt) : Prop :=
  ∃ L, PosOk f L ∧ Reach (mk f L) ∧ m.key = keyFn f.keys ∧ m.live = f.live

theorem hrel_init : HRel {} {} :=
  ⟨[], fun e => by simp [lastIn], ⟨inv_empty _, by simp [mk, under, HSt.heap]⟩, rfl, rfl⟩

theorem hstep_rel (f : HSt) (m : FMSt) (h : HRel f m) (op : Op) :
    HRel (hstep f op).1 (monStepF m op (hstep f op).2.ans).1 ∧
    (monStepF m op (hstep f op).2.ans).2 = true := by
  obtain ⟨L, hp, hr, hk, hl⟩ := h
  obtain ⟨L', h1, h2, h3, _⟩ := hstep_mk f L hp op
  obtain ⟨hr', hm⟩ := step_ok (mk f L) op hr
  obtain ⟨ha1, ha2⟩ := monStepF_abs m op (hstep f op).2.ans
  have habs : m.abs = ⟨(mk f L).key, (mk f L).live⟩ := by
    simp only [FMSt.abs, hk, hl]; rfl
  rw [habs, h3, hm] at ha1 ha2
  rw [h3]
  refine ⟨⟨L', h2, by rw [← h1]; exact hr', ?_, ?_⟩, ha2⟩
  · have := congrArg MSt.key ha1
    simp only [FMSt.abs] at this
    rw [this, h1]; rfl
  · have := congrArg MSt.live ha1
    simp only [FMSt.abs] at this
    rw [this, h1]; rfl

/-- no two live records store the same pointer -/
def PtrDistinct (m : TMSt) : Prop := ∀ r1 ∈ m.live, ∀ r2 ∈ m.live, m.ptr r1 = m.ptr r2 → r1 = r2

/-- an `add` hands in a pointer no live record stores (as a caller that wants to tell its timers apart does) -/
def FreshPtr (m : TMSt) : TOp → Prop
  | .add _ _ _ p => ∀ r ∈ m.live, m.ptr r ≠ p
  | _ => True

theorem ptrDistinct_step (m : TMSt) (o : TOp) (a : TAns) (hd : PtrDistinct m) (hf : FreshPtr m o) :
    PtrDistinct (tmonStep m o a).1 := by
  have herase : ∀ r, PtrDistinct { m with live := m.live.erase r } := by
    intro r r1 h1 r2 h2 he
    exact hd r1 (List.mem_of_mem_erase h1) r2 (List.mem_of_mem_erase h2) he
  cases o with
  | add r sec usec p =>
    simp only [tmonStep]
    split
    · exact hd
    · rename_i hc
      have hc' : r ∉ m.live := by simpa using hc
      intro r1 h1 r2 h2 he
      simp only [List.mem_cons] at h1 h2
      simp only [updN] at he
      by_cases e1 : r1 = r <;> by_cases e2 : r2 = r
      · rw [e1, e2]
      · exfalso
        have h2' : r2 ∈ m.live := by rcases h2 with h | h; exact absurd h e2; exact h
        simp only [e1, if_true, e2, if_false] at he
        exact hf r2 h2' he.symm
      · exfalso
        have h1' : r1 ∈ m.live := by rcases h1 with h | h; exact absurd h e1; exact h
        simp only [e1, if_false, e2, if_true] at he
        exact hf r1 h1' he
      · have h1' : r1 ∈ m.live := by rcases h1 with h | h; exact absurd h e1; exact h
        have h2' : r2 ∈ m.live := by rcases h2 with h | h; exact absurd h e2; exact h
        simp only [e1, e2, if_false] at he
        exact hd r1 h1' r2 h2' he
  | del r =>
    simp only [tmonStep]
    split
    · exact hd
    · exact herase r
  | inc r sec usec =>
    simp only [tmonStep]
    split
    · exact hd
    · exact hd
  | getmin =>
    cases a with
    | tmin x => cases x with
      | none => exact hd
      | some su => exact hd
    | _ => exact hd
  | get sec usec =>
    cases a with
    | rel x => cases x with
      | none => exact hd
      | some rp => exact herase rp.1
    | _ => exact hd

theorem find?_unique {l : List Nat} {P : Nat → Bool} {r : Nat} (hr : r ∈ l) (hP : P r = true)
    (hu : ∀ x ∈ l, P x = true → x = r) : l.find? P = some r := by
  induction l with
  | nil => cases hr
  | cons y l ih =>
    simp only [List.find?_cons]
    by_cases hy : P y = true
    · rw [hy]; simp only []; rw [hu y (List.mem_cons_self) hy]
    · have hy' : P y = false := by simpa using hy
      rw [hy']; simp only []
      have : r ∈ l := by
        rcases List.mem_cons.mp hr with h | h
        · rw [h] at hP; exact absurd hP hy
        · exact h
      exact ih this (fun x hx => hu x (List.mem_cons_of_mem _ hx))

/-- the record of a pointer: with distinct pointers the monitor finds the record the model released -/
theorem resolve_eq (m : TMSt) (hd : PtrDistinct m) (r : Nat) (hr : r ∈ m.live) :
    resolve m (m.ptr r) = some r := by
  unfold resolve
  apply find?_unique hr (by simp)
  intro x hx hpx
  exact hd x hx r hr (by simpa using hpx)

/-- an answer the monitor accepts is recovered from what the implementation's line shows of it -/
theorem toTAns_l1 (m : TMSt) (hd : PtrDistinct m) (o : TOp) (a : TAns) (hv : (tmonStep m o a).2 = true) :
    toTAns m (tl1 (.ans a)) = some a := by
  cases a with
  | ok => rfl
  | skip => rfl
  | precondition => rfl
  | tmin x => rfl
  | rel x =>
    cases x with
    | none => rfl
    | some rp =>
      obtain ⟨r, p⟩ := rp
      cases o with
      | add r' sec usec p' => simp only [tmonStep] at hv; split at hv <;> simp at hv
      | del r' => simp only [tmonStep] at hv; split at hv <;> simp at hv
      | inc r' sec usec => simp only [tmonStep] at hv; split at hv <;> simp at hv
      | getmin => simp [tmonStep] at hv
      | get sec usec =>
        simp only [tmonStep, getptrOk, isLeast, Bool.and_eq_true, beq_iff_eq] at hv
        obtain ⟨⟨⟨hc, _⟩, _⟩, hp⟩ := hv
        have hr : r ∈ m.live := by simpa using hc
        simp only [tl1, toTAns, hp, resolve_eq m hd r hr, Option.map_some]

def TRel (f : TSt) (m : FTMSt) : Prop :=
  ∃ L, TPosOk f L ∧ TReach (mkT f L) ∧ m.abs = mOf (mkT f L) ∧ PtrDistinct m.abs

theorem trel_init : TRel {} {} := by
  refine ⟨[], fun e => by simp [lastIn], ⟨tq_inv_empty, by simp [mkT, underQ, TSt.q, under]⟩, ?_, ?_⟩
  · simp only [FTMSt.abs, mOf, mkT, underQ, TSt.q]
    congr 1
    · funext r; simp [FTMSt.time, TimerQueue.key, TimerQueue.lookup]
    · funext r; simp [FTMSt.ptr, ptrOf, TimerQueue.lookup]
  · intro r1 h1; cases h1

theorem tstep_rel (f : TSt) (m : FTMSt) (h : TRel f m) (o : TOp) (hf : FreshPtr m.abs o) :
    TRel (tstepX f (.op o)).1 (tmonStepIF m (.op o) (tl1 (tstepX f (.op o)).2.ans)).1 ∧
    (tmonStepIF m (.op o) (tl1 (tstepX f (.op o)).2.ans)).2 = true := by
  obtain ⟨L, hp, hr, hm, hd⟩ := h
  obtain ⟨L', h1, h2, h3, _⟩ := tstep_mk f L hp o
  obtain ⟨hr', hmon⟩ := tstep_ok (mkT f L) o hr
  have hmon' : tmonStep m.abs o (tstep (mkT f L) o).2 = (mOf (tstep (mkT f L) o).1, true) := by
    rw [hm]; exact hmon
  obtain ⟨ha1, ha2⟩ := tmonStepIF_abs m (.op o) (tl1 (tstepX f (.op o)).2.ans)
  have hto : toTAns m.abs (tl1 (tstepX f (.op o)).2.ans) = some (tstep (mkT f L) o).2 := by
    rw [h3]; exact toTAns_l1 m.abs hd o _ (by rw [hmon'])
  have hI : tmonStepI m.abs (.op o) (tl1 (tstepX f (.op o)).2.ans) = (mOf (tstep (mkT f L) o).1, true) := by
    simp only [tmonStepI, hto, hmon']
  rw [hI] at ha1 ha2
  refine ⟨⟨L', h2, by rw [← h1]; exact hr', by rw [ha1, h1], ?_⟩, ha2⟩
  rw [ha1]
  have := ptrDistinct_step m.abs o (tstep (mkT f L) o).2 hd hf
  rw [hmon'] at this; exact this

/-- a drain at a time not earlier than any live record releases every live record, least first, each with
the pointer stored in it -/
theorem tqDrain_all (sec usec : Int) : ∀ (fuel : Nat) (q : TimerQueue.TQ) (live : List Nat), TQInv q →
    q.h.a.toList.Perm live → q.h.a.size = fuel →
    (∀ r ∈ live, TimerQueue.key q.recs r ≤ TimerQueue.tvKey sec usec) →
    drainOk (TimerQueue.key q.recs) live ((tqDrain sec usec fuel q).map (·.1)) = true ∧
    ∀ rp ∈ tqDrain sec usec fuel q, rp.1 ∈ live ∧ rp.2 = ptrOf q.recs rp.1 := by
  intro fuel
  induction fuel with
  | zero =>
    intro q live hi hp hs hall
    have : q.h.a = #[] := Array.eq_empty_of_size_eq_zero hs
    rw [this] at hp
    have : live = [] := by simpa using hp
    subst this
    simp [tqDrain, drainOk]
  | succ fuel ih =>
    intro q live hi hp hs hall
    have hgp := tq_getptr q sec usec hi
    simp only [tqDrain]
    generalize TimerQueue.getptr q sec usec = res at hgp
    obtain ⟨q', o⟩ := res
    cases o with
    | none =>
      exfalso
      simp only at hgp
      obtain ⟨_, hgt⟩ := hgp
      have hne : 0 < q.h.a.size := by omega
      have hx : q.h.a[0] ∈ q.h.a.toList := by simp
      have h1 := hgt _ hx
      have h2 := hall _ (hp.mem_iff.mp hx)
      omega
    | some rp =>
      obtain ⟨r, p⟩ := rp
      simp only at hgp
      obtain ⟨hl, _, ⟨x, hx, hpx⟩, hi', hperm, hrecs⟩ := hgp
      have hl' := isLeast_perm hp hl
      have hp' : q'.h.a.toList.Perm (live.erase r) := (perm_erase_of_cons (hp.symm.trans hperm)).symm
      have hs' : q'.h.a.size = fuel := by
        have := hperm.length_eq
        simp only [List.length_cons, Array.length_toList] at this
        omega
      have hall' : ∀ y ∈ live.erase r, TimerQueue.key q'.recs y ≤ TimerQueue.tvKey sec usec := by
        intro y hy; rw [hrecs]; exact hall y (List.mem_of_mem_erase hy)
      obtain ⟨ih1, ih2⟩ := ih q' (live.erase r) hi' hp' hs' hall'
      rw [hrecs] at ih1 ih2
      refine ⟨?_, ?_⟩
      · simp only [List.map_cons, drainOk, (isLeast_iff _ _ _).mpr hl', Bool.true_and]
        exact ih1
      · intro rp hrp
        rcases List.mem_cons.mp hrp with h | h
        · subst h
          refine ⟨hl'.1, ?_⟩
          simp only [ptrOf, hx, hpx]
        · obtain ⟨h1, h2⟩ := ih2 rp h
          exact ⟨List.mem_of_mem_erase h1, h2⟩

theorem filterMap_resolve (m : TMSt) (hd : PtrDistinct m) : ∀ rps : List (Nat × Nat),
    (∀ rp ∈ rps, rp.1 ∈ m.live ∧ rp.2 = m.ptr rp.1) →
    (rps.map (·.2)).filterMap (resolve m) = rps.map (·.1) := by
  intro rps
  induction rps with
  | nil => intro _; rfl
  | cons rp rps ih =>
    intro h
    obtain ⟨h1, h2⟩ := h rp List.mem_cons_self
    simp only [List.map_cons, List.filterMap_cons, h2, resolve_eq m hd rp.1 h1]
    rw [ih (fun x hx => h x (List.mem_cons_of_mem _ hx))]

/-- the final drain, at a time not earlier than any live record: accepted, and both executables are back in
their initial timer-queue states -/
theorem tdrain_rel (f : TSt) (m : FTMSt) (h : TRel f m) (sec usec : Int)
    (hall : ∀ r ∈ f.live, TimerQueue.key f.recs r ≤ TimerQueue.tvKey sec usec) :
    TRel (tstepX f (.drain sec usec)).1 (tmonStepIF m .drain (tl1 (tstepX f (.drain sec usec)).2.ans)).1 ∧
    (tmonStepIF m .drain (tl1 (tstepX f (.drain sec usec)).2.ans)).2 = true := by
  obtain ⟨L, hp, hr, hm, hd⟩ := h
  refine ⟨trel_init, ?_⟩
  have hsz : (underQ f.q L).h.a.size = f.a.size := rfl
  obtain ⟨h1, h2⟩ := tqDrain_all sec usec f.a.size (underQ f.q L) f.live hr.inv hr.perm hsz hall
  rw [tqDrain_under] at h1 h2
  have htime : m.time = TimerQueue.key f.recs := congrArg TMSt.time hm
  have hlive : m.live = f.live := congrArg TMSt.live hm
  have hptr : m.abs.ptr = ptrOf f.recs := congrArg TMSt.ptr hm
  have hres := filterMap_resolve m.abs hd (tqDrain sec usec f.a.size f.q) (by
    intro rp hrp
    obtain ⟨a, b⟩ := h2 rp hrp
    refine ⟨by rw [show m.abs.live = f.live from hlive]; exact a, ?_⟩
    rw [hptr]; exact b)
  simp only [tstepX, tl1, tmonStepIF, hres, List.length_map, beq_self_eq_true, Bool.true_and, htime, hlive]
  exact h1

/-! ## 7. whole runs -/

def XRel (s : St) (m : XMSt) : Prop := HRel s.h m.h ∧ TRel s.t m.t

theorem xrel_init : XRel {} {} := ⟨hrel_init, trel_init⟩

/-- what is assumed of an operation in the state `s` of the executable: a timer is added with a pointer no
live timer stores (else the implementation's `getptr` answer does not say which record it released), and
the final drain is made at a time not earlier than any live timer (else it does not release everything) -/
def OpOk (s : St) : XOp → Prop
  | .h _ => True
  | .t (.op o) => FreshPtr ⟨TimerQueue.key s.t.recs, ptrOf s.t.recs, s.t.live⟩ o
  | .t (.drain sec usec) => ∀ r ∈ s.t.live, TimerQueue.key s.t.recs r ≤ TimerQueue.tvKey sec usec

def OpsOk : St → List XOp → Prop
  | _, [] => True
  | s, op :: ops => OpOk s op ∧ OpsOk (stepOp s op).1 ops

theorem stepOp_rel (s : St) (m : XMSt) (h : XRel s m) (op : XOp) (hok : OpOk s op) :
    XRel (stepOp s op).1 (monStepX m op.toI (stepOp s op).2.l1).1 ∧
    (monStepX m op.toI (stepOp s op).2.l1).2 = true := by
  obtain ⟨hh, ht⟩ := h
  cases op with
  | h o =>
    obtain ⟨h1, h2⟩ := hstep_rel s.h m.h hh o
    exact ⟨⟨h1, ht⟩, h2⟩
  | t o =>
    cases o with
    | op o =>
      have hf : FreshPtr m.t.abs o := by
        obtain ⟨L, _, _, hm, _⟩ := ht
        rw [hm]; exact hok
      obtain ⟨h1, h2⟩ := tstep_rel s.t m.t ht o hf
      exact ⟨⟨hh, h1⟩, h2⟩
    | drain sec usec =>
      obtain ⟨h1, h2⟩ := tdrain_rel s.t m.t ht sec usec hok
      exact ⟨⟨hh, h1⟩, h2⟩

theorem runOps_rel (ops : List XOp) : ∀ (s : St) (m : XMSt), XRel s m → OpsOk s ops →
    acceptsX m ((ops.map XOp.toI).zip ((runOps s ops).2.map XOut.l1)) = true ∧
    ∃ m', XRel (runOps s ops).1 m' := by
  induction ops with
  | nil => intro s m h _; exact ⟨rfl, m, h⟩
  | cons op ops ih =>
    intro s m h hok
    obtain ⟨h1, h2⟩ := stepOp_rel s m h op hok.1
    obtain ⟨ih1, ih2⟩ := ih _ _ h1 hok.2
    refine ⟨?_, ih2⟩
    simp only [runOps, List.map_cons, List.zip_cons_cons, acceptsX, h2, Bool.true_and]
    exact ih1

/-- what `XRel` says about the heap half, in plain terms -/
theorem hrel_facts (f : HSt) (m : FMSt) (h : HRel f m) :
    (∀ i j x : Nat, f.a[i]? = some x → f.a[j]? = some x → i = j) ∧
    (∀ i x : Nat, f.a[i]? = some x → f.pos[x]? = some i) ∧
    (∀ i c q : Nat, 0 < i → f.a[i]? = some c → f.a[(i-1)/2]? = some q → keyFn f.keys q ≤ keyFn f.keys c) ∧
    f.a.toList.Perm f.live := by
  obtain ⟨L, hp, hr, _, _⟩ := h
  refine ⟨hr.inv.distinct, ?_, hr.inv.ordered, hr.perm⟩
  intro i x hx
  rw [hp x]
  exact hr.inv.handles i x hx

/-- … and about the timer-queue half -/
theorem trel_facts (f : TSt) (m : FTMSt) (h : TRel f m) :
    (∀ i j x : Nat, f.a[i]? = some x → f.a[j]? = some x → i = j) ∧
    (∀ i x : Nat, f.a[i]? = some x → f.pos[x]? = some i) ∧
    (∀ i c q : Nat, 0 < i → f.a[i]? = some c → f.a[(i-1)/2]? = some q →
      TimerQueue.key f.recs q ≤ TimerQueue.key f.recs c) ∧
    (∀ r ∈ f.live, ∃ x, TimerQueue.lookup f.recs r = some x) ∧
    f.a.toList.Perm f.live := by
  obtain ⟨L, hp, hr, _, _⟩ := h
  refine ⟨hr.inv.inv.distinct, ?_, hr.inv.inv.ordered, ?_, hr.perm⟩
  · intro i x hx
    rw [hp x]
    exact hr.inv.inv.handles i x hx
  · intro r hrl
    exact hr.inv.bound r (hr.perm.mem_iff.mpr hrl)

end Percival.Proofs.HeapStep
