import Percival.Proofs.GetoptProgress
/-! A concrete switch and command line, used by the non-vacuity examples of `Properties/C18.lean`. -/
namespace Percival.Proofs.Getopt
open Percival.Spec.Getopt Percival.Model.Getopt

/-- `"…"` as bytes (ASCII) -/
def b (s : String) : Str := s.toList.map (fun c => UInt8.ofNat c.toNat)

/-- `GETOPT_SWITCH` / `-a` / `-b:` / `--foo` / `--bar:` / `GETOPT_MISSING_ARG` -/
def exLines : List Line :=
  [.blank, .opt (b "-a") false, .opt (b "-b") true, .opt (b "--foo") false, .opt (b "--bar") true, .missing]

/-- the same switch without `GETOPT_MISSING_ARG` -/
def exLinesNoMissing : List Line :=
  [.blank, .opt (b "-a") false, .opt (b "-b") true, .opt (b "--foo") false, .opt (b "--bar") true]

def exArgv : List Str :=
  [b "prog", b "-ab", b "x", b "--bar=1", b "--foo=2", b "-q", b "--bar", b "--", b "--", b "op"]

/-- ends in an option that lacks its argument -/
def exArgvMissing : List Str := [b "prog", b "-a", b "--bar"]

def exOpts : List Opt := [⟨b "-a", false⟩, ⟨b "-b", true⟩, ⟨b "--foo", false⟩, ⟨b "--bar", true⟩]

theorem exOpts_wf (hm : Bool) : (Table.WF ⟨exOpts, hm⟩) := by
  refine ⟨?_, by show List.Pairwise _ exOpts; decide⟩
  intro o ho
  simp only [exOpts] at ho
  simp only [List.mem_cons, List.not_mem_nil, or_false] at ho
  rcases ho with rfl | rfl | rfl | rfl
  · exact ⟨Or.inl ⟨_, rfl, by decide⟩, by decide⟩
  · exact ⟨Or.inl ⟨_, rfl, by decide⟩, by decide⟩
  · exact ⟨Or.inr ⟨_, _, rfl⟩, by decide⟩
  · exact ⟨Or.inr ⟨_, _, rfl⟩, by decide⟩

theorem exLines_wf : (tableOf exLines).WF := exOpts_wf true
theorem exLinesNoMissing_wf : (tableOf exLinesNoMissing).WF := exOpts_wf false

theorem exArgv_nulFree : ∀ a ∈ exArgv, NulFree a := by decide
theorem exArgvMissing_nulFree : ∀ a ∈ exArgvMissing, NulFree a := by decide

end Percival.Proofs.Getopt
