import Percival.Proofs.UpMonSoundC
/-!
# C14, component `upstart` — part D: the harness' handle tables and the world

`HInv s`: the objects named in the handle table of kind `k` are exactly the objects of that kind the harness may
release (`Vis`), no handle and no object occurs twice, handles are `< 32`.
-/
namespace Percival.Proofs.UpMonSound
open Percival.Model Percival.Model.EvReg Percival.Model.AllocFail Percival.Model.UpStep
open Percival.Proofs.AllocFailUpper
open Percival.Model.Connect (AddrOutcome)

/-! ## which call a line stands for (inversion of `callOf`) -/

def startCall (k : NetKind) (fd : Nat) : LOp :=
  match k with | .read => .read fd | .write => .write fd | .accept => .accept fd

theorem callOf_start {s : S} {k : NetKind} {h sl : Nat} {c0 : LOp} (hc : callOf s (.start k h sl) = some c0) :
    h < MAXOBJ ∧ sl < NSLOT ∧ look (tabOf s k) h = none ∧ slotBusy s.w.ev (FDBASE + sl) (k == .write) = false ∧
    c0 = startCall k (FDBASE + sl) := by
  simp only [callOf] at hc
  split at hc
  · rename_i hlt
    split at hc
    · cases hc
    · rename_i hb
      simp only [Bool.or_eq_true, not_or, Bool.not_eq_true, Option.isSome_eq_false_iff, Option.isNone_iff_eq_none] at hb
      cases hc
      exact ⟨hlt.1, hlt.2, hb.1, hb.2, rfl⟩
  · cases hc

theorem callOf_nbrInit {s : S} {h sl : Nat} {c0 : LOp} (hc : callOf s (.nbrInit h sl) = some c0) :
    h < MAXOBJ ∧ sl < NSLOT ∧ look s.nbr h = none ∧ c0 = .nbrInit (FDBASE + sl) := by
  simp only [callOf] at hc
  split at hc
  · rename_i hlt
    split at hc
    · cases hc
    · rename_i hb
      simp only [Bool.not_eq_true, Option.isSome_eq_false_iff, Option.isNone_iff_eq_none] at hb
      cases hc
      exact ⟨hlt.1, hlt.2, hb, rfl⟩
  · cases hc

theorem callOf_nbwInit {s : S} {h sl : Nat} {c0 : LOp} (hc : callOf s (.nbwInit h sl) = some c0) :
    h < MAXOBJ ∧ sl < NSLOT ∧ look s.nbw h = none ∧ c0 = .nbwInit (FDBASE + sl) := by
  simp only [callOf] at hc
  split at hc
  · rename_i hlt
    split at hc
    · cases hc
    · rename_i hb
      simp only [Bool.not_eq_true, Option.isSome_eq_false_iff, Option.isNone_iff_eq_none] at hb
      cases hc
      exact ⟨hlt.1, hlt.2, hb, rfl⟩
  · cases hc

theorem callOf_ncStart {s : S} {h : Nat} {a : List AddrOutcome} {tm : Option Int} {c0 : LOp}
    (hc : callOf s (.ncStart h a tm) = some c0) :
    h < MAXOBJ ∧ look s.conn h = none ∧ c0 = .connect a tm (freshFd s.w) := by
  simp only [callOf] at hc
  split at hc
  · rename_i hlt
    split at hc
    · cases hc
    · rename_i hb
      simp only [Bool.or_eq_true, not_or, Bool.not_eq_true, Option.isSome_eq_false_iff, Option.isNone_iff_eq_none] at hb
      cases hc
      exact ⟨hlt, hb.1, rfl⟩
  · cases hc

theorem callOf_hqStart {s : S} {h pl : Nat} {a : List AddrOutcome} {c0 : LOp}
    (hc : callOf s (.hqStart h a pl) = some c0) :
    h < MAXOBJ ∧ look s.http h = none ∧ c0 = .http a (headLen pl) (freshFd s.w) := by
  simp only [callOf] at hc
  split at hc
  · rename_i hlt
    split at hc
    · cases hc
    · rename_i hb
      simp only [Bool.or_eq_true, not_or, Bool.not_eq_true, Option.isSome_eq_false_iff, Option.isNone_iff_eq_none] at hb
      cases hc
      exact ⟨hlt, hb.1.1, rfl⟩
  · cases hc

theorem callOf_hqsStart {s : S} {h pl hl : Nat} {a : List AddrOutcome} {c0 : LOp}
    (hc : callOf s (.hqsStart h a pl hl) = some c0) :
    h < MAXOBJ ∧ look s.http h = none ∧ c0 = .https a (headLen pl) (freshFd s.w) hl := by
  simp only [callOf] at hc
  split at hc
  · rename_i hlt
    split at hc
    · cases hc
    · rename_i hb
      simp only [Bool.or_eq_true, not_or, Bool.not_eq_true, Option.isSome_eq_false_iff, Option.isNone_iff_eq_none] at hb
      cases hc
      exact ⟨hlt, hb.1.1.1, rfl⟩
  · cases hc

theorem callOf_nbrWait {s : S} {h len : Nat} {c0 : LOp} (hc : callOf s (.nbrWait h len) = some c0) :
    ∃ rid r, obj s.nbr h = some rid ∧ s.w.readers.find? (·.id == rid) = some r ∧ r.readCookie = none ∧
      r.immediate = false ∧ (len > 0 → slotBusy s.w.ev r.fd false = false) ∧ c0 = .nbrWait rid len := by
  simp only [callOf] at hc
  split at hc
  · cases hc
  · rename_i rid hobj
    split at hc
    · cases hc
    · rename_i r hf
      split at hc
      · cases hc
      · rename_i hb
        cases hc
        refine ⟨rid, r, hobj, hf, ?_, ?_, ?_, rfl⟩
        · cases hrc : r.readCookie with
          | none => rfl
          | some c => simp [hrc] at hb
        · cases hi : r.immediate with
          | false => rfl
          | true => simp [hi] at hb
        · intro hl
          cases hsb : slotBusy s.w.ev r.fd false with
          | false => rfl
          | true => simp [hsb, hl] at hb

theorem callOf_nbwReserve {s : S} {h len : Nat} {c0 : LOp} (hc : callOf s (.nbwReserve h len) = some c0) :
    ∃ wid x, obj s.nbw h = some wid ∧ s.w.writers.find? (·.id == wid) = some x ∧ x.reserved = false ∧
      c0 = .nbwReserve wid len := by
  simp only [callOf] at hc
  split at hc
  · cases hc
  · rename_i wid hobj
    split at hc
    · cases hc
    · rename_i x hf
      split at hc
      · cases hc
      · rename_i hb
        cases hc
        exact ⟨wid, x, hobj, hf, by simpa using hb, rfl⟩

theorem callOf_nbwConsume {s : S} {h len : Nat} {c0 : LOp} (hc : callOf s (.nbwConsume h len) = some c0) :
    ∃ wid x, obj s.nbw h = some wid ∧ s.w.writers.find? (·.id == wid) = some x ∧ x.reserved = true ∧
      len ≤ resvOf s h ∧ (x.curr = none → slotBusy s.w.ev x.fd true = false) ∧ c0 = .nbwConsume wid len := by
  simp only [callOf] at hc
  split at hc
  · cases hc
  · rename_i wid hobj
    split at hc
    · cases hc
    · rename_i x hf
      split at hc
      · cases hc
      · rename_i hb
        cases hc
        simp only [Bool.or_eq_true, Bool.not_eq_eq_eq_not, Bool.not_true, decide_eq_true_eq, Bool.and_eq_true,
          Option.isNone_iff_eq_none, not_or, Bool.not_eq_false, Nat.not_lt, not_and, Bool.not_eq_true] at hb
        exact ⟨wid, x, hobj, hf, hb.1.1, hb.1.2, hb.2, rfl⟩

theorem callOf_nbwWrite {s : S} {h len : Nat} {c0 : LOp} (hc : callOf s (.nbwWrite h len) = some c0) :
    ∃ wid x, obj s.nbw h = some wid ∧ s.w.writers.find? (·.id == wid) = some x ∧ x.reserved = false ∧
      (x.curr = none → slotBusy s.w.ev x.fd true = false) ∧ c0 = .nbwWrite wid len := by
  simp only [callOf] at hc
  split at hc
  · cases hc
  · rename_i wid hobj
    split at hc
    · cases hc
    · rename_i x hf
      split at hc
      · cases hc
      · rename_i hb
        cases hc
        simp only [Bool.or_eq_true, Bool.and_eq_true, Option.isNone_iff_eq_none, not_or, Bool.not_eq_true, not_and] at hb
        exact ⟨wid, x, hobj, hf, hb.1, hb.2, rfl⟩

/-! ## handle tables -/

def tab (s : S) : K → List (Nat × Nat)
  | .rd => s.rd | .wr => s.wr | .acc => s.acc | .conn => s.conn | .nbr => s.nbr | .nbw => s.nbw | .http => s.http

theorem look_none {t : List (Nat × Nat)} {h : Nat} (hl : look t h = none) : h ∉ t.map (·.1) := by
  unfold look at hl
  simp only [Option.map_eq_none_iff, List.find?_eq_none] at hl
  intro hm
  obtain ⟨p, hp, rfl⟩ := List.mem_map.1 hm
  exact hl p hp (by simp)

theorem look_some {t : List (Nat × Nat)} {h c : Nat} (hl : look t h = some c) : (h, c) ∈ t := by
  unfold look at hl
  simp only [Option.map_eq_some_iff] at hl
  obtain ⟨p, hp, rfl⟩ := hl
  have h1 := List.mem_of_find?_eq_some hp
  have h2 := List.find?_some hp
  simp only [beq_iff_eq] at h2
  rw [← h2]; exact h1

theorem obj_some {t : List (Nat × Nat)} {h c : Nat} (ho : obj t h = some c) : h < MAXOBJ ∧ look t h = some c := by
  unfold obj at ho
  split at ho
  · exact ⟨‹_›, ho⟩
  · cases ho

/-- a handle table without repeated handles or objects, handles in range -/
structure TabGood (t : List (Nat × Nat)) : Prop where
  hnd : (t.map (·.1)).Nodup
  ond : (t.map (·.2)).Nodup
  hlt : ∀ p ∈ t, p.1 < MAXOBJ

theorem TabGood.cons {t : List (Nat × Nat)} (g : TabGood t) {h c : Nat} (hl : look t h = none)
    (hc : c ∉ t.map (·.2)) (hlt : h < MAXOBJ) : TabGood ((h, c) :: t) :=
  ⟨by simp only [List.map_cons, List.nodup_cons]; exact ⟨look_none hl, g.hnd⟩,
   by simp only [List.map_cons, List.nodup_cons]; exact ⟨hc, g.ond⟩,
   fun p hp => by rcases List.mem_cons.1 hp with rfl | hp; exact hlt; exact g.hlt p hp⟩

theorem TabGood.drop {t : List (Nat × Nat)} (g : TabGood t) (h : Nat) : TabGood (drop t h) :=
  ⟨(List.filter_sublist.map _).nodup g.hnd, (List.filter_sublist.map _).nodup g.ond,
   fun p hp => g.hlt p (List.mem_filter.1 hp).1⟩

theorem pair_unique_fst : ∀ {t : List (Nat × Nat)}, (t.map (·.1)).Nodup → ∀ {p q : Nat × Nat}, p ∈ t → q ∈ t → p.1 = q.1 → p = q
  | [], _, _, _, hp, _, _ => by cases hp
  | z :: rest, hnd, p, q, hp, hq, he => by
    simp only [List.map_cons, List.nodup_cons] at hnd
    rcases List.mem_cons.1 hp with rfl | hp' <;> rcases List.mem_cons.1 hq with rfl | hq'
    · rfl
    · exact absurd (he ▸ List.mem_map_of_mem (f := (·.1)) hq') hnd.1
    · exact absurd (he ▸ List.mem_map_of_mem (f := (·.1)) hp') hnd.1
    · exact pair_unique_fst hnd.2 hp' hq' he

theorem pair_unique_snd : ∀ {t : List (Nat × Nat)}, (t.map (·.2)).Nodup → ∀ {p q : Nat × Nat}, p ∈ t → q ∈ t → p.2 = q.2 → p = q
  | [], _, _, _, hp, _, _ => by cases hp
  | z :: rest, hnd, p, q, hp, hq, he => by
    simp only [List.map_cons, List.nodup_cons] at hnd
    rcases List.mem_cons.1 hp with rfl | hp' <;> rcases List.mem_cons.1 hq with rfl | hq'
    · rfl
    · exact absurd (he ▸ List.mem_map_of_mem (f := (·.2)) hq') hnd.1
    · exact absurd (he ▸ List.mem_map_of_mem (f := (·.2)) hp') hnd.1
    · exact pair_unique_snd hnd.2 hp' hq' he

/-- dropping the handle of `c` removes exactly `c` from the objects named -/
theorem mem_drop_objs {t : List (Nat × Nat)} (g : TabGood t) {h c : Nat} (hl : look t h = some c) (c' : Nat) :
    c' ∈ (drop t h).map (·.2) ↔ (c' ∈ t.map (·.2) ∧ c' ≠ c) := by
  have hm := look_some hl
  unfold UpStep.drop
  simp only [List.mem_map, List.mem_filter, bne_iff_ne, ne_eq]
  constructor
  · rintro ⟨p, ⟨hp, hne⟩, rfl⟩
    refine ⟨⟨p, hp, rfl⟩, fun he => hne ?_⟩
    have := pair_unique_snd g.ond hp hm he
    rw [this]
  · rintro ⟨⟨p, hp, rfl⟩, hne⟩
    refine ⟨p, ⟨hp, fun he => hne ?_⟩, rfl⟩
    have := pair_unique_fst g.hnd hp hm he
    rw [this]

/-- **the handle tables and the world agree** -/
structure HInv (s : S) : Prop where
  vis : ∀ k c, c ∈ (tab s k).map (·.2) ↔ Vis (tables s.w) k c
  good : ∀ k, TabGood (tab s k)

theorem hinv_same {s s' : S} (H : HInv s) (htab : ∀ k, tab s' k = tab s k)
    (hd : Delta (tables s.w) (tables s'.w) none none) : HInv s' := by
  refine ⟨fun k c => ?_, fun k => by rw [htab]; exact H.good k⟩
  rw [htab, hd k c, H.vis]; simp

theorem hinv_add {s s' : S} (H : HInv s) (k0 : K) (h c : Nat)
    (htab : ∀ k, tab s' k = if k = k0 then (h, c) :: tab s k0 else tab s k)
    (hd : Delta (tables s.w) (tables s'.w) (some (k0, c)) none)
    (hl : look (tab s k0) h = none) (hlt : h < MAXOBJ) (hf : ¬ Vis (tables s.w) k0 c) : HInv s' := by
  refine ⟨fun k c' => ?_, fun k => ?_⟩
  · rw [htab, hd k c']
    by_cases hk : k = k0
    · subst hk
      simp only [if_true, List.map_cons, List.mem_cons, H.vis, ne_eq, reduceCtorEq, not_false_eq_true, and_true,
        Option.some.injEq, Prod.mk.injEq, true_and]
      constructor
      · rintro (h1 | h1); exact Or.inr h1.symm; exact Or.inl h1
      · rintro (h1 | h1); exact Or.inr h1; exact Or.inl h1.symm
    · simp only [hk, if_false, H.vis, ne_eq, reduceCtorEq, not_false_eq_true, and_true, Option.some.injEq, Prod.mk.injEq]
      constructor
      · intro h1; exact Or.inl h1
      · rintro (h1 | h1); exact h1; exact absurd h1.1.symm hk
  · rw [htab]
    by_cases hk : k = k0
    · subst hk; simp only [if_true]
      exact (H.good k).cons hl (fun hm => hf ((H.vis k c).1 hm)) hlt
    · simp only [hk, if_false]; exact H.good k

theorem hinv_del {s s' : S} (H : HInv s) (k0 : K) (h c : Nat)
    (htab : ∀ k, tab s' k = if k = k0 then drop (tab s k0) h else tab s k)
    (hd : Delta (tables s.w) (tables s'.w) none (some (k0, c)))
    (hl : look (tab s k0) h = some c) : HInv s' := by
  refine ⟨fun k c' => ?_, fun k => ?_⟩
  · rw [htab, hd k c']
    by_cases hk : k = k0
    · subst hk
      simp only [if_true, mem_drop_objs (H.good k) hl, H.vis, ne_eq, Option.some.injEq, Prod.mk.injEq, true_and,
        reduceCtorEq, or_false]
      constructor
      · rintro ⟨h1, h2⟩; exact ⟨h1, fun he => h2 he.symm⟩
      · rintro ⟨h1, h2⟩; exact ⟨h1, fun he => h2 he.symm⟩
    · simp only [hk, if_false, H.vis, ne_eq, Option.some.injEq, Prod.mk.injEq, reduceCtorEq, or_false]
      constructor
      · intro h1; exact ⟨h1, fun he => hk he.1.symm⟩
      · intro h1; exact h1.1
  · rw [htab]
    by_cases hk : k = k0
    · subst hk; simp only [if_true]; exact (H.good k).drop h
    · simp only [hk, if_false]; exact H.good k

/-- the object a start call returns was not there before -/
theorem add_fresh {t t' : Tables} {c0 : LOp} {rc : Rc} {o : Option Nat} (hev : Ev t c0 rc o t') :
    ∀ k c, addOf c0 o = some (k, c) → ¬ Vis t k c := by
  intro k c ha hv
  cases hev
  case http =>
    rename_i a0 l0 s0 x0 hd0 c1 ho0 k0 hk0 hfc0 hfx hc0
    rcases hc0 with h1 | ⟨hl, h1⟩
    all_goals
      rw [h1] at ha
      simp only [addOf, Option.some.injEq, Prod.mk.injEq] at ha
      obtain ⟨rfl, rfl⟩ := ha
      simp only [Vis, List.mem_map] at hv
      obtain ⟨a, ha, he⟩ := hv
      exact hfx a ha he
  all_goals simp only [addOf, Option.some.injEq, Prod.mk.injEq, reduceCtorEq] at ha
  all_goals (obtain ⟨rfl, rfl⟩ := ha; simp only [Vis, List.mem_map] at hv)
  case read hf => obtain ⟨⟨a, ha, he⟩, _⟩ := hv; exact hf a ha he
  case write hf => obtain ⟨⟨a, ha, he⟩, _⟩ := hv; exact hf a ha he
  case accept hf => obtain ⟨a, ha, he⟩ := hv; exact hf a ha he
  case connect hf => obtain ⟨⟨a, ha, he⟩, _⟩ := hv; exact hf a ha he
  case nbrInit hf => obtain ⟨a, ha, he⟩ := hv; exact hf a ha he
  case nbwInit hf => obtain ⟨a, ha, he⟩ := hv; exact hf a ha he

theorem callOf_rel {s : S} {k : RelKind} {h : Nat} {c0 : LOp} (hc : callOf s (.rel k h) = some c0) :
    ∃ c, obj (relTab s k) h = some c ∧ c0 = relCall k c := by
  simp only [callOf, Option.map_eq_some_iff] at hc
  obtain ⟨c, h1, h2⟩ := hc
  exact ⟨c, h1, h2.symm⟩

/-- the handle tables follow the world through a call that was carried out -/
theorem hinv_book (s : S) (op : UOp) (c0 : LOp) (ok : Bool) (H : HInv s) (hI : Inv s.w)
    (hc : callOf s op = some c0) (hnc : (stepR s.w c0).1 ≠ .contract) :
    HInv { book s op (call s.w c0).2.1 ok with w := (stepR s.w c0).2 } := by
  have hev := ev_stepR s.w c0 hI hnc
  have hd := delta hev (tOk_of_inv hI)
  have hfr := add_fresh hev
  generalize (call s.w c0).2.1 = o at hev hd hfr ⊢
  cases op with
  | failat _ => cases hc
  | failfrom _ => cases hc
  | failoff => cases hc
  | end_ => cases hc
  | start k h sl =>
    obtain ⟨hlt, _, hl, _, rfl⟩ := callOf_start hc
    cases k <;> cases o
    · exact hinv_same H (fun k => by cases k <;> rfl) hd
    · exact hinv_add H .rd h _ (fun k => by cases k <;> rfl) hd hl hlt (hfr _ _ rfl)
    · exact hinv_same H (fun k => by cases k <;> rfl) hd
    · exact hinv_add H .wr h _ (fun k => by cases k <;> rfl) hd hl hlt (hfr _ _ rfl)
    · exact hinv_same H (fun k => by cases k <;> rfl) hd
    · exact hinv_add H .acc h _ (fun k => by cases k <;> rfl) hd hl hlt (hfr _ _ rfl)
  | nbrInit h sl =>
    obtain ⟨hlt, _, hl, rfl⟩ := callOf_nbrInit hc
    cases o
    · exact hinv_same H (fun k => by cases k <;> rfl) hd
    · exact hinv_add H .nbr h _ (fun k => by cases k <;> rfl) hd hl hlt (hfr _ _ rfl)
  | nbwInit h sl =>
    obtain ⟨hlt, _, hl, rfl⟩ := callOf_nbwInit hc
    cases o
    · exact hinv_same H (fun k => by cases k <;> rfl) hd
    · exact hinv_add H .nbw h _ (fun k => by cases k <;> rfl) hd hl hlt (hfr _ _ rfl)
  | ncStart h a tm =>
    obtain ⟨hlt, hl, rfl⟩ := callOf_ncStart hc
    cases o
    · exact hinv_same H (fun k => by cases k <;> rfl) hd
    · exact hinv_add H .conn h _ (fun k => by cases k <;> rfl) hd hl hlt (hfr _ _ rfl)
  | hqStart h a pl =>
    obtain ⟨hlt, hl, rfl⟩ := callOf_hqStart hc
    cases o
    · exact hinv_same H (fun k => by cases k <;> rfl) hd
    · exact hinv_add H .http h _ (fun k => by cases k <;> rfl) hd hl hlt (hfr _ _ rfl)
  | hqsStart h a pl hl =>
    obtain ⟨hlt, hl', rfl⟩ := callOf_hqsStart hc
    cases o
    · exact hinv_same H (fun k => by cases k <;> rfl) hd
    · exact hinv_add H .http h _ (fun k => by cases k <;> rfl) hd hl' hlt (hfr _ _ rfl)
  | nbrWait h len =>
    obtain ⟨rid, r, _, _, _, _, _, rfl⟩ := callOf_nbrWait hc
    exact hinv_same H (fun k => by cases k <;> rfl) hd
  | nbwReserve h len =>
    obtain ⟨wid, x, _, _, _, rfl⟩ := callOf_nbwReserve hc
    refine hinv_same H (fun k => ?_) hd
    cases ok <;> cases k <;> rfl
  | nbwConsume h len =>
    obtain ⟨wid, x, _, _, _, _, _, rfl⟩ := callOf_nbwConsume hc
    exact hinv_same H (fun k => by cases k <;> rfl) hd
  | nbwWrite h len =>
    obtain ⟨wid, x, _, _, _, _, rfl⟩ := callOf_nbwWrite hc
    exact hinv_same H (fun k => by cases k <;> rfl) hd
  | rel k h =>
    obtain ⟨c, hobj, rfl⟩ := callOf_rel hc
    have hl := (obj_some hobj).2
    cases k
    · exact hinv_del H .rd h c (fun k => by cases k <;> rfl) hd hl
    · exact hinv_del H .wr h c (fun k => by cases k <;> rfl) hd hl
    · exact hinv_del H .acc h c (fun k => by cases k <;> rfl) hd hl
    · exact hinv_del H .conn h c (fun k => by cases k <;> rfl) hd hl
    · exact hinv_del H .http h c (fun k => by cases k <;> rfl) hd hl
    · exact hinv_del H .nbw h c (fun k => by cases k <;> rfl) hd hl
    · exact hinv_same H (fun k => by cases k <;> rfl) hd
    · exact hinv_del H .nbr h c (fun k => by cases k <;> rfl) hd hl

end Percival.Proofs.UpMonSound
