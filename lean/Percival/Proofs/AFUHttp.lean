import Percival.Proofs.AFUNetIO
import Percival.Proofs.AFUConnect
/-!
# C14, upper layers: the set-up ladders of `http_request` / `https_request` (both through `http_request2`) and
`http_request_cancel` while connecting

`httpRequest_spec`, `httpsRequest_spec` and `httpRequestCancel_spec` in the style of `networkAccept_spec` /
`networkAcceptCancel_spec`.  The ladder is cut into named pieces so that every path is a small lemma:

* `httpW2 w headlen ho` — the world after the two allocations of `http_request2` and the table insertion
  (`httpW2_inv`: it satisfies `Inv0`; for HTTPS the host name's block, allocated by the caller just before, is
  owned by the new record from here on);
* `httpTail w2 h hd addrs s` — `network_connect` and what follows (`httpTail_spec`, generic in `w2` and in the
  record's host name).  On failure the ladder frees the header and the cookie **only**: a host name stays
  allocated, owned by nobody in the tables — that is the caller's (`https_request`'s `err1: free(sslhost)`), and
  `httpTail_spec` says that releasing it then (once) restores `Inv0`;
* `httpDrop w h hd` — `free(H->req_head); free(H);` and the table entry goes (`httpDrop_spec`, shared by err2/err1 of
  `http_request2` and by `http_request_cancel`).
* `eraseIds` / `freeN` / `releases_eq` / `inv0_drop`: several owned blocks released in a row.

Exported helpers: `alloc_eq_some`, `alloc_eq_none`, `inv0_https`, `httpDrop`, `httpDrop_spec`, `httpW2`, `httpW2_inv`,
`httpTail`, `httpTail_spec`, `httpRequest_eq_fail1`, `httpRequest_eq_fail2`, `httpRequest_eq_tail`,
`https_cookie_lt`, `find_https`.
-/
namespace Percival.Proofs.AllocFailUpper
open Percival.Model Percival.Model.EvReg Percival.Model.AllocFail
open Percival.Proofs.EvRegNet (regNet netRegistered NetInv)
open Percival.Proofs.EvRegTimer (regImm regTimers TmInv Step Granted)
open Percival.Proofs.EArray (malloc_ok malloc_fail free_facts)

/-! ## small helpers -/

theorem alloc_eq_some {w : World} {site : Site} {sz : Nat} (hm : (w.m.malloc sz).1 = true) :
    alloc w site sz = (some w.m.n, { w with m := (w.m.malloc sz).2, live := ⟨w.m.n, site, sz⟩ :: w.live }) := by
  unfold alloc
  rcases hq : w.m.malloc sz with ⟨b, m'⟩
  rw [hq] at hm
  simp only at hm
  subst hm
  rfl

theorem alloc_eq_none {w : World} {site : Site} {sz : Nat} (hm : (w.m.malloc sz).1 = false) :
    alloc w site sz = (none, { w with m := (w.m.malloc sz).2 }) := by
  unfold alloc
  rcases hq : w.m.malloc sz with ⟨b, m'⟩
  rw [hq] at hm
  simp only at hm
  subst hm
  rfl

/-- the cookies in the HTTP table are indices of requests already made -/
theorem https_cookie_lt {w : World} (h : Inv0 w) {y : Http} (hy : y ∈ w.https) : y.cookie < w.m.n :=
  expLive_lt h (k := (y.cookie, Site.httpCookie)) (by
    simp only [tables, expLive, List.mem_append, List.mem_flatMap]
    exact Or.inr ⟨y, hy, by simp⟩)

/-- `find?` by cookie in the HTTP table returns the entry -/
theorem find_https {w : World} (h : Inv0 w) {x : Http} (hx : x ∈ w.https) :
    w.https.find? (·.cookie == x.cookie) = some x := by
  have hnd := (tables_nodup h.owns.nodupE).2.2.2.2.2.2
  cases hf : w.https.find? (·.cookie == x.cookie) with
  | none => exact absurd (List.find?_eq_none.1 hf x hx) (by simp)
  | some r =>
    have hr := List.mem_of_find?_eq_some hf
    have hrc : r.cookie = x.cookie := by simpa using List.find?_some hf
    exact congrArg some (eq_of_nodup_map (·.cookie) hnd hr hx hrc)

/-- the HTTP table may change as long as the blocks it accounts for do not (`Inv0` does not read `conn`) -/
theorem inv0_https {w : World} (h : Inv0 w) (l : List Http)
    (hl : expLive { tables w with https := l } = expLive (tables w)) : Inv0 { w with https := l } := by
  obtain ⟨a1, a2, a3, a4, a5, a6, a7, a8, a9, a10, a11, a12⟩ := h
  refine ⟨a1, a2, a3, a4, ?_, a6, a7, a8, a9, a10, a11, a12⟩
  show Owns w.live (expLive { tables w with https := l })
  rw [hl]; exact a5

/-! ## several owned blocks released in a row -/

/-- `eraseId` for each id in turn -/
def eraseIds (l : List Block) : List Nat → List Block
  | [] => l
  | i :: rest => eraseIds (eraseId l i) rest

/-- `n` calls of `free` on non-NULL pointers -/
def freeN : Nat → Mem → Mem
  | 0, m => m
  | n + 1, m => freeN n (m.free false)

theorem freeN_facts : ∀ (n : Nat) (m : Mem), (freeN n m).n = m.n ∧ (freeN n m).live = m.live - n ∧
    (freeN n m).refusals = m.refusals ∧ Step m (freeN n m)
  | 0, m => ⟨rfl, by simp [freeN], rfl, Step.refl m⟩
  | n + 1, m => by
    have ih := freeN_facts n (m.free false)
    have hf := free_facts m false
    simp only [Bool.false_eq_true, if_false] at hf
    refine ⟨?_, ?_, ?_, ?_⟩
    · show (freeN n (m.free false)).n = m.n
      rw [ih.1, hf.2.2.2]
    · show (freeN n (m.free false)).live = m.live - ((n + 1 : Nat) : Int)
      rw [ih.2.1, hf.2.1]; omega
    · show (freeN n (m.free false)).refusals = m.refusals
      rw [ih.2.2.1, hf.1]
    · exact (EvRegTimer.step_free m false).trans ih.2.2.2

/-- erasing the blocks owned under the first keys, in their order -/
theorem owns_eraseIds : ∀ (ks : List (Nat × Site)) {l : List Block} {E : List (Nat × Site)},
    Owns l (ks ++ E) → (l.map (·.id)).Nodup →
    Owns (eraseIds l (ks.map (·.1))) E ∧ (eraseIds l (ks.map (·.1))).length + ks.length = l.length ∧
    (eraseIds l (ks.map (·.1))).Sublist l
  | [], _, _, h, _ => ⟨h, rfl, List.Sublist.refl _⟩
  | k :: ks, l, E, h, hnd => by
    obtain ⟨b, hb, hkb⟩ := List.mem_map.1 (h.own1 k List.mem_cons_self)
    have hid : b.id = k.1 := congrArg Prod.fst hkb
    have h1 : Owns (eraseId l k.1) (ks ++ E) := Owns.erase h hnd
    have hnd1 : ((eraseId l k.1).map (·.id)).Nodup := hnd.sublist ((eraseId_sublist _ _).map _)
    obtain ⟨o, len, sub⟩ := owns_eraseIds ks h1 hnd1
    have hl : (eraseId l k.1).length + 1 = l.length := by rw [← hid]; exact length_eraseId hb
    refine ⟨o, ?_, sub.trans (eraseId_sublist _ _)⟩
    show (eraseIds (eraseId l k.1) (ks.map (·.1))).length + (ks.length + 1) = l.length
    omega

/-- `release` of blocks the tables own (under the first keys), one after the other -/
theorem releases_eq : ∀ (ks : List (Nat × Site)) {w : World} {E : List (Nat × Site)},
    Owns w.live (ks ++ E) → (w.live.map (·.id)).Nodup →
    (ks.map (·.1)).foldl release w = { w with m := freeN ks.length w.m, live := eraseIds w.live (ks.map (·.1)) }
  | [], _, _, _, _ => rfl
  | k :: ks, w, E, h, hnd => by
    obtain ⟨b, hb, hkb⟩ := List.mem_map.1 (h.own1 k List.mem_cons_self)
    have hid : b.id = k.1 := congrArg Prod.fst hkb
    have e1 : release w k.1 = { w with m := w.m.free false, live := eraseId w.live k.1 } := by
      rw [← hid]; exact release_live hb
    have h1 : Owns (eraseId w.live k.1) (ks ++ E) := Owns.erase h hnd
    have hnd1 : ((eraseId w.live k.1).map (·.id)).Nodup := hnd.sublist ((eraseId_sublist _ _).map _)
    have ih := releases_eq ks (w := { w with m := w.m.free false, live := eraseId w.live k.1 }) (E := E) h1 hnd1
    show (ks.map (·.1)).foldl release (release w k.1) = _
    rw [e1, ih]
    rfl

/-- the table entries that own the first keys go (HTTP table), and their blocks with them -/
theorem inv0_drop {w : World} (h : Inv0 w) (ks : List (Nat × Site)) (l' : List Http)
    (hp : (expLive (tables w)).Perm (ks ++ expLive { tables w with https := l' })) :
    Inv0 { w with m := freeN ks.length w.m, live := eraseIds w.live (ks.map (·.1)), https := l' } := by
  have hnl := live_nodup h
  obtain ⟨a1, a2, a3, a4, a5, a6, a7, a8, a9, a10, a11, a12⟩ := h
  obtain ⟨o, len, sub⟩ := owns_eraseIds ks (a5.perm hp) hnl
  have ff := freeN_facts ks.length w.m
  refine ⟨evOk_step a1 (Nat.le_of_eq ff.1.symm), a2, ?_, ?_, o, a6, a7, a8, a9, a10, a11, ?_⟩
  · intro b hb
    show b.id < (freeN ks.length w.m).n
    rw [ff.1]
    rcases List.mem_append.1 hb with hb | hb
    · exact a3 b (List.mem_append_left _ (sub.subset hb))
    · exact a3 b (List.mem_append_right _ hb)
  · exact a4.sublist ((sub.append_right _).map _)
  · show (freeN ks.length w.m).live = _
    rw [ff.2.1, a12]
    show ((w.live.length : Int) + w.cache.length + w.evLive) - ks.length =
      ((eraseIds w.live (ks.map (·.1))).length : Int) + w.cache.length + w.evLive
    omega

theorem release_with_https (w : World) (l : List Http) (id : Nat) :
    release { w with https := l } id = { release w id with https := l } := by
  simp only [release]
  cases findId w.live id <;> rfl

/-! ## `free(H->req_head); free(H);` and the table entry goes -/

/-- err2 / err1 of `http_request2`, and the end of `http_request_cancel` -/
def httpDrop (w : World) (c hd : Nat) : World :=
  { release (release w hd) c with https := (release (release w hd) c).https.filter (·.cookie != c) }

/-- the blocks an entry of the HTTP table owns: header and cookie first (`http_request2`'s own), then the host name -/
theorem http_entry_perm {w : World} {x : Http} (h : Inv0 w) (hx : x ∈ w.https) :
    (expLive (tables w)).Perm ([(x.head, Site.httpHead), (x.cookie, Site.httpCookie)] ++
      (hostKeys x ++ expLive { tables w with https := w.https.filter (fun y => y.cookie != x.cookie) })) :=
  (expLive_filter_https h.owns.nodupE hx).trans (List.Perm.swap _ _ _)

theorem httpDrop_eq {w : World} {x : Http} (h : Inv0 w) (hx : x ∈ w.https) :
    httpDrop w x.cookie x.head =
      { w with m := (w.m.free false).free false, live := eraseId (eraseId w.live x.head) x.cookie,
               https := w.https.filter (fun y => y.cookie != x.cookie) } := by
  have e : release (release w x.head) x.cookie =
      { w with m := (w.m.free false).free false, live := eraseId (eraseId w.live x.head) x.cookie } :=
    releases_eq [(x.head, Site.httpHead), (x.cookie, Site.httpCookie)] (h.owns.perm (http_entry_perm h hx)) (live_nodup h)
  unfold httpDrop
  rw [e]

/-- an entry without a host name: after the two frees the invariant holds again -/
theorem httpDrop_spec {w : World} {x : Http} (h : Inv0 w) (hx : x ∈ w.https) (hno : x.host = none) :
    httpDrop w x.cookie x.head =
      { w with m := (w.m.free false).free false, live := eraseId (eraseId w.live x.head) x.cookie,
               https := w.https.filter (fun y => y.cookie != x.cookie) } ∧
    Inv0 (httpDrop w x.cookie x.head) := by
  refine ⟨httpDrop_eq h hx, ?_⟩
  rw [httpDrop_eq h hx]
  have hp := http_entry_perm h hx
  have hk : hostKeys x = [] := by simp only [hostKeys, hno]
  rw [hk] at hp
  exact inv0_drop h [(x.head, Site.httpHead), (x.cookie, Site.httpCookie)] _ hp

/-- an entry with a host name, failure ladder: header and cookie are freed by `http_request2`, the host name —
still allocated, owned by no table entry — by the caller; then the invariant holds again -/
theorem httpDropHost_spec {w : World} {x : Http} {sh : Nat} (h : Inv0 w) (hx : x ∈ w.https) (hs : x.host = some sh) :
    release (httpDrop w x.cookie x.head) sh =
      { w with m := ((w.m.free false).free false).free false,
               live := eraseId (eraseId (eraseId w.live x.head) x.cookie) sh,
               https := w.https.filter (fun y => y.cookie != x.cookie) } ∧
    Inv0 (release (httpDrop w x.cookie x.head) sh) ∧
    findId (httpDrop w x.cookie x.head).live sh ≠ none := by
  have hk : hostKeys x = [(sh, Site.httpsHost)] := by simp only [hostKeys, hs]
  have hp : (expLive (tables w)).Perm ([(x.head, Site.httpHead), (x.cookie, Site.httpCookie), (sh, Site.httpsHost)] ++
      expLive { tables w with https := w.https.filter (fun y => y.cookie != x.cookie) }) := by
    have := http_entry_perm h hx
    rw [hk] at this
    exact this
  have e3 : release (release (release w x.head) x.cookie) sh =
      { w with m := ((w.m.free false).free false).free false,
               live := eraseId (eraseId (eraseId w.live x.head) x.cookie) sh } :=
    releases_eq [(x.head, Site.httpHead), (x.cookie, Site.httpCookie), (sh, Site.httpsHost)] (h.owns.perm hp) (live_nodup h)
  have e : release (httpDrop w x.cookie x.head) sh =
      { w with m := ((w.m.free false).free false).free false,
               live := eraseId (eraseId (eraseId w.live x.head) x.cookie) sh,
               https := w.https.filter (fun y => y.cookie != x.cookie) } := by
    have e2 : release (release w x.head) x.cookie =
        { w with m := (w.m.free false).free false, live := eraseId (eraseId w.live x.head) x.cookie } :=
      releases_eq [(x.head, Site.httpHead), (x.cookie, Site.httpCookie)] (h.owns.perm (http_entry_perm h hx)) (live_nodup h)
    unfold httpDrop
    rw [release_with_https, e3, e2]
  refine ⟨e, ?_, ?_⟩
  · rw [e]
    exact inv0_drop h [(x.head, Site.httpHead), (x.cookie, Site.httpCookie), (sh, Site.httpsHost)] _ hp
  · -- the host name's block is still live after the ladder's two frees
    rw [httpDrop_eq h hx]
    have o2 := (owns_eraseIds [(x.head, Site.httpHead), (x.cookie, Site.httpCookie)]
      (E := (sh, Site.httpsHost) :: expLive { tables w with https := w.https.filter (fun y => y.cookie != x.cookie) })
      (h.owns.perm hp) (live_nodup h)).1
    obtain ⟨b, hb, hkb⟩ := List.mem_map.1 (o2.own1 _ List.mem_cons_self)
    have hid : b.id = sh := congrArg Prod.fst hkb
    have hb' : b ∈ eraseId (eraseId w.live x.head) x.cookie := hb
    obtain ⟨b', hf⟩ := findId_of_mem hb'
    show findId (eraseId (eraseId w.live x.head) x.cookie) sh ≠ none
    rw [← hid, hf]
    exact fun hc => by cases hc

/-- an entry with a host name, `http_request_cancel`'s order: host name, header, cookie -/
theorem httpDropCancel_spec {w : World} {x : Http} {sh : Nat} (h : Inv0 w) (hx : x ∈ w.https) (hs : x.host = some sh) :
    httpDrop (release w sh) x.cookie x.head =
      { w with m := ((w.m.free false).free false).free false,
               live := eraseId (eraseId (eraseId w.live sh) x.head) x.cookie,
               https := w.https.filter (fun y => y.cookie != x.cookie) } ∧
    Inv0 (httpDrop (release w sh) x.cookie x.head) := by
  have hk : hostKeys x = [(sh, Site.httpsHost)] := by simp only [hostKeys, hs]
  have hp : (expLive (tables w)).Perm ([(sh, Site.httpsHost), (x.head, Site.httpHead), (x.cookie, Site.httpCookie)] ++
      expLive { tables w with https := w.https.filter (fun y => y.cookie != x.cookie) }) := by
    have := http_entry_perm h hx
    rw [hk] at this
    refine this.trans ?_
    rw [List.perm_iff_count]; intro k
    simp only [List.cons_append, List.nil_append, List.count_cons]; omega
  have e3 : release (release (release w sh) x.head) x.cookie =
      { w with m := ((w.m.free false).free false).free false,
               live := eraseId (eraseId (eraseId w.live sh) x.head) x.cookie } :=
    releases_eq [(sh, Site.httpsHost), (x.head, Site.httpHead), (x.cookie, Site.httpCookie)] (h.owns.perm hp) (live_nodup h)
  have e : httpDrop (release w sh) x.cookie x.head =
      { w with m := ((w.m.free false).free false).free false,
               live := eraseId (eraseId (eraseId w.live sh) x.head) x.cookie,
               https := w.https.filter (fun y => y.cookie != x.cookie) } := by
    unfold httpDrop
    rw [e3]
  refine ⟨e, ?_⟩
  rw [e]
  exact inv0_drop h [(sh, Site.httpsHost), (x.head, Site.httpHead), (x.cookie, Site.httpCookie)] _ hp

/-! ## fresh blocks and the table entry that owns them -/

theorem Owns.append_fresh : ∀ (bs : List Block) {l : List Block} {E : List (Nat × Site)}, Owns l E →
    (bs.map (·.id)).Nodup → (∀ b ∈ bs, b.id ∉ l.map (·.id)) → Owns (bs ++ l) (bs.map key ++ E)
  | [], _, _, h, _, _ => h
  | b :: bs, l, E, h, hnd, hf => by
    simp only [List.map_cons, List.nodup_cons] at hnd
    have ih := Owns.append_fresh bs h hnd.2 (fun x hx => hf x (List.mem_cons_of_mem _ hx))
    refine ih.cons b ?_
    rw [List.map_append, List.mem_append]
    rintro (hm | hm)
    · exact hnd.1 hm
    · exact hf b List.mem_cons_self hm

/-- fresh blocks whose keys are exactly those of a new entry of the HTTP table -/
theorem inv0_add_http {w : World} (h : Inv0 w) (bs : List Block) (a : Http) (m' : Mem)
    (hn : w.m.n ≤ m'.n) (hids : ∀ b ∈ bs, w.m.n ≤ b.id ∧ b.id < m'.n) (hnd : (bs.map (·.id)).Nodup)
    (hkeys : (bs.map key).Perm ((a.cookie, Site.httpCookie) :: (a.head, Site.httpHead) :: hostKeys a))
    (hlive : m'.live = w.m.live + bs.length) :
    Inv0 { w with m := m', live := bs ++ w.live, https := a :: w.https } := by
  obtain ⟨a1, a2, a3, a4, a5, a6, a7, a8, a9, a10, a11, a12⟩ := h
  have hnew : ∀ b ∈ bs, b.id ∉ (w.live ++ w.cache).map (·.id) := by
    intro b hb hm
    obtain ⟨b', hb', hid⟩ := List.mem_map.1 hm
    have := a3 b' hb'
    have := (hids b hb).1
    omega
  have hnewl : ∀ b ∈ bs, b.id ∉ w.live.map (·.id) := by
    intro b hb hm
    exact hnew b hb (by rw [List.map_append]; exact List.mem_append_left _ hm)
  refine ⟨evOk_step a1 hn, a2, ?_, ?_, ?_, a6, a7, a8, a9, a10, a11, ?_⟩
  · intro b hb
    show b.id < m'.n
    rw [List.append_assoc] at hb
    rcases List.mem_append.1 hb with hb | hb
    · exact (hids b hb).2
    · exact Nat.lt_of_lt_of_le (a3 b hb) hn
  · show (((bs ++ w.live) ++ w.cache).map (·.id)).Nodup
    rw [List.append_assoc, List.map_append]
    refine List.nodup_append.2 ⟨hnd, a4, ?_⟩
    intro x hx y hy hxy
    obtain ⟨b, hb, rfl⟩ := List.mem_map.1 hx
    exact hnew b hb (hxy ▸ hy)
  · have o := Owns.append_fresh bs a5 hnd hnewl
    refine o.perm ((hkeys.append_right _).trans ?_)
    exact (expLive_cons_https (tables w) a).symm
  · show m'.live = ((bs ++ w.live).length : Int) + w.cache.length + w.evLive
    rw [hlive, a12, List.length_append]
    push_cast
    omega

/-! ## the ladder of `http_request2`, cut into pieces -/

/-- the world after the two allocations and the table insertion; `ho` is the caller's host name, if any -/
def httpW2 (w : World) (headlen : Nat) (ho : Option Nat) : World :=
  { w with m := ((w.m.malloc httpCookieSize).2.malloc (headlen + 1)).2,
           live := ⟨w.m.n + 1, .httpHead, headlen + 1⟩ :: ⟨w.m.n, .httpCookie, httpCookieSize⟩ :: w.live,
           https := ⟨w.m.n, w.m.n + 1, none, ho⟩ :: w.https }

/-- "Connect to the target host." and what follows -/
def httpTail (w2 : World) (h hd : Nat) (addrs : List Connect.AddrOutcome) (s : Nat) : Option Nat × World :=
  match networkConnect w2 addrs none s with
  | (some c, w3) =>
    (some h, { w3 with https := w3.https.map (fun x => if x.cookie == h then { x with conn := some c } else x) })
  | (none, w3) => (none, httpDrop w3 h hd)

theorem httpRequest2_eq_fail1 {w : World} (addrs : List Connect.AddrOutcome) (headlen s : Nat) (ho : Option Nat)
    (hm : (w.m.malloc httpCookieSize).1 = false) :
    httpRequest2 w addrs headlen s ho = (none, { w with m := (w.m.malloc httpCookieSize).2 }) := by
  unfold httpRequest2
  rw [alloc_eq_none hm]

theorem httpRequest2_eq_fail2 {w : World} (addrs : List Connect.AddrOutcome) (headlen s : Nat) (ho : Option Nat)
    (hm1 : (w.m.malloc httpCookieSize).1 = true)
    (hm2 : ((w.m.malloc httpCookieSize).2.malloc (headlen + 1)).1 = false) :
    httpRequest2 w addrs headlen s ho =
      (none, release { w with m := ((w.m.malloc httpCookieSize).2.malloc (headlen + 1)).2,
                              live := ⟨w.m.n, .httpCookie, httpCookieSize⟩ :: w.live } w.m.n) := by
  unfold httpRequest2
  rw [alloc_eq_some hm1]
  simp only
  rw [alloc_eq_none (w := { w with m := (w.m.malloc httpCookieSize).2,
                                   live := ⟨w.m.n, .httpCookie, httpCookieSize⟩ :: w.live }) hm2]

theorem httpRequest2_eq_tail {w : World} (addrs : List Connect.AddrOutcome) (headlen s : Nat) (ho : Option Nat)
    (hm1 : (w.m.malloc httpCookieSize).1 = true)
    (hm2 : ((w.m.malloc httpCookieSize).2.malloc (headlen + 1)).1 = true) :
    httpRequest2 w addrs headlen s ho = httpTail (httpW2 w headlen ho) w.m.n (w.m.n + 1) addrs s := by
  unfold httpRequest2
  rw [alloc_eq_some hm1]
  simp only
  rw [alloc_eq_some (w := { w with m := (w.m.malloc httpCookieSize).2,
                                   live := ⟨w.m.n, .httpCookie, httpCookieSize⟩ :: w.live }) hm2]
  rfl

theorem httpRequest_eq_fail1 {w : World} (addrs : List Connect.AddrOutcome) (headlen s : Nat)
    (hm : (w.m.malloc httpCookieSize).1 = false) :
    httpRequest w addrs headlen s = (none, { w with m := (w.m.malloc httpCookieSize).2 }) :=
  httpRequest2_eq_fail1 addrs headlen s none hm

theorem httpRequest_eq_fail2 {w : World} (addrs : List Connect.AddrOutcome) (headlen s : Nat)
    (hm1 : (w.m.malloc httpCookieSize).1 = true)
    (hm2 : ((w.m.malloc httpCookieSize).2.malloc (headlen + 1)).1 = false) :
    httpRequest w addrs headlen s =
      (none, release { w with m := ((w.m.malloc httpCookieSize).2.malloc (headlen + 1)).2,
                              live := ⟨w.m.n, .httpCookie, httpCookieSize⟩ :: w.live } w.m.n) :=
  httpRequest2_eq_fail2 addrs headlen s none hm1 hm2

theorem httpRequest_eq_tail {w : World} (addrs : List Connect.AddrOutcome) (headlen s : Nat)
    (hm1 : (w.m.malloc httpCookieSize).1 = true)
    (hm2 : ((w.m.malloc httpCookieSize).2.malloc (headlen + 1)).1 = true) :
    httpRequest w addrs headlen s = httpTail (httpW2 w headlen none) w.m.n (w.m.n + 1) addrs s :=
  httpRequest2_eq_tail addrs headlen s none hm1 hm2

/-- after the two allocations and the table insertion the invariant holds again (plain HTTP) -/
theorem httpW2_inv {w : World} (h : Inv0 w) (headlen : Nat) (hm1 : (w.m.malloc httpCookieSize).1 = true)
    (hm2 : ((w.m.malloc httpCookieSize).2.malloc (headlen + 1)).1 = true) : Inv0 (httpW2 w headlen none) := by
  have ok1 := malloc_ok hm1
  have ok2 := malloc_ok hm2
  have hn : ((w.m.malloc httpCookieSize).2.malloc (headlen + 1)).2.n = w.m.n + 2 := by rw [ok2.2.2.2, ok1.2.2.2]
  refine inv0_add_http h [⟨w.m.n + 1, .httpHead, headlen + 1⟩, ⟨w.m.n, .httpCookie, httpCookieSize⟩]
    ⟨w.m.n, w.m.n + 1, none, none⟩ _ (by rw [hn]; omega) ?_ ?_ ?_ ?_
  · intro b hb
    rw [hn]
    simp only [List.mem_cons, List.not_mem_nil, or_false] at hb
    rcases hb with rfl | rfl <;> refine ⟨?_, ?_⟩ <;> dsimp only <;> omega
  · simp only [List.map_cons, List.map_nil, List.nodup_cons, List.mem_cons, List.not_mem_nil, or_false, not_false_eq_true,
      List.nodup_nil, and_true]
    omega
  · exact List.Perm.swap _ _ _
  · rw [ok2.2.1, ok1.2.1]
    simp only [List.length_cons, List.length_nil]
    omega

/-- the same for HTTPS: the caller's `strdup` came first, and the new record owns its block too -/
theorem httpsW2_inv {w : World} (h : Inv0 w) (headlen hostlen : Nat) (hm0 : (w.m.malloc (hostlen + 1)).1 = true)
    (hm1 : ((w.m.malloc (hostlen + 1)).2.malloc httpCookieSize).1 = true)
    (hm2 : (((w.m.malloc (hostlen + 1)).2.malloc httpCookieSize).2.malloc (headlen + 1)).1 = true) :
    Inv0 (httpW2 { w with m := (w.m.malloc (hostlen + 1)).2, live := ⟨w.m.n, .httpsHost, hostlen + 1⟩ :: w.live }
      headlen (some w.m.n)) := by
  have ok0 := malloc_ok hm0
  have ok1 := malloc_ok hm1
  have ok2 := malloc_ok hm2
  have hn1 : (w.m.malloc (hostlen + 1)).2.n = w.m.n + 1 := ok0.2.2.2
  have hn : (((w.m.malloc (hostlen + 1)).2.malloc httpCookieSize).2.malloc (headlen + 1)).2.n = w.m.n + 3 := by
    rw [ok2.2.2.2, ok1.2.2.2, ok0.2.2.2]
  refine inv0_add_http h [⟨(w.m.malloc (hostlen + 1)).2.n + 1, .httpHead, headlen + 1⟩,
      ⟨(w.m.malloc (hostlen + 1)).2.n, .httpCookie, httpCookieSize⟩, ⟨w.m.n, .httpsHost, hostlen + 1⟩]
    ⟨(w.m.malloc (hostlen + 1)).2.n, (w.m.malloc (hostlen + 1)).2.n + 1, none, some w.m.n⟩ _ (by rw [hn]; omega) ?_ ?_ ?_ ?_
  · intro b hb
    rw [hn]
    simp only [List.mem_cons, List.not_mem_nil, or_false] at hb
    rcases hb with rfl | rfl | rfl <;> refine ⟨?_, ?_⟩ <;> dsimp only <;> omega
  · simp only [List.map_cons, List.map_nil, List.nodup_cons, List.mem_cons, List.not_mem_nil, or_false, not_false_eq_true,
      List.nodup_nil, and_true]
    omega
  · exact List.Perm.swap _ _ _
  · rw [ok2.2.1, ok1.2.1, ok0.2.1]
    simp only [List.length_cons, List.length_nil]
    omega

/-- `network_connect` and what follows, in a world where the new request heads the HTTP table.  On failure the
ladder has freed the header and the cookie; a host name `ho = some sh` is still allocated (`findId … ≠ none`) and
owned by no table entry: `Inv0` holds again once the caller has released it. -/
theorem httpTail_spec {w2 : World} {c0 hd : Nat} {ho : Option Nat} {rest : List Http} (hi : Inv0 w2)
    (hh : w2.https = ⟨c0, hd, none, ho⟩ :: rest) (addrs : List Connect.AddrOutcome) (s : Nat) :
    Step w2.m (httpTail w2 c0 hd addrs s).2.m ∧
    ((httpTail w2 c0 hd addrs s).1 = none →
        (ho = none → Inv0 (httpTail w2 c0 hd addrs s).2) ∧
        (∀ sh, ho = some sh →
          release (httpTail w2 c0 hd addrs s).2 sh =
            { (httpTail w2 c0 hd addrs s).2 with m := (httpTail w2 c0 hd addrs s).2.m.free false,
                                                  live := eraseId (httpTail w2 c0 hd addrs s).2.live sh } ∧
          Inv0 (release (httpTail w2 c0 hd addrs s).2 sh) ∧
          findId (httpTail w2 c0 hd addrs s).2.live sh ≠ none) ∧
        (httpTail w2 c0 hd addrs s).2.live = eraseId (eraseId w2.live hd) c0 ∧
        tables (httpTail w2 c0 hd addrs s).2 = { tables w2 with https := rest } ∧
        registry (httpTail w2 c0 hd addrs s).2.ev = registry w2.ev ∧
        (httpTail w2 c0 hd addrs s).2.bad = w2.bad ∧
        ((skipFailNow addrs ≠ [] → ¬ netRegistered w2.ev s true ∧ 24 * (s + 1) ≤ EArray.SIZE_MAX) →
          w2.ev.timers.length < 2^32 → w2.m.refusals < (httpTail w2 c0 hd addrs s).2.m.refusals)) ∧
    (∀ x, (httpTail w2 c0 hd addrs s).1 = some x → Inv0 (httpTail w2 c0 hd addrs s).2 ∧ x = c0 ∧ ∃ c,
        (httpTail w2 c0 hd addrs s).2.live = ⟨c, .connCookie, connCookieSize⟩ :: w2.live ∧
        tables (httpTail w2 c0 hd addrs s).2 =
          { tables w2 with https := ⟨c0, hd, some c, ho⟩ :: rest, conns := connEntry c addrs none s :: w2.conns } ∧
        (httpTail w2 c0 hd addrs s).2.m.refusals = w2.m.refusals) ∧
    ((httpTail w2 c0 hd addrs s).2.m.refusals ≠ w2.m.refusals → (httpTail w2 c0 hd addrs s).1 = none) := by
  have hsp := networkConnect_spec w2 addrs none s hi
  -- no other entry has the new cookie
  have hnot : ∀ y ∈ rest, (y.cookie == c0) = false := by
    have hnd := (tables_nodup hi.owns.nodupE).2.2.2.2.2.2
    simp only [tables, hh, List.map_cons, List.nodup_cons] at hnd
    intro y hy
    have : y.cookie ≠ c0 := fun e => hnd.1 (e ▸ List.mem_map_of_mem (f := (·.cookie)) hy)
    simpa using this
  unfold httpTail
  rcases hnc : networkConnect w2 addrs none s with ⟨o, w3⟩
  rw [hnc] at hsp
  obtain ⟨i3, st3, same3, ok3, ref3, prog3⟩ := hsp
  simp only at i3 st3 same3 ok3 ref3 prog3
  cases o with
  | some c =>
    obtain ⟨l3, t3, r3⟩ := ok3 c rfl
    have hht : w3.https = ⟨c0, hd, none, ho⟩ :: rest := (congrArg Tables.https t3).trans hh
    have hmap : w3.https.map (fun x => if x.cookie == c0 then { x with conn := some c } else x) =
        ⟨c0, hd, some c, ho⟩ :: rest := by
      rw [hht]
      simp only [List.map_cons, beq_self_eq_true, if_true, List.cons.injEq, true_and]
      conv => rhs; rw [← List.map_id rest]
      apply List.map_congr_left
      intro y hy
      simp only [hnot y hy, Bool.false_eq_true, if_false, id]
    simp only
    rw [hmap]
    refine ⟨st3, fun hc => (by cases hc), ?_, fun hne => absurd r3 hne⟩
    intro x hx
    simp only [Option.some.injEq] at hx
    refine ⟨?_, hx.symm, c, l3, ?_, r3⟩
    · apply inv0_https i3
      simp only [expLive, tables, hht, List.flatMap_cons, hostKeys]
    · show ({ tables w3 with https := ⟨c0, hd, some c, ho⟩ :: rest } : Tables) = _
      rw [t3]
  | none =>
    have sm := same3 rfl
    have hht : w3.https = ⟨c0, hd, none, ho⟩ :: rest := (congrArg Tables.https sm.tables).trans hh
    have hx3 : (⟨c0, hd, none, ho⟩ : Http) ∈ w3.https := by rw [hht]; exact List.mem_cons_self
    have d1 := httpDrop_eq i3 hx3
    have hfil : w3.https.filter (fun y => y.cookie != c0) = rest := by
      rw [hht]
      simp only [List.filter_cons, bne_self_eq_false, Bool.false_eq_true, if_false]
      apply List.filter_eq_self.2
      intro y hy
      simp only [bne, hnot y hy, Bool.not_false]
    have d1' : httpDrop w3 c0 hd =
        { w3 with m := (w3.m.free false).free false, live := eraseId (eraseId w3.live hd) c0, https := rest } := by
      rw [← hfil]; exact d1
    have hfr1 := free_facts w3.m false
    have hfr2 := free_facts (w3.m.free false) false
    simp only
    refine ⟨?_, fun _ => ⟨?_, ?_, ?_, ?_, ?_, ?_, ?_⟩, fun x hx => (by cases hx), fun _ => trivial⟩
    · rw [d1']
      show Step w2.m ((w3.m.free false).free false)
      exact (st3.trans (EvRegTimer.step_free _ _)).trans (EvRegTimer.step_free _ _)
    · intro hno
      exact (httpDrop_spec i3 hx3 hno).2
    · intro sh hsh
      obtain ⟨e1, e2, e3⟩ := httpDropHost_spec (x := ⟨c0, hd, none, ho⟩) i3 hx3 hsh
      refine ⟨?_, e2, e3⟩
      rw [e1, d1]
    · rw [d1']
      show eraseId (eraseId w3.live hd) c0 = _
      rw [sm.live]
    · rw [d1']
      show ({ tables w3 with https := rest } : Tables) = _
      rw [sm.tables]
    · rw [d1']
      exact sm.registry
    · rw [d1']
      exact sm.bad
    · intro hp ht
      rw [d1']
      show w2.m.refusals < ((w3.m.free false).free false).refusals
      rw [hfr2.1, hfr1.1]
      exact prog3 rfl hp ht

/-! ## `http_request` -/

/-- `http_request` while connecting: whether it succeeds or fails, under every oracle -/
theorem httpRequest_spec (w : World) (addrs : List Connect.AddrOutcome) (headlen s : Nat) (h : Inv0 w) :
    Inv0 (httpRequest w addrs headlen s).2 ∧ Step w.m (httpRequest w addrs headlen s).2.m ∧
    ((httpRequest w addrs headlen s).1 = none → Same w (httpRequest w addrs headlen s).2) ∧
    (∀ x, (httpRequest w addrs headlen s).1 = some x → ∃ hd c,
        (httpRequest w addrs headlen s).2.live =
          ⟨c, .connCookie, connCookieSize⟩ :: ⟨hd, .httpHead, headlen + 1⟩ :: ⟨x, .httpCookie, httpCookieSize⟩ :: w.live ∧
        tables (httpRequest w addrs headlen s).2 =
          { tables w with https := ⟨x, hd, some c, none⟩ :: w.https, conns := connEntry c addrs none s :: w.conns } ∧
        (httpRequest w addrs headlen s).2.m.refusals = w.m.refusals) ∧
    ((httpRequest w addrs headlen s).2.m.refusals ≠ w.m.refusals → (httpRequest w addrs headlen s).1 = none) ∧
    ((httpRequest w addrs headlen s).1 = none →
        (skipFailNow addrs ≠ [] → ¬ netRegistered w.ev s true ∧ 24 * (s + 1) ≤ EArray.SIZE_MAX) →
        w.ev.timers.length < 2^32 → w.m.refusals < (httpRequest w addrs headlen s).2.m.refusals) := by
  have hs1 := EvRegTimer.step_malloc w.m httpCookieSize
  cases hm1 : (w.m.malloc httpCookieSize).1 with
  | false =>
    -- err0
    have hf := malloc_fail hm1
    rw [httpRequest_eq_fail1 addrs headlen s hm1]
    refine ⟨inv0_mem h _ hs1.n hf.2.1, hs1, fun _ => ⟨rfl, rfl, rfl, rfl⟩, fun c hc => (by cases hc), fun _ => rfl,
      fun _ _ _ => (by show w.m.refusals < (w.m.malloc httpCookieSize).2.refusals; rw [hf.1]; omega)⟩
  | true =>
    have ok1 := malloc_ok hm1
    have hs2 := EvRegTimer.step_malloc (w.m.malloc httpCookieSize).2 (headlen + 1)
    cases hm2 : ((w.m.malloc httpCookieSize).2.malloc (headlen + 1)).1 with
    | false =>
      -- err1: free(H)
      have hf := malloc_fail hm2
      rw [httpRequest_eq_fail2 addrs headlen s hm1 hm2]
      have hfind : findId (⟨w.m.n, .httpCookie, httpCookieSize⟩ :: w.live) w.m.n =
          some ⟨w.m.n, .httpCookie, httpCookieSize⟩ := by simp [findId]
      have hfr := free_facts ((w.m.malloc httpCookieSize).2.malloc (headlen + 1)).2 false
      simp only [release, hfind, eraseId, beq_self_eq_true, if_true]
      have hst : Step w.m (((w.m.malloc httpCookieSize).2.malloc (headlen + 1)).2.free false) :=
        (hs1.trans hs2).trans (EvRegTimer.step_free _ _)
      refine ⟨?_, hst, fun _ => ⟨rfl, rfl, rfl, rfl⟩, fun c hc => (by cases hc), fun _ => trivial, ?_⟩
      · refine inv0_frame h (evOk_step h.ev hst.n) rfl hst.n rfl rfl rfl rfl rfl rfl ?_
        show (((w.m.malloc httpCookieSize).2.malloc (headlen + 1)).2.free false).live = _
        rw [hfr.2.1, hf.2.1, ok1.2.1]
        have := h.acct
        simp only [Bool.false_eq_true, if_false]
        omega
      · intro _ _ _
        show w.m.refusals < (((w.m.malloc httpCookieSize).2.malloc (headlen + 1)).2.free false).refusals
        rw [hfr.1, hf.1, ok1.1]
        omega
    | true =>
      have ok2 := malloc_ok hm2
      have hi2 := httpW2_inv h headlen hm1 hm2
      have hst2 : Step w.m (httpW2 w headlen none).m := hs1.trans hs2
      have href2 : (httpW2 w headlen none).m.refusals = w.m.refusals := by
        show ((w.m.malloc httpCookieSize).2.malloc (headlen + 1)).2.refusals = _
        rw [ok2.1, ok1.1]
      obtain ⟨t2, t3, t4, t5⟩ := httpTail_spec (w2 := httpW2 w headlen none) (c0 := w.m.n) (hd := w.m.n + 1)
        (ho := none) (rest := w.https) hi2 rfl addrs s
      rw [httpRequest_eq_tail addrs headlen s hm1 hm2]
      refine ⟨?_, hst2.trans t2, ?_, ?_, ?_, ?_⟩
      · cases ho : (httpTail (httpW2 w headlen none) w.m.n (w.m.n + 1) addrs s).1 with
        | none => exact (t3 ho).1 rfl
        | some x => exact (t4 x ho).1
      · intro hn
        obtain ⟨_, _, u1, u2, u3, u4, _⟩ := t3 hn
        refine ⟨?_, u2, u3, u4⟩
        rw [u1]
        show eraseId (eraseId (⟨w.m.n + 1, .httpHead, headlen + 1⟩ :: ⟨w.m.n, .httpCookie, httpCookieSize⟩ :: w.live)
          (w.m.n + 1)) w.m.n = w.live
        simp [eraseId]
      · intro x hx
        obtain ⟨_, rfl, c, u1, u2, u3⟩ := t4 x hx
        exact ⟨w.m.n + 1, c, u1, u2, u3.trans href2⟩
      · intro hne
        exact t5 (by rw [href2]; exact hne)
      · intro hn hp ht
        rw [← href2]
        exact (t3 hn).2.2.2.2.2.2 hp ht

/-! ## `https_request` -/

/-- the world after `https_request`'s `strdup(hostname)` was granted: the copy is allocated, and (so far) owned by
the caller only -/
def httpsW1 (w : World) (hostlen : Nat) : World :=
  { w with m := (w.m.malloc (hostlen + 1)).2, live := ⟨w.m.n, .httpsHost, hostlen + 1⟩ :: w.live }

theorem httpsRequest_eq_fail0 {w : World} (addrs : List Connect.AddrOutcome) (headlen s hostlen : Nat)
    (hm : (w.m.malloc (hostlen + 1)).1 = false) :
    httpsRequest w addrs headlen s hostlen = (none, { w with m := (w.m.malloc (hostlen + 1)).2 }) := by
  unfold httpsRequest
  rw [alloc_eq_none hm]

theorem httpsRequest_eq_next {w : World} (addrs : List Connect.AddrOutcome) (headlen s hostlen : Nat)
    (hm : (w.m.malloc (hostlen + 1)).1 = true) :
    httpsRequest w addrs headlen s hostlen =
      match httpRequest2 (httpsW1 w hostlen) addrs headlen s (some w.m.n) with
      | (some h, w2) => (some h, w2)
      | (none, w2) => (none, release w2 w.m.n) := by
  unfold httpsRequest
  rw [alloc_eq_some hm]
  rfl

/-- **the ownership rule**: when `http_request2` fails, the caller's host name is still allocated — none of the
ladder's rungs has freed it — so `https_request`'s `free(sslhost)` is the one and only release of that block -/
theorem httpRequest2_failure_keeps_host (w : World) (addrs : List Connect.AddrOutcome) (headlen s hostlen : Nat)
    (h : Inv0 w) (hm : (w.m.malloc (hostlen + 1)).1 = true)
    (hf : (httpRequest2 (httpsW1 w hostlen) addrs headlen s (some w.m.n)).1 = none) :
    findId (httpRequest2 (httpsW1 w hostlen) addrs headlen s (some w.m.n)).2.live w.m.n ≠ none ∧
    (httpRequest2 (httpsW1 w hostlen) addrs headlen s (some w.m.n)).2.bad = w.bad := by
  have ok0 := malloc_ok hm
  have hn1 : (httpsW1 w hostlen).m.n = w.m.n + 1 := ok0.2.2.2
  cases hm1 : ((httpsW1 w hostlen).m.malloc httpCookieSize).1 with
  | false =>
    rw [httpRequest2_eq_fail1 addrs headlen s _ hm1]
    refine ⟨?_, rfl⟩
    show findId (⟨w.m.n, .httpsHost, hostlen + 1⟩ :: w.live) w.m.n ≠ none
    simp [findId]
  | true =>
    cases hm2 : (((httpsW1 w hostlen).m.malloc httpCookieSize).2.malloc (headlen + 1)).1 with
    | false =>
      rw [httpRequest2_eq_fail2 addrs headlen s _ hm1 hm2]
      have hfind : findId (⟨(httpsW1 w hostlen).m.n, .httpCookie, httpCookieSize⟩ :: (httpsW1 w hostlen).live)
          (httpsW1 w hostlen).m.n = some ⟨(httpsW1 w hostlen).m.n, .httpCookie, httpCookieSize⟩ := by simp [findId]
      simp only [release, hfind, eraseId, beq_self_eq_true, if_true]
      refine ⟨?_, rfl⟩
      show findId (⟨w.m.n, .httpsHost, hostlen + 1⟩ :: w.live) w.m.n ≠ none
      simp [findId]
    | true =>
      have hi2 := httpsW2_inv h headlen hostlen hm hm1 hm2
      rw [httpRequest2_eq_tail addrs headlen s _ hm1 hm2] at hf ⊢
      obtain ⟨_, t3, _, _⟩ := httpTail_spec (w2 := httpW2 (httpsW1 w hostlen) headlen (some w.m.n))
        (c0 := (httpsW1 w hostlen).m.n) (hd := (httpsW1 w hostlen).m.n + 1) (ho := some w.m.n) (rest := w.https)
        hi2 rfl addrs s
      obtain ⟨_, u0, _, _, _, u4, _⟩ := t3 hf
      exact ⟨(u0 w.m.n rfl).2.2, u4.trans hi2.bad0 |>.trans h.bad0.symm⟩

/-- `https_request` while connecting: whether it succeeds or fails, under every oracle -/
theorem httpsRequest_spec (w : World) (addrs : List Connect.AddrOutcome) (headlen s hostlen : Nat) (h : Inv0 w) :
    Inv0 (httpsRequest w addrs headlen s hostlen).2 ∧ Step w.m (httpsRequest w addrs headlen s hostlen).2.m ∧
    ((httpsRequest w addrs headlen s hostlen).1 = none → Same w (httpsRequest w addrs headlen s hostlen).2) ∧
    (∀ x, (httpsRequest w addrs headlen s hostlen).1 = some x → ∃ sh hd c,
        (httpsRequest w addrs headlen s hostlen).2.live =
          ⟨c, .connCookie, connCookieSize⟩ :: ⟨hd, .httpHead, headlen + 1⟩ :: ⟨x, .httpCookie, httpCookieSize⟩ ::
            ⟨sh, .httpsHost, hostlen + 1⟩ :: w.live ∧
        tables (httpsRequest w addrs headlen s hostlen).2 =
          { tables w with https := ⟨x, hd, some c, some sh⟩ :: w.https, conns := connEntry c addrs none s :: w.conns } ∧
        (httpsRequest w addrs headlen s hostlen).2.m.refusals = w.m.refusals) ∧
    ((httpsRequest w addrs headlen s hostlen).2.m.refusals ≠ w.m.refusals → (httpsRequest w addrs headlen s hostlen).1 = none) ∧
    ((httpsRequest w addrs headlen s hostlen).1 = none →
        (skipFailNow addrs ≠ [] → ¬ netRegistered w.ev s true ∧ 24 * (s + 1) ≤ EArray.SIZE_MAX) →
        w.ev.timers.length < 2^32 → w.m.refusals < (httpsRequest w addrs headlen s hostlen).2.m.refusals) := by
  have hs0 := EvRegTimer.step_malloc w.m (hostlen + 1)
  cases hm0 : (w.m.malloc (hostlen + 1)).1 with
  | false =>
    -- err0: the strdup was refused
    have hf := malloc_fail hm0
    rw [httpsRequest_eq_fail0 addrs headlen s hostlen hm0]
    refine ⟨inv0_mem h _ hs0.n hf.2.1, hs0, fun _ => ⟨rfl, rfl, rfl, rfl⟩, fun c hc => (by cases hc), fun _ => rfl,
      fun _ _ _ => (by show w.m.refusals < (w.m.malloc (hostlen + 1)).2.refusals; rw [hf.1]; omega)⟩
  | true =>
    have ok0 := malloc_ok hm0
    rw [httpsRequest_eq_next addrs headlen s hostlen hm0]
    have hfindh : ∀ l : List Block, findId (⟨w.m.n, .httpsHost, hostlen + 1⟩ :: l) w.m.n =
        some ⟨w.m.n, .httpsHost, hostlen + 1⟩ := fun l => by simp [findId]
    have hs1 := EvRegTimer.step_malloc (httpsW1 w hostlen).m httpCookieSize
    cases hm1 : ((httpsW1 w hostlen).m.malloc httpCookieSize).1 with
    | false =>
      -- http_request2's err0, then err1 of https_request: free(sslhost)
      have hf := malloc_fail hm1
      rw [httpRequest2_eq_fail1 addrs headlen s _ hm1]
      have hfr := free_facts ((httpsW1 w hostlen).m.malloc httpCookieSize).2 false
      simp only [Bool.false_eq_true, if_false] at hfr
      have hst : Step w.m (((httpsW1 w hostlen).m.malloc httpCookieSize).2.free false) :=
        (hs0.trans hs1).trans (EvRegTimer.step_free _ _)
      simp only [release, httpsW1, hfindh, eraseId, beq_self_eq_true, if_true]
      refine ⟨?_, hst, fun _ => ⟨rfl, rfl, rfl, rfl⟩, fun c hc => (by cases hc), fun _ => trivial, ?_⟩
      · refine inv0_frame h (evOk_step h.ev hst.n) rfl hst.n rfl rfl rfl rfl rfl rfl ?_
        show (((httpsW1 w hostlen).m.malloc httpCookieSize).2.free false).live = _
        rw [hfr.2.1, hf.2.1]
        show (w.m.malloc (hostlen + 1)).2.live - 1 = _
        rw [ok0.2.1]
        have := h.acct
        dsimp only
        omega
      · intro _ _ _
        show w.m.refusals < (((httpsW1 w hostlen).m.malloc httpCookieSize).2.free false).refusals
        rw [hfr.1, hf.1]
        show w.m.refusals < (w.m.malloc (hostlen + 1)).2.refusals + 1
        rw [ok0.1]
        omega
    | true =>
      have ok1 := malloc_ok hm1
      have hs2 := EvRegTimer.step_malloc ((httpsW1 w hostlen).m.malloc httpCookieSize).2 (headlen + 1)
      cases hm2 : (((httpsW1 w hostlen).m.malloc httpCookieSize).2.malloc (headlen + 1)).1 with
      | false =>
        -- http_request2's err1: free(H); then free(sslhost)
        have hf := malloc_fail hm2
        rw [httpRequest2_eq_fail2 addrs headlen s _ hm1 hm2]
        have hfind : ∀ l : List Block, findId (⟨(httpsW1 w hostlen).m.n, .httpCookie, httpCookieSize⟩ :: l)
            (httpsW1 w hostlen).m.n = some ⟨(httpsW1 w hostlen).m.n, .httpCookie, httpCookieSize⟩ := fun l => by simp [findId]
        have hfr1 := free_facts (((httpsW1 w hostlen).m.malloc httpCookieSize).2.malloc (headlen + 1)).2 false
        have hfr2 := free_facts ((((httpsW1 w hostlen).m.malloc httpCookieSize).2.malloc (headlen + 1)).2.free false) false
        simp only [Bool.false_eq_true, if_false] at hfr1 hfr2
        have hst : Step w.m (((((httpsW1 w hostlen).m.malloc httpCookieSize).2.malloc (headlen + 1)).2.free false).free false) :=
          (((hs0.trans hs1).trans hs2).trans (EvRegTimer.step_free _ _)).trans (EvRegTimer.step_free _ _)
        simp only [release, hfind, eraseId, beq_self_eq_true, if_true]
        simp only [httpsW1, hfindh, eraseId, beq_self_eq_true, if_true]
        refine ⟨?_, hst, fun _ => ⟨rfl, rfl, rfl, rfl⟩, fun c hc => (by cases hc), fun _ => trivial, ?_⟩
        · refine inv0_frame h (evOk_step h.ev hst.n) rfl hst.n rfl rfl rfl rfl rfl rfl ?_
          show (((((httpsW1 w hostlen).m.malloc httpCookieSize).2.malloc (headlen + 1)).2.free false).free false).live = _
          rw [hfr2.2.1, hfr1.2.1, hf.2.1, ok1.2.1]
          show (w.m.malloc (hostlen + 1)).2.live + 1 - 1 - 1 = _
          rw [ok0.2.1]
          have := h.acct
          dsimp only
          omega
        · intro _ _ _
          show w.m.refusals <
            (((((httpsW1 w hostlen).m.malloc httpCookieSize).2.malloc (headlen + 1)).2.free false).free false).refusals
          rw [hfr2.1, hfr1.1, hf.1, ok1.1]
          show w.m.refusals < (w.m.malloc (hostlen + 1)).2.refusals + 1
          rw [ok0.1]
          omega
      | true =>
        have ok2 := malloc_ok hm2
        have hi2 := httpsW2_inv h headlen hostlen hm0 hm1 hm2
        have hst2 : Step w.m (httpW2 (httpsW1 w hostlen) headlen (some w.m.n)).m := (hs0.trans hs1).trans hs2
        have href2 : (httpW2 (httpsW1 w hostlen) headlen (some w.m.n)).m.refusals = w.m.refusals := by
          show (((httpsW1 w hostlen).m.malloc httpCookieSize).2.malloc (headlen + 1)).2.refusals = _
          rw [ok2.1, ok1.1]
          exact ok0.1
        obtain ⟨t2, t3, t4, t5⟩ := httpTail_spec (w2 := httpW2 (httpsW1 w hostlen) headlen (some w.m.n))
          (c0 := (httpsW1 w hostlen).m.n) (hd := (httpsW1 w hostlen).m.n + 1) (ho := some w.m.n) (rest := w.https)
          hi2 rfl addrs s
        rw [httpRequest2_eq_tail addrs headlen s _ hm1 hm2]
        have hn1 : (httpsW1 w hostlen).m.n = w.m.n + 1 := ok0.2.2.2
        rcases hR : httpTail (httpW2 (httpsW1 w hostlen) headlen (some w.m.n)) (httpsW1 w hostlen).m.n
            ((httpsW1 w hostlen).m.n + 1) addrs s with ⟨o, w4⟩
        rw [hR] at t2 t3 t4 t5
        simp only at t2 t3 t4 t5
        cases o with
        | none =>
          obtain ⟨_, u0, u1, u2, u3, u4, u5⟩ := t3 rfl
          obtain ⟨e1, e2, _⟩ := u0 w.m.n rfl
          have hfr := free_facts w4.m false
          simp only [Bool.false_eq_true, if_false] at hfr
          simp only
          refine ⟨e2, ?_, fun _ => ?_, fun x hx => (by cases hx), fun _ => trivial, ?_⟩
          · rw [e1]
            show Step w.m (w4.m.free false)
            exact (hst2.trans t2).trans (EvRegTimer.step_free _ _)
          · rw [e1]
            refine ⟨?_, u2, u3, u4.trans hi2.bad0 |>.trans h.bad0.symm⟩
            show eraseId w4.live w.m.n = w.live
            rw [u1]
            show eraseId (eraseId (eraseId (⟨(httpsW1 w hostlen).m.n + 1, .httpHead, headlen + 1⟩ ::
              ⟨(httpsW1 w hostlen).m.n, .httpCookie, httpCookieSize⟩ :: ⟨w.m.n, .httpsHost, hostlen + 1⟩ :: w.live)
              ((httpsW1 w hostlen).m.n + 1)) (httpsW1 w hostlen).m.n) w.m.n = w.live
            simp [eraseId]
          · intro _ hp ht
            rw [e1]
            show w.m.refusals < (w4.m.free false).refusals
            rw [hfr.1, ← href2]
            exact u5 hp ht
        | some x =>
          obtain ⟨v0, rfl, c, v1, v2, v3⟩ := t4 x rfl
          simp only
          refine ⟨v0, hst2.trans t2, fun hc => (by cases hc), ?_, fun hne => absurd (v3.trans href2) hne,
            fun hc => (by cases hc)⟩
          intro x hx
          simp only [Option.some.injEq] at hx
          subst hx
          exact ⟨w.m.n, (httpsW1 w hostlen).m.n + 1, c, v1, v2, v3.trans href2⟩

/-! ## `http_request_cancel` -/

/-- the three (two, for plain HTTP) frees of `http_request_cancel` and the table entry goes -/
def httpCancelDrop (w1 : World) (x : Http) : World :=
  httpDrop (match x.host with | some sh => release w1 sh | none => w1) x.cookie x.head

theorem httpCancelDrop_spec {w : World} {x : Http} (h : Inv0 w) (hx : x ∈ w.https) :
    Inv0 (httpCancelDrop w x) ∧ Step w.m (httpCancelDrop w x).m ∧
    tables (httpCancelDrop w x) = { tables w with https := w.https.filter (fun y => y.cookie != x.cookie) } := by
  unfold httpCancelDrop
  cases hs : x.host with
  | none =>
    obtain ⟨d1, d2⟩ := httpDrop_spec h hx hs
    refine ⟨d2, ?_, ?_⟩
    · rw [d1]
      show Step w.m ((w.m.free false).free false)
      exact (EvRegTimer.step_free _ _).trans (EvRegTimer.step_free _ _)
    · rw [d1]
      rfl
  | some sh =>
    obtain ⟨d1, d2⟩ := httpDropCancel_spec h hx hs
    refine ⟨d2, ?_, ?_⟩
    · rw [d1]
      show Step w.m (((w.m.free false).free false).free false)
      exact ((EvRegTimer.step_free _ _).trans (EvRegTimer.step_free _ _)).trans (EvRegTimer.step_free _ _)
    · rw [d1]
      rfl

/-- `http_request_cancel` of a request that is still connecting: cannot fail, under every oracle -/
theorem httpRequestCancel_spec (w : World) (x : Http) (h : Inv0 w) (hx : x ∈ w.https)
    (href : ∀ c, x.conn = some c → ∃ k ∈ w.conns, k.cookie = c) :
    ∃ w', httpRequestCancel w x.cookie = some w' ∧ Inv0 w' ∧ Step w.m w'.m ∧
      tables w' = { tables w with
        https := w.https.filter (fun y => y.cookie != x.cookie),
        conns := match x.conn with
          | some c => w.conns.filter (fun y => y.cookie != c)
          | none => w.conns } := by
  have hfind := find_https h hx
  cases hc : x.conn with
  | none =>
    have e : httpRequestCancel w x.cookie = some (httpCancelDrop w x) := by
      simp only [httpRequestCancel, hfind, hc]
      rfl
    obtain ⟨d1, d2, d3⟩ := httpCancelDrop_spec h hx
    exact ⟨_, e, d1, d2, d3⟩
  | some c =>
    obtain ⟨k, hk, hkc⟩ := href c hc
    subst hkc
    obtain ⟨w1, e1, i1, st1, _, _, t1⟩ := networkConnectCancel_spec w k h hk
    have hht : w1.https = w.https := congrArg Tables.https t1
    have hx1 : x ∈ w1.https := by rw [hht]; exact hx
    have e : httpRequestCancel w x.cookie = some (httpCancelDrop w1 x) := by
      simp only [httpRequestCancel, hfind, hc, e1]
      rfl
    obtain ⟨d1, d2, d3⟩ := httpCancelDrop_spec i1 hx1
    refine ⟨_, e, d1, st1.trans d2, ?_⟩
    rw [d3, t1, hht]

/- Unfinished: nothing.  `httpRequest_spec`, `httpsRequest_spec`, `httpRequest2_failure_keeps_host` and
`httpRequestCancel_spec` are proved exactly as stated. -/

end Percival.Proofs.AllocFailUpper
