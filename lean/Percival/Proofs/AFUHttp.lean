import Percival.Proofs.AFUNetIO
import Percival.Proofs.AFUConnect
/-!
# C14, upper layers: the set-up ladder of `http_request` and `http_request_cancel` while connecting

`httpRequest_spec` and `httpRequestCancel_spec` in the style of `networkAccept_spec` / `networkAcceptCancel_spec`.
The ladder is cut into named pieces so that every path is a small lemma:

* `httpW2 w headlen` — the world after the two allocations and the table insertion (`httpW2_inv`: it satisfies `Inv0`);
* `httpTail w2 h hd addrs s` — `network_connect` and what follows (`httpTail_spec`, generic in `w2`);
* `httpDrop w h hd` — `free(H->req_head); free(H);` and the table entry goes (`httpDrop_spec`, shared by err2/err1 of
  `http_request` and by `http_request_cancel`).

Exported helpers: `alloc_eq_some`, `alloc_eq_none`, `inv0_https`, `httpDrop`, `httpDrop_spec`, `httpW2`, `httpW2_inv`,
`httpTail`, `httpTail_spec`, `httpRequest_eq_fail1`, `httpRequest_eq_fail2`, `httpRequest_eq_tail`,
`https_cookie_lt`, `find_https`.
-/
namespace Percival.Proofs.AllocFailUpper
open Percival.Model Percival.Model.EvReg Percival.Model.AllocFail
open Percival.Proofs.EvRegNet (regNet netRegistered NetInv)
open Percival.Proofs.EvRegTimer (regImm regTimers TmInv Step Granted)
open Percival.Proofs.EArray (malloc_ok malloc_fail free_facts)

/-! ## small helpers -/

theorem alloc_eq_some {w : World} {site : Site} {sz : Nat} (hm : (w.m.malloc sz).1 = true) :
    alloc w site sz = (some w.m.n, { w with m := (w.m.malloc sz).2, live := ⟨w.m.n, site, sz⟩ :: w.live }) := by
  unfold alloc
  rcases hq : w.m.malloc sz with ⟨b, m'⟩
  rw [hq] at hm
  simp only at hm
  subst hm
  rfl

theorem alloc_eq_none {w : World} {site : Site} {sz : Nat} (hm : (w.m.malloc sz).1 = false) :
    alloc w site sz = (none, { w with m := (w.m.malloc sz).2 }) := by
  unfold alloc
  rcases hq : w.m.malloc sz with ⟨b, m'⟩
  rw [hq] at hm
  simp only at hm
  subst hm
  rfl

/-- the cookies in the HTTP table are indices of requests already made -/
theorem https_cookie_lt {w : World} (h : Inv0 w) {y : Http} (hy : y ∈ w.https) : y.cookie < w.m.n :=
  expLive_lt h (k := (y.cookie, Site.httpCookie)) (by
    simp only [tables, expLive, List.mem_append, List.mem_flatMap]
    exact Or.inr ⟨y, hy, by simp⟩)

/-- `find?` by cookie in the HTTP table returns the entry -/
theorem find_https {w : World} (h : Inv0 w) {x : Http} (hx : x ∈ w.https) :
    w.https.find? (·.cookie == x.cookie) = some x := by
  have hnd := (tables_nodup h.owns.nodupE).2.2.2.2.2.2
  cases hf : w.https.find? (·.cookie == x.cookie) with
  | none => exact absurd (List.find?_eq_none.1 hf x hx) (by simp)
  | some r =>
    have hr := List.mem_of_find?_eq_some hf
    have hrc : r.cookie = x.cookie := by simpa using List.find?_some hf
    exact congrArg some (eq_of_nodup_map (·.cookie) hnd hr hx hrc)

/-- the HTTP table may change as long as the blocks it accounts for do not (`Inv0` does not read `conn`) -/
theorem inv0_https {w : World} (h : Inv0 w) (l : List Http)
    (hl : expLive { tables w with https := l } = expLive (tables w)) : Inv0 { w with https := l } := by
  obtain ⟨a1, a2, a3, a4, a5, a6, a7, a8, a9, a10, a11, a12⟩ := h
  refine ⟨a1, a2, a3, a4, ?_, a6, a7, a8, a9, a10, a11, a12⟩
  show Owns w.live (expLive { tables w with https := l })
  rw [hl]; exact a5

/-! ## `free(H->req_head); free(H);` and the table entry goes -/

/-- err2 / err1 of `http_request`, and the end of `http_request_cancel` -/
def httpDrop (w : World) (c hd : Nat) : World :=
  { release (release w hd) c with https := (release (release w hd) c).https.filter (·.cookie != c) }

theorem httpDrop_spec {w : World} {x : Http} (h : Inv0 w) (hx : x ∈ w.https) :
    httpDrop w x.cookie x.head =
      { w with m := (w.m.free false).free false, live := eraseId (eraseId w.live x.head) x.cookie,
               https := w.https.filter (fun y => y.cookie != x.cookie) } ∧
    Inv0 (httpDrop w x.cookie x.head) := by
  have hndE := h.owns.nodupE
  have hO : Owns w.live ((x.head, Site.httpHead) :: (x.cookie, Site.httpCookie) ::
      expLive { tables w with https := w.https.filter (fun y => y.cookie != x.cookie) }) :=
    (h.owns.perm (expLive_filter_https hndE hx)).perm (List.Perm.swap _ _ _)
  obtain ⟨bh, hbh, hkh⟩ := List.mem_map.1 (hO.own1 _ List.mem_cons_self)
  obtain ⟨bc, hbc, hkc⟩ := List.mem_map.1 (hO.own1 _ (List.mem_cons_of_mem _ List.mem_cons_self))
  have hidh : bh.id = x.head := congrArg Prod.fst hkh
  have hidc : bc.id = x.cookie := congrArg Prod.fst hkc
  have hne : bc.id ≠ x.head := by
    have := hO.nodupE
    simp only [List.map_cons, List.nodup_cons, List.mem_cons, not_or] at this
    rw [hidc]; exact fun e => this.1.1 e.symm
  have hnl := live_nodup h
  have hO1 : Owns (eraseId w.live x.head) ((x.cookie, Site.httpCookie) ::
      expLive { tables w with https := w.https.filter (fun y => y.cookie != x.cookie) }) := hO.erase hnl
  have hnl1 : ((eraseId w.live x.head).map (·.id)).Nodup := hnl.sublist ((eraseId_sublist _ _).map _)
  have hO2 : Owns (eraseId (eraseId w.live x.head) x.cookie)
      (expLive { tables w with https := w.https.filter (fun y => y.cookie != x.cookie) }) := hO1.erase hnl1
  have hbc1 : bc ∈ eraseId w.live x.head := mem_eraseId_of_ne hbc hne
  have e1 : release w x.head = { w with m := w.m.free false, live := eraseId w.live x.head } := by
    rw [← hidh]; exact release_live hbh
  have e2 : release { w with m := w.m.free false, live := eraseId w.live x.head } x.cookie =
      { w with m := (w.m.free false).free false, live := eraseId (eraseId w.live x.head) x.cookie } := by
    rw [← hidc]; exact release_live (w := { w with m := w.m.free false, live := eraseId w.live x.head }) hbc1
  have heq : httpDrop w x.cookie x.head =
      { w with m := (w.m.free false).free false, live := eraseId (eraseId w.live x.head) x.cookie,
               https := w.https.filter (fun y => y.cookie != x.cookie) } := by
    unfold httpDrop
    rw [e1, e2]
  refine ⟨heq, ?_⟩
  rw [heq]
  obtain ⟨a1, a2, a3, a4, a5, a6, a7, a8, a9, a10, a11, a12⟩ := h
  have hfr1 := free_facts w.m false
  have hfr2 := free_facts (w.m.free false) false
  have hn : ((w.m.free false).free false).n = w.m.n := by rw [hfr2.2.2.2, hfr1.2.2.2]
  have hsub : (eraseId (eraseId w.live x.head) x.cookie).Sublist w.live :=
    (eraseId_sublist _ _).trans (eraseId_sublist _ _)
  refine ⟨evOk_step a1 (Nat.le_of_eq hn.symm), a2, ?_, ?_, hO2, a6, a7, a8, a9, a10, a11, ?_⟩
  · intro b hb
    show b.id < ((w.m.free false).free false).n
    rw [hn]
    rcases List.mem_append.1 hb with hb | hb
    · exact a3 b (List.mem_append_left _ (hsub.subset hb))
    · exact a3 b (List.mem_append_right _ hb)
  · exact a4.sublist ((hsub.append_right _).map _)
  · show ((w.m.free false).free false).live = _
    rw [hfr2.2.1, hfr1.2.1]
    have hl1 : (eraseId w.live x.head).length + 1 = w.live.length := by rw [← hidh]; exact length_eraseId hbh
    have hl2 : (eraseId (eraseId w.live x.head) x.cookie).length + 1 = (eraseId w.live x.head).length := by
      rw [← hidc]; exact length_eraseId hbc1
    simp only [Bool.false_eq_true, if_false]
    omega

/-! ## the ladder of `http_request`, cut into pieces -/

/-- the world after the two allocations and the table insertion -/
def httpW2 (w : World) (headlen : Nat) : World :=
  { w with m := ((w.m.malloc httpCookieSize).2.malloc (headlen + 1)).2,
           live := ⟨w.m.n + 1, .httpHead, headlen + 1⟩ :: ⟨w.m.n, .httpCookie, httpCookieSize⟩ :: w.live,
           https := ⟨w.m.n, w.m.n + 1, none⟩ :: w.https }

/-- "Connect to the target host." and what follows -/
def httpTail (w2 : World) (h hd : Nat) (addrs : List Connect.AddrOutcome) (s : Nat) : Option Nat × World :=
  match networkConnect w2 addrs none s with
  | (some c, w3) =>
    (some h, { w3 with https := w3.https.map (fun x => if x.cookie == h then { x with conn := some c } else x) })
  | (none, w3) => (none, httpDrop w3 h hd)

theorem httpRequest_eq_fail1 {w : World} (addrs : List Connect.AddrOutcome) (headlen s : Nat)
    (hm : (w.m.malloc httpCookieSize).1 = false) :
    httpRequest w addrs headlen s = (none, { w with m := (w.m.malloc httpCookieSize).2 }) := by
  unfold httpRequest
  rw [alloc_eq_none hm]

theorem httpRequest_eq_fail2 {w : World} (addrs : List Connect.AddrOutcome) (headlen s : Nat)
    (hm1 : (w.m.malloc httpCookieSize).1 = true)
    (hm2 : ((w.m.malloc httpCookieSize).2.malloc (headlen + 1)).1 = false) :
    httpRequest w addrs headlen s =
      (none, release { w with m := ((w.m.malloc httpCookieSize).2.malloc (headlen + 1)).2,
                              live := ⟨w.m.n, .httpCookie, httpCookieSize⟩ :: w.live } w.m.n) := by
  unfold httpRequest
  rw [alloc_eq_some hm1]
  simp only
  rw [alloc_eq_none (w := { w with m := (w.m.malloc httpCookieSize).2,
                                   live := ⟨w.m.n, .httpCookie, httpCookieSize⟩ :: w.live }) hm2]

theorem httpRequest_eq_tail {w : World} (addrs : List Connect.AddrOutcome) (headlen s : Nat)
    (hm1 : (w.m.malloc httpCookieSize).1 = true)
    (hm2 : ((w.m.malloc httpCookieSize).2.malloc (headlen + 1)).1 = true) :
    httpRequest w addrs headlen s = httpTail (httpW2 w headlen) w.m.n (w.m.n + 1) addrs s := by
  unfold httpRequest
  rw [alloc_eq_some hm1]
  simp only
  rw [alloc_eq_some (w := { w with m := (w.m.malloc httpCookieSize).2,
                                   live := ⟨w.m.n, .httpCookie, httpCookieSize⟩ :: w.live }) hm2]
  rfl

/-- after the two allocations and the table insertion the invariant holds again -/
theorem httpW2_inv {w : World} (h : Inv0 w) (headlen : Nat) (hm1 : (w.m.malloc httpCookieSize).1 = true)
    (hm2 : ((w.m.malloc httpCookieSize).2.malloc (headlen + 1)).1 = true) : Inv0 (httpW2 w headlen) := by
  have ok1 := malloc_ok hm1
  have ok2 := malloc_ok hm2
  obtain ⟨a1, a2, a3, a4, a5, a6, a7, a8, a9, a10, a11, a12⟩ := h
  have hn : ((w.m.malloc httpCookieSize).2.malloc (headlen + 1)).2.n = w.m.n + 2 := by rw [ok2.2.2.2, ok1.2.2.2]
  have hnew : ∀ i, w.m.n ≤ i → i ∉ (w.live ++ w.cache).map (·.id) := by
    intro i hi hm
    obtain ⟨b, hb, hid⟩ := List.mem_map.1 hm
    have := a3 b hb
    omega
  have hnewl : ∀ i, w.m.n ≤ i → i ∉ w.live.map (·.id) := by
    intro i hi hm
    exact hnew i hi (by rw [List.map_append]; exact List.mem_append_left _ hm)
  unfold httpW2
  refine ⟨evOk_step a1 (by show w.m.n ≤ _; rw [hn]; omega), a2, ?_, ?_, ?_, a6, a7, a8, a9, a10, a11, ?_⟩
  · intro b hb
    show b.id < ((w.m.malloc httpCookieSize).2.malloc (headlen + 1)).2.n
    rw [hn]
    simp only [List.cons_append, List.mem_cons] at hb
    rcases hb with rfl | rfl | hb
    · exact Nat.lt_succ_self _
    · show w.m.n < w.m.n + 2
      omega
    · have := a3 b hb
      omega
  · show ((⟨w.m.n + 1, .httpHead, headlen + 1⟩ :: ⟨w.m.n, .httpCookie, httpCookieSize⟩ :: w.live ++ w.cache).map
        (·.id)).Nodup
    simp only [List.cons_append, List.map_cons, List.nodup_cons, List.mem_cons, not_or]
    exact ⟨⟨by omega, hnew _ (by omega)⟩, hnew _ (Nat.le_refl _), a4⟩
  · have o1 := a5.cons ⟨w.m.n, .httpCookie, httpCookieSize⟩ (hnewl _ (Nat.le_refl _))
    have o2 := o1.cons ⟨w.m.n + 1, .httpHead, headlen + 1⟩ (by
      simp only [List.map_cons, List.mem_cons, not_or]
      exact ⟨by omega, hnewl _ (by omega)⟩)
    exact o2.perm ((List.Perm.swap _ _ _).trans (expLive_cons_https (tables w) ⟨w.m.n, w.m.n + 1, none⟩).symm)
  · show ((w.m.malloc httpCookieSize).2.malloc (headlen + 1)).2.live = _
    rw [ok2.2.1, ok1.2.1]
    simp only [List.length_cons]
    omega

/-- `network_connect` and what follows, in a world where the new request heads the HTTP table -/
theorem httpTail_spec {w2 : World} {c0 hd : Nat} {rest : List Http} (hi : Inv0 w2)
    (hh : w2.https = ⟨c0, hd, none⟩ :: rest) (addrs : List Connect.AddrOutcome) (s : Nat) :
    Inv0 (httpTail w2 c0 hd addrs s).2 ∧ Step w2.m (httpTail w2 c0 hd addrs s).2.m ∧
    ((httpTail w2 c0 hd addrs s).1 = none →
        (httpTail w2 c0 hd addrs s).2.live = eraseId (eraseId w2.live hd) c0 ∧
        tables (httpTail w2 c0 hd addrs s).2 = { tables w2 with https := rest } ∧
        registry (httpTail w2 c0 hd addrs s).2.ev = registry w2.ev ∧
        (httpTail w2 c0 hd addrs s).2.bad = w2.bad ∧
        ((skipFailNow addrs ≠ [] → ¬ netRegistered w2.ev s true ∧ 24 * (s + 1) ≤ EArray.SIZE_MAX) →
          w2.ev.timers.length < 2^32 → w2.m.refusals < (httpTail w2 c0 hd addrs s).2.m.refusals)) ∧
    (∀ x, (httpTail w2 c0 hd addrs s).1 = some x → x = c0 ∧ ∃ c,
        (httpTail w2 c0 hd addrs s).2.live = ⟨c, .connCookie, connCookieSize⟩ :: w2.live ∧
        tables (httpTail w2 c0 hd addrs s).2 =
          { tables w2 with https := ⟨c0, hd, some c⟩ :: rest, conns := connEntry c addrs none s :: w2.conns } ∧
        (httpTail w2 c0 hd addrs s).2.m.refusals = w2.m.refusals) ∧
    ((httpTail w2 c0 hd addrs s).2.m.refusals ≠ w2.m.refusals → (httpTail w2 c0 hd addrs s).1 = none) := by
  have hsp := networkConnect_spec w2 addrs none s hi
  -- no other entry has the new cookie
  have hnot : ∀ y ∈ rest, (y.cookie == c0) = false := by
    have hnd := (tables_nodup hi.owns.nodupE).2.2.2.2.2.2
    simp only [tables, hh, List.map_cons, List.nodup_cons] at hnd
    intro y hy
    have : y.cookie ≠ c0 := fun e => hnd.1 (e ▸ List.mem_map_of_mem (f := (·.cookie)) hy)
    simpa using this
  unfold httpTail
  rcases hnc : networkConnect w2 addrs none s with ⟨o, w3⟩
  rw [hnc] at hsp
  obtain ⟨i3, st3, same3, ok3, ref3, prog3⟩ := hsp
  simp only at i3 st3 same3 ok3 ref3 prog3
  cases o with
  | some c =>
    obtain ⟨l3, t3, r3⟩ := ok3 c rfl
    have hht : w3.https = ⟨c0, hd, none⟩ :: rest := (congrArg Tables.https t3).trans hh
    have hmap : w3.https.map (fun x => if x.cookie == c0 then { x with conn := some c } else x) =
        ⟨c0, hd, some c⟩ :: rest := by
      rw [hht]
      simp only [List.map_cons, beq_self_eq_true, if_true, List.cons.injEq, true_and]
      conv => rhs; rw [← List.map_id rest]
      apply List.map_congr_left
      intro y hy
      simp only [hnot y hy, Bool.false_eq_true, if_false, id]
    simp only
    rw [hmap]
    refine ⟨?_, st3, fun hc => (by cases hc), ?_, fun hne => absurd r3 hne⟩
    · apply inv0_https i3
      simp only [expLive, tables, hht, List.flatMap_cons]
    · intro x hx
      simp only [Option.some.injEq] at hx
      refine ⟨hx.symm, c, l3, ?_, r3⟩
      show ({ tables w3 with https := ⟨c0, hd, some c⟩ :: rest } : Tables) = _
      rw [t3]
  | none =>
    have sm := same3 rfl
    have hht : w3.https = ⟨c0, hd, none⟩ :: rest := (congrArg Tables.https sm.tables).trans hh
    have hx3 : (⟨c0, hd, none⟩ : Http) ∈ w3.https := by rw [hht]; exact List.mem_cons_self
    obtain ⟨d1, d2⟩ := httpDrop_spec i3 hx3
    have hfil : w3.https.filter (fun y => y.cookie != c0) = rest := by
      rw [hht]
      simp only [List.filter_cons, bne_self_eq_false, Bool.false_eq_true, if_false]
      apply List.filter_eq_self.2
      intro y hy
      simp only [bne, hnot y hy, Bool.not_false]
    have d1' : httpDrop w3 c0 hd =
        { w3 with m := (w3.m.free false).free false, live := eraseId (eraseId w3.live hd) c0, https := rest } := by
      rw [← hfil]; exact d1
    have hfr1 := free_facts w3.m false
    have hfr2 := free_facts (w3.m.free false) false
    simp only
    refine ⟨d2, ?_, fun _ => ⟨?_, ?_, ?_, ?_, ?_⟩, fun x hx => (by cases hx), fun _ => trivial⟩
    · rw [d1']
      show Step w2.m ((w3.m.free false).free false)
      exact (st3.trans (EvRegTimer.step_free _ _)).trans (EvRegTimer.step_free _ _)
    · rw [d1']
      show eraseId (eraseId w3.live hd) c0 = _
      rw [sm.live]
    · rw [d1']
      show ({ tables w3 with https := rest } : Tables) = _
      rw [sm.tables]
    · rw [d1']
      exact sm.registry
    · rw [d1']
      exact sm.bad
    · intro hp ht
      rw [d1']
      show w2.m.refusals < ((w3.m.free false).free false).refusals
      rw [hfr2.1, hfr1.1]
      exact prog3 rfl hp ht

/-! ## `http_request` -/

/-- `http_request` while connecting: whether it succeeds or fails, under every oracle -/
theorem httpRequest_spec (w : World) (addrs : List Connect.AddrOutcome) (headlen s : Nat) (h : Inv0 w) :
    Inv0 (httpRequest w addrs headlen s).2 ∧ Step w.m (httpRequest w addrs headlen s).2.m ∧
    ((httpRequest w addrs headlen s).1 = none → Same w (httpRequest w addrs headlen s).2) ∧
    (∀ x, (httpRequest w addrs headlen s).1 = some x → ∃ hd c,
        (httpRequest w addrs headlen s).2.live =
          ⟨c, .connCookie, connCookieSize⟩ :: ⟨hd, .httpHead, headlen + 1⟩ :: ⟨x, .httpCookie, httpCookieSize⟩ :: w.live ∧
        tables (httpRequest w addrs headlen s).2 =
          { tables w with https := ⟨x, hd, some c⟩ :: w.https, conns := connEntry c addrs none s :: w.conns } ∧
        (httpRequest w addrs headlen s).2.m.refusals = w.m.refusals) ∧
    ((httpRequest w addrs headlen s).2.m.refusals ≠ w.m.refusals → (httpRequest w addrs headlen s).1 = none) ∧
    ((httpRequest w addrs headlen s).1 = none →
        (skipFailNow addrs ≠ [] → ¬ netRegistered w.ev s true ∧ 24 * (s + 1) ≤ EArray.SIZE_MAX) →
        w.ev.timers.length < 2^32 → w.m.refusals < (httpRequest w addrs headlen s).2.m.refusals) := by
  have hs1 := EvRegTimer.step_malloc w.m httpCookieSize
  cases hm1 : (w.m.malloc httpCookieSize).1 with
  | false =>
    -- err0
    have hf := malloc_fail hm1
    rw [httpRequest_eq_fail1 addrs headlen s hm1]
    refine ⟨inv0_mem h _ hs1.n hf.2.1, hs1, fun _ => ⟨rfl, rfl, rfl, rfl⟩, fun c hc => (by cases hc), fun _ => rfl,
      fun _ _ _ => (by show w.m.refusals < (w.m.malloc httpCookieSize).2.refusals; rw [hf.1]; omega)⟩
  | true =>
    have ok1 := malloc_ok hm1
    have hs2 := EvRegTimer.step_malloc (w.m.malloc httpCookieSize).2 (headlen + 1)
    cases hm2 : ((w.m.malloc httpCookieSize).2.malloc (headlen + 1)).1 with
    | false =>
      -- err1: free(H)
      have hf := malloc_fail hm2
      rw [httpRequest_eq_fail2 addrs headlen s hm1 hm2]
      have hfind : findId (⟨w.m.n, .httpCookie, httpCookieSize⟩ :: w.live) w.m.n =
          some ⟨w.m.n, .httpCookie, httpCookieSize⟩ := by simp [findId]
      have hfr := free_facts ((w.m.malloc httpCookieSize).2.malloc (headlen + 1)).2 false
      simp only [release, hfind, eraseId, beq_self_eq_true, if_true]
      have hst : Step w.m (((w.m.malloc httpCookieSize).2.malloc (headlen + 1)).2.free false) :=
        (hs1.trans hs2).trans (EvRegTimer.step_free _ _)
      refine ⟨?_, hst, fun _ => ⟨rfl, rfl, rfl, rfl⟩, fun c hc => (by cases hc), fun _ => trivial, ?_⟩
      · refine inv0_frame h (evOk_step h.ev hst.n) rfl hst.n rfl rfl rfl rfl rfl rfl ?_
        show (((w.m.malloc httpCookieSize).2.malloc (headlen + 1)).2.free false).live = _
        rw [hfr.2.1, hf.2.1, ok1.2.1]
        have := h.acct
        simp only [Bool.false_eq_true, if_false]
        omega
      · intro _ _ _
        show w.m.refusals < (((w.m.malloc httpCookieSize).2.malloc (headlen + 1)).2.free false).refusals
        rw [hfr.1, hf.1, ok1.1]
        omega
    | true =>
      have ok2 := malloc_ok hm2
      have hi2 := httpW2_inv h headlen hm1 hm2
      have hst2 : Step w.m (httpW2 w headlen).m := hs1.trans hs2
      have href2 : (httpW2 w headlen).m.refusals = w.m.refusals := by
        show ((w.m.malloc httpCookieSize).2.malloc (headlen + 1)).2.refusals = _
        rw [ok2.1, ok1.1]
      obtain ⟨t1, t2, t3, t4, t5⟩ := httpTail_spec (w2 := httpW2 w headlen) (c0 := w.m.n) (hd := w.m.n + 1)
        (rest := w.https) hi2 rfl addrs s
      rw [httpRequest_eq_tail addrs headlen s hm1 hm2]
      refine ⟨t1, hst2.trans t2, ?_, ?_, ?_, ?_⟩
      · intro hn
        obtain ⟨u1, u2, u3, u4, _⟩ := t3 hn
        refine ⟨?_, u2, u3, u4⟩
        rw [u1]
        show eraseId (eraseId (⟨w.m.n + 1, .httpHead, headlen + 1⟩ :: ⟨w.m.n, .httpCookie, httpCookieSize⟩ :: w.live)
          (w.m.n + 1)) w.m.n = w.live
        simp [eraseId]
      · intro x hx
        obtain ⟨rfl, c, u1, u2, u3⟩ := t4 x hx
        exact ⟨w.m.n + 1, c, u1, u2, u3.trans href2⟩
      · intro hne
        exact t5 (by rw [href2]; exact hne)
      · intro hn hp ht
        rw [← href2]
        exact (t3 hn).2.2.2.2 hp ht

/-! ## `http_request_cancel` -/

/-- `http_request_cancel` of a request that is still connecting: cannot fail, under every oracle -/
theorem httpRequestCancel_spec (w : World) (x : Http) (h : Inv0 w) (hx : x ∈ w.https)
    (href : ∀ c, x.conn = some c → ∃ k ∈ w.conns, k.cookie = c) :
    ∃ w', httpRequestCancel w x.cookie = some w' ∧ Inv0 w' ∧ Step w.m w'.m ∧
      tables w' = { tables w with
        https := w.https.filter (fun y => y.cookie != x.cookie),
        conns := match x.conn with
          | some c => w.conns.filter (fun y => y.cookie != c)
          | none => w.conns } := by
  have hfind := find_https h hx
  cases hc : x.conn with
  | none =>
    have e : httpRequestCancel w x.cookie = some (httpDrop w x.cookie x.head) := by
      simp only [httpRequestCancel, hfind, hc]
      rfl
    obtain ⟨d1, d2⟩ := httpDrop_spec h hx
    refine ⟨_, e, d2, ?_, ?_⟩
    · rw [d1]
      show Step w.m ((w.m.free false).free false)
      exact (EvRegTimer.step_free _ _).trans (EvRegTimer.step_free _ _)
    · rw [d1]
      rfl
  | some c =>
    obtain ⟨k, hk, hkc⟩ := href c hc
    subst hkc
    obtain ⟨w1, e1, i1, st1, _, _, t1⟩ := networkConnectCancel_spec w k h hk
    have hht : w1.https = w.https := congrArg Tables.https t1
    have hx1 : x ∈ w1.https := by rw [hht]; exact hx
    have e : httpRequestCancel w x.cookie = some (httpDrop w1 x.cookie x.head) := by
      simp only [httpRequestCancel, hfind, hc, e1]
      rfl
    obtain ⟨d1, d2⟩ := httpDrop_spec i1 hx1
    refine ⟨_, e, d2, ?_, ?_⟩
    · rw [d1]
      show Step w.m ((w1.m.free false).free false)
      exact (st1.trans (EvRegTimer.step_free _ _)).trans (EvRegTimer.step_free _ _)
    · rw [d1]
      show ({ tables w1 with https := w1.https.filter (fun y => y.cookie != x.cookie) } : Tables) = _
      rw [t1, hht]

/- Unfinished: nothing.  `httpRequest_spec` and `httpRequestCancel_spec` are proved exactly as stated. -/

end Percival.Proofs.AllocFailUpper
