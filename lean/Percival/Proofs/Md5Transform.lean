import Percival.Model.Md5
import Percival.Spec.Md5
import Percival.Proofs.FoldFin
import Percival.Proofs.Words
/-! `Model.Md5.transform` (the C's macro-structured `MD5_Transform`) is RFC 1321's block
processing `Spec.Md5.compress` (helper lemmas for C01 / P2). -/
namespace Percival.Proofs.Md5T
open Percival Percival.Model.Md5
open Percival.Spec (Bytes wordsLE)

/-! ### the C's forms of F, G, H, I are RFC 1321's -/

theorem F_eq (x y z : UInt32) : Model.Md5.F x y z = Spec.Md5.F x y z := by
  unfold Model.Md5.F Spec.Md5.F
  apply UInt32.toBitVec_inj.mp
  simp only [UInt32.toBitVec_xor, UInt32.toBitVec_and, UInt32.toBitVec_or, UInt32.toBitVec_not]
  ext i hi
  simp only [BitVec.getElem_xor, BitVec.getElem_and, BitVec.getElem_or, BitVec.getElem_not]
  cases x.toBitVec[i] <;> cases y.toBitVec[i] <;> cases z.toBitVec[i] <;> rfl

theorem G_eq (x y z : UInt32) : Model.Md5.G x y z = Spec.Md5.G x y z := by
  unfold Model.Md5.G Spec.Md5.G
  apply UInt32.toBitVec_inj.mp
  simp only [UInt32.toBitVec_xor, UInt32.toBitVec_and, UInt32.toBitVec_or, UInt32.toBitVec_not]
  ext i hi
  simp only [BitVec.getElem_xor, BitVec.getElem_and, BitVec.getElem_or, BitVec.getElem_not]
  cases x.toBitVec[i] <;> cases y.toBitVec[i] <;> cases z.toBitVec[i] <;> rfl

theorem H_eq (x y z : UInt32) : Model.Md5.H x y z = Spec.Md5.H x y z := rfl

theorem I_eq (x y z : UInt32) : Model.Md5.I x y z = Spec.Md5.I x y z := UInt32.xor_comm _ _

/-- what the source says about line `i` (macro, word index, shift, constant) is RFC 1321's table -/
theorem tab (i : Fin 64) :
    stepKind[i] = (if i.val < 16 then 0 else if i.val < 32 then 1 else if i.val < 48 then 2 else 3) ∧
    (i.val * (stepIdx stepKind[i]).1 + (stepIdx stepKind[i]).2) % 16 = Spec.Md5.kTable.getD i.val 0 ∧
    stepShift[i] = Spec.Md5.sTable.getD i.val 0 ∧ stepT[i] = Spec.Md5.T.getD i.val 0 ∧
    Spec.Md5.kTable.getD i.val 0 < 16 := by
  revert i; decide

theorem stepF_eq (i : Fin 64) (b c d : UInt32) : stepF stepKind[i] b c d = Spec.Md5.aux i.val b c d := by
  rw [(tab i).1]; unfold Spec.Md5.aux
  split
  · exact F_eq b c d
  · split
    · exact G_eq b c d
    · split
      · rfl
      · exact I_eq b c d

def regsAt (S : Vector UInt32 4) (i : Nat) : Spec.Md5.Regs := ⟨S[slot 64 i], S[slot 65 i], S[slot 66 i], S[slot 67 i]⟩

/-- word `k` of the block, 0 outside -/
def xw (W : Vector UInt32 16) (k : Nat) : UInt32 := if h : k < 16 then W[k] else 0

theorem STEP_spec (kind : Nat) (S : Vector UInt32 4) (a b c d : Fin 4) (x s : UInt32)
    (hba : b ≠ a) (hca : c ≠ a) (hda : d ≠ a) :
    let S' := STEP kind S a b c d x s
    S'[b] = S[b] ∧ S'[c] = S[c] ∧ S'[d] = S[d] ∧
    S'[a] = S[b] + ROTL (S[a] + stepF kind S[b] S[c] S[d] + x) s := by
  simp only [STEP]
  have := Fin.val_ne_of_ne hba
  have := Fin.val_ne_of_ne hba.symm
  have := Fin.val_ne_of_ne hca
  have := Fin.val_ne_of_ne hca.symm
  have := Fin.val_ne_of_ne hda
  have := Fin.val_ne_of_ne hda.symm
  simp [Fin.getElem_fin, *]

theorem slot_succ (n i : Nat) (hi : i < 64) (hn : 64 ≤ n) : slot (n + 1) (i + 1) = slot n i := by
  apply Fin.ext; simp only [slot]; omega

theorem slot_64_succ (i : Nat) (hi : i < 64) : slot 64 (i + 1) = slot 67 i := by
  apply Fin.ext; simp only [slot]; omega

theorem slot_ne (n m i : Nat) (hi : i ≤ 64) (hn : 64 ≤ n) (hm : 64 ≤ m) (hnm : n % 4 ≠ m % 4) :
    slot n i ≠ slot m i := by
  intro h; have := congrArg Fin.val h; simp only [slot] at this; omega

/-- line `i` is operation `i + 1` of RFC 1321 §3.4 -/
theorem STEPr_spec (S : Vector UInt32 4) (W : Vector UInt32 16) (i : Fin 64) :
    regsAt (STEPr S W i) (i.val + 1) =
      Spec.Md5.op (regsAt S i.val) i.val (xw W (Spec.Md5.kTable.getD i.val 0))
        (Spec.Md5.sTable.getD i.val 0) (Spec.Md5.T.getD i.val 0) := by
  have hi : i.val < 64 := i.isLt
  have hi' : i.val ≤ 64 := by omega
  obtain ⟨t1, t2, t3, t4, t5⟩ := tab i
  have hx : W[(i.val * (stepIdx stepKind[i]).1 + (stepIdx stepKind[i]).2) % 16]'(Nat.mod_lt _ (by decide))
      = xw W (Spec.Md5.kTable.getD i.val 0) := by
    simp only [xw, t5, dite_true, t2]
  obtain ⟨hb, hc, hd, ha⟩ := STEP_spec stepKind[i] S (slot 64 i) (slot 65 i) (slot 66 i) (slot 67 i)
    (W[(i.val * (stepIdx stepKind[i]).1 + (stepIdx stepKind[i]).2) % 16]'(Nat.mod_lt _ (by decide)) + stepT[i]) stepShift[i]
    (slot_ne _ _ _ hi' (by omega) (by omega) (by omega)) (slot_ne _ _ _ hi' (by omega) (by omega) (by omega))
    (slot_ne _ _ _ hi' (by omega) (by omega) (by omega))
  simp only [regsAt, Spec.Md5.op, STEPr]
  simp only [slot_64_succ _ hi, slot_succ 64 _ hi (by omega), slot_succ 65 _ hi (by omega), slot_succ 66 _ hi (by omega)]
  rw [ha, hb, hc, hd, stepF_eq, hx, t3, t4]
  simp only [Spec.Md5.Regs.mk.injEq, true_and, and_true]
  show _ + Spec.Md5.rotl _ _ = _ + Spec.Md5.rotl _ _
  congr 2
  ac_rfl

/-! ### the sixty-four lines -/

/-- one entry of the spec's operation table -/
abbrev Entry := (Nat × UInt32 × UInt32) × Nat

def entry (i : Nat) : Entry := ((Spec.Md5.kTable.getD i 0, (Spec.Md5.sTable.getD i 0, Spec.Md5.T.getD i 0)), i)

def specStep (X : List UInt32) (r : Spec.Md5.Regs) (e : Entry) : Spec.Md5.Regs :=
  match X[e.1.1]? with
  | some xk => Spec.Md5.op r e.2 xk e.1.2.1 e.1.2.2
  | none => r

def STEPr' (W : Vector UInt32 16) (S : Vector UInt32 4) (i : Nat) : Vector UInt32 4 :=
  if h : i < 64 then STEPr S W ⟨i, h⟩ else S

theorem fold_STEPr (W : Vector UInt32 16) (X : List UInt32) (hX : ∀ k, k < 16 → X[k]? = some (xw W k))
    (n j : Nat) (S : Vector UInt32 4) (h : j + n ≤ 64) :
    regsAt ((List.range' j n).foldl (STEPr' W) S) (j + n) =
      ((List.range' j n).map entry).foldl (specStep X) (regsAt S j) := by
  induction n generalizing j S with
  | zero => simp
  | succ n ih =>
    simp only [List.range'_succ, List.foldl_cons, List.map_cons]
    have hj : j < 64 := by omega
    have h1 := ih (j + 1) (STEPr' W S j) (by omega)
    rw [show j + 1 + n = j + (n + 1) by omega] at h1
    rw [h1]
    congr 1
    have := STEPr_spec S W ⟨j, hj⟩
    simp only [STEPr', hj, dite_true]
    rw [this]
    simp only [specStep, entry]
    rw [hX _ (tab ⟨j, hj⟩).2.2.2.2]

theorem regsAt_64 (S : Vector UInt32 4) : regsAt S 64 = regsAt S 0 := rfl

theorem mix_spec (S : Vector UInt32 4) (W : Vector UInt32 16) (X : List UInt32)
    (hX : ∀ k, k < 16 → X[k]? = some (xw W k)) :
    regsAt ((List.finRange 64).foldl (fun S i => STEPr S W i) S) 0 =
      ((List.range' 0 64).map entry).foldl (specStep X) (regsAt S 0) := by
  rw [FoldFin.foldl_finRange 64 (fun S i => STEPr S W i) (STEPr' W)
    (by intro s i; simp [STEPr', i.isLt]), ← regsAt_64]
  exact fold_STEPr W X hX 64 0 S (by omega)

theorem table_eq : (Spec.Md5.kTable.zip (Spec.Md5.sTable.zip Spec.Md5.T)).zipIdx = (List.range' 0 64).map entry := by
  decide

theorem rounds_spec (r0 : Spec.Md5.Regs) (X : List UInt32) :
    Spec.Md5.rounds r0 X = ((List.range' 0 64).map entry).foldl (specStep X) r0 := by
  unfold Spec.Md5.rounds
  rw [table_eq]
  rfl

theorem wordsLE_length (b : Bytes) : (wordsLE b).length = b.length / 4 := Words.wordsLE_length b

theorem xw_decodeBlock (block : Bytes) (hb : block.length = 64) (k : Nat) (hk : k < 16) :
    (wordsLE block)[k]? = some (xw (decodeBlock block) k) := by
  have hl : (wordsLE block).length = 16 := by rw [wordsLE_length, hb]
  unfold xw decodeBlock
  simp only [hk, dite_true]
  simp only [Vector.getElem_mk, List.getElem_toArray, List.getElem_take]
  rw [List.getElem_append_left (by omega)]
  exact List.getElem?_eq_getElem (by omega)

end Percival.Proofs.Md5T
