import Percival.Spec.Aes
/-! Shape lemmas about `Spec.Aes` (every well-formed input gives 16-byte blocks / round keys). -/
namespace Percival.Proofs.Aes
open Percival.Spec.Aes

theorem len16 (s : List UInt8) (h : s.length = 16) :
    ∃ a0 a1 a2 a3 a4 a5 a6 a7 a8 a9 a10 a11 a12 a13 a14 a15,
      s = [a0, a1, a2, a3, a4, a5, a6, a7, a8, a9, a10, a11, a12, a13, a14, a15] := by
  match s, h with
  | [a0, a1, a2, a3, a4, a5, a6, a7, a8, a9, a10, a11, a12, a13, a14, a15], _ =>
    exact ⟨_, _, _, _, _, _, _, _, _, _, _, _, _, _, _, _, rfl⟩

theorem len4 (s : List UInt8) (h : s.length = 4) : ∃ a0 a1 a2 a3, s = [a0, a1, a2, a3] := by
  match s, h with
  | [a0, a1, a2, a3], _ => exact ⟨_, _, _, _, rfl⟩

theorem xorBytes_length (a b : List UInt8) : (xorBytes a b).length = min a.length b.length := by
  simp [xorBytes]

theorem subBytes_length (s : List UInt8) : (subBytes s).length = s.length := by simp [subBytes]

theorem shiftRows_length (s : List UInt8) (h : s.length = 16) : (shiftRows s).length = 16 := by
  obtain ⟨a0, a1, a2, a3, a4, a5, a6, a7, a8, a9, a10, a11, a12, a13, a14, a15, rfl⟩ := len16 s h
  rfl

theorem mixColumns_length (s : List UInt8) (h : s.length = 16) : (mixColumns s).length = 16 := by
  obtain ⟨a0, a1, a2, a3, a4, a5, a6, a7, a8, a9, a10, a11, a12, a13, a14, a15, rfl⟩ := len16 s h
  rfl

/-- SubBytes acts bytewise, ShiftRows permutes: they commute -/
theorem shiftRows_subBytes (s : List UInt8) (h : s.length = 16) :
    shiftRows (subBytes s) = subBytes (shiftRows s) := by
  obtain ⟨a0, a1, a2, a3, a4, a5, a6, a7, a8, a9, a10, a11, a12, a13, a14, a15, rfl⟩ := len16 s h
  rfl

theorem round_length (s rk : List UInt8) (hs : s.length = 16) (hk : rk.length = 16) :
    (round s rk).length = 16 := by
  unfold round addRoundKey
  rw [xorBytes_length, mixColumns_length _ (shiftRows_length _ (by rw [subBytes_length]; exact hs)), hk]; rfl

theorem finalRound_length (s rk : List UInt8) (hs : s.length = 16) (hk : rk.length = 16) :
    (finalRound s rk).length = 16 := by
  unfold finalRound addRoundKey
  rw [xorBytes_length, shiftRows_length _ (by rw [subBytes_length]; exact hs), hk]; rfl

theorem rounds_length : ∀ (rks : List (List UInt8)) (s : List UInt8), rks ≠ [] → (∀ rk ∈ rks, rk.length = 16) →
    s.length = 16 → (rounds rks s).length = 16
  | [], _, h, _, _ => absurd rfl h
  | [last], s, _, hk, hs => by
    unfold rounds; exact finalRound_length s last hs (hk last (by simp))
  | rk :: rk2 :: rest, s, _, hk, hs => by
    unfold rounds
    exact rounds_length (rk2 :: rest) _ (by simp) (fun r hr => hk r (by simp [hr]))
      (round_length s rk hs (hk rk (by simp)))

theorem cipher_length (rks : List (List UInt8)) (blk : List UInt8) (h2 : 2 ≤ rks.length)
    (hk : ∀ rk ∈ rks, rk.length = 16) (hb : blk.length = 16) : (cipher rks blk).length = 16 := by
  match rks, h2, hk with
  | rk0 :: rk1 :: rest, _, hk =>
    unfold cipher
    simp only [if_pos hb]
    apply rounds_length _ _ (by simp) (fun r hr => hk r (by simp [hr]))
    unfold addRoundKey
    rw [xorBytes_length, hb, hk rk0 (by simp)]; rfl

/-! ### key schedule shapes -/

theorem chunks_spec (k : Nat) : ∀ (n : Nat) (bs : List UInt8), k * n ≤ bs.length →
    (chunks k n bs).length = n ∧ ∀ c ∈ chunks k n bs, c.length = k
  | 0, _, _ => by simp [chunks]
  | n+1, bs, h => by
    have hk : k ≤ bs.length := by
      have : k * (n + 1) = k * n + k := by rw [Nat.mul_succ]
      omega
    have ih := chunks_spec k n (bs.drop k) (by
      rw [List.length_drop]
      have : k * (n + 1) = k * n + k := by rw [Nat.mul_succ]
      omega)
    unfold chunks
    refine ⟨by simp [ih.1], ?_⟩
    intro c hc
    rcases List.mem_cons.mp hc with rfl | hc
    · rw [List.length_take]; omega
    · exact ih.2 c hc

theorem rotWord_length (w : List UInt8) (h : w.length = 4) : (rotWord w).length = 4 := by
  obtain ⟨a0, a1, a2, a3, rfl⟩ := len4 w h; rfl

theorem nextWord_length (nk i : Nat) (prev back : List UInt8) (hp : prev.length = 4) (hb : back.length = 4) :
    (nextWord nk i prev back).length = 4 := by
  unfold nextWord
  simp only []
  rw [xorBytes_length, hb]
  split
  · rw [xorBytes_length]; simp [subWord, rotWord_length _ hp, rcon]
  · split
    · simp [subWord, hp]
    · simp [hp]

theorem expandLoop_spec (nk : Nat) : ∀ (n i : Nat) (window : List (List UInt8)), window ≠ [] →
    (∀ w ∈ window, w.length = 4) →
    (expandLoop nk n i window).length = n ∧ ∀ w ∈ expandLoop nk n i window, w.length = 4
  | 0, _, _, _, _ => by simp [expandLoop]
  | n+1, i, window, hne, hw => by
    match window, hne, hw with
    | back :: rest, _, hw =>
      have hlast : ∃ prev, (back :: rest).getLast? = some prev ∧ prev ∈ back :: rest := by
        have := List.getLast?_isSome.mpr (show back :: rest ≠ [] by simp)
        obtain ⟨p, hp⟩ := Option.isSome_iff_exists.mp this
        exact ⟨p, hp, List.mem_of_getLast? hp⟩
      obtain ⟨prev, hprev, hmem⟩ := hlast
      unfold expandLoop
      rw [hprev]
      simp only []
      have hnw := nextWord_length nk i prev back (hw prev hmem) (hw back (by simp))
      have ih := expandLoop_spec nk n (i + 1) (rest ++ [nextWord nk i prev back]) (by simp)
        (by
          intro w hwm
          rcases List.mem_append.mp hwm with h | h
          · exact hw w (by simp [h])
          · simp at h; rw [h]; exact hnw)
      refine ⟨by simp [ih.1], ?_⟩
      intro w hwm
      rcases List.mem_cons.mp hwm with rfl | h
      · exact hnw
      · exact ih.2 w h

theorem flatten_length_of_all (k : Nat) : ∀ (ws : List (List UInt8)), (∀ w ∈ ws, w.length = k) →
    ws.flatten.length = k * ws.length
  | [], _ => by simp
  | w :: ws, h => by
    rw [List.flatten_cons, List.length_append, h w (by simp),
      flatten_length_of_all k ws (fun x hx => h x (by simp [hx])), List.length_cons, Nat.mul_succ]
    omega

/-- the key schedule has `Nr+1` round keys of 16 bytes -/
theorem keyExpansion_spec (key : List UInt8) (h : key.length = 16 ∨ key.length = 32) :
    (keyExpansion key).length = key.length / 4 + 7 ∧ ∀ rk ∈ keyExpansion key, rk.length = 16 := by
  unfold keyExpansion
  rw [if_pos h]
  simp only []
  have hnk : 1 ≤ key.length / 4 := by omega
  have hw0 := chunks_spec 4 (key.length / 4) key (by omega)
  have hne : chunks 4 (key.length / 4) key ≠ [] := by
    intro hc; have := hw0.1; rw [hc] at this; simp at this; omega
  have hex := expandLoop_spec (key.length / 4) (4 * (key.length / 4 + 6 + 1) - key.length / 4) (key.length / 4)
    (chunks 4 (key.length / 4) key) hne hw0.2
  have hall : ∀ w ∈ keyWords key, w.length = 4 := by
    unfold keyWords
    intro w hw
    rcases List.mem_append.mp hw with h1 | h1
    · exact hw0.2 w h1
    · exact hex.2 w h1
  have hcount : (keyWords key).length = 4 * (key.length / 4 + 6 + 1) := by
    unfold keyWords
    simp only [List.length_append, hw0.1, hex.1]
    omega
  have hflat := flatten_length_of_all 4 (keyWords key) hall
  have := chunks_spec 16 (key.length / 4 + 6 + 1) (keyWords key).flatten (by rw [hflat, hcount]; omega)
  exact ⟨by rw [this.1], this.2⟩

/-- AES-128/256 encryption maps 16-byte blocks to 16-byte blocks -/
theorem encryptBlock_length (key blk : List UInt8) (h : key.length = 16 ∨ key.length = 32)
    (hb : blk.length = 16) : (encryptBlock key blk).length = 16 := by
  have := keyExpansion_spec key h
  exact cipher_length _ _ (by rw [this.1]; omega) this.2 hb

end Percival.Proofs.Aes
