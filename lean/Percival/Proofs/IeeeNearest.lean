import Percival.Proofs.IeeeRound
/-! C16: the multiple of `2^e` that `roundPos` picks is the nearest-even finite number of the format; the
    overflow and tininess tests are the thresholds of `Spec/Ieee.lean`. -/
namespace Percival.Proofs.Ieee
open Percival.Model.Strtod Percival.Proofs.IeeeArith Percival.Spec.Ieee

/-- the facts about a positive `q` delivered by `roundPos_spec` -/
structure Ctx (f : Format) (q : Rat) (e0 : Int) (m : Nat) : Prop where
  hp : 2 ≤ f.p
  n1 : 2 ^ ((f.p : Int) - 1) * 2 ^ e0 ≤ q
  n2 : q < 2 ^ (f.p : Int) * 2 ^ e0
  hm : NearestInt q (2 ^ clampE f e0) m

theorem clampE_ge (f : Format) (e0 : Int) : f.qmin ≤ clampE f e0 := by unfold clampE; split <;> omega
theorem clampE_le (f : Format) (e0 : Int) : e0 ≤ clampE f e0 := by unfold clampE; split <;> omega
theorem pP (p : Nat) : ((2 ^ p : Nat) : Rat) = 2 ^ (p : Int) := (p2_nat _).symm

namespace Ctx
variable {f : Format} {q : Rat} {e0 : Int} {m : Nat} (c : Ctx f q e0 m)
include c


theorem q_pos : 0 < q := by
  have := Rat.mul_pos (p2_pos ((f.p : Int) - 1)) (p2_pos e0)
  have := c.n1
  grind

theorem lt_top : q < 2 ^ (f.p : Int) * 2 ^ clampE f e0 := by
  have h := Rat.mul_le_mul_of_nonneg_left (p2_le (clampE_le f e0)) (Rat.le_of_lt (p2_pos (f.p : Int)))
  have := c.n2
  grind

theorem normal (h : f.qmin < clampE f e0) : 2 ^ ((f.p : Int) - 1) * 2 ^ clampE f e0 ≤ q := by
  have : clampE f e0 = e0 := by unfold clampE at h ⊢; split <;> simp_all
  rw [this]; exact c.n1

theorem m_le : m ≤ 2 ^ f.p := by
  apply Classical.byContradiction; intro h
  have h' : 2 ^ f.p < m := by omega
  have h1 := mul_u_le (natCast_succ_le h') (p2_pos (clampE f e0))
  rw [pP] at h1
  have := c.hm.lo; have := c.lt_top; have := p2_pos (clampE f e0)
  grind

theorem m_ge (h : f.qmin < clampE f e0) : 2 ^ (f.p - 1) ≤ m := by
  apply Classical.byContradiction; intro h'
  have h' : m < 2 ^ (f.p - 1) := by omega
  have h1 := mul_u_le (natCast_succ_le h') (p2_pos (clampE f e0))
  rw [p2_pred _ (by have := c.hp; omega)] at h1
  have := c.hm.hi; have := c.normal h; have := p2_pos (clampE f e0)
  grind

/-- a representable magnitude `y = c'·2^k` is no nearer to `q` than `m·2^e`; if it is as near and different, `m` is even -/
theorem mag_far (c' : Nat) (k : Int) (hc : c' < 2 ^ f.p) (hk : f.qmin ≤ k) :
    (q - m * 2 ^ clampE f e0).abs ≤ (q - c' * 2 ^ k).abs ∧
    ((c' : Rat) * 2 ^ k ≠ m * 2 ^ clampE f e0 → (q - c' * 2 ^ k).abs = (q - m * 2 ^ clampE f e0).abs → m % 2 = 0) := by
  have hu := p2_pos (clampE f e0)
  by_cases hke : clampE f e0 ≤ k
  · -- a multiple of `2^e`
    have hy : (c' : Rat) * 2 ^ k = ((c' * 2 ^ (k - clampE f e0).toNat : Nat) : Rat) * 2 ^ clampE f e0 := by
      rw [Rat.natCast_mul, ← p2_nat, Int.toNat_of_nonneg (by omega), Rat.mul_assoc, p2_sub]
    rw [hy]
    refine ⟨nearestInt_le c.hm hu _, fun hne heq => nearestInt_tie c.hm hu _ ?_ heq⟩
    intro h; apply hne; rw [h]
  · -- below the binade of `q`
    have hke : k < clampE f e0 := by omega
    have hn := c.normal (by omega)
    have h1 := nearestInt_le c.hm hu (2 ^ (f.p - 1))
    rw [p2_pred _ (by have := c.hp; omega)] at h1
    have hy : (c' : Rat) * 2 ^ k < 2 ^ ((f.p : Int) - 1) * 2 ^ clampE f e0 := by
      have a1 := mul_u_le (natCast_succ_le hc) (p2_pos k)
      rw [pP] at a1
      have a2 := Rat.mul_le_mul_of_nonneg_left (p2_le (show k ≤ clampE f e0 - 1 by omega)) (Rat.le_of_lt (p2_pos (f.p : Int)))
      have a3 : (2 : Rat) ^ (f.p : Int) * 2 ^ (clampE f e0 - 1) = 2 ^ ((f.p : Int) - 1) * 2 ^ clampE f e0 := by
        rw [← p2_add, ← p2_add]; congr 1; omega
      have := p2_pos k
      grind
    have hc1 := abs_cases (q - 2 ^ ((f.p : Int) - 1) * 2 ^ clampE f e0)
    have hc2 := abs_cases (q - c' * 2 ^ k)
    constructor
    · grind
    · intro _ heq; exfalso; grind


/-- a finite number `d'` of the format is no nearer to `q` than `m·2^e`; if it is as near and different, `m` is even -/
theorem finite_far (d' : Rat) (hd : f.Finite d') :
    (q - m * 2 ^ clampE f e0).abs ≤ (q - d').abs ∧
    (d' ≠ m * 2 ^ clampE f e0 → (q - d').abs = (q - m * 2 ^ clampE f e0).abs → m % 2 = 0) := by
  obtain ⟨c', k, hc, hk1, _, hv⟩ := hd
  rcases abs_cases d' with ⟨_, ha⟩ | ⟨hneg, ha⟩
  · rw [ha] at hv; rw [hv]; exact c.mag_far c' k hc hk1
  · have h0 := nearestInt_le c.hm (p2_pos (clampE f e0)) 0
    have hq := c.q_pos
    have hc1 := abs_cases (q - ((0 : Nat) : Rat) * 2 ^ clampE f e0)
    have hc2 := abs_cases (q - d')
    simp only [Rat.natCast_ofNat, Rat.zero_mul] at h0 hc1
    constructor
    · grind
    · intro _ heq; exfalso; grind

/-- significand and exponent of the result after a possible carry -/
def resM (f : Format) (m : Nat) : Nat := if m = 2 ^ f.p then 2 ^ (f.p - 1) else m
def resE (f : Format) (e0 : Int) (m : Nat) : Int := if m = 2 ^ f.p then clampE f e0 + 1 else clampE f e0

omit c in
theorem res_val (hp : 1 ≤ f.p) : (resM f m : Rat) * 2 ^ resE f e0 m = m * 2 ^ clampE f e0 := by
  unfold resM resE
  split
  · next h =>
    rw [h, p2_pred _ hp, pP, ← p2_add, ← p2_add]; congr 1; omega
  · rfl

theorem resM_lt : resM f m < 2 ^ f.p := by
  unfold resM
  have := c.m_le
  split
  · exact Nat.pow_lt_pow_right (by omega) (by have := c.hp; omega)
  · omega

theorem res_canonical : resE f e0 m = f.qmin ∨ 2 ^ (f.p - 1) ≤ resM f m := by
  unfold resM resE
  split
  · right; exact Nat.le_refl _
  · by_cases h : f.qmin < clampE f e0
    · right; exact c.m_ge h
    · left; have := clampE_ge f e0; omega

theorem resM_even (h : m % 2 = 0) : resM f m % 2 = 0 := by
  unfold resM
  split
  · have : f.p - 1 = (f.p - 2) + 1 := by have := c.hp; omega
    rw [this, Nat.pow_succ]; omega
  · exact h

omit c in
theorem res_nonneg : (0 : Rat) ≤ m * 2 ^ clampE f e0 :=
  Rat.mul_nonneg Rat.natCast_nonneg (Rat.le_of_lt (p2_pos _))

/-- if the result exponent is in range, `m·2^e` is the nearest-even finite number -/
theorem nearestEven (hov : resE f e0 m ≤ f.qmax) : IsNearestEven f q (m * 2 ^ clampE f e0) := by
  have hp1 : 1 ≤ f.p := by have := c.hp; omega
  have hE : f.qmin ≤ resE f e0 m := by unfold resE; have := clampE_ge f e0; split <;> omega
  have habs : ((m : Rat) * 2 ^ clampE f e0).abs = (resM f m : Rat) * 2 ^ resE f e0 m := by
    rw [Rat.abs_of_nonneg res_nonneg, res_val hp1]
  refine ⟨⟨resM f m, resE f e0 m, c.resM_lt, hE, hov, habs⟩, fun d' hd => (c.finite_far d' hd).1, ?_⟩
  intro d' hd hne heq
  have hev := (c.finite_far d' hd).2 hne heq
  exact ⟨resM f m, resE f e0 m, c.resM_lt, hE, hov, habs, c.res_canonical, c.resM_even hev⟩

end Ctx

/-! ### thresholds -/

theorem p2_neg_one : (2 : Rat) ^ (-1 : Int) = 1 / 2 := by decide +kernel

theorem overflowAt_eq (f : Format) : f.overflowAt = (2 ^ (f.p : Int) - 1 / 2) * 2 ^ f.qmax := by
  unfold Format.overflowAt Format.qmax
  have e1 : (2 : Rat) ^ f.emax = 2 ^ ((f.p : Int) - 1) * 2 ^ (f.emax - ((f.p : Int) - 1)) := by
    rw [← p2_add]; congr 1; omega
  have e2 : (2 : Rat) ^ ((f.p : Int) - 1) * 2 ^ (-(f.p : Int)) = 1 / 2 := by
    rw [← p2_add, ← p2_neg_one]; congr 1; omega
  have e3 : (2 : Rat) ^ ((f.p : Int) - 1) * 2 = 2 ^ (f.p : Int) := by
    rw [Rat.mul_comm, ← p2_succ]; congr 1; omega
  rw [e1]
  generalize (2 : Rat) ^ (f.emax - ((f.p : Int) - 1)) = U at *
  grind

theorem tinyBelow_eq (f : Format) : f.tinyBelow = (2 ^ (f.p : Int) - 1 / 2) * 2 ^ (f.qmin - 1) := by
  unfold Format.tinyBelow Format.qmin
  have e1 : (2 : Rat) ^ f.emin = 2 ^ (f.p : Int) * 2 ^ (f.emin - ((f.p : Int) - 1) - 1) := by
    rw [← p2_add]; congr 1; omega
  have e2 : (2 : Rat) ^ (f.p : Int) * 2 ^ (-((f.p : Int) + 1)) = 1 / 2 := by
    rw [← p2_add, ← p2_neg_one]; congr 1; omega
  rw [e1]
  generalize (2 : Rat) ^ (f.emin - ((f.p : Int) - 1) - 1) = V at *
  grind

/-- rounding carries into the next binade exactly from half an ulp below it on -/
theorem carry_iff {q u : Rat} {m p : Nat} (h : NearestInt q u m) (hu : 0 < u) (hp : 1 ≤ p)
    (htop : q < 2 ^ (p : Int) * u) : m = 2 ^ p ↔ (2 ^ (p : Int) - 1 / 2) * u ≤ q := by
  constructor
  · intro hm
    have := h.lo
    rw [hm, pP] at this
    grind
  · intro hq
    -- m ≤ 2^p
    have hle : m ≤ 2 ^ p := by
      apply Classical.byContradiction; intro hc
      have h1 := mul_u_le (natCast_succ_le (show 2 ^ p < m by omega)) hu
      rw [pP] at h1
      have := h.lo
      grind
    -- m ≥ 2^p - 1, and 2^p - 1 is odd
    apply Classical.byContradiction; intro hne
    have hlt : m < 2 ^ p := by omega
    have h1 := mul_u_le (natCast_succ_le hlt) hu
    rw [pP] at h1
    have := h.hi
    have htie : q = m * u + u / 2 := by grind
    have hev := h.tie (Or.inl htie)
    have hm1 : m + 1 = 2 ^ p := by
      apply Classical.byContradiction; intro hc
      have h2 := mul_u_le (natCast_succ_le (show m + 1 < 2 ^ p by omega)) hu
      rw [pP, Rat.natCast_add] at h2
      simp only [Rat.natCast_ofNat] at h2
      grind
    have : 2 ^ p % 2 = 0 := by
      have : p = (p - 1) + 1 := by omega
      rw [this, Nat.pow_succ]; omega
    omega

namespace Ctx
variable {f : Format} {q : Rat} {e0 : Int} {m : Nat} (c : Ctx f q e0 m)
include c

theorem two_pow_pred_ge : (1 : Rat) ≤ 2 ^ ((f.p : Int) - 1) := by
  have := one_le_p2 (f.p - 1)
  rwa [show ((f.p - 1 : Nat) : Int) = (f.p : Int) - 1 by have := c.hp; omega] at this

omit c in
theorem p_split : (2 : Rat) ^ (f.p : Int) = 2 * 2 ^ ((f.p : Int) - 1) := by
  rw [← p2_succ]; congr 1; omega

/-- the result exponent exceeds `qmax` exactly from the overflow threshold on -/
theorem overflow_iff (hr : f.qmin ≤ f.qmax) : f.qmax < resE f e0 m ↔ f.Overflows q := by
  unfold Format.Overflows
  rw [Rat.abs_of_nonneg (Rat.le_of_lt c.q_pos), overflowAt_eq]
  have hp1 : 1 ≤ f.p := by have := c.hp; omega
  have hP := c.two_pow_pred_ge
  have hPs := p_split (f := f)
  have hU := p2_pos f.qmax
  rcases Int.lt_trichotomy (clampE f e0) f.qmax with hlt | heq | hgt
  · -- below the top binade
    have h1 : ¬ f.qmax < resE f e0 m := by unfold resE; split <;> omega
    have a1 := c.lt_top
    have a2 := Rat.mul_le_mul_of_nonneg_left (p2_le (show clampE f e0 ≤ f.qmax - 1 by omega)) (Rat.le_of_lt (p2_pos (f.p : Int)))
    have a3 : (2 : Rat) ^ (f.p : Int) * 2 ^ (f.qmax - 1) = 2 ^ ((f.p : Int) - 1) * 2 ^ f.qmax := by
      rw [← p2_add, ← p2_add]; congr 1; omega
    have a4 := mul_u_le hP hU
    simp only [h1, false_iff]
    generalize (2 : Rat) ^ ((f.p : Int) - 1) = P at *
    generalize (2 : Rat) ^ (f.p : Int) = PP at *
    generalize (2 : Rat) ^ f.qmax = U at *
    generalize (2 : Rat) ^ (f.qmax - 1) = U' at *
    generalize (2 : Rat) ^ clampE f e0 = u at *
    subst hPs
    have : (2 * P - 1 / 2) * U = 2 * (P * U) - U / 2 := by grind
    grind
  · -- the top binade: overflow iff the rounding carries
    have hc := carry_iff (p := f.p) c.hm (p2_pos _) hp1 c.lt_top
    rw [heq] at hc
    rw [← hc]
    unfold resE
    split <;> omega
  · -- above
    have h1 : f.qmax < resE f e0 m := by unfold resE; split <;> omega
    have a1 := c.normal (by omega)
    have a2 := Rat.mul_le_mul_of_nonneg_left (p2_le (show f.qmax + 1 ≤ clampE f e0 by omega)) (Rat.le_of_lt (p2_pos ((f.p : Int) - 1)))
    rw [p2_succ] at a2
    simp only [h1, true_iff]
    generalize (2 : Rat) ^ ((f.p : Int) - 1) = P at *
    generalize (2 : Rat) ^ (f.p : Int) = PP at *
    generalize (2 : Rat) ^ f.qmax = U at *
    generalize (2 : Rat) ^ clampE f e0 = u at *
    subst hPs
    have := Rat.mul_pos (show (0 : Rat) < P by grind) hU
    have : (2 * P - 1 / 2) * U = 2 * (P * U) - U / 2 := by grind
    have : P * (2 * U) = 2 * (P * U) := by grind
    grind

/-- glibc's tininess-after-rounding test is `q < tinyBelow` -/
theorem tiny_iff {mu : Nat} (hmu : NearestInt q (2 ^ e0) mu) :
    (e0 < f.qmin ∧ ¬ (e0 + 1 = f.qmin ∧ mu = 2 ^ f.p)) ↔ q < f.tinyBelow := by
  rw [tinyBelow_eq]
  have hp1 : 1 ≤ f.p := by have := c.hp; omega
  have hP := c.two_pow_pred_ge
  have hPs := p_split (f := f)
  have hV := p2_pos (f.qmin - 1)
  rcases Int.lt_trichotomy (e0 + 1) f.qmin with hlt | heq | hgt
  · have a1 := c.n2
    have a2 := Rat.mul_le_mul_of_nonneg_left (p2_le (show e0 ≤ f.qmin - 1 - 1 by omega)) (Rat.le_of_lt (p2_pos (f.p : Int)))
    have a3 : (2 : Rat) ^ (f.p : Int) * 2 ^ (f.qmin - 1 - 1) = 2 ^ ((f.p : Int) - 1) * 2 ^ (f.qmin - 1) := by
      rw [← p2_add, ← p2_add]; congr 1; omega
    have a4 := mul_u_le hP hV
    have : e0 < f.qmin ∧ ¬ (e0 + 1 = f.qmin ∧ mu = 2 ^ f.p) := ⟨by omega, by omega⟩
    refine ⟨fun _ => ?_, fun _ => this⟩
    generalize (2 : Rat) ^ ((f.p : Int) - 1) = P at *
    generalize (2 : Rat) ^ (f.p : Int) = PP at *
    generalize (2 : Rat) ^ (f.qmin - 1) = V at *
    generalize (2 : Rat) ^ (f.qmin - 1 - 1) = V' at *
    generalize (2 : Rat) ^ e0 = u at *
    subst hPs
    have : (2 * P - 1 / 2) * V = 2 * (P * V) - V / 2 := by grind
    grind
  · have hc := carry_iff (p := f.p) hmu (p2_pos _) hp1 c.n2
    rw [show e0 = f.qmin - 1 by omega] at hc
    rw [← Rat.not_le, ← hc]
    constructor
    · rintro ⟨_, h⟩ hm; exact h ⟨heq, hm⟩
    · intro h; exact ⟨by omega, fun hh => h hh.2⟩
  · have : ¬ (e0 < f.qmin ∧ ¬ (e0 + 1 = f.qmin ∧ mu = 2 ^ f.p)) := by omega
    simp only [this, false_iff]
    have a1 := c.n1
    have a2 := Rat.mul_le_mul_of_nonneg_left (p2_le (show f.qmin - 1 + 1 ≤ e0 by omega)) (Rat.le_of_lt (p2_pos ((f.p : Int) - 1)))
    rw [p2_succ] at a2
    generalize (2 : Rat) ^ ((f.p : Int) - 1) = P at *
    generalize (2 : Rat) ^ (f.p : Int) = PP at *
    generalize (2 : Rat) ^ (f.qmin - 1) = V at *
    generalize (2 : Rat) ^ e0 = u at *
    subst hPs
    have := Rat.mul_pos (show (0 : Rat) < P by grind) hV
    have : (2 * P - 1 / 2) * V = 2 * (P * V) - V / 2 := by grind
    have : P * (2 * V) = 2 * (P * V) := by grind
    grind

/-- the result is exact iff `q` is itself a number of the format -/
theorem exact_iff (hov : resE f e0 m ≤ f.qmax) : q = m * 2 ^ clampE f e0 ↔ f.Finite q := by
  constructor
  · intro h; have := (c.nearestEven hov).1; rwa [← h] at this
  · intro h
    have h1 := (c.finite_far q h).1
    have hc := abs_cases (q - m * 2 ^ clampE f e0)
    have : (q - q).abs = 0 := by rw [Rat.sub_self]; rfl
    grind

end Ctx
end Percival.Proofs.Ieee
