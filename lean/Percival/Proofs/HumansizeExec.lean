import Percival.Spec.HumansizeExec
import Percival.Proofs.Humansize
/-! Helper lemmas for C16: the enumerating functions of `Spec/HumansizeExec.lean` (what `pmodel parsenum` prints as
    the L1 part of the `hs_*` lines) decide the relations of `Spec/Humansize.lean`. -/
set_option linter.unusedSimpArgs false
namespace Percival.Proofs.HumansizeExec
open Percival.Spec.Humansize Percival.Spec.HumansizeExec Percival.Spec.Numeral
open Percival.Model.Humansize (isDec)
open Percival.Proofs.Humansize

/-! ### parsing -/

theorem isDigit10_eq : isDigit 10 = isDec := by
  funext c
  unfold isDigit
  cases h : isDec c
  · rw [digitOf10_none_of_not_isDec h]; rfl
  · rw [digitOf10_of_isDec h]; rfl

theorem siPrefixes_lt {k : Nat} {c : UInt8} (h : siPrefixes[k]? = some c) : k < 7 := by
  obtain ⟨h, _⟩ := List.getElem?_eq_some_iff.mp h; simpa [siPrefixes] using h

theorem mem_allPrefixes (pre : List UInt8) (k : Nat) : (pre, k) ∈ allPrefixes ↔ SiPrefix pre k := by
  unfold allPrefixes SiPrefix
  simp only [List.mem_cons, Prod.mk.injEq, List.mem_filterMap, List.mem_range]
  constructor
  · rintro (⟨rfl, rfl⟩ | ⟨a, ha, h⟩)
    · exact Or.inl ⟨rfl, rfl⟩
    · split at h
      · cases h
      · rename_i h0
        cases hc : siPrefixes[a]? with
        | none => simp [hc] at h
        | some c =>
          simp only [hc, Option.map_some, Option.some.injEq, Prod.mk.injEq] at h
          obtain ⟨rfl, rfl⟩ := h
          exact Or.inr ⟨by omega, c, hc, rfl⟩
  · rintro (⟨rfl, rfl⟩ | ⟨hk, c, hc, rfl⟩)
    · exact Or.inl ⟨rfl, rfl⟩
    · refine Or.inr ⟨k, siPrefixes_lt hc, ?_⟩
      rw [if_neg (by omega), hc]; rfl

theorem mem_allSuffixes (r : List UInt8) (k : Nat) : (r, k) ∈ allSuffixes ↔ Suffix r k := by
  unfold allSuffixes Suffix
  simp only [List.mem_flatMap, List.mem_map, List.mem_cons, List.not_mem_nil, or_false, Prod.mk.injEq, Prod.exists]
  constructor
  · rintro ⟨sp, hsp, pre, j, hp, b, hb, rfl, rfl⟩
    exact ⟨sp, pre, b, rfl, hsp, (mem_allPrefixes pre j).mp hp, hb⟩
  · rintro ⟨sp, pre, b, rfl, hsp, hp, hb⟩
    exact ⟨sp, hsp, pre, k, (mem_allPrefixes pre k).mpr hp, b, hb, rfl, rfl⟩

theorem allSuffixes_keys_nodup : (allSuffixes.map (·.1)).Nodup := by decide

theorem find_key {α β : Type} [BEq α] [LawfulBEq α] : ∀ (l : List (α × β)) (r : α), (l.map (·.1)).Nodup →
    ∀ p, l.find? (fun q => q.1 == r) = some p ↔ p ∈ l ∧ p.1 = r := by
  intro l r
  induction l with
  | nil => intro _ p; simp
  | cons x xs ih =>
    intro hnd p
    simp only [List.map_cons, List.nodup_cons] at hnd
    rw [List.find?_cons]
    by_cases hx : x.1 = r
    · simp only [hx, beq_self_eq_true, Option.some.injEq, List.mem_cons]
      constructor
      · rintro rfl; exact ⟨Or.inl rfl, hx⟩
      · rintro ⟨rfl | hp, hr⟩
        · rfl
        · exfalso; apply hnd.1; rw [hx, ← hr]; exact List.mem_map_of_mem hp
    · have : (x.1 == r) = false := by simpa using hx
      simp only [this, List.mem_cons]
      rw [ih hnd.2]
      constructor
      · rintro ⟨h1, h2⟩; exact ⟨Or.inr h1, h2⟩
      · rintro ⟨rfl | h1, h2⟩
        · exact absurd h2 hx
        · exact ⟨h1, h2⟩

theorem find_suffix (r : List UInt8) (p : List UInt8 × Nat) :
    allSuffixes.find? (fun q => q.1 == r) = some p ↔ p.1 = r ∧ Suffix r p.2 := by
  rw [find_key allSuffixes r allSuffixes_keys_nodup p]
  constructor
  · rintro ⟨h1, rfl⟩; exact ⟨rfl, (mem_allSuffixes _ _).mp h1⟩
  · rintro ⟨rfl, h2⟩; exact ⟨(mem_allSuffixes _ _).mpr h2, rfl⟩


theorem specParse_some_iff (s : List UInt8) (v : Nat) :
    specParse s = some v ↔ Parses s v ∧ v ≤ U64MAX := by
  unfold specParse
  simp only [isDigit10_eq]
  constructor
  · intro h
    split at h
    · cases h
    · rename_i hne
      split at h
      · rename_i n r' k hn hf
        split at h
        · rename_i hle
          injection h with h; subst h
          obtain ⟨-, hsuf⟩ := (find_suffix _ _).mp hf
          exact ⟨⟨_, _, n, k, (List.takeWhile_append_dropWhile (p := isDec)).symm,
            by simpa using hne, hn, hsuf, rfl⟩, hle⟩
        · cases h
      · cases h
  · rintro ⟨⟨ds, r, n, k, rfl, hne, hn, hsuf, rfl⟩, hmax⟩
    have hall := digitsVal_all_dec _ _ _ hn
    obtain ⟨e1, e2⟩ := split_digits ds r hall (suffix_head hsuf)
    rw [e1, e2]
    have hf : allSuffixes.find? (fun q => q.1 == r) = some (r, k) := (find_suffix r (r, k)).mpr ⟨rfl, hsuf⟩
    simp only [hn, hf]
    rw [if_neg (by simpa using hne), if_pos hmax]

theorem specParse_none_iff (s : List UInt8) :
    specParse s = none ↔ ¬ ∃ v, Parses s v ∧ v ≤ U64MAX := by
  constructor
  · rintro h ⟨v, hv⟩
    rw [(specParse_some_iff s v).mpr hv] at h; cases h
  · intro h
    cases hs : specParse s with
    | none => rfl
    | some v => exact absurd ⟨v, (specParse_some_iff s v).mp hs⟩ h

/-! ### formatting -/

theorem mem_allForms (f : Form) : f ∈ allForms ↔ f.Valid := by
  unfold allForms
  simp only [List.mem_append, List.mem_map, List.mem_range, List.mem_flatMap, List.mem_filterMap]
  constructor
  · rintro (⟨x, hx, rfl⟩ | ⟨k, hk, h⟩)
    · simp only [Form.Valid]; omega
    · split at h
      · simp at h
      · simp only [List.mem_append, List.mem_filterMap, List.mem_range] at h
        rcases h with ⟨x, hx, h⟩ | ⟨x, hx, h⟩
        · split at h
          · injection h with h; subst h; simp only [Form.Valid]; omega
          · cases h
        · split at h
          · injection h with h; subst h; simp only [Form.Valid]; omega
          · cases h
  · intro hv
    cases f with
    | bytes m => simp only [Form.Valid] at hv; exact Or.inl ⟨m, by omega, rfl⟩
    | dec a b k =>
      simp only [Form.Valid] at hv
      refine Or.inr ⟨k, by omega, ?_⟩
      rw [if_neg (by omega)]
      simp only [List.mem_append, List.mem_filterMap, List.mem_range]
      refine Or.inl ⟨10 * a + b, by omega, ?_⟩
      rw [if_pos (by omega)]
      have h1 : (10 * a + b) / 10 = a := by omega
      have h2 : (10 * a + b) % 10 = b := by omega
      rw [h1, h2]
    | int x k =>
      simp only [Form.Valid] at hv
      refine Or.inr ⟨k, by omega, ?_⟩
      rw [if_neg (by omega)]
      simp only [List.mem_append, List.mem_filterMap, List.mem_range]
      refine Or.inr ⟨x, by omega, ?_⟩
      rw [if_pos (by omega)]

theorem foldl_better (n : Nat) : ∀ (fs : List Form) (acc : Option Form), (∀ g, acc = some g → g.value ≤ n) →
    match fs.foldl (better n) acc with
    | none => acc = none ∧ ∀ h ∈ fs, ¬ h.value ≤ n
    | some f => f.value ≤ n ∧ (acc = some f ∨ f ∈ fs) ∧ (∀ g, acc = some g → g.value ≤ f.value) ∧
        ∀ h ∈ fs, h.value ≤ n → h.value ≤ f.value := by
  intro fs
  induction fs with
  | nil =>
    intro acc hacc
    cases acc with
    | none => simp
    | some g => simpa using hacc g rfl
  | cons x xs ih =>
    intro acc hacc
    rw [List.foldl_cons]
    have hacc' : ∀ g, better n acc x = some g → g.value ≤ n := by
      intro g hg
      unfold better at hg
      split at hg
      · rename_i hx
        split at hg
        · split at hg
          · injection hg with hg; subst hg; exact hx
          · exact hacc g hg
        · injection hg with hg; subst hg; exact hx
      · exact hacc g hg
    have := ih _ hacc'
    split at this
    · obtain ⟨h1, h2⟩ := this
      unfold better at h1
      split at h1
      · split at h1
        · split at h1 <;> cases h1
        · cases h1
      · rename_i hx
        refine ⟨h1, ?_⟩
        intro h hh
        rcases List.mem_cons.mp hh with rfl | hh
        · exact hx
        · exact h2 h hh
    · rename_i f _
      obtain ⟨h1, h2, h3, h4⟩ := this
      refine ⟨h1, ?_, ?_, ?_⟩
      · rcases h2 with h2 | h2
        · unfold better at h2
          split at h2
          · split at h2
            · split at h2
              · injection h2 with h2; subst h2; exact Or.inr (by simp)
              · exact Or.inl h2
            · injection h2 with h2; subst h2; exact Or.inr (by simp)
          · exact Or.inl h2
        · exact Or.inr (by simp [h2])
      · intro g hg
        subst hg
        unfold better at h3
        split at h3
        · simp only at h3
          split at h3
          · have := h3 _ rfl; omega
          · exact h3 _ rfl
        · exact h3 _ rfl
      · intro h hh hn
        rcases List.mem_cons.mp hh with rfl | hh
        · unfold better at h3
          rw [if_pos hn] at h3
          cases acc with
          | none => exact h3 _ rfl
          | some g =>
            simp only at h3
            split at h3
            · exact h3 _ rfl
            · have := h3 _ rfl; omega
        · exact h4 h hh hn

theorem value_inj {f g : Form} (hf : f.Valid) (hg : g.Valid) (h : f.value = g.value) : f = g := by
  cases f with
  | bytes m =>
    cases g with
    | bytes m' => simpa [Form.value] using h
    | dec a b j =>
      exfalso
      simp only [Form.Valid] at hf hg
      have hj : j = 1 ∨ j = 2 ∨ j = 3 ∨ j = 4 ∨ j = 5 ∨ j = 6 := by omega
      rcases hj with rfl | rfl | rfl | rfl | rfl | rfl <;>
        simp only [Form.value, Nat.reducePow, Nat.reduceSub, Nat.reduceMul] at h <;> omega
    | int x j =>
      exfalso
      simp only [Form.Valid] at hf hg
      have hj : j = 1 ∨ j = 2 ∨ j = 3 ∨ j = 4 ∨ j = 5 ∨ j = 6 := by omega
      rcases hj with rfl | rfl | rfl | rfl | rfl | rfl <;>
        simp only [Form.value, Nat.reducePow, Nat.reduceSub, Nat.reduceMul] at h <;> omega
  | dec a b k =>
    simp only [Form.Valid] at hf
    have hk : k = 1 ∨ k = 2 ∨ k = 3 ∨ k = 4 ∨ k = 5 ∨ k = 6 := by omega
    cases g with
    | bytes m' =>
      exfalso
      simp only [Form.Valid] at hg
      rcases hk with rfl | rfl | rfl | rfl | rfl | rfl <;>
        simp only [Form.value, Nat.reducePow, Nat.reduceSub, Nat.reduceMul] at h <;> omega
    | dec a' b' j =>
      simp only [Form.Valid] at hg
      have hj : j = 1 ∨ j = 2 ∨ j = 3 ∨ j = 4 ∨ j = 5 ∨ j = 6 := by omega
      rcases hk with rfl | rfl | rfl | rfl | rfl | rfl <;> rcases hj with rfl | rfl | rfl | rfl | rfl | rfl <;>
        simp only [Form.value, Nat.reducePow, Nat.reduceSub, Nat.reduceMul] at h <;>
        first
        | (exfalso; omega)
        | (have : a = a' ∧ b = b' := by omega
           rw [this.1, this.2])
    | int x j =>
      exfalso
      simp only [Form.Valid] at hg
      have hj : j = 1 ∨ j = 2 ∨ j = 3 ∨ j = 4 ∨ j = 5 ∨ j = 6 := by omega
      rcases hk with rfl | rfl | rfl | rfl | rfl | rfl <;> rcases hj with rfl | rfl | rfl | rfl | rfl | rfl <;>
        simp only [Form.value, Nat.reducePow, Nat.reduceSub, Nat.reduceMul] at h <;> omega
  | int x k =>
    simp only [Form.Valid] at hf
    have hk : k = 1 ∨ k = 2 ∨ k = 3 ∨ k = 4 ∨ k = 5 ∨ k = 6 := by omega
    cases g with
    | bytes m' =>
      exfalso
      simp only [Form.Valid] at hg
      rcases hk with rfl | rfl | rfl | rfl | rfl | rfl <;>
        simp only [Form.value, Nat.reducePow, Nat.reduceSub, Nat.reduceMul] at h <;> omega
    | dec a' b' j =>
      exfalso
      simp only [Form.Valid] at hg
      have hj : j = 1 ∨ j = 2 ∨ j = 3 ∨ j = 4 ∨ j = 5 ∨ j = 6 := by omega
      rcases hk with rfl | rfl | rfl | rfl | rfl | rfl <;> rcases hj with rfl | rfl | rfl | rfl | rfl | rfl <;>
        simp only [Form.value, Nat.reducePow, Nat.reduceSub, Nat.reduceMul] at h <;> omega
    | int x' j =>
      simp only [Form.Valid] at hg
      have hj : j = 1 ∨ j = 2 ∨ j = 3 ∨ j = 4 ∨ j = 5 ∨ j = 6 := by omega
      rcases hk with rfl | rfl | rfl | rfl | rfl | rfl <;> rcases hj with rfl | rfl | rfl | rfl | rfl | rfl <;>
        simp only [Form.value, Nat.reducePow, Nat.reduceSub, Nat.reduceMul] at h <;>
        first
        | (exfalso; omega)
        | (have : x = x' := by omega
           rw [this])


theorem bestForm_of (n : Nat) (fs : List Form) (h0 : Form.bytes 0 ∈ fs) :
    ∃ f, bestForm n fs = some f ∧ f ∈ fs ∧ f.value ≤ n ∧ ∀ g ∈ fs, g.value ≤ n → g.value ≤ f.value := by
  have h := foldl_better n fs none (by intro g hg; cases hg)
  unfold bestForm
  split at h
  · exfalso
    exact h.2 (.bytes 0) h0 (by simp [Form.value])
  · rename_i f hf
    obtain ⟨h1, h2, -, h4⟩ := h
    have hmem : f ∈ fs := by
      rcases h2 with h2 | h2
      · cases h2
      · exact h2
    exact ⟨f, hf, hmem, h1, h4⟩

/-- the search finds the largest valid form not above `n` (there always is one: `0 B`) -/
theorem bestForm_spec (n : Nat) : ∃ f, bestForm n allForms = some f ∧ IsLargestBelow f n := by
  obtain ⟨f, hf, hmem, h1, h4⟩ := bestForm_of n allForms ((mem_allForms _).mpr (by simp [Form.Valid]))
  exact ⟨f, hf, (mem_allForms f).mp hmem, h1, fun g hg hgn => h4 g ((mem_allForms g).mpr hg) hgn⟩

/-- the largest valid form not above `n` is unique -/
theorem isLargestBelow_unique {f g : Form} {n : Nat} (hf : IsLargestBelow f n) (hg : IsLargestBelow g n) : f = g := by
  have h1 := hf.2.2 g hg.1 hg.2.1
  have h2 := hg.2.2 f hf.1 hf.2.1
  exact value_inj hf.1 hg.1 (by omega)

theorem specFormat_some_iff (n : Nat) (str : List UInt8) :
    specFormat n = some str ↔ ∃ f, IsLargestBelow f n ∧ f.render = some str := by
  obtain ⟨f, hf, hl⟩ := bestForm_spec n
  unfold specFormat
  rw [hf]
  constructor
  · intro h; exact ⟨f, hl, h⟩
  · rintro ⟨g, hg, hr⟩
    rw [isLargestBelow_unique hl hg]; exact hr

/-- a valid form has a text -/
theorem render_isSome {f : Form} (hf : f.Valid) : ∃ str, f.render = some str := by
  cases f with
  | bytes m => exact ⟨_, rfl⟩
  | dec a b k =>
    simp only [Form.Valid] at hf
    have : k < siPrefixes.length := by simp [siPrefixes]; omega
    exact ⟨_, by simp [Form.render, this]; rfl⟩
  | int x k =>
    simp only [Form.Valid] at hf
    have : k < siPrefixes.length := by simp [siPrefixes]; omega
    exact ⟨_, by simp [Form.render, this]; rfl⟩

theorem specFormat_isSome (n : Nat) : ∃ str, specFormat n = some str := by
  obtain ⟨f, hf, hl⟩ := bestForm_spec n
  obtain ⟨str, hs⟩ := render_isSome hl.1
  exact ⟨str, (specFormat_some_iff n str).mpr ⟨f, hl, hs⟩⟩


/-! ### the model against the enumerating specification (L2 = L1) -/

open Percival.Model.Humansize in
theorem parse_eq_spec (s : List UInt8) :
    parse s = match specParse s with | some v => .ok v | none => .fail := by
  cases h : specParse s with
  | some v => exact (parse_ok_iff s v).mpr ((specParse_some_iff s v).mp h)
  | none => exact (parse_fail_iff s).mpr ((specParse_none_iff s).mp h)

open Percival.Model.Humansize in
theorem format_eq_spec (n : Nat) (hn : n < 1000 ^ 7) :
    ∃ str, specFormat n = some str ∧ format n = .str str := by
  obtain ⟨f, str, hl, hr, hf⟩ := format_spec n hn
  exact ⟨str, (specFormat_some_iff n str).mpr ⟨f, hl, hr⟩, hf⟩

end Percival.Proofs.HumansizeExec
