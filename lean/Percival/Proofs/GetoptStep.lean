import Percival.Proofs.Getopt
/-! Single `getopt` calls at an initialised state (C18 helper lemmas). -/
namespace Percival.Proofs.Getopt
open Percival.Spec.Getopt Percival.Model.Getopt

abbrev body := getoptBody

theorem inv_update {lines : List Line} {s : St} (h : Inv lines s) (oa : Option Str) (oi : Nat)
    (pk : Option (Nat × Nat)) (fd : Nat) :
    Inv lines { s with optarg := oa, optind := oi, packed := pk, optFound := fd } :=
  ⟨h.reset, h.init, h.opts, h.nopts, h.dflt, h.miss⟩

theorem getopt_end {lines : List Line} {argv : List Str} {s : St} (h : Inv lines s)
    (he : argv.length ≤ s.optind) :
    Model.Getopt.getopt argv s = pure (.null, { s with optarg := none }) := by
  simp [Model.Getopt.getopt, h.reset, h.init, he]

theorem getopt_body {lines : List Line} {argv : List Str} {s : St} (h : Inv lines s)
    (he : s.optind < argv.length) :
    Model.Getopt.getopt argv s = body argv { s with optarg := none } := by
  have : ¬ argv.length ≤ s.optind := by omega
  simp [Model.Getopt.getopt, h.reset, h.init, this, body]

theorem arg_eq {argv : List Str} {i : Nat} {w : Str} (h : argv[i]? = some w) : arg argv i = pure w := by
  simp [arg, h]

/-- operand, lone `-`, empty word: NULL, nothing consumed -/
theorem body_stop {argv : List Str} {s : St} {w : Str} (hp : s.packed = none)
    (hw : argv[s.optind]? = some w)
    (hshape : w = [] ∨ (∃ c, w = [c]) ∨ (∃ c0 c1 cs, w = c0 :: c1 :: cs ∧ c0 ≠ dash))
    (hnul : NulFree w) :
    body argv s = pure (.null, s) := by
  rcases hshape with rfl | ⟨c, rfl⟩ | ⟨c0, c1, cs, rfl, hc⟩
  · simp [body, getoptBody, startPack, takePacked, dashDash, hp, arg_eq hw, rd_nil_zero, dash_ne_zero.symm]
  · by_cases hc : c = dash
    · subst hc
      simp [body, getoptBody, startPack, takePacked, dashDash, hp, arg_eq hw, rd_cons_zero, rd_cons_succ, rd_nil_zero,
        dash_ne_zero.symm]
    · simp [body, getoptBody, startPack, takePacked, dashDash, hp, arg_eq hw, rd_cons_zero, hc]
  · simp [body, getoptBody, startPack, takePacked, dashDash, hp, arg_eq hw, rd_cons_zero, hc]

/-- `--`: NULL, consumed -/
theorem body_dashdash {argv : List Str} {s : St} (hp : s.packed = none)
    (hw : argv[s.optind]? = some [dash, dash]) :
    body argv s = pure (.null, { s with optind := s.optind + 1 }) := by
  simp [body, getoptBody, startPack, takePacked, dashDash, hp, arg_eq hw, rd_cons_zero, rd_cons_succ, rd_nil_zero]

/-- `--x…`: a long option -/
theorem body_long {argv : List Str} {s : St} {c : UInt8} {cs : Str} (hp : s.packed = none)
    (hw : argv[s.optind]? = some (dash :: dash :: c :: cs)) (hc : c ≠ 0) :
    body argv s = finishOpt argv { s with optind := s.optind + 1 } (dash :: dash :: c :: cs) := by
  simp [body, getoptBody, startPack, takePacked, dashDash, hp, arg_eq hw, rd_cons_zero, rd_cons_succ, hc]

/-- the next character of a pack (`p` = what is already behind the cursor) -/
theorem body_packed {argv : List Str} {s : St} {p : Str} {c : UInt8} {cs : Str}
    (hp : s.packed = some (s.optind, p.length))
    (hw : argv[s.optind]? = some (p ++ c :: cs)) (hnul : NulFree (p ++ c :: cs)) :
    body argv s = finishOpt argv
      { s with packed := if cs = [] then none else some (s.optind, p.length + 1),
               optind := if cs = [] then s.optind + 1 else s.optind } [dash, c] := by
  have hc : c ≠ 0 := (nulFree_cons.mp (nulFree_append.mp hnul).2).1
  have hcstr : cstr [dash, c] = [dash, c] :=
    cstr_of_nulFree (nulFree_cons.mpr ⟨dash_ne_zero, nulFree_cons.mpr ⟨hc, nulFree_nil⟩⟩)
  cases cs with
  | nil =>
    simp [body, getoptBody, startPack, takePacked, dashDash, hp, arg_eq hw, rd_append_length, rd_append_length_succ,
      rd_cons_zero, rd_cons_succ, rd_nil_zero, hcstr]
  | cons d cs =>
    have hd : d ≠ 0 := (nulFree_cons.mp (nulFree_cons.mp (nulFree_append.mp hnul).2).2).1
    simp [body, getoptBody, startPack, takePacked, dashDash, hp, arg_eq hw, rd_append_length, rd_append_length_succ,
      rd_cons_zero, rd_cons_succ, hcstr, hd]

/-- a word `-c…` with `c ≠ '-'` starts a pack -/
theorem body_pack_start {argv : List Str} {s : St} {c : UInt8} {cs : Str} (hp : s.packed = none)
    (hw : argv[s.optind]? = some (dash :: c :: cs)) (hc : c ≠ dash) (hnul : NulFree (dash :: c :: cs)) :
    body argv s = body argv { s with packed := some (s.optind, 1) } := by
  have hc0 : c ≠ 0 := (nulFree_cons.mp (nulFree_cons.mp hnul).2).1
  simp [body, getoptBody, startPack, hp, arg_eq hw, rd_cons_zero, rd_cons_succ, hc, hc0]

/-! ## `finishOpt`: search and argument handling -/

theorem matchOpt_rd {n os : Str} {h : Bool} {v : Option Str} (hos : NulFree os)
    (hm : matchOpt ⟨n, h⟩ os = some v) :
    rd os n.length = pure (if v.isSome then eqc else 0) ∧
      ∀ val, v = some val → val = os.drop (n.length + 1) := by
  have hp : n.isPrefixOf os = true := by
    cases hp : n.isPrefixOf os with
    | true => rfl
    | false => rw [matchOpt_of_not_prefix (o := ⟨n, h⟩) hp] at hm; cases hm
  obtain ⟨c, hc, hcase⟩ := slot_check n os h hos hp
  rcases hcase with ⟨hc0, hm'⟩ | ⟨hce, hm'⟩ | ⟨_, _, hm'⟩
  · rw [hm] at hm'; cases hm'
    exact ⟨by simp [hc, hc0], by simp⟩
  · rw [hm] at hm'; cases hm'
    exact ⟨by simp [hc, hce], by simp⟩
  · rw [hm] at hm'; cases hm'

theorem searchopt_eq {lines : List Line} (hn : NamesOK lines) {s : St} (h : Inv lines s) {os : Str}
    (hos : NulFree os) :
    searchopt s os = pure (pick (lines.length + 1) 0 (findIdx lines os)) := by
  have := searchSlots_eq lines hn os hos (lines.length + 1) 0 0
  simp only [List.replicate_zero, List.append_nil] at this
  simp [searchopt, h.opts, h.dflt, this]

theorem slot_eq {lines : List Line} {s : St} (h : Inv lines s) {j : Nat} {n : Str} {a : Bool}
    (hj : lines[j]? = some (.opt n a)) : slot s j = pure ⟨n, n.length, a⟩ := by
  simp [slot, h.opts, hj, slotOf]

theorem lt_of_getElem? {α : Type} {l : List α} {j : Nat} {x : α} (h : l[j]? = some x) : j < l.length := by
  have := List.getElem?_eq_some_iff.mp h
  exact this.1

/-- unknown option -/
theorem finishOpt_unknown {lines : List Line} (hn : NamesOK lines) {argv : List Str} {s : St}
    (h : Inv lines s) {os : Str} (hos : NulFree os) (hf : findIdx lines os = none) :
    finishOpt argv s os = pure (.os os, { s with optFound := lines.length + 1 }) := by
  simp [finishOpt, searchopt_eq hn h hos, hf, h.dflt, pick]

/-- registered option without argument (`v` = the unwanted `=value` if any) -/
theorem finishOpt_noarg {lines : List Line} (hn : NamesOK lines) {argv : List Str} {s : St}
    (h : Inv lines s) {os : Str} (hos : NulFree os) {j : Nat} {n : Str} {v : Option Str}
    (hf : findIdx lines os = some j) (hj : lines[j]? = some (.opt n false))
    (hm : matchOpt ⟨n, false⟩ os = some v) :
    finishOpt argv s os =
      pure (.os n, { s with optFound := match v with | none => j | some _ => lines.length + 1 }) := by
  have hlt := lt_of_getElem? hj
  have hne : j ≠ lines.length + 1 := by omega
  have hrd := (matchOpt_rd hos hm).1
  cases v with
  | none => simp [finishOpt, searchopt_eq hn h hos, hf, h.dflt, pick, hne, slot, h.opts, hj, slotOf, hrd, eqc_ne_zero.symm]
  | some val => simp [finishOpt, searchopt_eq hn h hos, hf, h.dflt, pick, hne, slot, h.opts, hj, slotOf, hrd]

/-- registered option with argument: on to `takeArg` -/
theorem finishOpt_arg {lines : List Line} (hn : NamesOK lines) {argv : List Str} {s : St}
    (h : Inv lines s) {os : Str} (hos : NulFree os) {j : Nat} {n : Str}
    (hf : findIdx lines os = some j) (hj : lines[j]? = some (.opt n true)) :
    finishOpt argv s os = (do
      let s' ← takeArg argv { s with optFound := j } os ⟨n, n.length, true⟩
      pure (.os n, s')) := by
  have hlt := lt_of_getElem? hj
  have hne : j ≠ lines.length + 1 := by omega
  simp [finishOpt, searchopt_eq hn h hos, hf, pick, h.dflt, hne, slot, h.opts, hj, slotOf]

/-- `-abcfoo`: the rest of the pack is the argument -/
theorem takeArg_packed {argv : List Str} {s : St} {i : Nat} {p : Str} {c x : UInt8} {cs : Str} {e : Slot}
    (hp : s.packed = some (i, p.length)) (hw : argv[i]? = some (p ++ c :: cs)) (he : e.olen = 2) :
    takeArg argv s [dash, x] e =
      pure { s with optarg := some (c :: cs), packed := none, optind := s.optind + 1 } := by
  simp [takeArg, hp, arg_eq hw, he, rd_cons_succ, rd_nil_zero, eqc_ne_zero.symm]

/-- `--foo=bar` -/
theorem takeArg_eq {argv : List Str} {s : St} {os : Str} {e : Slot}
    (hp : s.packed = none) (hrd : rd os e.olen = pure eqc) :
    takeArg argv s os e = pure { s with optarg := some (os.drop (e.olen + 1)) } := by
  simp [takeArg, hp, hrd]

/-- `--foo bar`, `-f bar`: the next word is the argument -/
theorem takeArg_next {argv : List Str} {s : St} {os : Str} {e : Slot} {a : Str}
    (hp : s.packed = none) (hoa : s.optarg = none) (hrd : rd os e.olen = pure 0)
    (hw : argv[s.optind]? = some a) :
    takeArg argv s os e = pure { s with optarg := some a, optind := s.optind + 1 } := by
  have hlt := lt_of_getElem? hw
  simp [takeArg, hp, hoa, hrd, eqc_ne_zero.symm, hlt, arg_eq hw]

/-- no word left: missing argument -/
theorem takeArg_missing {argv : List Str} {s : St} {os : Str} {e : Slot}
    (hp : s.packed = none) (hoa : s.optarg = none) (hrd : rd os e.olen = pure 0)
    (hend : argv.length ≤ s.optind) :
    takeArg argv s os e = pure { s with optFound := s.optMissing } := by
  have : ¬ s.optind < argv.length := by omega
  simp [takeArg, hp, hoa, hrd, eqc_ne_zero.symm, this]

/-! ## `getopt_lookup` + the switch -/

def isMissing : Line → Bool
  | .missing => true
  | _ => false

theorem tableOf_hasMissing (lines : List Line) : (tableOf lines).hasMissing = lines.any isMissing := by
  simp only [tableOf]
  induction lines with
  | nil => rfl
  | cons l rest ih => cases l <;> simp [isMissing, ih]

theorem lastMissing_spec (rest : List Line) : ∀ (ln cur : Nat),
    (rest.any isMissing = false ∧ lastMissing rest ln cur = cur) ∨
    (rest.any isMissing = true ∧ ∃ k, lastMissing rest ln cur = ln + k ∧ rest[k]? = some .missing) := by
  induction rest with
  | nil => intro ln cur; left; simp [lastMissing]
  | cons l rest ih =>
    intro ln cur
    cases l with
    | missing =>
      right
      refine ⟨by simp [isMissing], ?_⟩
      rcases ih (ln + 1) ln with ⟨_, h2⟩ | ⟨_, k, h2, h3⟩
      · exact ⟨0, by simp [lastMissing, h2], by simp⟩
      · exact ⟨k + 1, by simp [lastMissing, h2]; omega, by simpa using h3⟩
    | blank =>
      rcases ih (ln + 1) cur with ⟨h1, h2⟩ | ⟨h1, k, h2, h3⟩
      · left; exact ⟨by simp [isMissing, h1], by simp [lastMissing, h2]⟩
      · right; exact ⟨by simp [h1], k + 1, by simp [lastMissing, h2]; omega, by simpa using h3⟩
    | opt n h =>
      rcases ih (ln + 1) cur with ⟨h1, h2⟩ | ⟨h1, k, h2, h3⟩
      · left; exact ⟨by simp [isMissing, h1], by simp [lastMissing, h2]⟩
      · right; exact ⟨by simp [h1], k + 1, by simp [lastMissing, h2]; omega, by simpa using h3⟩

theorem lookup_found {lines : List Line} {s : St} (h : Inv lines s) {j : Nat} {n : Str} {a : Bool}
    (hf : s.optFound = j) (hj : lines[j]? = some (.opt n a)) :
    getoptLookup s n = pure j := by
  have hlt : s.optFound < s.nopts := by rw [h.nopts, hf]; exact lt_of_getElem? hj
  subst hf
  unfold getoptLookup
  simp only [h.reset, h.init, Bool.false_eq_true, if_false, Bool.not_true]
  split
  · rfl
  · simp [slot, h.opts, List.getElem?_map, hj, slotOf]

theorem dispatch_opt {lines : List Line} {s : St} (h : Inv lines s) {j : Nat} {n : Str}
    (hf : s.optFound = j) (hj : lines[j]? = some (.opt n false)) :
    dispatch lines s n = pure .opt := by
  simp [dispatch, lookup_found h hf hj, hj]

theorem dispatch_optarg {lines : List Line} {s : St} (h : Inv lines s) {j : Nat} {n a : Str}
    (hf : s.optFound = j) (hj : lines[j]? = some (.opt n true)) (ha : s.optarg = some a) :
    dispatch lines s n = pure .optarg := by
  simp [dispatch, lookup_found h hf hj, hj, ha]

theorem dispatch_default {lines : List Line} {s : St} (h : Inv lines s) (ch : Str)
    (hf : s.optFound = lines.length + 1) :
    dispatch lines s ch = pure .dflt := by
  simp [dispatch, getoptLookup, h.reset, h.init, hf, h.dflt]

theorem dispatch_missing {lines : List Line} {s : St} (h : Inv lines s) (ch : Str)
    (hf : s.optFound = s.optMissing) :
    dispatch lines s ch = pure (if (tableOf lines).hasMissing then .missingArg else .dflt) := by
  rw [tableOf_hasMissing]
  have hl : getoptLookup s ch = pure s.optMissing := by
    simp [getoptLookup, h.reset, h.init, hf]
  rcases lastMissing_spec lines 0 (lines.length + 1) with ⟨h1, h2⟩ | ⟨h1, k, h2, h3⟩
  · have : s.optMissing = lines.length + 1 := by rw [h.miss, h2]
    simp [dispatch, hl, this, h1]
  · have : s.optMissing = k := by rw [h.miss, h2]; omega
    simp [dispatch, hl, this, h3, h1]

end Percival.Proofs.Getopt
