import Percival.Proofs.AfMonRel
/-!
# C14, monitor soundness, helper `Run`, part A: the immediate-event half of `events_run()`

`ImmInv`: the shape of the immediate queues (`heads` has 32 queues, every queue below `minq` is empty).  Under it
`immGet` returns the first element of `heads.flatten` and `runImm` (with enough fuel) runs all of `heads.flatten` in
that order and leaves every queue empty.
-/
namespace Percival.Proofs.AfMonRun
open Percival.Model Percival.Model.EvReg Percival.Model.TimerQueue
open Percival.Proofs.EvRegTimer (Step step_mpFree step_freerec freerec_eq regImm regTimers TmInv)

/-- floor division: the `(tv_sec, tv_usec)` of a deadline in µs orders like the deadline, for every integer -/
theorem tvKey_mono (a b : Int) :
    tvKey (secOf a) (usecOf a) ≤ tvKey (secOf b) (usecOf b) ↔ a ≤ b := by
  unfold tvKey secOf usecOf
  omega

/-- shape of the immediate queues -/
structure ImmInv (e : Ev) : Prop where
  len : e.heads.length = 32
  minq : e.minq ≤ 32
  below : ∀ j, j < e.minq → e.heads[j]? = some []

theorem immInv_init : ImmInv ({} : Ev) := by
  refine ⟨by simp, by decide, ?_⟩
  intro j hj
  have : j < 32 := hj
  show (List.replicate 32 ([] : List ImmEnt))[j]? = some []
  rw [List.getElem?_replicate]
  simp [this]

theorem advance_spec (heads : List (List ImmEnt)) (hl : heads.length = 32) :
    ∀ fuel q, q ≤ 32 → 33 ≤ fuel + q →
      q ≤ advance heads fuel q ∧ advance heads fuel q ≤ 32 ∧
      (∀ j, q ≤ j → j < advance heads fuel q → heads[j]? = some []) ∧
      (advance heads fuel q < 32 → heads[advance heads fuel q]? ≠ some []) := by
  intro fuel
  induction fuel with
  | zero => intro q h1 h2; omega
  | succ fuel ih =>
    intro q h1 h2
    unfold advance
    split
    · rename_i hq
      by_cases h32 : q < 32
      · simp only [h32, if_true]
        obtain ⟨a, b, c, d⟩ := ih (q+1) (by omega) (by omega)
        refine ⟨by omega, b, ?_, d⟩
        intro j hj1 hj2
        by_cases hjq : j = q
        · subst hjq; exact hq
        · exact c j (by omega) hj2
      · have : q = 32 := by omega
        subst this
        simp [hl] at hq
    · rename_i hq
      exact ⟨Nat.le_refl _, h1, fun j a b => by omega, fun _ h => hq h⟩

theorem flat_skip {α : Type} (x : α) (rest : List α) : ∀ (heads : List (List α)) (r : Nat),
    (∀ j, j < r → heads[j]? = some []) → heads[r]? = some (x :: rest) →
    heads.flatten = x :: (heads.set r rest).flatten
  | [], r, _, h => by simp at h
  | h :: tl, 0, _, h0 => by
    simp only [List.getElem?_cons_zero, Option.some.injEq] at h0
    subst h0
    simp
  | h :: tl, r+1, hb, hr => by
    have h0 := hb 0 (by omega)
    simp only [List.getElem?_cons_zero, Option.some.injEq] at h0
    subst h0
    simp only [List.getElem?_cons_succ] at hr
    have ih := flat_skip x rest tl r (fun j hj => by simpa using hb (j+1) (by omega)) hr
    simp [ih]

theorem flat_nil {α : Type} (heads : List (List α)) (h : ∀ j, j < heads.length → heads[j]? = some []) :
    heads.flatten = [] := by
  rw [List.flatten_eq_nil_iff]
  intro l hl
  obtain ⟨j, hj, rfl⟩ := List.getElem_of_mem hl
  have := h j hj
  rw [List.getElem?_eq_getElem hj] at this
  exact Option.some.inj this

/-- the parts of the event state the immediate half of `run` never touches -/
def ImmFrame (e e' : Ev) : Prop :=
  e'.tq = e.tq ∧ e'.timers = e.timers ∧ e'.sAlloc = e.sAlloc ∧ e'.socks = e.socks ∧ e'.fds = e.fds ∧
    e'.fdsAlloc = e.fdsAlloc

theorem ImmFrame.refl (e : Ev) : ImmFrame e e := ⟨rfl, rfl, rfl, rfl, rfl, rfl⟩

theorem ImmFrame.trans {a b c : Ev} (h1 : ImmFrame a b) (h2 : ImmFrame b c) : ImmFrame a c := by
  obtain ⟨a1, a2, a3, a4, a5, a6⟩ := h1
  obtain ⟨b1, b2, b3, b4, b5, b6⟩ := h2
  exact ⟨b1.trans a1, b2.trans a2, b3.trans a3, b4.trans a4, b5.trans a5, b6.trans a6⟩

/-- `events_immediate_get()`: nothing if all queues are empty, else the first event of the first non-empty queue -/
theorem immGet_spec (e : Ev) (m : Mem) (hi : ImmInv e) :
    (e.heads.flatten = [] ∧ immGet e m = (none, { e with minq := 32 }, m)) ∨
    (∃ ent rest e' m', e.heads.flatten = ent :: rest ∧ immGet e m = (some ent, e', m') ∧
      e'.heads.flatten = rest ∧ ImmInv e' ∧ ImmFrame e e' ∧ e'.recPool = e.recPool ∧ Step m m') := by
  obtain ⟨a, b, c, d⟩ := advance_spec e.heads hi.len 33 e.minq hi.minq (by omega)
  have hbelow : ∀ j, j < advance e.heads 33 e.minq → e.heads[j]? = some [] := by
    intro j hj
    by_cases h : j < e.minq
    · exact hi.below j h
    · exact c j (by omega) hj
  unfold immGet
  generalize advance e.heads 33 e.minq = q at a b c d hbelow
  by_cases hq : q < 32
  · have hne := d hq
    cases hh : e.heads[q]? with
    | none =>
      have := List.getElem?_eq_none_iff.mp hh
      have := hi.len
      omega
    | some l =>
      cases l with
      | nil => exact absurd hh hne
      | cons ent rest =>
        right
        simp only [hq, if_true]
        have hfl := flat_skip ent rest e.heads q hbelow hh
        refine ⟨ent, (e.heads.set q rest).flatten, { e with minq := q, heads := e.heads.set q rest, qPool := (MPool.free e.qPool ent.qid m).1 },
          (MPool.free e.qPool ent.qid m).2, hfl, by rw [hh], rfl, ⟨by simp [hi.len], Nat.le_of_lt hq, ?_⟩,
          ⟨rfl, rfl, rfl, rfl, rfl, rfl⟩, rfl, step_mpFree _ _ _⟩
        intro j hj
        have hj' : j < q := hj
        show (e.heads.set q rest)[j]? = some []
        rw [List.getElem?_set_ne (by omega)]
        exact hbelow j hj
  · have hq32 : q = 32 := by omega
    subst hq32
    left
    have hfl : e.heads.flatten = [] := flat_nil e.heads (fun j hj => hbelow j (by rw [← hi.len]; exact hj))
    have hnone : e.heads[32]? = none := List.getElem?_eq_none_iff.mpr (by rw [hi.len]; exact Nat.le_refl _)
    simp [hfl, hnone]

theorem immInv_congr {e e' : Ev} (h : ImmInv e) (h1 : e'.heads = e.heads) (h2 : e'.minq = e.minq) : ImmInv e' :=
  ⟨by rw [h1]; exact h.len, by rw [h2]; exact h.minq, fun j hj => by rw [h1]; exact h.below j (by rw [← h2]; exact hj)⟩

theorem immInv_empty {e : Ev} (hi : ImmInv e) (hfl : e.heads.flatten = []) : ImmInv { e with minq := 32 } := by
  refine ⟨hi.len, Nat.le_refl _, ?_⟩
  intro j hj
  have hj' : j < e.heads.length := by rw [hi.len]; exact hj
  show e.heads[j]? = some []
  rw [List.getElem?_eq_getElem hj']
  rw [List.flatten_eq_nil_iff] at hfl
  rw [hfl _ (List.getElem_mem hj')]

/-- `runImm` with enough fuel runs every immediate event, in the order of `heads.flatten`, and empties the queues -/
theorem runImm_spec : ∀ (fuel : Nat) (e : Ev) (m : Mem) (ran : List Nat), ImmInv e → e.heads.flatten.length < fuel →
    ∃ e' m', runImm fuel e m ran = (ran ++ e.heads.flatten.map (·.id), e', m') ∧ e'.heads.flatten = [] ∧
      ImmInv e' ∧ ImmFrame e e' ∧ Step m m'
  | 0, _, _, _, _, hf => by omega
  | fuel+1, e, m, ran, hi, hf => by
    unfold runImm
    rcases immGet_spec e m hi with ⟨hfl, hg⟩ | ⟨ent, rest, e1, m1, hfl, hg, hrest, hi1, hfr, hrp, hst⟩
    · rw [hg]
      exact ⟨{ e with minq := 32 }, m, by simp [hfl], hfl, immInv_empty hi hfl, ⟨rfl, rfl, rfl, rfl, rfl, rfl⟩, Step.refl _⟩
    · rw [hg]
      simp only [freerec_eq]
      have hi2 : ImmInv { e1 with recPool := (MPool.free e1.recPool ent.rid m1).1 } := immInv_congr hi1 rfl rfl
      obtain ⟨e', m', hrun, h1, h2, h3, h4⟩ := runImm_spec fuel { e1 with recPool := (MPool.free e1.recPool ent.rid m1).1 }
        (MPool.free e1.recPool ent.rid m1).2 (ran ++ [ent.id]) hi2
        (by show e1.heads.flatten.length < fuel
            rw [hrest]; rw [hfl] at hf; simp only [List.length_cons] at hf; omega)
      refine ⟨e', m', ?_, h1, h2, hfr.trans (ImmFrame.trans ⟨rfl, rfl, rfl, rfl, rfl, rfl⟩ h3),
        hst.trans ((step_mpFree _ _ _).trans h4)⟩
      rw [hrun, hfl]
      show (ran ++ [ent.id] ++ e1.heads.flatten.map (·.id), e', m') = _
      rw [hrest]
      simp

/-- `events_timer_min` allocates a `struct timeval` iff a timer exists -/
def wantTv (e1 : Ev) : Bool :=
  match e1.tq with
  | some t => (Heap.getmin t.q.h).isSome
  | none => false

/-- the second half of `events_run()` (no immediate event was found), `w = wantTv e1` -/
def runTmW (w : Bool) (e1 : Ev) (now : Int) (m1 : Mem) : Bool × List Nat × Ev × Mem :=
  match (if w then m1.malloc tvSize else (true, m1)) with
  | (false, m2) => (false, [], e1, m2)
  | (true, m2) =>
    match netInit e1 m2 with
    | (false, e2, m3) => (false, [], e2, if w then m3.free false else m3)
    | (true, e2, m3) =>
      match runTimers now (e2.timers.length + 1) e2 (if w then m3.free false else m3) [] with
      | (ran, e3, m5) => (true, ran, e3, m5)

def runTm (e1 : Ev) (now : Int) (m1 : Mem) : Bool × List Nat × Ev × Mem := runTmW (wantTv e1) e1 now m1

/-- `events_run()` with an immediate event pending: all immediate events run, in the order of `heads.flatten` -/
theorem run_imm (e : Ev) (now : Int) (m : Mem) (hi : ImmInv e) (hne : e.heads.flatten ≠ []) :
    ∃ e' m', run e now m = (true, e.heads.flatten.map (·.id), e', m') ∧ e'.heads.flatten = [] ∧ ImmInv e' ∧
      ImmFrame e e' ∧ Step m m' := by
  unfold run
  rcases immGet_spec e m hi with ⟨hfl, _⟩ | ⟨ent, rest, e1, m1, hfl, hg, hrest, hi1, hfr, hrp, hst⟩
  · exact absurd hfl hne
  · rw [hg]
    simp only [freerec_eq]
    have hi2 : ImmInv { e1 with recPool := (MPool.free e1.recPool ent.rid m1).1 } := immInv_congr hi1 rfl rfl
    obtain ⟨e', m', hrun, h1, h2, h3, h4⟩ := runImm_spec (e1.heads.flatten.length + 1)
      { e1 with recPool := (MPool.free e1.recPool ent.rid m1).1 } (MPool.free e1.recPool ent.rid m1).2 [ent.id] hi2
      (Nat.lt_succ_self _)
    refine ⟨e', m', ?_, h1, h2, hfr.trans (ImmFrame.trans ⟨rfl, rfl, rfl, rfl, rfl, rfl⟩ h3),
      hst.trans ((step_mpFree _ _ _).trans h4)⟩
    rw [hrun, hfl]
    show (true, [ent.id] ++ e1.heads.flatten.map (·.id), e', m') = _
    rw [hrest]
    simp

/-- `events_run()` without immediate events is its second half -/
theorem run_noimm (e : Ev) (now : Int) (m : Mem) (hi : ImmInv e) (hfl : e.heads.flatten = []) :
    run e now m = runTm { e with minq := 32 } now m := by
  rcases immGet_spec e m hi with ⟨_, hg⟩ | ⟨ent, rest, _, _, hfl', _⟩
  · unfold run
    rw [hg]
    rfl
  · rw [hfl] at hfl'; cases hfl'

end Percival.Proofs.AfMonRun
