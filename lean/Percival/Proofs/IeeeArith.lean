import Percival.Model.Strtod
/-! Helper lemmas for C16 (`Spec/Ieee.lean`): powers of two and absolute values in `Rat`, the nearest-integer
    division `divRound`, the fraction `scaled`. -/
namespace Percival.Proofs.IeeeArith
open Percival.Model.Strtod

/-! ### absolute value -/

theorem abs_cases (x : Rat) : (0 ≤ x ∧ x.abs = x) ∨ (x < 0 ∧ x.abs = -x) := by
  by_cases h : 0 ≤ x
  · exact Or.inl ⟨h, Rat.abs_of_nonneg h⟩
  · have h' : x < 0 := Rat.not_le.mp h
    exact Or.inr ⟨h', Rat.abs_of_nonpos (Rat.le_of_lt h')⟩

/-! ### powers of two -/

theorem two_ne : (2 : Rat) ≠ 0 := by decide

theorem p2_pos (e : Int) : (0 : Rat) < 2 ^ e := Rat.zpow_pos (by decide)

theorem p2_add (a b : Int) : (2 : Rat) ^ (a + b) = 2 ^ a * 2 ^ b := Rat.zpow_add two_ne a b

theorem p2_succ (a : Int) : (2 : Rat) ^ (a + 1) = 2 * 2 ^ a := by
  rw [p2_add, Rat.zpow_one, Rat.mul_comm]

theorem p2_nat (n : Nat) : (2 : Rat) ^ (n : Int) = ((2 ^ n : Nat) : Rat) := by
  rw [Rat.zpow_natCast, Rat.natCast_pow]; rfl

theorem p2_neg_mul (a : Int) : (2 : Rat) ^ (-a) * 2 ^ a = 1 := by
  rw [← p2_add, show -a + a = 0 by omega, Rat.zpow_zero]

theorem p2_sub (a b : Int) : (2 : Rat) ^ (a - b) * 2 ^ b = 2 ^ a := by
  rw [← p2_add]; congr 1; omega

/-- `1 ≤ 2^n` for a natural exponent -/
theorem one_le_p2 (n : Nat) : (1 : Rat) ≤ 2 ^ (n : Int) := by
  rw [p2_nat]
  have : 1 ≤ 2 ^ n := Nat.one_le_two_pow
  have := (Rat.natCast_le_natCast (a := 1) (b := 2 ^ n)).mpr this
  simpa using this

theorem p2_le {a b : Int} (h : a ≤ b) : (2 : Rat) ^ a ≤ 2 ^ b := by
  obtain ⟨n, rfl⟩ := Int.le.dest h
  rw [p2_add]
  have h1 := one_le_p2 n
  have h2 := Rat.mul_le_mul_of_nonneg_left h1 (Rat.le_of_lt (p2_pos a))
  simpa using h2

theorem p2_lt {a b : Int} (h : a < b) : (2 : Rat) ^ a < 2 ^ b := by
  have h1 : (2 : Rat) ^ (a + 1) ≤ 2 ^ b := p2_le (by omega)
  rw [p2_succ] at h1
  have := p2_pos a
  grind

/-- the model's `pow2` is `2^e` -/
theorem pow2_eq (e : Int) : pow2 e = 2 ^ e := by
  unfold pow2
  split
  · next h =>
    obtain ⟨n, rfl⟩ := Int.eq_ofNat_of_zero_le h
    simp [p2_nat]
  · next h =>
    have h' : 0 ≤ -e := by omega
    obtain ⟨n, hn⟩ := Int.eq_ofNat_of_zero_le h'
    have he : e = -(n : Int) := by omega
    subst he
    rw [Rat.zpow_neg, p2_nat]
    simp [Rat.div_def]

/-! ### `scaled`, `divRound` -/

theorem le_of_mul_le_mul_pos {a b c : Rat} (h : a * c ≤ b * c) (hc : 0 < c) : a ≤ b :=
  Rat.le_of_mul_le_mul_right h hc

theorem scaled_spec (n d : Nat) (hd : 0 < d) (e : Int) (q : Rat) (hq : q * d = n) :
    0 < (scaled n d e).2 ∧ ((scaled n d e).1 : Rat) * 2 ^ e = q * (scaled n d e).2 := by
  unfold scaled
  split
  · next h =>
    obtain ⟨k, rfl⟩ := Int.eq_ofNat_of_zero_le h
    simp only [Int.toNat_natCast]
    refine ⟨Nat.mul_pos hd (Nat.two_pow_pos k), ?_⟩
    rw [p2_nat, Rat.natCast_mul, ← hq]
    grind
  · next h =>
    have h' : 0 ≤ -e := by omega
    obtain ⟨k, hk⟩ := Int.eq_ofNat_of_zero_le h'
    have he : e = -(k : Int) := by omega
    subst he
    simp only [Int.neg_neg, Int.toNat_natCast]
    refine ⟨hd, ?_⟩
    rw [Rat.natCast_mul, ← p2_nat, hq.symm]
    have := p2_neg_mul (k : Int)
    grind

/-- `divRound` in `Nat`: within half of `D`, even on a tie, exactness flag -/
theorem divRound_nat (N D : Nat) (hD : 0 < D) :
    2 * N ≤ 2 * ((divRound N D).1 * D) + D ∧ 2 * ((divRound N D).1 * D) ≤ 2 * N + D ∧
    ((2 * N = 2 * ((divRound N D).1 * D) + D ∨ 2 * ((divRound N D).1 * D) = 2 * N + D) → (divRound N D).1 % 2 = 0) ∧
    ((divRound N D).2 = true ↔ N ≠ (divRound N D).1 * D) := by
  have h1 := Nat.div_add_mod N D
  have h2 := Nat.mod_lt N hD
  unfold divRound
  generalize N / D = q at *
  generalize N % D = r at *
  simp only
  rw [Nat.mul_comm D q] at h1
  split
  · next h =>
    rw [Nat.add_mul]
    simp only [Nat.one_mul, decide_eq_true_eq]
    omega
  · next h =>
    simp only [decide_eq_true_eq]
    omega

theorem natCast_le {a b : Nat} (h : a ≤ b) : (a : Rat) ≤ b := Rat.natCast_le_natCast.mpr h

/-- `divRound` seen from the rationals: if `N/D = q/u` then `m·u` is within `u/2` of `q`, `m` is even on a tie,
    and the flag says whether `q = m·u`. -/
theorem divRound_rat (q u : Rat) (hu : 0 < u) (N D : Nat) (hD : 0 < D) (h : (N : Rat) * u = q * D) :
    q ≤ (divRound N D).1 * u + u / 2 ∧ (divRound N D).1 * u - u / 2 ≤ q ∧
    ((q = (divRound N D).1 * u + u / 2 ∨ q = (divRound N D).1 * u - u / 2) → (divRound N D).1 % 2 = 0) ∧
    ((divRound N D).2 = true ↔ q ≠ (divRound N D).1 * u) := by
  obtain ⟨h1, h2, h3, h4⟩ := divRound_nat N D hD
  generalize (divRound N D).1 = m at *
  generalize (divRound N D).2 = ix at *
  have hD' : (0 : Rat) < D := Rat.natCast_pos.mpr hD
  have c1 := natCast_le h1
  have c2 := natCast_le h2
  simp only [Rat.natCast_add, Rat.natCast_mul, Rat.natCast_ofNat] at c1 c2
  have c1' := Rat.mul_le_mul_of_nonneg_right c1 (Rat.le_of_lt hu)
  have c2' := Rat.mul_le_mul_of_nonneg_right c2 (Rat.le_of_lt hu)
  have e1 : q ≤ m * u + u / 2 := by
    apply le_of_mul_le_mul_pos (c := (D : Rat)) _ hD'
    grind
  have e2 : m * u - u / 2 ≤ q := by
    apply le_of_mul_le_mul_pos (c := (D : Rat)) _ hD'
    grind
  refine ⟨e1, e2, ?_, ?_⟩
  · intro ht
    apply h3
    rcases ht with ht | ht
    · left
      have : ((2 * N : Nat) : Rat) = ((2 * (m * D) + D : Nat) : Rat) := by
        simp only [Rat.natCast_add, Rat.natCast_mul, Rat.natCast_ofNat]
        have hune : u ≠ 0 := by grind
        have : ((2 : Rat) * N) * u = (2 * (m * D) + D) * u := by grind
        exact (Rat.mul_eq_zero.mp (by grind : ((2 : Rat) * N - (2 * (m * D) + D)) * u = 0)).elim (by grind) (by grind)
      exact Rat.natCast_inj.mp this
    · right
      have : ((2 * (m * D) : Nat) : Rat) = ((2 * N + D : Nat) : Rat) := by
        simp only [Rat.natCast_add, Rat.natCast_mul, Rat.natCast_ofNat]
        have hune : u ≠ 0 := by grind
        exact (Rat.mul_eq_zero.mp (by grind : ((2 : Rat) * (m * D) - (2 * N + D)) * u = 0)).elim (by grind) (by grind)
      exact Rat.natCast_inj.mp this
  · rw [h4]
    constructor
    · intro hne heq
      apply hne
      have : ((N : Nat) : Rat) = ((m * D : Nat) : Rat) := by
        simp only [Rat.natCast_mul]
        have hune : u ≠ 0 := by grind
        exact (Rat.mul_eq_zero.mp (by grind : ((N : Rat) - m * D) * u = 0)).elim (by grind) (by grind)
      exact Rat.natCast_inj.mp this
    · intro hne heq
      apply hne
      subst heq
      simp only [Rat.natCast_mul] at h
      have hDne : (D : Rat) ≠ 0 := by grind
      exact ((Rat.mul_eq_zero.mp (by grind : (q - m * u) * (D : Rat) = 0)).elim (by grind) (by grind))

end Percival.Proofs.IeeeArith
