import Percival.Spec.Sha256
/-! `Spec.Sha256.schedule` is written with the generic `Spec.extendSchedule nextW`; the C03 proofs were
    developed against the specialised recursion `Sha256.extend`, kept here with its equality. -/
namespace Percival.Spec.Sha256

/-- extend a newest-first schedule by `n` words (`= extendSchedule nextW`) -/
def extend : Nat → List UInt32 → List UInt32
  | 0, ws => ws
  | n+1, ws => match nextW ws with
    | some w => extend n (w :: ws)
    | none => ws

theorem extend_eq (n : Nat) (ws : List UInt32) : extend n ws = extendSchedule nextW n ws := by
  induction n generalizing ws with
  | zero => rfl
  | succ n ih =>
    simp only [extend, extendSchedule]
    cases nextW ws with
    | some w => exact ih _
    | none => rfl

end Percival.Spec.Sha256
