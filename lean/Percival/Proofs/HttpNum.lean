import Percival.Model.Http
import Percival.Spec.HttpResp
/-! Numerals: what `Spec.HttpResp.dec`/`hex` write is what the model's `strtoumax`/`%d` read back. -/
namespace Percival.Proofs.HttpNum
open Percival.Model.Http Percival.Spec.HttpResp

/-- value of a digit list, most significant first -/
def ofDigits (b : Nat) (ds : List Nat) (v0 : Nat) : Nat := ds.foldl (fun v d => v * b + d) v0

theorem natDigits_spec (b : Nat) (hb : 2 ≤ b) : ∀ (fuel n : Nat) (acc : List Nat), n < fuel →
    ∃ ds, natDigits b fuel n acc = ds ++ acc ∧ ds ≠ [] ∧ (∀ d ∈ ds, d < b) ∧ ofDigits b ds 0 = n := by
  intro fuel
  induction fuel with
  | zero => intro n acc h; omega
  | succ fuel ih =>
    intro n acc hn
    simp only [natDigits]
    split
    · rename_i hlt
      exact ⟨[n], by simp, by simp, by simpa using hlt, by simp [ofDigits]⟩
    · rename_i hge
      have hdiv : n / b < fuel := by
        have : n / b < n := Nat.div_lt_self (by omega) (by omega)
        omega
      obtain ⟨ds, h1, h2, h3, h4⟩ := ih (n / b) (n % b :: acc) hdiv
      refine ⟨ds ++ [n % b], by simp [h1], by simp, ?_, ?_⟩
      · intro d hd
        simp only [List.mem_append, List.mem_singleton] at hd
        rcases hd with hd | hd
        · exact h3 d hd
        · subst hd; exact Nat.mod_lt _ (by omega)
      · simp only [ofDigits, List.foldl_append, List.foldl_cons, List.foldl_nil] at h4 ⊢
        rw [h4]
        exact Nat.div_add_mod' n b

theorem digitVal10 : ∀ d : Fin 10, digitVal 10 (digitChar d.val) = some d.val := by decide
theorem digitVal16 : ∀ d : Fin 16, digitVal 16 (digitChar d.val) = some d.val := by decide
theorem digitChar_plain : ∀ d : Fin 16, isSpace (digitChar d.val) = false ∧ digitChar d.val ≠ 45 ∧ digitChar d.val ≠ 43 ∧
    digitChar d.val ≠ 120 ∧ digitChar d.val ≠ 88 ∧ digitChar d.val ≠ 13 ∧ digitChar d.val ≠ 10 ∧ digitChar d.val ≠ 0 ∧
    digitChar d.val ≠ 58 ∧ digitChar d.val ≠ 32 := by decide

theorem digitVal_digitChar (b : Nat) (hb : b = 10 ∨ b = 16) (d : Nat) (hd : d < b) :
    digitVal b (digitChar d) = some d := by
  rcases hb with rfl | rfl
  · exact digitVal10 ⟨d, hd⟩
  · exact digitVal16 ⟨d, hd⟩

/-- reading back a digit string -/
theorem accDigits_digits (b : Nat) (hb : b = 10 ∨ b = 16) (ds : List Nat) (hds : ∀ d ∈ ds, d < b) (rest : List UInt8)
    (cnt v : Nat) :
    accDigits b (ds.map digitChar ++ rest) cnt v = accDigits b rest (cnt + ds.length) (ofDigits b ds v) := by
  induction ds generalizing cnt v with
  | nil => simp [ofDigits]
  | cons d t ih =>
    simp only [List.map_cons, List.cons_append, accDigits]
    rw [digitVal_digitChar b hb d (hds d (by simp))]
    simp only []
    rw [ih (fun d' hd' => hds d' (by simp [hd']))]
    simp only [ofDigits, List.foldl_cons, List.length_cons]
    congr 1
    omega

theorem accDigits_stop (b : Nat) (rest : List UInt8) (cnt v : Nat)
    (h : ∀ c, rest.head? = some c → digitVal b c = none) : accDigits b rest cnt v = (cnt, v, rest) := by
  cases rest with
  | nil => simp [accDigits]
  | cons c t =>
    simp only [accDigits]
    rw [h c (by simp)]

/-- the digits written for `n` in base `b` -/
def digitsOf (b n : Nat) : List Nat := natDigits b (n + 1) n []

theorem digitsOf_spec (b : Nat) (hb : 2 ≤ b) (n : Nat) :
    digitsOf b n ≠ [] ∧ (∀ d ∈ digitsOf b n, d < b) ∧ ofDigits b (digitsOf b n) 0 = n := by
  obtain ⟨ds, h1, h2, h3, h4⟩ := natDigits_spec b hb (n + 1) n [] (by omega)
  simp only [List.append_nil] at h1
  simp only [digitsOf, h1]
  exact ⟨h2, h3, h4⟩

theorem dec_eq (n : Nat) : dec n = (digitsOf 10 n).map digitChar := rfl
theorem hex_eq (n : Nat) : hex n = (digitsOf 16 n).map digitChar := rfl

/-- every byte of a numeral is a plain digit character -/
theorem numeral_bytes (b : Nat) (hb : b = 10 ∨ b = 16) (n : Nat) :
    ∀ c ∈ (digitsOf b n).map digitChar, isSpace c = false ∧ c ≠ 45 ∧ c ≠ 43 ∧ c ≠ 120 ∧ c ≠ 88 ∧ c ≠ 13 ∧ c ≠ 10 ∧
      c ≠ 0 ∧ c ≠ 58 ∧ c ≠ 32 := by
  intro c hc
  simp only [List.mem_map] at hc
  obtain ⟨d, hd, rfl⟩ := hc
  have hlt := (digitsOf_spec b (by rcases hb with rfl | rfl <;> omega) n).2.1 d hd
  have : d < 16 := by rcases hb with rfl | rfl <;> omega
  exact digitChar_plain ⟨d, this⟩

theorem numeral_ne_nil (b : Nat) (hb : 2 ≤ b) (n : Nat) : (digitsOf b n).map digitChar ≠ [] := by
  have := (digitsOf_spec b hb n).1
  simpa using this

theorem dropWhile_head {p : UInt8 → Bool} (l : List UInt8) (h : ∀ c, l.head? = some c → p c = false) :
    l.dropWhile p = l := by
  cases l with
  | nil => rfl
  | cons c t => simp [h c (by simp)]

theorem takeSign_plain (l : List UInt8) (h : ∀ c, l.head? = some c → c ≠ 45 ∧ c ≠ 43) : takeSign l = (false, l) := by
  cases l with
  | nil => rfl
  | cons c t =>
    have := h c (by simp)
    unfold takeSign
    split
    · rename_i heq; simp at heq; exact absurd heq.1 this.1
    · rename_i heq; simp at heq; exact absurd heq.1 this.2
    · rfl

theorem skipHexPrefix_plain (l : List UInt8) (h : ∀ x, l[1]? = some x → x ≠ 120 ∧ x ≠ 88) : skipHexPrefix l = l := by
  unfold skipHexPrefix
  split
  · rename_i x d t
    have := h x (by simp)
    have h1 : (x == 120) = false := by simp [this.1]
    have h2 : (x == 88) = false := by simp [this.2]
    simp [h1, h2]
  · rfl

/-- a numeral followed by something which is not a digit (and, for hex, not an `x`) -/
structure After (b : Nat) (rest : List UInt8) : Prop where
  nodigit : ∀ c, rest.head? = some c → digitVal b c = none
  nox : b = 16 → ∀ c, rest.head? = some c → c ≠ 120 ∧ c ≠ 88

theorem head_numeral_append (b : Nat) (hb : b = 10 ∨ b = 16) (n : Nat) (rest : List UInt8) :
    ∃ c, ((digitsOf b n).map digitChar ++ rest).head? = some c ∧ c ∈ (digitsOf b n).map digitChar := by
  have hne := numeral_ne_nil b (by rcases hb with rfl | rfl <;> omega) n
  obtain ⟨c, t, hct⟩ := List.exists_cons_of_ne_nil hne
  exact ⟨c, by rw [hct]; simp, by rw [hct]; simp⟩

theorem second_numeral_append (b : Nat) (hb : b = 10 ∨ b = 16) (n : Nat) (rest : List UInt8) (ha : After b rest)
    (h16 : b = 16) :
    ∀ x, ((digitsOf b n).map digitChar ++ rest)[1]? = some x → x ≠ 120 ∧ x ≠ 88 := by
  intro x hx
  have hne := numeral_ne_nil b (by rcases hb with rfl | rfl <;> omega) n
  obtain ⟨c, t, hct⟩ := List.exists_cons_of_ne_nil hne
  rw [hct] at hx
  simp only [List.cons_append, List.getElem?_cons_succ] at hx
  cases t with
  | nil =>
    simp only [List.nil_append] at hx
    exact ha.nox h16 x (by rw [List.head?_eq_getElem?]; exact hx)
  | cons c2 t2 =>
    simp at hx
    have hm : c2 ∈ (digitsOf b n).map digitChar := by rw [hct]; simp
    have := numeral_bytes b hb n c2 hm
    subst hx
    exact ⟨this.2.2.2.1, this.2.2.2.2.1⟩

theorem strtoumax_numeral (b : Nat) (hb : b = 10 ∨ b = 16) (n : Nat) (rest : List UInt8) (ha : After b rest) :
    strtoumax b ((digitsOf b n).map digitChar ++ rest) =
      { digits := true, neg := false, mag := n, rest := rest } := by
  obtain ⟨c, hc, hcm⟩ := head_numeral_append b hb n rest
  have hcb := numeral_bytes b hb n c hcm
  have hspec := digitsOf_spec b (by rcases hb with rfl | rfl <;> omega) n
  have h1 : ((digitsOf b n).map digitChar ++ rest).dropWhile isSpace = (digitsOf b n).map digitChar ++ rest :=
    dropWhile_head _ (fun c' hc' => by rw [hc] at hc'; cases hc'; exact hcb.1)
  have h2 : takeSign ((digitsOf b n).map digitChar ++ rest) = (false, (digitsOf b n).map digitChar ++ rest) :=
    takeSign_plain _ (fun c' hc' => by rw [hc] at hc'; cases hc'; exact ⟨hcb.2.1, hcb.2.2.1⟩)
  have h4 : accDigits b ((digitsOf b n).map digitChar ++ rest) 0 0 = ((digitsOf b n).length, n, rest) := by
    rw [accDigits_digits b hb _ hspec.2.1, accDigits_stop b rest _ _ ha.nodigit, hspec.2.2]
    simp
  have hlen : 0 < (digitsOf b n).length := List.length_pos_iff.mpr hspec.1
  simp only [strtoumax, h1, h2]
  have h5 : (if (b == 16) = true then skipHexPrefix ((digitsOf b n).map digitChar ++ rest)
      else (digitsOf b n).map digitChar ++ rest) = (digitsOf b n).map digitChar ++ rest := by
    split
    · rename_i h16
      exact skipHexPrefix_plain _ (second_numeral_append b hb n rest ha (by simpa using h16))
    · rfl
  rw [h5, h4]
  simp [hlen]

theorem parsenumSize_numeral (b : Nat) (hb : b = 10 ∨ b = 16) (n : Nat) (rest : List UInt8) (ha : After b rest)
    (trailing : Bool) (htr : trailing = true ∨ rest = []) (hn : n ≤ SIZE_MAX) :
    parsenumSize b trailing ((digitsOf b n).map digitChar ++ rest) = some n := by
  simp only [parsenumSize, strtoumax_numeral b hb n rest ha]
  rcases htr with h | h
  · subst h; simp; omega
  · subst h; simp; omega

theorem scanInt_numeral (ovf : Bool → Nat → Int) (n : Nat) (rest : List UInt8) (ha : After 10 rest)
    (hn : (n : Int) ≤ INT_MAX) :
    scanInt ovf ((digitsOf 10 n).map digitChar ++ rest) = some ((n : Int), rest) := by
  obtain ⟨c, hc, hcm⟩ := head_numeral_append 10 (Or.inl rfl) n rest
  have hcb := numeral_bytes 10 (Or.inl rfl) n c hcm
  have hspec := digitsOf_spec 10 (by omega) n
  have h1 : ((digitsOf 10 n).map digitChar ++ rest).dropWhile isSpace = (digitsOf 10 n).map digitChar ++ rest :=
    dropWhile_head _ (fun c' hc' => by rw [hc] at hc'; cases hc'; exact hcb.1)
  have h2 : takeSign ((digitsOf 10 n).map digitChar ++ rest) = (false, (digitsOf 10 n).map digitChar ++ rest) :=
    takeSign_plain _ (fun c' hc' => by rw [hc] at hc'; cases hc'; exact ⟨hcb.2.1, hcb.2.2.1⟩)
  have h4 : accDigits 10 ((digitsOf 10 n).map digitChar ++ rest) 0 0 = ((digitsOf 10 n).length, n, rest) := by
    rw [accDigits_digits 10 (Or.inl rfl) _ hspec.2.1, accDigits_stop 10 rest _ _ ha.nodigit, hspec.2.2]
    simp
  have hlen : 0 < (digitsOf 10 n).length := List.length_pos_iff.mpr hspec.1
  simp only [scanInt, h1, h2, h4]
  have hz : ((digitsOf 10 n).length == 0) = false := by
    cases hl : (digitsOf 10 n).length with
    | zero => omega
    | succ k => rfl
  simp only [hz]
  have hmin : INT_MIN ≤ (n : Int) := by
    have : (0 : Int) ≤ (n : Int) := Int.natCast_nonneg n
    simp only [INT_MIN]; omega
  simp [hmin, hn]

end Percival.Proofs.HttpNum
