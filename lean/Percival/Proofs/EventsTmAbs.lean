import Percival.Proofs.EventsC04Tm
/-!
# timers: monitor-independent facts about `events_timer.c` over the timer-queue contract (C04/C05 helper lemmas)
-/
set_option linter.unusedSimpArgs false
namespace Percival.Proofs.EventsC04
open Percival.Spec.Events Percival.Model.Events Percival.Model
open Percival.Proofs.EventsTQ Percival.Proofs.EventsImm

/-! ## monitor-independent facts about the timer side (used by the C05 relation) -/

/-- registering a timer: well-formedness and the new view -/
theorem tm_add {C : TQContract} {tq : TimerQueue.TQ} {timers : List (Nat × TimerRec)} {nextRec : Nat}
    (h : TmOk C tq timers nextRec) (clock id usec : Nat) (sec us : Int)
    (hnot : ∀ t, (id, t) ∉ timers)
    (hgt : gettimeout clock ((usec / 1000000 : Nat) : Int) ((usec % 1000000 : Nat) : Int) = (sec, us)) :
    TmOk C (TimerQueue.add tq nextRec sec us id)
      ((id, { qrec := nextRec, osec := ((usec / 1000000 : Nat) : Int), ousec := ((usec % 1000000 : Nat) : Int) }) :: timers)
      (nextRec + 1) ∧
    ∀ id' us' dl', TmView (TimerQueue.add tq nextRec sec us id)
        ((id, { qrec := nextRec, osec := ((usec / 1000000 : Nat) : Int), ousec := ((usec % 1000000 : Nat) : Int) }) :: timers) id' us' dl' ↔
      (id' = id ∧ us' = usec ∧ dl' = clock + usec) ∨ TmView tq timers id' us' dl' := by
  have hsp := gettimeout_spec clock ((usec / 1000000 : Nat) : Int) ((usec % 1000000 : Nat) : Int) (by omega) (by omega) (by omega)
  rw [hgt] at hsp
  simp only at hsp
  obtain ⟨hsum, hs0, hu0, hu1⟩ := hsp
  have hfreshHeap : nextRec ∉ tq.h.a.toList := by
    intro hmem
    rw [h.perm.mem_iff] at hmem
    obtain ⟨p, hp, hpe⟩ := List.mem_map.mp hmem
    have := h.fresh p hp
    omega
  obtain ⟨hinv, hperm, hrecs⟩ := C.add tq nextRec sec us id h.inv hfreshHeap
  refine ⟨⟨hinv, ?_, ?_, ?_, ?_, ?_⟩, ?_⟩
  · simp only [List.map_cons, List.nodup_cons]
    refine ⟨?_, h.keys⟩
    intro hmem
    obtain ⟨p, hp, hpe⟩ := List.mem_map.mp hmem
    exact hnot p.2 (by rw [← hpe]; exact hp)
  · simp only [List.map_cons, List.nodup_cons]
    refine ⟨?_, h.recsNd⟩
    intro hmem
    obtain ⟨p, hp, hpe⟩ := List.mem_map.mp hmem
    have := h.fresh p hp
    omega
  · simp only [List.map_cons]
    exact hperm.trans (List.Perm.cons _ h.perm)
  · intro p hp
    rcases List.mem_cons.mp hp with rfl | hp
    · show nextRec < nextRec + 1; omega
    · have := h.fresh p hp
      show p.2.qrec < nextRec + 1; omega
  · intro p hp
    rw [hrecs]
    rcases List.mem_cons.mp hp with rfl | hp
    · refine ⟨⟨sec, us, id⟩, by simp [tq_lookup_cons], rfl, hs0, hu0, hu1, by simp only; omega, by simp only; omega, by simp only; omega⟩
    · obtain ⟨x, hx, rest⟩ := h.bound p hp
      refine ⟨x, ?_, rest⟩
      rw [tq_lookup_cons]
      have := h.fresh p hp
      have hne : ¬ p.2.qrec = nextRec := by omega
      simp [hne, hx]
  · intro id' us' dl'
    unfold TmView
    rw [hrecs]
    constructor
    · rintro ⟨t, x, hm, hx, h1, h2⟩
      rcases List.mem_cons.mp hm with heq | hm
      · left
        simp only [Prod.mk.injEq] at heq
        obtain ⟨rfl, rfl⟩ := heq
        simp only [tq_lookup_cons, if_true, Option.some.injEq] at hx
        subst hx
        simp only at h1 h2
        refine ⟨rfl, by omega, by omega⟩
      · right
        refine ⟨t, x, hm, ?_, h1, h2⟩
        rw [tq_lookup_cons] at hx
        have := h.fresh _ hm
        have hne : ¬ t.qrec = nextRec := by simp only at this; omega
        simpa [hne] using hx
    · rintro (⟨rfl, rfl, rfl⟩ | ⟨t, x, hm, hx, h1, h2⟩)
      · refine ⟨_, ⟨sec, us, id'⟩, List.mem_cons_self, by simp [tq_lookup_cons], ?_, ?_⟩
        · simp only; rw [hsum]; omega
        · simp only; omega
      · refine ⟨t, x, List.mem_cons_of_mem _ hm, ?_, h1, h2⟩
        rw [tq_lookup_cons]
        have := h.fresh _ hm
        have hne : ¬ t.qrec = nextRec := by simp only at this; omega
        simp [hne, hx]

/-- resetting timer `id` -/
theorem tm_reset {C : TQContract} {tq : TimerQueue.TQ} {timers : List (Nat × TimerRec)} {nextRec : Nat}
    (h : TmOk C tq timers nextRec) (clock id : Nat) (t : TimerRec) (sec us : Int) (us0 dl0 : Nat)
    (hm : (id, t) ∈ timers) (hview : TmView tq timers id us0 dl0) (hdl : dl0 ≤ clock + us0)
    (hgt : gettimeout clock t.osec t.ousec = (sec, us)) :
    ∃ q', TimerQueue.increase tq t.qrec sec us = some q' ∧ TmOk C q' timers nextRec ∧
      ∀ id' us' dl', TmView q' timers id' us' dl' ↔
        (id' = id ∧ us' = us0 ∧ dl' = clock + us0) ∨ (id' ≠ id ∧ TmView tq timers id' us' dl') := by
  obtain ⟨x, hx, hptr, h1, h2, h3, h4, h5, h6⟩ := h.bound (id, t) hm
  simp only at hx hptr h4 h5 h6
  -- the view of `id` is determined
  have hdet : us0 = (t.osec * 1000000 + t.ousec).toNat ∧ dl0 = (x.sec * 1000000 + x.usec).toNat := by
    obtain ⟨t', x', hm', hx', e1, e2⟩ := hview
    have htt : t' = t := by
      have := inj_of_nodup_map (fun p : Nat × TimerRec => p.1) timers h.keys _ hm' _ hm rfl
      simp only [Prod.mk.injEq, true_and] at this; exact this
    subst htt
    rw [hx] at hx'; cases hx'
    constructor <;> omega
  obtain ⟨hus0, hdl0⟩ := hdet
  have hsp := gettimeout_spec clock t.osec t.ousec h4 h5 h6
  rw [hgt] at hsp
  simp only at hsp
  obtain ⟨hsum, hs0, hu0, hu1⟩ := hsp
  have hge : TimerQueue.tvKey x.sec x.usec ≤ TimerQueue.tvKey sec us := by
    rw [tvKey_le _ _ _ _ h2 h3 hu0 hu1, hsum]
    omega
  obtain ⟨q', hinc, hinv, hperm, hrecs⟩ :=
    C.increase tq t.qrec sec us x h.inv (qrec_mem_heap h id t hm) hx hge
  have hother : ∀ p ∈ timers, p.2.qrec = t.qrec → p = (id, t) := by
    intro p hp hq
    exact inj_of_nodup_map (fun p : Nat × TimerRec => p.2.qrec) timers h.recsNd p hp (id, t) hm hq
  refine ⟨q', hinc, ⟨hinv, h.keys, h.recsNd, hperm.trans h.perm, h.fresh, ?_⟩, ?_⟩
  · intro p hp
    rw [hrecs, tq_lookup_cons]
    by_cases hq : p.2.qrec = t.qrec
    · have := hother p hp hq; subst this
      simp only [if_true]
      exact ⟨_, rfl, hptr, hs0, hu0, hu1, h4, h5, h6⟩
    · simp only [hq, if_false]; exact h.bound p hp
  · intro id' us' dl'
    unfold TmView
    rw [hrecs]
    constructor
    · rintro ⟨t', x', hm', hx', e1, e2⟩
      by_cases hid : id' = id
      · left
        subst hid
        have htt : t' = t := by
          have := inj_of_nodup_map (fun p : Nat × TimerRec => p.1) timers h.keys _ hm' _ hm rfl
          simp only [Prod.mk.injEq, true_and] at this; exact this
        subst htt
        simp only [tq_lookup_cons, if_true, Option.some.injEq] at hx'
        subst hx'
        simp only at e1
        refine ⟨rfl, by omega, by omega⟩
      · right
        refine ⟨hid, t', x', hm', ?_, e1, e2⟩
        rw [tq_lookup_cons] at hx'
        have hq : ¬ t'.qrec = t.qrec := by
          intro hq
          have := hother _ hm' hq
          simp only [Prod.mk.injEq] at this
          exact hid this.1
        simpa [hq] using hx'
    · rintro (⟨rfl, rfl, rfl⟩ | ⟨hne, t', x', hm', hx', e1, e2⟩)
      · refine ⟨t, { x with sec := sec, usec := us }, hm, by simp [tq_lookup_cons], ?_, ?_⟩
        · simp only; rw [hsum]; omega
        · omega
      · refine ⟨t', x', hm', ?_, e1, e2⟩
        rw [tq_lookup_cons]
        have hq : ¬ t'.qrec = t.qrec := by
          intro hq
          have := hother _ hm' hq
          simp only [Prod.mk.injEq] at this
          exact hne this.1
        simp [hq, hx']

/-- the view of a registered timer exists and is unique -/
theorem tmView_of_mem {C : TQContract} {tq : TimerQueue.TQ} {timers : List (Nat × TimerRec)} {nextRec : Nat}
    (h : TmOk C tq timers nextRec) (id : Nat) (t : TimerRec) (hm : (id, t) ∈ timers) :
    ∃ us dl x, TmView tq timers id us dl ∧ TimerQueue.lookup tq.recs t.qrec = some x ∧ x.ptr = id ∧
      (x.sec * 1000000 + x.usec).toNat = dl ∧ 0 ≤ x.sec ∧ 0 ≤ x.usec ∧ x.usec < 1000000 ∧
      ∀ us' dl', TmView tq timers id us' dl' → us' = us ∧ dl' = dl := by
  obtain ⟨x, hx, hptr, h1, h2, h3, h4, h5, h6⟩ := h.bound (id, t) hm
  simp only at hx hptr h4 h5 h6
  refine ⟨(t.osec * 1000000 + t.ousec).toNat, (x.sec * 1000000 + x.usec).toNat, x,
    ⟨t, x, hm, hx, by omega, by omega⟩, hx, hptr, rfl, h1, h2, h3, ?_⟩
  rintro us' dl' ⟨t', x', hm', hx', e1, e2⟩
  have htt : t' = t := by
    have := inj_of_nodup_map (fun p : Nat × TimerRec => p.1) timers h.keys _ hm' _ hm rfl
    simp only [Prod.mk.injEq, true_and] at this; exact this
  subst htt
  rw [hx] at hx'; cases hx'
  constructor <;> omega


theorem key_of_lookup (recs : List (Nat × TimerQueue.Rec)) (r : Nat) (x : TimerQueue.Rec)
    (h : TimerQueue.lookup recs r = some x) : TimerQueue.key recs r = TimerQueue.tvKey x.sec x.usec := by
  unfold TimerQueue.key; rw [h]

/-- the key of a registered timer's queue record is its deadline -/
theorem view_key {C : TQContract} {tq : TimerQueue.TQ} {timers : List (Nat × TimerRec)} {nextRec : Nat}
    (h : TmOk C tq timers nextRec) (id us dl : Nat) (hv : TmView tq timers id us dl) :
    ∃ t x, (id, t) ∈ timers ∧ t.qrec ∈ tq.h.a.toList ∧ TimerQueue.lookup tq.recs t.qrec = some x ∧
      x.sec * 1000000 + x.usec = dl ∧ 0 ≤ x.usec ∧ x.usec < 1000000 := by
  obtain ⟨t, x, hm, hx, e1, _⟩ := hv
  obtain ⟨x', hx', _, _, h2, h3, _⟩ := h.bound (id, t) hm
  simp only at hx'
  rw [hx] at hx'; cases hx'
  exact ⟨t, x, hm, qrec_mem_heap h id t hm, hx, e1, h2, h3⟩

/-- the owner of a record that is in the heap -/
theorem owner_of_rec {C : TQContract} {tq : TimerQueue.TQ} {timers : List (Nat × TimerRec)} {nextRec : Nat}
    (h : TmOk C tq timers nextRec) (rr : Nat) (hr : rr ∈ tq.h.a.toList) :
    ∃ id t, (id, t) ∈ timers ∧ t.qrec = rr := by
  have hrm : rr ∈ timers.map (·.2.qrec) := (h.perm.mem_iff).mp hr
  obtain ⟨⟨id0, t⟩, hm, hq⟩ := List.mem_map.mp hrm
  exact ⟨id0, t, hm, hq⟩

/-- `events_timer_get` released a timer: it is registered, due, and no registered timer has an earlier deadline -/
theorem tm_getptr_some {C : TQContract} {tq : TimerQueue.TQ} {timers : List (Nat × TimerRec)} {nextRec : Nat}
    (h : TmOk C tq timers nextRec) (clock : Nat) (q' : TimerQueue.TQ) (rr id : Nat)
    (hg : TimerQueue.getptr tq ((clock / 1000000 : Nat) : Int) ((clock % 1000000 : Nat) : Int) = (q', some (rr, id))) :
    ∃ us dl, TmView tq timers id us dl ∧ dl ≤ clock ∧
      (∀ id' us' dl', TmView tq timers id' us' dl' → dl ≤ dl') ∧
      TmOk C q' (timers.filter (fun p => p.1 != id)) nextRec ∧ q'.recs = tq.recs := by
  have hc := C.getptr tq ((clock / 1000000 : Nat) : Int) ((clock % 1000000 : Nat) : Int) h.inv
  rw [hg] at hc
  obtain ⟨hleast, hkey, ⟨x, hx, hp⟩, hinv, hperm, hrecs⟩ := hc
  obtain ⟨id0, t, hm, hq⟩ := owner_of_rec h rr hleast.1
  obtain ⟨us, dl, x', hv, hx', hptr, hdl, h1, h2, h3, _⟩ := tmView_of_mem h id0 t hm
  rw [hq, hx] at hx'; cases hx'
  have hid : id = id0 := by rw [hp, hptr]
  subst hid
  refine ⟨us, dl, hv, ?_, ?_, tmOk_remove h id t hm hinv (by rw [hq]; exact hperm) hrecs, hrecs⟩
  · rw [key_of_lookup _ _ _ hx, tvKey_le _ _ _ _ h2 h3 (by omega) (by omega)] at hkey
    omega
  · intro id' us' dl' hv'
    obtain ⟨t', x', _, hheap, hx', e1, g2, g3⟩ := view_key h id' us' dl' hv'
    have := hleast.2 _ hheap
    rw [key_of_lookup _ _ _ hx, key_of_lookup _ _ _ hx', tvKey_le _ _ _ _ h2 h3 g2 g3] at this
    omega

/-- `events_timer_get` released nothing: no registered timer is due -/
theorem tm_getptr_none {C : TQContract} {tq : TimerQueue.TQ} {timers : List (Nat × TimerRec)} {nextRec : Nat}
    (h : TmOk C tq timers nextRec) (clock : Nat) (q' : TimerQueue.TQ)
    (hg : TimerQueue.getptr tq ((clock / 1000000 : Nat) : Int) ((clock % 1000000 : Nat) : Int) = (q', none)) :
    q' = tq ∧ ∀ id' us' dl', TmView tq timers id' us' dl' → clock < dl' := by
  have hc := C.getptr tq ((clock / 1000000 : Nat) : Int) ((clock % 1000000 : Nat) : Int) h.inv
  rw [hg] at hc
  obtain ⟨heq, hall⟩ := hc
  refine ⟨heq, ?_⟩
  intro id' us' dl' hv'
  obtain ⟨t', x', _, hheap, hx', e1, g2, g3⟩ := view_key h id' us' dl' hv'
  have := hall _ hheap
  rw [key_of_lookup _ _ _ hx'] at this
  have hle := (tvKey_le x'.sec x'.usec ((clock / 1000000 : Nat) : Int) ((clock % 1000000 : Nat) : Int) g2 g3 (by omega) (by omega))
  have hnot : ¬ (TimerQueue.tvKey x'.sec x'.usec ≤ TimerQueue.tvKey ((clock / 1000000 : Nat) : Int) ((clock % 1000000 : Nat) : Int)) := by omega
  rw [hle] at hnot
  omega

/-- `events_timer_min`: no timers, or the earliest deadline -/
theorem tm_getmin {C : TQContract} {tq : TimerQueue.TQ} {timers : List (Nat × TimerRec)} {nextRec : Nat}
    (h : TmOk C tq timers nextRec) :
    (TimerQueue.getmin tq = none ∧ timers = []) ∨
    (∃ id us dl, TimerQueue.getmin tq = some (((dl / 1000000 : Nat) : Int), ((dl % 1000000 : Nat) : Int)) ∧
      TmView tq timers id us dl ∧ ∀ id' us' dl', TmView tq timers id' us' dl' → dl ≤ dl') := by
  have hc := C.getmin tq h.inv
  cases hg : TimerQueue.getmin tq with
  | none =>
    rw [hg] at hc
    left
    refine ⟨rfl, ?_⟩
    have hp := h.perm
    rw [hc] at hp
    have := hp.length_eq
    simp only [List.length_nil, List.length_map] at this
    exact List.eq_nil_of_length_eq_zero this.symm
  | some su =>
    obtain ⟨s0, u0⟩ := su
    rw [hg] at hc
    obtain ⟨r, x, hleast, hx, rfl, rfl⟩ := hc
    obtain ⟨id0, t, hm, hq⟩ := owner_of_rec h r hleast.1
    obtain ⟨us, dl, x', hv, hx', hptr, hdl, h1, h2, h3, _⟩ := tmView_of_mem h id0 t hm
    rw [hq, hx] at hx'; cases hx'
    right
    refine ⟨id0, us, dl, ?_, hv, ?_⟩
    · have e1 : x.sec = ((dl / 1000000 : Nat) : Int) := by omega
      have e2 : x.usec = ((dl % 1000000 : Nat) : Int) := by omega
      rw [e1, e2]
    · intro id' us' dl' hv'
      obtain ⟨t', x', _, hheap, hx', e1, g2, g3⟩ := view_key h id' us' dl' hv'
      have := hleast.2 _ hheap
      rw [key_of_lookup _ _ _ hx, key_of_lookup _ _ _ hx', tvKey_le _ _ _ _ h2 h3 g2 g3] at this
      omega

end Percival.Proofs.EventsC04
