import Percival.Model.Strto
/-! Helper lemmas for C16: the `strto*` scan computes the longest numeral of `Spec.Numeral`. -/
namespace Percival.Proofs.Numeral
open Percival.Spec.Numeral Percival.Model.Strto

/-! ### white space -/

theorem takeWhile_append_stop {p : UInt8 → Bool} (a : List UInt8) (x : UInt8) (b : List UInt8)
    (ha : ∀ c ∈ a, p c = true) (hx : p x = false) :
    (a ++ x :: b).takeWhile p = a ∧ (a ++ x :: b).dropWhile p = x :: b := by
  induction a with
  | nil => simp [hx]
  | cons c cs ih =>
    have hc : p c = true := ha c (by simp)
    have := ih (fun c hc => ha c (by simp [hc]))
    simp [hc, this]

theorem takeWhile_all {p : UInt8 → Bool} (s : List UInt8) : ∀ c ∈ s.takeWhile p, p c = true := by
  induction s with
  | nil => simp
  | cons x xs ih =>
    intro c hc
    rw [List.takeWhile_cons] at hc
    split at hc
    · rcases List.mem_cons.mp hc with h | h
      · subst h; assumption
      · exact ih c h
    · simp at hc

/-! ### digits -/

theorem digitOf_lt {radix : Nat} {c : UInt8} {d : Nat} (h : digitOf radix c = some d) : d < radix := by
  unfold digitOf at h
  split at h
  · split at h
    · simp at h; omega
    · simp at h
  · simp at h

theorem digitOf_mono {r1 r2 : Nat} {c : UInt8} {d : Nat} (h : digitOf r1 c = some d) (hr : r1 ≤ r2) :
    digitOf r2 c = some d := by
  unfold digitOf at h ⊢
  split at h
  · rename_i d' hd
    split at h
    · simp at h; subst h; simp; omega
    · simp at h
  · simp at h

/-- bytes that are digits of some radix are alphanumeric: in particular not space, sign, or NUL -/
theorem digitVal_some_alnum {c : UInt8} {d : Nat} (h : digitVal c = some d) :
    (0x30 ≤ c ∧ c ≤ 0x39) ∨ (0x61 ≤ c ∧ c ≤ 0x7a) ∨ (0x41 ≤ c ∧ c ≤ 0x5a) := by
  unfold digitVal at h
  split at h
  · left; assumption
  · split at h
    · right; left; assumption
    · split at h
      · right; right; assumption
      · simp at h

theorem digitOf_some_digitVal {radix : Nat} {c : UInt8} {d : Nat} (h : digitOf radix c = some d) :
    digitVal c = some d := by
  unfold digitOf at h
  split at h
  · split at h
    · simp at h; subst h; assumption
    · simp at h
  · simp at h

theorem digit_not_space {radix : Nat} {c : UInt8} {d : Nat} (h : digitOf radix c = some d) :
    isSpace c = false := by
  have := digitVal_some_alnum (digitOf_some_digitVal h)
  unfold isSpace
  rcases this with ⟨h1, h2⟩ | ⟨h1, h2⟩ | ⟨h1, h2⟩ <;>
    (have a := UInt8.le_iff_toNat_le.mp h1; have b := UInt8.le_iff_toNat_le.mp h2
     simp at a b
     have : ¬ (c.toNat = 0x20) := by omega
     have h3 : ¬ (c.toNat ≤ 0x0d) := by omega
     simp [UInt8.le_iff_toNat_le, ← UInt8.toNat_inj]; omega)

theorem scanDigits_spec (radix : Nat) : ∀ (s : List UInt8) (acc cnt : Nat),
    ∃ ds rest acc', s = ds ++ rest ∧ scanDigits radix acc cnt s = (acc', cnt + ds.length, rest) ∧
      digitsVal radix acc ds = some acc' ∧ (∀ c t, rest = c :: t → digitOf radix c = none) := by
  intro s
  induction s with
  | nil => intro acc cnt; exact ⟨[], [], acc, by simp [scanDigits, digitsVal]⟩
  | cons c cs ih =>
    intro acc cnt
    cases hd : digitOf radix c with
    | none =>
      refine ⟨[], c :: cs, acc, by simp, by simp [scanDigits, hd], by simp [digitsVal], ?_⟩
      intro c' t h; injection h with h1 h2; subst h1; exact hd
    | some d =>
      obtain ⟨ds, rest, acc', h1, h2, h3, h4⟩ := ih (acc * radix + d) (cnt + 1)
      refine ⟨c :: ds, rest, acc', by simp [h1], ?_, by simp [digitsVal, hd, h3], h4⟩
      simp only [scanDigits, hd, h2, List.length_cons]
      congr 2; omega

theorem scanDigits_prefix (radix : Nat) : ∀ (ds rest : List UInt8) (acc cnt m : Nat),
    digitsVal radix acc ds = some m →
    ∃ acc' n r, scanDigits radix acc cnt (ds ++ rest) = (acc', cnt + ds.length + n, r) ∧
      (n = 0 → acc' = m) := by
  intro ds
  induction ds with
  | nil =>
    intro rest acc cnt m h
    simp [digitsVal] at h
    obtain ⟨ds2, r, acc', _, h2, h3, _⟩ := scanDigits_spec radix rest acc cnt
    refine ⟨acc', ds2.length, r, by simpa using h2, ?_⟩
    intro h0
    have : ds2 = [] := List.eq_nil_of_length_eq_zero h0
    subst this; simp [digitsVal] at h3; omega
  | cons c cs ih =>
    intro rest acc cnt m h
    cases hd : digitOf radix c with
    | none => simp [digitsVal, hd] at h
    | some d =>
      simp only [digitsVal, hd] at h
      obtain ⟨acc', n, r, h1, h2⟩ := ih rest (acc * radix + d) (cnt + 1) m h
      refine ⟨acc', n, r, ?_, h2⟩
      simp only [List.cons_append, scanDigits, hd, h1, List.length_cons]
      congr 2; omega

/-! ### sign and prefix -/


def hexCond (base : Nat) (s : List UInt8) : Prop :=
  ∃ x h t, s = 0x30 :: x :: h :: t ∧ (base = 0 ∨ base = 16) ∧ isX x = true ∧ isDigit 16 h = true

def plainRadix (base : Nat) (s : List UInt8) : Nat :=
  if base ≠ 0 then base else if s.head? = some 0x30 then 8 else 10

theorem scanPrefix_hex {base : Nat} {x h : UInt8} {t : List UInt8} (hb : base = 0 ∨ base = 16)
    (hx : isX x = true) (hh : isDigit 16 h = true) :
    scanPrefix base (0x30 :: x :: h :: t) = (16, 2, h :: t) := by
  simp [scanPrefix, hb, hx, hh]

theorem scanPrefix_plain {base : Nat} {s : List UInt8} (hn : ¬ hexCond base s) :
    scanPrefix base s = (plainRadix base s, 0, s) := by
  unfold scanPrefix plainRadix
  split
  · rename_i x h t
    have : ¬ ((base = 0 ∨ base = 16) ∧ isX x = true ∧ isDigit 16 h = true) := by
      intro hc; exact hn ⟨x, h, t, rfl, hc⟩
    simp only [this, if_false]
    by_cases hb : base = 0 <;> simp [hb]
  · rename_i h1
    by_cases hb : base = 0 <;> simp [hb]
  · rename_i h1 h2
    by_cases hb : base = 0
    · simp [hb]
      cases s with
      | nil => simp
      | cons c t =>
        simp
        intro hc; subst hc
        exact absurd rfl (h2 t)
    · simp [hb]

theorem scanSign_other {c : UInt8} {t : List UInt8} (h1 : c ≠ 0x2d) (h2 : c ≠ 0x2b) :
    scanSign (c :: t) = (false, 0, c :: t) := by
  unfold scanSign
  split
  · rename_i heq; injection heq with a b; exact absurd a h1
  · rename_i heq; injection heq with a b; exact absurd a h2
  · rfl

def scanValue (r : Scan) : Int := if r.neg then -(r.mag : Int) else (r.mag : Int)

theorem alnum_not_sign {c : UInt8}
    (h : (0x30 ≤ c ∧ c ≤ 0x39) ∨ (0x61 ≤ c ∧ c ≤ 0x7a) ∨ (0x41 ≤ c ∧ c ≤ 0x5a)) :
    c ≠ 0x2d ∧ c ≠ 0x2b ∧ isSpace c = false := by
  have hn : (0x30 ≤ c.toNat ∧ c.toNat ≤ 0x39) ∨ (0x61 ≤ c.toNat ∧ c.toNat ≤ 0x7a) ∨ (0x41 ≤ c.toNat ∧ c.toNat ≤ 0x5a) := by
    simpa [UInt8.le_iff_toNat_le] using h
  refine ⟨?_, ?_, ?_⟩
  · intro h0; subst h0; simp at hn
  · intro h0; subst h0; simp at hn
  · unfold isSpace
    simp only [Bool.or_eq_false_iff, Bool.and_eq_false_iff, beq_eq_false_iff_ne, ne_eq, decide_eq_false_iff_not,
      UInt8.le_iff_toNat_le, ← UInt8.toNat_inj]
    simp
    omega

theorem isX_not_digit16 {x : UInt8} {radix : Nat} (hx : isX x = true) (hr : radix ≤ 16) : digitOf radix x = none := by
  unfold isX at hx
  simp at hx
  rcases hx with h | h <;> subst h <;> simp [digitOf, digitVal] <;> omega

/-- the scan from the sign on: what `scan` does after white space -/
def scanTail (base : Nat) (t1 : List UInt8) : Option (Bool × Nat × Nat) :=
  let (neg, nsign, s2) := scanSign t1
  let (radix, npfx, s3) := scanPrefix base s2
  let (mag, ndig, _) := scanDigits radix 0 0 s3
  if ndig = 0 then none else some (neg, mag, nsign + npfx + ndig)

theorem scan_eq (base : Nat) (s : List UInt8) :
    scan base s = (scanTail base (s.dropWhile isSpace)).map
      (fun r => { neg := r.1, mag := r.2.1, endOff := (s.takeWhile isSpace).length + r.2.2 }) := by
  rcases h1 : scanSign (s.dropWhile isSpace) with ⟨neg, nsign, s2⟩
  rcases h2 : scanPrefix base s2 with ⟨radix, npfx, s3⟩
  rcases h3 : scanDigits radix 0 0 s3 with ⟨mag, ndig, r3⟩
  simp only [scan, scanTail, h1, h2, h3]
  split <;> simp
  omega

/-- after sign: digits with possible prefix -/
theorem scanTail_of_body (base : Nat) (pfx ds rest : List UInt8) (R m : Nat)
    (hpfx : PrefixOk base pfx) (hne : ds ≠ [])
    (hR : R = (if base ≠ 0 then base else if pfx ≠ [] then 16 else if ds.head? = some 0x30 then 8 else 10))
    (hm : digitsVal R 0 ds = some m) :
    ∃ radix npfx s3 mag ndig r3, scanPrefix base (pfx ++ ds ++ rest) = (radix, npfx, s3) ∧
      scanDigits radix 0 0 s3 = (mag, ndig, r3) ∧ pfx.length + ds.length ≤ npfx + ndig ∧ ndig ≠ 0 ∧
      (pfx.length + ds.length = npfx + ndig → mag = m) := by
  obtain ⟨c, cs, rfl⟩ := List.exists_cons_of_ne_nil hne
  cases hc : digitOf R c with
  | none => simp [digitsVal, hc] at hm
  | some d =>
  rcases hpfx with rfl | ⟨hb, hp⟩
  · -- no prefix
    simp only [List.nil_append, ne_eq, not_true_eq_false, if_false, List.head?_cons] at hR ⊢
    by_cases hh : hexCond base (c :: cs ++ rest)
    · obtain ⟨x, h, t, heq, hb, hx, hd⟩ := hh
      simp only [List.cons_append, List.cons.injEq] at heq
      obtain ⟨rfl, heq⟩ := heq
      have hR16 : R ≤ 16 := by
        rcases hb with rfl | rfl <;> simp at hR <;> omega
      have hcs : cs = [] := by
        cases cs with
        | nil => rfl
        | cons c2 cs2 =>
          simp only [List.cons_append, List.cons.injEq] at heq
          obtain ⟨rfl, _⟩ := heq
          simp [digitsVal, hc, isX_not_digit16 hx hR16] at hm
      subst hcs
      simp only [List.nil_append] at heq
      subst heq
      obtain ⟨ds2, r3, acc', h1, h2, h3, h4⟩ := scanDigits_spec 16 (h :: t) 0 0
      have hlen : ds2.length ≠ 0 := by
        intro h0
        have : ds2 = [] := List.eq_nil_of_length_eq_zero h0
        subst this
        simp at h1
        have := h4 h t h1.symm
        simp [isDigit, this] at hd
      refine ⟨16, 2, h :: t, acc', 0 + ds2.length, r3, scanPrefix_hex hb hx hd, h2, ?_, ?_, ?_⟩
      · simp only [List.length_cons, List.length_nil]; omega
      · omega
      · simp only [List.length_cons, List.length_nil]; omega
    · have hpr : plainRadix base (c :: cs ++ rest) = R := by
        simp [plainRadix, hR]
      obtain ⟨acc', n, r3, h1, h2⟩ := scanDigits_prefix R (c :: cs) rest 0 0 m hm
      refine ⟨R, 0, c :: cs ++ rest, acc', _, r3, by rw [scanPrefix_plain hh, hpr], h1, ?_, ?_, ?_⟩
      · simp only [List.length_cons, List.length_nil]; omega
      · simp only [List.length_cons]; omega
      · intro h; apply h2; simp only [List.length_cons, List.length_nil] at h; omega
  · -- prefix 0x / 0X
    have hR16 : R = 16 := by
      rcases hp with rfl | rfl <;> rcases hb with rfl | rfl <;> simp [hR]
    subst hR16
    have hd : isDigit 16 c = true := by simp [isDigit, hc]
    obtain ⟨acc', n, r3, h1, h2⟩ := scanDigits_prefix 16 (c :: cs) rest 0 0 m hm
    have hx : ∃ x, pfx = [0x30, x] ∧ isX x = true := by
      rcases hp with rfl | rfl
      · exact ⟨0x78, rfl, by decide⟩
      · exact ⟨0x58, rfl, by decide⟩
    obtain ⟨x, rfl, hx⟩ := hx
    refine ⟨16, 2, c :: cs ++ rest, acc', _, r3, ?_, h1, ?_, ?_, ?_⟩
    · exact scanPrefix_hex hb hx hd
    · simp only [List.length_cons, List.length_nil]; omega
    · simp only [List.length_cons]; omega
    · intro h; apply h2; simp only [List.length_cons, List.length_nil] at h; omega


/-! ### completeness and maximality of the scan -/

def Alnum (c : UInt8) : Prop := (0x30 ≤ c ∧ c ≤ 0x39) ∨ (0x61 ≤ c ∧ c ≤ 0x7a) ∨ (0x41 ≤ c ∧ c ≤ 0x5a)

theorem scanTail_of_sign (sg : Sign) (t2 : List UInt8) (c0 : UInt8) (t2' : List UInt8)
    (ht2 : t2 = c0 :: t2') (hc0 : Alnum c0) :
    scanSign (sg.bytes ++ t2) = (decide (sg = .minus), sg.bytes.length, t2) ∧
    ∃ x b, sg.bytes ++ t2 = x :: b ∧ isSpace x = false := by
  subst ht2
  obtain ⟨h1, h2, h3⟩ := alnum_not_sign hc0
  cases sg with
  | none => exact ⟨by simp [Sign.bytes, scanSign_other h1 h2], c0, t2', by simp [Sign.bytes], h3⟩
  | plus => exact ⟨by simp [Sign.bytes, scanSign], 0x2b, c0 :: t2', by simp [Sign.bytes], by decide⟩
  | minus => exact ⟨by simp [Sign.bytes, scanSign], 0x2d, c0 :: t2', by simp [Sign.bytes], by decide⟩

theorem scan_of_numeral (base : Nat) (n : Numeral) (v : Int) (rest : List UInt8) (h : n.Denotes base v) :
    ∃ r, scan base (n.bytes ++ rest) = some r ∧ n.bytes.length ≤ r.endOff ∧
      (n.bytes.length = r.endOff → v = scanValue r) := by
  obtain ⟨ws, sg, pfx, ds⟩ := n
  obtain ⟨hws, hpfx, hne, m, hm, hv⟩ := h
  simp only [Numeral.radix] at hm
  simp only at hws hpfx hne hv
  obtain ⟨radix, npfx, s3, mag, ndig, r3, e1, e2, hle, hnd, heq⟩ :=
    scanTail_of_body base pfx ds rest _ m hpfx hne rfl hm
  have hhead : ∃ c0 t2', pfx ++ ds ++ rest = c0 :: t2' ∧ Alnum c0 := by
    rcases hpfx with rfl | ⟨_, rfl | rfl⟩
    · obtain ⟨c, cs, rfl⟩ := List.exists_cons_of_ne_nil hne
      refine ⟨c, cs ++ rest, by simp, ?_⟩
      generalize (if base ≠ 0 then base else if ([] : List UInt8) ≠ [] then 16 else
        if (c :: cs).head? = some 48 then 8 else 10) = R at hm
      cases hc : digitOf R c with
      | none => simp [digitsVal, hc] at hm
      | some d => exact digitVal_some_alnum (digitOf_some_digitVal hc)
    · exact ⟨0x30, 0x78 :: (ds ++ rest), by simp, Or.inl (by decide)⟩
    · exact ⟨0x30, 0x58 :: (ds ++ rest), by simp, Or.inl (by decide)⟩
  obtain ⟨c0, t2', ht2, hc0⟩ := hhead
  obtain ⟨hsign, x, b, hxb, hx⟩ := scanTail_of_sign sg _ c0 t2' ht2 hc0
  have hsplit : Numeral.bytes ⟨ws, sg, pfx, ds⟩ ++ rest = ws ++ x :: b := by
    simp only [Numeral.bytes, List.append_assoc, ← hxb]
  obtain ⟨htw, hdw⟩ := takeWhile_append_stop ws x b hws hx
  rw [hsplit, scan_eq, htw, hdw, ← hxb]
  have : scanTail base (sg.bytes ++ (pfx ++ ds ++ rest)) = some (decide (sg = .minus), mag, sg.bytes.length + npfx + ndig) := by
    simp only [scanTail, hsign, e1, e2, hnd, if_false]
  rw [this]
  refine ⟨_, rfl, ?_, ?_⟩
  · simp only [Numeral.bytes, List.length_append]; omega
  · simp only [Numeral.bytes, List.length_append]
    intro hl
    have : mag = m := heq (by omega)
    subst this
    simp only [scanValue, hv]
    cases sg <;> simp [Sign.apply]


/-! ### soundness of the scan -/

theorem scanSign_spec (t : List UInt8) :
    ∃ sg : Sign, scanSign t = (decide (sg = .minus), sg.bytes.length, t.drop sg.bytes.length) ∧
      t = sg.bytes ++ t.drop sg.bytes.length := by
  unfold scanSign
  split
  · exact ⟨.minus, by simp [Sign.bytes], by simp [Sign.bytes]⟩
  · exact ⟨.plus, by simp [Sign.bytes], by simp [Sign.bytes]⟩
  · exact ⟨.none, by simp [Sign.bytes], by simp [Sign.bytes]⟩

theorem scanPrefix_spec (base : Nat) (t2 : List UInt8) :
    ∃ pfx t3, t2 = pfx ++ t3 ∧ PrefixOk base pfx ∧
      scanPrefix base t2 = ((if base ≠ 0 then base else if pfx ≠ [] then 16 else
        if t3.head? = some 0x30 then 8 else 10), pfx.length, t3) := by
  by_cases hh : hexCond base t2
  · obtain ⟨x, h, t, rfl, hb, hx, hd⟩ := hh
    refine ⟨[0x30, x], h :: t, rfl, Or.inr ⟨hb, ?_⟩, ?_⟩
    · unfold isX at hx; simp at hx; rcases hx with rfl | rfl <;> simp [isHexPrefix]
    · rw [scanPrefix_hex hb hx hd]
      rcases hb with rfl | rfl <;> simp
  · exact ⟨[], t2, rfl, Or.inl rfl, by rw [scanPrefix_plain hh]; simp [plainRadix]⟩

theorem scan_sound (base : Nat) (s : List UInt8) (r : Scan) (h : scan base s = some r) :
    ∃ (n : Numeral) (rest : List UInt8), s = n.bytes ++ rest ∧ n.Denotes base (scanValue r) ∧ r.endOff = n.bytes.length := by
  rw [scan_eq] at h
  obtain ⟨sg, hsign, hs1⟩ := scanSign_spec (s.dropWhile isSpace)
  obtain ⟨pfx, t3, hs2, hpfx, hp⟩ := scanPrefix_spec base ((s.dropWhile isSpace).drop sg.bytes.length)
  generalize hR : (if base ≠ 0 then base else if pfx ≠ [] then 16 else
        if t3.head? = some 0x30 then 8 else 10) = R at hp
  obtain ⟨ds, rest, mag, hs3, hd, hval, _⟩ := scanDigits_spec R t3 0 0
  simp only [scanTail, hsign, hp, hd] at h
  split at h
  · simp at h
  · rename_i hnd
    simp at h
    subst h
    have hne : ds ≠ [] := by intro h0; subst h0; simp at hnd
    refine ⟨⟨s.takeWhile isSpace, sg, pfx, ds⟩, rest, ?_, ⟨takeWhile_all s, hpfx, hne, mag, ?_, ?_⟩, ?_⟩
    · simp only [Numeral.bytes, List.append_assoc]
      rw [← hs3, ← hs2, ← hs1, List.takeWhile_append_dropWhile]
    · have : Numeral.radix base ⟨s.takeWhile isSpace, sg, pfx, ds⟩ = R := by
        rw [← hR]
        simp only [Numeral.radix]
        obtain ⟨c, cs, rfl⟩ := List.exists_cons_of_ne_nil hne
        subst hs3
        simp
      rw [this]; exact hval
    · simp only [scanValue]
      cases sg <;> simp [Sign.apply]
    · simp only [Numeral.bytes, List.length_append]; omega


/-! ### the specification in terms of the scan -/

theorem accepts_iff_scan (base : Nat) (tr : Bool) (s : List UInt8) (v : Int) :
    Accepts base tr s v ↔
      ∃ r, scan base s = some r ∧ (tr = true ∨ r.endOff = s.length) ∧ v = scanValue r := by
  constructor
  · intro h
    unfold Accepts at h
    cases tr with
    | true =>
      simp only [if_true] at h
      obtain ⟨rest, n, hs, hden, hmax⟩ := h
      obtain ⟨r, hr, hle, heq⟩ := scan_of_numeral base n v rest hden
      rw [← hs] at hr
      obtain ⟨n2, rest2, hs2, hden2, hend⟩ := scan_sound base s r hr
      have := hmax n2 _ rest2 hs2 hden2
      exact ⟨r, hr, Or.inl rfl, heq (by omega)⟩
    | false =>
      simp only [Bool.false_eq_true, if_false] at h
      obtain ⟨n, hs, hden⟩ := h
      obtain ⟨r, hr, hle, heq⟩ := scan_of_numeral base n v [] hden
      rw [List.append_nil, ← hs] at hr
      obtain ⟨n2, rest2, hs2, hden2, hend⟩ := scan_sound base s r hr
      have hl : s.length = n2.bytes.length + rest2.length := by rw [hs2]; simp
      have hl2 : s.length = n.bytes.length := by rw [hs]
      exact ⟨r, hr, Or.inr (by omega), heq (by omega)⟩
  · rintro ⟨r, hr, htr, hv⟩
    obtain ⟨n, rest, hs, hden, hend⟩ := scan_sound base s r hr
    unfold Accepts
    cases tr with
    | true =>
      simp only [if_true]
      refine ⟨rest, n, hs, hv ▸ hden, ?_⟩
      intro n' v' rest' hs' hden'
      obtain ⟨r', hr', hle, _⟩ := scan_of_numeral base n' v' rest' hden'
      rw [← hs', hr] at hr'
      injection hr' with hr'
      subst hr'
      omega
    | false =>
      simp only [Bool.false_eq_true, if_false]
      rcases htr with h | h
      · simp at h
      · have hl : s.length = n.bytes.length + rest.length := by rw [hs]; simp
        have : rest = [] := List.eq_nil_of_length_eq_zero (by omega)
        subst this
        exact ⟨n, by simpa using hs, hv ▸ hden⟩

theorem scan_endOff_pos {base : Nat} {s : List UInt8} {r : Scan} (h : scan base s = some r) : 0 < r.endOff := by
  obtain ⟨n, rest, _, hden, hend⟩ := scan_sound base s r h
  obtain ⟨_, _, hne, _⟩ := hden
  have : 0 < n.digits.length := List.length_pos_iff.mpr hne
  simp only [Numeral.bytes, List.length_append] at hend
  omega

theorem scan_endOff_le {base : Nat} {s : List UInt8} {r : Scan} (h : scan base s = some r) : r.endOff ≤ s.length := by
  obtain ⟨n, rest, hs, _, hend⟩ := scan_sound base s r h
  rw [hs, hend]; simp

/-- `parsenum_unsigned`'s own look at the sign agrees with the scan -/
theorem minus_of_scan {base : Nat} {s : List UInt8} {r : Scan} (h : scan base s = some r) :
    (match s.dropWhile isSpace with | 0x2d :: _ => true | _ => false) = r.neg := by
  rw [scan_eq] at h
  simp only [scanTail] at h
  unfold scanSign at h
  split
  · rename_i heq
    rw [heq] at h
    simp only at h
    split at h
    · simp at h
    · simp at h; rw [← h]
  · rename_i hne
    split at h
    · rename_i t heq; exact absurd heq (hne t)
    · simp only at h
      split at h
      · simp at h
      · simp at h; rw [← h]
    · simp only at h
      split at h
      · simp at h
      · simp at h; rw [← h]


end Percival.Proofs.Numeral
