import Percival.Model.AllocFail
import Percival.Proofs.EvRegNet
import Percival.Proofs.EvRegTimer
/-!
# C14, upper layers: the invariant of `Model/AllocFail.lean` and what each call does to it

`Inv w` ties the three views of a world together: the explicit block lists (`live`, `cache`), the object
tables (`reads`, `writes`, …) and the event layer's registry.  Every call keeps it — whether it succeeds or
fails, under every oracle — and that is what "leaks nothing" and "leaves nothing registered" rest on.
-/
namespace Percival.Proofs.AllocFailUpper
open Percival.Model Percival.Model.EvReg Percival.Model.AllocFail
open Percival.Proofs.EvRegNet (regNet netRegistered NetInv)
open Percival.Proofs.EvRegTimer (regImm regTimers TmInv Step Granted)

/-! ## what the tables say should be allocated and registered -/

/-- a block without its size -/
def key (b : Block) : Nat × Site := (b.id, b.site)

def wbufKeys (b : WBuf) : List (Nat × Site) := [(b.buf, .nbwBuf), (b.hdr, .nbwHdr)]

def writerKeys (x : Writer) : List (Nat × Site) :=
  (x.id, .nbwStruct) :: (x.queue.flatMap wbufKeys ++ (match x.curr with | some (wb, _) => wbufKeys wb | none => []))

/-- the blocks the live objects own -/
def expectedLive (w : World) : List (Nat × Site) :=
  w.reads.map (fun r => (r.cookie, Site.rdCookie)) ++ w.writes.map (fun r => (r.cookie, Site.wrCookie)) ++
  w.accepts.map (fun r => (r.cookie, Site.acceptCookie)) ++ w.conns.map (fun k => (k.cookie, Site.connCookie)) ++
  w.readers.flatMap (fun r => [(r.id, Site.nbrStruct), (r.buf, Site.nbrBuf)]) ++
  w.writers.flatMap writerKeys ++
  w.https.flatMap (fun h => [(h.cookie, Site.httpCookie), (h.head, Site.httpHead)])

/-- the network registrations the live objects hold: `(fd, isWrite, id)` -/
def expectedNet (w : World) : List (Nat × Bool × Nat) :=
  w.reads.map (fun r => (r.fd, false, r.cookie)) ++ w.writes.map (fun r => (r.fd, true, r.cookie)) ++
  w.accepts.map (fun r => (r.fd, false, r.cookie)) ++
  w.conns.filterMap (fun k => k.sock.map (fun s => (s, true, k.cookie)))

def expectedTimers (w : World) : List Nat := (w.conns.filter (·.timer)).map (·.cookie)

def expectedImm (w : World) : List Nat :=
  (w.conns.filter (·.imm)).map (·.cookie) ++ (w.readers.filter (·.immediate)).map (·.id)

/-- a cookie pool and the cache agree: the stack lists exactly the parked cookies of its site, and its
stack array is in the cache iff it was allocated -/
structure PoolOk (p : MPool.MP) (site stackSite : Site) (cache : List Block) : Prop where
  len : p.stacklen = p.stack.length
  nodup : p.stack.Nodup
  inCache : ∀ x ∈ p.stack, ∃ b ∈ cache, b.id = x ∧ b.site = site
  fromCache : ∀ b ∈ cache, b.site = site → b.id ∈ p.stack
  arr : p.dyn = true → ∃ b ∈ cache, b.site = stackSite
  arr1 : p.dyn = false → ∀ b ∈ cache, b.site ≠ stackSite
  arrU : ∀ b ∈ cache, ∀ b' ∈ cache, b.site = stackSite → b'.site = stackSite → b = b'

structure Inv (w : World) : Prop where
  net : NetInv w.ev
  tm : TmInv w.ev w.m
  heads : 0 < (regImm w.ev).length
  bad0 : w.bad = 0
  fresh : ∀ b ∈ w.live ++ w.cache, b.id < w.m.n
  nodup : ((w.live ++ w.cache).map (·.id)).Nodup
  own1 : ∀ k ∈ expectedLive w, k ∈ w.live.map key
  own2 : ∀ b ∈ w.live, key b ∈ expectedLive w
  cacheSites : ∀ b ∈ w.cache, b.site = .rdCookie ∨ b.site = .wrCookie ∨ b.site = .rdStack ∨ b.site = .wrStack
  rd : PoolOk w.rdPool .rdCookie .rdStack w.cache
  wr : PoolOk w.wrPool .wrCookie .wrStack w.cache
  regNet : ∀ x, x ∈ regNet w.ev ↔ x ∈ expectedNet w
  regTm : ∀ x, x ∈ regTimers w.ev ↔ x ∈ expectedTimers w
  regImm : ∀ x, x ∈ (regImm w.ev).flatten ↔ x ∈ expectedImm w
  -- the references between objects resolve
  rdRef : ∀ r ∈ w.readers, ∀ c, r.readCookie = some c → ⟨c, r.fd⟩ ∈ w.reads
  wrRef : ∀ x ∈ w.writers, ∀ wb c, x.curr = some (wb, c) → ⟨c, x.fd⟩ ∈ w.writes
  htRef : ∀ h ∈ w.https, ∃ k ∈ w.conns, k.cookie = h.conn

/-- what a failed call must leave as it was: the blocks owned by objects, every table, the registry,
and the double-free counter -/
structure Same (w w' : World) : Prop where
  live : w'.live = w.live
  reads : w'.reads = w.reads
  writes : w'.writes = w.writes
  accepts : w'.accepts = w.accepts
  conns : w'.conns = w.conns
  readers : w'.readers = w.readers
  writers : w'.writers = w.writers
  https : w'.https = w.https
  registry : registry w'.ev = registry w.ev
  bad : w'.bad = w.bad

/-! ## list helpers -/

theorem mem_eraseId {l : List Block} {id : Nat} {b : Block} (h : b ∈ eraseId l id) : b ∈ l := by
  induction l with
  | nil => simp [eraseId] at h
  | cons a rest ih =>
    simp only [eraseId] at h
    split at h
    · exact List.mem_cons_of_mem _ h
    · rcases List.mem_cons.1 h with h1 | h1
      · exact h1 ▸ List.mem_cons_self
      · exact List.mem_cons_of_mem _ (ih h1)

theorem mem_eraseId_of_ne {l : List Block} {id : Nat} {b : Block} (h : b ∈ l) (hne : b.id ≠ id) : b ∈ eraseId l id := by
  induction l with
  | nil => simp at h
  | cons a rest ih =>
    simp only [eraseId]
    rcases List.mem_cons.1 h with h1 | h1
    · subst h1
      have : (b.id == id) = false := by simpa using hne
      simp [this]
    · split
      · exact h1
      · exact List.mem_cons_of_mem _ (ih h1)

theorem eraseId_head (b : Block) (l : List Block) : eraseId (b :: l) b.id = l := by simp [eraseId]

theorem not_mem_eraseId_of_nodup {l : List Block} (hnd : (l.map (·.id)).Nodup) {b : Block} (h : b ∈ eraseId l b.id) : False := by
  induction l with
  | nil => simp [eraseId] at h
  | cons a rest ih =>
    simp only [List.map_cons, List.nodup_cons] at hnd
    simp only [eraseId] at h
    split at h
    · rename_i heq
      have : a.id = b.id := by simpa using heq
      exact hnd.1 (this ▸ List.mem_map_of_mem h)
    · rename_i hne
      rcases List.mem_cons.1 h with h1 | h1
      · subst h1; simp at hne
      · exact ih hnd.2 h1

theorem eraseId_sublist (l : List Block) (id : Nat) : (eraseId l id).Sublist l := by
  induction l with
  | nil => simp [eraseId]
  | cons a rest ih =>
    simp only [eraseId]
    split
    · exact List.sublist_cons_self _ _
    · exact ih.cons₂ _

theorem findId_some {l : List Block} {id : Nat} {b : Block} (h : findId l id = some b) : b ∈ l ∧ b.id = id := by
  unfold findId at h
  exact ⟨List.mem_of_find?_eq_some h, by simpa using List.find?_some h⟩

theorem findId_none {l : List Block} {id : Nat} (h : findId l id = none) : ∀ b ∈ l, b.id ≠ id := by
  unfold findId at h
  intro b hb; simpa using List.find?_eq_none.1 h b hb

theorem findId_of_mem {l : List Block} {b : Block} (h : b ∈ l) : ∃ b', findId l b.id = some b' := by
  cases hf : findId l b.id with
  | some b' => exact ⟨b', rfl⟩
  | none => exact absurd rfl (findId_none hf b h)

theorem findId_unique {l : List Block} (hnd : (l.map (·.id)).Nodup) {b b' : Block} (hb : b ∈ l) (hf : findId l b.id = some b') : b' = b := by
  obtain ⟨hm, hid⟩ := findId_some hf
  exact (List.inj_on_of_nodup_map hnd hm hb hid)

end Percival.Proofs.AllocFailUpper
