import Percival.Model.AllocFail
import Percival.Proofs.EvRegNet
import Percival.Proofs.EvRegTimer
/-!
# C14, upper layers: the invariant of `Model/AllocFail.lean` and what each call does to it

`Inv w` ties the three views of a world together: the explicit block lists (`live`, `cache`), the object
tables (`reads`, `writes`, …) and the event layer's registry.  Every call keeps it — whether it succeeds or
fails, under every oracle — and that is what "leaks nothing" and "leaves nothing registered" rest on.
-/
namespace Percival.Proofs.AllocFailUpper
open Percival.Model Percival.Model.EvReg Percival.Model.AllocFail
open Percival.Proofs.EvRegNet (regNet netRegistered NetInv)
open Percival.Proofs.EvRegTimer (regImm regTimers TmInv Step Granted)
open Percival.Proofs.EArray (malloc_ok malloc_fail free_facts)

/-! ## what the tables say should be allocated and registered -/

/-- a block without its size -/
def key (b : Block) : Nat × Site := (b.id, b.site)

/-- the object tables of a world -/
structure Tables where
  reads : List NetReq
  writes : List NetReq
  accepts : List NetReq
  conns : List Conn
  readers : List Reader
  writers : List Writer
  https : List Http

def tables (w : World) : Tables := ⟨w.reads, w.writes, w.accepts, w.conns, w.readers, w.writers, w.https⟩

def wbufKeys (b : WBuf) : List (Nat × Site) := [(b.buf, .nbwBuf), (b.hdr, .nbwHdr)]

def writerKeys (x : Writer) : List (Nat × Site) :=
  (x.id, .nbwStruct) :: (x.queue.flatMap wbufKeys ++ (match x.curr with | some (wb, _) => wbufKeys wb | none => []))

/-- the duplicated host name of an HTTPS request (`H->sslhost`), if any -/
def hostKeys (h : Http) : List (Nat × Site) :=
  match h.host with
  | some sh => [(sh, Site.httpsHost)]
  | none => []

/-- the blocks the live objects own -/
def expLive (t : Tables) : List (Nat × Site) :=
  t.reads.map (fun r => (r.cookie, Site.rdCookie)) ++ t.writes.map (fun r => (r.cookie, Site.wrCookie)) ++
  t.accepts.map (fun r => (r.cookie, Site.acceptCookie)) ++ t.conns.map (fun k => (k.cookie, Site.connCookie)) ++
  t.readers.flatMap (fun r => [(r.id, Site.nbrStruct), (r.buf, Site.nbrBuf)]) ++
  t.writers.flatMap writerKeys ++
  t.https.flatMap (fun h => (h.cookie, Site.httpCookie) :: (h.head, Site.httpHead) :: hostKeys h)

/-- the network registrations the live objects hold: `(fd, isWrite, id)` -/
def expNet (t : Tables) : List (Nat × Bool × Nat) :=
  t.reads.map (fun r => (r.fd, false, r.cookie)) ++ t.writes.map (fun r => (r.fd, true, r.cookie)) ++
  t.accepts.map (fun r => (r.fd, false, r.cookie)) ++
  t.conns.filterMap (fun k => k.sock.map (fun s => (s, true, k.cookie)))

def expTimers (t : Tables) : List Nat := (t.conns.filter (·.timer)).map (·.cookie)

def expImm (t : Tables) : List Nat :=
  (t.conns.filter (·.imm)).map (·.cookie) ++ (t.readers.filter (·.immediate)).map (·.id)

/-- `live` is exactly what `E` lists: every block an object should own is live, every live block is
owned by an object (nothing has leaked), and no block is owned twice -/
structure Owns (live : List Block) (E : List (Nat × Site)) : Prop where
  own1 : ∀ k ∈ E, k ∈ live.map key
  own2 : ∀ b ∈ live, key b ∈ E
  nodupE : (E.map (·.1)).Nodup

/-- a cookie pool and the cache agree: the stack lists exactly the parked cookies of its site, and its
stack array is in the cache iff it was allocated -/
structure PoolOk (p : MPool.MP) (site stackSite : Site) (cache : List Block) : Prop where
  len : p.stacklen = p.stack.length
  nodup : p.stack.Nodup
  inCache : ∀ x ∈ p.stack, ∃ b ∈ cache, b.id = x ∧ b.site = site
  fromCache : ∀ b ∈ cache, b.site = site → b.id ∈ p.stack
  arr : p.dyn = true → ∃ b ∈ cache, b.site = stackSite
  arr1 : p.dyn = false → ∀ b ∈ cache, b.site ≠ stackSite
  arrU : ∀ b ∈ cache, ∀ b' ∈ cache, b.site = stackSite → b'.site = stackSite → b = b'

/-- the event layer's own consistency (C04's network invariant on `EvReg`, C13's timer-queue invariant,
the 32 immediate queues exist) -/
structure EvOk (e : Ev) (m : Mem) : Prop where
  net : NetInv e
  tm : TmInv e m
  heads : 0 < (regImm e).length

/-- everything except the references between objects -/
structure Inv0 (w : World) : Prop where
  ev : EvOk w.ev w.m
  /-- no double free, no cancel of something that is not registered, so far -/
  bad0 : w.bad = 0
  /-- block ids are indices of requests already made -/
  fresh : ∀ b ∈ w.live ++ w.cache, b.id < w.m.n
  nodup : ((w.live ++ w.cache).map (·.id)).Nodup
  /-- the live blocks are exactly the blocks the objects own -/
  owns : Owns w.live (expLive (tables w))
  cacheSites : ∀ b ∈ w.cache, b.site = .rdCookie ∨ b.site = .wrCookie ∨ b.site = .rdStack ∨ b.site = .wrStack
  rd : PoolOk w.rdPool .rdCookie .rdStack w.cache
  wr : PoolOk w.wrPool .wrCookie .wrStack w.cache
  /-- exactly the registrations of the live objects exist -/
  regNet : (regNet w.ev).Perm (expNet (tables w))
  regTm : (regTimers w.ev).Perm (expTimers (tables w))
  regImm : (regImm w.ev).flatten.Perm (expImm (tables w))
  /-- the explicit lists and the wrapper's counter agree -/
  acct : w.m.live = w.live.length + w.cache.length + w.evLive

/-- the references between objects resolve, and no cookie has two owners -/
structure Refs (t : Tables) : Prop where
  rdRef : ∀ r ∈ t.readers, ∀ c, r.readCookie = some c → ⟨c, r.fd⟩ ∈ t.reads
  wrRef : ∀ x ∈ t.writers, ∀ wb c, x.curr = some (wb, c) → ⟨c, x.fd⟩ ∈ t.writes
  htRef : ∀ h ∈ t.https, ∀ c, h.conn = some c → ∃ k ∈ t.conns, k.cookie = c
  rdOwn : (t.readers.filterMap (·.readCookie)).Nodup
  wrOwn : (t.writers.filterMap (fun x => x.curr.map (·.2))).Nodup
  htOwn : (t.https.filterMap (·.conn)).Nodup

structure Inv (w : World) : Prop extends Inv0 w where
  refs : Refs (tables w)

/-- the table entry a successful `network_connect(_timeo)` makes: out of addresses at once (an immediate
event will report -1), or waiting for descriptor `s` to connect (with a timer if a timeout was asked for) -/
def connEntry (c : Nat) (addrs : List Connect.AddrOutcome) (timeo : Option Int) (s : Nat) : Conn :=
  match skipFailNow addrs with
  | [] => ⟨c, none, false, true⟩
  | _ :: _ => ⟨c, some s, timeo.isSome, false⟩

/-- what a failed call must leave as it was: the blocks owned by objects, every table, the registry,
and the double-free counter -/
structure Same (w w' : World) : Prop where
  live : w'.live = w.live
  tables : tables w' = tables w
  registry : registry w'.ev = registry w.ev
  bad : w'.bad = w.bad

/-! ## list helpers -/

theorem mem_eraseId {l : List Block} {id : Nat} {b : Block} (h : b ∈ eraseId l id) : b ∈ l := by
  induction l with
  | nil => simp [eraseId] at h
  | cons a rest ih =>
    simp only [eraseId] at h
    split at h
    · exact List.mem_cons_of_mem _ h
    · rcases List.mem_cons.1 h with h1 | h1
      · exact h1 ▸ List.mem_cons_self
      · exact List.mem_cons_of_mem _ (ih h1)

theorem mem_eraseId_of_ne {l : List Block} {id : Nat} {b : Block} (h : b ∈ l) (hne : b.id ≠ id) : b ∈ eraseId l id := by
  induction l with
  | nil => simp at h
  | cons a rest ih =>
    simp only [eraseId]
    rcases List.mem_cons.1 h with h1 | h1
    · subst h1
      have : (b.id == id) = false := by simpa using hne
      simp [this]
    · split
      · exact h1
      · exact List.mem_cons_of_mem _ (ih h1)

theorem eraseId_head (b : Block) (l : List Block) : eraseId (b :: l) b.id = l := by simp [eraseId]

theorem not_mem_eraseId_of_nodup {l : List Block} (hnd : (l.map (·.id)).Nodup) {b : Block} (h : b ∈ eraseId l b.id) : False := by
  induction l with
  | nil => simp [eraseId] at h
  | cons a rest ih =>
    simp only [List.map_cons, List.nodup_cons] at hnd
    simp only [eraseId] at h
    split at h
    · rename_i heq
      have : a.id = b.id := by simpa using heq
      exact hnd.1 (this ▸ List.mem_map_of_mem h)
    · rename_i hne
      rcases List.mem_cons.1 h with h1 | h1
      · subst h1; simp at hne
      · exact ih hnd.2 h1

theorem eraseId_sublist (l : List Block) (id : Nat) : (eraseId l id).Sublist l := by
  induction l with
  | nil => simp [eraseId]
  | cons a rest ih =>
    simp only [eraseId]
    split
    · exact List.sublist_cons_self _ _
    · exact ih.cons_cons _

theorem findId_some {l : List Block} {id : Nat} {b : Block} (h : findId l id = some b) : b ∈ l ∧ b.id = id := by
  unfold findId at h
  exact ⟨List.mem_of_find?_eq_some h, by simpa using List.find?_some h⟩

theorem findId_none {l : List Block} {id : Nat} (h : findId l id = none) : ∀ b ∈ l, b.id ≠ id := by
  unfold findId at h
  intro b hb; simpa using List.find?_eq_none.1 h b hb

theorem findId_of_mem {l : List Block} {b : Block} (h : b ∈ l) : ∃ b', findId l b.id = some b' := by
  cases hf : findId l b.id with
  | some b' => exact ⟨b', rfl⟩
  | none => exact absurd rfl (findId_none hf b h)

theorem eq_of_nodup_id : ∀ {l : List Block}, (l.map (·.id)).Nodup → ∀ {a b : Block}, a ∈ l → b ∈ l → a.id = b.id → a = b
  | [], _, _, _, ha, _, _ => by simp at ha
  | x :: rest, hnd, a, b, ha, hb, hid => by
    simp only [List.map_cons, List.nodup_cons] at hnd
    rcases List.mem_cons.1 ha with h1 | h1 <;> rcases List.mem_cons.1 hb with h2 | h2
    · rw [h1, h2]
    · subst h1; exact absurd (hid ▸ List.mem_map_of_mem (f := (·.id)) h2) hnd.1
    · subst h2; exact absurd (hid ▸ List.mem_map_of_mem (f := (·.id)) h1) hnd.1
    · exact eq_of_nodup_id hnd.2 h1 h2 hid

theorem findId_unique {l : List Block} (hnd : (l.map (·.id)).Nodup) {b b' : Block} (hb : b ∈ l) (hf : findId l b.id = some b') : b' = b := by
  obtain ⟨hm, hid⟩ := findId_some hf
  exact eq_of_nodup_id hnd hm hb hid

/-! ## `Owns` -/

theorem Owns.perm {l : List Block} {E E' : List (Nat × Site)} (h : Owns l E) (hp : E.Perm E') : Owns l E' :=
  ⟨fun k hk => h.own1 k (hp.mem_iff.2 hk), fun b hb => hp.mem_iff.1 (h.own2 b hb),
   (hp.map _).nodup_iff.1 h.nodupE⟩

/-- ids occurring in `E` are ids of live blocks -/
theorem Owns.id_mem {l : List Block} {E : List (Nat × Site)} (h : Owns l E) {k : Nat × Site} (hk : k ∈ E) :
    k.1 ∈ l.map (·.id) := by
  obtain ⟨b, hb, rfl⟩ := List.mem_map.1 (h.own1 k hk)
  exact List.mem_map_of_mem hb

theorem Owns.cons {l : List Block} {E : List (Nat × Site)} (h : Owns l E) (b0 : Block)
    (hf : b0.id ∉ l.map (·.id)) : Owns (b0 :: l) (key b0 :: E) := by
  refine ⟨?_, ?_, ?_⟩
  · intro k hk
    rcases List.mem_cons.1 hk with rfl | hk
    · simp
    · exact List.mem_map.2 (by
        obtain ⟨b, hb, hkb⟩ := List.mem_map.1 (h.own1 k hk)
        exact ⟨b, List.mem_cons_of_mem _ hb, hkb⟩)
  · intro b hb
    rcases List.mem_cons.1 hb with rfl | hb
    · exact List.mem_cons_self
    · exact List.mem_cons_of_mem _ (h.own2 b hb)
  · simp only [List.map_cons, List.nodup_cons]
    refine ⟨?_, h.nodupE⟩
    intro hm
    obtain ⟨k, hk, hid⟩ := List.mem_map.1 hm
    exact hf (by have := h.id_mem hk; rw [hid] at this; exact this)

/-- the block owned under the first key goes away -/
theorem Owns.erase {l : List Block} {E : List (Nat × Site)} {k : Nat × Site} (h : Owns l (k :: E))
    (hnd : (l.map (·.id)).Nodup) : Owns (eraseId l k.1) E := by
  have hnE := h.nodupE
  simp only [List.map_cons, List.nodup_cons] at hnE
  refine ⟨?_, ?_, hnE.2⟩
  · intro k' hk'
    obtain ⟨b, hb, hkb⟩ := List.mem_map.1 (h.own1 k' (List.mem_cons_of_mem _ hk'))
    refine List.mem_map.2 ⟨b, mem_eraseId_of_ne hb ?_, hkb⟩
    intro hid
    apply hnE.1
    have : k'.1 = k.1 := by rw [← hkb]; exact hid
    rw [← this]; exact List.mem_map_of_mem hk'
  · intro b hb
    have hbl := mem_eraseId hb
    rcases List.mem_cons.1 (h.own2 b hbl) with hk | hk
    · exfalso
      have hid : b.id = k.1 := by rw [← hk]; rfl
      rw [← hid] at hb
      exact not_mem_eraseId_of_nodup hnd hb
    · exact hk

theorem Owns.nil_iff {l : List Block} (h : Owns l []) : l = [] := by
  cases l with
  | nil => rfl
  | cons b rest => exact absurd (h.own2 b List.mem_cons_self) (by simp)

/-- an entry that is the only one with its key value: the list is that entry and the others -/
theorem perm_filter_key {α : Type} (f : α → Nat) : ∀ (l : List α) (a : α), a ∈ l → (l.map f).Nodup →
    l.Perm (a :: l.filter (fun x => f x != f a))
  | [], a, ha, _ => by simp at ha
  | x :: rest, a, ha, hnd => by
    simp only [List.map_cons, List.nodup_cons] at hnd
    rcases List.mem_cons.1 ha with rfl | ha
    · have : rest.filter (fun x => f x != f a) = rest := by
        apply List.filter_eq_self.2
        intro y hy
        have : f y ≠ f a := fun h => hnd.1 (h ▸ List.mem_map_of_mem hy)
        simpa using this
      simp [this]
    · have hne : f x ≠ f a := fun h => hnd.1 (h ▸ List.mem_map_of_mem ha)
      have hb : (f x != f a) = true := by simpa using hne
      simp only [List.filter_cons, hb, if_true]
      exact ((perm_filter_key f rest a ha hnd.2).cons x).trans (List.Perm.swap a x _)

/-! ## the event layer's calls keep `EvOk` -/

theorem step_of_adv {m m' : Mem} (h : Percival.Proofs.EvRegNet.Adv m m') : Step m m' :=
  ⟨h.1, h.2.1, h.2.2.1, h.2.2.2⟩

theorem regImm_eq (e : Ev) : regImm e = e.heads.map (·.map (·.id)) := rfl

theorem regImm_congr {e e' : Ev} (h : e'.heads = e.heads) : regImm e' = regImm e := by
  simp only [regImm_eq, h]

theorem regTimers_congr {e e' : Ev} (h : e'.timers = e.timers) : regTimers e' = regTimers e := by
  simp only [regTimers, registry, h]

theorem regNet_congr {e e' : Ev} (h : e'.socks = e.socks) : regNet e' = regNet e := by
  simp only [regNet, registry, h]

theorem registry_eq_iff (e e' : Ev) :
    registry e' = registry e ↔ regImm e' = regImm e ∧ regTimers e' = regTimers e ∧ regNet e' = regNet e := by
  constructor
  · intro h; simp only [regImm, regTimers, regNet, h, and_self]
  · intro ⟨h1, h2, h3⟩
    simp only [regImm, regTimers, regNet] at h1 h2 h3
    cases hr : registry e'; cases hr2 : registry e
    rw [hr, hr2] at h1 h2 h3
    simp only at h1 h2 h3
    subst h1 h2 h3; rfl

theorem evOk_step {e : Ev} {m m' : Mem} (h : EvOk e m) (hn : m.n ≤ m'.n) : EvOk e m' :=
  ⟨h.net, EvRegTimer.tmInv_congr e e m m' h.tm rfl rfl hn, h.heads⟩

theorem netReg_step (e : Ev) (id s : Nat) (w : Bool) (m : Mem) : Step m (netReg e id s w m).2.2 :=
  step_of_adv (EvRegNet.netReg_frame e id s w m).2.1

theorem netCancel_step (e : Ev) (s : Nat) (w : Bool) (m : Mem) : Step m (netCancel e s w m).2.2 :=
  step_of_adv (EvRegNet.netCancel_frame e s w m).2

theorem evOk_netReg {e : Ev} {m : Mem} (h : EvOk e m) (id s : Nat) (w : Bool) :
    EvOk (netReg e id s w m).2.1 (netReg e id s w m).2.2 := by
  have ho := EvRegNet.netReg_other e id s w m
  exact ⟨EvRegNet.netReg_inv e id s w m h.net,
    EvRegTimer.tmInv_congr _ _ m _ h.tm ho.2.2.1 ho.2.2.2.1 (netReg_step e id s w m).n,
    by rw [regImm_congr ho.1]; exact h.heads⟩

theorem netReg_regs_other (e : Ev) (id s : Nat) (w : Bool) (m : Mem) :
    regImm (netReg e id s w m).2.1 = regImm e ∧ regTimers (netReg e id s w m).2.1 = regTimers e := by
  have ho := EvRegNet.netReg_other e id s w m
  exact ⟨regImm_congr ho.1, regTimers_congr ho.2.2.2.1⟩

theorem netCancel_regs_other (e : Ev) (s : Nat) (w : Bool) (m : Mem) :
    regImm (netCancel e s w m).2.1 = regImm e ∧ regTimers (netCancel e s w m).2.1 = regTimers e := by
  have ho := EvRegNet.netCancel_other e s w m
  exact ⟨regImm_congr ho.1, regTimers_congr ho.2.2.2.1⟩

theorem evOk_netCancel {e : Ev} {m : Mem} (h : EvOk e m) (s id : Nat) (w : Bool) (hreg : (s, w, id) ∈ regNet e) :
    EvOk (netCancel e s w m).2.1 (netCancel e s w m).2.2 := by
  have ho := EvRegNet.netCancel_other e s w m
  exact ⟨(EvRegNet.netCancel_ok e s id w m h.net hreg).2.1,
    EvRegTimer.tmInv_congr _ _ m _ h.tm ho.2.2.1 ho.2.2.2.1 (netCancel_step e s w m).n,
    by rw [regImm_congr ho.1]; exact h.heads⟩

/-! ## how the expected lists follow the tables -/

theorem expLive_perm {t t' : Tables} (h1 : t.reads.Perm t'.reads) (h2 : t.writes.Perm t'.writes)
    (h3 : t.accepts.Perm t'.accepts) (h4 : t.conns.Perm t'.conns) (h5 : t.readers.Perm t'.readers)
    (h6 : t.writers.Perm t'.writers) (h7 : t.https.Perm t'.https) : (expLive t).Perm (expLive t') := by
  unfold expLive
  exact ((((((h1.map _).append (h2.map _)).append (h3.map _)).append (h4.map _)).append (h5.flatMap_right _)).append
    (h6.flatMap_right _)).append (h7.flatMap_right _)

theorem expNet_perm {t t' : Tables} (h1 : t.reads.Perm t'.reads) (h2 : t.writes.Perm t'.writes)
    (h3 : t.accepts.Perm t'.accepts) (h4 : t.conns.Perm t'.conns) : (expNet t).Perm (expNet t') := by
  unfold expNet
  exact (((h1.map _).append (h2.map _)).append (h3.map _)).append (h4.filterMap _)

theorem expTimers_perm {t t' : Tables} (h4 : t.conns.Perm t'.conns) : (expTimers t).Perm (expTimers t') := by
  unfold expTimers
  exact (h4.filter _).map _

theorem expImm_perm {t t' : Tables} (h4 : t.conns.Perm t'.conns) (h5 : t.readers.Perm t'.readers) :
    (expImm t).Perm (expImm t') := by
  unfold expImm
  exact ((h4.filter _).map _).append ((h5.filter _).map _)

theorem expLive_cons_reads (t : Tables) (a : NetReq) :
    (expLive { t with reads := a :: t.reads }).Perm ((a.cookie, Site.rdCookie) :: expLive t) := by
  rw [List.perm_iff_count]; intro k
  simp only [expLive, List.map_cons, List.count_append, List.count_cons]; omega

theorem expLive_cons_writes (t : Tables) (a : NetReq) :
    (expLive { t with writes := a :: t.writes }).Perm ((a.cookie, Site.wrCookie) :: expLive t) := by
  rw [List.perm_iff_count]; intro k
  simp only [expLive, List.map_cons, List.count_append, List.count_cons]; omega

theorem expLive_cons_accepts (t : Tables) (a : NetReq) :
    (expLive { t with accepts := a :: t.accepts }).Perm ((a.cookie, Site.acceptCookie) :: expLive t) := by
  rw [List.perm_iff_count]
  intro k
  simp only [expLive, List.map_cons, List.count_append, List.count_cons]
  omega

theorem expLive_cons_conns (t : Tables) (a : Conn) :
    (expLive { t with conns := a :: t.conns }).Perm ((a.cookie, Site.connCookie) :: expLive t) := by
  rw [List.perm_iff_count]; intro k
  simp only [expLive, List.map_cons, List.count_append, List.count_cons]; omega

theorem expLive_cons_readers (t : Tables) (a : Reader) :
    (expLive { t with readers := a :: t.readers }).Perm ((a.id, Site.nbrStruct) :: (a.buf, Site.nbrBuf) :: expLive t) := by
  rw [List.perm_iff_count]; intro k
  simp only [expLive, List.flatMap_cons, List.count_append, List.count_cons, List.count_nil]; omega

theorem expLive_cons_writers (t : Tables) (a : Writer) :
    (expLive { t with writers := a :: t.writers }).Perm (writerKeys a ++ expLive t) := by
  rw [List.perm_iff_count]; intro k
  simp only [expLive, List.flatMap_cons, List.count_append]; omega

theorem expLive_cons_https (t : Tables) (a : Http) :
    (expLive { t with https := a :: t.https }).Perm
      ((a.cookie, Site.httpCookie) :: (a.head, Site.httpHead) :: (hostKeys a ++ expLive t)) := by
  rw [List.perm_iff_count]; intro k
  simp only [expLive, List.flatMap_cons, List.cons_append, List.count_append, List.count_cons]; omega

theorem expNet_cons_reads (t : Tables) (a : NetReq) :
    (expNet { t with reads := a :: t.reads }).Perm ((a.fd, false, a.cookie) :: expNet t) := by
  rw [List.perm_iff_count]; intro k
  simp only [expNet, List.map_cons, List.count_append, List.count_cons]; omega

theorem expNet_cons_writes (t : Tables) (a : NetReq) :
    (expNet { t with writes := a :: t.writes }).Perm ((a.fd, true, a.cookie) :: expNet t) := by
  rw [List.perm_iff_count]; intro k
  simp only [expNet, List.map_cons, List.count_append, List.count_cons]; omega

theorem expNet_cons_accepts (t : Tables) (a : NetReq) :
    (expNet { t with accepts := a :: t.accepts }).Perm ((a.fd, false, a.cookie) :: expNet t) := by
  rw [List.perm_iff_count]
  intro k
  simp only [expNet, List.map_cons, List.count_append, List.count_cons]
  omega

theorem expNet_cons_conns (t : Tables) (a : Conn) :
    (expNet { t with conns := a :: t.conns }).Perm ((a.sock.map (fun s => (s, true, a.cookie))).toList ++ expNet t) := by
  rw [List.perm_iff_count]; intro k
  cases hs : a.sock <;>
    simp only [expNet, List.filterMap_cons, hs, Option.map_none, Option.map_some, Option.toList, List.nil_append,
      List.cons_append, List.count_append, List.count_cons] <;> omega

theorem expTimers_cons_conns (t : Tables) (a : Conn) :
    expTimers { t with conns := a :: t.conns } = (if a.timer then [a.cookie] else []) ++ expTimers t := by
  cases ht : a.timer <;> simp [expTimers, ht]

theorem expImm_cons_conns (t : Tables) (a : Conn) :
    expImm { t with conns := a :: t.conns } = (if a.imm then [a.cookie] else []) ++ expImm t := by
  cases ht : a.imm <;> simp [expImm, ht]

theorem expImm_cons_readers (t : Tables) (a : Reader) :
    (expImm { t with readers := a :: t.readers }).Perm ((if a.immediate then [a.id] else []) ++ expImm t) := by
  rw [List.perm_iff_count]; intro k
  cases ht : a.immediate <;>
    simp only [expImm, List.filter_cons, ht, List.map_cons, List.count_append, List.count_cons, List.nil_append,
      List.cons_append, if_true, if_false, Bool.false_eq_true] <;> omega

/-! ### distinct ids inside each table -/

theorem nodup_map_fst_flatMap_head {α : Type} (f : α → Nat × Site) (g : α → List (Nat × Site)) : ∀ (l : List α),
    ((l.flatMap (fun r => f r :: g r)).map (·.1)).Nodup → (l.map (fun r => (f r).1)).Nodup
  | [], _ => by simp
  | a :: rest, h => by
    simp only [List.flatMap_cons, List.map_append, List.map_cons, List.cons_append, List.nodup_cons,
      List.mem_append, not_or] at h
    simp only [List.map_cons, List.nodup_cons]
    refine ⟨fun hm => ?_, nodup_map_fst_flatMap_head f g rest (List.nodup_append.1 h.2).2.1⟩
    obtain ⟨r, hr, hfr⟩ := List.mem_map.1 hm
    apply h.1.2
    exact List.mem_map.2 ⟨f r, List.mem_flatMap.2 ⟨r, hr, by simp⟩, hfr⟩

theorem tables_nodup {t : Tables} (h : ((expLive t).map (·.1)).Nodup) :
    (t.reads.map (·.cookie)).Nodup ∧ (t.writes.map (·.cookie)).Nodup ∧ (t.accepts.map (·.cookie)).Nodup ∧
    (t.conns.map (·.cookie)).Nodup ∧ (t.readers.map (·.id)).Nodup ∧ (t.writers.map (·.id)).Nodup ∧
    (t.https.map (·.cookie)).Nodup := by
  simp only [expLive, List.map_append, List.map_map] at h
  obtain ⟨h6, h7, _⟩ := List.nodup_append.1 h
  obtain ⟨h5, hw', _⟩ := List.nodup_append.1 h6
  obtain ⟨h4, hr, _⟩ := List.nodup_append.1 h5
  obtain ⟨h3, hc, _⟩ := List.nodup_append.1 h4
  obtain ⟨h2, ha, _⟩ := List.nodup_append.1 h3
  obtain ⟨h1, hw, _⟩ := List.nodup_append.1 h2
  refine ⟨h1, hw, ha, hc, ?_, ?_, ?_⟩
  · exact nodup_map_fst_flatMap_head (fun r : Reader => (r.id, Site.nbrStruct)) (fun r => [(r.buf, Site.nbrBuf)]) _ hr
  · have : writerKeys = fun x : Writer => (x.id, Site.nbwStruct) ::
        (x.queue.flatMap wbufKeys ++ (match x.curr with | some (wb, _) => wbufKeys wb | none => [])) := rfl
    rw [this] at hw'
    exact nodup_map_fst_flatMap_head (fun x : Writer => (x.id, Site.nbwStruct)) _ _ hw'
  · exact nodup_map_fst_flatMap_head (fun r : Http => (r.cookie, Site.httpCookie))
      (fun r => (r.head, Site.httpHead) :: hostKeys r) _ h7

theorem expLive_filter_reads {t : Tables} (h : ((expLive t).map (·.1)).Nodup) {a : NetReq} (ha : a ∈ t.reads) :
    (expLive t).Perm ((a.cookie, Site.rdCookie) :: expLive { t with reads := t.reads.filter (fun x => x.cookie != a.cookie) }) :=
  (expLive_perm (t := t) (t' := { t with reads := a :: t.reads.filter (fun x => x.cookie != a.cookie) })
    (perm_filter_key (·.cookie) t.reads a ha (tables_nodup h).1) (.refl _) (.refl _) (.refl _) (.refl _) (.refl _) (.refl _)).trans
    (expLive_cons_reads { t with reads := t.reads.filter (fun x => x.cookie != a.cookie) } a)

theorem expLive_filter_writes {t : Tables} (h : ((expLive t).map (·.1)).Nodup) {a : NetReq} (ha : a ∈ t.writes) :
    (expLive t).Perm ((a.cookie, Site.wrCookie) :: expLive { t with writes := t.writes.filter (fun x => x.cookie != a.cookie) }) :=
  (expLive_perm (t := t) (t' := { t with writes := a :: t.writes.filter (fun x => x.cookie != a.cookie) })
    (.refl _) (perm_filter_key (·.cookie) t.writes a ha (tables_nodup h).2.1) (.refl _) (.refl _) (.refl _) (.refl _) (.refl _)).trans
    (expLive_cons_writes { t with writes := t.writes.filter (fun x => x.cookie != a.cookie) } a)

theorem expLive_filter_accepts {t : Tables} (h : ((expLive t).map (·.1)).Nodup) {a : NetReq} (ha : a ∈ t.accepts) :
    (expLive t).Perm ((a.cookie, Site.acceptCookie) :: expLive { t with accepts := t.accepts.filter (fun x => x.cookie != a.cookie) }) :=
  (expLive_perm (t := t) (t' := { t with accepts := a :: t.accepts.filter (fun x => x.cookie != a.cookie) })
    (.refl _) (.refl _) (perm_filter_key (·.cookie) t.accepts a ha (tables_nodup h).2.2.1) (.refl _) (.refl _) (.refl _) (.refl _)).trans
    (expLive_cons_accepts { t with accepts := t.accepts.filter (fun x => x.cookie != a.cookie) } a)

theorem expLive_filter_conns {t : Tables} (h : ((expLive t).map (·.1)).Nodup) {a : Conn} (ha : a ∈ t.conns) :
    (expLive t).Perm ((a.cookie, Site.connCookie) :: expLive { t with conns := t.conns.filter (fun x => x.cookie != a.cookie) }) :=
  (expLive_perm (t := t) (t' := { t with conns := a :: t.conns.filter (fun x => x.cookie != a.cookie) })
    (.refl _) (.refl _) (.refl _) (perm_filter_key (·.cookie) t.conns a ha (tables_nodup h).2.2.2.1) (.refl _) (.refl _) (.refl _)).trans
    (expLive_cons_conns { t with conns := t.conns.filter (fun x => x.cookie != a.cookie) } a)

theorem expLive_filter_readers {t : Tables} (h : ((expLive t).map (·.1)).Nodup) {a : Reader} (ha : a ∈ t.readers) :
    (expLive t).Perm ((a.id, Site.nbrStruct) :: (a.buf, Site.nbrBuf) ::
      expLive { t with readers := t.readers.filter (fun x => x.id != a.id) }) :=
  (expLive_perm (t := t) (t' := { t with readers := a :: t.readers.filter (fun x => x.id != a.id) })
    (.refl _) (.refl _) (.refl _) (.refl _) (perm_filter_key (·.id) t.readers a ha (tables_nodup h).2.2.2.2.1) (.refl _) (.refl _)).trans
    (expLive_cons_readers { t with readers := t.readers.filter (fun x => x.id != a.id) } a)

theorem expLive_filter_writers {t : Tables} (h : ((expLive t).map (·.1)).Nodup) {a : Writer} (ha : a ∈ t.writers) :
    (expLive t).Perm (writerKeys a ++ expLive { t with writers := t.writers.filter (fun x => x.id != a.id) }) :=
  (expLive_perm (t := t) (t' := { t with writers := a :: t.writers.filter (fun x => x.id != a.id) })
    (.refl _) (.refl _) (.refl _) (.refl _) (.refl _) (perm_filter_key (·.id) t.writers a ha (tables_nodup h).2.2.2.2.2.1) (.refl _)).trans
    (expLive_cons_writers { t with writers := t.writers.filter (fun x => x.id != a.id) } a)

theorem expLive_filter_https {t : Tables} (h : ((expLive t).map (·.1)).Nodup) {a : Http} (ha : a ∈ t.https) :
    (expLive t).Perm ((a.cookie, Site.httpCookie) :: (a.head, Site.httpHead) ::
      (hostKeys a ++ expLive { t with https := t.https.filter (fun x => x.cookie != a.cookie) })) :=
  (expLive_perm (t := t) (t' := { t with https := a :: t.https.filter (fun x => x.cookie != a.cookie) })
    (.refl _) (.refl _) (.refl _) (.refl _) (.refl _) (.refl _) (perm_filter_key (·.cookie) t.https a ha (tables_nodup h).2.2.2.2.2.2)).trans
    (expLive_cons_https { t with https := t.https.filter (fun x => x.cookie != a.cookie) } a)

theorem expNet_filter_reads {t : Tables} (h : ((expLive t).map (·.1)).Nodup) {a : NetReq} (ha : a ∈ t.reads) :
    (expNet t).Perm ((a.fd, false, a.cookie) :: expNet { t with reads := t.reads.filter (fun x => x.cookie != a.cookie) }) :=
  (expNet_perm (t := t) (t' := { t with reads := a :: t.reads.filter (fun x => x.cookie != a.cookie) })
    (perm_filter_key (·.cookie) t.reads a ha (tables_nodup h).1) (.refl _) (.refl _) (.refl _)).trans
    (expNet_cons_reads { t with reads := t.reads.filter (fun x => x.cookie != a.cookie) } a)

theorem expNet_filter_writes {t : Tables} (h : ((expLive t).map (·.1)).Nodup) {a : NetReq} (ha : a ∈ t.writes) :
    (expNet t).Perm ((a.fd, true, a.cookie) :: expNet { t with writes := t.writes.filter (fun x => x.cookie != a.cookie) }) :=
  (expNet_perm (t := t) (t' := { t with writes := a :: t.writes.filter (fun x => x.cookie != a.cookie) })
    (.refl _) (perm_filter_key (·.cookie) t.writes a ha (tables_nodup h).2.1) (.refl _) (.refl _)).trans
    (expNet_cons_writes { t with writes := t.writes.filter (fun x => x.cookie != a.cookie) } a)

theorem expNet_filter_accepts {t : Tables} (h : ((expLive t).map (·.1)).Nodup) {a : NetReq} (ha : a ∈ t.accepts) :
    (expNet t).Perm ((a.fd, false, a.cookie) :: expNet { t with accepts := t.accepts.filter (fun x => x.cookie != a.cookie) }) :=
  (expNet_perm (t := t) (t' := { t with accepts := a :: t.accepts.filter (fun x => x.cookie != a.cookie) })
    (.refl _) (.refl _) (perm_filter_key (·.cookie) t.accepts a ha (tables_nodup h).2.2.1) (.refl _)).trans
    (expNet_cons_accepts { t with accepts := t.accepts.filter (fun x => x.cookie != a.cookie) } a)

theorem expNet_filter_conns {t : Tables} (h : ((expLive t).map (·.1)).Nodup) {a : Conn} (ha : a ∈ t.conns) :
    (expNet t).Perm ((a.sock.map (fun s => (s, true, a.cookie))).toList ++
      expNet { t with conns := t.conns.filter (fun x => x.cookie != a.cookie) }) :=
  (expNet_perm (t := t) (t' := { t with conns := a :: t.conns.filter (fun x => x.cookie != a.cookie) })
    (.refl _) (.refl _) (.refl _) (perm_filter_key (·.cookie) t.conns a ha (tables_nodup h).2.2.2.1)).trans
    (expNet_cons_conns { t with conns := t.conns.filter (fun x => x.cookie != a.cookie) } a)

theorem expTimers_filter_conns {t : Tables} (h : ((expLive t).map (·.1)).Nodup) {a : Conn} (ha : a ∈ t.conns) :
    (expTimers t).Perm ((if a.timer then [a.cookie] else []) ++
      expTimers { t with conns := t.conns.filter (fun x => x.cookie != a.cookie) }) := by
  rw [← expTimers_cons_conns]
  exact expTimers_perm (t := t) (t' := { t with conns := a :: t.conns.filter (fun x => x.cookie != a.cookie) })
    (perm_filter_key (·.cookie) t.conns a ha (tables_nodup h).2.2.2.1)

theorem expImm_filter_conns {t : Tables} (h : ((expLive t).map (·.1)).Nodup) {a : Conn} (ha : a ∈ t.conns) :
    (expImm t).Perm ((if a.imm then [a.cookie] else []) ++
      expImm { t with conns := t.conns.filter (fun x => x.cookie != a.cookie) }) := by
  rw [← expImm_cons_conns]
  exact expImm_perm (t := t) (t' := { t with conns := a :: t.conns.filter (fun x => x.cookie != a.cookie) })
    (perm_filter_key (·.cookie) t.conns a ha (tables_nodup h).2.2.2.1) (.refl _)

theorem expImm_filter_readers {t : Tables} (h : ((expLive t).map (·.1)).Nodup) {a : Reader} (ha : a ∈ t.readers) :
    (expImm t).Perm ((if a.immediate then [a.id] else []) ++
      expImm { t with readers := t.readers.filter (fun x => x.id != a.id) }) :=
  (expImm_perm (t := t) (t' := { t with readers := a :: t.readers.filter (fun x => x.id != a.id) })
    (.refl _) (perm_filter_key (·.id) t.readers a ha (tables_nodup h).2.2.2.2.1)).trans
    (expImm_cons_readers { t with readers := t.readers.filter (fun x => x.id != a.id) } a)

/-- `find?` by cookie in a table returns an entry of the table with that cookie -/
theorem find_cookie {l : List NetReq} {c : Nat} {a : NetReq} (ha : a ∈ l) (hc : a.cookie = c) :
    ∃ r, l.find? (·.cookie == c) = some r ∧ r ∈ l ∧ r.cookie = c := by
  cases hf : l.find? (·.cookie == c) with
  | none => exact absurd (List.find?_eq_none.1 hf a ha) (by simp [hc])
  | some r => exact ⟨r, rfl, List.mem_of_find?_eq_some hf, by simpa using List.find?_some hf⟩

theorem length_eraseId {l : List Block} {b : Block} (h : b ∈ l) : (eraseId l b.id).length + 1 = l.length := by
  induction l with
  | nil => simp at h
  | cons a rest ih =>
    simp only [eraseId]
    split
    · simp
    · rename_i hne
      rcases List.mem_cons.1 h with h1 | h1
      · subst h1; simp at hne
      · simp only [List.length_cons]; rw [ih h1]

theorem eq_of_nodup_map {α : Type} (f : α → Nat) : ∀ {l : List α}, (l.map f).Nodup → ∀ {a b : α}, a ∈ l → b ∈ l → f a = f b → a = b
  | [], _, _, _, ha, _, _ => by simp at ha
  | x :: rest, hnd, a, b, ha, hb, hid => by
    simp only [List.map_cons, List.nodup_cons] at hnd
    rcases List.mem_cons.1 ha with h1 | h1 <;> rcases List.mem_cons.1 hb with h2 | h2
    · rw [h1, h2]
    · subst h1; exact absurd (hid ▸ List.mem_map_of_mem (f := f) h2) hnd.1
    · subst h2; exact absurd (hid ▸ List.mem_map_of_mem (f := f) h1) hnd.1
    · exact eq_of_nodup_map f hnd.2 h1 h2 hid

/-! ## primitives -/

theorem alloc_none {w : World} {site : Site} {sz : Nat} {w' : World} (h : alloc w site sz = (none, w')) :
    w' = { w with m := (w.m.malloc sz).2 } ∧ (w.m.malloc sz).1 = false := by
  unfold alloc at h
  split at h
  · cases h
  · rename_i m' hm
    simp only [Prod.mk.injEq] at h
    rw [← h.2, hm]; exact ⟨rfl, rfl⟩

theorem alloc_some {w : World} {site : Site} {sz : Nat} {c : Nat} {w' : World} (h : alloc w site sz = (some c, w')) :
    c = w.m.n ∧ w' = { w with m := (w.m.malloc sz).2, live := ⟨w.m.n, site, sz⟩ :: w.live } ∧ (w.m.malloc sz).1 = true := by
  unfold alloc at h
  split at h
  · rename_i m' hm
    simp only [Prod.mk.injEq, Option.some.injEq] at h
    rw [← h.2, ← h.1, hm]; exact ⟨rfl, rfl, rfl⟩
  · cases h

/-- `release` of a block that is live -/
theorem release_live {w : World} {b : Block} (hb : b ∈ w.live) :
    release w b.id = { w with m := w.m.free false, live := eraseId w.live b.id } := by
  obtain ⟨b', hf⟩ := findId_of_mem hb
  simp only [release, hf]

theorem live_nodup {w : World} (h : Inv0 w) : (w.live.map (·.id)).Nodup := by
  have := h.nodup; rw [List.map_append] at this; exact (List.nodup_append.1 this).1

/-- only the oracle moved (a refused request) -/
theorem inv0_mem {w : World} (h : Inv0 w) (m' : Mem) (hn : w.m.n ≤ m'.n) (hl : m'.live = w.m.live) :
    Inv0 { w with m := m' } := by
  obtain ⟨a1, a2, a3, a4, a5, a6, a7, a8, a9, a10, a11, a12⟩ := h
  exact ⟨evOk_step a1 hn, a2, fun b hb => Nat.lt_of_lt_of_le (a3 b hb) hn, a4, a5, a6, a7, a8, a9, a10, a11,
    by simp only [hl]; exact a12⟩

/-- a call into the event layer that leaves the registry as it was -/
theorem inv0_ev {w : World} (h : Inv0 w) (e' : Ev) (m' : Mem) (hev : EvOk e' m') (hreg : registry e' = registry w.ev)
    (hn : w.m.n ≤ m'.n) : Inv0 (setEv w e' m') := by
  obtain ⟨a1, a2, a3, a4, a5, a6, a7, a8, a9, a10, a11, a12⟩ := h
  obtain ⟨r1, r2, r3⟩ := (registry_eq_iff _ _).1 hreg
  refine ⟨hev, a2, fun b hb => Nat.lt_of_lt_of_le (a3 b hb) hn, a4, a5, a6, a7, a8, ?_, ?_, ?_, ?_⟩
  · simp only [setEv, r3]; exact a9
  · simp only [setEv, r2]; exact a10
  · simp only [setEv, r1]; exact a11
  · simp only [setEv]; omega

/-- nothing but the event layer's internals, the oracle and the ghost counter differ -/
theorem inv0_frame {w w' : World} (h : Inv0 w) (hev : EvOk w'.ev w'.m) (hreg : registry w'.ev = registry w.ev)
    (hn : w.m.n ≤ w'.m.n) (hlive : w'.live = w.live) (hcache : w'.cache = w.cache) (htab : tables w' = tables w)
    (hbad : w'.bad = w.bad) (hrd : w'.rdPool = w.rdPool) (hwr : w'.wrPool = w.wrPool)
    (hacct : w'.m.live = w'.live.length + w'.cache.length + w'.evLive) : Inv0 w' := by
  obtain ⟨a1, a2, a3, a4, a5, a6, a7, a8, a9, a10, a11, a12⟩ := h
  obtain ⟨r1, r2, r3⟩ := (registry_eq_iff _ _).1 hreg
  refine ⟨hev, by rw [hbad]; exact a2, ?_, by rw [hlive, hcache]; exact a4, by rw [hlive, htab]; exact a5,
    by rw [hcache]; exact a6, by rw [hrd, hcache]; exact a7, by rw [hwr, hcache]; exact a8, ?_, ?_, ?_, hacct⟩
  · intro b hb; rw [hlive, hcache] at hb; exact Nat.lt_of_lt_of_le (a3 b hb) hn
  · rw [r3, htab]; exact a9
  · rw [r2, htab]; exact a10
  · rw [r1, htab]; exact a11

theorem setEv_fields (w : World) (e : Ev) (m' : Mem) :
    (setEv w e m').live = w.live ∧ (setEv w e m').cache = w.cache ∧ tables (setEv w e m') = tables w ∧
    (setEv w e m').bad = w.bad ∧ (setEv w e m').ev = e ∧ (setEv w e m').m = m' ∧
    (setEv w e m').rdPool = w.rdPool ∧ (setEv w e m').wrPool = w.wrPool :=
  ⟨rfl, rfl, rfl, rfl, rfl, rfl, rfl, rfl⟩

/-- `network_accept` -/
theorem networkAccept_spec (w : World) (fd : Nat) (h : Inv0 w) :
    Inv0 (networkAccept w fd).2 ∧ Step w.m (networkAccept w fd).2.m ∧
    ((networkAccept w fd).1 = none → Same w (networkAccept w fd).2) ∧
    (∀ c, (networkAccept w fd).1 = some c →
        (networkAccept w fd).2.live = ⟨c, .acceptCookie, acceptCookieSize⟩ :: w.live ∧
        tables (networkAccept w fd).2 = { tables w with accepts := ⟨c, fd⟩ :: w.accepts } ∧
        (networkAccept w fd).2.m.refusals = w.m.refusals) ∧
    ((networkAccept w fd).2.m.refusals ≠ w.m.refusals → (networkAccept w fd).1 = none) ∧
    ((networkAccept w fd).1 = none → ¬ netRegistered w.ev fd false → 24 * (fd + 1) ≤ EArray.SIZE_MAX →
        w.m.refusals < (networkAccept w fd).2.m.refusals) := by
  unfold networkAccept
  rcases ha : alloc w .acceptCookie acceptCookieSize with ⟨o, w1⟩
  cases o with
  | none =>
    obtain ⟨rfl, hm⟩ := alloc_none ha
    have hf := malloc_fail hm
    have hs := EvRegTimer.step_malloc w.m acceptCookieSize
    simp only
    refine ⟨inv0_mem h _ hs.n hf.2.1, hs, fun _ => ⟨rfl, rfl, rfl, rfl⟩, fun c hc => (by cases hc), fun _ => trivial,
      fun _ _ _ => (by rw [hf.1]; omega)⟩
  | some c =>
    obtain ⟨rfl, rfl, hm⟩ := alloc_some ha
    have hok := malloc_ok hm
    have hs1 := EvRegTimer.step_malloc w.m acceptCookieSize
    simp only
    have hev1 : EvOk w.ev (w.m.malloc acceptCookieSize).2 := evOk_step h.ev hs1.n
    have hsp := EvRegNet.netReg_spec w.ev w.m.n fd false (w.m.malloc acceptCookieSize).2 h.ev.net
    have hs2 := netReg_step w.ev w.m.n fd false (w.m.malloc acceptCookieSize).2
    have hev2 := evOk_netReg hev1 w.m.n fd false
    have hoth := netReg_regs_other w.ev w.m.n fd false (w.m.malloc acceptCookieSize).2
    have hrf := (EvRegNet.netReg_frame w.ev w.m.n fd false (w.m.malloc acceptCookieSize).2).2.2.2
    rcases hnr : netReg w.ev w.m.n fd false (w.m.malloc acceptCookieSize).2 with ⟨res, e', m'⟩
    rw [hnr] at hsp hs2 hev2 hoth hrf
    simp only at hsp hs2 hev2 hoth hrf
    have hst : Step w.m m' := hs1.trans hs2
    cases res with
    | ok =>
      simp only
      rcases hsp.2 with ⟨_, hfree, hmem⟩ | ⟨hx, _⟩ | ⟨hx, _⟩
      · have hperm : (regNet e').Perm ((fd, false, w.m.n) :: regNet w.ev) := by
          have := (EvRegNet.netReg_ok w.ev w.m.n fd false (w.m.malloc acceptCookieSize).2 h.ev.net (by rw [hnr])).2
          rw [hnr] at this; exact this
        refine ⟨?_, hst, fun hc => (by cases hc), ?_, ?_, fun hc => (by cases hc)⟩
        · -- the invariant
          obtain ⟨a1, a2, a3, a4, a5, a6, a7, a8, a9, a10, a11, a12⟩ := h
          have hlt : w.m.n < m'.n := by have := hs2.n; rw [hok.2.2.2] at this; omega
          refine ⟨hev2, a2, ?_, ?_, ?_, a6, a7, a8, ?_, ?_, ?_, ?_⟩
          · intro b hb
            simp only [setEv, List.cons_append, List.mem_cons] at hb
            rcases hb with rfl | hb
            · exact hlt
            · exact Nat.lt_trans (a3 b hb) hlt
          · simp only [setEv, List.cons_append, List.map_cons, List.nodup_cons]
            refine ⟨fun hm => ?_, a4⟩
            obtain ⟨b, hb, hid⟩ := List.mem_map.1 hm
            have := a3 b hb
            omega
          · refine (Owns.cons a5 ⟨w.m.n, .acceptCookie, acceptCookieSize⟩ ?_).perm (expLive_cons_accepts (tables w) ⟨w.m.n, fd⟩).symm
            intro hm
            obtain ⟨b, hb, hid⟩ := List.mem_map.1 hm
            have := a3 b (List.mem_append_left _ hb)
            simp only at hid
            omega
          · exact (hperm.trans (a9.cons _)).trans (expNet_cons_accepts (tables w) ⟨w.m.n, fd⟩).symm
          · simp only [setEv]; rw [hoth.2]; exact a10
          · simp only [setEv]; rw [hoth.1]; exact a11
          · simp only [setEv, List.length_cons]
            have := hok.2.1
            omega
        · intro c hc
          simp only [Option.some.injEq] at hc
          subst hc
          refine ⟨rfl, rfl, ?_⟩
          simp only [setEv]
          by_cases hq : m'.refusals = (w.m.malloc acceptCookieSize).2.refusals
          · rw [hq, hok.1]
          · have := hrf hq; cases this
        · intro hne
          exfalso
          simp only [setEv] at hne
          by_cases hq : m'.refusals = (w.m.malloc acceptCookieSize).2.refusals
          · rw [hq, hok.1] at hne; exact hne rfl
          · have := hrf hq; cases this
      · cases hx
      · cases hx
    | fail | exists_ | noent | broken =>
      simp only
      all_goals
        have hreg : registry e' = registry w.ev := by
          rcases hsp.2 with ⟨hx, _⟩ | ⟨_, _, hr⟩ | ⟨_, hr, _⟩
          · cases hx
          · first | exact hr | (rename_i hx; cases hx)
          · first | exact hr | (rename_i hx; cases hx)
        have hfind : findId (⟨w.m.n, .acceptCookie, acceptCookieSize⟩ :: w.live) w.m.n =
            some ⟨w.m.n, .acceptCookie, acceptCookieSize⟩ := by simp [findId]
        have hfr := free_facts m' false
        simp only [release, setEv, hfind, eraseId, beq_self_eq_true, if_true]
        refine ⟨?_, ?_, fun _ => ⟨rfl, rfl, hreg, rfl⟩, fun c hc => (by cases hc), fun _ => trivial, ?_⟩
        · refine inv0_frame h ?_ hreg ?_ rfl rfl rfl rfl rfl rfl ?_
          · exact evOk_step hev2 (by rw [hfr.2.2.2]; exact Nat.le_refl _)
          · show w.m.n ≤ (m'.free false).n
            rw [hfr.2.2.2]; exact hst.n
          · show (m'.free false).live = _
            rw [hfr.2.1]
            have := hok.2.1; have := h.acct
            simp only [Bool.false_eq_true, if_false]; omega
        · exact hst.trans (EvRegTimer.step_free m' false)
        · intro _ hfree hsz
          show w.m.refusals < (m'.free false).refusals
          rw [hfr.1]
          rcases hsp.2 with ⟨hx, _⟩ | ⟨_, hreg', _⟩ | ⟨_, _, hr⟩
          · first | cases hx | skip
          · exact absurd hreg' hfree
          · rcases hr with hr | hr
            · rw [hok.1] at hr; exact hr
            · omega


/-- `network_accept_cancel`: cannot fail, under every oracle -/
theorem networkAcceptCancel_spec (w : World) (a : NetReq) (h : Inv0 w) (ha : a ∈ w.accepts) :
    ∃ w', networkAcceptCancel w a.cookie = some w' ∧ Inv0 w' ∧ Step w.m w'.m ∧
      w'.live = eraseId w.live a.cookie ∧ w'.cache = w.cache ∧
      tables w' = { tables w with accepts := w.accepts.filter (fun x => x.cookie != a.cookie) } ∧
      (w.ev.recPool.stacklen < w.ev.recPool.allocsize → w'.m.n = w.m.n) := by
  obtain ⟨r, hfind, hr, hrc⟩ := find_cookie ha rfl
  have hnd := tables_nodup h.owns.nodupE
  -- the entry found is the entry
  have hra : r = a := eq_of_nodup_map (·.cookie) hnd.2.2.1 hr ha hrc
  subst hra
  have hreg : (r.fd, false, r.cookie) ∈ regNet w.ev := by
    rw [h.regNet.mem_iff]
    simp only [tables, expNet, List.mem_append, List.mem_map]
    exact Or.inl (Or.inr ⟨r, hr, rfl⟩)
  obtain ⟨hok, hnet', hperm⟩ := EvRegNet.netCancel_ok w.ev r.fd r.cookie false w.m h.ev.net hreg
  have hev' := evOk_netCancel h.ev r.fd r.cookie false (m := w.m) hreg
  have hst := netCancel_step w.ev r.fd false w.m
  have hoth := netCancel_regs_other w.ev r.fd false w.m
  have hna := EvRegNet.netCancel_noalloc w.ev r.fd r.cookie false w.m h.ev.net hreg
  rcases hnc : netCancel w.ev r.fd false w.m with ⟨res, e', m'⟩
  rw [hnc] at hok hnet' hperm hev' hst hoth hna
  simp only at hok hnet' hperm hev' hst hoth hna
  subst hok
  -- the cookie's block is live
  obtain ⟨b, hb, hkb⟩ := List.mem_map.1 (h.owns.own1 (r.cookie, Site.acceptCookie)
    (by simp only [tables, expLive, List.mem_append, List.mem_map]
        exact Or.inl (Or.inl (Or.inl (Or.inl (Or.inr ⟨r, hr, rfl⟩))))))
  have hbid : b.id = r.cookie := by have := congrArg Prod.fst hkb; exact this
  have hfindb : findId w.live r.cookie = some b := by
    obtain ⟨b', hf⟩ := findId_of_mem hb
    rw [hbid] at hf
    rw [hf]; exact congrArg some (findId_unique (live_nodup h) hb (by rw [hbid]; exact hf))
  have hfr := free_facts m' false
  simp only [networkAcceptCancel, hfind, hnc, if_true, release, setEv, hfindb]
  refine ⟨_, rfl, ?_, ?_, rfl, rfl, rfl, ?_⟩
  · obtain ⟨a1, a2, a3, a4, a5, a6, a7, a8, a9, a10, a11, a12⟩ := h
    refine ⟨evOk_step hev' (by rw [hfr.2.2.2]; exact Nat.le_refl _), a2, ?_, ?_, ?_, a6, a7, a8, ?_, ?_, ?_, ?_⟩
    · intro x hx
      show x.id < (m'.free false).n
      rw [hfr.2.2.2]
      rcases List.mem_append.1 hx with hx | hx
      · exact Nat.lt_of_lt_of_le (a3 x (List.mem_append_left _ (mem_eraseId hx))) hst.n
      · exact Nat.lt_of_lt_of_le (a3 x (List.mem_append_right _ hx)) hst.n
    · exact a4.sublist (((eraseId_sublist _ _).append_right _).map _)
    · exact (a5.perm (expLive_filter_accepts a5.nodupE hr)).erase (by
        have := a4; rw [List.map_append] at this; exact (List.nodup_append.1 this).1)
    · exact ((hperm.symm.trans a9).trans (expNet_filter_accepts a5.nodupE hr)).cons_inv
    · show (regTimers e').Perm _
      rw [hoth.2]; exact a10
    · show (regImm e').flatten.Perm _
      rw [hoth.1]; exact a11
    · show (m'.free false).live = _
      rw [hfr.2.1]
      have hlen : (eraseId w.live r.cookie).length + 1 = w.live.length := by
        rw [← hbid]; exact length_eraseId hb
      simp only [Bool.false_eq_true, if_false]
      omega
  · exact hst.trans (EvRegTimer.step_free m' false)
  · intro hroom
    show (m'.free false).n = w.m.n
    rw [hfr.2.2.2]; exact hna hroom


end Percival.Proofs.AllocFailUpper
