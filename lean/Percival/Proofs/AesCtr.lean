import Percival.Spec.Ctr
import Percival.Model.AesCtr
/-! Helper lemmas for C02 (AES-CTR stream state machine = SP 800-38A keystream). -/
namespace Percival.Proofs.AesCtr
open Percival.Spec.Ctr Percival.Model.AesCtr

/-! ## big-endian encoding -/

theorem be64_length (n : Nat) : (be64 n).length = 8 := rfl

theorem be64enc_eq (x : UInt64) : be64enc x = be64 x.toNat := by
  simp only [be64enc, be64, List.cons.injEq, and_true]
  refine ⟨?_, ?_, ?_, ?_, ?_, ?_, ?_, ?_⟩ <;>
    (apply UInt8.toNat_inj.mp
     simp [UInt64.toNat_shiftRight, Nat.shiftRight_eq_div_pow])

/-- incrementing a number whose low byte is not 0xff changes only the last byte of its encoding -/
theorem be64_succ (k : Nat) (hk : k % 256 ≠ 255) :
    be64 (k + 1) = (be64 k).take 7 ++ [UInt8.ofNat k + 1] := by
  simp only [be64, List.take]
  have h : ∀ j, 0 < j → (k + 1) / 2^(8*j) = k / 2^(8*j) := by
    intro j hj
    have : (2:Nat)^(8*j) = 256 * 2^(8*(j-1)) := by
      have : 8 * j = 8 + 8 * (j - 1) := by omega
      rw [this, Nat.pow_add]
    rw [this, ← Nat.div_div_eq_div_mul, ← Nat.div_div_eq_div_mul]
    congr 1; omega
  have h7 := h 7 (by omega); have h6 := h 6 (by omega); have h5 := h 5 (by omega); have h4 := h 4 (by omega)
  have h3 := h 3 (by omega); have h2 := h 2 (by omega); have h1 := h 1 (by omega)
  simp only [Nat.reduceMul] at h7 h6 h5 h4 h3 h2 h1
  rw [h7, h6, h5, h4, h3, h2, h1]
  simp only [List.cons_append, List.nil_append, List.cons.injEq, and_true, true_and]
  apply UInt8.toNat_inj.mp
  simp [UInt8.toNat_add, UInt8.toNat_ofNat']

theorem be64_getLast (n : Nat) : (be64 n)[7]? = some (UInt8.ofNat n) := rfl

/-! ## the keystream, indexed by byte position -/

theorem flatMap_range'_length (f : Nat → List UInt8) (hf : ∀ i, (f i).length = 16) :
    ∀ m s, ((List.range' s m).flatMap f).length = 16 * m := by
  intro m
  induction m with
  | zero => intro s; simp
  | succ m ih =>
    intro s
    rw [List.range'_succ, List.flatMap_cons, List.length_append, hf, ih]; omega

theorem flatMap_range'_getElem? (f : Nat → List UInt8) (hf : ∀ i, (f i).length = 16) :
    ∀ m s i, ((List.range' s m).flatMap f)[i]? = if i < 16 * m then (f (s + i / 16))[i % 16]? else none := by
  intro m
  induction m with
  | zero => intro s i; simp
  | succ m ih =>
    intro s i
    rw [List.range'_succ, List.flatMap_cons, List.getElem?_append, hf]
    by_cases h : i < 16
    · have h1 : i / 16 = 0 := by omega
      have h2 : i % 16 = i := by omega
      have h3 : i < 16 * (m + 1) := by omega
      simp [h, h1, h2, h3]
    · rw [if_neg h, ih]
      have h1 : s + 1 + (i - 16) / 16 = s + i / 16 := by omega
      have h2 : (i - 16) % 16 = i % 16 := by omega
      rw [h1, h2]
      by_cases h3 : i < 16 * (m + 1)
      · have : i - 16 < 16 * m := by omega
        simp [h3, this]
      · have : ¬ i - 16 < 16 * m := by omega
        simp [h3, this]

section ks
variable (E : List UInt8 → List UInt8) (nonce : UInt64)

/-- keystream byte at absolute byte position `i` -/
def ksAt (i : Nat) : Option UInt8 := (keystreamBlock E nonce (i / 16))[i % 16]?

variable (hE : ∀ b, b.length = 16 → (E b).length = 16)
include hE

theorem keystreamBlock_length (i : Nat) : (keystreamBlock E nonce i).length = 16 := hE _ (by simp [counterBlock, be64_length])

theorem keystreamFrom_length (p n : Nat) : (keystreamFrom E nonce p n).length = n := by
  unfold keystreamFrom
  rw [List.length_take, List.length_drop, flatMap_range'_length _ (keystreamBlock_length E nonce hE)]
  omega

theorem keystreamFrom_getElem? (p n j : Nat) :
    (keystreamFrom E nonce p n)[j]? = if j < n then ksAt E nonce (p + j) else none := by
  unfold keystreamFrom ksAt
  rw [List.getElem?_take]
  by_cases h : j < n
  · rw [if_pos h, if_pos h, List.getElem?_drop, flatMap_range'_getElem? _ (keystreamBlock_length E nonce hE)]
    have h1 : p % 16 + j < 16 * ((p % 16 + n + 15) / 16) := by omega
    have h2 : p / 16 + (p % 16 + j) / 16 = (p + j) / 16 := by omega
    have h3 : (p % 16 + j) % 16 = (p + j) % 16 := by omega
    rw [if_pos h1, h2, h3]
  · rw [if_neg h, if_neg h]

theorem keystream_getElem? (N i : Nat) :
    (keystream E nonce N)[i]? = if i < 16 * N then ksAt E nonce i else none := by
  unfold keystream ksAt
  rw [List.range_eq_range', flatMap_range'_getElem? _ (keystreamBlock_length E nonce hE)]
  simp

/-- pointwise description of `streamAt` -/
theorem streamAt_getElem? (p : Nat) (d : List UInt8) (i : Nat) :
    (streamAt E nonce p d)[i]? = (d[i]?).bind fun x => (ksAt E nonce (p + i)).map (x ^^^ ·) := by
  unfold streamAt
  rw [List.getElem?_zipWith, keystreamFrom_getElem? E nonce hE]
  by_cases h : i < d.length
  · rw [if_pos h]
    cases hd : d[i]? <;> cases hk : ksAt E nonce (p + i) <;> simp
  · have : d[i]? = none := by simp; omega
    rw [this]; simp

theorem stream_getElem? (d : List UInt8) (i : Nat) :
    (Spec.Ctr.stream E nonce d)[i]? = (d[i]?).bind fun x => (ksAt E nonce i).map (x ^^^ ·) := by
  unfold Spec.Ctr.stream
  rw [List.getElem?_zipWith, keystream_getElem? E nonce hE]
  by_cases h : i < d.length
  · have : i < 16 * ((d.length + 15) / 16) := by omega
    rw [if_pos this]
    cases hd : d[i]? <;> cases hk : ksAt E nonce i <;> simp
  · have : d[i]? = none := by simp; omega
    rw [this]; simp

theorem stream_eq_streamAt (d : List UInt8) : Spec.Ctr.stream E nonce d = streamAt E nonce 0 d := by
  apply List.ext_getElem?
  intro i
  rw [stream_getElem? E nonce hE, streamAt_getElem? E nonce hE]; simp

theorem streamAt_length (p : Nat) (d : List UInt8) : (streamAt E nonce p d).length = d.length := by
  unfold streamAt
  rw [List.length_zipWith, keystreamFrom_length E nonce hE]; omega

theorem streamAt_append (p : Nat) (a b : List UInt8) :
    streamAt E nonce p (a ++ b) = streamAt E nonce p a ++ streamAt E nonce (p + a.length) b := by
  apply List.ext_getElem?
  intro i
  rw [streamAt_getElem? E nonce hE, List.getElem?_append, List.getElem?_append, streamAt_length E nonce hE]
  by_cases h : i < a.length
  · rw [if_pos h, if_pos h, streamAt_getElem? E nonce hE]
  · rw [if_neg h, if_neg h, streamAt_getElem? E nonce hE]
    have : p + a.length + (i - a.length) = p + i := by omega
    rw [this]

/-- the theorem announced in `Spec/Ctr.lean` -/
theorem stream_append (a b : List UInt8) :
    Spec.Ctr.stream E nonce (a ++ b) = Spec.Ctr.stream E nonce a ++ streamAt E nonce a.length b := by
  rw [stream_eq_streamAt E nonce hE, stream_eq_streamAt E nonce hE, streamAt_append E nonce hE]; simp

omit hE in
theorem streamAt_nil (p : Nat) : streamAt E nonce p [] = [] := by
  unfold streamAt; simp

/-- inside one keystream block: position `16k + r`, `r + n ≤ 16` -/
theorem streamAt_in_block (p : Nat) (d : List UInt8) (h : p % 16 + d.length ≤ 16) :
    streamAt E nonce p d =
      List.zipWith (· ^^^ ·) d (((keystreamBlock E nonce (p / 16)).drop (p % 16)).take d.length) := by
  apply List.ext_getElem?
  intro i
  rw [streamAt_getElem? E nonce hE, List.getElem?_zipWith, List.getElem?_take]
  by_cases hi : i < d.length
  · rw [if_pos hi, List.getElem?_drop]
    unfold ksAt
    have h1 : (p + i) / 16 = p / 16 := by omega
    have h2 : (p + i) % 16 = p % 16 + i := by omega
    rw [h1, h2]
    cases hd : d[i]? <;> cases hk : (keystreamBlock E nonce (p / 16))[p % 16 + i]? <;> simp
  · have : d[i]? = none := by simp; omega
    rw [this]; simp
end ks

/-! ## UInt64 bookkeeping -/
theorem u64_mod16_ne (x : UInt64) : (x % 16 ≠ 0) ↔ x.toNat % 16 ≠ 0 := by
  rw [Ne, ← UInt64.toNat_inj]; simp [UInt64.toNat_mod]

theorem u64_mod16_toNat (x : UInt64) : (x % 16).toNat = x.toNat % 16 := by
  simp [UInt64.toNat_mod]

theorem u64_div16_toNat (x : UInt64) : (x / 16).toNat = x.toNat / 16 := by
  simp [UInt64.toNat_div]

theorem u64_add_toNat (x : UInt64) (n : Nat) (h : x.toNat + n < 2^64) :
    (x + n.toUInt64).toNat = x.toNat + n := by
  rw [UInt64.toNat_add]
  simp
  omega

/-! ## the stream object -/

section model
variable {κ : Type} (enc : κ → List UInt8 → List UInt8)

/-- the representation invariant of `struct crypto_aesctr` for a stream keyed `key`, `nonce` -/
structure Inv (key : κ) (nonce : UInt64) (s : Stream κ) : Prop where
  keyOk : s.key = key
  len : s.pblk.length = 16
  nonceOk : s.pblk.take 8 = be64 nonce.toNat
  ctr : if s.bytectr.toNat = 0 then s.pblk[15]? = some 0xff
        else s.pblk.drop 8 = be64 ((s.bytectr.toNat - 1) / 16)
  buf : s.bytectr.toNat % 16 ≠ 0 → s.buf = keystreamBlock (enc key) nonce (s.bytectr.toNat / 16)

theorem split16 (l : List UInt8) (h : l.length = 16) : ∃ c, c.length = 8 ∧ l = l.take 8 ++ c ∧ l.drop 8 = c :=
  ⟨l.drop 8, by simp [h], by simp, rfl⟩

theorem len8 (c : List UInt8) (h : c.length = 8) : ∃ c0 c1 c2 c3 c4 c5 c6 c7, c = [c0,c1,c2,c3,c4,c5,c6,c7] := by
  match c, h with
  | [c0,c1,c2,c3,c4,c5,c6,c7], _ => exact ⟨_,_,_,_,_,_,_,_,rfl⟩

/-- `cipherblock_generate` at a block boundary: the counter block becomes `nonce ‖ be64(bytectr/16)`
    (by the one-byte increment, or by the full re-encode when that byte wraps), `buf` its encryption. -/
theorem generate_spec (key : κ) (nonce : UInt64) (s : Stream κ) (h : Inv enc key nonce s)
    (hz : s.bytectr.toNat % 16 = 0) :
    generate enc s = some { s with pblk := counterBlock nonce (s.bytectr.toNat / 16),
                                   buf := keystreamBlock (enc key) nonce (s.bytectr.toNat / 16) } := by
  obtain ⟨hkey, hlen, hnonce, hctr, _⟩ := h
  obtain ⟨c, hc, hsplit, hdrop⟩ := split16 s.pblk hlen
  obtain ⟨c0,c1,c2,c3,c4,c5,c6,c7, rfl⟩ := len8 c hc
  rw [hnonce] at hsplit
  have hnz : ¬ (s.bytectr % 16 ≠ 0) := by rw [u64_mod16_ne]; omega
  unfold generate
  rw [if_neg hnz]
  have hp : s.pblk = be64 nonce.toNat ++ [c0,c1,c2,c3,c4,c5,c6,c7] := hsplit
  have h15 : s.pblk[15]? = some c7 := by rw [hp]; rfl
  rw [h15]
  simp only []
  have hset : setByte s.pblk 15 (c7 + 1) = some (be64 nonce.toNat ++ [c0,c1,c2,c3,c4,c5,c6,c7+1]) := by
    unfold setByte; rw [if_pos (by omega), hp]; rfl
  rw [hset]
  simp only []
  have hcnt : be64enc (s.bytectr / 16) = be64 (s.bytectr.toNat / 16) := by
    rw [be64enc_eq, u64_div16_toNat]
  have hwr : writeAt (be64 nonce.toNat ++ [c0,c1,c2,c3,c4,c5,c6,c7+1]) 8 (be64enc (s.bytectr / 16))
      = some (counterBlock nonce (s.bytectr.toNat / 16)) := by
    rw [hcnt]; unfold writeAt; rfl
  have hfinal : (if c7 + 1 = 0 then writeAt (be64 nonce.toNat ++ [c0,c1,c2,c3,c4,c5,c6,c7+1]) 8 (be64enc (s.bytectr / 16))
      else some (be64 nonce.toNat ++ [c0,c1,c2,c3,c4,c5,c6,c7+1])) = some (counterBlock nonce (s.bytectr.toNat / 16)) := by
    by_cases h0 : s.bytectr.toNat = 0
    · rw [if_pos h0, h15] at hctr
      have : c7 = 0xff := by simpa using hctr
      subst this
      rw [if_pos (by decide), hwr]
    · rw [if_neg h0, hdrop] at hctr
      -- the counter half encodes k' = p/16 - 1
      have hk : (s.bytectr.toNat - 1) / 16 + 1 = s.bytectr.toNat / 16 := by omega
      have hc7 : c7 = UInt8.ofNat ((s.bytectr.toNat - 1) / 16) := by
        have := congrArg (fun l => l[7]?) hctr
        simpa [be64] using this
      by_cases hw : ((s.bytectr.toNat - 1) / 16) % 256 = 255
      · have : c7 + 1 = 0 := by
          rw [hc7]; apply UInt8.toNat_inj.mp
          simp [UInt8.toNat_add, UInt8.toNat_ofNat']; omega
        rw [if_pos this, hwr]
      · have : ¬ (c7 + 1 = 0) := by
          rw [hc7]; intro hcc
          have := congrArg UInt8.toNat hcc
          simp [UInt8.toNat_add, UInt8.toNat_ofNat'] at this
          omega
        rw [if_neg this]
        have hs := be64_succ _ hw
        rw [hk] at hs
        unfold counterBlock
        rw [hs, ← hctr, hc7]
        rfl
  rw [hfinal]
  simp only [hkey, keystreamBlock]
end model

section steps
variable {κ : Type} (enc : κ → List UInt8 → List UInt8) (hE : ∀ k b, b.length = 16 → (enc k b).length = 16)
variable (key : κ) (nonce : UInt64)

/-- progress of one phase: `n` input bytes consumed, the matching keystream segment applied -/
structure Step (n : Nat) (s : Stream κ) (b : Bufs) (s' : Stream κ) (b' : Bufs) : Prop where
  le : n ≤ b.inp.length
  inp : b'.inp = b.inp.drop n
  buflen : b'.buflen = b.buflen - n
  out : b'.out.toList = b.out.toList ++ streamAt (enc key) nonce s.bytectr.toNat (b.inp.take n)
  ctr : s'.bytectr.toNat = s.bytectr.toNat + n
  inv : Inv enc key nonce s'

theorem Step.refl (s : Stream κ) (b : Bufs) (h : Inv enc key nonce s) : Step enc key nonce 0 s b s b :=
  ⟨by omega, by simp, by simp, by simp [streamAt_nil], by simp, h⟩

include hE in
theorem Step.trans {n1 n2 : Nat} {s s1 s2 : Stream κ} {b b1 b2 : Bufs}
    (h1 : Step enc key nonce n1 s b s1 b1) (h2 : Step enc key nonce n2 s1 b1 s2 b2) :
    Step enc key nonce (n1 + n2) s b s2 b2 := by
  have hl2 := h2.le
  rw [h1.inp, List.length_drop] at hl2
  have hl1 := h1.le
  refine ⟨by omega, ?_, ?_, ?_, ?_, h2.inv⟩
  · rw [h2.inp, h1.inp, List.drop_drop]
  · rw [h2.buflen, h1.buflen]; omega
  · rw [h2.out, h1.out, h1.ctr, h1.inp, List.take_add, streamAt_append _ _ (hE key), List.append_assoc,
      List.length_take, Nat.min_eq_left hl1]
  · rw [h2.ctr, h1.ctr]; omega

include hE in
/-- `cipherblock_use` when `buf` holds the keystream block of the current position -/
theorem use_spec (s : Stream κ) (b : Bufs) (n : Nat)
    (hbuf : s.buf = keystreamBlock (enc key) nonce (s.bytectr.toNat / 16))
    (hr : s.bytectr.toNat % 16 + n ≤ 16) (hn : n ≤ b.inp.length) (hbl : b.buflen = b.inp.length) :
    use s b n (s.bytectr.toNat % 16) =
      some ({ s with bytectr := s.bytectr + n.toUInt64 },
            { inp := b.inp.drop n,
              out := b.out.appendList (streamAt (enc key) nonce s.bytectr.toNat (b.inp.take n)),
              buflen := b.buflen - n }) := by
  unfold use
  have h1 : (b.inp.take n).length = n := by rw [List.length_take]; omega
  have h2 : ((s.buf.drop (s.bytectr.toNat % 16)).take n).length = n := by
    rw [List.length_take, List.length_drop, hbuf, keystreamBlock_length _ _ (hE key)]; omega
  simp only [h1, h2, true_and]
  rw [if_pos (by omega)]
  rw [streamAt_in_block _ _ (hE key) _ _ (by rw [h1]; exact hr), h1, hbuf]

/-- consuming bytes of the current block (no `generate`) keeps the invariant -/
theorem inv_use (s : Stream κ) (n : Nat) (h : Inv enc key nonce s)
    (hr0 : s.bytectr.toNat % 16 ≠ 0) (hr : s.bytectr.toNat % 16 + n ≤ 16)
    (hlim : s.bytectr.toNat + n < 2^64) :
    Inv enc key nonce { s with bytectr := s.bytectr + n.toUInt64 } := by
  obtain ⟨hkey, hlen, hnonce, hctr, hbuf⟩ := h
  have hp := u64_add_toNat s.bytectr n hlim
  refine ⟨hkey, hlen, hnonce, ?_, ?_⟩
  · simp only [hp]
    have h0 : s.bytectr.toNat ≠ 0 := by omega
    rw [if_neg h0] at hctr
    rw [if_neg (by omega), hctr]
    congr 1; omega
  · simp only [hp]
    intro hne
    rw [hbuf hr0]; congr 1; omega

/-- `generate` at a block boundary followed by consuming `1 ≤ n ≤ 16` bytes re-establishes the invariant -/
theorem inv_gen_use (s : Stream κ) (n : Nat) (h : Inv enc key nonce s)
    (hz : s.bytectr.toNat % 16 = 0) (hn1 : 1 ≤ n) (hn16 : n ≤ 16) (hlim : s.bytectr.toNat + n < 2^64) :
    Inv enc key nonce { s with pblk := counterBlock nonce (s.bytectr.toNat / 16),
                               buf := keystreamBlock (enc key) nonce (s.bytectr.toNat / 16),
                               bytectr := s.bytectr + n.toUInt64 } := by
  obtain ⟨hkey, hlen, hnonce, hctr, hbuf⟩ := h
  have hp := u64_add_toNat s.bytectr n hlim
  refine ⟨hkey, rfl, rfl, ?_, ?_⟩
  · simp only [hp]
    rw [if_neg (by omega)]
    show be64 _ = be64 _
    congr 1; omega
  · simp only [hp]
    intro hne
    congr 1; omega

include hE in
/-- `generate; use(n, 0)` at a block boundary -/
theorem gen_use_step (s : Stream κ) (b : Bufs) (n : Nat) (h : Inv enc key nonce s)
    (hz : s.bytectr.toNat % 16 = 0) (hn1 : 1 ≤ n) (hn16 : n ≤ 16) (hn : n ≤ b.inp.length)
    (hbl : b.buflen = b.inp.length) (hlim : s.bytectr.toNat + n < 2^64) :
    ∃ sg s' b', generate enc s = some sg ∧ use sg b n 0 = some (s', b') ∧ Step enc key nonce n s b s' b' := by
  have hg := generate_spec enc key nonce s h hz
  have hu := use_spec enc hE key nonce
      { s with pblk := counterBlock nonce (s.bytectr.toNat / 16),
               buf := keystreamBlock (enc key) nonce (s.bytectr.toNat / 16) } b n rfl
      (by simp only [hz]; omega) hn hbl
  simp only [hz] at hu
  exact ⟨_, _, _, hg, hu,
    ⟨hn, rfl, rfl, by simp, u64_add_toNat _ _ hlim, inv_gen_use enc key nonce s n h hz hn1 hn16 hlim⟩⟩

include hE in
/-- `crypto_aesctr_stream_pre_wholeblock` -/
theorem pre_spec (s : Stream κ) (b : Bufs) (h : Inv enc key nonce s)
    (hbl : b.buflen = b.inp.length) (hlim : s.bytectr.toNat + b.buflen < 2^64) :
    ∃ s' b' done n, preWholeblock s b = some (s', b', done) ∧ Step enc key nonce n s b s' b' ∧
      (done = true → n = b.inp.length) ∧ (done = false → s'.bytectr.toNat % 16 = 0) := by
  unfold preWholeblock
  simp only [u64_mod16_toNat]
  by_cases hr0 : s.bytectr.toNat % 16 = 0
  · rw [if_neg (by omega)]
    exact ⟨s, b, false, 0, rfl, Step.refl enc key nonce s b h, by simp, fun _ => hr0⟩
  · rw [if_pos hr0]
    have hbuf := h.buf hr0
    by_cases hfit : s.bytectr.toNat % 16 + b.buflen ≤ 16
    · rw [if_pos hfit, use_spec enc hE key nonce s b b.buflen hbuf hfit (by omega) hbl]
      refine ⟨_, _, true, b.buflen, rfl, ⟨by omega, rfl, rfl, by simp, u64_add_toNat _ _ hlim, ?_⟩, fun _ => hbl, by simp⟩
      exact inv_use enc key nonce s b.buflen h hr0 hfit hlim
    · rw [if_neg hfit, use_spec enc hE key nonce s b (16 - s.bytectr.toNat % 16) hbuf (by omega) (by omega) hbl]
      have hl : s.bytectr.toNat + (16 - s.bytectr.toNat % 16) < 2^64 := by omega
      refine ⟨_, _, false, 16 - s.bytectr.toNat % 16, rfl,
        ⟨by omega, rfl, rfl, by simp, u64_add_toNat _ _ hl, ?_⟩, by simp, fun _ => ?_⟩
      · exact inv_use enc key nonce s _ h hr0 (by omega) hl
      · show (s.bytectr + (16 - s.bytectr.toNat % 16).toUInt64).toNat % 16 = 0
        rw [u64_add_toNat _ _ hl]; omega
end steps

section loops
variable {κ : Type} (enc : κ → List UInt8 → List UInt8) (hE : ∀ k b, b.length = 16 → (enc k b).length = 16)
variable (key : κ) (nonce : UInt64)
include hE

/-- the portable whole-block loop -/
theorem wholeLoop_spec : ∀ (fuel : Nat) (s : Stream κ) (b : Bufs), Inv enc key nonce s →
    s.bytectr.toNat % 16 = 0 → b.buflen = b.inp.length → b.buflen / 16 ≤ fuel →
    s.bytectr.toNat + b.buflen < 2^64 →
    ∃ s' b', wholeLoop enc fuel s b = some (s', b') ∧
      Step enc key nonce (16 * (b.buflen / 16)) s b s' b' ∧ s'.bytectr.toNat % 16 = 0 := by
  intro fuel
  induction fuel with
  | zero =>
    intro s b h hz hbl hf hlim
    have h0 : b.buflen / 16 = 0 := by omega
    unfold wholeLoop
    rw [if_neg (by omega), h0]
    exact ⟨s, b, rfl, Step.refl enc key nonce s b h, hz⟩
  | succ fuel ih =>
    intro s b h hz hbl hf hlim
    unfold wholeLoop
    by_cases hge : b.buflen ≥ 16
    · rw [if_pos hge]
      obtain ⟨sg, s1, b1, hg, hu, hstep⟩ :=
        gen_use_step enc hE key nonce s b 16 h hz (by omega) (by omega) (by omega) hbl (by omega)
      rw [hg]; simp only []; rw [hu]; simp only []
      have hb1 : b1.buflen = b1.inp.length := by rw [hstep.buflen, hstep.inp, List.length_drop, hbl]
      have hb1' : b1.buflen = b.buflen - 16 := hstep.buflen
      obtain ⟨s2, b2, hw, hstep2, hz2⟩ := ih s1 b1 hstep.inv (by rw [hstep.ctr]; omega) hb1
        (by omega) (by rw [hstep.ctr]; omega)
      refine ⟨s2, b2, hw, ?_, hz2⟩
      have := Step.trans enc hE key nonce hstep hstep2
      have he : 16 + 16 * (b1.buflen / 16) = 16 * (b.buflen / 16) := by omega
      rw [he] at this
      exact this
    · have h0 : b.buflen / 16 = 0 := by omega
      rw [if_neg hge, h0]
      exact ⟨s, b, rfl, Step.refl enc key nonce s b h, hz⟩

/-- `crypto_aesctr_stream_post_wholeblock` -/
theorem post_spec (s : Stream κ) (b : Bufs) (h : Inv enc key nonce s)
    (hz : s.bytectr.toNat % 16 = 0) (hbl : b.buflen = b.inp.length) (hlt : b.buflen < 16)
    (hlim : s.bytectr.toNat + b.buflen < 2^64) :
    ∃ s' b', postWholeblock enc s b = some (s', b') ∧ Step enc key nonce b.buflen s b s' b' := by
  unfold postWholeblock
  by_cases hpos : b.buflen > 0
  · rw [if_pos hpos]
    obtain ⟨sg, s1, b1, hg, hu, hstep⟩ :=
      gen_use_step enc hE key nonce s b b.buflen h hz (by omega) (by omega) (by omega) hbl hlim
    rw [hg]; simp only []
    exact ⟨s1, b1, hu, hstep⟩
  · rw [if_neg hpos]
    have : b.buflen = 0 := by omega
    rw [this]
    exact ⟨s, b, rfl, Step.refl enc key nonce s b h⟩

end loops

theorem u64_succ_toNat (x : UInt64) (h : x.toNat + 1 < 2^64) : (x + 1).toNat = x.toNat + 1 := by
  have := u64_add_toNat x 1 h
  simpa using this

section bulk
variable {κ : Type} (enc : κ → List UInt8 → List UInt8) (hE : ∀ k b, b.length = 16 → (enc k b).length = 16)
variable (key : κ) (nonce : UInt64)
include hE

/-- one whole block on the bulk path: counter block built from `nonce_be` and `be64enc(block_counter)` -/
theorem bulk_block (bc : UInt64) (chunk : List UInt8) (h1 : chunk.length = 16) :
    List.zipWith (· ^^^ ·) chunk (enc key (be64 nonce.toNat ++ be64enc bc)) =
      streamAt (enc key) nonce (16 * bc.toNat) chunk := by
  rw [streamAt_in_block _ _ (hE key) _ _ (by rw [h1]; omega), h1]
  have hd : 16 * bc.toNat / 16 = bc.toNat := by omega
  have hm : 16 * bc.toNat % 16 = 0 := by omega
  rw [hd, hm, List.drop_zero, be64enc_eq]
  have : (keystreamBlock (enc key) nonce bc.toNat).length = 16 := keystreamBlock_length _ _ (hE key) _
  rw [List.take_of_length_le (by omega)]
  rfl

/-- the AES-NI `do … while` loop: `i+1` whole blocks starting at block `bc` -/
theorem bulkLoop_spec : ∀ (i : Nat) (bc : UInt64) (b : Bufs),
    bc.toNat + (i + 1) < 2^64 → 16 * (i + 1) ≤ b.inp.length →
    ∃ b', bulkLoop enc key (be64 nonce.toNat) (i + 1) bc b = some (be64 (bc.toNat + i), b') ∧
      b'.inp = b.inp.drop (16 * (i + 1)) ∧ b'.buflen = b.buflen ∧
      b'.out.toList = b.out.toList ++ streamAt (enc key) nonce (16 * bc.toNat) (b.inp.take (16 * (i + 1))) := by
  intro i
  induction i with
  | zero =>
    intro bc b hlim hlen
    unfold bulkLoop
    have h1 : (b.inp.take 16).length = 16 := by rw [List.length_take]; omega
    have h2 : (enc key (be64 nonce.toNat ++ be64enc bc)).length = 16 :=
      hE _ _ (by simp [be64_length, be64enc_eq])
    simp only [h1, h2, and_self, if_true]
    refine ⟨{ inp := b.inp.drop 16,
              out := b.out.appendList (List.zipWith (· ^^^ ·) (b.inp.take 16) (enc key (be64 nonce.toNat ++ be64enc bc))),
              buflen := b.buflen }, ?_, rfl, rfl, ?_⟩
    · rw [be64enc_eq]; rfl
    · simp only [Array.appendList_eq_append, Array.toList_appendList]
      rw [bulk_block enc hE key nonce bc _ h1]
  | succ j ih =>
    intro bc b hlim hlen
    unfold bulkLoop
    have h1 : (b.inp.take 16).length = 16 := by rw [List.length_take]; omega
    have h2 : (enc key (be64 nonce.toNat ++ be64enc bc)).length = 16 :=
      hE _ _ (by simp [be64_length, be64enc_eq])
    simp only [h1, h2, and_self, if_true]
    have hbc : (bc + 1).toNat = bc.toNat + 1 := u64_succ_toNat bc (by omega)
    obtain ⟨b2, hl, hinp, hbuf, hout⟩ := ih (bc + 1)
      { inp := b.inp.drop 16,
        out := b.out.appendList (List.zipWith (· ^^^ ·) (b.inp.take 16) (enc key (be64 nonce.toNat ++ be64enc bc))),
        buflen := b.buflen } (by omega) (by simp only [List.length_drop]; omega)
    refine ⟨b2, ?_, ?_, hbuf, ?_⟩
    · rw [hl, hbc]
      have : bc.toNat + 1 + j = bc.toNat + (j + 1) := by omega
      rw [this]
    · rw [hinp]; simp only [List.drop_drop]; congr 1; omega
    · rw [hout]
      simp only [Array.appendList_eq_append, Array.toList_appendList, List.append_assoc]
      congr 1
      have hsplit : 16 * (j + 1 + 1) = 16 + 16 * (j + 1) := by omega
      rw [hsplit, List.take_add, streamAt_append _ _ (hE key), h1, hbc,
        bulk_block enc hE key nonce bc _ h1]
      congr 2 <;> omega

end bulk

section calls
variable {κ : Type} (enc : κ → List UInt8 → List UInt8) (hE : ∀ k b, b.length = 16 → (enc k b).length = 16)
variable (key : κ) (nonce : UInt64)
include hE

/-- `crypto_aesctr_aesni_stream_wholeblocks`: same progress as the portable loop; the last per-block
    counter is written back so that the invariant holds again -/
theorem wholeblocksBulk_spec (s : Stream κ) (b : Bufs) (h : Inv enc key nonce s)
    (hz : s.bytectr.toNat % 16 = 0) (hbl : b.buflen = b.inp.length) (hge : b.buflen ≥ 16)
    (hlim : s.bytectr.toNat + b.buflen < 2^64) :
    ∃ s' b', wholeblocksBulk enc s b = some (s', b') ∧
      Step enc key nonce (16 * (b.buflen / 16)) s b s' b' ∧ s'.bytectr.toNat % 16 = 0 := by
  obtain ⟨hkey, hlen, hnonce, hctr, hbuf⟩ := h
  unfold wholeblocksBulk
  have hn8 : ¬ ((s.pblk.take 8).length ≠ 8) := by rw [List.length_take]; omega
  simp only [hn8, if_false]
  obtain ⟨i, hi⟩ : ∃ i, b.buflen / 16 = i + 1 := ⟨b.buflen / 16 - 1, by omega⟩
  have hbcn : (s.bytectr / 16).toNat = s.bytectr.toNat / 16 := u64_div16_toNat _
  obtain ⟨b1, hl, hinp, hbuflen, hout⟩ := bulkLoop_spec enc hE key nonce i (s.bytectr / 16) b
    (by rw [hbcn]; omega) (by omega)
  rw [hnonce, hi, hkey, hl]
  simp only []
  have hw : writeAt s.pblk 8 (be64 ((s.bytectr / 16).toNat + i)) =
      some (be64 nonce.toNat ++ be64 ((s.bytectr / 16).toNat + i)) := by
    unfold writeAt
    rw [if_pos (by rw [be64_length]; omega), hnonce, be64_length, List.drop_of_length_le (by omega)]
    simp
  rw [hw]
  simp only []
  have hp16 : 16 * (s.bytectr / 16).toNat = s.bytectr.toNat := by rw [hbcn]; omega
  have hadd : (s.bytectr + (16 * (i + 1)).toUInt64).toNat = s.bytectr.toNat + 16 * (i + 1) :=
    u64_add_toNat _ _ (by omega)
  refine ⟨_, _, rfl, ⟨by omega, hinp, ?_, ?_, hadd, ⟨rfl, by simp [be64_length], List.take_left' (be64_length _), ?_, ?_⟩⟩, ?_⟩
  · simp only [hbuflen]
  · simp only [hout, hp16]
  · simp only [hadd]
    rw [if_neg (by omega)]
    show List.drop 8 (be64 nonce.toNat ++ _) = _
    rw [List.drop_left' (be64_length _)]
    congr 1; rw [hbcn]; omega
  · simp only [hadd]; intro hne; omega
  · simp only [hadd]; omega


omit hE in
/-- what a complete call must achieve -/
theorem finish_call (s s' : Stream κ) (inp : List UInt8) (b' : Bufs) (N : Nat)
    (hst : Step enc key nonce N s { inp := inp, out := #[], buflen := inp.length } s' b')
    (hN : N = inp.length) :
    b'.out.toList = streamAt (enc key) nonce s.bytectr.toNat inp ∧ Inv enc key nonce s' ∧
      s'.bytectr.toNat = s.bytectr.toNat + inp.length := by
  refine ⟨?_, hst.inv, by rw [hst.ctr, hN]⟩
  rw [hst.out, hN]; simp

theorem streamPortable_spec (s : Stream κ) (inp : List UInt8) (h : Inv enc key nonce s)
    (hlim : s.bytectr.toNat + inp.length < 2^64) :
    ∃ s', streamPortable enc s inp = some (s', streamAt (enc key) nonce s.bytectr.toNat inp) ∧
      Inv enc key nonce s' ∧ s'.bytectr.toNat = s.bytectr.toNat + inp.length := by
  unfold streamPortable
  obtain ⟨s1, b1, done, n1, hpre, hst1, hdone, hndone⟩ :=
    pre_spec enc hE key nonce s { inp := inp, out := #[], buflen := inp.length } h rfl hlim
  rw [hpre]
  cases done with
  | true =>
    simp only []
    obtain ⟨ho, hi, hc⟩ := finish_call enc key nonce s s1 inp b1 n1 hst1 (hdone rfl)
    exact ⟨s1, by rw [ho], hi, hc⟩
  | false =>
    simp only []
    have hz1 := hndone rfl
    have hle1 : n1 ≤ inp.length := hst1.le
    have hb1 : b1.buflen = b1.inp.length := by rw [hst1.buflen, hst1.inp, List.length_drop]
    have hb1v : b1.buflen = inp.length - n1 := hst1.buflen
    obtain ⟨s2, b2, hloop, hst2, hz2⟩ := wholeLoop_spec enc hE key nonce (b1.buflen / 16) s1 b1 hst1.inv hz1 hb1
      (Nat.le_refl _) (by rw [hst1.ctr]; omega)
    rw [hloop]; simp only []
    have hb2 : b2.buflen = b2.inp.length := by rw [hst2.buflen, hst2.inp, List.length_drop, hb1]
    have hb2v : b2.buflen = b1.buflen - 16 * (b1.buflen / 16) := hst2.buflen
    obtain ⟨s3, b3, hpost, hst3⟩ := post_spec enc hE key nonce s2 b2 hst2.inv hz2 hb2 (by omega)
      (by rw [hst2.ctr, hst1.ctr]; omega)
    rw [hpost]; simp only []
    have hall := Step.trans enc hE key nonce (Step.trans enc hE key nonce hst1 hst2) hst3
    obtain ⟨ho, hi, hc⟩ := finish_call enc key nonce s s3 inp b3 _ hall (by omega)
    exact ⟨s3, by rw [ho], hi, hc⟩

theorem streamBulk_spec (s : Stream κ) (inp : List UInt8) (h : Inv enc key nonce s)
    (hlim : s.bytectr.toNat + inp.length < 2^64) :
    ∃ s', streamBulk enc s inp = some (s', streamAt (enc key) nonce s.bytectr.toNat inp) ∧
      Inv enc key nonce s' ∧ s'.bytectr.toNat = s.bytectr.toNat + inp.length := by
  unfold streamBulk
  obtain ⟨s1, b1, done, n1, hpre, hst1, hdone, hndone⟩ :=
    pre_spec enc hE key nonce s { inp := inp, out := #[], buflen := inp.length } h rfl hlim
  rw [hpre]
  cases done with
  | true =>
    simp only []
    obtain ⟨ho, hi, hc⟩ := finish_call enc key nonce s s1 inp b1 n1 hst1 (hdone rfl)
    exact ⟨s1, by rw [ho], hi, hc⟩
  | false =>
    simp only []
    have hz1 := hndone rfl
    have hle1 : n1 ≤ inp.length := hst1.le
    have hb1 : b1.buflen = b1.inp.length := by rw [hst1.buflen, hst1.inp, List.length_drop]
    have hb1v : b1.buflen = inp.length - n1 := hst1.buflen
    -- the `if (buflen >= 16)` around the bulk routine
    have hmid : ∃ s2 b2, (if b1.buflen ≥ 16 then wholeblocksBulk enc s1 b1 else some (s1, b1)) = some (s2, b2) ∧
        Step enc key nonce (16 * (b1.buflen / 16)) s1 b1 s2 b2 ∧ s2.bytectr.toNat % 16 = 0 := by
      by_cases hge : b1.buflen ≥ 16
      · rw [if_pos hge]
        exact wholeblocksBulk_spec enc hE key nonce s1 b1 hst1.inv hz1 hb1 hge (by rw [hst1.ctr]; omega)
      · rw [if_neg hge]
        have : b1.buflen / 16 = 0 := by omega
        rw [this]
        exact ⟨s1, b1, rfl, Step.refl enc key nonce s1 b1 hst1.inv, hz1⟩
    obtain ⟨s2, b2, hloop, hst2, hz2⟩ := hmid
    rw [hloop]; simp only []
    have hb2 : b2.buflen = b2.inp.length := by rw [hst2.buflen, hst2.inp, List.length_drop, hb1]
    have hb2v : b2.buflen = b1.buflen - 16 * (b1.buflen / 16) := hst2.buflen
    obtain ⟨s3, b3, hpost, hst3⟩ := post_spec enc hE key nonce s2 b2 hst2.inv hz2 hb2 (by omega)
      (by rw [hst2.ctr, hst1.ctr]; omega)
    rw [hpost]; simp only []
    have hall := Step.trans enc hE key nonce (Step.trans enc hE key nonce hst1 hst2) hst3
    obtain ⟨ho, hi, hc⟩ := finish_call enc key nonce s s3 inp b3 _ hall (by omega)
    exact ⟨s3, by rw [ho], hi, hc⟩

/-- one `crypto_aesctr_stream` call, either routing -/
theorem stream_call_spec (hw : Bool) (s : Stream κ) (inp : List UInt8) (h : Inv enc key nonce s)
    (hlim : s.bytectr.toNat + inp.length < 2^64) :
    ∃ s', Model.AesCtr.stream enc hw s inp = some (s', streamAt (enc key) nonce s.bytectr.toNat inp) ∧
      Inv enc key nonce s' ∧ s'.bytectr.toNat = s.bytectr.toNat + inp.length := by
  unfold Model.AesCtr.stream
  split
  · exact streamBulk_spec enc hE key nonce s inp h hlim
  · exact streamPortable_spec enc hE key nonce s inp h hlim

end calls

section seqs
variable {κ : Type} (enc : κ → List UInt8 → List UInt8)

/-- all input bytes of a call sequence, in order -/
def inputs (calls : List Call) : List UInt8 := (calls.map (·.data)).flatten

theorem inputs_cons (c : Call) (cs : List Call) : inputs (c :: cs) = c.data ++ inputs cs := by
  simp [inputs]

/-- `crypto_aesctr_init2` establishes the invariant at position 0, whatever the counter bytes 8..14 and
    `buf` held before -/
theorem init2_spec (s : Stream κ) (k : Option κ) (nonce : UInt64) (hlen : s.pblk.length = 16) :
    ∃ s', init2 s k nonce = some s' ∧
      Inv enc (pickKey k s.key) nonce s' ∧ s'.bytectr = 0 := by
  obtain ⟨c, hc, _, hdrop⟩ := split16 s.pblk hlen
  obtain ⟨c0,c1,c2,c3,c4,c5,c6,c7, rfl⟩ := len8 c hc
  unfold init2
  have hw : writeAt s.pblk 0 (be64enc nonce) = some (be64 nonce.toNat ++ [c0,c1,c2,c3,c4,c5,c6,c7]) := by
    unfold writeAt
    rw [be64enc_eq, be64_length, if_pos (by omega), List.take_zero, hdrop]; rfl
  rw [hw]
  simp only []
  have hs : setByte (be64 nonce.toNat ++ [c0,c1,c2,c3,c4,c5,c6,c7]) 15 0xff =
      some (be64 nonce.toNat ++ [c0,c1,c2,c3,c4,c5,c6,0xff]) := by
    unfold setByte; rfl
  rw [hs]
  exact ⟨_, rfl, ⟨rfl, rfl, rfl, by simp [be64], by simp⟩, rfl⟩

variable (hE : ∀ k b, b.length = 16 → (enc k b).length = 16) (key : κ) (nonce : UInt64)
include hE

/-- any sequence of calls, any routing of each -/
theorem streamCalls_spec : ∀ (calls : List Call) (s : Stream κ), Inv enc key nonce s →
    s.bytectr.toNat + (inputs calls).length < 2^64 →
    ∃ s' outs, streamCalls enc s calls = some (s', outs) ∧
      outs.flatten = streamAt (enc key) nonce s.bytectr.toNat (inputs calls) ∧
      outs.map List.length = calls.map (·.data.length) ∧
      Inv enc key nonce s' ∧ s'.bytectr.toNat = s.bytectr.toNat + (inputs calls).length := by
  intro calls
  induction calls with
  | nil =>
    intro s h _
    exact ⟨s, [], rfl, by simp [inputs, streamAt_nil], rfl, h, by simp [inputs]⟩
  | cons c cs ih =>
    intro s h hlim
    rw [inputs_cons, List.length_append] at hlim
    obtain ⟨s1, hcall, hinv1, hctr1⟩ := stream_call_spec enc hE key nonce c.hw s c.data h (by omega)
    obtain ⟨s2, outs, hrest, hflat, hlens, hinv2, hctr2⟩ := ih s1 hinv1 (by rw [hctr1]; omega)
    unfold streamCalls
    rw [hcall]; simp only []; rw [hrest]; simp only []
    refine ⟨s2, _, rfl, ?_, ?_, hinv2, ?_⟩
    · rw [List.flatten_cons, hflat, hctr1, inputs_cons, streamAt_append _ _ (hE key)]
    · simp [hlens, streamAt_length _ _ (hE key)]
    · rw [hctr2, hctr1, inputs_cons, List.length_append]; omega

end seqs

theorem stream_length (E : List UInt8 → List UInt8) (nonce : UInt64)
    (hE : ∀ b, b.length = 16 → (E b).length = 16) (d : List UInt8) :
    (Spec.Ctr.stream E nonce d).length = d.length := by
  rw [stream_eq_streamAt E nonce hE, streamAt_length E nonce hE]

/-- CTR decryption is CTR encryption -/
theorem stream_involutive (E : List UInt8 → List UInt8) (nonce : UInt64)
    (hE : ∀ b, b.length = 16 → (E b).length = 16) (d : List UInt8) :
    Spec.Ctr.stream E nonce (Spec.Ctr.stream E nonce d) = d := by
  apply List.ext_getElem?
  intro i
  rw [stream_getElem? E nonce hE, stream_getElem? E nonce hE]
  by_cases h : i < d.length
  · have hk : ∃ k, ksAt E nonce i = some k := by
      unfold ksAt
      have := keystreamBlock_length E nonce hE (i / 16)
      exact ⟨(keystreamBlock E nonce (i / 16))[i % 16]'(by omega), by simp⟩
    obtain ⟨k, hk⟩ := hk
    have hd : d[i]? = some d[i] := by simp [h]
    rw [hd, hk]
    simp [UInt8.xor_assoc]
  · have : d[i]? = none := by simp; omega
    rw [this]; simp

/-- the CTR stream only ever applies the block function to 16-byte counter blocks -/
theorem stream_congr (E E' : List UInt8 → List UInt8) (nonce : UInt64)
    (h : ∀ b, b.length = 16 → E b = E' b) (d : List UInt8) :
    Spec.Ctr.stream E nonce d = Spec.Ctr.stream E' nonce d := by
  unfold Spec.Ctr.stream keystream
  congr 2
  funext i
  exact h _ (by simp [counterBlock, be64_length])

end Percival.Proofs.AesCtr
