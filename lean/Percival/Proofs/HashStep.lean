import Percival.Model.HashStep
import Percival.Proofs.Sha256Refines
import Percival.Proofs.Sha1Refines
import Percival.Proofs.Md5Refines
import Percival.Proofs.Pbkdf2Stream
import Percival.Proofs.CrcMain
/-! `Model.HashStep.stepOp` (what `pmodel hash` runs): the contexts it carries are the model's streaming
contexts over the bytes it records (`StOk` is preserved), hence every digest line has L1 = L2
(helper lemmas for C01). -/
namespace Percival.Proofs.HashStep
open Percival.Spec Percival.Model Percival.Model.HashStep
open Percival.Proofs.MDStream Percival.Proofs.HmacStream

/-- what is known of a family: its model refines `MD.hash p`, and its L1 functions are `MD.hash p` /
    RFC 2104 over it -/
structure FamOK (f : Fam) where
  p : MD.Params
  ok : HashOK f.h p
  spec : ∀ m, f.spec m = MD.hash p m
  hmacSpec : ∀ k m, f.hmacSpec k m = Spec.Hmac.hmac (MD.hash p) k m

def ok256 : FamOK fam256 := ⟨Spec.Sha256.params, Sha256T.hashOK, fun _ => rfl, fun _ _ => rfl⟩
def ok1 : FamOK fam1 := ⟨Spec.Sha1.params, Sha1T.hashOK, fun _ => rfl, fun _ _ => rfl⟩
def ok5 : FamOK fam5 := ⟨Spec.Md5.params, Md5T.hashOK, fun _ => rfl, fun _ _ => rfl⟩

variable {f : Fam} (fo : FamOK f)

/-- L1 = L2 in the answers that have both -/
def Agrees : Out → Prop
  | .digest l1 l2 => l2 = some l1
  | .crc l1 _ l2 => l2 = l1
  | _ => True

/-! ## a streamed context means its bytes -/

theorem streamed_inv (c : Hash.Ctx f.h.alg) (msg : Bytes) (h : Streamed f c msg) : Inv fo.ok.rf c msg := by
  obtain ⟨chunks, rfl, rfl⟩ := h
  have := foldl_inv fo.ok.rf (Hash.init f.h.alg) [] chunks (init_inv fo.ok.rf)
  rw [List.nil_append] at this
  exact this

theorem hstreamed_hinv (c : Hmac.Ctx f.h) (k msg : Bytes) (h : HStreamed f c k msg) : HInv fo.ok c k msg := by
  obtain ⟨c0, chunks, hc0, rfl, rfl⟩ := h
  obtain ⟨c1, hc1, hi⟩ := init_hinv fo.ok k
  rw [hc0] at hc1
  cases hc1
  have := foldl_hinv fo.ok c0 k [] chunks hi
  rw [List.nil_append] at this
  exact this

include fo in
/-- `_Final` of a streamed context is the specified digest of the recorded bytes -/
theorem final_spec (c : Hash.Ctx f.h.alg) (msg : Bytes) (h : Streamed f c msg) : f.h.final c = f.spec msg := by
  rw [fo.spec, fo.ok.final c msg (streamed_inv fo c msg h)]

include fo in
/-- `HMAC_Final` of a streamed context is RFC 2104 of the recorded key and bytes -/
theorem hfinal_spec (c : Hmac.Ctx f.h) (k msg : Bytes) (h : HStreamed f c k msg) :
    Hmac.final f.h c = some (f.hmacSpec k msg) := by
  rw [final_hinv fo.ok c k msg (hstreamed_hinv fo c k msg h), fo.hmacSpec]

include fo in
theorem buf_spec (b : Bytes) : f.h.final (f.update f.init b) = f.spec b :=
  final_spec fo _ _ ⟨[b], by simp, rfl⟩

include fo in
theorem hmac_buf_spec (k b : Bytes) : Hmac.buf f.h k b = some (f.hmacSpec k b) := by
  obtain ⟨c, hc, hf⟩ := hmac_stream_eq_spec fo.ok k [b]
  simp only [List.foldl_cons, List.foldl_nil, List.flatten_cons, List.flatten_nil, List.append_nil] at hf
  simp [Hmac.buf, hc, hf, fo.hmacSpec]

/-! ## one slot -/

theorem slot_init : SlotOk ({} : Slot f) := by
  constructor
  · intro c msg h; cases h
  · intro c k msg h; cases h

theorem slot_closed (s : Slot f) (hm : ∀ c k msg, s.m = some (c, k, msg) → HStreamed f c k msg) :
    SlotOk { s with h := none } := by
  constructor
  · intro c msg h; cases h
  · exact hm

theorem streamed_update (c : Hash.Ctx f.h.alg) (msg b : Bytes) (h : Streamed f c msg) :
    Streamed f (f.update c b) (msg ++ b) := by
  obtain ⟨chunks, rfl, rfl⟩ := h
  exact ⟨chunks ++ [b], by simp, by simp [Fam.update]⟩

theorem hstreamed_update (c : Hmac.Ctx f.h) (k msg b : Bytes) (h : HStreamed f c k msg) :
    HStreamed f (Hmac.update f.h c b) k (msg ++ b) := by
  obtain ⟨c0, chunks, hc0, rfl, rfl⟩ := h
  exact ⟨c0, chunks ++ [b], hc0, by simp, by simp⟩

include fo in
theorem stepSlot_ok (s : Slot f) (hs : SlotOk s) (op : SlotOp) :
    SlotOk (stepSlot f s op).1 ∧ Agrees (stepSlot f s op).2 := by
  cases op with
  | init =>
    refine ⟨⟨?_, hs.m⟩, trivial⟩
    intro c msg h _
    simp only [stepSlot, Option.some.injEq, Prod.mk.injEq] at h
    obtain ⟨rfl, rfl⟩ := h
    exact ⟨[], rfl, rfl⟩
  | addcnt k =>
    unfold stepSlot
    cases hh : s.h with
    | none => simp only; exact ⟨hs, trivial⟩
    | some cm =>
      obtain ⟨c, msg⟩ := cm
      refine ⟨⟨?_, hs.m⟩, trivial⟩
      intro c' msg' _ hf
      cases hf
  | upd b =>
    unfold stepSlot
    cases hh : s.h with
    | none => simp only; exact ⟨hs, trivial⟩
    | some cm =>
      obtain ⟨c, msg⟩ := cm
      refine ⟨⟨?_, hs.m⟩, trivial⟩
      intro c' msg' h hf
      simp only [Option.some.injEq, Prod.mk.injEq] at h
      obtain ⟨rfl, rfl⟩ := h
      exact streamed_update c msg b (hs.h c msg hh hf)
  | fin =>
    unfold stepSlot
    cases hh : s.h with
    | none => simp only; exact ⟨hs, trivial⟩
    | some cm =>
      obtain ⟨c, msg⟩ := cm
      simp only
      split
      · exact ⟨slot_closed s hs.m, trivial⟩
      · rename_i hf
        refine ⟨slot_closed s hs.m, ?_⟩
        show some (f.h.final c) = some (f.spec msg)
        rw [final_spec fo c msg (hs.h c msg hh (by simpa using hf))]
  | buf b =>
    refine ⟨hs, ?_⟩
    show some (f.h.final (f.update f.init b)) = some (f.spec b)
    rw [buf_spec fo]
  | hmac k b => exact ⟨hs, hmac_buf_spec fo k b⟩
  | hmacinit k =>
    simp only [stepSlot]
    split
    · rename_i c hc
      refine ⟨⟨hs.h, ?_⟩, trivial⟩
      intro c' k' msg' h
      simp only [Option.some.injEq, Prod.mk.injEq] at h
      obtain ⟨rfl, rfl, rfl⟩ := h
      exact ⟨_, [], hc, rfl, rfl⟩
    · refine ⟨⟨hs.h, ?_⟩, trivial⟩
      intro c' k' msg' h; cases h
  | hmacupd b =>
    unfold stepSlot
    cases hm : s.m with
    | none => simp only; exact ⟨hs, trivial⟩
    | some ckm =>
      obtain ⟨c, k, msg⟩ := ckm
      refine ⟨⟨hs.h, ?_⟩, trivial⟩
      intro c' k' msg' h
      simp only [Option.some.injEq, Prod.mk.injEq] at h
      obtain ⟨rfl, rfl, rfl⟩ := h
      exact hstreamed_update c k msg b (hs.m c k msg hm)
  | hmacfin =>
    unfold stepSlot
    cases hm : s.m with
    | none => simp only; exact ⟨hs, trivial⟩
    | some ckm =>
      obtain ⟨c, k, msg⟩ := ckm
      refine ⟨⟨hs.h, fun _ _ _ h => by cases h⟩, ?_⟩
      exact hfinal_spec fo c k msg (hs.m c k msg hm)

/-! ## the whole state -/

theorem st_init : StOk ({} : St) :=
  ⟨slot_init, slot_init, slot_init, fun _ _ h => by cases h⟩

theorem crc_final_spec (s : UInt32) (data : Bytes)
    (h : ∃ chunks : List Bytes, chunks.flatten = data ∧ s = chunks.foldl Crc32c.update Crc32c.init) :
    Crc32c.final s = Spec.Crc32c.crc32c data := by
  obtain ⟨chunks, rfl, rfl⟩ := h
  rw [CrcMain.update_chunks, CrcMain.model_eq_spec]

theorem stepOp_ok (st : St) (hs : StOk st) (op : Op) (hop : InContract op) :
    StOk (stepOp st op).1 ∧ Agrees (stepOp st op).2 := by
  cases op with
  | slot a sop =>
    cases a with
    | sha256 =>
      obtain ⟨h1, h2⟩ := stepSlot_ok ok256 st.s256 hs.s256 sop
      exact ⟨⟨h1, hs.s1, hs.s5, hs.crc⟩, h2⟩
    | sha1 =>
      obtain ⟨h1, h2⟩ := stepSlot_ok ok1 st.s1 hs.s1 sop
      exact ⟨⟨hs.s256, h1, hs.s5, hs.crc⟩, h2⟩
    | md5 =>
      obtain ⟨h1, h2⟩ := stepSlot_ok ok5 st.s5 hs.s5 sop
      exact ⟨⟨hs.s256, hs.s1, h1, hs.crc⟩, h2⟩
  | pbkdf2 P S c dk =>
    exact ⟨hs, Pbkdf2Stream.pbkdf2_stream_eq_spec Sha256T.hashOK P S c dk hop⟩
  | pbkdf2sum P S c dk => exact ⟨hs, trivial⟩
  | big n cut =>
    refine ⟨hs, ?_⟩
    simp only [stepOp]
    split <;> trivial
  | bigd a n seed =>
    refine ⟨hs, ?_⟩
    simp only [stepOp]
    split <;> trivial
  | crc b => exact ⟨hs, CrcMain.model_eq_spec b⟩
  | crcinit =>
    refine ⟨⟨hs.s256, hs.s1, hs.s5, ?_⟩, trivial⟩
    intro s data h
    simp only [stepOp, Option.some.injEq, Prod.mk.injEq] at h
    obtain ⟨rfl, rfl⟩ := h
    exact ⟨[], rfl, rfl⟩
  | crcupd b =>
    unfold stepOp
    cases hc : st.crc with
    | none => simp only; exact ⟨hs, trivial⟩
    | some sd =>
      obtain ⟨s, data⟩ := sd
      refine ⟨⟨hs.s256, hs.s1, hs.s5, ?_⟩, trivial⟩
      intro s' data' h
      simp only [Option.some.injEq, Prod.mk.injEq] at h
      obtain ⟨rfl, rfl⟩ := h
      obtain ⟨chunks, rfl, rfl⟩ := hs.crc s data hc
      exact ⟨chunks ++ [b], by simp, by simp⟩
  | crcfin =>
    unfold stepOp
    cases hc : st.crc with
    | none => simp only; exact ⟨hs, trivial⟩
    | some sd =>
      obtain ⟨s, data⟩ := sd
      exact ⟨hs, crc_final_spec s data (hs.crc s data hc)⟩

theorem runOps_ok (ops : List Op) (st : St) (hs : StOk st) (hops : ∀ op ∈ ops, InContract op) :
    StOk (runOps st ops).1 ∧ ∀ o ∈ (runOps st ops).2, Agrees o := by
  induction ops generalizing st with
  | nil => exact ⟨hs, fun o ho => by cases ho⟩
  | cons op ops ih =>
    obtain ⟨h1, h2⟩ := stepOp_ok st hs op (hops op (List.mem_cons_self ..))
    obtain ⟨i1, i2⟩ := ih _ h1 (fun o ho => hops o (List.mem_cons_of_mem _ ho))
    refine ⟨i1, ?_⟩
    intro o ho
    simp only [runOps, List.mem_cons] at ho
    rcases ho with rfl | ho
    · exact h2
    · exact i2 o ho

/-! ## end to end: `init`, `upd*`, `fin` prints the specified digest of the bytes fed -/

theorem runOps_fst (ops : List Op) (st : St) :
    (runOps st ops).1 = ops.foldl (fun s op => (stepOp s op).1) st := by
  induction ops generalizing st with
  | nil => rfl
  | cons op ops ih => simp only [runOps, List.foldl_cons]; exact ih _

/-- feeding chunks to one slot -/
def slotFeed (f : Fam) (s : Slot f) (chunks : List Bytes) : Slot f :=
  chunks.foldl (fun s b => (stepSlot f s (.upd b)).1) s

theorem slotFeed_spec (s : Slot f) (c : Hash.Ctx f.h.alg) (msg : Bytes) (hh : s.h = some (c, msg)) (chunks : List Bytes) :
    (slotFeed f s chunks).h = some (chunks.foldl (Hash.update f.h.alg) c, msg ++ chunks.flatten) ∧
    (slotFeed f s chunks).forged = s.forged := by
  induction chunks generalizing s c msg with
  | nil => simp [slotFeed, hh]
  | cons b bs ih =>
    have h1 : (stepSlot f s (.upd b)).1.h = some (f.update c b, msg ++ b) := by simp only [stepSlot, hh]
    have h2 : (stepSlot f s (.upd b)).1.forged = s.forged := by simp only [stepSlot, hh]
    obtain ⟨i1, i2⟩ := ih _ _ _ h1
    simp only [slotFeed, List.foldl_cons, List.flatten_cons] at i1 i2 ⊢
    rw [i1, i2, h2, List.append_assoc]
    exact ⟨rfl, rfl⟩

include fo in
/-- after `init` and the chunks, `fin` answers the specified digest of their concatenation at L1 and L2 -/
theorem slot_stream_fin (s : Slot f) (chunks : List Bytes) :
    (stepSlot f (slotFeed f (stepSlot f s .init).1 chunks) .fin).2
      = .digest (f.spec chunks.flatten) (some (f.spec chunks.flatten)) := by
  obtain ⟨h1, h2⟩ := slotFeed_spec (stepSlot f s .init).1 f.init [] rfl chunks
  have hf : (slotFeed f (stepSlot f s .init).1 chunks).forged = false := h2
  rw [List.nil_append] at h1
  generalize slotFeed f (stepSlot f s .init).1 chunks = s' at h1 hf
  have hfin : f.h.final (chunks.foldl (Hash.update f.h.alg) f.init) = f.spec chunks.flatten :=
    final_spec fo _ _ ⟨chunks, rfl, rfl⟩
  simp only [stepSlot, h1, hf, Bool.false_eq_true, if_false, hfin]

theorem feed256 (st : St) (chunks : List Bytes) :
    (chunks.map fun b => Op.slot .sha256 (.upd b)).foldl (fun s op => (stepOp s op).1) st
      = { st with s256 := slotFeed fam256 st.s256 chunks } := by
  induction chunks generalizing st with
  | nil => rfl
  | cons b bs ih => simp only [List.map_cons, List.foldl_cons, ih]; rfl

theorem feed1 (st : St) (chunks : List Bytes) :
    (chunks.map fun b => Op.slot .sha1 (.upd b)).foldl (fun s op => (stepOp s op).1) st
      = { st with s1 := slotFeed fam1 st.s1 chunks } := by
  induction chunks generalizing st with
  | nil => rfl
  | cons b bs ih => simp only [List.map_cons, List.foldl_cons, ih]; rfl

theorem feed5 (st : St) (chunks : List Bytes) :
    (chunks.map fun b => Op.slot .md5 (.upd b)).foldl (fun s op => (stepOp s op).1) st
      = { st with s5 := slotFeed fam5 st.s5 chunks } := by
  induction chunks generalizing st with
  | nil => rfl
  | cons b bs ih => simp only [List.map_cons, List.foldl_cons, ih]; rfl

theorem stream_fin (st : St) (a : AlgId) (chunks : List Bytes) :
    (stepOp (runOps st (streamOps a chunks)).1 (.slot a .fin)).2
      = .digest (a.spec chunks.flatten) (some (a.spec chunks.flatten)) := by
  rw [runOps_fst]
  cases a with
  | sha256 =>
    simp only [streamOps, List.foldl_cons, feed256]
    exact slot_stream_fin ok256 st.s256 chunks
  | sha1 =>
    simp only [streamOps, List.foldl_cons, feed1]
    exact slot_stream_fin ok1 st.s1 chunks
  | md5 =>
    simp only [streamOps, List.foldl_cons, feed5]
    exact slot_stream_fin ok5 st.s5 chunks

/-! ## `forged` only after `addcnt` -/

theorem stepSlot_forged (s : Slot f) (op : SlotOp) (hop : ∀ k, op ≠ .addcnt k) (hs : s.forged = false) :
    (stepSlot f s op).1.forged = false := by
  cases op with
  | addcnt k => exact absurd rfl (hop k)
  | init => rfl
  | buf b => exact hs
  | hmac k b => exact hs
  | upd b => unfold stepSlot; cases s.h <;> exact hs
  | fin => unfold stepSlot; cases s.h <;> simp only <;> first | exact hs | (split <;> exact hs)
  | hmacinit k => simp only [stepSlot]; split <;> exact hs
  | hmacupd b => unfold stepSlot; cases s.m <;> exact hs
  | hmacfin => unfold stepSlot; cases s.m <;> exact hs

theorem stepOp_forged (st : St) (op : Op) (a : AlgId) (hop : ∀ k, op ≠ .slot a (.addcnt k))
    (hs : st.forged a = false) : (stepOp st op).1.forged a = false := by
  cases op with
  | slot b sop =>
    cases b <;> cases a <;> first
      | exact hs
      | exact stepSlot_forged _ sop (fun k h => hop k (by rw [h])) hs
  | pbkdf2 P S c dk => exact hs
  | pbkdf2sum P S c dk => exact hs
  | big n cut => exact hs
  | bigd a n seed => exact hs
  | crc b => exact hs
  | crcinit => exact hs
  | crcupd b => unfold stepOp; cases st.crc <;> exact hs
  | crcfin => unfold stepOp; cases st.crc <;> exact hs

theorem runOps_forged (ops : List Op) (st : St) (a : AlgId) (hops : ∀ k, Op.slot a (.addcnt k) ∉ ops)
    (hs : st.forged a = false) : (runOps st ops).1.forged a = false := by
  induction ops generalizing st with
  | nil => exact hs
  | cons op ops ih =>
    simp only [runOps]
    apply ih
    · intro k hk; exact hops k (List.mem_cons_of_mem _ hk)
    · apply stepOp_forged _ _ _ _ hs
      intro k hk; exact hops k (hk ▸ List.mem_cons_self ..)

/-! ## `bigd`: the streamed pattern -/

/-- the chunks cover the pattern: bytes `off ‥ off+rest` when the fuel is enough -/
theorem patChunks_flatten (seed : Nat) (k off rest : Nat) (h : rest ≤ k * bigdChunk) :
    (patChunks seed k off rest).flatten = (List.range' off rest).map (patByte seed) := by
  induction k generalizing off rest with
  | zero =>
    have : rest = 0 := by omega
    subst this
    rfl
  | succ k ih =>
    have hl : min bigdChunk rest ≤ rest := Nat.min_le_right _ _
    have hr : rest - min bigdChunk rest ≤ k * bigdChunk := by
      rw [Nat.succ_mul] at h
      omega
    simp only [patChunks, List.flatten_cons, ih _ _ hr, patChunk, ← List.map_append]
    congr 1
    rw [List.range'_append_1]
    congr 1
    omega

theorem le_nChunks_mul (n : Nat) : n ≤ nChunks n * bigdChunk := by
  unfold nChunks bigdChunk
  omega

/-- the message of `bigd`: byte `i` is `patByte seed i`, for `i < n` -/
theorem pattern_eq_map (n seed : Nat) : pattern n seed = (List.range n).map (patByte seed) := by
  rw [pattern, patChunks_flatten seed _ 0 n (le_nChunks_mul n), List.range_eq_range']

theorem pattern_length (n seed : Nat) : (pattern n seed).length = n := by
  simp [pattern_eq_map]

/-- making the chunks on the fly is folding `_Update` over the chunk list -/
theorem feedPattern_eq_foldl (f : Fam) (seed : Nat) (k off rest : Nat) (c : Hash.Ctx f.h.alg) :
    f.feedPattern seed k off rest c = (patChunks seed k off rest).foldl f.update c := by
  induction k generalizing off rest c with
  | zero => rfl
  | succ k ih => simp only [Fam.feedPattern, patChunks, List.foldl_cons, ih]

include fo in
/-- the digest `bigd` prints is the specified digest of the pattern -/
theorem bigd_spec (n seed : Nat) : f.bigd n seed = f.spec (pattern n seed) := by
  rw [Fam.bigd, feedPattern_eq_foldl]
  exact final_spec fo _ _ ⟨patChunks seed (nChunks n) 0 n, rfl, rfl⟩

theorem fam_spec (a : AlgId) : a.fam.spec = a.spec := by cases a <;> rfl

theorem alg_bigd_spec (a : AlgId) (n seed : Nat) : a.fam.bigd n seed = a.spec (pattern n seed) := by
  rw [← fam_spec]
  cases a
  · exact bigd_spec ok256 n seed
  · exact bigd_spec ok1 n seed
  · exact bigd_spec ok5 n seed

end Percival.Proofs.HashStep
