import Percival.Proofs.AFUNetIO
import Percival.Proofs.AFUConnect
import Percival.Proofs.AFUDefs
/-!
# C14, upper layers: `netbuf_write.c` (`netbuf_write_init / reserve / consume / write / free`, `poke`)

A buffered writer owns its structure block and, for every queued buffer and the buffer in flight, a header block
and a data block (`writerKeys`).  The proofs follow one scheme:

* `NbwFrm w w'` — nothing but the oracle, `live` and the writers table differ (so the event layer, the pools, the
  cache and the other tables are untouched);
* `NbwKeys w E` — the block-level invariant `Blk w` together with `Owns w.live E` for an *arbitrary* key list `E`:
  it holds at every intermediate point of a call, `alloc` adds a key, `release` removes the first key;
* `nbw_start` / `nbw_finish` — at the beginning `E` is `writerKeys x ++ rest`, at the end it must be
  `writerKeys x' ++ rest` for the writer `x'` that replaced `x` in the table (`rest`: the blocks of all other objects).
-/
namespace Percival.Proofs.AllocFailUpper
open Percival.Model Percival.Model.EvReg Percival.Model.AllocFail
open Percival.Proofs.EvRegNet (regNet netRegistered NetInv)
open Percival.Proofs.EvRegTimer (regImm regTimers TmInv Step Granted)
open Percival.Proofs.EArray (malloc_ok malloc_fail free_facts)

/-! ## the writers table -/

theorem nbw_find {l : List Writer} (hnd : (l.map (·.id)).Nodup) {x : Writer} (hx : x ∈ l) :
    l.find? (·.id == x.id) = some x := by
  cases hf : l.find? (·.id == x.id) with
  | none => exact absurd (List.find?_eq_none.1 hf x hx) (by simp)
  | some y =>
    have hy : y ∈ l := List.mem_of_find?_eq_some hf
    have hid : y.id = x.id := by simpa using List.find?_some hf
    rw [eq_of_nodup_map (·.id) hnd hy hx hid]

theorem nbw_writers_nodup {w : World} (h : Inv0 w) : (w.writers.map (·.id)).Nodup :=
  (tables_nodup h.owns.nodupE).2.2.2.2.2.1

theorem updWriter_ids (l : List Writer) (x' : Writer) : (updWriter l x').map (·.id) = l.map (·.id) := by
  induction l with
  | nil => rfl
  | cons y rest ih =>
    simp only [updWriter, List.map_cons] at ih ⊢
    rw [ih]
    by_cases hq : y.id = x'.id
    · simp [hq]
    · have : (y.id == x'.id) = false := by simpa using hq
      simp [this]

theorem updWriter_of_not_mem {l : List Writer} {x' : Writer} (h : x'.id ∉ l.map (·.id)) : updWriter l x' = l := by
  induction l with
  | nil => rfl
  | cons y rest ih =>
    simp only [List.map_cons, List.mem_cons, not_or] at h
    have hq : (y.id == x'.id) = false := by simpa using fun e : y.id = x'.id => h.1 e.symm
    have := ih h.2
    simp only [updWriter] at this ⊢
    simp only [List.map_cons, hq, Bool.false_eq_true, if_false, this]

theorem updWriter_self {l : List Writer} (hnd : (l.map (·.id)).Nodup) {x : Writer} (hx : x ∈ l) : updWriter l x = l := by
  induction l with
  | nil => rfl
  | cons y rest ih =>
    simp only [List.map_cons, List.nodup_cons] at hnd
    rcases List.mem_cons.1 hx with rfl | hx
    · have := updWriter_of_not_mem (x' := x) hnd.1
      simp only [updWriter] at this ⊢
      simp only [List.map_cons, beq_self_eq_true, if_true, this]
    · have hne : (y.id == x.id) = false := by
        have : y.id ≠ x.id := fun e => hnd.1 (e ▸ List.mem_map_of_mem hx)
        simpa using this
      have := ih hnd.2 hx
      simp only [updWriter] at this ⊢
      simp only [List.map_cons, hne, Bool.false_eq_true, if_false, this]

theorem updWriter_updWriter (l : List Writer) {x1 x2 : Writer} (hid : x2.id = x1.id) :
    updWriter (updWriter l x1) x2 = updWriter l x2 := by
  simp only [updWriter, List.map_map]
  apply List.map_congr_left
  intro y _
  simp only [Function.comp, hid]
  by_cases hq : y.id = x1.id
  · simp [hq]
  · have : (y.id == x1.id) = false := by simpa using hq
    simp [this]

theorem mem_updWriter {l : List Writer} {x x' : Writer} (hx : x ∈ l) (hid : x'.id = x.id) : x' ∈ updWriter l x' := by
  simp only [updWriter, List.mem_map]
  exact ⟨x, hx, by simp [hid]⟩

/-- the writer with `x`'s id replaced: the new entry and the other writers -/
theorem updWriter_perm : ∀ (l : List Writer) {x x' : Writer}, x ∈ l → (l.map (·.id)).Nodup → x'.id = x.id →
    (updWriter l x').Perm (x' :: l.filter (fun y => y.id != x.id))
  | [], _, _, hx, _, _ => by simp at hx
  | y :: rest, x, x', hx, hnd, hid => by
    simp only [List.map_cons, List.nodup_cons] at hnd
    rcases List.mem_cons.1 hx with rfl | hx
    · have h1 : updWriter rest x' = rest := updWriter_of_not_mem (by rw [hid]; exact hnd.1)
      have h2 : rest.filter (fun y => y.id != x.id) = rest := by
        apply List.filter_eq_self.2
        intro y hy
        have : y.id ≠ x.id := fun e => hnd.1 (e ▸ List.mem_map_of_mem hy)
        simpa using this
      simp only [updWriter, hid] at h1 ⊢
      simp only [List.map_cons, beq_self_eq_true, if_true, h1, List.filter_cons, bne_self_eq_false,
        Bool.false_eq_true, if_false, h2]
      exact .refl _
    · have hne : y.id ≠ x.id := fun e => hnd.1 (e ▸ List.mem_map_of_mem hx)
      have hb1 : (y.id == x'.id) = false := by rw [hid]; simpa using hne
      have hb2 : (y.id != x.id) = true := by simpa using hne
      have ih := updWriter_perm rest hx hnd.2 hid
      simp only [updWriter] at ih ⊢
      simp only [List.map_cons, hb1, Bool.false_eq_true, if_false, List.filter_cons, hb2, if_true]
      exact (ih.cons y).trans (List.Perm.swap x' y _)

/-! ## keys -/

/-- the blocks of the buffer in flight -/
def currKeys : Option (WBuf × Nat) → List (Nat × Site)
  | some (wb, _) => wbufKeys wb
  | none => []

theorem writerKeys_eq (x : Writer) :
    writerKeys x = (x.id, Site.nbwStruct) :: (x.queue.flatMap wbufKeys ++ currKeys x.curr) := by
  unfold writerKeys currKeys
  rcases x.curr with _ | ⟨wb, c⟩ <;> rfl

/-- the blocks of every object except the writer with this id -/
def nbwRest (t : Tables) (id : Nat) : List (Nat × Site) :=
  expLive { t with writers := t.writers.filter (fun y => y.id != id) }

theorem expLive_updWriter {t : Tables} (hnd : (t.writers.map (·.id)).Nodup) {x x' : Writer} (hx : x ∈ t.writers)
    (hid : x'.id = x.id) :
    (expLive { t with writers := updWriter t.writers x' }).Perm (writerKeys x' ++ nbwRest t x.id) :=
  (expLive_perm (t := { t with writers := updWriter t.writers x' })
    (t' := { t with writers := x' :: t.writers.filter (fun y => y.id != x.id) })
    (.refl _) (.refl _) (.refl _) (.refl _) (.refl _) (updWriter_perm t.writers hx hnd hid) (.refl _)).trans
    (expLive_cons_writers { t with writers := t.writers.filter (fun y => y.id != x.id) } x')

/-! ## the frame of a writer call, and the block-level invariant against an arbitrary key list -/

/-- nothing but the oracle, `live` and the writers table differ -/
structure NbwFrm (w w' : World) : Prop where
  ev : w'.ev = w.ev
  cache : w'.cache = w.cache
  bad : w'.bad = w.bad
  evLive : w'.evLive = w.evLive
  rd : w'.rdPool = w.rdPool
  wr : w'.wrPool = w.wrPool
  reads : w'.reads = w.reads
  writes : w'.writes = w.writes
  accepts : w'.accepts = w.accepts
  conns : w'.conns = w.conns
  readers : w'.readers = w.readers
  https : w'.https = w.https
  step : Step w.m w'.m

theorem NbwFrm.refl (w : World) : NbwFrm w w :=
  ⟨rfl, rfl, rfl, rfl, rfl, rfl, rfl, rfl, rfl, rfl, rfl, rfl, Step.refl _⟩

theorem NbwFrm.trans {a b c : World} (h1 : NbwFrm a b) (h2 : NbwFrm b c) : NbwFrm a c :=
  ⟨h2.ev.trans h1.ev, h2.cache.trans h1.cache, h2.bad.trans h1.bad, h2.evLive.trans h1.evLive, h2.rd.trans h1.rd,
   h2.wr.trans h1.wr, h2.reads.trans h1.reads, h2.writes.trans h1.writes, h2.accepts.trans h1.accepts,
   h2.conns.trans h1.conns, h2.readers.trans h1.readers, h2.https.trans h1.https, h1.step.trans h2.step⟩

theorem NbwFrm.of_setWriter (w : World) (x : Writer) : NbwFrm w (setWriter w x) :=
  ⟨rfl, rfl, rfl, rfl, rfl, rfl, rfl, rfl, rfl, rfl, rfl, rfl, Step.refl _⟩

theorem NbwFrm.tables_eq {w w' : World} (f : NbwFrm w w') : tables w' = { tables w with writers := w'.writers } := by
  simp only [tables, f.reads, f.writes, f.accepts, f.conns, f.readers, f.https]

/-- the frame, the writers table too, and no refusal -/
structure NbwFrm1 (w w' : World) : Prop extends NbwFrm w w' where
  writers : w'.writers = w.writers
  ref : w'.m.refusals = w.m.refusals

theorem NbwFrm1.refl (w : World) : NbwFrm1 w w := ⟨NbwFrm.refl w, rfl, rfl⟩

theorem NbwFrm1.trans {a b c : World} (h1 : NbwFrm1 a b) (h2 : NbwFrm1 b c) : NbwFrm1 a c :=
  ⟨h1.toNbwFrm.trans h2.toNbwFrm, h2.writers.trans h1.writers, h2.ref.trans h1.ref⟩

/-- `Blk` and ownership of exactly the blocks with keys `E` -/
structure NbwKeys (w : World) (E : List (Nat × Site)) : Prop where
  blk : Blk w
  owns : Owns w.live E

theorem NbwKeys.perm {w : World} {E E' : List (Nat × Site)} (h : NbwKeys w E) (hp : E.Perm E') : NbwKeys w E' :=
  ⟨h.blk, h.owns.perm hp⟩

theorem NbwKeys.of_setWriter {w : World} {E : List (Nat × Site)} (h : NbwKeys w E) (x : Writer) :
    NbwKeys (setWriter w x) E :=
  ⟨h.blk.congr rfl rfl rfl rfl, h.owns⟩

/-- a granted request: one key more -/
theorem NbwKeys.of_alloc {w w' : World} {E : List (Nat × Site)} {site : Site} {sz c : Nat} (h : NbwKeys w E)
    (ha : alloc w site sz = (some c, w')) :
    NbwKeys w' ((c, site) :: E) ∧ NbwFrm1 w w' ∧ c = w.m.n ∧ w'.live = ⟨c, site, sz⟩ :: w.live := by
  obtain ⟨rfl, rfl, hm⟩ := alloc_some ha
  have hok := malloc_ok hm
  have hs := EvRegTimer.step_malloc w.m sz
  refine ⟨⟨?_, ?_⟩, ⟨⟨rfl, rfl, rfl, rfl, rfl, rfl, rfl, rfl, rfl, rfl, rfl, rfl, hs⟩, rfl, hok.1⟩, rfl, rfl⟩
  · refine h.blk.of_cons ⟨w.m.n, site, sz⟩ rfl (.refl _) ?_ ?_
    · show w.m.n < (w.m.malloc sz).2.n
      rw [hok.2.2.2]; exact Nat.lt_succ_self _
    · show (w.m.malloc sz).2.live - w.evLive = w.m.live - w.evLive + 1
      rw [hok.2.1]; omega
  · refine Owns.cons h.owns ⟨w.m.n, site, sz⟩ ?_
    intro hmem
    obtain ⟨b, hb, hid⟩ := List.mem_map.1 hmem
    have := h.blk.fresh b (List.mem_append_left _ hb)
    simp only at hid
    omega

/-- a refused request: only the oracle moved -/
theorem NbwKeys.of_alloc_none {w w' : World} {E : List (Nat × Site)} {site : Site} {sz : Nat} (h : NbwKeys w E)
    (ha : alloc w site sz = (none, w')) :
    NbwKeys w' E ∧ NbwFrm w w' ∧ w'.writers = w.writers ∧ w'.live = w.live ∧ w'.m.refusals = w.m.refusals + 1 := by
  obtain ⟨rfl, hm⟩ := alloc_none ha
  have hf := malloc_fail hm
  have hs := EvRegTimer.step_malloc w.m sz
  refine ⟨⟨?_, h.owns⟩, ⟨rfl, rfl, rfl, rfl, rfl, rfl, rfl, rfl, rfl, rfl, rfl, rfl, hs⟩, rfl, rfl, hf.1⟩
  refine h.blk.of_perm (.refl _) hs.n ?_
  show (w.m.malloc sz).2.live - w.evLive = w.m.live - w.evLive
  rw [hf.2.1]

/-- `free` of the block owned under the first key: it is found (no double free) and its key goes -/
theorem NbwKeys.of_release {w : World} {E : List (Nat × Site)} {k : Nat × Site} (h : NbwKeys w (k :: E)) :
    NbwKeys (release w k.1) E ∧ NbwFrm1 w (release w k.1) ∧ (release w k.1).live = eraseId w.live k.1 := by
  obtain ⟨b, hb, hkb⟩ := List.mem_map.1 (h.owns.own1 k List.mem_cons_self)
  have hbid : b.id = k.1 := congrArg Prod.fst hkb
  have hfb : findId w.live k.1 = some b := by rw [← hbid]; exact findId_eq h.blk.live_nodup hb
  have hrel : release w k.1 = { w with m := w.m.free false, live := eraseId w.live k.1 } := by
    rw [← hbid]; exact release_live hb
  have hfr := free_facts w.m false
  rw [hrel]
  refine ⟨⟨?_, h.owns.erase h.blk.live_nodup⟩,
    ⟨⟨rfl, rfl, rfl, rfl, rfl, rfl, rfl, rfl, rfl, rfl, rfl, rfl, EvRegTimer.step_free w.m false⟩, rfl, hfr.1⟩, rfl⟩
  refine h.blk.of_drop b ?_ ?_ ?_
  · exact ((perm_eraseId hfb).append_right _).symm
  · show w.m.n ≤ (w.m.free false).n
    rw [hfr.2.2.2]; exact Nat.le_refl _
  · show (w.m.free false).live - w.evLive = w.m.live - w.evLive - 1
    rw [hfr.2.1]; simp only [Bool.false_eq_true, if_false]; omega

/-- `releaseBufs`: both blocks of every buffer are found and go -/
theorem NbwKeys.of_releaseBufs : ∀ (l : List WBuf) {w : World} {E : List (Nat × Site)},
    NbwKeys w (l.flatMap wbufKeys ++ E) → NbwKeys (releaseBufs w l) E ∧ NbwFrm1 w (releaseBufs w l)
  | [], w, E, h => ⟨h, NbwFrm1.refl w⟩
  | wb :: rest, w, E, h => by
    have h0 : NbwKeys w ((wb.buf, Site.nbwBuf) :: (wb.hdr, Site.nbwHdr) :: (rest.flatMap wbufKeys ++ E)) := h
    obtain ⟨h1, f1, _⟩ := h0.of_release
    obtain ⟨h2, f2, _⟩ := h1.of_release
    obtain ⟨h3, f3⟩ := NbwKeys.of_releaseBufs rest h2
    exact ⟨h3, (f1.trans f2).trans f3⟩

/-! ## from `Inv0` to the keys and back -/

theorem nbw_start {w : World} (h : Inv0 w) {x : Writer} (hx : x ∈ w.writers) :
    NbwKeys w (writerKeys x ++ nbwRest (tables w) x.id) :=
  ⟨h.blk, h.owns.perm (expLive_filter_writers h.owns.nodupE (t := tables w) hx)⟩

theorem nbw_expNet {w w' : World} (f : NbwFrm w w') : expNet (tables w') = expNet (tables w) := by
  simp only [expNet, tables, f.reads, f.writes, f.accepts, f.conns]

theorem nbw_expTimers {w w' : World} (f : NbwFrm w w') : expTimers (tables w') = expTimers (tables w) := by
  simp only [expTimers, tables, f.conns]

theorem nbw_expImm {w w' : World} (f : NbwFrm w w') : expImm (tables w') = expImm (tables w) := by
  simp only [expImm, tables, f.conns, f.readers]

/-- `Inv0` after a call that stayed inside the frame -/
theorem inv0_of_nbwFrm {w w' : World} (h : Inv0 w) (f : NbwFrm w w') (hk : NbwKeys w' (expLive (tables w'))) : Inv0 w' := by
  refine inv0_mk ?_ (by rw [f.bad]; exact h.bad0) hk.blk hk.owns (by rw [f.cache]; exact h.cacheSites)
    (by rw [f.rd, f.cache]; exact h.rd) (by rw [f.wr, f.cache]; exact h.wr) ?_ ?_ ?_
  · rw [f.ev]; exact evOk_step h.ev f.step.n
  · rw [f.ev, nbw_expNet f]; exact h.regNet
  · rw [f.ev, nbw_expTimers f]; exact h.regTm
  · rw [f.ev, nbw_expImm f]; exact h.regImm

/-- the writer `x` was replaced by `x'` (same id) and the live blocks are those of `x'` and of the other objects -/
theorem nbw_finish {w w' : World} {x x' : Writer} (h : Inv0 w) (hx : x ∈ w.writers) (hid : x'.id = x.id)
    (f : NbwFrm w w') (hw : w'.writers = updWriter w.writers x')
    (hk : NbwKeys w' (writerKeys x' ++ nbwRest (tables w) x.id)) :
    Inv0 w' ∧ tables w' = { tables w with writers := updWriter w.writers x' } := by
  have ht : tables w' = { tables w with writers := updWriter w.writers x' } := by rw [f.tables_eq, hw]
  refine ⟨inv0_of_nbwFrm h f ?_, ht⟩
  rw [ht]
  exact hk.perm (expLive_updWriter (t := tables w) (nbw_writers_nodup h) hx hid).symm

theorem NbwFrm.of_writers {w w' : World} (f : NbwFrm w w') (ws : List Writer) : NbwFrm w { w' with writers := ws } :=
  ⟨f.ev, f.cache, f.bad, f.evLive, f.rd, f.wr, f.reads, f.writes, f.accepts, f.conns, f.readers, f.https, f.step⟩

theorem NbwKeys.of_writers {w : World} {E : List (Nat × Site)} (h : NbwKeys w E) (ws : List Writer) :
    NbwKeys { w with writers := ws } E :=
  ⟨h.blk.congr rfl rfl rfl rfl, h.owns⟩

theorem nbw_same {w w' : World} (f : NbwFrm w w') (hw : w'.writers = w.writers) (hl : w'.live = w.live) : Same w w' :=
  ⟨hl, by rw [f.tables_eq, hw]; rfl, by rw [f.ev], f.bad⟩

/-! ## `netbuf_write_init` -/

theorem netbufWriteInit_spec (w : World) (fd : Nat) (h : Inv0 w) :
    Inv0 (netbufWriteInit w fd).2 ∧ Step w.m (netbufWriteInit w fd).2.m ∧
    ((netbufWriteInit w fd).1 = none → Same w (netbufWriteInit w fd).2 ∧ w.m.refusals < (netbufWriteInit w fd).2.m.refusals) ∧
    (∀ x, (netbufWriteInit w fd).1 = some x →
        (netbufWriteInit w fd).2.live = ⟨x, .nbwStruct, nbwStructSize⟩ :: w.live ∧
        tables (netbufWriteInit w fd).2 = { tables w with writers := ⟨x, fd, false, false, [], none⟩ :: w.writers } ∧
        (netbufWriteInit w fd).2.m.refusals = w.m.refusals) := by
  unfold netbufWriteInit
  have hk0 : NbwKeys w (expLive (tables w)) := ⟨h.blk, h.owns⟩
  rcases ha : alloc w .nbwStruct nbwStructSize with ⟨o, w1⟩
  cases o with
  | none =>
    obtain ⟨hk, f, hw, hl, hr⟩ := hk0.of_alloc_none ha
    have hs := nbw_same f hw hl
    simp only
    refine ⟨inv0_of_nbwFrm h f ?_, f.step, fun _ => ⟨hs, by omega⟩, fun x hx => by cases hx⟩
    rw [hs.tables]; exact hk
  | some x =>
    obtain ⟨hk, f, _, hl⟩ := hk0.of_alloc ha
    simp only
    have f' := f.toNbwFrm.of_writers (⟨x, fd, false, false, [], none⟩ :: w1.writers)
    have ht : tables { w1 with writers := ⟨x, fd, false, false, [], none⟩ :: w1.writers } =
        { tables w with writers := ⟨x, fd, false, false, [], none⟩ :: w.writers } := by
      rw [f'.tables_eq]; show _ = _; rw [← f.writers]
    refine ⟨inv0_of_nbwFrm h f' ?_, f.step, fun hx => (by cases hx), ?_⟩
    · rw [ht]
      exact (hk.of_writers _).perm (expLive_cons_writers (tables w) ⟨x, fd, false, false, [], none⟩).symm
    · intro x' hx'
      simp only [Option.some.injEq] at hx'
      subst hx'
      exact ⟨hl, ht, f.ref⟩

/-! ## `netbuf_write_reserve` -/

theorem nbw_newBuflen_ge (n : Nat) : n ≤ NetbufWrite.newBuflen n := by
  unfold NetbufWrite.newBuflen; split <;> omega

/-- a new buffer at the end of the queue: its two blocks are the writer's -/
theorem writerKeys_append (x : Writer) (wb : WBuf) (r : Bool) :
    (writerKeys { x with reserved := r, queue := x.queue ++ [wb] }).Perm
      ((wb.buf, Site.nbwBuf) :: (wb.hdr, Site.nbwHdr) :: writerKeys x) := by
  rw [List.perm_iff_count]; intro k
  simp only [writerKeys_eq, wbufKeys, List.flatMap_append, List.flatMap_cons, List.flatMap_nil, List.append_nil,
    List.count_cons, List.count_append, List.count_nil]
  omega

/-- what `netbuf_write_reserve` promises, about an outcome `R` -/
def ReservePost (w : World) (x : Writer) (len : Nat) (R : Rc × World) : Prop :=
    Inv0 R.2 ∧ Step w.m R.2.m ∧
    (R.1 = .contract ↔ x.reserved = true) ∧
    (R.1 = .contract → R.2 = w) ∧
    (R.1 = .fail → Same w R.2 ∧ w.m.refusals < R.2.m.refusals) ∧
    (R.1 = .ok →
        R.2.m.refusals = w.m.refusals ∧
        ∃ q, (q = x.queue ∨ ∃ hd b, q = x.queue ++ [⟨hd, b, NetbufWrite.newBuflen len, 0⟩]) ∧
          (∃ wb, q.getLast? = some wb ∧ len ≤ wb.buflen - wb.datalen) ∧
          tables R.2 = { tables w with writers := updWriter w.writers { x with reserved := true, queue := q } }) ∧
    R.2.ev = w.ev

/-- "We need to add a new buffer to the queue." -/
def reserveNew (w : World) (x : Writer) (len : Nat) : Rc × World :=
  match alloc w .nbwHdr nbwHdrSize with
  | (none, w1) => (.fail, w1)
  | (some h, w1) =>
    match alloc w1 .nbwBuf (NetbufWrite.newBuflen len) with
    | (none, w2) => (.fail, release w2 h)
    | (some b, w2) =>
      (.ok, setWriter w2 { x with reserved := true, queue := x.queue ++ [⟨h, b, NetbufWrite.newBuflen len, 0⟩] })

theorem reserveNew_spec (w : World) (x : Writer) (len : Nat) (h : Inv0 w) (hx : x ∈ w.writers) (hres : x.reserved = false) :
    ReservePost w x len (reserveNew w x len) := by
  have hk0 := nbw_start h hx
  have hc : ¬ (x.reserved = true) := by rw [hres]; exact Bool.false_ne_true
  unfold reserveNew ReservePost
  rcases ha1 : alloc w .nbwHdr nbwHdrSize with ⟨o1, w1⟩
  cases o1 with
  | none =>
    obtain ⟨hk1, f1, hw1, hl1, hr1⟩ := hk0.of_alloc_none ha1
    have hs := nbw_same f1 hw1 hl1
    simp only
    refine ⟨inv0_of_nbwFrm h f1 ?_, f1.step, ⟨fun hc => (by cases hc), fun hr => absurd hr hc⟩, fun hc => (by cases hc),
      fun _ => ⟨hs, by omega⟩, fun hc => (by cases hc), f1.ev⟩
    rw [hs.tables]; exact ⟨hk1.blk, by rw [hl1]; exact h.owns⟩
  | some hd =>
    obtain ⟨hk1, f1, hc1, hl1⟩ := hk0.of_alloc ha1
    simp only
    rcases ha2 : alloc w1 .nbwBuf (NetbufWrite.newBuflen len) with ⟨o2, w2⟩
    cases o2 with
    | none =>
      obtain ⟨hk2, f2, hw2, hl2, hr2⟩ := hk1.of_alloc_none ha2
      obtain ⟨hk3, f3, hl3⟩ := hk2.of_release
      simp only
      have f := (f1.toNbwFrm.trans f2).trans f3.toNbwFrm
      have hlive : (release w2 hd).live = w.live := by
        rw [hl3, hl2, hl1]; exact eraseId_head ⟨hd, .nbwHdr, nbwHdrSize⟩ w.live
      have hs := nbw_same f (by rw [f3.writers, hw2, f1.writers]) hlive
      refine ⟨inv0_of_nbwFrm h f ?_, f.step, ⟨fun hc => (by cases hc), fun hr => absurd hr hc⟩, fun hc => (by cases hc),
        fun _ => ⟨hs, ?_⟩, fun hc => (by cases hc), f.ev⟩
      · rw [hs.tables]; exact ⟨hk3.blk, by rw [hlive]; exact h.owns⟩
      · rw [f3.ref, hr2, f1.ref]; omega
    | some b =>
      obtain ⟨hk2, f2, hc2, hl2⟩ := hk1.of_alloc ha2
      simp only
      have f := (f1.trans f2)
      have hp : ((b, Site.nbwBuf) :: (hd, Site.nbwHdr) :: (writerKeys x ++ nbwRest (tables w) x.id)).Perm
          (writerKeys { x with reserved := true, queue := x.queue ++ [⟨hd, b, NetbufWrite.newBuflen len, 0⟩] } ++
            nbwRest (tables w) x.id) :=
        ((writerKeys_append x ⟨hd, b, NetbufWrite.newBuflen len, 0⟩ true).symm.append_right _)
      obtain ⟨hi, ht⟩ := nbw_finish
        (x' := { x with reserved := true, queue := x.queue ++ [⟨hd, b, NetbufWrite.newBuflen len, 0⟩] }) h hx rfl
        (f.toNbwFrm.trans (NbwFrm.of_setWriter w2 _)) (by show updWriter w2.writers _ = _; rw [f.writers])
        ((hk2.perm hp).of_setWriter _)
      refine ⟨hi, f.step, ⟨fun hc => (by cases hc), fun hr => absurd hr hc⟩, fun hc => (by cases hc),
        fun hc => (by cases hc), fun _ => ⟨f.ref, _, Or.inr ⟨hd, b, rfl⟩, ⟨_, List.getLast?_concat, ?_⟩, ht⟩, f.ev⟩
      exact nbw_newBuflen_ge len

theorem netbufWriteReserve_eq {w : World} {x : Writer} {len : Nat} (hfind : w.writers.find? (·.id == x.id) = some x) :
    netbufWriteReserve w x.id len =
      if x.reserved then (.contract, w) else
      if (match x.queue.getLast? with
          | some wb => decide (wb.buflen - wb.datalen ≥ len)
          | none => false) then (.ok, setWriter w { x with reserved := true })
      else reserveNew w x len := by
  unfold netbufWriteReserve reserveNew
  rw [hfind]
  rfl

theorem netbufWriteReserve_post (w : World) (x : Writer) (len : Nat) (h : Inv0 w) (hx : x ∈ w.writers) :
    ReservePost w x len (netbufWriteReserve w x.id len) := by
  rw [netbufWriteReserve_eq (nbw_find (nbw_writers_nodup h) hx)]
  cases hres : x.reserved with
  | true =>
    simp only [if_true]
    exact ⟨h, Step.refl _, ⟨fun _ => hres, fun _ => rfl⟩, fun _ => rfl, fun hc => (by cases hc), fun hc => (by cases hc), rfl⟩
  | false =>
    simp only [Bool.false_eq_true, if_false]
    have hnew := reserveNew_spec w x len h hx hres
    have hold : ∀ wb, x.queue.getLast? = some wb → len ≤ wb.buflen - wb.datalen →
        ReservePost w x len (.ok, setWriter w { x with reserved := true }) := by
      intro wb hg hle
      obtain ⟨hi, ht⟩ := nbw_finish (x' := { x with reserved := true }) h hx rfl (NbwFrm.of_setWriter w _) rfl
        ((nbw_start h hx).of_setWriter _)
      exact ⟨hi, Step.refl _, ⟨fun hc => (by cases hc), fun hr => (by rw [hres] at hr; cases hr)⟩, fun hc => (by cases hc),
        fun hc => (by cases hc), fun _ => ⟨rfl, x.queue, Or.inl rfl, ⟨wb, hg, hle⟩, ht⟩, rfl⟩
    cases hg : x.queue.getLast? with
    | none => simp only [Bool.false_eq_true, if_false]; exact hnew
    | some wb =>
      simp only
      by_cases hle : len ≤ wb.buflen - wb.datalen
      · simp only [ge_iff_le, hle, decide_true, if_true]
        exact hold wb hg hle
      · simp only [ge_iff_le, hle, decide_false, Bool.false_eq_true, if_false]
        exact hnew

theorem netbufWriteReserve_spec (w : World) (x : Writer) (len : Nat) (h : Inv0 w) (hx : x ∈ w.writers) :
    Inv0 (netbufWriteReserve w x.id len).2 ∧ Step w.m (netbufWriteReserve w x.id len).2.m ∧
    ((netbufWriteReserve w x.id len).1 = .contract ↔ x.reserved = true) ∧
    ((netbufWriteReserve w x.id len).1 = .contract → (netbufWriteReserve w x.id len).2 = w) ∧
    -- failure: the writer is exactly as it was (in particular not `reserved`: finding F7)
    ((netbufWriteReserve w x.id len).1 = .fail →
        Same w (netbufWriteReserve w x.id len).2 ∧ w.m.refusals < (netbufWriteReserve w x.id len).2.m.refusals) ∧
    ((netbufWriteReserve w x.id len).1 = .ok →
        (netbufWriteReserve w x.id len).2.m.refusals = w.m.refusals ∧
        ∃ q, (q = x.queue ∨ ∃ hd b, q = x.queue ++ [⟨hd, b, NetbufWrite.newBuflen len, 0⟩]) ∧
          (∃ wb, q.getLast? = some wb ∧ len ≤ wb.buflen - wb.datalen) ∧
          tables (netbufWriteReserve w x.id len).2 =
            { tables w with writers := updWriter w.writers { x with reserved := true, queue := q } }) := by
  -- (`netbufWriteReserve_post` says in addition that the event layer is not called: `….2.ev = w.ev`)
  obtain ⟨r1, r2, r3, r4, r5, r6, _⟩ := netbufWriteReserve_post w x len h hx
  exact ⟨r1, r2, r3, r4, r5, r6⟩

/-! ## `netbuf_write_free` -/

/-- the blocks of a writer, in the order `netbuf_write_free` releases them -/
theorem writerKeys_free_perm (x : Writer) (R : List (Nat × Site)) :
    (writerKeys x ++ R).Perm (currKeys x.curr ++ (x.queue.flatMap wbufKeys ++ (x.id, Site.nbwStruct) :: R)) := by
  rw [List.perm_iff_count]; intro k
  simp only [writerKeys_eq, List.count_cons, List.count_append, List.cons_append]
  omega

/-- "Free write buffers; free the buffered writer." and the table entry goes -/
theorem nbw_free_tail {w0 w1 : World} {x : Writer} (h : Inv0 w0) (f : NbwFrm1 w0 w1)
    (hk : NbwKeys w1 (x.queue.flatMap wbufKeys ++ (x.id, Site.nbwStruct) :: nbwRest (tables w0) x.id)) :
    Inv0 { release (releaseBufs w1 x.queue) x.id with
            writers := (release (releaseBufs w1 x.queue) x.id).writers.filter (fun y => y.id != x.id) } ∧
    Step w0.m (release (releaseBufs w1 x.queue) x.id).m ∧
    tables { release (releaseBufs w1 x.queue) x.id with
            writers := (release (releaseBufs w1 x.queue) x.id).writers.filter (fun y => y.id != x.id) } =
      { tables w0 with writers := w0.writers.filter (fun y => y.id != x.id) } := by
  obtain ⟨hk2, f2⟩ := NbwKeys.of_releaseBufs x.queue hk
  obtain ⟨hk3, f3, _⟩ := hk2.of_release
  have f' := (f.trans f2).trans f3
  have fw := f'.toNbwFrm.of_writers ((release (releaseBufs w1 x.queue) x.id).writers.filter (fun y => y.id != x.id))
  have ht : tables { release (releaseBufs w1 x.queue) x.id with
            writers := (release (releaseBufs w1 x.queue) x.id).writers.filter (fun y => y.id != x.id) } =
      { tables w0 with writers := w0.writers.filter (fun y => y.id != x.id) } := by
    rw [fw.tables_eq]; show _ = _; rw [f'.writers]
  refine ⟨inv0_of_nbwFrm h fw ?_, f'.step, ht⟩
  rw [ht]
  exact hk3.of_writers _

theorem netbufWriteFree_spec (w : World) (x : Writer) (h : Inv0 w) (hx : x ∈ w.writers)
    (href : ∀ wb c, x.curr = some (wb, c) → ⟨c, x.fd⟩ ∈ w.writes) :
    ∃ w', netbufWriteFree w x.id = some w' ∧ Inv0 w' ∧ Step w.m w'.m ∧
      tables w' = { tables w with
        writers := w.writers.filter (fun y => y.id != x.id),
        writes := match x.curr with
          | some (_, c) => w.writes.filter (fun y => y.cookie != c)
          | none => w.writes } := by
  have hfind := nbw_find (nbw_writers_nodup h) hx
  unfold netbufWriteFree
  rw [hfind]
  simp only
  cases hc : x.curr with
  | none =>
    simp only
    have hk := (nbw_start h hx).perm (writerKeys_free_perm x _)
    rw [hc] at hk
    obtain ⟨hi, hst, ht⟩ := nbw_free_tail h (NbwFrm1.refl w) hk
    exact ⟨_, rfl, hi, hst, ht⟩
  | some p =>
    obtain ⟨wb, c⟩ := p
    obtain ⟨w', hcan, hi', hst', _, ht', _⟩ := networkWriteCancel_spec w ⟨c, x.fd⟩ h (href wb c hc)
    have hcan' : networkWriteCancel w c = some w' := hcan
    have hw' : w'.writers = w.writers := congrArg Tables.writers ht'
    have hx' : x ∈ w'.writers := by rw [hw']; exact hx
    simp only [hcan', Option.map_some]
    have hk := (nbw_start hi' hx').perm (writerKeys_free_perm x _)
    rw [hc] at hk
    have hk0 : NbwKeys w' ((wb.buf, Site.nbwBuf) :: (wb.hdr, Site.nbwHdr) ::
        (x.queue.flatMap wbufKeys ++ (x.id, Site.nbwStruct) :: nbwRest (tables w') x.id)) := hk
    obtain ⟨hk1, f1, _⟩ := hk0.of_release
    obtain ⟨hk2, f2, _⟩ := hk1.of_release
    obtain ⟨hi, hst, ht⟩ := nbw_free_tail hi' (f1.trans f2) hk2
    refine ⟨_, rfl, hi, hst'.trans hst, ?_⟩
    rw [ht, ht', hw']

/-! ## `poke` -/

theorem splitEmpty_append : ∀ (l : List WBuf), (splitEmpty l).1 ++ (splitEmpty l).2 = l
  | [] => rfl
  | wb :: rest => by
    have ih := splitEmpty_append rest
    simp only [splitEmpty]
    split
    · simp only [List.cons_append, ih]
    · rfl

/-- the buffers `poke` discards are empty -/
theorem splitEmpty_dropped : ∀ (l : List WBuf), ∀ wb ∈ (splitEmpty l).1, wb.datalen = 0
  | [], _, h => by simp [splitEmpty] at h
  | a :: rest, wb, h => by
    simp only [splitEmpty] at h
    split at h
    · rename_i h0
      rcases List.mem_cons.1 h with rfl | h1
      · exact h0
      · exact splitEmpty_dropped rest wb h1
    · simp at h

/-- what `poke` promises about an outcome `R`, for the table entry `x` and the writer `x0` it was called with -/
def PokePost (w : World) (x x0 : Writer) (R : Rc × World) : Prop :=
  Inv0 R.2 ∧ Step w.m R.2.m ∧ R.1 ≠ .contract ∧
  (∃ x', x'.id = x.id ∧ x'.fd = x.fd ∧ x'.reserved = x0.reserved ∧ x'.failed = x0.failed ∧
    ((x'.curr = x0.curr ∧ tables R.2 = { tables w with writers := updWriter w.writers x' } ∧
        registry R.2.ev = registry w.ev) ∨
     (x0.curr = none ∧ R.1 = .ok ∧ ∃ wb c, x'.curr = some (wb, c) ∧
        tables R.2 = { tables w with writers := updWriter w.writers x', writes := ⟨c, x.fd⟩ :: w.writes }))) ∧
  (R.1 = .ok → R.2.m.refusals = w.m.refusals) ∧
  (R.2.m.refusals ≠ w.m.refusals → R.1 = .fail) ∧
  (R.1 = .fail → ¬ netRegistered w.ev x.fd true → 24 * (x.fd + 1) ≤ EArray.SIZE_MAX → w.m.refusals < R.2.m.refusals)

/-- "Start writing a buffer." (or return if nothing is left), once the empty buffers are gone -/
def pokeStart (w : World) (x : Writer) : Rc × World :=
  match x.queue with
  | [] => (.ok, w)
  | wb :: rest' =>
    match networkWrite w x.fd with
    | (some c, w2) => (.ok, setWriter w2 { x with curr := some (wb, c), queue := rest' })
    | (none, w2) => (.fail, w2)

theorem poke_eq (w : World) (x : Writer) {d r : List WBuf} (hs : splitEmpty x.queue = (d, r)) :
    poke w x =
      if x.curr.isSome || x.queue.isEmpty then (.ok, setWriter w x) else
      if x.failed then (.ok, setWriter w x) else
      pokeStart (setWriter (releaseBufs w d) { x with queue := r }) { x with queue := r } := by
  unfold poke pokeStart
  rw [hs]
  rfl

/-- the head of the queue becomes the buffer in flight: the same blocks -/
theorem writerKeys_start (x : Writer) (wb : WBuf) (rest' : List WBuf) (c : Nat) (hq : x.queue = wb :: rest')
    (hc : x.curr = none) : (writerKeys x).Perm (writerKeys { x with curr := some (wb, c), queue := rest' }) := by
  rw [List.perm_iff_count]; intro k
  simp only [writerKeys_eq, hq, hc, currKeys, List.flatMap_cons, List.count_cons, List.count_append, List.count_nil]
  omega

theorem pokeStart_spec (w : World) (x : Writer) (h : Inv0 w) (hx : x ∈ w.writers) (hc : x.curr = none) :
    PokePost w x x (pokeStart w x) := by
  have hself : tables w = { tables w with writers := updWriter w.writers x } := by
    rw [updWriter_self (nbw_writers_nodup h) hx]; rfl
  unfold pokeStart
  cases hq : x.queue with
  | nil =>
    simp only
    unfold PokePost
    exact ⟨h, Step.refl _, fun hc => (by cases hc), ⟨x, rfl, rfl, rfl, rfl, Or.inl ⟨rfl, hself, rfl⟩⟩, fun _ => rfl,
      fun hne => absurd rfl hne, fun hc => (by cases hc)⟩
  | cons wb rest' =>
    simp only
    obtain ⟨hi2, hst2, hnone, hsome, _, hprog⟩ := networkWrite_spec w x.fd h
    rcases hnw : networkWrite w x.fd with ⟨o, w2⟩
    rw [hnw] at hi2 hst2 hnone hsome hprog
    simp only at hi2 hst2 hnone hsome hprog
    cases o with
    | none =>
      have hs := hnone rfl
      simp only
      unfold PokePost
      exact ⟨hi2, hst2, fun hc => (by cases hc),
        ⟨x, rfl, rfl, rfl, rfl, Or.inl ⟨rfl, by rw [hs.tables]; exact hself, hs.registry⟩⟩, fun hc => (by cases hc),
        fun _ => rfl, fun _ => hprog rfl⟩
    | some c =>
      obtain ⟨_, ht2, hr2⟩ := hsome c rfl
      have hw2 : w2.writers = w.writers := congrArg Tables.writers ht2
      have hx2 : x ∈ w2.writers := by rw [hw2]; exact hx
      obtain ⟨hi, ht⟩ := nbw_finish (x' := { x with curr := some (wb, c), queue := rest' }) hi2 hx2 rfl
        (NbwFrm.of_setWriter w2 _) rfl
        (((nbw_start hi2 hx2).perm ((writerKeys_start x wb rest' c hq hc).append_right _)).of_setWriter _)
      simp only
      unfold PokePost
      refine ⟨hi, hst2, fun hc => (by cases hc),
        ⟨{ x with curr := some (wb, c), queue := rest' }, rfl, rfl, rfl, rfl, Or.inr ⟨hc, rfl, wb, c, rfl, ?_⟩⟩,
        fun _ => hr2, fun hne => absurd hr2 hne, fun hc => (by cases hc)⟩
      rw [ht, ht2, hw2]

/-- from the world after the empty buffers were discarded back to the world `poke` was called in -/
theorem PokePost.transfer {w w1 : World} {x x0 x1 : Writer} {R : Rc × World} (hst : Step w.m w1.m) (hev : w1.ev = w.ev)
    (href : w1.m.refusals = w.m.refusals) (ht : tables w1 = { tables w with writers := updWriter w.writers x1 })
    (h1 : x1.id = x.id) (h2 : x1.fd = x.fd) (h3 : x1.reserved = x0.reserved) (h4 : x1.failed = x0.failed)
    (h5 : x1.curr = x0.curr) (hp : PokePost w1 x1 x1 R) : PokePost w x x0 R := by
  obtain ⟨p1, p2, p3, ⟨x', q1, q2, q3, q4, q5⟩, p5, p6, p7⟩ := hp
  have hw1 : w1.writers = updWriter w.writers x1 := congrArg Tables.writers ht
  have hws : w1.writes = w.writes := congrArg Tables.writes ht
  have hupd : updWriter w1.writers x' = updWriter w.writers x' := by rw [hw1]; exact updWriter_updWriter _ q1
  refine ⟨p1, hst.trans p2, p3, ⟨x', q1.trans h1, q2.trans h2, q3.trans h3, q4.trans h4, ?_⟩, ?_, ?_, ?_⟩
  · rcases q5 with ⟨r1, r2, r3⟩ | ⟨r1, r2, wb, c, r3, r4⟩
    · refine Or.inl ⟨r1.trans h5, ?_, by rw [r3, hev]⟩
      rw [r2, ht, hupd]
    · refine Or.inr ⟨h5 ▸ r1, r2, wb, c, r3, ?_⟩
      rw [r4, ht, hupd, hws, h2]
  · intro hok; rw [p5 hok, href]
  · intro hne; exact p6 (by rw [href]; exact hne)
  · intro hf hnr hsz
    rw [← href]
    exact p7 hf (by rw [hev, h2]; exact hnr) (by rw [h2]; exact hsz)

/-- the empty buffers at the head of the queue are the writer's: their blocks first -/
theorem writerKeys_split (x : Writer) (d r : List WBuf) (hq : d ++ r = x.queue) (R : List (Nat × Site)) :
    (writerKeys x ++ R).Perm (d.flatMap wbufKeys ++ (writerKeys { x with queue := r } ++ R)) := by
  rw [List.perm_iff_count]; intro k
  simp only [writerKeys_eq, ← hq, List.flatMap_append, List.count_cons, List.count_append, List.cons_append]
  omega

/-- `poke(W)`, called with the writer `x0` that is about to replace the table entry `x` (same blocks) -/
theorem poke_spec (w : World) (x x0 : Writer) (h : Inv0 w) (hx : x ∈ w.writers) (hid : x0.id = x.id) (hfd : x0.fd = x.fd)
    (hq : x0.queue.flatMap wbufKeys = x.queue.flatMap wbufKeys) (hc : x0.curr = x.curr) :
    PokePost w x x0 (poke w x0) := by
  have hkeys : writerKeys x = writerKeys x0 := by rw [writerKeys_eq, writerKeys_eq, hid, hq, hc]
  have hk0 : NbwKeys w (writerKeys x0 ++ nbwRest (tables w) x.id) := by rw [← hkeys]; exact nbw_start h hx
  -- nothing to do: the entry is replaced, that is all
  have hidle : PokePost w x x0 (.ok, setWriter w x0) := by
    obtain ⟨hi, ht⟩ := nbw_finish (x' := x0) h hx hid (NbwFrm.of_setWriter w _) rfl (hk0.of_setWriter _)
    exact ⟨hi, Step.refl _, fun hc => (by cases hc), ⟨x0, hid, hfd, rfl, rfl, Or.inl ⟨rfl, ht, rfl⟩⟩, fun _ => rfl,
      fun hne => absurd rfl hne, fun hc => (by cases hc)⟩
  rcases hs : splitEmpty x0.queue with ⟨d, r⟩
  have hdr : d ++ r = x0.queue := by have := splitEmpty_append x0.queue; rw [hs] at this; exact this
  rw [poke_eq w x0 hs]
  by_cases hb : (x0.curr.isSome || x0.queue.isEmpty) = true
  · rw [if_pos hb]; exact hidle
  · rw [if_neg hb]
    by_cases hf : x0.failed = true
    · rw [if_pos hf]; exact hidle
    · rw [if_neg hf]
      have hcn : x0.curr = none := by
        cases hcc : x0.curr with
        | none => rfl
        | some p => rw [hcc] at hb; simp at hb
      obtain ⟨hk1, f1⟩ := NbwKeys.of_releaseBufs d (hk0.perm (writerKeys_split x0 d r hdr _))
      obtain ⟨hi1, ht1⟩ := nbw_finish (x' := { x0 with queue := r }) h hx hid
        (f1.toNbwFrm.trans (NbwFrm.of_setWriter _ _))
        (by show updWriter (releaseBufs w d).writers _ = _; rw [f1.writers])
        (hk1.of_setWriter _)
      have hw1 : (setWriter (releaseBufs w d) { x0 with queue := r }).writers = updWriter w.writers { x0 with queue := r } :=
        congrArg Tables.writers ht1
      have hx1 : { x0 with queue := r } ∈ (setWriter (releaseBufs w d) { x0 with queue := r }).writers := by
        rw [hw1]; exact mem_updWriter hx hid
      exact (pokeStart_spec _ _ hi1 hx1 hcn).transfer (w1 := setWriter (releaseBufs w d) { x0 with queue := r })
        f1.step f1.ev f1.ref ht1 hid hfd rfl rfl rfl

/-! ## `netbuf_write_consume` -/

theorem nbw_last_split {q : List WBuf} {wb : WBuf} (h : q.getLast? = some wb) : q.dropLast ++ [wb] = q := by
  obtain ⟨ys, rfl⟩ := List.getLast?_eq_some_iff.1 h
  rw [List.dropLast_concat]

/-- what `netbuf_write_consume` promises, about an outcome `R` -/
def ConsumePost (w : World) (x : Writer) (len : Nat) (R : Rc × World) : Prop :=
    Inv0 R.2 ∧ Step w.m R.2.m ∧
    (R.1 = .contract ↔ ¬ consumeOk x len) ∧
    (R.1 = .contract → R.2 = w) ∧
    (R.1 ≠ .contract →
      ∃ x', x'.id = x.id ∧ x'.fd = x.fd ∧ x'.reserved = false ∧ x'.failed = x.failed ∧
        ((x'.curr = x.curr ∧ tables R.2 = { tables w with writers := updWriter w.writers x' } ∧
            registry R.2.ev = registry w.ev) ∨
         (x.curr = none ∧ R.1 = .ok ∧ ∃ wb c, x'.curr = some (wb, c) ∧
            tables R.2 = { tables w with writers := updWriter w.writers x', writes := ⟨c, x.fd⟩ :: w.writes }))) ∧
    (R.1 = .ok → R.2.m.refusals = w.m.refusals) ∧
    (R.2.m.refusals ≠ w.m.refusals → R.1 = .fail) ∧
    (R.1 = .fail → ¬ netRegistered w.ev x.fd true → 24 * (x.fd + 1) ≤ EArray.SIZE_MAX →
        w.m.refusals < R.2.m.refusals)

theorem consume_contract {w : World} {x : Writer} {len : Nat} (h : Inv0 w) (hn : ¬ consumeOk x len) :
    ConsumePost w x len (.contract, w) :=
  ⟨h, Step.refl _, ⟨fun _ => hn, fun _ => rfl⟩, fun _ => rfl, fun hne => absurd rfl hne, fun hc => (by cases hc),
    fun hne => absurd rfl hne, fun hc => (by cases hc)⟩

theorem consume_poke {w : World} {x x0 : Writer} {len : Nat} {R : Rc × World} (hp : PokePost w x x0 R)
    (hok : consumeOk x len) (h3 : x0.reserved = false) (h4 : x0.failed = x.failed) (h5 : x0.curr = x.curr) :
    ConsumePost w x len R := by
  obtain ⟨p1, p2, p3, ⟨x', q1, q2, q3, q4, q5⟩, p5, p6, p7⟩ := hp
  refine ⟨p1, p2, ⟨fun hc => absurd hc p3, fun hn => absurd hok hn⟩, fun hc => absurd hc p3,
    fun _ => ⟨x', q1, q2, q3.trans h3, q4.trans h4, ?_⟩, p5, p6, p7⟩
  rcases q5 with ⟨r1, r2, r3⟩ | ⟨r1, r2, r3⟩
  · exact Or.inl ⟨r1.trans h5, r2, r3⟩
  · exact Or.inr ⟨h5 ▸ r1, r2, r3⟩

theorem netbufWriteConsume_post (w : World) (x : Writer) (len : Nat) (h : Inv0 w) (hx : x ∈ w.writers) :
    ConsumePost w x len (netbufWriteConsume w x.id len) := by
  have hfind := nbw_find (nbw_writers_nodup h) hx
  unfold netbufWriteConsume
  rw [hfind]
  simp only
  cases hres : x.reserved with
  | false =>
    simp only [Bool.not_false, if_true]
    exact consume_contract h (fun hc => by have := hc.1; rw [hres] at this; cases this)
  | true =>
    simp only [Bool.not_true, Bool.false_eq_true, if_false]
    cases hg : x.queue.getLast? with
    | none =>
      simp only
      exact consume_contract h (fun hc => by obtain ⟨_, wb, hwb, _⟩ := hc; rw [hg] at hwb; cases hwb)
    | some wb =>
      simp only
      by_cases hlt : wb.buflen - wb.datalen < len
      · rw [if_pos hlt]
        refine consume_contract h (fun hc => ?_)
        obtain ⟨_, wb', hwb, hle⟩ := hc
        rw [hg] at hwb
        cases hwb
        omega
      · rw [if_neg hlt]
        have hok : consumeOk x len := ⟨hres, wb, hg, by omega⟩
        have hk : wbufKeys (if x.failed = true then wb else { wb with datalen := wb.datalen + len }) = wbufKeys wb := by
          split <;> rfl
        have hq : (x.queue.dropLast ++ [if x.failed = true then wb else { wb with datalen := wb.datalen + len }]).flatMap
            wbufKeys = x.queue.flatMap wbufKeys := by
          conv => rhs; rw [← nbw_last_split hg]
          simp only [List.flatMap_append, List.flatMap_cons, List.flatMap_nil, hk]
        exact consume_poke
          (poke_spec w x { x with queue := x.queue.dropLast ++
              [if x.failed = true then wb else { wb with datalen := wb.datalen + len }], reserved := false }
            h hx rfl rfl hq rfl) hok rfl rfl rfl

theorem netbufWriteConsume_spec (w : World) (x : Writer) (len : Nat) (h : Inv0 w) (hx : x ∈ w.writers)
    (href : ∀ wb c, x.curr = some (wb, c) → ⟨c, x.fd⟩ ∈ w.writes) :
    Inv0 (netbufWriteConsume w x.id len).2 ∧ Step w.m (netbufWriteConsume w x.id len).2.m ∧
    ((netbufWriteConsume w x.id len).1 = .contract ↔ ¬ consumeOk x len) ∧
    ((netbufWriteConsume w x.id len).1 = .contract → (netbufWriteConsume w x.id len).2 = w) ∧
    -- in every other case the reservation is consumed; a write is started unless one is in progress or the
    -- writer has failed; if starting it fails (-1) the data stays queued and nothing is registered
    ((netbufWriteConsume w x.id len).1 ≠ .contract →
      ∃ x', x'.id = x.id ∧ x'.fd = x.fd ∧ x'.reserved = false ∧ x'.failed = x.failed ∧
        ((x'.curr = x.curr ∧ tables (netbufWriteConsume w x.id len).2 = { tables w with writers := updWriter w.writers x' } ∧
            registry (netbufWriteConsume w x.id len).2.ev = registry w.ev) ∨
         (x.curr = none ∧ (netbufWriteConsume w x.id len).1 = .ok ∧ ∃ wb c, x'.curr = some (wb, c) ∧
            tables (netbufWriteConsume w x.id len).2 =
              { tables w with writers := updWriter w.writers x', writes := ⟨c, x.fd⟩ :: w.writes }))) ∧
    ((netbufWriteConsume w x.id len).1 = .ok → (netbufWriteConsume w x.id len).2.m.refusals = w.m.refusals) ∧
    ((netbufWriteConsume w x.id len).2.m.refusals ≠ w.m.refusals → (netbufWriteConsume w x.id len).1 = .fail) ∧
    ((netbufWriteConsume w x.id len).1 = .fail → ¬ netRegistered w.ev x.fd true → 24 * (x.fd + 1) ≤ EArray.SIZE_MAX →
        w.m.refusals < (netbufWriteConsume w x.id len).2.m.refusals) := by
  -- (the reference from the writer to its write in progress is not needed: `poke` does nothing then)
  have _ := href
  exact netbufWriteConsume_post w x len h hx

/-! ## `netbuf_write_write` -/

/-- what `netbuf_write_write` promises, about an outcome `R` -/
def WritePost (w : World) (x : Writer) (R : Rc × World) : Prop :=
    Inv0 R.2 ∧ Step w.m R.2.m ∧
    (x.failed = true → R = (.ok, w)) ∧
    (R.1 = .contract ↔ (x.failed = false ∧ x.reserved = true)) ∧
    (R.1 = .contract → R.2 = w) ∧
    (x.failed = false → R.1 ≠ .contract →
      ∃ x', x'.id = x.id ∧ x'.fd = x.fd ∧ x'.reserved = false ∧ x'.failed = false ∧
        ((x'.curr = x.curr ∧ tables R.2 = { tables w with writers := updWriter w.writers x' } ∧
            registry R.2.ev = registry w.ev) ∨
         (x.curr = none ∧ R.1 = .ok ∧ ∃ wb c, x'.curr = some (wb, c) ∧
            tables R.2 = { tables w with writers := updWriter w.writers x', writes := ⟨c, x.fd⟩ :: w.writes }))) ∧
    (R.1 = .ok → R.2.m.refusals = w.m.refusals) ∧
    (R.2.m.refusals ≠ w.m.refusals → R.1 = .fail) ∧
    (R.1 = .fail → ¬ netRegistered w.ev x.fd true → 24 * (x.fd + 1) ≤ EArray.SIZE_MAX →
        w.m.refusals < R.2.m.refusals)

theorem netbufWriteWrite_post (w : World) (x : Writer) (len : Nat) (h : Inv0 w) (hx : x ∈ w.writers) :
    WritePost w x (netbufWriteWrite w x.id len) := by
  have hnd := nbw_writers_nodup h
  have hfind := nbw_find hnd hx
  have hself : tables w = { tables w with writers := updWriter w.writers x } := by
    rw [updWriter_self hnd hx]; rfl
  unfold netbufWriteWrite
  rw [hfind]
  simp only
  cases hfl : x.failed with
  | true =>
    simp only [if_true]
    unfold WritePost
    exact ⟨h, Step.refl _, fun _ => rfl, ⟨fun hc => (by cases hc), fun hc => (by rw [hfl] at hc; cases hc.1)⟩, fun _ => rfl,
      fun hf => (by rw [hfl] at hf; cases hf), fun _ => rfl, fun hne => absurd rfl hne, fun hc => (by cases hc)⟩
  | false =>
    simp only [Bool.false_eq_true, if_false]
    have hnt : ¬ (x.failed = true) := by rw [hfl]; exact Bool.false_ne_true
    obtain ⟨r1, r2, r3, r4, r5, r6, r7⟩ := netbufWriteReserve_post w x len h hx
    rcases hrv : netbufWriteReserve w x.id len with ⟨rc, w1⟩
    rw [hrv] at r1 r2 r3 r4 r5 r6 r7
    cases rc with
    | contract =>
      have hw1 : w1 = w := r4 rfl
      subst hw1
      simp only
      unfold WritePost
      exact ⟨r1, r2, fun hf => absurd hf hnt, ⟨fun _ => ⟨hfl, r3.1 rfl⟩, fun _ => rfl⟩, fun _ => rfl,
        fun _ hne => absurd rfl hne, fun hc => (by cases hc), fun hne => absurd rfl hne, fun hc => (by cases hc)⟩
    | fail =>
      obtain ⟨hs, hlt⟩ := r5 rfl
      have hnr : x.reserved = false := by
        cases hr : x.reserved with
        | false => rfl
        | true => exact absurd (r3.2 hr) (fun hc => by cases hc)
      simp only
      unfold WritePost
      exact ⟨r1, r2, fun hf => absurd hf hnt, ⟨fun hc => (by cases hc), fun hc => r3.2 hc.2⟩, fun hc => (by cases hc),
        fun _ _ => ⟨x, rfl, rfl, hnr, hfl, Or.inl ⟨rfl, by rw [hs.tables]; exact hself, hs.registry⟩⟩,
        fun hc => (by cases hc), fun _ => rfl, fun _ _ _ => hlt⟩
    | ok =>
      obtain ⟨hr, q, _, ⟨wbl, hgl, hle⟩, ht1⟩ := r6 rfl
      have hw1 : w1.writers = updWriter w.writers { x with reserved := true, queue := q } := congrArg Tables.writers ht1
      have hws : w1.writes = w.writes := congrArg Tables.writes ht1
      have hx1 : { x with reserved := true, queue := q } ∈ w1.writers := by rw [hw1]; exact mem_updWriter hx rfl
      obtain ⟨c1, c2, c3, _, c5, c6, c7, c8⟩ :=
        netbufWriteConsume_post w1 { x with reserved := true, queue := q } len r1 hx1
      have hok : consumeOk { x with reserved := true, queue := q } len := ⟨rfl, wbl, hgl, hle⟩
      have hnc : (netbufWriteConsume w1 x.id len).1 ≠ .contract := fun hc => (c3.1 hc) hok
      obtain ⟨x', e1, e2, e3, e4, e5⟩ := c5 hnc
      have hupd : updWriter w1.writers x' = updWriter w.writers x' := by rw [hw1]; exact updWriter_updWriter _ e1
      have hev : w1.ev = w.ev := r7
      have hr' : w1.m.refusals = w.m.refusals := hr
      simp only
      unfold WritePost
      refine ⟨c1, r2.trans c2, fun hf => absurd hf hnt,
        ⟨fun hc => absurd hc hnc, fun hc => absurd (r3.2 hc.2) (fun hc => by cases hc)⟩,
        fun hc => absurd hc hnc, fun _ _ => ⟨x', e1, e2, e3, e4.trans hfl, ?_⟩, fun hk => (c6 hk).trans hr',
        fun hne => c7 (by rw [hr']; exact hne), fun hf hnr hsz => ?_⟩
      · rcases e5 with ⟨g1, g2, g3⟩ | ⟨g1, g2, wb, c, g3, g4⟩
        · refine Or.inl ⟨g1, ?_, by rw [g3, hev]⟩
          rw [g2, ht1, hupd]
        · refine Or.inr ⟨g1, g2, wb, c, g3, ?_⟩
          rw [g4, ht1, hupd, hws]
      · rw [← hr']
        exact c8 hf (by rw [hev]; exact hnr) hsz

theorem netbufWriteWrite_spec (w : World) (x : Writer) (len : Nat) (h : Inv0 w) (hx : x ∈ w.writers)
    (href : ∀ wb c, x.curr = some (wb, c) → ⟨c, x.fd⟩ ∈ w.writes) :
    Inv0 (netbufWriteWrite w x.id len).2 ∧ Step w.m (netbufWriteWrite w x.id len).2.m ∧
    (x.failed = true → netbufWriteWrite w x.id len = (.ok, w)) ∧
    ((netbufWriteWrite w x.id len).1 = .contract ↔ (x.failed = false ∧ x.reserved = true)) ∧
    ((netbufWriteWrite w x.id len).1 = .contract → (netbufWriteWrite w x.id len).2 = w) ∧
    (x.failed = false → (netbufWriteWrite w x.id len).1 ≠ .contract →
      ∃ x', x'.id = x.id ∧ x'.fd = x.fd ∧ x'.reserved = false ∧ x'.failed = false ∧
        ((x'.curr = x.curr ∧ tables (netbufWriteWrite w x.id len).2 = { tables w with writers := updWriter w.writers x' } ∧
            registry (netbufWriteWrite w x.id len).2.ev = registry w.ev) ∨
         (x.curr = none ∧ (netbufWriteWrite w x.id len).1 = .ok ∧ ∃ wb c, x'.curr = some (wb, c) ∧
            tables (netbufWriteWrite w x.id len).2 =
              { tables w with writers := updWriter w.writers x', writes := ⟨c, x.fd⟩ :: w.writes }))) ∧
    ((netbufWriteWrite w x.id len).1 = .ok → (netbufWriteWrite w x.id len).2.m.refusals = w.m.refusals) ∧
    ((netbufWriteWrite w x.id len).2.m.refusals ≠ w.m.refusals → (netbufWriteWrite w x.id len).1 = .fail) ∧
    ((netbufWriteWrite w x.id len).1 = .fail → ¬ netRegistered w.ev x.fd true → 24 * (x.fd + 1) ≤ EArray.SIZE_MAX →
        w.m.refusals < (netbufWriteWrite w x.id len).2.m.refusals) := by
  -- (`href` is not needed either: `netbufWriteWrite_post` is the same statement without it)
  have _ := href
  exact netbufWriteWrite_post w x len h hx

end Percival.Proofs.AllocFailUpper
