import Percival.Model.AwsStep
/-! Lean's library rendering of an integer (`toString`, used for the L1 part by `Model.AwsStep`) is the model's
`%d` (`Model.AwsSign.decimal`) (helper lemmas for C19). -/
namespace Percival.Proofs.AwsStep
open Percival Percival.Spec Percival.Spec.SigV4 Percival.Model.AwsSign Percival.Model.AwsStep
theorem digitChar_digit : ∀ n, n < 10 → UInt8.ofNat (Nat.digitChar n).toNat = digit n := by decide

theorem toDigits_decimalNat (n : Nat) :
    (Nat.toDigits 10 n).map (fun c => UInt8.ofNat c.toNat) = decimalNat n := by
  induction n using decimalNat.induct with
  | case1 n h =>
    unfold decimalNat
    simp only [h, if_true, Nat.toDigits_of_lt_base h, List.map_cons, List.map_nil, digitChar_digit n h]
  | case2 n h ih =>
    unfold decimalNat
    simp only [h, if_false]
    have hsplit : Nat.toDigits 10 n = Nat.toDigits 10 (n / 10) ++ Nat.toDigits 10 (n % 10) := by
      rw [Nat.toDigits_append_toDigits (by decide) (by omega) (Nat.mod_lt _ (by decide))]
      congr 1; omega
    rw [hsplit, List.map_append, ih, Nat.toDigits_of_lt_base (Nat.mod_lt _ (by decide))]
    simp only [List.map_cons, List.map_nil, digitChar_digit _ (Nat.mod_lt n (by decide : 0 < 10))]
    simp [digit]

theorem dec_eq_decimal (i : Int) : dec i = decimal i := by
  unfold dec decimal ascii
  cases i with
  | ofNat m =>
    have : ¬ (Int.ofNat m < 0) := Int.not_lt.mpr (Int.natCast_nonneg m)
    have hn : (Int.ofNat m).natAbs = m := rfl
    simp only [this, if_false, hn]
    show (toString m).toList.map _ = _
    rw [Nat.toString_eq_repr, Nat.repr, String.toList_ofList]
    exact toDigits_decimalNat m
  | negSucc m =>
    have : Int.negSucc m < 0 := Int.negSucc_lt_zero m
    simp only [this, if_true]
    show ("-" ++ Nat.repr (m + 1)).toList.map _ = _
    have hn : (Int.negSucc m).natAbs = m + 1 := rfl
    rw [String.toList_append, List.map_append, Nat.repr]
    simp only [String.toList_ofList, toDigits_decimalNat, hn]
    rfl

end Percival.Proofs.AwsStep
