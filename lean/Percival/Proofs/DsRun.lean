import Percival.Proofs.DsStep
/-!
# Whole runs of one family of `pmodel ds` lines (C12): the component follows `EArray.run` / `SeqMap.run` / `MPool.run`

`Proofs/DsStep.lean` has the per-line equations (`ea_stepOp`, `sm_stepOp`, `mp_stepOp`) and the run of the queue
(`eq_runOps`).  Here: the same at run level for the array, the map and the pool.

* array: the container operation a line stands for depends on the number of bytes the array holds (`ea_resize`
  writes `patBytes seed (n * reclen - size)` into the grown part), so the projection `eaProject` is computed along
  the run; and after a successful `ea_dup` the harness frees the copy, which `EArray.run` does not know about: the
  oracle of the executable is the one of `EArray.run` with `live` lowered by the number of copies freed
  (`eaDupFrees`).  `live` is a ghost counter (no model decision reads it): `step_shift`.
* pool: the pool operation a line stands for depends on the harness' list of objects in use; `mpProject` carries it.
-/
namespace Percival.Proofs.DsStep
open Percival.Model Percival.Model.DsStep Percival.Spec.DS Percival.Spec.DSMon
open Percival.Proofs.EArray

/-! ## `live` is a ghost counter -/

/-- the oracle with `d` more blocks counted as allocated -/
def shift (m : Mem) (d : Int) : Mem := { m with live := m.live + d }

theorem shift_zero (m : Mem) : shift m 0 = m := by simp [shift]
theorem shift_shift (m : Mem) (d e : Int) : shift (shift m d) e = shift m (d + e) := by
  simp [shift, Int.add_assoc]
theorem free_false (m : Mem) : m.free false = shift m (-1) := by simp [Mem.free, shift]; rfl

theorem malloc_shift (m : Mem) (d : Int) (sz : Nat) :
    (shift m d).malloc sz = ((m.malloc sz).1, shift (m.malloc sz).2 d) := by
  simp only [Mem.malloc, shift]
  by_cases h : m.f m.n sz = true <;> simp [h] <;> omega

theorem realloc_shift (m : Mem) (d : Int) (w : Bool) (sz : Nat) :
    (shift m d).realloc w sz = ((m.realloc w sz).1, shift (m.realloc w sz).2 d) := by
  simp only [Mem.realloc, shift]
  by_cases h : m.f m.n sz = true <;> cases w <;> simp [h] <;> omega

theorem free_shift (m : Mem) (d : Int) (b : Bool) : (shift m d).free b = shift (m.free b) d := by
  cases b <;> simp [Mem.free, shift] <;> omega

theorem shift_refusals (m : Mem) (d : Int) : (shift m d).refusals = m.refusals := rfl

theorem resize_shift (a : EArray.EA) (n : Nat) (m : Mem) (d : Int) :
    EArray.resize a n (shift m d) =
      ((EArray.resize a n m).1, (EArray.resize a n m).2.1, shift (EArray.resize a n m).2.2 d) := by
  unfold EArray.resize
  simp only [realloc_shift, free_shift]
  split
  · rfl
  · split
    · rcases m.realloc (a.alloc == 0) (EArray.wantAlloc a.alloc n) with ⟨ok, m'⟩
      cases ok <;> rfl
    · rfl

theorem resizeRec_shift (a : EArray.EA) (n : Nat) (r : RecLen) (m : Mem) (d : Int) :
    EArray.resizeRec a n r (shift m d) =
      ((EArray.resizeRec a n r m).1, (EArray.resizeRec a n r m).2.1, shift (EArray.resizeRec a n r m).2.2 d) := by
  unfold EArray.resizeRec
  split
  · rfl
  · exact resize_shift a _ m d

theorem append_shift (a : EArray.EA) (data : List UInt8) (n : Nat) (r : RecLen) (m : Mem) (d : Int) :
    EArray.append a data n r (shift m d) =
      ((EArray.append a data n r m).1, (EArray.append a data n r m).2.1, shift (EArray.append a data n r m).2.2 d) := by
  unfold EArray.append
  simp only [resize_shift]
  split
  · rfl
  · rcases EArray.resize a _ m with ⟨ok, a', m'⟩
    cases ok
    · rfl
    · simp only
      split
      · split
        · rfl
        · split <;> rfl
      · rfl

theorem shrink_shift (a : EArray.EA) (n : Nat) (r : RecLen) (m : Mem) (d : Int) :
    EArray.shrink a n r (shift m d) = ((EArray.shrink a n r m).1, shift (EArray.shrink a n r m).2 d) := by
  unfold EArray.shrink
  simp only [resize_shift]
  rcases EArray.resize a _ m with ⟨ok, a', m'⟩
  cases ok <;> rfl

theorem truncate_shift (a : EArray.EA) (m : Mem) (d : Int) :
    EArray.truncate a (shift m d) =
      ((EArray.truncate a m).1, (EArray.truncate a m).2.1, shift (EArray.truncate a m).2.2 d) := by
  unfold EArray.truncate
  simp only [realloc_shift, free_shift]
  split
  · rfl
  · split
    · rcases m.realloc false a.size with ⟨ok, m'⟩
      cases ok <;> rfl
    · rfl

theorem exportdup_shift (a : EArray.EA) (r : RecLen) (m : Mem) (d : Int) :
    EArray.exportdup a r (shift m d) =
      ((EArray.exportdup a r m).1, (EArray.exportdup a r m).2.1, shift (EArray.exportdup a r m).2.2 d) := by
  unfold EArray.exportdup
  simp only [malloc_shift]
  rcases m.malloc a.size with ⟨ok, m'⟩
  cases ok
  · rfl
  · simp only; split <;> rfl

/-- **no decision of `EArray.step` reads `live`**: same answer, same array, the oracle shifted -/
theorem ea_step_shift (a : EArray.EA) (e : EaOp) (m : Mem) (d : Int) :
    EArray.step a e (shift m d) = ((EArray.step a e m).1, (EArray.step a e m).2.1, shift (EArray.step a e m).2.2 d) := by
  cases e with
  | resize n r fill =>
    simp only [EArray.step, resizeRec_shift]
    rcases EArray.resizeRec a n r m with ⟨ok, a', m'⟩
    cases ok
    · rfl
    · simp only; split <;> rfl
  | append data n r =>
    simp only [EArray.step, append_shift]
    rcases EArray.append a data n r m with ⟨st, a', m'⟩
    rfl
  | shrink n r =>
    simp only [EArray.step, shrink_shift]
    rcases EArray.shrink a n r m with ⟨a', m'⟩
    rfl
  | truncate =>
    simp only [EArray.step, truncate_shift]
    rcases EArray.truncate a m with ⟨ok, a', m'⟩
    cases ok <;> rfl
  | get pos r => simp only [EArray.step]; split <;> rfl
  | set pos r rec => simp only [EArray.step]; split <;> rfl
  | getsize r => rfl
  | exportdup r =>
    simp only [EArray.step, exportdup_shift]
    rcases EArray.exportdup a r m with ⟨st, out, m'⟩
    rfl

theorem ea_run_shift (ops : List EaOp) : ∀ (a : EArray.EA) (m : Mem) (d : Int),
    EArray.run a ops (shift m d) = ((EArray.run a ops m).1, (EArray.run a ops m).2.1, shift (EArray.run a ops m).2.2 d) := by
  induction ops with
  | nil => intro a m d; rfl
  | cons e rest ih =>
    intro a m d
    simp only [EArray.run, ea_step_shift]
    rcases EArray.step a e m with ⟨an, a', m'⟩
    simp only [ih]

/-! ## elastic array -/

/-- whether a line is one of the eight array operations does not depend on the size -/
theorem eaOpOf_isSome (sz sz' : Nat) (op : Op) : (eaOpOf sz op).isSome = (eaOpOf sz' op).isSome := by
  cases op <;> simp [eaOpOf]

/-- **the array operations a sequence of protocol lines stands for**, from the array `a` under the oracle `m`: the
projection of each line (`eaOpOf`) at the size the array has when the line is reached (lines that are no array
operation are left out) -/
def eaProject (a : EArray.EA) (m : Mem) : List Op → List EaOp
  | [] => []
  | op :: rest =>
    match eaOpOf a.size op with
    | none => eaProject a m rest
    | some e => e :: eaProject (EArray.step a e m).2.1 (EArray.step a e m).2.2 rest

/-- the copies the harness freed along a trace: one per successful `exportdup` -/
def eaDupFrees : List (EaOp × EaAns) → Nat
  | [] => 0
  | (e, an) :: rest =>
    (match e, an.st, an.out with | .exportdup _, .ok, some _ => 1 | _, _, _ => 0) + eaDupFrees rest

theorem eaHarnessFree_eq (e : EaOp) (an : EaAns) (m : Mem) :
    eaHarnessFree e an m = shift m (-(eaDupFrees [(e, an)] : Nat)) := by
  unfold eaHarnessFree eaDupFrees
  split <;> simp_all [eaDupFrees, free_false, shift_zero]

theorem mem_run_cons {a : EArray.EA} {e : EaOp} {rest : List EaOp} {m : Mem} :
    (EArray.run a (e :: rest) m).1 =
      (e, (EArray.step a e m).1) :: (EArray.run (EArray.step a e m).2.1 rest (EArray.step a e m).2.2).1 := by
  simp only [EArray.run]

theorem ea_run_cons_snd {a : EArray.EA} {e : EaOp} {rest : List EaOp} {m : Mem} :
    (EArray.run a (e :: rest) m).2 = (EArray.run (EArray.step a e m).2.1 rest (EArray.step a e m).2.2).2 := by
  simp only [EArray.run]

/-- a sequence of array lines on an existing array: the array of the executable's state is the one of `EArray.run` over
`eaProject`, its oracle is `EArray.run`'s with the harness' frees subtracted from `live` (as long as no step reports
an access outside storage) -/
theorem ea_runOps (ops : List Op) : ∀ (s : DsStep.S) (a : EArray.EA) (d : Int) (m : Mem), s.ea = some a →
    s.m = shift m d →
    (∀ op ∈ ops, (eaOpOf a.size op).isSome) →
    (∀ x ∈ (EArray.run a (eaProject a m ops) m).1, x.2.st ≠ .oob) →
    (runOps s ops).1.ea = some (EArray.run a (eaProject a m ops) m).2.1 ∧
    (runOps s ops).1.m = shift (EArray.run a (eaProject a m ops) m).2.2
      (d - (eaDupFrees (EArray.run a (eaProject a m ops) m).1 : Nat)) := by
  induction ops with
  | nil => intro s a d m hs hm _ _; exact ⟨hs, by simp [runOps, eaProject, EArray.run, eaDupFrees, hm]⟩
  | cons op rest ih =>
    intro s a d m hs hm hall hno
    obtain ⟨e, he⟩ := Option.isSome_iff_exists.1 (hall op List.mem_cons_self)
    simp only [eaProject, he, mem_run_cons, ea_run_cons_snd, List.mem_cons, forall_eq_or_imp] at hno ⊢
    have hsh := ea_step_shift a e m d
    have hstep := ea_stepOp s a hs op e he (by rw [hm, hsh]; exact hno.1)
    rw [hm, hsh] at hstep
    simp only at hstep
    rw [eaHarnessFree_eq, shift_shift] at hstep
    simp only [runOps, hstep]
    have := ih { s with m := shift (EArray.step a e m).2.2 (d + -(eaDupFrees [(e, (EArray.step a e m).1)] : Nat)),
                        ea := some (EArray.step a e m).2.1 }
      (EArray.step a e m).2.1 _ (EArray.step a e m).2.2 rfl rfl
      (fun o ho => by rw [eaOpOf_isSome _ a.size]; exact hall o (List.mem_cons_of_mem _ ho)) hno.2
    refine ⟨this.1, ?_⟩
    rw [this.2]
    congr 1
    simp only [eaDupFrees]
    omega

/-! ## sequential pointer map -/

theorem sm_run_cons_fst {x : SeqMap.SM} {e : SmOp} {rest : List SmOp} {m : Mem} :
    (SeqMap.run x (e :: rest) m).1 =
      (e, (SeqMap.step x e m).1) :: (SeqMap.run (SeqMap.step x e m).2.1 rest (SeqMap.step x e m).2.2).1 := by
  simp only [SeqMap.run]

theorem sm_run_cons_snd {x : SeqMap.SM} {e : SmOp} {rest : List SmOp} {m : Mem} :
    (SeqMap.run x (e :: rest) m).2 = (SeqMap.run (SeqMap.step x e m).2.1 rest (SeqMap.step x e m).2.2).2 := by
  simp only [SeqMap.run]

/-- a sequence of `sm_add` / `sm_get` / `sm_del` / `sm_min` lines on an existing map: the map and the oracle of the
executable's state are those of `SeqMap.run` over the projected operations (as long as no step reports `oob`: an
`assert` of `seqptrmap_add` or an access outside storage, which `sm_run_refines` excludes) -/
theorem sm_runOps (ops : List Op) : ∀ (s : DsStep.S) (x : SeqMap.SM), s.sm = some x →
    (∀ op ∈ ops, (smOpOf op).isSome) →
    (∀ y ∈ (SeqMap.run x (ops.filterMap smOpOf) s.m).1, y.2.st ≠ .oob) →
    (runOps s ops).1.sm = some (SeqMap.run x (ops.filterMap smOpOf) s.m).2.1 ∧
    (runOps s ops).1.m = (SeqMap.run x (ops.filterMap smOpOf) s.m).2.2 := by
  induction ops with
  | nil => intro s x hs _ _; exact ⟨hs, rfl⟩
  | cons op rest ih =>
    intro s x hs hall hno
    obtain ⟨e, he⟩ := Option.isSome_iff_exists.1 (hall op List.mem_cons_self)
    simp only [List.filterMap_cons, he, sm_run_cons_fst, sm_run_cons_snd, List.mem_cons, forall_eq_or_imp] at hno ⊢
    have hstep := sm_stepOp s x hs op e he hno.1
    simp only [runOps, hstep]
    exact ih { s with m := (SeqMap.step x e s.m).2.2, sm := some (SeqMap.step x e s.m).2.1 } _ rfl
      (fun o ho => hall o (List.mem_cons_of_mem _ ho)) hno.2

/-! ## object pool -/

/-- the lines of the pool family (`mp_exit` destroys the pool and is not one of them) -/
def isMpLine : Op → Bool
  | .mpMalloc | .mpFree _ | .mpFreenth _ => true
  | _ => false

/-- **the pool operations a sequence of protocol lines stands for**, from the pool `p` with the harness holding the
objects `u`, under the oracle `m`: the projection of each line (`mpOpOf`) with the objects held when the line is
reached; `mp_free` of an object not held and `mp_freenth` with nothing held are no pool operation (answer `skip`,
nothing changes) and are left out -/
def mpProject (p : MPool.MP) (u : List Nat) (m : Mem) : List Op → List MpOp
  | [] => []
  | op :: rest =>
    match mpOpOf u op with
    | none => mpProject p u m rest
    | some e =>
      e :: mpProject (MPool.step objSize p e m).2.1 (mpInUse u e (MPool.step objSize p e m).1) (MPool.step objSize p e m).2.2 rest

/-- the harness' list of objects in use after a trace of pool operations -/
def mpInUseAll (u : List Nat) : List (MpOp × MpAns) → List Nat
  | [] => u
  | (e, an) :: rest => mpInUseAll (mpInUse u e an) rest

theorem mp_run_cons_fst {sz : Nat} {p : MPool.MP} {e : MpOp} {rest : List MpOp} {m : Mem} :
    (MPool.run sz p (e :: rest) m).1 =
      (e, (MPool.step sz p e m).1) :: (MPool.run sz (MPool.step sz p e m).2.1 rest (MPool.step sz p e m).2.2).1 := by
  simp only [MPool.run]

theorem mp_run_cons_snd {sz : Nat} {p : MPool.MP} {e : MpOp} {rest : List MpOp} {m : Mem} :
    (MPool.run sz p (e :: rest) m).2 = (MPool.run sz (MPool.step sz p e m).2.1 rest (MPool.step sz p e m).2.2).2 := by
  simp only [MPool.run]

/-- a sequence of `mp_malloc` / `mp_free` / `mp_freenth` lines: pool, oracle and the harness' list of objects in use
are those of `MPool.run objSize` over `mpProject` -/
theorem mp_runOps (ops : List Op) : ∀ (s : DsStep.S), (∀ op ∈ ops, isMpLine op = true) →
    (runOps s ops).1.mp = (MPool.run objSize s.mp (mpProject s.mp s.inUse s.m ops) s.m).2.1 ∧
    (runOps s ops).1.m = (MPool.run objSize s.mp (mpProject s.mp s.inUse s.m ops) s.m).2.2 ∧
    (runOps s ops).1.inUse = mpInUseAll s.inUse (MPool.run objSize s.mp (mpProject s.mp s.inUse s.m ops) s.m).1 := by
  induction ops with
  | nil => intro s _; exact ⟨rfl, rfl, rfl⟩
  | cons op rest ih =>
    intro s hall
    have hrest : ∀ o ∈ rest, isMpLine o = true := fun o ho => hall o (List.mem_cons_of_mem _ ho)
    cases he : mpOpOf s.inUse op with
    | none =>
      have hop : ∃ x, op = .mpFree x ∨ op = .mpFreenth x := by
        have := hall op List.mem_cons_self
        cases op <;> simp_all [isMpLine, mpOpOf]
      simp only [runOps, mp_stepOp_skip s op hop he, mpProject, he]
      exact ih s hrest
    | some e =>
      simp only [runOps, mp_stepOp s op e he, mpProject, he, mp_run_cons_fst, mp_run_cons_snd, mpInUseAll]
      exact ih { s with m := (MPool.step objSize s.mp e s.m).2.2, mp := (MPool.step objSize s.mp e s.m).2.1,
                        inUse := mpInUse s.inUse e (MPool.step objSize s.mp e s.m).1 } hrest

/-! ## the runs of the executable refine the ideal objects

`C12.ea_run_refines` / `eq_run_refines` / `sm_run_refines` / `mp_run_refines` instantiated at the run of the executable:
an admitted trace has no `oob` answer, so the hypothesis "no step reports `oob`" of `ea_runOps` … follows from the
invariant and the caller's contract. -/

theorem eaAdmitAll_not_oob : ∀ (tr : List (EaOp × EaAns)) (i i' : EaIdeal), eaAdmitAll i tr = some i' →
    ∀ x ∈ tr, x.2.st ≠ .oob
  | [], _, _, _ => by simp
  | (e, an) :: rest, i, i', h => by
    simp only [eaAdmitAll] at h
    split at h
    · rename_i i1 h1
      intro x hx
      rcases List.mem_cons.1 hx with rfl | hx
      · exact eaAdmit_not_oob h1
      · exact eaAdmitAll_not_oob rest i1 i' h x hx
    · cases h

theorem eqAdmitAll_not_oob : ∀ (tr : List (EqOp × EqAns)) (i i' : List (List UInt8)), eqAdmitAll i tr = some i' →
    ∀ x ∈ tr, x.2.st ≠ .oob
  | [], _, _, _ => by simp
  | (e, an) :: rest, i, i', h => by
    simp only [eqAdmitAll] at h
    split at h
    · rename_i i1 h1
      intro x hx
      rcases List.mem_cons.1 hx with rfl | hx
      · exact eqAdmit_not_oob h1
      · exact eqAdmitAll_not_oob rest i1 i' h x hx
    · cases h

theorem smAdmitAll_not_oob : ∀ (tr : List (SmOp × SmAns)) (i i' : SmIdeal), smAdmitAll i tr = some i' →
    ∀ x ∈ tr, x.2.st ≠ .oob
  | [], _, _, _ => by simp
  | (e, an) :: rest, i, i', h => by
    simp only [smAdmitAll] at h
    split at h
    · rename_i i1 h1
      intro x hx
      rcases List.mem_cons.1 hx with rfl | hx
      · exact smAdmit_not_oob h1
      · exact smAdmitAll_not_oob rest i1 i' h x hx
    · cases h

/-- array lines on an existing array that satisfies `Inv`, the caller keeping the contract: the executable's array
is `EArray.run`'s, it satisfies `Inv`, and the ideal array admits the whole trace and ends as `abs` of it -/
theorem ea_runOps_refines (ops : List Op) (s : DsStep.S) (a : EArray.EA) (hs : s.ea = some a)
    (hfam : ∀ op ∈ ops, (eaOpOf a.size op).isSome) (h : Inv a)
    (hc : EArray.Contracts a (eaProject a s.m ops) s.m) :
    ∃ a', (runOps s ops).1.ea = some a' ∧ a' = (EArray.run a (eaProject a s.m ops) s.m).2.1 ∧ Inv a' ∧
      eaAdmitAll (EArray.abs a) (EArray.run a (eaProject a s.m ops) s.m).1 = some (EArray.abs a') := by
  have hr := EArray.run_ok _ a s.m h hc
  have hrun := ea_runOps ops s a 0 s.m hs (shift_zero _).symm hfam (eaAdmitAll_not_oob _ _ _ hr.2)
  exact ⟨_, hrun.1, rfl, hr.1, hr.2⟩

/-- the same for the queue -/
theorem eq_runOps_refines (ops : List Op) (s : DsStep.S) (q : EQueue.EQ) (hs : s.eq = some q)
    (hfam : ∀ op ∈ ops, (eqOpOf q.reclen.val op).isSome) (h : EQueue.QInv q)
    (hc : EQueue.Contracts q (ops.filterMap (eqOpOf q.reclen.val)) s.m)
    (hsmall : (q.offset + q.len + ops.length) * q.reclen.val ≤ EArray.SIZE_MAX) :
    ∃ q', (runOps s ops).1.eq = some q' ∧ q' = (EQueue.run q (ops.filterMap (eqOpOf q.reclen.val)) s.m).2.1 ∧
      EQueue.QInv q' ∧
      eqAdmitAll (EQueue.abs q) (EQueue.run q (ops.filterMap (eqOpOf q.reclen.val)) s.m).1 = some (EQueue.abs q') := by
  have hr := EQueue.run_ok _ q s.m h hc
    (Nat.le_trans (Nat.mul_le_mul_right _ (Nat.add_le_add_left (List.length_filterMap_le _ _) _)) hsmall)
  have hrun := eq_runOps ops s q hs hfam (eqAdmitAll_not_oob _ _ _ hr.2)
  exact ⟨_, hrun.1, rfl, hr.1, hr.2⟩

theorem smContract_of_OpOk {op : Op} {e : SmOp} (hok : OpOk op) (he : smOpOf op = some e) : smContract e := by
  cases op <;> simp only [smOpOf, Option.some.injEq, reduceCtorEq] at he <;> subst he
  · exact hok
  all_goals trivial

/-- the same for the map: lines within `OpOk` (stored pointers non-NULL and below 2^64), fewer than 2^63 numbers -/
theorem sm_runOps_refines (ops : List Op) (s : DsStep.S) (x : SeqMap.SM) (hs : s.sm = some x)
    (hfam : ∀ op ∈ ops, (smOpOf op).isSome) (h : SeqMap.MInv x) (hok : ∀ op ∈ ops, OpOk op)
    (hq : (x.q.offset + x.q.len + ops.length) * 8 ≤ EArray.SIZE_MAX)
    (hn : x.offset + x.len + ops.length ≤ SeqMap.INT64_MAX) :
    ∃ x', (runOps s ops).1.sm = some x' ∧ x' = (SeqMap.run x (ops.filterMap smOpOf) s.m).2.1 ∧ SeqMap.MInv x' ∧
      smAdmitAll (SeqMap.abs x) (SeqMap.run x (ops.filterMap smOpOf) s.m).1 = some (SeqMap.abs x') := by
  have hlen : (ops.filterMap smOpOf).length ≤ ops.length := List.length_filterMap_le _ _
  have hr := SeqMap.run_ok (ops.filterMap smOpOf) x s.m h
    (by
      intro e he
      obtain ⟨op, hop, hoe⟩ := List.mem_filterMap.1 he
      exact smContract_of_OpOk (hok op hop) hoe)
    (Nat.le_trans (Nat.mul_le_mul_right _ (Nat.add_le_add_left hlen _)) hq) (by omega)
  have hrun := sm_runOps ops s x hs hfam (smAdmitAll_not_oob _ _ _ hr.2)
  exact ⟨_, hrun.1, rfl, hr.1, hr.2⟩

/-! pool: the executable keeps the caller's side of the contract by construction (`mpOpOf` only frees objects the
harness holds) -/

theorem mpOpOf_free_mem {u : List Nat} {op : Op} {x : Nat} (h : mpOpOf u op = some (.free x)) : x ∈ u := by
  cases op <;> simp only [mpOpOf, reduceCtorEq, Option.some.injEq] at h
  case mpFree y =>
    split at h
    · rename_i hy; cases h; simpa using hy
    · cases h
  case mpFreenth j =>
    simp only [Option.map_eq_some_iff, MpOp.free.injEq] at h
    obtain ⟨y, hy, rfl⟩ := h
    exact List.mem_mergeSort.1 (List.mem_of_getElem? hy)

theorem mpProject_contracts (ops : List Op) : ∀ (p : MPool.MP) (u : List Nat) (m : Mem),
    MPool.Contracts objSize p u (mpProject p u m ops) m := by
  induction ops with
  | nil => intro p u m; trivial
  | cons op rest ih =>
    intro p u m
    cases he : mpOpOf u op with
    | none => simp only [mpProject, he]; exact ih p u m
    | some e =>
      simp only [mpProject, he, MPool.Contracts]
      refine ⟨?_, fun u' hu' => ?_⟩
      · cases e with
        | malloc => trivial
        | free x => exact mpOpOf_free_mem he
      · rw [mpAdmit_inUse hu']; exact ih _ _ _

theorem mpAdmitAll_inUse : ∀ (tr : List (MpOp × MpAns)) (u u' : List Nat), mpAdmitAll u tr = some u' →
    u' = mpInUseAll u tr
  | [], u, u', h => by simp only [mpAdmitAll, Option.some.injEq] at h; exact h.symm
  | (e, an) :: rest, u, u', h => by
    simp only [mpAdmitAll] at h
    split at h
    · rename_i u1 h1
      rw [mpInUseAll, ← mpAdmit_inUse h1]
      exact mpAdmitAll_inUse rest u1 u' h
    · cases h

/-- pool lines from a state in the simulation relation `R`: "the set of objects in use" admits the whole trace of the
executable's pool, ends as the harness' own list, and `R` holds again -/
theorem mp_runOps_refines (ops : List Op) (s : DsStep.S) (base : Int) (hfam : ∀ op ∈ ops, isMpLine op = true)
    (h : MPool.R s.mp s.m s.inUse base) :
    mpAdmitAll s.inUse (MPool.run objSize s.mp (mpProject s.mp s.inUse s.m ops) s.m).1 = some (runOps s ops).1.inUse ∧
    MPool.R (runOps s ops).1.mp (runOps s ops).1.m (runOps s ops).1.inUse base := by
  obtain ⟨u', hadm, hR⟩ := MPool.run_ok objSize _ s.mp s.m s.inUse base h (mpProject_contracts ops s.mp s.inUse s.m)
  obtain ⟨h1, h2, h3⟩ := mp_runOps ops s hfam
  have hu := mpAdmitAll_inUse _ _ _ hadm
  rw [h1, h2, h3, ← hu]
  exact ⟨hadm, hR⟩

/-! ## decidable contracts and concrete states for the non-vacuity examples of `Properties/C12.lean` -/

instance eaContractDec (i : EaIdeal) (e : EaOp) : Decidable (eaContract i e) := by
  cases e <;> simp only [eaContract] <;> infer_instance

def eaContractsDec : ∀ (ops : List EaOp) (a : EArray.EA) (m : Mem), Decidable (EArray.Contracts a ops m)
  | [], _, _ => isTrue trivial
  | op :: rest, a, m =>
    have := eaContractsDec rest (EArray.step a op m).2.1 (EArray.step a op m).2.2
    by unfold EArray.Contracts; infer_instance

instance (ops : List EaOp) (a : EArray.EA) (m : Mem) : Decidable (EArray.Contracts a ops m) := eaContractsDec ops a m

instance eqContractDec (reclen : Nat) (q : List (List UInt8)) (e : EqOp) : Decidable (eqContract reclen q e) := by
  cases e <;> simp only [eqContract] <;> infer_instance

def eqContractsDec : ∀ (ops : List EqOp) (q : EQueue.EQ) (m : Mem), Decidable (EQueue.Contracts q ops m)
  | [], _, _ => isTrue trivial
  | op :: rest, q, m =>
    have := eqContractsDec rest (EQueue.step q op m).2.1 (EQueue.step q op m).2.2
    by unfold EQueue.Contracts; infer_instance

instance (ops : List EqOp) (q : EQueue.EQ) (m : Mem) : Decidable (EQueue.Contracts q ops m) := eqContractsDec ops q m

/-- an array of 12 bytes in a 16-byte block, alone in the protocol state, and a sequence of array lines on it -/
def demoA : EArray.EA := ⟨12, 16, List.replicate 16 7⟩
def demoS : DsStep.S := { ea := some demoA }
def demoEaLines : List Op :=
  [.eaResize 5 4 1, .eaDup 1, .eaShrink 1 4, .eaResize 7 4 2, .eaGet 0 4, .eaAppend 2 3 5, .eaTrunc, .eaSet 1 4 9,
   .eaGetsize 2]

/-- a queue of 2-byte records holding one record at offset 1, alone in the protocol state -/
def demoQ : EQueue.EQ := ⟨⟨4, 4, [1, 2, 3, 4]⟩, 1, 1, ⟨2, by decide⟩⟩
def demoQS : DsStep.S := { eq := some demoQ }
def demoEqLines : List Op := [.eqAdd 1, .eqAdd 2, .eqDel, .eqGet 0, .eqSet 0 7, .eqLen]

/-- the protocol state after `sm_init`, and a sequence of map lines -/
def demoMS : DsStep.S := (stepOp {} .smInit).1
def demoSmLines : List Op := [.smAdd 5, .smAdd 6, .smDel 0, .smMin, .smGet 1, .smGet 0]

/-- pool lines: two objects handed out, a free of an object not held (`skip`), a free, a `malloc` served from the
cache, another free (`mp_freenth` is left out here only because `List.mergeSort` does not evaluate in the kernel) -/
def demoMpLines : List Op := [.mpMalloc, .mpMalloc, .mpFree 7, .mpFree 1, .mpMalloc, .mpFree 0]

end Percival.Proofs.DsStep
