import Percival.Model.CpuAesni
/-! Helper lemmas for the AES-NI part of C03. -/
namespace Percival.Proofs.CpuAesni
open Percival Percival.Model.CpuAesni

/-! ## xor on words and registers -/

theorem W4.xor_def (a b : W4) : a ^^^ b = ⟨a.b0 ^^^ b.b0, a.b1 ^^^ b.b1, a.b2 ^^^ b.b2, a.b3 ^^^ b.b3⟩ := rfl
theorem R.xor_def (a b : R) : a ^^^ b = ⟨a.w0 ^^^ b.w0, a.w1 ^^^ b.w1, a.w2 ^^^ b.w2, a.w3 ^^^ b.w3⟩ := rfl

theorem W4.xor_comm (a b : W4) : a ^^^ b = b ^^^ a := by
  simp only [W4.xor_def, UInt8.xor_comm]
theorem W4.xor_assoc (a b c : W4) : a ^^^ b ^^^ c = a ^^^ (b ^^^ c) := by
  simp only [W4.xor_def, UInt8.xor_assoc]
@[simp] theorem W4.xor_zero (a : W4) : a ^^^ W4.zero = a := by
  simp [W4.xor_def, W4.zero]
@[simp] theorem W4.zero_xor (a : W4) : W4.zero ^^^ a = a := by
  simp [W4.xor_def, W4.zero]

instance : Std.Commutative (α := W4) (· ^^^ ·) := ⟨W4.xor_comm⟩
instance : Std.Associative (α := W4) (· ^^^ ·) := ⟨W4.xor_assoc⟩

/-! ## the instructions are FIPS-197 rounds

(The lemmas below are deliberately *not* proved by a bare `rfl`: used as rewrite rules inside ten
nested rounds, a definitional proof makes the kernel unfold the S-box.) -/

theorem subBytes_shiftRows (s : R) : Fips.subBytes (Fips.shiftRows s) = Fips.shiftRows (Fips.subBytes s) := by
  cases s; rfl

theorem subWord_rotWord (w : W4) : Fips.subWord (Fips.rotWord w) = Fips.rotWord (Fips.subWord w) := by
  cases w; rfl

theorem aesenc_eq (s k : R) :
    aesenc s k = Fips.addRoundKey (Fips.mixColumns (Fips.shiftRows (Fips.subBytes s))) k := by
  rw [← subBytes_shiftRows]; unfold aesenc Fips.addRoundKey; exact Eq.refl _

theorem aesenclast_eq (s k : R) :
    aesenclast s k = Fips.addRoundKey (Fips.shiftRows (Fips.subBytes s)) k := by
  rw [← subBytes_shiftRows]; unfold aesenclast Fips.addRoundKey; exact Eq.refl _

theorem rounds_cons (s k k' : R) (rest : List R) :
    Fips.rounds s (k :: k' :: rest) = Fips.rounds (aesenc s k) (k' :: rest) := by
  rw [aesenc_eq, Fips.rounds]
  intro h; cases h

theorem rounds_last (s k : R) : Fips.rounds s [k] = aesenclast s k := by
  rw [aesenclast_eq, Fips.rounds]

theorem gen_aesni :
    Gen.CpuPaths.aesniMkrkey128 = [1, 1, 4, 8] ∧ Gen.CpuPaths.aesniShuffle128 = 0xff ∧
    Gen.CpuPaths.aesniMkrkey256 = [2, 1, 4, 8] ∧
    Gen.CpuPaths.aesniRcon128 = [0x01, 0x02, 0x04, 0x08, 0x10, 0x20, 0x40, 0x80, 0x1b, 0x36] ∧
    Gen.CpuPaths.aesniShufRcon256 = [(0xff, 0x01), (0xaa, 0x00), (0xff, 0x02), (0xaa, 0x00), (0xff, 0x04),
      (0xaa, 0x00), (0xff, 0x08), (0xaa, 0x00), (0xff, 0x10), (0xaa, 0x00), (0xff, 0x20), (0xaa, 0x00),
      (0xff, 0x40)] ∧
    Gen.CpuPaths.aesniEncXor = 0 ∧ Gen.CpuPaths.aesniEncFirst = [1, 2, 3, 4, 5, 6, 7, 8, 9] ∧
    Gen.CpuPaths.aesniNrSplit = 10 ∧ Gen.CpuPaths.aesniEncSecond = [10, 11, 12, 13] ∧
    Gen.CpuPaths.aesniKeyLen128 = 16 ∧ Gen.CpuPaths.aesniNr128 = 10 ∧
    Gen.CpuPaths.aesniKeyLen256 = 32 ∧ Gen.CpuPaths.aesniNr256 = 14 ∧
    Gen.CpuPaths.aesniLoadsRecognised = true := by
  decide

theorem nrSplit_eq : Gen.CpuPaths.aesniNrSplit = 10 := gen_aesni.2.2.2.2.2.2.2.1
theorem nr128_eq : Gen.CpuPaths.aesniNr128 = 10 := gen_aesni.2.2.2.2.2.2.2.2.2.2.1
theorem nr256_eq : Gen.CpuPaths.aesniNr256 = 14 := gen_aesni.2.2.2.2.2.2.2.2.2.2.2.2.1

/-- the FIPS-197 cipher over 11 round keys, as a chain of the two instructions -/
theorem cipher11 (k0 k1 k2 k3 k4 k5 k6 k7 k8 k9 k10 inp : R) :
    Fips.cipher [k0, k1, k2, k3, k4, k5, k6, k7, k8, k9, k10] inp =
      some (aesenclast (aesenc (aesenc (aesenc (aesenc (aesenc (aesenc (aesenc (aesenc (aesenc
        (inp ^^^ k0) k1) k2) k3) k4) k5) k6) k7) k8) k9) k10) := by
  rw [Fips.cipher, Fips.addRoundKey]
  rw [rounds_cons, rounds_cons, rounds_cons, rounds_cons, rounds_cons, rounds_cons, rounds_cons, rounds_cons,
    rounds_cons, rounds_last]

theorem cipher15 (k0 k1 k2 k3 k4 k5 k6 k7 k8 k9 k10 k11 k12 k13 k14 inp : R) :
    Fips.cipher [k0, k1, k2, k3, k4, k5, k6, k7, k8, k9, k10, k11, k12, k13, k14] inp =
      some (aesenclast (aesenc (aesenc (aesenc (aesenc (aesenc (aesenc (aesenc (aesenc (aesenc (aesenc (aesenc
        (aesenc (aesenc (inp ^^^ k0) k1) k2) k3) k4) k5) k6) k7) k8) k9) k10) k11) k12) k13) k14) := by
  rw [Fips.cipher, Fips.addRoundKey]
  rw [rounds_cons, rounds_cons, rounds_cons, rounds_cons, rounds_cons, rounds_cons, rounds_cons, rounds_cons,
    rounds_cons, rounds_cons, rounds_cons, rounds_cons, rounds_cons, rounds_last]

/-- ten rounds: `crypto_aes_encrypt_block_aesni_m128i` = the FIPS-197 cipher over the same 11 round keys -/
theorem encryptBlock10 (k0 k1 k2 k3 k4 k5 k6 k7 k8 k9 k10 : R) (inp : R) :
    encryptBlock [k0, k1, k2, k3, k4, k5, k6, k7, k8, k9, k10] 10 inp =
      Fips.cipher [k0, k1, k2, k3, k4, k5, k6, k7, k8, k9, k10] inp := by
  rw [cipher11]
  simp only [encryptBlock, nrSplit_eq, List.getElem?_cons_zero, List.getElem?_cons_succ, Option.bind_eq_bind,
    Option.bind_some, Option.pure_def, Nat.lt_irrefl, if_false]

/-- fourteen rounds -/
theorem encryptBlock14 (k0 k1 k2 k3 k4 k5 k6 k7 k8 k9 k10 k11 k12 k13 k14 : R) (inp : R) :
    encryptBlock [k0, k1, k2, k3, k4, k5, k6, k7, k8, k9, k10, k11, k12, k13, k14] 14 inp =
      Fips.cipher [k0, k1, k2, k3, k4, k5, k6, k7, k8, k9, k10, k11, k12, k13, k14] inp := by
  rw [cipher15]
  simp only [encryptBlock, nrSplit_eq, List.getElem?_cons_zero, List.getElem?_cons_succ, Option.bind_eq_bind,
    Option.bind_some, Option.pure_def, show (14 : Nat) > 10 from by decide, if_true]

/-! ## key expansion -/

/-- four applications of FIPS-197 (5.2)'s recurrence `w[i] = w[i−Nk] ⊕ temp`, the first with
    `temp = g`, the next three with `temp = w[i−1]`: the next round key from `back = w[i−Nk … i−Nk+3]` -/
def fipsNext (g : W4) (back : R) : R :=
  let a := back.w0 ^^^ g
  let b := back.w1 ^^^ a
  let c := back.w2 ^^^ b
  ⟨a, b, c, back.w3 ^^^ c⟩

/-- `MKRKEY…` with shuffle `0xff`: `temp = RotWord(SubWord(w[i−1])) ⊕ Rcon` -/
theorem mkrkey_ff (back prev : R) (rc : UInt8) :
    mkrkey back prev 0xff rc =
      some (fipsNext (Fips.subWord (Fips.rotWord prev.w3) ^^^ ⟨rc, 0, 0, 0⟩) back) := by
  simp only [mkrkey, bcast, aeskeygenassist, if_true, Option.map_some, fipsNext, R.xor_def, slli4, slli8,
    W4.xor_zero, Option.some.injEq, R.mk.injEq, subWord_rotWord]
  repeat' constructor
  all_goals ac_rfl

/-- `MKRKEY256` with shuffle `0xaa`: `temp = SubWord(w[i−1])`, the rcon immediate is ignored -/
theorem mkrkey_aa (back prev : R) (rc : UInt8) :
    mkrkey back prev 0xaa rc = some (fipsNext (Fips.subWord prev.w3) back) := by
  simp only [mkrkey, bcast, aeskeygenassist, show ((0xaa : Nat) = 0xff) = False from by decide, if_false, if_true,
    Option.map_some, fipsNext, R.xor_def, slli4, slli8, W4.xor_zero, Option.some.injEq, R.mk.injEq]
  repeat' constructor
  all_goals ac_rfl

theorem nextWord_none (nk i i' : Nat) (ws : List W4) (h : Fips.nextWord nk i ws = none) :
    Fips.nextWord nk i' ws = none := by
  unfold Fips.nextWord at h ⊢
  split at h
  · simp at h
  · rfl

theorem extend_add (nk a b i : Nat) (ws : List W4) :
    Fips.extend nk (a + b) i ws = Fips.extend nk b (i + a) (Fips.extend nk a i ws) := by
  induction a generalizing i ws with
  | zero => simp [Fips.extend]
  | succ a ih =>
    rw [show a + 1 + b = (a + b) + 1 by omega]
    cases h : Fips.nextWord nk i ws with
    | some w =>
      simp only [Fips.extend, h]
      rw [ih, show i + 1 + a = i + (a + 1) by omega]
    | none =>
      have h' := nextWord_none nk i (i + (a + 1)) ws h
      cases b with
      | zero => simp [Fips.extend, h]
      | succ b => simp [Fips.extend, h, h']

/-- AES-128: the four words `w[i … i+3]`, `i ≡ 0 (mod 4)`, from the previous round key -/
theorem ext128 (i : Nat) (h : i % 4 = 0) (prev : R) (rest : List W4) :
    Fips.extend 4 4 i (prev.w3 :: prev.w2 :: prev.w1 :: prev.w0 :: rest) =
      (fipsNext (Fips.subWord (Fips.rotWord prev.w3) ^^^ Fips.rcon (i / 4)) prev).w3 ::
      (fipsNext (Fips.subWord (Fips.rotWord prev.w3) ^^^ Fips.rcon (i / 4)) prev).w2 ::
      (fipsNext (Fips.subWord (Fips.rotWord prev.w3) ^^^ Fips.rcon (i / 4)) prev).w1 ::
      (fipsNext (Fips.subWord (Fips.rotWord prev.w3) ^^^ Fips.rcon (i / 4)) prev).w0 ::
      prev.w3 :: prev.w2 :: prev.w1 :: prev.w0 :: rest := by
  have h1 : (i + 1) % 4 ≠ 0 := by omega
  have h2 : (i + 1 + 1) % 4 ≠ 0 := by omega
  have h3 : (i + 1 + 1 + 1) % 4 ≠ 0 := by omega
  simp [Fips.extend, Fips.nextWord, h, h1, h2, h3, fipsNext]

/-- AES-256, `i ≡ 0 (mod 8)`: `temp = SubWord(RotWord(w[i−1])) ⊕ Rcon[i/8]` -/
theorem ext256rot (i : Nat) (h : i % 8 = 0) (back prev : R) (rest : List W4) :
    Fips.extend 8 4 i (prev.w3 :: prev.w2 :: prev.w1 :: prev.w0 :: back.w3 :: back.w2 :: back.w1 :: back.w0 :: rest) =
      (fipsNext (Fips.subWord (Fips.rotWord prev.w3) ^^^ Fips.rcon (i / 8)) back).w3 ::
      (fipsNext (Fips.subWord (Fips.rotWord prev.w3) ^^^ Fips.rcon (i / 8)) back).w2 ::
      (fipsNext (Fips.subWord (Fips.rotWord prev.w3) ^^^ Fips.rcon (i / 8)) back).w1 ::
      (fipsNext (Fips.subWord (Fips.rotWord prev.w3) ^^^ Fips.rcon (i / 8)) back).w0 ::
      prev.w3 :: prev.w2 :: prev.w1 :: prev.w0 :: back.w3 :: back.w2 :: back.w1 :: back.w0 :: rest := by
  have h1 : (i + 1) % 8 ≠ 0 ∧ (i + 1) % 8 ≠ 4 := by omega
  have h2 : (i + 1 + 1) % 8 ≠ 0 ∧ (i + 1 + 1) % 8 ≠ 4 := by omega
  have h3 : (i + 1 + 1 + 1) % 8 ≠ 0 ∧ (i + 1 + 1 + 1) % 8 ≠ 4 := by omega
  simp [Fips.extend, Fips.nextWord, h, h1, h2, h3, fipsNext]

/-- AES-256, `i ≡ 4 (mod 8)`: `temp = SubWord(w[i−1])` -/
theorem ext256sub (i : Nat) (h : i % 8 = 4) (back prev : R) (rest : List W4) :
    Fips.extend 8 4 i (prev.w3 :: prev.w2 :: prev.w1 :: prev.w0 :: back.w3 :: back.w2 :: back.w1 :: back.w0 :: rest) =
      (fipsNext (Fips.subWord prev.w3) back).w3 :: (fipsNext (Fips.subWord prev.w3) back).w2 ::
      (fipsNext (Fips.subWord prev.w3) back).w1 :: (fipsNext (Fips.subWord prev.w3) back).w0 ::
      prev.w3 :: prev.w2 :: prev.w1 :: prev.w0 :: back.w3 :: back.w2 :: back.w1 :: back.w0 :: rest := by
  have h1 : (i + 1) % 8 ≠ 0 ∧ (i + 1) % 8 ≠ 4 := by omega
  have h2 : (i + 1 + 1) % 8 ≠ 0 ∧ (i + 1 + 1) % 8 ≠ 4 := by omega
  have h3 : (i + 1 + 1 + 1) % 8 ≠ 0 ∧ (i + 1 + 1 + 1) % 8 ≠ 4 := by omega
  simp [Fips.extend, Fips.nextWord, h, h1, h2, h3, fipsNext]

/-! ## the whole expansions (by induction over the list of immediates — no unrolling) -/

/-- next round key with `temp = SubWord(RotWord(w[i−1])) ⊕ [rc, 0, 0, 0]` -/
def nextRot (rc : UInt8) (back prev : R) : R :=
  fipsNext (Fips.subWord (Fips.rotWord prev.w3) ^^^ ⟨rc, 0, 0, 0⟩) back
/-- next round key with `temp = SubWord(w[i−1])` -/
def nextSub (back prev : R) : R := fipsNext (Fips.subWord prev.w3) back

theorem mkrkey_ff' (back prev : R) (rc : UInt8) : mkrkey back prev 0xff rc = some (nextRot rc back prev) :=
  mkrkey_ff back prev rc
theorem mkrkey_aa' (back prev : R) (rc : UInt8) : mkrkey back prev 0xaa rc = some (nextSub back prev) :=
  mkrkey_aa back prev rc

/-- round keys newest first → schedule words newest first -/
def wordsNF : List R → List W4
  | [] => []
  | r :: rs => r.w3 :: r.w2 :: r.w1 :: r.w0 :: wordsNF rs

theorem roundKeys_flatMap (rks : List R) : Fips.roundKeys (rks.flatMap R.words) = rks := by
  induction rks with
  | nil => rfl
  | cons r rs ih =>
    cases r
    simp only [List.flatMap_cons, R.words, List.cons_append, List.nil_append, Fips.roundKeys, ih]

theorem wordsNF_reverse (rks : List R) : (wordsNF rks).reverse = rks.reverse.flatMap R.words := by
  induction rks with
  | nil => rfl
  | cons r rs ih =>
    simp only [wordsNF, List.reverse_cons, List.flatMap_append, List.flatMap_cons, List.flatMap_nil, ih, R.words,
      List.append_assoc, List.cons_append, List.nil_append, List.append_nil]

theorem roundKeys_wordsNF (rks : List R) : Fips.roundKeys (wordsNF rks).reverse = rks.reverse := by
  rw [wordsNF_reverse, roundKeys_flatMap]

/-! ### AES-128 -/

/-- the AES-128 round keys, newest first: one more per rcon immediate -/
def run128 : List UInt8 → List R → List R
  | [], rks => rks
  | rc :: rest, prev :: older => run128 rest (nextRot rc prev prev :: prev :: older)
  | _ :: _, [] => []

theorem expand128Aux_eq (rcs : List UInt8) (prev : R) (older : List R) :
    expand128Aux rcs (prev :: older) = some (run128 rcs (prev :: older)) := by
  induction rcs generalizing prev older with
  | nil => rfl
  | cons rc rest ih =>
    simp only [expand128Aux, gen_aesni.2.1, mkrkey_ff', run128]
    exact ih _ _

/-- `rcs` are the FIPS-197 round constants `Rcon[j], Rcon[j+1], …` -/
def RconFrom : Nat → List UInt8 → Prop
  | _, [] => True
  | j, rc :: rest => rc = Fips.rconByte j ∧ RconFrom (j + 1) rest

theorem fips128 (rcs : List UInt8) (j : Nat) (h : RconFrom j rcs) (prev : R) (older : List R) :
    Fips.extend 4 (4 * rcs.length) (4 * j) (wordsNF (prev :: older)) = wordsNF (run128 rcs (prev :: older)) := by
  induction rcs generalizing j prev older with
  | nil => rfl
  | cons rc rest ih =>
    obtain ⟨h1, h2⟩ := h
    rw [show 4 * (rc :: rest).length = 4 + 4 * rest.length by simp; omega, extend_add]
    simp only [wordsNF, run128]
    rw [ext128 (4 * j) (by omega) prev (wordsNF older), show 4 * j / 4 = j by omega,
      show 4 * j + 4 = 4 * (j + 1) by omega]
    have := ih (j + 1) h2 (nextRot rc prev prev) (prev :: older)
    simp only [wordsNF] at this
    rw [← this, h1]
    rfl

theorem expand128_eq (k : R) : expand128 k = some (Fips.roundKeys (Fips.keyExpansion k.words)) := by
  have hr : RconFrom 1 Gen.CpuPaths.aesniRcon128 := by
    rw [gen_aesni.2.2.2.1]; simp only [RconFrom]; decide
  have hl : Gen.CpuPaths.aesniRcon128.length = 10 := by rw [gen_aesni.2.2.2.1]; rfl
  have hf := fips128 Gen.CpuPaths.aesniRcon128 1 hr k []
  rw [hl] at hf
  unfold expand128 Fips.keyExpansion
  rw [expand128Aux_eq, Option.map_some]
  have hw : k.words.reverse = wordsNF [k] := rfl
  have hn : k.words.length = 4 := rfl
  rw [hw, hn]
  have hf' : Fips.extend 4 (4 * (4 + 7) - 4) 4 (wordsNF [k]) = wordsNF (run128 Gen.CpuPaths.aesniRcon128 [k]) := hf
  show _ = some (Fips.roundKeys (Fips.extend 4 (4 * (4 + 7) - 4) 4 (wordsNF [k])).reverse)
  rw [hf', roundKeys_wordsNF]

/-! ### AES-256 -/

/-- the AES-256 round keys, newest first: one more per (shuffle, rcon) pair; an unknown shuffle
    immediate stops (the model of the C code says `none` there) -/
def run256 : List (Nat × UInt8) → List R → List R
  | [], rks => rks
  | sr :: rest, prev :: back :: older =>
    if sr.1 = 0xff then run256 rest (nextRot sr.2 back prev :: prev :: back :: older)
    else if sr.1 = 0xaa then run256 rest (nextSub back prev :: prev :: back :: older)
    else prev :: back :: older
  | _ :: _, rks => rks

/-- round key `m` (`m ≥ 2`) is made with shuffle `0xff` and `Rcon[m/2]` when `m` is even, with
    shuffle `0xaa` (rcon ignored) when `m` is odd -/
def Sched256 : Nat → List (Nat × UInt8) → Prop
  | _, [] => True
  | m, sr :: rest =>
    (if m % 2 = 0 then sr.1 = 0xff ∧ sr.2 = Fips.rconByte (m / 2) else sr.1 = 0xaa) ∧ Sched256 (m + 1) rest

theorem expand256Aux_eq (srs : List (Nat × UInt8)) (m : Nat) (h : Sched256 m srs) (prev back : R) (older : List R) :
    expand256Aux srs (prev :: back :: older) = some (run256 srs (prev :: back :: older)) := by
  induction srs generalizing m prev back older with
  | nil => rfl
  | cons sr rest ih =>
    obtain ⟨h1, h2⟩ := h
    obtain ⟨sh, rc⟩ := sr
    by_cases hm : m % 2 = 0
    · rw [if_pos hm] at h1
      obtain ⟨rfl, _⟩ := h1
      simp only [expand256Aux, mkrkey_ff', run256, if_true]
      exact ih (m + 1) h2 _ _ _
    · rw [if_neg hm] at h1
      dsimp only at h1
      subst h1
      simp only [expand256Aux, mkrkey_aa', run256, show ((0xaa : Nat) = 0xff) = False from by decide, if_false,
        if_true]
      exact ih (m + 1) h2 _ _ _

theorem fips256 (srs : List (Nat × UInt8)) (m : Nat) (h : Sched256 m srs) (prev back : R) (older : List R) :
    Fips.extend 8 (4 * srs.length) (4 * m) (wordsNF (prev :: back :: older)) =
      wordsNF (run256 srs (prev :: back :: older)) := by
  induction srs generalizing m prev back older with
  | nil => rfl
  | cons sr rest ih =>
    obtain ⟨h1, h2⟩ := h
    obtain ⟨sh, rc⟩ := sr
    rw [show 4 * ((sh, rc) :: rest).length = 4 + 4 * rest.length by simp; omega, extend_add]
    by_cases hm : m % 2 = 0
    · rw [if_pos hm] at h1
      obtain ⟨rfl, h1⟩ := h1
      dsimp only at h1
      simp only [wordsNF, run256, if_true]
      rw [ext256rot (4 * m) (by omega) back prev (wordsNF older), show 4 * m / 8 = m / 2 by omega,
        show 4 * m + 4 = 4 * (m + 1) by omega]
      have := ih (m + 1) h2 (nextRot rc back prev) prev (back :: older)
      simp only [wordsNF] at this
      rw [← this, h1]
      rfl
    · rw [if_neg hm] at h1
      dsimp only at h1
      subst h1
      simp only [wordsNF, run256, show ((0xaa : Nat) = 0xff) = False from by decide, if_false, if_true]
      rw [ext256sub (4 * m) (by omega) back prev (wordsNF older), show 4 * m + 4 = 4 * (m + 1) by omega]
      have := ih (m + 1) h2 (nextSub back prev) prev (back :: older)
      simp only [wordsNF] at this
      rw [← this]
      rfl

theorem expand256_eq (k0 k1 : R) :
    expand256 k0 k1 = some (Fips.roundKeys (Fips.keyExpansion (k0.words ++ k1.words))) := by
  have hs : Sched256 2 Gen.CpuPaths.aesniShufRcon256 := by
    rw [gen_aesni.2.2.2.2.1]; simp only [Sched256]; decide
  have hl : Gen.CpuPaths.aesniShufRcon256.length = 13 := by rw [gen_aesni.2.2.2.2.1]; rfl
  have hf := fips256 Gen.CpuPaths.aesniShufRcon256 2 hs k1 k0 []
  rw [hl] at hf
  unfold expand256 Fips.keyExpansion
  rw [expand256Aux_eq _ 2 hs, Option.map_some]
  have hw : (k0.words ++ k1.words).reverse = wordsNF [k1, k0] := rfl
  have hn : (k0.words ++ k1.words).length = 8 := rfl
  rw [hw, hn]
  have hf' : Fips.extend 8 (4 * (8 + 7) - 8) 8 (wordsNF [k1, k0]) =
      wordsNF (run256 Gen.CpuPaths.aesniShufRcon256 [k1, k0]) := hf
  show _ = some (Fips.roundKeys (Fips.extend 8 (4 * (8 + 7) - 8) 8 (wordsNF [k1, k0])).reverse)
  rw [hf', roundKeys_wordsNF]

/-! ## expansion + encryption = FIPS-197 encryption -/

theorem uncons {α : Type} {l : List α} {n : Nat} (h : l.length = n + 1) :
    ∃ a t, l = a :: t ∧ t.length = n := by
  cases l with
  | nil => simp at h
  | cons a t => exact ⟨a, t, rfl, by simpa using h⟩

theorem length_run128 (rcs : List UInt8) (prev : R) (older : List R) :
    (run128 rcs (prev :: older)).length = rcs.length + (older.length + 1) := by
  induction rcs generalizing prev older with
  | nil => simp [run128]
  | cons rc rest ih => simp only [run128, ih, List.length_cons]; omega

theorem length_run256 (srs : List (Nat × UInt8)) (m : Nat) (h : Sched256 m srs) (prev back : R) (older : List R) :
    (run256 srs (prev :: back :: older)).length = srs.length + (older.length + 2) := by
  induction srs generalizing m prev back older with
  | nil => simp [run256]
  | cons sr rest ih =>
    obtain ⟨h1, h2⟩ := h
    obtain ⟨sh, rc⟩ := sr
    by_cases hm : m % 2 = 0
    · rw [if_pos hm] at h1
      obtain ⟨rfl, _⟩ := h1
      simp only [run256, if_true, ih (m + 1) h2, List.length_cons]; omega
    · rw [if_neg hm] at h1
      dsimp only at h1
      subst h1
      simp only [run256, show ((0xaa : Nat) = 0xff) = False from by decide, if_false, if_true, ih (m + 1) h2,
        List.length_cons]; omega

theorem encryptBlock_11 (rks : List R) (h : rks.length = 11) (inp : R) :
    encryptBlock rks 10 inp = Fips.cipher rks inp := by
  obtain ⟨b0, t0, rfl, h0⟩ := uncons h
  obtain ⟨b1, t1, rfl, h1⟩ := uncons h0
  obtain ⟨b2, t2, rfl, h2⟩ := uncons h1
  obtain ⟨b3, t3, rfl, h3⟩ := uncons h2
  obtain ⟨b4, t4, rfl, h4⟩ := uncons h3
  obtain ⟨b5, t5, rfl, h5⟩ := uncons h4
  obtain ⟨b6, t6, rfl, h6⟩ := uncons h5
  obtain ⟨b7, t7, rfl, h7⟩ := uncons h6
  obtain ⟨b8, t8, rfl, h8⟩ := uncons h7
  obtain ⟨b9, t9, rfl, h9⟩ := uncons h8
  obtain ⟨b10, t10, rfl, h10⟩ := uncons h9
  have ht : t10 = [] := List.eq_nil_of_length_eq_zero h10
  subst ht
  exact encryptBlock10 ..

theorem encryptBlock_15 (rks : List R) (h : rks.length = 15) (inp : R) :
    encryptBlock rks 14 inp = Fips.cipher rks inp := by
  obtain ⟨b0, t0, rfl, h0⟩ := uncons h
  obtain ⟨b1, t1, rfl, h1⟩ := uncons h0
  obtain ⟨b2, t2, rfl, h2⟩ := uncons h1
  obtain ⟨b3, t3, rfl, h3⟩ := uncons h2
  obtain ⟨b4, t4, rfl, h4⟩ := uncons h3
  obtain ⟨b5, t5, rfl, h5⟩ := uncons h4
  obtain ⟨b6, t6, rfl, h6⟩ := uncons h5
  obtain ⟨b7, t7, rfl, h7⟩ := uncons h6
  obtain ⟨b8, t8, rfl, h8⟩ := uncons h7
  obtain ⟨b9, t9, rfl, h9⟩ := uncons h8
  obtain ⟨b10, t10, rfl, h10⟩ := uncons h9
  obtain ⟨b11, t11, rfl, h11⟩ := uncons h10
  obtain ⟨b12, t12, rfl, h12⟩ := uncons h11
  obtain ⟨b13, t13, rfl, h13⟩ := uncons h12
  obtain ⟨b14, t14, rfl, h14⟩ := uncons h13
  have ht : t14 = [] := List.eq_nil_of_length_eq_zero h14
  subst ht
  exact encryptBlock14 ..

/-- `crypto_aes_key_expand_128_aesni` + `crypto_aes_encrypt_block_aesni` = FIPS-197 AES-128 -/
theorem aesni128_eq (k inp : R) :
    (expand128 k).bind (fun rks => encryptBlock rks Gen.CpuPaths.aesniNr128 inp) = Fips.encrypt k.words inp := by
  have hlen : (Fips.roundKeys (Fips.keyExpansion k.words)).length = 11 := by
    have h1 := expand128_eq k
    unfold expand128 at h1
    rw [expand128Aux_eq, Option.map_some, Option.some.injEq] at h1
    rw [← h1, List.length_reverse, length_run128, gen_aesni.2.2.2.1]; rfl
  rw [expand128_eq, Option.bind_some, nr128_eq, encryptBlock_11 _ hlen]
  rfl

/-- `crypto_aes_key_expand_256_aesni` + `crypto_aes_encrypt_block_aesni` = FIPS-197 AES-256 -/
theorem aesni256_eq (k0 k1 inp : R) :
    (expand256 k0 k1).bind (fun rks => encryptBlock rks Gen.CpuPaths.aesniNr256 inp) =
      Fips.encrypt (k0.words ++ k1.words) inp := by
  have hs : Sched256 2 Gen.CpuPaths.aesniShufRcon256 := by
    rw [gen_aesni.2.2.2.2.1]; simp only [Sched256]; decide
  have hlen : (Fips.roundKeys (Fips.keyExpansion (k0.words ++ k1.words))).length = 15 := by
    have h1 := expand256_eq k0 k1
    unfold expand256 at h1
    rw [expand256Aux_eq _ 2 hs, Option.map_some, Option.some.injEq] at h1
    rw [← h1, List.length_reverse, length_run256 _ 2 hs, gen_aesni.2.2.2.2.1]; rfl
  rw [expand256_eq, Option.bind_some, nr256_eq, encryptBlock_15 _ hlen]
  rfl

theorem keyLen128_eq : Gen.CpuPaths.aesniKeyLen128 = 16 := gen_aesni.2.2.2.2.2.2.2.2.2.1
theorem keyLen256_eq : Gen.CpuPaths.aesniKeyLen256 = 32 := gen_aesni.2.2.2.2.2.2.2.2.2.2.2.1

/-- the same on key bytes, including the length dispatch of `crypto_aes_key_expand_aesni` -/
theorem aesniEncrypt_eq (key : List UInt8) (inp : R) (h : key.length = 16 ∨ key.length = 32) :
    aesniEncrypt key inp = Fips.encrypt (Fips.keyWords key) inp := by
  rcases h with h | h
  · have hlen : key.length = Gen.CpuPaths.aesniKeyLen128 := by rw [keyLen128_eq]; exact h
    unfold aesniEncrypt
    rw [if_pos hlen]
    clear hlen
    obtain ⟨b0, t0, rfl, h0⟩ := uncons h
    obtain ⟨b1, t1, rfl, h1⟩ := uncons h0
    obtain ⟨b2, t2, rfl, h2⟩ := uncons h1
    obtain ⟨b3, t3, rfl, h3⟩ := uncons h2
    obtain ⟨b4, t4, rfl, h4⟩ := uncons h3
    obtain ⟨b5, t5, rfl, h5⟩ := uncons h4
    obtain ⟨b6, t6, rfl, h6⟩ := uncons h5
    obtain ⟨b7, t7, rfl, h7⟩ := uncons h6
    obtain ⟨b8, t8, rfl, h8⟩ := uncons h7
    obtain ⟨b9, t9, rfl, h9⟩ := uncons h8
    obtain ⟨b10, t10, rfl, h10⟩ := uncons h9
    obtain ⟨b11, t11, rfl, h11⟩ := uncons h10
    obtain ⟨b12, t12, rfl, h12⟩ := uncons h11
    obtain ⟨b13, t13, rfl, h13⟩ := uncons h12
    obtain ⟨b14, t14, rfl, h14⟩ := uncons h13
    obtain ⟨b15, t15, rfl, h15⟩ := uncons h14
    have ht : t15 = [] := List.eq_nil_of_length_eq_zero h15
    subst ht
    have h1 : R.ofBytes [b0, b1, b2, b3, b4, b5, b6, b7, b8, b9, b10, b11, b12, b13, b14, b15] = some ((⟨⟨b0, b1, b2, b3⟩, ⟨b4, b5, b6, b7⟩, ⟨b8, b9, b10, b11⟩, ⟨b12, b13, b14, b15⟩⟩ : R)) := rfl
    have h2 : Fips.keyWords [b0, b1, b2, b3, b4, b5, b6, b7, b8, b9, b10, b11, b12, b13, b14, b15] = R.words ⟨⟨b0, b1, b2, b3⟩, ⟨b4, b5, b6, b7⟩, ⟨b8, b9, b10, b11⟩, ⟨b12, b13, b14, b15⟩⟩ := rfl
    rw [h1, h2, Option.bind_some]
    exact aesni128_eq _ inp
  · have hlen : key.length = Gen.CpuPaths.aesniKeyLen256 := by rw [keyLen256_eq]; exact h
    have hlen' : ¬ key.length = Gen.CpuPaths.aesniKeyLen128 := by rw [keyLen128_eq]; omega
    unfold aesniEncrypt
    rw [if_neg hlen', if_pos hlen]
    clear hlen hlen'
    obtain ⟨b0, t0, rfl, h0⟩ := uncons h
    obtain ⟨b1, t1, rfl, h1⟩ := uncons h0
    obtain ⟨b2, t2, rfl, h2⟩ := uncons h1
    obtain ⟨b3, t3, rfl, h3⟩ := uncons h2
    obtain ⟨b4, t4, rfl, h4⟩ := uncons h3
    obtain ⟨b5, t5, rfl, h5⟩ := uncons h4
    obtain ⟨b6, t6, rfl, h6⟩ := uncons h5
    obtain ⟨b7, t7, rfl, h7⟩ := uncons h6
    obtain ⟨b8, t8, rfl, h8⟩ := uncons h7
    obtain ⟨b9, t9, rfl, h9⟩ := uncons h8
    obtain ⟨b10, t10, rfl, h10⟩ := uncons h9
    obtain ⟨b11, t11, rfl, h11⟩ := uncons h10
    obtain ⟨b12, t12, rfl, h12⟩ := uncons h11
    obtain ⟨b13, t13, rfl, h13⟩ := uncons h12
    obtain ⟨b14, t14, rfl, h14⟩ := uncons h13
    obtain ⟨b15, t15, rfl, h15⟩ := uncons h14
    obtain ⟨b16, t16, rfl, h16⟩ := uncons h15
    obtain ⟨b17, t17, rfl, h17⟩ := uncons h16
    obtain ⟨b18, t18, rfl, h18⟩ := uncons h17
    obtain ⟨b19, t19, rfl, h19⟩ := uncons h18
    obtain ⟨b20, t20, rfl, h20⟩ := uncons h19
    obtain ⟨b21, t21, rfl, h21⟩ := uncons h20
    obtain ⟨b22, t22, rfl, h22⟩ := uncons h21
    obtain ⟨b23, t23, rfl, h23⟩ := uncons h22
    obtain ⟨b24, t24, rfl, h24⟩ := uncons h23
    obtain ⟨b25, t25, rfl, h25⟩ := uncons h24
    obtain ⟨b26, t26, rfl, h26⟩ := uncons h25
    obtain ⟨b27, t27, rfl, h27⟩ := uncons h26
    obtain ⟨b28, t28, rfl, h28⟩ := uncons h27
    obtain ⟨b29, t29, rfl, h29⟩ := uncons h28
    obtain ⟨b30, t30, rfl, h30⟩ := uncons h29
    obtain ⟨b31, t31, rfl, h31⟩ := uncons h30
    have ht : t31 = [] := List.eq_nil_of_length_eq_zero h31
    subst ht
    have h1 : R.ofBytes (List.take 16 [b0, b1, b2, b3, b4, b5, b6, b7, b8, b9, b10, b11, b12, b13, b14, b15, b16, b17, b18, b19, b20, b21, b22, b23, b24, b25, b26, b27, b28, b29, b30, b31]) = some ((⟨⟨b0, b1, b2, b3⟩, ⟨b4, b5, b6, b7⟩, ⟨b8, b9, b10, b11⟩, ⟨b12, b13, b14, b15⟩⟩ : R)) := rfl
    have h2 : R.ofBytes (List.drop 16 [b0, b1, b2, b3, b4, b5, b6, b7, b8, b9, b10, b11, b12, b13, b14, b15, b16, b17, b18, b19, b20, b21, b22, b23, b24, b25, b26, b27, b28, b29, b30, b31]) = some ((⟨⟨b16, b17, b18, b19⟩, ⟨b20, b21, b22, b23⟩, ⟨b24, b25, b26, b27⟩, ⟨b28, b29, b30, b31⟩⟩ : R)) := rfl
    have h3 : Fips.keyWords [b0, b1, b2, b3, b4, b5, b6, b7, b8, b9, b10, b11, b12, b13, b14, b15, b16, b17, b18, b19, b20, b21, b22, b23, b24, b25, b26, b27, b28, b29, b30, b31] = R.words ⟨⟨b0, b1, b2, b3⟩, ⟨b4, b5, b6, b7⟩, ⟨b8, b9, b10, b11⟩, ⟨b12, b13, b14, b15⟩⟩ ++ R.words ⟨⟨b16, b17, b18, b19⟩, ⟨b20, b21, b22, b23⟩, ⟨b24, b25, b26, b27⟩, ⟨b28, b29, b30, b31⟩⟩ := rfl
    rw [h1, h2, h3, Option.bind_some, Option.bind_some]
    exact aesni256_eq _ _ inp

end Percival.Proofs.CpuAesni
