import Percival.Proofs.EventsC05Rel
/-!
# C05: poll, timer and callback steps keep the monitor/model relation (helper lemmas)
-/
set_option linter.unusedSimpArgs false
namespace Percival.Proofs.EventsC05
open Percival.Spec.Events Percival.Model.Events Percival.Model
open Percival.Proofs.EventsNet Percival.Proofs.EventsImm Percival.Proofs.EventsTQ
open Percival.Proofs.EventsC04 (TmOk TmView)

/-! ### clock, interrupt, rescan, poll -/

theorem rel_clock {C : TQContract} {m : C05.M} {s : State} (r : Rel C m s) (a : Nat) :
    Rel C { m with clock := m.clock + a } { s with clock := s.clock + a } := by
  refine ⟨by show m.clock + a = s.clock + a; rw [r.clock], r.intr, r.imm, r.immIds, r.net,
    ⟨r.tm.ok, r.tm.ids, r.tm.iff, ?_⟩, r.disjIN, r.disjIT, r.disjNT, r.done⟩
  intro t ht
  have := r.tm.dl t ht
  show t.deadline ≤ m.clock + a + t.usec
  omega

theorem rel_intr {C : TQContract} {m : C05.M} {s : State} (r : Rel C m s) :
    Rel C { m with intr := true } { s with intr := true } :=
  ⟨r.clock, rfl, r.imm, r.immIds, r.net, r.tm, r.disjIN, r.disjIT, r.disjNT, r.done⟩

theorem rel_rescan {C : TQContract} {m : C05.M} {s : State} (r : Rel C m s) :
    Rel C m { s with net := { s.net with scan := topScan s.net } } :=
  ⟨r.clock, r.intr, r.imm, r.immIds, ⟨rescan_inv _ r.net.inv.inv0, r.net.ids, r.net.iff, r.net.ready⟩, r.tm,
    r.disjIN, r.disjIT, r.disjNT, r.done⟩

/-- the monitor's new socket list after an answered poll -/
def pollNets (fds : List PollEntry) (nets : List C05.Net) : List C05.Net :=
  nets.map (fun n => { n with ready := (revOf fds n.fd).dir n.d || (revOf fds n.fd).errhup })

theorem rnet_poll {nets : List C05.Net} {n : Net} (r : RNet nets n) (a : List (Nat × Bits)) :
    RNet (pollNets (pollEntries n.fds (maskAns a)) nets) { polled n a with scan := topScan (polled n a) } := by
  have hslot : ∀ i d, slot { polled n a with scan := topScan (polled n a) } i d = slot n i d := fun _ _ => rfl
  refine ⟨polled_inv n a r.inv.inv0, ?_, ?_, ?_⟩
  · unfold pollNets
    rw [List.map_map]
    exact r.ids
  · intro id fd d
    rw [hslot, ← r.iff id fd d]
    unfold pollNets
    constructor
    · rintro ⟨rd, hx0⟩
      obtain ⟨x, hx, hxe⟩ := List.mem_map.mp hx0
      simp only [C05.Net.mk.injEq] at hxe
      obtain ⟨rfl, rfl, rfl, _⟩ := hxe
      exact ⟨x.ready, hx⟩
    · rintro ⟨rd, hx⟩
      exact ⟨_, List.mem_map.mpr ⟨_, hx, rfl⟩⟩
  · intro x' hx' hrdy
    unfold pollNets at hx'
    obtain ⟨x, hx, rfl⟩ := List.mem_map.mp hx'
    simp only at hrdy ⊢
    -- the descriptor has an entry
    have hsl : slot n x.fd x.d = some x.id := (r.iff x.id x.fd x.d).mp ⟨x.ready, hx⟩
    obtain ⟨sk, hsk, hg⟩ : ∃ sk, n.S[x.fd]? = some sk ∧ sk.get x.d = some x.id := by
      unfold slot at hsl
      cases hS : n.S[x.fd]? with
      | none => simp [hS] at hsl
      | some sk => simp only [hS, Option.bind_some] at hsl; exact ⟨sk, rfl, hsl⟩
    have hsome : sk.pollpos.isSome = true := by
      apply r.inv.inv0.i2 x.fd sk hsk
      cases hd : x.d <;> simp_all [Sock.get]
    obtain ⟨pp, hpp⟩ := Option.isSome_iff_exists.mp hsome
    obtain ⟨e, he, hefd⟩ := r.inv.inv0.i1a x.fd sk pp hsk hpp
    have hrev := EventsC04.revOf_entries n r.inv.inv0 (maskAns a) pp e he
    rw [hefd] at hrev
    rw [hrev] at hrdy
    refine ⟨pp, { e with rev := maskAns a e }, ?_, hefd, ?_⟩
    · show (polled n a).fds[pp]? = _
      rw [polled_get, he]; rfl
    · simp only [Bool.or_eq_true] at hrdy
      exact hrdy


/-! ### timers -/

theorem not_timer_of_not_live (s : State) (id : Nat) (h : isLive s id = false) : ∀ t, (id, t) ∉ s.timers := by
  unfold isLive at h
  simp only [Bool.or_eq_false_iff, Option.isSome_eq_false_iff, Option.isNone_iff_eq_none] at h
  exact EventsC04.timerOf_none s id h.2

theorem rel_regTimer {C : TQContract} {m : C05.M} {s : State} (r : Rel C m s) (id usec : Nat) (sec us : Int)
    (hl : isLive s id = false)
    (hgt : gettimeout s.clock ((usec / 1000000 : Nat) : Int) ((usec % 1000000 : Nat) : Int) = (sec, us)) :
    ∃ m', C05.step m (.op (.regTimer id usec) .ok) = .ok m' ∧
      Rel C m' { s with tq := TimerQueue.add s.tq s.nextRec sec us id,
                        timers := (id, { qrec := s.nextRec, osec := ((usec / 1000000 : Nat) : Int), ousec := ((usec % 1000000 : Nat) : Int) }) :: s.timers,
                        nextRec := s.nextRec + 1 } ∧ Ctl m m' := by
  obtain ⟨f1, f2, f3⟩ := fresh_of_not_live r id hl
  obtain ⟨hok, hview⟩ := EventsC04.tm_add r.tm.ok s.clock id usec sec us (not_timer_of_not_live s id hl) hgt
  refine ⟨{ m with tms := ⟨id, usec, m.clock + usec⟩ :: m.tms }, ?_, ?_, Ctl.refl _⟩
  · simp only [C05.step, dropId_of_fresh m id f1 f2 f3]; rfl
  · refine ⟨r.clock, r.intr, r.imm, r.immIds, r.net, ⟨hok, ?_, ?_, ?_⟩, r.disjIN, ?_, ?_, r.done⟩
    · show (List.map (·.id) ((⟨id, usec, m.clock + usec⟩ : C05.Tm) :: m.tms)).Nodup
      simp only [List.map_cons, List.nodup_cons]
      exact ⟨f3, r.tm.ids⟩
    · intro id' us' dl'
      rw [hview, ← r.tm.iff, r.clock]
      show (⟨id', us', dl'⟩ : C05.Tm) ∈ (⟨id, usec, s.clock + usec⟩ : C05.Tm) :: m.tms ↔ _
      rw [List.mem_cons]
      constructor
      · rintro (h | h)
        · cases h; exact Or.inl ⟨rfl, rfl, rfl⟩
        · exact Or.inr h
      · rintro (⟨rfl, rfl, rfl⟩ | h)
        · exact Or.inl rfl
        · exact Or.inr h
    · intro t ht
      have ht' : t ∈ (⟨id, usec, m.clock + usec⟩ : C05.Tm) :: m.tms := ht
      rcases List.mem_cons.mp ht' with rfl | ht'
      · exact Nat.le_refl _
      · exact r.tm.dl t ht'
    · intro id' hid'
      show id' ∉ List.map (·.id) ((⟨id, usec, m.clock + usec⟩ : C05.Tm) :: m.tms)
      simp only [List.map_cons, List.mem_cons, not_or]
      refine ⟨?_, r.disjIT id' hid'⟩
      intro hh; subst hh; exact f1 hid'
    · intro id' hid'
      show id' ∉ List.map (·.id) ((⟨id, usec, m.clock + usec⟩ : C05.Tm) :: m.tms)
      simp only [List.map_cons, List.mem_cons, not_or]
      refine ⟨?_, r.disjNT id' hid'⟩
      intro hh; subst hh; exact f2 hid'

theorem mem_ids_tm {l : List C05.Tm} {id : Nat} : id ∈ l.map (·.id) ↔ ∃ us dl, (⟨id, us, dl⟩ : C05.Tm) ∈ l := by
  simp only [List.mem_map]
  constructor
  · rintro ⟨x, hx, rfl⟩; exact ⟨x.usec, x.deadline, hx⟩
  · rintro ⟨us, dl, hp⟩; exact ⟨_, hp, rfl⟩

/-- registration `id` (a timer with record `t`) leaves: cancelled, or released by `events_timer_get` -/
theorem rel_remove_tm {C : TQContract} {m : C05.M} {s : State} (r : Rel C m s) (id : Nat) (t : TimerRec)
    (hm : (id, t) ∈ s.timers) (tq' : TimerQueue.TQ)
    (hok : TmOk C tq' (s.timers.filter (fun p => p.1 != id)) s.nextRec) (hrecs : tq'.recs = s.tq.recs) :
    C05.dropId m id = { m with tms := m.tms.filter (fun x => x.id != id) } ∧
    Rel C { m with tms := m.tms.filter (fun x => x.id != id) }
      { s with tq := tq', timers := s.timers.filter (fun p => p.1 != id) } := by
  obtain ⟨us, dl, _, hv, _⟩ := EventsC04.tmView_of_mem r.tm.ok id t hm
  have hin : id ∈ m.tms.map (·.id) := mem_ids_tm.mpr ⟨us, dl, (r.tm.iff id us dl).mpr hv⟩
  have e1 : m.imms.filter (fun x => x.id != id) = m.imms :=
    filter_id_self m.imms (·.id) id (fun h => r.disjIT id h hin)
  have e2 : m.nets.filter (fun x => x.id != id) = m.nets :=
    filter_id_self m.nets (·.id) id (fun h => r.disjNT id h hin)
  refine ⟨by unfold C05.dropId; rw [e1, e2], ?_⟩
  refine ⟨r.clock, r.intr, r.imm, r.immIds, r.net, ⟨hok, nodup_filter_ids _ _ _ r.tm.ids, ?_, ?_⟩, r.disjIN, ?_, ?_, r.done⟩
  · intro id' us' dl'
    rw [EventsC04.tmView_remove hrecs, ← r.tm.iff, List.mem_filter]
    simp only [bne_iff_ne, ne_eq, and_comm]
  · intro x hx; exact r.tm.dl x (List.mem_filter.mp hx).1
  · intro id' hid' hmem
    obtain ⟨x, hx, rfl⟩ := List.mem_map.mp hmem
    exact r.disjIT _ hid' (List.mem_map.mpr ⟨x, (List.mem_filter.mp hx).1, rfl⟩)
  · intro id' hid' hmem
    obtain ⟨x, hx, rfl⟩ := List.mem_map.mp hmem
    exact r.disjNT _ hid' (List.mem_map.mpr ⟨x, (List.mem_filter.mp hx).1, rfl⟩)

theorem rel_cancelTimer {C : TQContract} {m : C05.M} {s : State} (r : Rel C m s) (id : Nat) (t : TimerRec)
    (ht : timerOf s id = some t) :
    ∃ q' m', TimerQueue.delete s.tq t.qrec = some q' ∧ C05.step m (.op (.cancelTimer id) .ok) = .ok m' ∧
      Rel C m' { s with tq := q', timers := s.timers.filter (fun p => p.1 != id) } ∧ Ctl m m' := by
  have hm := EventsC04.timerOf_some_mem s id t ht
  obtain ⟨q', hd, hinv, hperm, hrecs⟩ := C.delete s.tq t.qrec r.tm.ok.inv (EventsC04.qrec_mem_heap r.tm.ok id t hm)
  have hok := EventsC04.tmOk_remove r.tm.ok id t hm hinv hperm hrecs
  obtain ⟨hdrop, hr⟩ := rel_remove_tm r id t hm q' hok hrecs
  refine ⟨q', _, hd, ?_, hr, Ctl.refl _⟩
  simp only [C05.step, hdrop]; rfl

theorem rel_resetTimer {C : TQContract} {m : C05.M} {s : State} (r : Rel C m s) (id : Nat) (t : TimerRec) (sec us : Int)
    (ht : timerOf s id = some t) (hgt : gettimeout s.clock t.osec t.ousec = (sec, us)) :
    ∃ q' m', TimerQueue.increase s.tq t.qrec sec us = some q' ∧ C05.step m (.op (.resetTimer id) .ok) = .ok m' ∧
      Rel C m' { s with tq := q' } ∧ Ctl m m' := by
  have hm := EventsC04.timerOf_some_mem s id t ht
  obtain ⟨us0, dl0, _, hv, _, _, _, _, _, _, huniq⟩ := EventsC04.tmView_of_mem r.tm.ok id t hm
  have hmem0 : (⟨id, us0, dl0⟩ : C05.Tm) ∈ m.tms := (r.tm.iff id us0 dl0).mpr hv
  have hdl := r.tm.dl _ hmem0
  simp only at hdl
  obtain ⟨q', hinc, hok, hview⟩ := EventsC04.tm_reset r.tm.ok s.clock id t sec us us0 dl0 hm hv (by rw [← r.clock]; exact hdl) hgt
  refine ⟨q', { m with tms := m.tms.map (fun t => if t.id == id then { t with deadline := m.clock + t.usec } else t) },
    hinc, rfl, ?_, Ctl.refl _⟩
  have hmemmap : ∀ id' us' dl', (⟨id', us', dl'⟩ : C05.Tm) ∈ m.tms.map (fun t => if t.id == id then { t with deadline := m.clock + t.usec } else t) ↔
      (id' = id ∧ us' = us0 ∧ dl' = m.clock + us0) ∨ (id' ≠ id ∧ (⟨id', us', dl'⟩ : C05.Tm) ∈ m.tms) := by
    intro id' us' dl'
    rw [List.mem_map]
    constructor
    · rintro ⟨x, hx, hxe⟩
      by_cases hxi : x.id = id
      · have hb : (x.id == id) = true := by simp [hxi]
        simp only [hb, if_true, C05.Tm.mk.injEq] at hxe
        obtain ⟨h1, h2, h3⟩ := hxe
        have hxv : TmView s.tq s.timers id x.usec x.deadline := (r.tm.iff id x.usec x.deadline).mp (by rw [← hxi]; exact hx)
        obtain ⟨e1, _⟩ := huniq _ _ hxv
        left
        refine ⟨by rw [← h1, hxi], by rw [← h2, e1], by rw [← h3, e1]⟩
      · have hb : (x.id == id) = false := by simp [hxi]
        simp only [hb, Bool.false_eq_true, if_false] at hxe
        right
        subst hxe
        exact ⟨hxi, hx⟩
    · rintro (⟨rfl, rfl, rfl⟩ | ⟨hne, hx⟩)
      · exact ⟨⟨id', us', dl0⟩, hmem0, by simp⟩
      · refine ⟨_, hx, ?_⟩
        have hb : (id' == id) = false := by simp [hne]
        simp [hb]
  refine ⟨r.clock, r.intr, r.imm, r.immIds, r.net, ⟨hok, ?_, ?_, ?_⟩, r.disjIN, ?_, ?_, r.done⟩
  · show (List.map (fun x : C05.Tm => x.id) (m.tms.map (fun t : C05.Tm => if t.id == id then { t with deadline := m.clock + t.usec } else t))).Nodup
    rw [List.map_map]
    have : ((fun x : C05.Tm => x.id) ∘ fun t : C05.Tm => if t.id == id then { t with deadline := m.clock + t.usec } else t) = (fun x => x.id) := by
      funext x; simp only [Function.comp]; split <;> rfl
    rw [this]; exact r.tm.ids
  · intro id' us' dl'
    show (⟨id', us', dl'⟩ : C05.Tm) ∈ m.tms.map _ ↔ _
    rw [hmemmap, hview, r.clock, ← r.tm.iff]
  · intro x hx
    have hx' : x ∈ m.tms.map (fun t => if t.id == id then { t with deadline := m.clock + t.usec } else t) := hx
    obtain ⟨y, hy, rfl⟩ := List.mem_map.mp hx'
    show (if y.id == id then { y with deadline := m.clock + y.usec } else y).deadline ≤ m.clock + (if y.id == id then { y with deadline := m.clock + y.usec } else y).usec
    split
    · exact Nat.le_refl _
    · exact r.tm.dl y hy
  · intro id' hid' hmem
    have hmem' : id' ∈ List.map (·.id) (m.tms.map (fun t => if t.id == id then { t with deadline := m.clock + t.usec } else t)) := hmem
    rw [List.map_map] at hmem'
    obtain ⟨x, hx, hxe⟩ := List.mem_map.mp hmem'
    have : x.id = id' := by simp only [Function.comp] at hxe; split at hxe <;> exact hxe
    exact r.disjIT _ hid' (List.mem_map.mpr ⟨x, hx, this⟩)
  · intro id' hid' hmem
    have hmem' : id' ∈ List.map (·.id) (m.tms.map (fun t => if t.id == id then { t with deadline := m.clock + t.usec } else t)) := hmem
    rw [List.map_map] at hmem'
    obtain ⟨x, hx, hxe⟩ := List.mem_map.mp hmem'
    have : x.id = id' := by simp only [Function.comp] at hxe; split at hxe <;> exact hxe
    exact r.disjNT _ hid' (List.mem_map.mpr ⟨x, hx, this⟩)


/-! ### callbacks being invoked -/

/-- how `cb id` changes the control part of the monitor's state -/
def Fired (m m' : C05.M) : Prop :=
  m'.stop = m.stop ∧ m'.fired = m.fired + 1 ∧ m'.mustFire = false ∧ m'.inRun = m.inRun ∧ m'.polled = m.polled ∧
  m'.startRunnable = m.startRunnable ∧ m'.startIntr = m.startIntr ∧ m'.intr = m.intr ∧ m'.clock = m.clock ∧
  m'.looked = false

theorem find_id_imm {l : List C05.Imm} (hn : IdsNodup l) {j : C05.Imm} (hj : j ∈ l) :
    l.find? (fun i => i.id == j.id) = some j := by
  cases hf : l.find? (fun i => i.id == j.id) with
  | none =>
    rw [List.find?_eq_none] at hf
    have := hf j hj
    simp at this
  | some i =>
    have h1 := List.find?_some hf
    have h2 := List.mem_of_find?_eq_some hf
    simp only [beq_iff_eq] at h1
    rw [ids_inj hn h2 hj h1]

/-- `events_immediate_get` returned the record of `j = nextImm`: the monitor accepts its invocation -/
theorem rel_cb_imm {C : TQContract} {m : C05.M} {s : State} (r : Rel C m s) (j : C05.Imm) (q' : Imm)
    (hn : C05.nextImm m.imms = some j) (hq' : RQ q' (m.imms.erase j)) (hstop : m.stop = none) :
    ∃ m', C05.step m (.cb j.id) = .ok m' ∧ Rel C m' { s with imm := q' } ∧ Fired m m' := by
  obtain ⟨hj, _, _⟩ := nextImm_spec m.imms j hn
  rw [erase_eq_filter_id r.immIds hj] at hq'
  obtain ⟨hdrop, hr⟩ := rel_remove_imm r j.id j.prio q' hj hq'
  refine ⟨{ m with imms := m.imms.filter (fun i => i.id != j.id), fired := m.fired + 1, mustFire := false, looked := false }, ?_,
    ⟨hr.clock, hr.intr, hr.imm, hr.immIds, hr.net, hr.tm, hr.disjIN, hr.disjIT, hr.disjNT, hr.done⟩,
    ⟨rfl, rfl, rfl, rfl, rfl, rfl, rfl, rfl, rfl, rfl⟩⟩
  simp only [C05.step, hstop, Option.isSome_none, Bool.false_eq_true, if_false, find_id_imm r.immIds hj, hn, hdrop,
    beq_self_eq_true, if_true]
  rfl

theorem find_none_of_not_mem {α : Type} (l : List α) (f : α → Nat) (id : Nat) (h : id ∉ l.map f) :
    l.find? (fun x => f x == id) = none := by
  rw [List.find?_eq_none]
  intro x hx
  simp only [beq_iff_eq]
  intro hh; exact h (List.mem_map.mpr ⟨x, hx, hh⟩)

theorem find_some_of_mem {α : Type} (l : List α) (f : α → Nat) (id : Nat) (h : id ∈ l.map f) :
    ∃ x, l.find? (fun x => f x == id) = some x := by
  cases hf : l.find? (fun x => f x == id) with
  | some x => exact ⟨x, rfl⟩
  | none =>
    rw [List.find?_eq_none] at hf
    obtain ⟨x, hx, hh⟩ := List.mem_map.mp h
    have := hf x hx
    simp [hh] at this

/-- `events_network_get` returned the record of socket registration `id` -/
theorem rel_cb_net {C : TQContract} {m : C05.M} {s : State} (r : Rel C m s) (n1 n' : Net) (p id : Nat)
    (hf : Found s.net n1 n' p id) (hinv : Inv n') (hstop : m.stop = none) (himm : m.imms = []) :
    ∃ m', C05.step m (.cb id) = .ok m' ∧ Rel C m' { s with net := n' } ∧ Fired m m' := by
  obtain ⟨q, e, sk, d, _, he, hr, hsk, hpp, hget, hsc, hb, hdrop⟩ := hf.spec
  have hinv1 : Inv n1 := ⟨hf.inv0, fun j e' hj hany => ⟨q, hsc, hb j e' hj hany⟩⟩
  have r1 := rel_net_expanded r n1 hf.ex hinv1
  have hsl : slot n1 e.fd d = some id := by simp [slot, hsk, hget]
  obtain ⟨rd, hx⟩ := (r1.net.iff id e.fd d).mpr hsl
  have hin : id ∈ m.nets.map (·.id) := List.mem_map.mpr ⟨_, hx, rfl⟩
  obtain ⟨x0, hfind⟩ := find_some_of_mem m.nets (·.id) id hin
  have e3 : m.tms.filter (fun x => x.id != id) = m.tms := filter_id_self m.tms (·.id) id (r.disjNT id hin)
  have hsub : ∀ x, x ∈ m.nets.filter (fun x => x.id != id) ↔ x ∈ m.nets ∧ x.id ≠ id := by
    intro x; rw [List.mem_filter]; simp only [bne_iff_ne, ne_eq]
  have hnet := rnet_drop r1.net id e.fd d sk q hsk hpp hget hdrop hinv hsub (nodup_filter_ids _ _ _ r.net.ids)
  refine ⟨{ m with nets := m.nets.filter (fun x => x.id != id), fired := m.fired + 1, mustFire := false, looked := false }, ?_, ?_,
    ⟨rfl, rfl, rfl, rfl, rfl, rfl, rfl, rfl, rfl, rfl⟩⟩
  · simp only [C05.step, hstop, Option.isSome_none, Bool.false_eq_true, if_false, himm, List.find?_nil,
      List.isEmpty_nil, Bool.not_true, hfind, C05.dropId, List.filter_nil, e3]
    rfl
  · refine ⟨r.clock, r.intr, r.imm, r.immIds, hnet, r.tm, ?_, r.disjIT, ?_, r.done⟩
    · intro id' hid'
      rw [himm] at hid'; simp at hid'
    · intro id' hmem
      obtain ⟨x, hx', rfl⟩ := List.mem_map.mp hmem
      exact r.disjNT _ (List.mem_map.mpr ⟨x, ((hsub x).mp hx').1, rfl⟩)

/-- `events_timer_get` released timer `id` -/
theorem rel_cb_timer {C : TQContract} {m : C05.M} {s : State} (r : Rel C m s) (q' : TimerQueue.TQ) (rr id : Nat)
    (hg : TimerQueue.getptr s.tq ((s.clock / 1000000 : Nat) : Int) ((s.clock % 1000000 : Nat) : Int) = (q', some (rr, id)))
    (hstop : m.stop = none) (himm : m.imms = []) (hnr : m.nets.any (·.ready) = false) (hlook : m.looked = true) :
    ∃ m', C05.step m (.cb id) = .ok m' ∧
      Rel C m' { s with tq := q', timers := s.timers.filter (fun p => p.1 != id) } ∧ Fired m m' := by
  obtain ⟨us, dl, hv, _, hmin, hok, hrecs⟩ := EventsC04.tm_getptr_some r.tm.ok s.clock q' rr id hg
  have hmem : (⟨id, us, dl⟩ : C05.Tm) ∈ m.tms := (r.tm.iff id us dl).mpr hv
  have hin : id ∈ m.tms.map (·.id) := List.mem_map.mpr ⟨_, hmem, rfl⟩
  obtain ⟨t, _, hmt, _⟩ := hv
  obtain ⟨hdrop, hr⟩ := rel_remove_tm r id t hmt q' hok hrecs
  have hnn : m.nets.find? (fun x => x.id == id) = none :=
    find_none_of_not_mem m.nets (·.id) id (fun h => r.disjNT id h hin)
  have hft : m.tms.find? (fun x => x.id == id) = some ⟨id, us, dl⟩ := by
    obtain ⟨x, hx⟩ := find_some_of_mem m.tms (·.id) id hin
    have h1 := List.find?_some hx
    have h2 := List.mem_of_find?_eq_some hx
    simp only [beq_iff_eq] at h1
    have := inj_of_nodup_map (fun x : C05.Tm => x.id) m.tms r.tm.ids _ h2 _ hmem h1
    rw [hx, this]
  have hless : m.tms.any (fun u => decide (u.deadline < dl)) = false := by
    rw [List.any_eq_false]
    intro u hu
    have := hmin u.id u.usec u.deadline ((r.tm.iff _ _ _).mp hu)
    simp only [decide_eq_true_eq]; omega
  refine ⟨{ m with tms := m.tms.filter (fun x => x.id != id), fired := m.fired + 1, mustFire := false, looked := false }, ?_,
    ⟨hr.clock, hr.intr, hr.imm, hr.immIds, hr.net, hr.tm, hr.disjIN, hr.disjIT, hr.disjNT, hr.done⟩,
    ⟨rfl, rfl, rfl, rfl, rfl, rfl, rfl, rfl, rfl, rfl⟩⟩
  simp only [C05.step, hstop, Option.isSome_none, Bool.false_eq_true, if_false, himm, List.find?_nil,
    List.isEmpty_nil, Bool.not_true, hnn, hft, hnr, hless, hdrop, hlook, Bool.and_false]
  rfl

end Percival.Proofs.EventsC05
