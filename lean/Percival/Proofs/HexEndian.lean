import Percival.Model.Hex
import Percival.Model.Endian
import Percival.Spec.Hex
import Percival.Spec.Endian
import Percival.Proofs.ByteDecide
namespace Percival.Proofs.Hex
open Percival.Model Percival.Spec Percival.Gen Percival.Proofs

def upperDigit (v : Nat) : UInt8 := if v < 10 then UInt8.ofNat (0x30 + v) else UInt8.ofNat (0x41 + (v - 10))

/-- Gen obligation: `hexchars` is the 16 lower-case digits followed by the 16 upper-case digits -/
theorem hexchars_eq :
    CodecTables.hexchars = (List.range 16).map Spec.Hex.digit ++ (List.range 16).map upperDigit := by decide

def toUpper (c : UInt8) : UInt8 := if 0x61 ≤ c ∧ c ≤ 0x66 then c - 0x20 else c


theorem tbl_hi : ∀ c : UInt8, tblRd Hex.tbl (c >>> 4).toNat = .ok (Spec.Hex.digit (c.toNat / 16)) := by decide +kernel
theorem tbl_lo : ∀ c : UInt8, tblRd Hex.tbl (c &&& 0x0f).toNat = .ok (Spec.Hex.digit (c.toNat % 16)) := by decide +kernel
theorem bad_eq : ∀ c : UInt8, (c == 0 || (strchrIdx Hex.tbl c).isNone) = !Spec.Hex.isDigit c := by decide +kernel
theorem nibble_eq : ∀ c : UInt8, Spec.Hex.isDigit c = true →
    Hex.nibble c = .ok (UInt8.ofNat ((Spec.Hex.digitVal c).getD 0)) ∧ (Spec.Hex.digitVal c).getD 0 < 16 ∧
    Spec.Hex.digitVal c = some ((Spec.Hex.digitVal c).getD 0) := by decide +kernel
theorem comb_eq : ∀ x, x < 16 → ∀ y, y < 16 → (UInt8.ofNat x <<< 4) + UInt8.ofNat y = UInt8.ofNat (16 * x + y) := by decide +kernel
theorem digit_lower : ∀ v, v < 16 → (0x30 ≤ Spec.Hex.digit v ∧ Spec.Hex.digit v ≤ 0x39) ∨ (0x61 ≤ Spec.Hex.digit v ∧ Spec.Hex.digit v ≤ 0x66) := by decide +kernel
theorem digitVal_digit : ∀ v, v < 16 → Spec.Hex.digitVal (Spec.Hex.digit v) = some v := by decide +kernel
theorem isDigit_ne0 : ∀ c : UInt8, Spec.Hex.isDigit c = true → c ≠ 0 := by decide +kernel
theorem recombine : ∀ c : UInt8, UInt8.ofNat (16 * (c.toNat / 16) + c.toNat % 16) = c := by decide +kernel

theorem rdR_some (l : List UInt8) (i : Nat) (c : UInt8) (h : l[i]? = some c) : rdR l.toArray i = .ok c := by
  simp [rdR, rd, h]
theorem rdR_none (l : List UInt8) (i : Nat) (h : l[i]? = none) : rdR l.toArray i = .oob := by
  simp [rdR, rd, h]

theorem hexifyF_eq (rest pre : List UInt8) (f : Nat) (hf : rest.length + 1 ≤ f) :
    Hex.hexifyF (pre ++ rest).toArray (pre ++ rest).length f pre.length = .ok (Spec.Hex.encode rest ++ [0]) := by
  induction rest generalizing pre f with
  | nil =>
    cases f with
    | zero => simp at hf
    | succ f => simp [Hex.hexifyF, Spec.Hex.encode]
  | cons c rest ih =>
    cases f with
    | zero => simp at hf
    | succ f =>
      have ih' := ih (pre ++ [c]) f (by simp at hf; omega)
      simp only [List.append_assoc, List.singleton_append, List.length_append, List.length_singleton] at ih'
      unfold Hex.hexifyF
      rw [if_pos (by simp), rdR_some _ _ c (by simp)]
      simp only [List.length_append, List.length_cons] at ih' ⊢
      simp only [Res.ok_bind, tbl_hi, tbl_lo, ih']
      simp [Spec.Hex.encode]

theorem hexify_eq (b : List UInt8) : Hex.hexify b.toArray b.length = .ok (Spec.Hex.encode b ++ [0]) := by
  have := hexifyF_eq b [] (b.length + 1) (Nat.le_refl _)
  simpa [Hex.hexify] using this

theorem encode_lower (b : List UInt8) :
    ∀ c ∈ Spec.Hex.encode b, (0x30 ≤ c ∧ c ≤ 0x39) ∨ (0x61 ≤ c ∧ c ≤ 0x66) := by
  induction b with
  | nil => simp [Spec.Hex.encode]
  | cons a as ih =>
    intro c hc
    simp only [Spec.Hex.encode, List.mem_cons] at hc
    have ha := a.toNat_lt
    rcases hc with rfl | rfl | hc
    · exact digit_lower _ (by omega)
    · exact digit_lower _ (by omega)
    · exact ih c hc

theorem decode_encode (b : List UInt8) : Spec.Hex.decode (Spec.Hex.encode b) = some b := by
  induction b with
  | nil => simp [Spec.Hex.encode, Spec.Hex.decode]
  | cons a as ih =>
    have ha := a.toNat_lt
    simp only [Spec.Hex.encode, Spec.Hex.decode, ih, digitVal_digit (a.toNat / 16) (by omega),
      digitVal_digit (a.toNat % 16) (by omega), recombine]

theorem decode_cons2 (a b : UInt8) (rest w : List UInt8) (h : Spec.Hex.decode (a :: b :: rest) = some w) :
    ∃ x y r, Spec.Hex.digitVal a = some x ∧ Spec.Hex.digitVal b = some y ∧ Spec.Hex.decode rest = some r ∧
      w = UInt8.ofNat (16 * x + y) :: r := by
  simp only [Spec.Hex.decode] at h
  split at h
  · rename_i x y r hx hy hr
    exact ⟨x, y, r, hx, hy, hr, by simpa using h.symm⟩
  · simp at h

theorem decode_length_aux : ∀ (s w : List UInt8), Spec.Hex.decode s = some w → 2 * w.length = s.length
  | [], w, h => by simp [Spec.Hex.decode] at h; subst h; rfl
  | [_], w, h => by simp [Spec.Hex.decode] at h
  | a :: b :: rest, w, h => by
    obtain ⟨x, y, r, _, _, hr, rfl⟩ := decode_cons2 a b rest w h
    have := decode_length_aux rest r hr
    simp only [List.length_cons]; omega

theorem decode_length (s : List UInt8) (w : List UInt8) (h : Spec.Hex.decode s = some w) : 2 * w.length = s.length :=
  decode_length_aux s w h

theorem isDigit_zero : Spec.Hex.isDigit 0 = false := by decide

def valL : List UInt8 → Nat → Res Bool
  | _, 0 => .ok true
  | [], _+1 => .oob
  | c :: cs, n+1 => if Spec.Hex.isDigit c then valL cs n else .ok false

theorem validateF_eq (L : List UInt8) (len : Nat) : ∀ (n i f : Nat), n + 1 ≤ f → i + n = 2 * len →
    Hex.validateF L.toArray len f i = valL (L.drop i) n := by
  intro n
  induction n with
  | zero =>
    intro i f hf hi
    cases f with
    | zero => omega
    | succ f => unfold Hex.validateF; rw [if_neg (by omega)]; simp [valL]
  | succ n ih =>
    intro i f hf hi
    cases f with
    | zero => omega
    | succ f =>
      unfold Hex.validateF; rw [if_pos (by omega)]
      cases h : L[i]? with
      | none =>
        rw [rdR_none _ _ h]
        have : L.length ≤ i := by simpa using h
        rw [List.drop_eq_nil_of_le this]; simp [valL]
      | some c =>
        rw [rdR_some _ _ c h]
        obtain ⟨hlt, hc⟩ := List.getElem?_eq_some_iff.mp h
        rw [List.drop_eq_getElem_cons hlt, hc]
        simp only [Res.ok_bind, bad_eq, valL, ih (i+1) f (by omega) (by omega)]
        cases Spec.Hex.isDigit c <;> simp

theorem valL_cstr (s : List UInt8) (hs : ∀ c ∈ s, c ≠ 0) (n : Nat) :
    valL (s ++ [0]) n = .ok (decide (n ≤ s.length) && (s.take n).all Spec.Hex.isDigit) := by
  induction s generalizing n with
  | nil =>
    cases n with
    | zero => simp [valL]
    | succ n => simp [valL, isDigit_zero]
  | cons c cs ih =>
    cases n with
    | zero => simp [valL]
    | succ n =>
      have := ih (fun c hc => hs c (List.mem_cons_of_mem _ hc)) n
      simp only [List.cons_append, valL, this]
      cases hd : Spec.Hex.isDigit c <;> simp [hd]

theorem valL_block (s : List UInt8) (n : Nat) (h : n ≤ s.length) :
    valL s n = .ok ((s.take n).all Spec.Hex.isDigit) := by
  induction s generalizing n with
  | nil =>
    cases n with
    | zero => simp [valL]
    | succ n => simp at h
  | cons c cs ih =>
    cases n with
    | zero => simp [valL]
    | succ n =>
      have := ih n (by simpa using h)
      simp only [valL, this]
      cases hd : Spec.Hex.isDigit c <;> simp [hd]

theorem take_drop_succ {α} (l : List α) (p n : Nat) (h : p < l.length) :
    (l.drop p).take (n+1) = l[p] :: (l.drop (p+1)).take n := by
  rw [List.drop_eq_getElem_cons h, List.take_succ_cons]

theorem convF_eq (L : List UInt8) (len : Nat) (hL : 2 * len ≤ L.length) : ∀ (n i f : Nat), n + 1 ≤ f → i + n = len →
    ((L.drop (2 * i)).take (2 * n)).all Spec.Hex.isDigit = true →
    ∃ w, Spec.Hex.decode ((L.drop (2 * i)).take (2 * n)) = some w ∧ Hex.convF L.toArray len f i = .ok w := by
  intro n
  induction n with
  | zero =>
    intro i f hf hi _
    cases f with
    | zero => omega
    | succ f => 
      refine ⟨[], by simp [Spec.Hex.decode], ?_⟩
      unfold Hex.convF; rw [if_neg (by omega)]
  | succ n ih =>
    intro i f hf hi hall
    cases f with
    | zero => omega
    | succ f =>
      have e : 2 * (n + 1) = 2 * n + 1 + 1 := by omega
      have e2 : 2 * i + 1 + 1 = 2 * (i + 1) := by omega
      rw [e, take_drop_succ _ _ _ (by omega), take_drop_succ _ _ _ (by omega), e2] at hall ⊢
      simp only [List.all_cons, Bool.and_eq_true] at hall
      obtain ⟨h1, h2, h3⟩ := hall
      obtain ⟨w, hw, hc⟩ := ih (i+1) f (by omega) (by omega) h3
      obtain ⟨n1, l1, d1⟩ := nibble_eq _ h1
      obtain ⟨n2, l2, d2⟩ := nibble_eq _ h2
      refine ⟨_, by rw [Spec.Hex.decode, d1, d2, hw], ?_⟩
      unfold Hex.convF; rw [if_pos (by omega)]
      rw [rdR_some L (2 * i) _ (List.getElem?_eq_getElem (by omega)), rdR_some L (2 * i + 1) _ (List.getElem?_eq_getElem (by omega))]
      simp only [Res.ok_bind, n1, n2, hc, comb_eq _ l1 _ l2]

theorem decode_all : ∀ (s w : List UInt8), Spec.Hex.decode s = some w → s.all Spec.Hex.isDigit = true
  | [], w, h => by simp
  | [_], w, h => by simp [Spec.Hex.decode] at h
  | a :: b :: rest, w, h => by
    obtain ⟨x, y, r, hx, hy, hr, rfl⟩ := decode_cons2 a b rest w h
    have := decode_all rest r hr
    simp [Spec.Hex.isDigit, hx, hy, this]

theorem decode_none (s : List UInt8) (h : s.all Spec.Hex.isDigit = false) : Spec.Hex.decode s = none := by
  cases hd : Spec.Hex.decode s with
  | none => rfl
  | some w => rw [decode_all s w hd] at h; simp at h

theorem unhexify_list (L : List UInt8) (len : Nat) (v : Bool) (hL : v = true → 2 * len ≤ L.length)
    (hv : valL L (2 * len) = .ok v) (hv' : v = true → (L.take (2 * len)).all Spec.Hex.isDigit = true) :
    Hex.unhexify L.toArray len = .ok (if v then Spec.Hex.decode (L.take (2 * len)) else none) := by
  unfold Hex.unhexify
  have := validateF_eq L len (2 * len) 0 (2 * len + 1) (Nat.le_refl _) (by omega)
  rw [List.drop_zero] at this
  rw [this, hv]
  cases v with
  | false => simp
  | true =>
    obtain ⟨w, hw, hc⟩ := convF_eq L len (hL rfl) len 0 (len + 1) (Nat.le_refl _) (by omega) (by simpa using hv' rfl)
    simp only [Nat.mul_zero, List.drop_zero] at hw
    simp [hc, hw]

theorem unhexify_cstr (s : List UInt8) (hs : ∀ c ∈ s, c ≠ 0) (len : Nat) :
    Hex.unhexify (cstr s) len =
      .ok (if 2 * len ≤ s.length then Spec.Hex.decode (s.take (2 * len)) else none) := by
  have hv := valL_cstr s hs (2 * len)
  unfold cstr
  by_cases hlen : 2 * len ≤ s.length
  · have ht : (s ++ [0]).take (2 * len) = s.take (2 * len) := List.take_append_of_le_length hlen
    rw [unhexify_list (s ++ [0]) len _ (by intro; simp; omega) hv (by rw [ht]; simp), ht, if_pos hlen]
    simp only [hlen, decide_true, Bool.true_and]
    cases ha : (s.take (2 * len)).all Spec.Hex.isDigit with
    | true => simp
    | false => simp [decode_none _ ha]
  · rw [unhexify_list (s ++ [0]) len _ (by simp [hlen]) hv (by simp [hlen]), if_neg hlen]
    simp [hlen]

theorem all_digit_ne0 (t : List UInt8) (h : t.all Spec.Hex.isDigit = true) : t.all (· != 0) = true := by
  simp only [List.all_eq_true] at h ⊢
  intro c hc
  simpa using isDigit_ne0 c (h c hc)

theorem unhexify_block (s : List UInt8) (len : Nat) (h : 2 * len ≤ s.length) :
    Hex.unhexify s.toArray len =
      .ok (if (s.take (2 * len)).all (· != 0) then Spec.Hex.decode (s.take (2 * len)) else none) := by
  rw [unhexify_list s len _ (fun _ => h) (valL_block s (2 * len) h) (fun h => h)]
  cases ha : (s.take (2 * len)).all Spec.Hex.isDigit with
  | true => simp [all_digit_ne0 _ ha]
  | false => simp [decode_none _ ha]

theorem digitVal_upper : ∀ v, v < 16 → Spec.Hex.digitVal (toUpper (Spec.Hex.digit v)) = some v := by decide

theorem decode_anycase (b : List UInt8) (s : List UInt8) (hlen : s.length = (Spec.Hex.encode b).length)
    (h : ∀ i (hi : i < s.length), s[i] = (Spec.Hex.encode b)[i]'(by omega) ∨ s[i] = toUpper ((Spec.Hex.encode b)[i]'(by omega))) :
    Spec.Hex.decode s = some b := by
  induction b generalizing s with
  | nil =>
    simp [Spec.Hex.encode] at hlen
    subst hlen; simp [Spec.Hex.decode]
  | cons a as ih =>
    have ha := a.toNat_lt
    match s, hlen, h with
    | [], hlen, _ => simp [Spec.Hex.encode] at hlen
    | [_], hlen, _ => simp [Spec.Hex.encode] at hlen
    | c1 :: c2 :: s', hlen, h =>
      have h0 := h 0 (by simp)
      have h1 := h 1 (by simp)
      simp only [Spec.Hex.encode, List.getElem_cons_zero, List.getElem_cons_succ] at h0 h1
      have d1 : Spec.Hex.digitVal c1 = some (a.toNat / 16) := by
        rcases h0 with e | e <;> rw [e]
        · exact digitVal_digit _ (by omega)
        · exact digitVal_upper _ (by omega)
      have d2 : Spec.Hex.digitVal c2 = some (a.toNat % 16) := by
        rcases h1 with e | e <;> rw [e]
        · exact digitVal_digit _ (by omega)
        · exact digitVal_upper _ (by omega)
      have ih' := ih s' (by simpa [Spec.Hex.encode] using hlen) (by
        intro i hi
        have := h (i + 2) (by simp; omega)
        simpa [Spec.Hex.encode] using this)
      simp only [Spec.Hex.decode, d1, d2, ih', recombine]
end Percival.Proofs.Hex

namespace Percival.Proofs.Endian
open Percival.Model Percival.Spec

theorem leBytes_length (n x : Nat) : (Spec.Endian.leBytes n x).length = n := by
  induction n generalizing x with
  | zero => rfl
  | succ n ih => simp [Spec.Endian.leBytes, ih]
theorem beBytes_length (n x : Nat) : (Spec.Endian.beBytes n x).length = n := by
  simp [Spec.Endian.beBytes, leBytes_length]

theorem leVal_leBytes (n x : Nat) (h : x < 256 ^ n) : Spec.Endian.leVal (Spec.Endian.leBytes n x) = x := by
  induction n generalizing x with
  | zero => simp at h; simp [Spec.Endian.leBytes, Spec.Endian.leVal, h]
  | succ n ih =>
    have h2 : x / 256 < 256 ^ n := by
      rw [Nat.pow_succ] at h
      exact Nat.div_lt_of_lt_mul (by rw [Nat.mul_comm]; exact h)
    simp [Spec.Endian.leBytes, Spec.Endian.leVal, ih _ h2]
    omega

theorem beVal_append_single (l : List UInt8) (a : UInt8) :
    Spec.Endian.beVal (l ++ [a]) = Spec.Endian.beVal l * 256 + a.toNat := by
  induction l with
  | nil => simp [Spec.Endian.beVal]
  | cons b bs ih =>
    simp [Spec.Endian.beVal, ih, Nat.pow_succ, Nat.add_mul, Nat.mul_assoc, Nat.add_assoc]

theorem beVal_reverse (l : List UInt8) : Spec.Endian.beVal l.reverse = Spec.Endian.leVal l := by
  induction l with
  | nil => rfl
  | cons b bs ih => simp [beVal_append_single, ih, Spec.Endian.leVal]; omega

theorem beVal_beBytes (n x : Nat) (h : x < 256 ^ n) : Spec.Endian.beVal (Spec.Endian.beBytes n x) = x := by
  simp [Spec.Endian.beBytes, beVal_reverse, leVal_leBytes n x h]

theorem wr_ok (b : Buf) (i : Nat) (v : UInt8) (h : i < b.size) : wr b i v = .ok (b.set i v) := by
  simp [wr, h]


theorem splice_gen {α} (l l' m : List α) (p : Nat) (h : p + m.length ≤ l.length) 
   (h0 : l'.length = l.length) (hp : ∀ i, i < p → l'[i]? = l[i]?) (hs : ∀ i, p + m.length ≤ i → l'[i]? = l[i]?)
   (e : ∀ j, j < m.length → l'[p+j]? = m[j]?) :
    l' = l.take p ++ m ++ l.drop (p+m.length) := by
  apply List.ext_getElem?
  intro i
  have hlt : (List.take p l).length = p := by simp; omega
  by_cases h1 : i < p
  · rw [hp i h1, List.append_assoc, List.getElem?_append_left (by omega), List.getElem?_take_of_lt h1]
  · by_cases h2 : p + m.length ≤ i
    · rw [hs i h2, List.getElem?_append_right (by simp; omega), List.getElem?_drop]
      congr 1; simp; omega
    · have := e (i - p) (by omega)
      rw [show p + (i - p) = i by omega] at this
      rw [this, List.append_assoc, List.getElem?_append_right (by omega), List.getElem?_append_left (by omega), hlt]


theorem splice {α} (l l' m : List α) (p n : Nat) (hm : m.length = n) (h : p + n ≤ l.length)
   (h0 : l'.length = l.length) (hp : ∀ i, i < p → l'[i]? = l[i]?) (hs : ∀ i, p + n ≤ i → l'[i]? = l[i]?)
   (e : ∀ j, j < n → l'[p+j]? = m[j]?) :
    l' = l.take p ++ m ++ l.drop (p+n) := by
  subst hm; exact splice_gen l l' m p h h0 hp hs e

theorem rdR_ok (b : Buf) (i : Nat) (h : i < b.size) : rdR b i = .ok b[i] := by
  simp [rdR, rd_lt h]

theorem and255 (n : Nat) : n &&& 255 = n % 256 := Nat.and_two_pow_sub_one_eq_mod n 8

theorem or_mul (a b k : Nat) (h : a < 2 ^ k) : a ||| b * 2 ^ k = a + b * 2 ^ k := by
  rw [Nat.or_comm, ← Nat.shiftLeft_eq, ← Nat.shiftLeft_add_eq_or_of_lt h, Nat.add_comm]

theorem take_drop_succ {α} (l : List α) (p n : Nat) (h : p < l.length) :
    (l.drop p).take (n+1) = l[p] :: (l.drop (p+1)).take n := by
  rw [List.drop_eq_getElem_cons h, List.take_succ_cons]

theorem take2 (l : List UInt8) (p : Nat) (h : p + 2 ≤ l.length) :
    (l.drop p).take 2 = [l[p], l[p+1]] := by
  rw [take_drop_succ _ _ _ (by omega), take_drop_succ _ _ _ (by omega)]
  simp

theorem or2 (n0 n1 : Nat) (h0 : n0 < 256) (h1 : n1 < 256) :
    n0 ||| n1 * 256 % 65536 = n0 + n1 * 256 := by
  rw [Nat.mod_eq_of_lt (a := n1 * 256) (by omega)]
  have e1 : (n0) ||| n1 * 256 = (n0) + n1 * 256 := or_mul _ n1 8 (by omega)
  rw [e1]

theorem b16_0 (x : UInt16) : (x &&& 0xff).toUInt8 = UInt8.ofNat (x.toNat % 256) := by
  apply UInt8.toNat_inj.mp
  simp [and255]
theorem b16_1 (x : UInt16) : ((x >>> 8) &&& 0xff).toUInt8 = UInt8.ofNat (x.toNat / 256 % 256) := by
  apply UInt8.toNat_inj.mp
  simp [Nat.shiftRight_eq_div_pow, and255]

theorem be16enc_spec (b : Buf) (p : Nat) (x : UInt16) (h : p + 2 ≤ b.size) :
    ∃ b', Endian.be16enc b p x = .ok b' ∧
      b'.toList = b.toList.take p ++ Spec.Endian.beBytes 2 x.toNat ++ b.toList.drop (p + 2) := by
  unfold Endian.be16enc
  rw [b16_0 x, b16_1 x]
  rw [wr_ok _ _ _ (by first | omega | (simp; omega))]; simp only [Res.ok_bind]
  rw [wr_ok _ _ _ (by first | omega | (simp; omega))]
  refine ⟨_, rfl, ?_⟩
  simp only [Array.toList_set]
  have hl : p + 2 ≤ b.toList.length := by simpa using h
  generalize b.toList = l at hl ⊢
  apply splice _ _ _ _ _ (beBytes_length _ _) hl
  · simp
  · intro i hi; simp only [List.getElem?_set]; repeat (rw [if_neg (by omega)])
  · intro i hi; simp only [List.getElem?_set]; repeat (rw [if_neg (by omega)])
  · intro j hj
    have : j = 0 ∨ j = 1 := by omega
    rcases this with rfl | rfl <;>
      simp [List.getElem?_set, Spec.Endian.beBytes, Spec.Endian.leBytes] <;> omega

theorem be16dec_spec (b : Buf) (p : Nat) (h : p + 2 ≤ b.size) :
    Endian.be16dec b p = .ok (UInt16.ofNat (Spec.Endian.beVal ((b.toList.drop p).take 2))) := by
  unfold Endian.be16dec
  rw [rdR_ok _ _ (by omega), rdR_ok _ _ (by omega)]
  simp only [Res.ok_bind]
  rw [take2 _ _ (by simpa using h)]
  congr 1
  apply UInt16.toNat_inj.mp
  simp [Spec.Endian.beVal, Nat.shiftLeft_eq]
  have h0 := (b[p]).toNat_lt
  generalize (b[p]).toNat = a0 at *
  have h1 := (b[p+1]).toNat_lt
  generalize (b[p+1]).toNat = a1 at *
  rw [or2 a1 a0 (by omega) (by omega)]
  omega

theorem le16enc_spec (b : Buf) (p : Nat) (x : UInt16) (h : p + 2 ≤ b.size) :
    ∃ b', Endian.le16enc b p x = .ok b' ∧
      b'.toList = b.toList.take p ++ Spec.Endian.leBytes 2 x.toNat ++ b.toList.drop (p + 2) := by
  unfold Endian.le16enc
  rw [b16_0 x, b16_1 x]
  rw [wr_ok _ _ _ (by first | omega | (simp; omega))]; simp only [Res.ok_bind]
  rw [wr_ok _ _ _ (by first | omega | (simp; omega))]
  refine ⟨_, rfl, ?_⟩
  simp only [Array.toList_set]
  have hl : p + 2 ≤ b.toList.length := by simpa using h
  generalize b.toList = l at hl ⊢
  apply splice _ _ _ _ _ (leBytes_length _ _) hl
  · simp
  · intro i hi; simp only [List.getElem?_set]; repeat (rw [if_neg (by omega)])
  · intro i hi; simp only [List.getElem?_set]; repeat (rw [if_neg (by omega)])
  · intro j hj
    have : j = 0 ∨ j = 1 := by omega
    rcases this with rfl | rfl <;>
      simp [List.getElem?_set, Spec.Endian.leBytes] <;> omega

theorem le16dec_spec (b : Buf) (p : Nat) (h : p + 2 ≤ b.size) :
    Endian.le16dec b p = .ok (UInt16.ofNat (Spec.Endian.leVal ((b.toList.drop p).take 2))) := by
  unfold Endian.le16dec
  rw [rdR_ok _ _ (by omega), rdR_ok _ _ (by omega)]
  simp only [Res.ok_bind]
  rw [take2 _ _ (by simpa using h)]
  congr 1
  apply UInt16.toNat_inj.mp
  simp [Spec.Endian.leVal, Nat.shiftLeft_eq]
  have h0 := (b[p]).toNat_lt
  generalize (b[p]).toNat = a0 at *
  have h1 := (b[p+1]).toNat_lt
  generalize (b[p+1]).toNat = a1 at *
  rw [or2 a0 a1 (by omega) (by omega)]
  omega

theorem take4 (l : List UInt8) (p : Nat) (h : p + 4 ≤ l.length) :
    (l.drop p).take 4 = [l[p], l[p+1], l[p+2], l[p+3]] := by
  rw [take_drop_succ _ _ _ (by omega), take_drop_succ _ _ _ (by omega), take_drop_succ _ _ _ (by omega), take_drop_succ _ _ _ (by omega)]
  simp

theorem or4 (n0 n1 n2 n3 : Nat) (h0 : n0 < 256) (h1 : n1 < 256) (h2 : n2 < 256) (h3 : n3 < 256) :
    n0 ||| n1 * 256 % 4294967296 ||| n2 * 65536 % 4294967296 ||| n3 * 16777216 % 4294967296 = n0 + n1 * 256 + n2 * 65536 + n3 * 16777216 := by
  rw [Nat.mod_eq_of_lt (a := n1 * 256) (by omega), Nat.mod_eq_of_lt (a := n2 * 65536) (by omega), Nat.mod_eq_of_lt (a := n3 * 16777216) (by omega)]
  have e1 : (n0) ||| n1 * 256 = (n0) + n1 * 256 := or_mul _ n1 8 (by omega)
  rw [e1]
  have e2 : (n0 + n1 * 256) ||| n2 * 65536 = (n0 + n1 * 256) + n2 * 65536 := or_mul _ n2 16 (by omega)
  rw [e2]
  have e3 : (n0 + n1 * 256 + n2 * 65536) ||| n3 * 16777216 = (n0 + n1 * 256 + n2 * 65536) + n3 * 16777216 := or_mul _ n3 24 (by omega)
  rw [e3]

theorem b32_0 (x : UInt32) : (x &&& 0xff).toUInt8 = UInt8.ofNat (x.toNat % 256) := by
  apply UInt8.toNat_inj.mp
  simp [and255]
theorem b32_1 (x : UInt32) : ((x >>> 8) &&& 0xff).toUInt8 = UInt8.ofNat (x.toNat / 256 % 256) := by
  apply UInt8.toNat_inj.mp
  simp [Nat.shiftRight_eq_div_pow, and255]
theorem b32_2 (x : UInt32) : ((x >>> 16) &&& 0xff).toUInt8 = UInt8.ofNat (x.toNat / 256 / 256 % 256) := by
  apply UInt8.toNat_inj.mp
  simp [Nat.shiftRight_eq_div_pow, and255]
  omega
theorem b32_3 (x : UInt32) : ((x >>> 24) &&& 0xff).toUInt8 = UInt8.ofNat (x.toNat / 256 / 256 / 256 % 256) := by
  apply UInt8.toNat_inj.mp
  simp [Nat.shiftRight_eq_div_pow, and255]
  omega

theorem be32enc_spec (b : Buf) (p : Nat) (x : UInt32) (h : p + 4 ≤ b.size) :
    ∃ b', Endian.be32enc b p x = .ok b' ∧
      b'.toList = b.toList.take p ++ Spec.Endian.beBytes 4 x.toNat ++ b.toList.drop (p + 4) := by
  unfold Endian.be32enc
  rw [b32_0 x, b32_1 x, b32_2 x, b32_3 x]
  rw [wr_ok _ _ _ (by first | omega | (simp; omega))]; simp only [Res.ok_bind]
  rw [wr_ok _ _ _ (by first | omega | (simp; omega))]; simp only [Res.ok_bind]
  rw [wr_ok _ _ _ (by first | omega | (simp; omega))]; simp only [Res.ok_bind]
  rw [wr_ok _ _ _ (by first | omega | (simp; omega))]
  refine ⟨_, rfl, ?_⟩
  simp only [Array.toList_set]
  have hl : p + 4 ≤ b.toList.length := by simpa using h
  generalize b.toList = l at hl ⊢
  apply splice _ _ _ _ _ (beBytes_length _ _) hl
  · simp
  · intro i hi; simp only [List.getElem?_set]; repeat (rw [if_neg (by omega)])
  · intro i hi; simp only [List.getElem?_set]; repeat (rw [if_neg (by omega)])
  · intro j hj
    have : j = 0 ∨ j = 1 ∨ j = 2 ∨ j = 3 := by omega
    rcases this with rfl | rfl | rfl | rfl <;>
      simp [List.getElem?_set, Spec.Endian.beBytes, Spec.Endian.leBytes] <;> omega

theorem be32dec_spec (b : Buf) (p : Nat) (h : p + 4 ≤ b.size) :
    Endian.be32dec b p = .ok (UInt32.ofNat (Spec.Endian.beVal ((b.toList.drop p).take 4))) := by
  unfold Endian.be32dec
  rw [rdR_ok _ _ (by omega), rdR_ok _ _ (by omega), rdR_ok _ _ (by omega), rdR_ok _ _ (by omega)]
  simp only [Res.ok_bind]
  rw [take4 _ _ (by simpa using h)]
  congr 1
  apply UInt32.toNat_inj.mp
  simp [Spec.Endian.beVal, Nat.shiftLeft_eq]
  have h0 := (b[p]).toNat_lt
  generalize (b[p]).toNat = a0 at *
  have h1 := (b[p+1]).toNat_lt
  generalize (b[p+1]).toNat = a1 at *
  have h2 := (b[p+2]).toNat_lt
  generalize (b[p+2]).toNat = a2 at *
  have h3 := (b[p+3]).toNat_lt
  generalize (b[p+3]).toNat = a3 at *
  rw [or4 a3 a2 a1 a0 (by omega) (by omega) (by omega) (by omega)]
  omega

theorem le32enc_spec (b : Buf) (p : Nat) (x : UInt32) (h : p + 4 ≤ b.size) :
    ∃ b', Endian.le32enc b p x = .ok b' ∧
      b'.toList = b.toList.take p ++ Spec.Endian.leBytes 4 x.toNat ++ b.toList.drop (p + 4) := by
  unfold Endian.le32enc
  rw [b32_0 x, b32_1 x, b32_2 x, b32_3 x]
  rw [wr_ok _ _ _ (by first | omega | (simp; omega))]; simp only [Res.ok_bind]
  rw [wr_ok _ _ _ (by first | omega | (simp; omega))]; simp only [Res.ok_bind]
  rw [wr_ok _ _ _ (by first | omega | (simp; omega))]; simp only [Res.ok_bind]
  rw [wr_ok _ _ _ (by first | omega | (simp; omega))]
  refine ⟨_, rfl, ?_⟩
  simp only [Array.toList_set]
  have hl : p + 4 ≤ b.toList.length := by simpa using h
  generalize b.toList = l at hl ⊢
  apply splice _ _ _ _ _ (leBytes_length _ _) hl
  · simp
  · intro i hi; simp only [List.getElem?_set]; repeat (rw [if_neg (by omega)])
  · intro i hi; simp only [List.getElem?_set]; repeat (rw [if_neg (by omega)])
  · intro j hj
    have : j = 0 ∨ j = 1 ∨ j = 2 ∨ j = 3 := by omega
    rcases this with rfl | rfl | rfl | rfl <;>
      simp [List.getElem?_set, Spec.Endian.leBytes] <;> omega

theorem le32dec_spec (b : Buf) (p : Nat) (h : p + 4 ≤ b.size) :
    Endian.le32dec b p = .ok (UInt32.ofNat (Spec.Endian.leVal ((b.toList.drop p).take 4))) := by
  unfold Endian.le32dec
  rw [rdR_ok _ _ (by omega), rdR_ok _ _ (by omega), rdR_ok _ _ (by omega), rdR_ok _ _ (by omega)]
  simp only [Res.ok_bind]
  rw [take4 _ _ (by simpa using h)]
  congr 1
  apply UInt32.toNat_inj.mp
  simp [Spec.Endian.leVal, Nat.shiftLeft_eq]
  have h0 := (b[p]).toNat_lt
  generalize (b[p]).toNat = a0 at *
  have h1 := (b[p+1]).toNat_lt
  generalize (b[p+1]).toNat = a1 at *
  have h2 := (b[p+2]).toNat_lt
  generalize (b[p+2]).toNat = a2 at *
  have h3 := (b[p+3]).toNat_lt
  generalize (b[p+3]).toNat = a3 at *
  rw [or4 a0 a1 a2 a3 (by omega) (by omega) (by omega) (by omega)]
  omega

theorem take8 (l : List UInt8) (p : Nat) (h : p + 8 ≤ l.length) :
    (l.drop p).take 8 = [l[p], l[p+1], l[p+2], l[p+3], l[p+4], l[p+5], l[p+6], l[p+7]] := by
  rw [take_drop_succ _ _ _ (by omega), take_drop_succ _ _ _ (by omega), take_drop_succ _ _ _ (by omega), take_drop_succ _ _ _ (by omega), take_drop_succ _ _ _ (by omega), take_drop_succ _ _ _ (by omega), take_drop_succ _ _ _ (by omega), take_drop_succ _ _ _ (by omega)]
  simp

theorem or8 (n0 n1 n2 n3 n4 n5 n6 n7 : Nat) (h0 : n0 < 256) (h1 : n1 < 256) (h2 : n2 < 256) (h3 : n3 < 256) (h4 : n4 < 256) (h5 : n5 < 256) (h6 : n6 < 256) (h7 : n7 < 256) :
    n0 ||| n1 * 256 % 18446744073709551616 ||| n2 * 65536 % 18446744073709551616 ||| n3 * 16777216 % 18446744073709551616 ||| n4 * 4294967296 % 18446744073709551616 ||| n5 * 1099511627776 % 18446744073709551616 ||| n6 * 281474976710656 % 18446744073709551616 ||| n7 * 72057594037927936 % 18446744073709551616 = n0 + n1 * 256 + n2 * 65536 + n3 * 16777216 + n4 * 4294967296 + n5 * 1099511627776 + n6 * 281474976710656 + n7 * 72057594037927936 := by
  rw [Nat.mod_eq_of_lt (a := n1 * 256) (by omega), Nat.mod_eq_of_lt (a := n2 * 65536) (by omega), Nat.mod_eq_of_lt (a := n3 * 16777216) (by omega), Nat.mod_eq_of_lt (a := n4 * 4294967296) (by omega), Nat.mod_eq_of_lt (a := n5 * 1099511627776) (by omega), Nat.mod_eq_of_lt (a := n6 * 281474976710656) (by omega), Nat.mod_eq_of_lt (a := n7 * 72057594037927936) (by omega)]
  have e1 : (n0) ||| n1 * 256 = (n0) + n1 * 256 := or_mul _ n1 8 (by omega)
  rw [e1]
  have e2 : (n0 + n1 * 256) ||| n2 * 65536 = (n0 + n1 * 256) + n2 * 65536 := or_mul _ n2 16 (by omega)
  rw [e2]
  have e3 : (n0 + n1 * 256 + n2 * 65536) ||| n3 * 16777216 = (n0 + n1 * 256 + n2 * 65536) + n3 * 16777216 := or_mul _ n3 24 (by omega)
  rw [e3]
  have e4 : (n0 + n1 * 256 + n2 * 65536 + n3 * 16777216) ||| n4 * 4294967296 = (n0 + n1 * 256 + n2 * 65536 + n3 * 16777216) + n4 * 4294967296 := or_mul _ n4 32 (by omega)
  rw [e4]
  have e5 : (n0 + n1 * 256 + n2 * 65536 + n3 * 16777216 + n4 * 4294967296) ||| n5 * 1099511627776 = (n0 + n1 * 256 + n2 * 65536 + n3 * 16777216 + n4 * 4294967296) + n5 * 1099511627776 := or_mul _ n5 40 (by omega)
  rw [e5]
  have e6 : (n0 + n1 * 256 + n2 * 65536 + n3 * 16777216 + n4 * 4294967296 + n5 * 1099511627776) ||| n6 * 281474976710656 = (n0 + n1 * 256 + n2 * 65536 + n3 * 16777216 + n4 * 4294967296 + n5 * 1099511627776) + n6 * 281474976710656 := or_mul _ n6 48 (by omega)
  rw [e6]
  have e7 : (n0 + n1 * 256 + n2 * 65536 + n3 * 16777216 + n4 * 4294967296 + n5 * 1099511627776 + n6 * 281474976710656) ||| n7 * 72057594037927936 = (n0 + n1 * 256 + n2 * 65536 + n3 * 16777216 + n4 * 4294967296 + n5 * 1099511627776 + n6 * 281474976710656) + n7 * 72057594037927936 := or_mul _ n7 56 (by omega)
  rw [e7]

theorem b64_0 (x : UInt64) : (x &&& 0xff).toUInt8 = UInt8.ofNat (x.toNat % 256) := by
  apply UInt8.toNat_inj.mp
  simp [and255]
theorem b64_1 (x : UInt64) : ((x >>> 8) &&& 0xff).toUInt8 = UInt8.ofNat (x.toNat / 256 % 256) := by
  apply UInt8.toNat_inj.mp
  simp [Nat.shiftRight_eq_div_pow, and255]
theorem b64_2 (x : UInt64) : ((x >>> 16) &&& 0xff).toUInt8 = UInt8.ofNat (x.toNat / 256 / 256 % 256) := by
  apply UInt8.toNat_inj.mp
  simp [Nat.shiftRight_eq_div_pow, and255]
  omega
theorem b64_3 (x : UInt64) : ((x >>> 24) &&& 0xff).toUInt8 = UInt8.ofNat (x.toNat / 256 / 256 / 256 % 256) := by
  apply UInt8.toNat_inj.mp
  simp [Nat.shiftRight_eq_div_pow, and255]
  omega
theorem b64_4 (x : UInt64) : ((x >>> 32) &&& 0xff).toUInt8 = UInt8.ofNat (x.toNat / 256 / 256 / 256 / 256 % 256) := by
  apply UInt8.toNat_inj.mp
  simp [Nat.shiftRight_eq_div_pow, and255]
  omega
theorem b64_5 (x : UInt64) : ((x >>> 40) &&& 0xff).toUInt8 = UInt8.ofNat (x.toNat / 256 / 256 / 256 / 256 / 256 % 256) := by
  apply UInt8.toNat_inj.mp
  simp [Nat.shiftRight_eq_div_pow, and255]
  omega
theorem b64_6 (x : UInt64) : ((x >>> 48) &&& 0xff).toUInt8 = UInt8.ofNat (x.toNat / 256 / 256 / 256 / 256 / 256 / 256 % 256) := by
  apply UInt8.toNat_inj.mp
  simp [Nat.shiftRight_eq_div_pow, and255]
  omega
theorem b64_7 (x : UInt64) : ((x >>> 56) &&& 0xff).toUInt8 = UInt8.ofNat (x.toNat / 256 / 256 / 256 / 256 / 256 / 256 / 256 % 256) := by
  apply UInt8.toNat_inj.mp
  simp [Nat.shiftRight_eq_div_pow, and255]
  omega

theorem be64enc_spec (b : Buf) (p : Nat) (x : UInt64) (h : p + 8 ≤ b.size) :
    ∃ b', Endian.be64enc b p x = .ok b' ∧
      b'.toList = b.toList.take p ++ Spec.Endian.beBytes 8 x.toNat ++ b.toList.drop (p + 8) := by
  unfold Endian.be64enc
  rw [b64_0 x, b64_1 x, b64_2 x, b64_3 x, b64_4 x, b64_5 x, b64_6 x, b64_7 x]
  rw [wr_ok _ _ _ (by first | omega | (simp; omega))]; simp only [Res.ok_bind]
  rw [wr_ok _ _ _ (by first | omega | (simp; omega))]; simp only [Res.ok_bind]
  rw [wr_ok _ _ _ (by first | omega | (simp; omega))]; simp only [Res.ok_bind]
  rw [wr_ok _ _ _ (by first | omega | (simp; omega))]; simp only [Res.ok_bind]
  rw [wr_ok _ _ _ (by first | omega | (simp; omega))]; simp only [Res.ok_bind]
  rw [wr_ok _ _ _ (by first | omega | (simp; omega))]; simp only [Res.ok_bind]
  rw [wr_ok _ _ _ (by first | omega | (simp; omega))]; simp only [Res.ok_bind]
  rw [wr_ok _ _ _ (by first | omega | (simp; omega))]
  refine ⟨_, rfl, ?_⟩
  simp only [Array.toList_set]
  have hl : p + 8 ≤ b.toList.length := by simpa using h
  generalize b.toList = l at hl ⊢
  apply splice _ _ _ _ _ (beBytes_length _ _) hl
  · simp
  · intro i hi; simp only [List.getElem?_set]; repeat (rw [if_neg (by omega)])
  · intro i hi; simp only [List.getElem?_set]; repeat (rw [if_neg (by omega)])
  · intro j hj
    have : j = 0 ∨ j = 1 ∨ j = 2 ∨ j = 3 ∨ j = 4 ∨ j = 5 ∨ j = 6 ∨ j = 7 := by omega
    rcases this with rfl | rfl | rfl | rfl | rfl | rfl | rfl | rfl <;>
      simp [List.getElem?_set, Spec.Endian.beBytes, Spec.Endian.leBytes] <;> omega

theorem be64dec_spec (b : Buf) (p : Nat) (h : p + 8 ≤ b.size) :
    Endian.be64dec b p = .ok (UInt64.ofNat (Spec.Endian.beVal ((b.toList.drop p).take 8))) := by
  unfold Endian.be64dec
  rw [rdR_ok _ _ (by omega), rdR_ok _ _ (by omega), rdR_ok _ _ (by omega), rdR_ok _ _ (by omega), rdR_ok _ _ (by omega), rdR_ok _ _ (by omega), rdR_ok _ _ (by omega), rdR_ok _ _ (by omega)]
  simp only [Res.ok_bind]
  rw [take8 _ _ (by simpa using h)]
  congr 1
  apply UInt64.toNat_inj.mp
  simp [Spec.Endian.beVal, Nat.shiftLeft_eq]
  have h0 := (b[p]).toNat_lt
  generalize (b[p]).toNat = a0 at *
  have h1 := (b[p+1]).toNat_lt
  generalize (b[p+1]).toNat = a1 at *
  have h2 := (b[p+2]).toNat_lt
  generalize (b[p+2]).toNat = a2 at *
  have h3 := (b[p+3]).toNat_lt
  generalize (b[p+3]).toNat = a3 at *
  have h4 := (b[p+4]).toNat_lt
  generalize (b[p+4]).toNat = a4 at *
  have h5 := (b[p+5]).toNat_lt
  generalize (b[p+5]).toNat = a5 at *
  have h6 := (b[p+6]).toNat_lt
  generalize (b[p+6]).toNat = a6 at *
  have h7 := (b[p+7]).toNat_lt
  generalize (b[p+7]).toNat = a7 at *
  rw [or8 a7 a6 a5 a4 a3 a2 a1 a0 (by omega) (by omega) (by omega) (by omega) (by omega) (by omega) (by omega) (by omega)]
  omega

theorem le64enc_spec (b : Buf) (p : Nat) (x : UInt64) (h : p + 8 ≤ b.size) :
    ∃ b', Endian.le64enc b p x = .ok b' ∧
      b'.toList = b.toList.take p ++ Spec.Endian.leBytes 8 x.toNat ++ b.toList.drop (p + 8) := by
  unfold Endian.le64enc
  rw [b64_0 x, b64_1 x, b64_2 x, b64_3 x, b64_4 x, b64_5 x, b64_6 x, b64_7 x]
  rw [wr_ok _ _ _ (by first | omega | (simp; omega))]; simp only [Res.ok_bind]
  rw [wr_ok _ _ _ (by first | omega | (simp; omega))]; simp only [Res.ok_bind]
  rw [wr_ok _ _ _ (by first | omega | (simp; omega))]; simp only [Res.ok_bind]
  rw [wr_ok _ _ _ (by first | omega | (simp; omega))]; simp only [Res.ok_bind]
  rw [wr_ok _ _ _ (by first | omega | (simp; omega))]; simp only [Res.ok_bind]
  rw [wr_ok _ _ _ (by first | omega | (simp; omega))]; simp only [Res.ok_bind]
  rw [wr_ok _ _ _ (by first | omega | (simp; omega))]; simp only [Res.ok_bind]
  rw [wr_ok _ _ _ (by first | omega | (simp; omega))]
  refine ⟨_, rfl, ?_⟩
  simp only [Array.toList_set]
  have hl : p + 8 ≤ b.toList.length := by simpa using h
  generalize b.toList = l at hl ⊢
  apply splice _ _ _ _ _ (leBytes_length _ _) hl
  · simp
  · intro i hi; simp only [List.getElem?_set]; repeat (rw [if_neg (by omega)])
  · intro i hi; simp only [List.getElem?_set]; repeat (rw [if_neg (by omega)])
  · intro j hj
    have : j = 0 ∨ j = 1 ∨ j = 2 ∨ j = 3 ∨ j = 4 ∨ j = 5 ∨ j = 6 ∨ j = 7 := by omega
    rcases this with rfl | rfl | rfl | rfl | rfl | rfl | rfl | rfl <;>
      simp [List.getElem?_set, Spec.Endian.leBytes] <;> omega

theorem le64dec_spec (b : Buf) (p : Nat) (h : p + 8 ≤ b.size) :
    Endian.le64dec b p = .ok (UInt64.ofNat (Spec.Endian.leVal ((b.toList.drop p).take 8))) := by
  unfold Endian.le64dec
  rw [rdR_ok _ _ (by omega), rdR_ok _ _ (by omega), rdR_ok _ _ (by omega), rdR_ok _ _ (by omega), rdR_ok _ _ (by omega), rdR_ok _ _ (by omega), rdR_ok _ _ (by omega), rdR_ok _ _ (by omega)]
  simp only [Res.ok_bind]
  rw [take8 _ _ (by simpa using h)]
  congr 1
  apply UInt64.toNat_inj.mp
  simp [Spec.Endian.leVal, Nat.shiftLeft_eq]
  have h0 := (b[p]).toNat_lt
  generalize (b[p]).toNat = a0 at *
  have h1 := (b[p+1]).toNat_lt
  generalize (b[p+1]).toNat = a1 at *
  have h2 := (b[p+2]).toNat_lt
  generalize (b[p+2]).toNat = a2 at *
  have h3 := (b[p+3]).toNat_lt
  generalize (b[p+3]).toNat = a3 at *
  have h4 := (b[p+4]).toNat_lt
  generalize (b[p+4]).toNat = a4 at *
  have h5 := (b[p+5]).toNat_lt
  generalize (b[p+5]).toNat = a5 at *
  have h6 := (b[p+6]).toNat_lt
  generalize (b[p+6]).toNat = a6 at *
  have h7 := (b[p+7]).toNat_lt
  generalize (b[p+7]).toNat = a7 at *
  rw [or8 a0 a1 a2 a3 a4 a5 a6 a7 (by omega) (by omega) (by omega) (by omega) (by omega) (by omega) (by omega) (by omega)]
  omega

end Percival.Proofs.Endian