import Percival.Model.EArray
/-!
# Helper lemmas for the elastic-array model (C12, C14)
-/
namespace Percival.Proofs.EArray
open Percival.Model Percival.Model.EArray Percival.Spec.DS

/-- closes goals that are `True` or a reflexive equation, whichever `simp only` left behind -/
macro "triv" : tactic => `(tactic| first | trivial | rfl)

/-- the representation invariant of `struct elasticarray` -/
structure Inv (a : EA) : Prop where
  le : a.size ≤ a.alloc
  len : a.buf.length = a.alloc
  lt : a.alloc < SZ

/-- "within a factor 4": a quarter of the allocation does not exceed the contents -/
def Tight (a : EA) : Prop := a.alloc / 4 ≤ a.size

theorem SZ_eq : SZ = 18446744073709551616 := by decide
theorem SIZE_MAX_eq : EArray.SIZE_MAX = 18446744073709551615 := by decide
theorem SPEC_SIZE_MAX_eq : Percival.Spec.DS.SIZE_MAX = 18446744073709551615 := by decide

/-! ### `wantAlloc` -/

theorem wantAlloc_ge (al n : Nat) (hal : al < SZ) : n ≤ wantAlloc al n := by
  unfold wantAlloc; simp only [SZ_eq] at *; split <;> (try split) <;> omega

theorem wantAlloc_lt (al n : Nat) (hn : n < SZ) (hal : al < SZ) : wantAlloc al n < SZ := by
  unfold wantAlloc; simp only [SZ_eq] at *; split <;> (try split) <;> omega

theorem wantAlloc_tight (al n : Nat) (hn : n < SZ) (hal : al < SZ) : wantAlloc al n / 4 ≤ n := by
  unfold wantAlloc; simp only [SZ_eq] at *; split <;> (try split) <;> omega

/-- `assert(nsize == 0)` in `resize` cannot fire -/
theorem wantAlloc_zero (al n : Nat) (hal : al < SZ) (h : wantAlloc al n = 0) : n = 0 := by
  have := wantAlloc_ge al n hal; omega

/-- a shrinking `realloc` is requested only when the array is below a quarter of its allocation -/
theorem wantAlloc_shrinks (al n : Nat) (hn : n ≤ al) (h : wantAlloc al n ≠ al) : al / 4 > n := by
  unfold wantAlloc at h; split at h
  · omega
  · split at h <;> omega

/-! ### blocks -/

theorem fit_length (l : List UInt8) (n : Nat) : (fit l n).length = n := by
  simp [fit, List.length_take]; omega

theorem fit_take (l : List UInt8) (n k : Nat) (hk : k ≤ n) (hl : k ≤ l.length) : (fit l n).take k = l.take k := by
  simp only [fit]
  rw [List.take_append_of_le_length (by simp [List.length_take]; omega), List.take_take]
  congr 1; omega

theorem writeAt_length {b : List UInt8} {off : Nat} {src b' : List UInt8} (h : writeAt b off src = some b') :
    b'.length = b.length := by
  unfold writeAt at h; split at h
  · cases h; simp [List.length_take, List.length_drop]; omega
  · cases h

theorem writeAt_some {b : List UInt8} {off : Nat} {src : List UInt8} (h : off + src.length ≤ b.length) :
    writeAt b off src = some (b.take off ++ src ++ b.drop (off + src.length)) := by
  simp [writeAt, h]

/-- bytes before the written range are untouched, the range holds `src` -/
theorem writeAt_take {b : List UInt8} {off : Nat} {src b' : List UInt8} (h : writeAt b off src = some b') :
    b'.take (off + src.length) = b.take off ++ src := by
  unfold writeAt at h; split at h
  · cases h
    rw [List.take_append_of_le_length (by simp [List.length_take]; omega)]
    rw [List.take_of_length_le (by simp [List.length_take]; omega)]
  · cases h

theorem writeAt_drop {b : List UInt8} {off : Nat} {src b' : List UInt8} (h : writeAt b off src = some b') :
    b'.drop (off + src.length) = b.drop (off + src.length) := by
  unfold writeAt at h; split at h
  · cases h
    rw [List.drop_append_of_le_length (by simp [List.length_take]; omega)]
    rw [List.drop_of_length_le (by simp [List.length_take]; omega)]
    simp
  · cases h

theorem pair_eta {α β : Type} (p : α × β) {x : α} (h : p.1 = x) : p = (x, p.2) := by
  cases p; simp_all

/-! ### the allocation oracle -/

theorem malloc_ok {m : Mem} {sz : Nat} (h : (m.malloc sz).1 = true) :
    (m.malloc sz).2.refusals = m.refusals ∧ (m.malloc sz).2.live = m.live + 1 ∧
    (m.malloc sz).2.f = m.f ∧ (m.malloc sz).2.n = m.n + 1 := by
  simp only [Mem.malloc] at *; simp [h]

theorem malloc_fail {m : Mem} {sz : Nat} (h : (m.malloc sz).1 = false) :
    (m.malloc sz).2.refusals = m.refusals + 1 ∧ (m.malloc sz).2.live = m.live ∧
    (m.malloc sz).2.f = m.f ∧ (m.malloc sz).2.n = m.n + 1 := by
  simp only [Mem.malloc] at *; simp [h]

theorem realloc_ok {m : Mem} {w : Bool} {sz : Nat} (h : (m.realloc w sz).1 = true) :
    (m.realloc w sz).2.refusals = m.refusals ∧ (m.realloc w sz).2.live = m.live + (if w then 1 else 0) ∧
    (m.realloc w sz).2.f = m.f ∧ (m.realloc w sz).2.n = m.n + 1 := by
  simp only [Mem.realloc] at *; cases w <;> simp [h]

theorem realloc_fail {m : Mem} {w : Bool} {sz : Nat} (h : (m.realloc w sz).1 = false) :
    (m.realloc w sz).2.refusals = m.refusals + 1 ∧ (m.realloc w sz).2.live = m.live ∧
    (m.realloc w sz).2.f = m.f ∧ (m.realloc w sz).2.n = m.n + 1 := by
  simp only [Mem.realloc] at *; simp [h]

theorem free_facts (m : Mem) (isNull : Bool) :
    (m.free isNull).refusals = m.refusals ∧ (m.free isNull).live = m.live - (if isNull then 0 else 1) ∧
    (m.free isNull).f = m.f ∧ (m.free isNull).n = m.n := by
  cases isNull <;> simp [Mem.free]

/-! ### `resize` -/

/-- number of heap blocks hanging off the structure (its buffer, if any) -/
def bufBlocks (a : EA) : Int := if a.alloc = 0 then 0 else 1

theorem resize_spec (a : EA) (n : Nat) (m : Mem) (h : Inv a) (hn : n < SZ) :
    Inv (resize a n m).2.1 ∧
    ((resize a n m).1 = true →
      (resize a n m).2.1.size = n ∧ Tight (resize a n m).2.1 ∧ (resize a n m).2.2.refusals = m.refusals ∧
      (resize a n m).2.1.buf.take (min a.size n) = a.buf.take (min a.size n)) ∧
    ((resize a n m).1 = false →
      (resize a n m).2.1 = a ∧ (resize a n m).2.2.refusals = m.refusals + 1 ∧ (n ≤ a.alloc → a.alloc / 4 > n)) ∧
    (resize a n m).2.2.live + bufBlocks a = m.live + bufBlocks (resize a n m).2.1 := by
  obtain ⟨hle, hlen, hlt⟩ := h
  have hge := wantAlloc_ge a.alloc n hlt
  have hlt' := wantAlloc_lt a.alloc n hn hlt
  have htight := wantAlloc_tight a.alloc n hn hlt
  unfold resize
  by_cases h0 : wantAlloc a.alloc n = 0
  · have hn0 : n = 0 := by omega
    simp only [h0, if_true]
    refine ⟨⟨by simp [hn0], by simp, by simp [SZ_eq]⟩, ?_, by simp, ?_⟩
    · intro _; refine ⟨by simp, by simp [Tight], by simpa using (free_facts _ _).1, by simp [hn0]⟩
    · have := (free_facts m (a.alloc == 0)).2.1
      simp only [bufBlocks]; by_cases ha : a.alloc = 0 <;> simp [ha] at this ⊢ <;> omega
  · simp only [h0, if_false]
    by_cases hne : wantAlloc a.alloc n = a.alloc
    · simp only [hne, ne_eq, not_true_eq_false, if_false]
      refine ⟨⟨by simp; omega, hlen, hlt⟩, ?_, by simp, by simp [bufBlocks]⟩
      intro _; exact ⟨by simp, by simp only [Tight]; omega, by simp, by simp⟩
    · simp only [ne_eq, hne, not_false_eq_true, if_true]
      cases hr : (m.realloc (a.alloc == 0) (wantAlloc a.alloc n)).1
      · -- refused
        have hf := realloc_fail hr
        have hs := wantAlloc_shrinks a.alloc n
        rw [pair_eta _ hr]
        refine ⟨⟨hle, hlen, hlt⟩, by simp, ?_, by simp [hf.2.1]⟩
        intro _; exact ⟨rfl, hf.1, fun hna => hs hna hne⟩
      · have hf := realloc_ok hr
        rw [pair_eta _ hr]
        refine ⟨⟨hge, fit_length _ _, hlt'⟩, ?_, by simp, ?_⟩
        · intro _
          refine ⟨rfl, htight, hf.1, ?_⟩
          exact fit_take _ _ _ (by omega) (by omega)
        · simp only [bufBlocks, h0, if_false, hf.2.1]
          by_cases ha : a.alloc = 0 <;> simp [ha]

/-! ### abstraction -/

theorem abs_length {a : EA} (h : Inv a) : (abs a).bytes.length = a.size := by
  simp [abs, List.length_take, h.len]; exact Nat.min_eq_left h.le

theorem shape_abs {a : EA} (h : Inv a) (st : St) (m m' : Mem) (out : Option (List UInt8 × Nat)) :
    eaCheck (abs a) (ans st a m m' out) = some (abs a) := by
  have hl := abs_length h
  have := h.le
  simp only [eaCheck, eaShape, ans, hl, tight]
  by_cases ht : a.alloc / 4 ≤ a.size <;> simp [abs, ht, this] <;> omega

theorem abs_tight {a : EA} (ht : Tight a) : (abs a).loose = false := by
  simp only [abs, Tight] at *; simp; omega

/-- `nrec > SIZE_MAX / reclen` is exactly "the product does not fit `size_t`" -/
theorem guard_iff (n : Nat) (r : RecLen) : n > EArray.SIZE_MAX / r.val ↔ n * r.val > EArray.SIZE_MAX := by
  have := r.property
  constructor
  · intro h; exact (Nat.div_lt_iff_lt_mul this).1 h
  · intro h; exact (Nat.div_lt_iff_lt_mul this).2 h

theorem resizeRec_spec (a : EA) (n : Nat) (r : RecLen) (m : Mem) (h : Inv a) :
    Inv (resizeRec a n r m).2.1 ∧
    ((resizeRec a n r m).1 = true →
      n * r.val ≤ EArray.SIZE_MAX ∧
      (resizeRec a n r m).2.1.size = n * r.val ∧ Tight (resizeRec a n r m).2.1 ∧
      (resizeRec a n r m).2.2.refusals = m.refusals ∧
      (resizeRec a n r m).2.1.buf.take (min a.size (n * r.val)) = a.buf.take (min a.size (n * r.val))) ∧
    ((resizeRec a n r m).1 = false →
      (resizeRec a n r m).2.1 = a ∧
      ((resizeRec a n r m).2.2.refusals = m.refusals + 1 ∨
       ((resizeRec a n r m).2.2.refusals = m.refusals ∧ n * r.val > EArray.SIZE_MAX))) ∧
    (resizeRec a n r m).2.2.live + bufBlocks a = m.live + bufBlocks (resizeRec a n r m).2.1 := by
  unfold resizeRec
  by_cases hg : n > EArray.SIZE_MAX / r.val
  · simp only [hg, if_true]
    exact ⟨h, by simp, fun _ => ⟨by simp, Or.inr ⟨by simp, (guard_iff n r).1 hg⟩⟩, by simp⟩
  · simp only [hg, if_false]
    have hle : n * r.val ≤ EArray.SIZE_MAX := by
      have : ¬ n * r.val > EArray.SIZE_MAX := fun h' => hg ((guard_iff n r).2 h')
      omega
    have hmod : n * r.val % SZ = n * r.val := Nat.mod_eq_of_lt (by simp only [SZ_eq, SIZE_MAX_eq] at *; omega)
    rw [hmod]
    have hs := resize_spec a (n * r.val) m h (by simp only [SZ_eq, SIZE_MAX_eq] at *; omega)
    refine ⟨hs.1, fun hok => ⟨hle, hs.2.1 hok⟩, fun hf => ?_, hs.2.2.2⟩
    have := hs.2.2.1 hf
    exact ⟨this.1, Or.inl this.2.1⟩

end Percival.Proofs.EArray
