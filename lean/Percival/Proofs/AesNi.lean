import Percival.Model.AesNi
import Percival.Proofs.Aes
/-! Helper lemmas for the AES-NI part of C02: the instruction-level model of `crypto_aes_aesni.c` computes
FIPS-197's key schedule and cipher. -/
namespace Percival.Proofs.AesNi
open Percival.Spec Percival.Spec.Aes Percival.Model.AesNi Percival.Gen Percival.Proofs.Aes

/-! ## rounds -/

theorem rounds_cons (rk : List UInt8) (rest : List (List UInt8)) (s : List UInt8) (h : rest ≠ []) :
    rounds (rk :: rest) s = rounds rest (round s rk) := by
  match rest, h with
  | r :: rs, _ => rfl

theorem aesenc_eq_round (s rk : List UInt8) (hs : s.length = 16) : aesenc s rk = round s rk := by
  unfold aesenc round addRoundKey pxor
  rw [shiftRows_subBytes s hs]

theorem aesenclast_eq_finalRound (s rk : List UInt8) (hs : s.length = 16) : aesenclast s rk = finalRound s rk := by
  unfold aesenclast finalRound addRoundKey pxor
  rw [shiftRows_subBytes s hs]

/-- a run of AESENCs followed by AESENCLAST is FIPS-197's `rounds` -/
theorem foldl_aesenc : ∀ (ks : List (List UInt8)) (last st : List UInt8), st.length = 16 →
    (∀ k ∈ ks, k.length = 16) → rounds (ks ++ [last]) st = aesenclast (ks.foldl aesenc st) last
  | [], last, st, hs, _ => by
    rw [List.nil_append, List.foldl_nil, aesenclast_eq_finalRound _ _ hs]; rfl
  | k :: ks, last, st, hs, hk => by
    rw [List.cons_append, rounds_cons _ _ _ (by simp), List.foldl_cons, aesenc_eq_round _ _ hs]
    exact foldl_aesenc ks last _ (round_length _ _ hs (hk k (by simp))) (fun x hx => hk x (by simp [hx]))

/-! ## key schedule, Nk = 4 -/

/-- the four words `w[i..i+3]` that FIPS-197 derives from the window `w[i-4..i-1]` (Nk = 4) -/
def next4 (i : Nat) (w0 w1 w2 w3 : List UInt8) : List (List UInt8) :=
  let w4 := nextWord 4 i w3 w0
  let w5 := nextWord 4 (i + 1) w4 w1
  let w6 := nextWord 4 (i + 2) w5 w2
  let w7 := nextWord 4 (i + 3) w6 w3
  [w4, w5, w6, w7]

theorem expandLoop4_step (n i : Nat) (w0 w1 w2 w3 : List UInt8) :
    expandLoop 4 (n + 4) i [w0, w1, w2, w3] =
      next4 i w0 w1 w2 w3 ++ expandLoop 4 n (i + 4) (next4 i w0 w1 w2 w3) := by
  simp [expandLoop, next4]

/-- `MKRKEY128` = one FIPS-197 round-key step -/
theorem mkrkey128_eq_fips (m : Nat) (a0 a1 a2 a3 a4 a5 a6 a7 a8 a9 a10 a11 a12 a13 a14 a15 : UInt8) :
    next4 (4 * m) [a0,a1,a2,a3] [a4,a5,a6,a7] [a8,a9,a10,a11] [a12,a13,a14,a15] =
    chunks 4 4 (mkrkey [a0,a1,a2,a3,a4,a5,a6,a7,a8,a9,a10,a11,a12,a13,a14,a15]
           [a0,a1,a2,a3,a4,a5,a6,a7,a8,a9,a10,a11,a12,a13,a14,a15] [4, 8] 0xff (rconByte m)) := by
  have h0 : 4 * m % 4 = 0 := by omega
  have hd : 4 * m / 4 = m := by omega
  simp [next4, nextWord, h0, hd, mkrkey, pxor, pslldq, pshufd, aeskeygenassist, dword, xorBytes, subWord,
    rotWord, rcon, chunks]
  simp only [UInt8.xor_assoc, and_self]

/-- successive round keys, each from its predecessor -/
def chain1 (sh : List Nat) (shuf : UInt8) : List UInt8 → List UInt8 → List (List UInt8)
  | _, [] => []
  | rk, rc :: rcs => mkrkey rk rk sh shuf rc :: chain1 sh shuf (mkrkey rk rk sh shuf rc) rcs

theorem chunks44_flatten (rk : List UInt8) (h : rk.length = 16) : (chunks 4 4 rk).flatten = rk := by
  obtain ⟨a0, a1, a2, a3, a4, a5, a6, a7, a8, a9, a10, a11, a12, a13, a14, a15, rfl⟩ := len16 rk h
  rfl

theorem chunks44_length (rk : List UInt8) (h : rk.length = 16) : ∀ w ∈ chunks 4 4 rk, w.length = 4 :=
  (chunks_spec 4 4 rk (by omega)).2

theorem mkrkey128_step (m : Nat) (rk : List UInt8) (h : rk.length = 16) :
    ∃ w0 w1 w2 w3, chunks 4 4 rk = [w0, w1, w2, w3] ∧
      next4 (4 * m) w0 w1 w2 w3 = chunks 4 4 (mkrkey rk rk [4, 8] 0xff (rconByte m)) ∧
      (mkrkey rk rk [4, 8] 0xff (rconByte m)).length = 16 := by
  obtain ⟨a0, a1, a2, a3, a4, a5, a6, a7, a8, a9, a10, a11, a12, a13, a14, a15, rfl⟩ := len16 rk h
  refine ⟨[a0,a1,a2,a3], [a4,a5,a6,a7], [a8,a9,a10,a11], [a12,a13,a14,a15], rfl, mkrkey128_eq_fips m .., ?_⟩
  simp [mkrkey, pxor, pslldq, pshufd, aeskeygenassist, dword, xorBytes, subWord, rotWord]

/-- FIPS-197 expansion (Nk = 4) from round key `m-1` onwards = the chain of `MKRKEY128`s -/
theorem expand128_chain : ∀ (n m : Nat) (rk : List UInt8), rk.length = 16 →
    expandLoop 4 (4 * n) (4 * m) (chunks 4 4 rk) =
      (chain1 [4, 8] 0xff rk ((List.range' m n).map rconByte)).flatMap (chunks 4 4)
  | 0, _, _, _ => by simp [expandLoop, chain1]
  | n+1, m, rk, h => by
    obtain ⟨w0, w1, w2, w3, hw, hstep, hlen⟩ := mkrkey128_step m rk h
    have : 4 * (n + 1) = 4 * n + 4 := by omega
    rw [this, hw, expandLoop4_step, hstep, List.range'_succ, List.map_cons, chain1, List.flatMap_cons]
    congr 1
    have := expand128_chain n (m + 1) _ hlen
    have h4 : 4 * (m + 1) = 4 * m + 4 := by omega
    rw [h4] at this
    exact this

/-- re-cutting the words of 16-byte round keys into 16-byte pieces gives the round keys back -/
theorem chunks16_flatMap : ∀ (rks : List (List UInt8)), (∀ rk ∈ rks, rk.length = 16) →
    chunks 16 rks.length (rks.flatMap (chunks 4 4)).flatten = rks
  | [], _ => rfl
  | rk :: rks, h => by
    have h16 := h rk (by simp)
    rw [List.flatMap_cons, List.flatten_append, chunks44_flatten rk h16, List.length_cons]
    unfold chunks
    rw [List.take_left' h16, List.drop_left' h16, chunks16_flatMap rks (fun x hx => h x (by simp [hx]))]

theorem chain1_length (sh : List Nat) (shuf : UInt8) : ∀ (rcs : List UInt8) (rk : List UInt8),
    (chain1 sh shuf rk rcs).length = rcs.length
  | [], _ => rfl
  | _ :: rcs, _ => by simp [chain1, chain1_length sh shuf rcs]

theorem chain1_all16 : ∀ (rcs : List UInt8) (rk : List UInt8), rk.length = 16 →
    ∀ x ∈ chain1 [4, 8] 0xff rk rcs, x.length = 16
  | [], _, _ => by simp [chain1]
  | rc :: rcs, rk, h => by
    have hl : (mkrkey rk rk [4, 8] 0xff rc).length = 16 := by
      obtain ⟨a0, a1, a2, a3, a4, a5, a6, a7, a8, a9, a10, a11, a12, a13, a14, a15, rfl⟩ := len16 rk h
      simp [mkrkey, pxor, pslldq, pshufd, aeskeygenassist, dword, xorBytes, subWord, rotWord]
    intro x hx
    rcases List.mem_cons.mp hx with rfl | hx
    · exact hl
    · exact chain1_all16 rcs _ hl x hx

/-- the loop of macro invocations, as a chain -/
theorem foldlM_mkStep1 (sh : List Nat) (shuf : UInt8) : ∀ (calls : List (Nat × UInt8)) (pre : List (List UInt8))
    (rk : List UInt8), calls.map (·.1) = List.range' (pre.length + 1) calls.length →
    pre.length + 1 + calls.length ≤ 15 →
    calls.foldlM (fun rks c => mkStep 1 1 sh rks c.1 shuf c.2) (pre ++ [rk]) =
      some (pre ++ [rk] ++ chain1 sh shuf rk (calls.map (·.2)))
  | [], pre, rk, _, _ => by simp [chain1]
  | c :: calls, pre, rk, hidx, hlim => by
    rw [List.map_cons, List.length_cons, List.range'_succ, List.cons.injEq] at hidx
    obtain ⟨hc, hrest⟩ := hidx
    rw [List.foldlM_cons]
    have hstep : mkStep 1 1 sh (pre ++ [rk]) c.1 shuf c.2 = some ((pre ++ [rk]) ++ [mkrkey rk rk sh shuf c.2]) := by
      unfold mkStep
      simp only [List.length_cons, List.length_append, List.length_nil] at hlim ⊢
      rw [if_pos (by omega)]
      have : (pre ++ [rk])[c.1 - 1]? = some rk := by
        rw [hc]; simp
      rw [this]
    rw [hstep]
    simp only [bind, Option.bind]
    have := foldlM_mkStep1 sh shuf calls (pre ++ [rk]) (mkrkey rk rk sh shuf c.2)
      (by simpa using hrest) (by simp at hlim ⊢; omega)
    rw [this]
    simp [chain1]

theorem gen128_idx : AesConst.mkrkey128Calls.map (·.1) = List.range' 1 AesConst.mkrkey128Calls.length := by decide
theorem gen128_rcon : AesConst.mkrkey128Calls.map (·.2) = (List.range' 1 10).map rconByte := by decide

theorem keyExpand128_eq_fips (key : List UInt8) (h : key.length = 16) :
    keyExpand128 key = some (Aes.keyExpansion key) := by
  unfold keyExpand128
  rw [List.take_of_length_le (by omega)]
  have hm := foldlM_mkStep1 AesConst.slli128 AesConst.shuffle128 AesConst.mkrkey128Calls [] key
    (by simpa using gen128_idx) (by decide)
  simp only [List.nil_append] at hm
  show AesConst.mkrkey128Calls.foldlM (fun rks c => mkStep 1 1 AesConst.slli128 rks c.1 AesConst.shuffle128 c.2) [key] = _
  rw [hm, gen128_rcon]
  congr 1
  -- the FIPS side
  unfold keyExpansion
  rw [if_pos (Or.inl h)]
  simp only [keyWords, h]
  have he := expand128_chain 10 1 key h
  simp only [Nat.reduceMul, Nat.reduceAdd, Nat.reduceDiv, Nat.reduceSub] at he ⊢
  rw [he]
  have hall : ∀ rk ∈ key :: chain1 [4, 8] 0xff key ((List.range' 1 10).map rconByte), rk.length = 16 := by
    intro rk hrk
    rcases List.mem_cons.mp hrk with rfl | hrk
    · exact h
    · exact chain1_all16 _ _ h rk hrk
  have := chunks16_flatMap _ hall
  rw [List.flatMap_cons, List.length_cons, chain1_length] at this
  simp only [List.length_map, List.length_range'] at this
  exact this.symm

/-! ## key schedule, Nk = 8 -/

/-- the four words `w[i..i+3]` from the window `w[i-8..i-1]` (Nk = 8) -/
def next4' (i : Nat) (w0 w1 w2 w3 w7 : List UInt8) : List (List UInt8) :=
  let w8 := nextWord 8 i w7 w0
  let w9 := nextWord 8 (i + 1) w8 w1
  let w10 := nextWord 8 (i + 2) w9 w2
  let w11 := nextWord 8 (i + 3) w10 w3
  [w8, w9, w10, w11]

theorem expandLoop8_step (n i : Nat) (w0 w1 w2 w3 w4 w5 w6 w7 : List UInt8) :
    expandLoop 8 (n + 4) i [w0, w1, w2, w3, w4, w5, w6, w7] =
      next4' i w0 w1 w2 w3 w7 ++ expandLoop 8 n (i + 4) ([w4, w5, w6, w7] ++ next4' i w0 w1 w2 w3 w7) := by
  simp [expandLoop, next4']

/-- `MKRKEY256(…, 0xff, rcon)` (even round keys): RotWord/SubWord/Rcon step -/
theorem mkrkey256_even (m : Nat) (a0 a1 a2 a3 a4 a5 a6 a7 a8 a9 a10 a11 a12 a13 a14 a15 : UInt8)
    (b0 b1 b2 b3 b4 b5 b6 b7 b8 b9 b10 b11 b12 b13 b14 b15 : UInt8) :
    next4' (8 * m) [a0,a1,a2,a3] [a4,a5,a6,a7] [a8,a9,a10,a11] [a12,a13,a14,a15] [b12,b13,b14,b15] =
    chunks 4 4 (mkrkey [a0,a1,a2,a3,a4,a5,a6,a7,a8,a9,a10,a11,a12,a13,a14,a15]
           [b0,b1,b2,b3,b4,b5,b6,b7,b8,b9,b10,b11,b12,b13,b14,b15] [4, 8] 0xff (rconByte m)) := by
  have h0 : 8 * m % 8 = 0 := by omega
  have h1 : (8 * m + 1) % 8 = 1 := by omega
  have h2 : (8 * m + 2) % 8 = 2 := by omega
  have h3 : (8 * m + 3) % 8 = 3 := by omega
  have hd : 8 * m / 8 = m := by omega
  simp [next4', nextWord, h0, h1, h2, h3, hd, mkrkey, pxor, pslldq, pshufd, aeskeygenassist, dword, xorBytes, subWord,
    rotWord, rcon, chunks]
  simp only [UInt8.xor_assoc, and_self]

/-- `MKRKEY256(…, 0xaa, rcon)` (odd round keys): SubWord-only step; `rcon` is irrelevant -/
theorem mkrkey256_odd (m : Nat) (rc : UInt8) (a0 a1 a2 a3 a4 a5 a6 a7 a8 a9 a10 a11 a12 a13 a14 a15 : UInt8)
    (b0 b1 b2 b3 b4 b5 b6 b7 b8 b9 b10 b11 b12 b13 b14 b15 : UInt8) :
    next4' (8 * m + 4) [a0,a1,a2,a3] [a4,a5,a6,a7] [a8,a9,a10,a11] [a12,a13,a14,a15] [b12,b13,b14,b15] =
    chunks 4 4 (mkrkey [a0,a1,a2,a3,a4,a5,a6,a7,a8,a9,a10,a11,a12,a13,a14,a15]
           [b0,b1,b2,b3,b4,b5,b6,b7,b8,b9,b10,b11,b12,b13,b14,b15] [4, 8] 0xaa rc) := by
  have h0 : (8 * m + 4) % 8 = 4 := by omega
  have h1 : (8 * m + 4 + 1) % 8 = 5 := by omega
  have h2 : (8 * m + 4 + 2) % 8 = 6 := by omega
  have h3 : (8 * m + 4 + 3) % 8 = 7 := by omega
  simp [next4', nextWord, h0, h1, h2, h3, mkrkey, pxor, pslldq, pshufd, aeskeygenassist, dword, xorBytes, subWord,
    rotWord, chunks]
  simp only [UInt8.xor_assoc, and_self]

theorem pslldq_length (a : List UInt8) (n : Nat) (h : a.length = 16) : (pslldq a n).length = 16 := by
  simp [pslldq, h]

theorem dword_length (a : List UInt8) (j : Nat) (h : a.length = 16) (hj : j < 4) : (dword a j).length = 4 := by
  simp [dword, h]; omega

theorem aeskeygenassist_length (a : List UInt8) (imm : UInt8) (h : a.length = 16) :
    (aeskeygenassist a imm).length = 16 := by
  have h1 := dword_length a 1 h (by omega)
  have h3 := dword_length a 3 h (by omega)
  simp [aeskeygenassist, pxor, xorBytes, subWord, rotWord_length, h1, h3]

theorem pshufd_length (a : List UInt8) (imm : UInt8) (h : a.length = 16) : (pshufd a imm).length = 16 := by
  simp [pshufd, dword_length a _ h (Nat.mod_lt _ (by omega : 4 > 0))]

theorem mkrkey_length (a b : List UInt8) (shuf rc : UInt8) (ha : a.length = 16) (hb : b.length = 16) :
    (mkrkey a b [4, 8] shuf rc).length = 16 := by
  simp [mkrkey, pxor, xorBytes, pslldq_length, ha, pshufd_length, aeskeygenassist_length, hb]

/-- successive round keys, each from its two predecessors -/
def chain2 (sh : List Nat) : List UInt8 → List UInt8 → List (UInt8 × UInt8) → List (List UInt8)
  | _, _, [] => []
  | a, b, c :: cs => mkrkey a b sh c.1 c.2 :: chain2 sh b (mkrkey a b sh c.1 c.2) cs

/-- the immediates fit FIPS-197 from round key `j` on: even `j`: shuffle 0xff and `rcon = Rcon[j/2]`;
    odd `j`: shuffle 0xaa -/
def good256 : Nat → List (UInt8 × UInt8) → Bool
  | _, [] => true
  | j, c :: cs => (if j % 2 = 0 then c.1 == 0xff && c.2 == rconByte (j / 2) else c.1 == 0xaa) && good256 (j + 1) cs

theorem mkrkey256_step (j : Nat) (a b : List UInt8) (ha : a.length = 16) (hb : b.length = 16) (shuf rc : UInt8)
    (hg : (if j % 2 = 0 then shuf == 0xff && rc == rconByte (j / 2) else shuf == 0xaa) = true) :
    ∃ w0 w1 w2 w3 w4 w5 w6 w7, chunks 4 4 a = [w0, w1, w2, w3] ∧ chunks 4 4 b = [w4, w5, w6, w7] ∧
      next4' (4 * j) w0 w1 w2 w3 w7 = chunks 4 4 (mkrkey a b [4, 8] shuf rc) := by
  obtain ⟨a0, a1, a2, a3, a4, a5, a6, a7, a8, a9, a10, a11, a12, a13, a14, a15, rfl⟩ := len16 a ha
  obtain ⟨b0, b1, b2, b3, b4, b5, b6, b7, b8, b9, b10, b11, b12, b13, b14, b15, rfl⟩ := len16 b hb
  refine ⟨[a0,a1,a2,a3], [a4,a5,a6,a7], [a8,a9,a10,a11], [a12,a13,a14,a15],
    [b0,b1,b2,b3], [b4,b5,b6,b7], [b8,b9,b10,b11], [b12,b13,b14,b15], rfl, rfl, ?_⟩
  by_cases hpar : j % 2 = 0
  · rw [if_pos hpar] at hg
    simp only [Bool.and_eq_true, beq_iff_eq] at hg
    obtain ⟨rfl, rfl⟩ := hg
    have h4 : 4 * j = 8 * (j / 2) := by omega
    rw [h4]
    exact mkrkey256_even (j / 2) ..
  · rw [if_neg hpar] at hg
    simp only [beq_iff_eq] at hg
    subst hg
    have h4 : 4 * j = 8 * (j / 2) + 4 := by omega
    rw [h4]
    exact mkrkey256_odd (j / 2) rc ..

/-- FIPS-197 expansion (Nk = 8) from round key `j` onwards = the chain of `MKRKEY256`s -/
theorem expand256_chain : ∀ (cs : List (UInt8 × UInt8)) (j : Nat) (a b : List UInt8), a.length = 16 → b.length = 16 →
    good256 j cs = true →
    expandLoop 8 (4 * cs.length) (4 * j) (chunks 4 4 a ++ chunks 4 4 b) =
      (chain2 [4, 8] a b cs).flatMap (chunks 4 4)
  | [], _, _, _, _, _, _ => by simp [expandLoop, chain2]
  | c :: cs, j, a, b, ha, hb, hg => by
    unfold good256 at hg
    rw [Bool.and_eq_true] at hg
    obtain ⟨w0, w1, w2, w3, w4, w5, w6, w7, hwa, hwb, hstep⟩ := mkrkey256_step j a b ha hb c.1 c.2 hg.1
    have hl := mkrkey_length a b c.1 c.2 ha hb
    have : 4 * (c :: cs).length = 4 * cs.length + 4 := by simp; omega
    rw [this, hwa, hwb]
    show expandLoop 8 (4 * cs.length + 4) (4 * j) [w0, w1, w2, w3, w4, w5, w6, w7] = _
    rw [expandLoop8_step, hstep, chain2, List.flatMap_cons]
    congr 1
    have ih := expand256_chain cs (j + 1) b _ hb hl hg.2
    have h4 : 4 * (j + 1) = 4 * j + 4 := by omega
    rw [h4, hwb] at ih
    exact ih

theorem chain2_length (sh : List Nat) : ∀ (cs : List (UInt8 × UInt8)) (a b : List UInt8),
    (chain2 sh a b cs).length = cs.length
  | [], _, _ => rfl
  | _ :: cs, _, _ => by simp [chain2, chain2_length sh cs]

theorem chain2_all16 : ∀ (cs : List (UInt8 × UInt8)) (a b : List UInt8), a.length = 16 → b.length = 16 →
    ∀ x ∈ chain2 [4, 8] a b cs, x.length = 16
  | [], _, _, _, _ => by simp [chain2]
  | c :: cs, a, b, ha, hb => by
    have hl := mkrkey_length a b c.1 c.2 ha hb
    intro x hx
    rcases List.mem_cons.mp hx with rfl | hx
    · exact hl
    · exact chain2_all16 cs b _ hb hl x hx

theorem foldlM_mkStep2 (sh : List Nat) : ∀ (calls : List (Nat × UInt8 × UInt8)) (pre : List (List UInt8))
    (a b : List UInt8), calls.map (·.1) = List.range' (pre.length + 2) calls.length →
    pre.length + 2 + calls.length ≤ 15 →
    calls.foldlM (fun rks c => mkStep 2 1 sh rks c.1 c.2.1 c.2.2) (pre ++ [a, b]) =
      some (pre ++ [a, b] ++ chain2 sh a b (calls.map (·.2)))
  | [], pre, a, b, _, _ => by simp [chain2]
  | c :: calls, pre, a, b, hidx, hlim => by
    rw [List.map_cons, List.length_cons, List.range'_succ, List.cons.injEq] at hidx
    obtain ⟨hc, hrest⟩ := hidx
    rw [List.foldlM_cons]
    have hstep : mkStep 2 1 sh (pre ++ [a, b]) c.1 c.2.1 c.2.2 =
        some ((pre ++ [a, b]) ++ [mkrkey a b sh c.2.1 c.2.2]) := by
      unfold mkStep
      simp only [List.length_cons, List.length_append, List.length_nil] at hlim ⊢
      rw [if_pos (by omega)]
      have h1 : (pre ++ [a, b])[c.1 - 2]? = some a := by rw [hc]; simp
      have h2 : (pre ++ [a, b])[c.1 - 1]? = some b := by
        rw [hc]
        have : pre.length + 2 - 1 = pre.length + 1 := by omega
        rw [this, List.getElem?_append_right (by omega)]
        simp
      rw [h1, h2]
    rw [hstep]
    simp only [bind, Option.bind]
    have := foldlM_mkStep2 sh calls (pre ++ [a]) b (mkrkey a b sh c.2.1 c.2.2)
      (by simpa using hrest) (by simp at hlim ⊢; omega)
    simp only [List.append_assoc, List.cons_append, List.nil_append] at this ⊢
    rw [this]
    simp [chain2]

theorem gen256_idx : AesConst.mkrkey256Calls.map (·.1) = List.range' 2 AesConst.mkrkey256Calls.length := by decide
theorem gen256_good : good256 2 (AesConst.mkrkey256Calls.map (·.2)) = true := by decide

theorem keyExpand256_eq_fips (key : List UInt8) (h : key.length = 32) :
    keyExpand256 key = some (Aes.keyExpansion key) := by
  unfold keyExpand256
  have ha : (key.take 16).length = 16 := by simp [h]
  have hb : ((key.drop 16).take 16).length = 16 := by simp [h]
  have hm := foldlM_mkStep2 AesConst.slli256 AesConst.mkrkey256Calls [] (key.take 16) ((key.drop 16).take 16)
    (by simpa using gen256_idx) (by decide)
  simp only [List.nil_append] at hm
  show AesConst.mkrkey256Calls.foldlM (fun rks c => mkStep 2 1 AesConst.slli256 rks c.1 c.2.1 c.2.2)
    [key.take 16, (key.drop 16).take 16] = _
  rw [hm]
  congr 1
  unfold keyExpansion
  rw [if_pos (Or.inr h)]
  simp only [keyWords, h]
  have hw0 : chunks 4 8 key = chunks 4 4 (key.take 16) ++ chunks 4 4 ((key.drop 16).take 16) := by
    simp [chunks, List.take_take, List.drop_drop, List.take_drop]
  have hlen : (AesConst.mkrkey256Calls.map (·.2)).length = 13 := by decide
  have he := expand256_chain (AesConst.mkrkey256Calls.map (·.2)) 2 _ _ ha hb gen256_good
  rw [hlen] at he
  simp only [Nat.reduceMul, Nat.reduceAdd, Nat.reduceDiv, Nat.reduceSub] at he ⊢
  rw [hw0, he]
  have hall : ∀ rk ∈ key.take 16 :: (key.drop 16).take 16 ::
      chain2 [4, 8] (key.take 16) ((key.drop 16).take 16) (AesConst.mkrkey256Calls.map (·.2)), rk.length = 16 := by
    intro rk hrk
    rcases List.mem_cons.mp hrk with rfl | hrk
    · exact ha
    · rcases List.mem_cons.mp hrk with rfl | hrk
      · exact hb
      · exact chain2_all16 _ _ _ ha hb rk hrk
  have := chunks16_flatMap _ hall
  rw [List.flatMap_cons, List.flatMap_cons, List.length_cons, List.length_cons, chain2_length, hlen] at this
  simp only [Nat.reduceAdd] at this
  exact this.symm

/-! ## block encryption -/

theorem encryptBlock_eq_cipher_10 (k0 k1 k2 k3 k4 k5 k6 k7 k8 k9 k10 blk : List UInt8)
    (hall : ∀ rk ∈ [k0, k1, k2, k3, k4, k5, k6, k7, k8, k9, k10], rk.length = 16) (hb : blk.length = 16) :
    encryptBlock blk ⟨[k0, k1, k2, k3, k4, k5, k6, k7, k8, k9, k10], 10⟩ =
      some (cipher [k0, k1, k2, k3, k4, k5, k6, k7, k8, k9, k10] blk) := by
  have hc : cipher [k0, k1, k2, k3, k4, k5, k6, k7, k8, k9, k10] blk =
      rounds ([k1, k2, k3, k4, k5, k6, k7, k8, k9] ++ [k10]) (addRoundKey blk k0) := by
    simp [cipher, hb]
  have h0 : (addRoundKey blk k0).length = 16 := by
    simp [addRoundKey, xorBytes, hb, hall k0 (by simp)]
  rw [hc, foldl_aesenc _ _ _ h0 (fun k hk => hall k (List.mem_cons_of_mem _ (List.mem_append_left _ hk)))]
  simp [Model.AesNi.encryptBlock, AesConst.aesencIdx, List.foldlM, pxor, addRoundKey]


theorem encryptBlock_eq_cipher_14 (k0 k1 k2 k3 k4 k5 k6 k7 k8 k9 k10 k11 k12 k13 k14 blk : List UInt8)
    (hall : ∀ rk ∈ [k0, k1, k2, k3, k4, k5, k6, k7, k8, k9, k10, k11, k12, k13, k14], rk.length = 16)
    (hb : blk.length = 16) :
    Model.AesNi.encryptBlock blk ⟨[k0, k1, k2, k3, k4, k5, k6, k7, k8, k9, k10, k11, k12, k13, k14], 14⟩ =
      some (cipher [k0, k1, k2, k3, k4, k5, k6, k7, k8, k9, k10, k11, k12, k13, k14] blk) := by
  have hc : cipher [k0, k1, k2, k3, k4, k5, k6, k7, k8, k9, k10, k11, k12, k13, k14] blk =
      rounds ([k1, k2, k3, k4, k5, k6, k7, k8, k9, k10, k11, k12, k13] ++ [k14]) (addRoundKey blk k0) := by
    simp [cipher, hb]
  have h0 : (addRoundKey blk k0).length = 16 := by
    simp [addRoundKey, xorBytes, hb, hall k0 (by simp)]
  rw [hc, foldl_aesenc _ _ _ h0 (fun k hk => hall k (List.mem_cons_of_mem _ (List.mem_append_left _ hk)))]
  simp [Model.AesNi.encryptBlock, AesConst.aesencIdx, AesConst.aesencIdxLong, List.foldlM, pxor, addRoundKey]

/-- `crypto_aes_encrypt_block_aesni` under an AES-NI-expanded key = FIPS-197 `cipher` with the same round keys -/
theorem encryptBlock_eq_cipher (rks : List (List UInt8)) (nr : Nat) (blk : List UInt8)
    (hnr : nr = 10 ∨ nr = 14) (hlen : rks.length = nr + 1) (hall : ∀ rk ∈ rks, rk.length = 16)
    (hb : blk.length = 16) :
    Model.AesNi.encryptBlock blk ⟨rks, nr⟩ = some (cipher rks blk) := by
  rcases hnr with rfl | rfl
  · match rks, hlen, hall with
    | [k0, k1, k2, k3, k4, k5, k6, k7, k8, k9, k10], _, hall => exact encryptBlock_eq_cipher_10 _ _ _ _ _ _ _ _ _ _ _ _ hall hb
  · match rks, hlen, hall with
    | [k0, k1, k2, k3, k4, k5, k6, k7, k8, k9, k10, k11, k12, k13, k14], _, hall =>
      exact encryptBlock_eq_cipher_14 _ _ _ _ _ _ _ _ _ _ _ _ _ _ _ _ hall hb

/-- `crypto_aes_key_expand_aesni` = FIPS-197 KeyExpansion -/
theorem keyExpand_eq_fips (key : List UInt8) (h : key.length = 16 ∨ key.length = 32) :
    keyExpand key = some ⟨Aes.keyExpansion key, key.length / 4 + 6⟩ := by
  unfold keyExpand
  rcases h with h | h
  · rw [if_pos h, keyExpand128_eq_fips key h, h]; rfl
  · rw [if_neg (by omega), if_pos h, keyExpand256_eq_fips key h, h]; rfl


end Percival.Proofs.AesNi
