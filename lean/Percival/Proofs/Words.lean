import Percival.Spec.MD
/-! Lengths of `wordsBE` / `wordsLE` (helper lemmas for C01). -/
namespace Percival.Proofs.Words
open Percival.Spec

theorem wordsBE_length (b : Bytes) : (wordsBE b).length = b.length / 4 := by
  fun_induction wordsBE b with
  | case1 a b c d rest ih => simp [ih]; omega
  | case2 b h =>
    match b, h with
    | [], _ => rfl
    | [_], _ => simp
    | [_, _], _ => simp
    | [_, _, _], _ => simp
    | a :: b :: c :: d :: rest, h => exact absurd rfl (h a b c d rest)

theorem wordsLE_length (b : Bytes) : (wordsLE b).length = b.length / 4 := by
  fun_induction wordsLE b with
  | case1 a b c d rest ih => simp [ih]; omega
  | case2 b h =>
    match b, h with
    | [], _ => rfl
    | [_], _ => simp
    | [_, _], _ => simp
    | [_, _, _], _ => simp
    | a :: b :: c :: d :: rest, h => exact absurd rfl (h a b c d rest)

end Percival.Proofs.Words
