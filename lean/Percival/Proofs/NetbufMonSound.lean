import Percival.Proofs.NetbufMonWriter
/-!
# C07: the monitor accepts the model (soundness of `pmodel netbufmon` for `pmodel netbuf`)

`Sound s m`: the executable model's state `s` and the monitor's state `m` describe the same situation
(`RRel` for the reader, `WRel` for the writer) and the model has not failed.  `step_sound`: from related states,
for every protocol line, the monitor accepts what `stepOp` answers and the states are related again.  So along
every sequence of lines the model never fails (`bad = none`: no access outside a buffer, no assertion, no contract
violation, the fuel of `spinR` is never exhausted) and the monitor never rejects.
-/
namespace Percival.Proofs.NetbufMonSound
open Percival Percival.Spec.ByteStream Percival.Spec.NetbufMon Percival.Model.Netbuf Percival.Model
open Percival.Model.NetbufStep Percival.Proofs.NetbufWrite Percival.Proofs.NetbufMonTok

/-- the reader's fields of the monitor's state are untouched -/
def SameMR (m m' : MSt) : Prop :=
  m'.items = m.items ∧ m'.known = m.known ∧ m'.waiting = m.waiting ∧ m'.loopJ = m.loopJ ∧ m'.loopK = m.loopK ∧
    m'.loopN = m.loopN

theorem judgeSend_ok (m : MSt) (D' : Bytes) (failed' : Bool) (k : Nat) (delta : Bytes) (fc : Nat)
    (hf : m.failed = false) (hk : k ≤ m.wq.length)
    (h : SendOK m.pending D' failed' (m.wq.take k) delta fc (k < m.wq.length)) :
    ∃ m', judgeSend m delta.length (shownOf delta delta.length) fc k = (m', none) ∧
      m'.pending = (if failed' then [] else D') ∧ m'.wq = m.wq.drop k ∧ m'.failed = failed' ∧ m'.resv = m.resv ∧
      SameMR m m' := by
  have hlo := h.lo
  have hhi := h.hi
  have hpre : delta <+: m.pending := by
    rcases h.cases with ⟨_, _, _, e4, _⟩ | ⟨A0, _, _, _, _, _, e5⟩
    · rw [← e4]; exact List.prefix_append _ _
    · exact e5
  have hlen : delta.length ≤ m.pending.length := hpre.length_le
  have htake : m.pending.take delta.length = delta := (List.prefix_iff_eq_take.1 hpre).symm
  unfold judgeSend
  rw [if_neg (by simp [hf]), if_neg (by omega), if_neg (by simp [htake]), if_neg (by omega)]
  simp only []
  split
  · rename_i hb
    have hb' : delta.length < (accepts (m.wq.take k)).length ∨ sumN (accepts (m.wq.take k)) < delta.length := hb
    omega
  rcases h.cases with ⟨e1, e2, e3, e4, e5⟩ | ⟨A0, hA, e1, e2, e3, e4, e5⟩
  · subst e2 e3
    have e1' : ((m.wq.take k).filter fun a => match a with | .fail => true | _ => false).length = 0 := e1
    rw [if_neg (by omega), if_neg (by simp), if_neg (fun hne => hne e1')]
    split
    · rename_i hb
      exfalso
      obtain ⟨hb1, hb2⟩ := hb
      have hmore : k < m.wq.length := by
        have : (m.wq.drop k).length ≠ 0 := by
          intro h0
          simp [List.length_eq_zero_iff.1 h0] at hb1
        rw [List.length_drop] at this
        omega
      have := e5 hmore
      subst this
      rw [← e4] at hb2
      simp at hb2
    · refine ⟨_, rfl, ?_, rfl, hf, rfl, ⟨rfl, rfl, rfl, rfl, rfl, rfl⟩⟩
      show m.pending.drop delta.length = _
      rw [← e4]; simp
  · subst e2 e3
    have e1' : (A0.filter fun a => match a with | .fail => true | _ => false).length = 0 := e1
    rw [if_pos rfl, if_neg ?hcond, if_neg (by omega)]
    · exact ⟨_, rfl, rfl, rfl, rfl, rfl, ⟨rfl, rfl, rfl, rfl, rfl, rfl⟩⟩
    · intro hb
      rw [hA] at hb
      simp [List.filter_append] at hb
      obtain ⟨x, hx, hfx⟩ := hb
      have hmem : x ∈ A0.filter (fun a => match a with | .fail => true | _ => false) :=
        List.mem_filter.2 ⟨hx, hfx⟩
      rw [List.length_eq_zero_iff.1 e1'] at hmem
      simp at hmem

theorem judgeSend_failed (m : MSt) (hf : m.failed = true) : judgeSend m 0 (shownOf [] 0) 0 0 = (m, none) := by
  unfold judgeSend
  rw [if_pos hf, if_neg (by simp)]

/-! ## the relations depend only on their half of the states -/

theorem RRel.of_same {s s' : XSt} {m m' : MSt} {a : Reader} (h : RRel s m a) (hs : SameR s s') (hm : SameMR m m') :
    RRel s' m' a := by
  obtain ⟨e1, e2, e3, e4, e5, e6⟩ := hs
  obtain ⟨f1, f2, f3, f4, f5, f6⟩ := hm
  obtain ⟨h1, h2, h3, h4, h5, h6, h7, h8⟩ := h
  refine ⟨?_, ?_, ?_, ?_, ?_, ?_, ?_, ?_⟩
  · rw [e1]; exact h1
  · rw [f1, e2]; exact h2
  · rw [f2]; exact h3
  · rw [f3]; exact h4
  · rw [e3]; exact h5
  · rw [f6, e6]; exact h6
  · rw [f4, f5, e4, e5, e6]; exact h7
  · rw [e2]; exact h8

theorem WRel.of_same {s s' : XSt} {m m' : MSt} (h : WRel s m) (hs : SameW s s') (hm : SameMW m m') : WRel s' m' := by
  obtain ⟨e1, e2, e3, e4⟩ := hs
  obtain ⟨f1, f2, f3, f4⟩ := hm
  obtain ⟨h1, h2, h3, h4, h5, h6, h7, h8, h9⟩ := h
  have hD : D s' = D s := by simp only [D, e1, e3]
  refine ⟨?_, ?_, ?_, ?_, ?_, ?_, ?_, ?_, ?_⟩
  · rw [e1]; exact h1
  · rw [e1, f4]; exact h2
  · rw [f4, e4]; exact h3
  · rw [f3, e1]; exact h4
  · rw [f2, e2]; exact h5
  · rw [e2]; exact h6
  · unfold PosOK at h7 ⊢; rw [e1, e3]; exact h7
  · rw [e1, f1, hD]; exact h8
  · rw [e1, f1]; exact h9

/-- the executable's state and the monitor's state describe the same situation -/
structure Sound (s : XSt) (m : MSt) : Prop where
  bad : s.bad = none
  r : ∃ a, RRel s m a
  w : WRel s m

theorem sound_init : Sound {} {} := ⟨rfl, ⟨_, rrel_init⟩, wrel_init⟩

/-! ## small facts used per operation -/

theorem RRel.pending_iff {s : XSt} {m : MSt} {a : Reader} (h : RRel s m a) :
    s.r.pending = .none ↔ m.waiting = none := by
  have hp := h.rel.pend
  unfold Proofs.NetbufRead.PendRel at hp
  rw [h.waiting]
  cases hpp : s.r.pending <;> cases haw : a.waiting <;> simp_all

theorem RRel.avail {s : XSt} {m : MSt} {a : Reader} (h : RRel s m a) : avail s.r = a.visible.length := by
  rw [h.rel.avail]; rfl

theorem isSome_of_ne_none {α : Type} {o : Option α} (h : o ≠ none) : o.isSome = true := by
  cases o <;> simp_all

/-- the writer's pending data contains the part of the buffer in flight that was already sent -/
theorem wpos_le {s : XSt} (hi : Inv s.w) (hp : PosOK s) : s.wpos ≤ (pendingData s.w).length := by
  unfold PosOK at hp
  cases hc : s.w.curr with
  | none => rw [hc] at hp; omega
  | some wb =>
    rw [hc] at hp
    have := data_length (hi.c wb hc).1
    simp only [pendingData, currData, hc, List.length_append]
    omega

theorem D_append {s s' : XSt} (hi : Inv s.w) (hp : PosOK s) (d : Bytes) (hpos : s'.wpos = s.wpos)
    (hpd : pendingData s'.w = pendingData s.w ++ d) : D s' = D s ++ d := by
  simp only [D, hpos, hpd]
  rw [List.drop_append_of_le_length (wpos_le hi hp)]

theorem poke_curr {w w' : NetbufWrite.W} {wb : NetbufWrite.WBuf} (e : NetbufWrite.poke w = .ok w')
    (hc : w.curr = some wb) : w'.curr = some wb := by
  simp [NetbufWrite.poke, hc] at e
  rw [← e]; exact hc

theorem consume_curr {w w' : NetbufWrite.W} {wb : NetbufWrite.WBuf} {d : Bytes}
    (e : NetbufWrite.consume w d = .ok w') (hc : w.curr = some wb) : w'.curr = some wb := by
  unfold NetbufWrite.consume at e
  split at e
  · cases e
  · split at e
    · cases e
    · rename_i wb0 _
      cases hs : sub wb0.buflen wb0.datalen with
      | ok space =>
        rw [hs] at e
        simp only [Res.ok_bind] at e
        split at e
        · cases e
        · cases hb : blit wb0.buf wb0.datalen d with
          | ok nbuf =>
            rw [hb] at e
            simp only [Res.ok_bind] at e
            exact poke_curr e hc
          | oob => rw [hb] at e; cases e
          | abort => rw [hb] at e; cases e
          | contract => rw [hb] at e; cases e
      | oob => rw [hs] at e; cases e
      | abort => rw [hs] at e; cases e
      | contract => rw [hs] at e; cases e

/-- `PosOK` after a call that keeps a buffer in flight and otherwise may start one -/
theorem posOK_of_call {s s' : XSt} (hp : PosOK s) (hi' : Inv s'.w) (hpos : s'.wpos = s.wpos)
    (hcur : ∀ wb, s.w.curr = some wb → s'.w.curr = some wb) : PosOK s' := by
  unfold PosOK at hp ⊢
  cases hc : s.w.curr with
  | some wb => rw [hc] at hp; rw [hcur wb hc, hpos]; exact hp
  | none =>
    rw [hc] at hp
    cases hc' : s'.w.curr with
    | none => rw [hpos]; exact hp
    | some wb2 => rw [hpos, hp]; exact (hi'.c wb2 hc').2

/-! ## one protocol line -/

theorem mon_expect_contract (m : MSt) (why : String) : expect m .contract .contract why = (m, none) := by
  simp [expect]

/-- reader calls and script lines leave the writer half alone -/
theorem sound_of_reader {s s' : XSt} {m m' : MSt} {a' : Reader} (h : Sound s m) (hb : s'.bad = none)
    (hr : RRel s' m' a') (hs : SameW s s') (hm : SameMW m m') : Sound s' m' :=
  ⟨hb, ⟨a', hr⟩, h.w.of_same hs hm⟩

theorem write_curr {w w' : NetbufWrite.W} {wb : NetbufWrite.WBuf} {d : Bytes} (hi : Inv w) (hr : ResvRel w none)
    (e : NetbufWrite.write w d = .ok w') (hc : w.curr = some wb) : w'.curr = some wb := by
  unfold NetbufWrite.write at e
  split at e
  · simp only [Res.pure_eq, Res.ok.injEq] at e
    rw [← e]; exact hc
  · obtain ⟨w1, e1, _, _, _, _, hc1⟩ := reserve_spec hi hr d.length
    rw [e1] at e
    simp only [Res.ok_bind] at e
    exact consume_curr e (by rw [hc1]; exact hc)

theorem ans_spin (recs : List CbRec) (f l : Nat) (sh : Shown) (u : Nat) (r : NetbufRead.R) (w : NetbufWrite.W) :
    (Out.spin recs f l sh u r w).ans = .spin (recs.map convRec) f l sh u := by
  simp only [Out.ans]
  refine congrArg (fun x => Ans.spin x f l sh u) (List.map_congr_left ?_)
  intro x _
  cases x with
  | succ a sh => cases sh <;> rfl
  | status v => rfl

theorem stepOp_spin (s : XSt) (hbad : s.bad = none) (hres : s.w.reserved = false) :
    stepOp s .spin =
      match (spinW (spinR (s.loopN + rqWeight s.rq + 2) s []).1 (spinR (s.loopN + rqWeight s.rq + 2) s []).1.wq [] 0 0).1.bad with
      | some b => ((spinW (spinR (s.loopN + rqWeight s.rq + 2) s []).1 (spinR (s.loopN + rqWeight s.rq + 2) s []).1.wq [] 0 0).1, .failed b)
      | none =>
        ((spinW (spinR (s.loopN + rqWeight s.rq + 2) s []).1 (spinR (s.loopN + rqWeight s.rq + 2) s []).1.wq [] 0 0).1,
         .spin (spinR (s.loopN + rqWeight s.rq + 2) s []).2
           (spinW (spinR (s.loopN + rqWeight s.rq + 2) s []).1 (spinR (s.loopN + rqWeight s.rq + 2) s []).1.wq [] 0 0).2.2.1
           (spinW (spinR (s.loopN + rqWeight s.rq + 2) s []).1 (spinR (s.loopN + rqWeight s.rq + 2) s []).1.wq [] 0 0).2.1.length
           (shownOf (spinW (spinR (s.loopN + rqWeight s.rq + 2) s []).1 (spinR (s.loopN + rqWeight s.rq + 2) s []).1.wq [] 0 0).2.1
             (spinW (spinR (s.loopN + rqWeight s.rq + 2) s []).1 (spinR (s.loopN + rqWeight s.rq + 2) s []).1.wq [] 0 0).2.1.length)
           (spinW (spinR (s.loopN + rqWeight s.rq + 2) s []).1 (spinR (s.loopN + rqWeight s.rq + 2) s []).1.wq [] 0 0).2.2.2
           (spinW (spinR (s.loopN + rqWeight s.rq + 2) s []).1 (spinR (s.loopN + rqWeight s.rq + 2) s []).1.wq [] 0 0).1.r
           (spinW (spinR (s.loopN + rqWeight s.rq + 2) s []).1 (spinR (s.loopN + rqWeight s.rq + 2) s []).1.wq [] 0 0).1.w) := by
  simp only [stepOp, hbad, hres, Bool.false_eq_true, if_false]
  rfl

theorem judgeRecs_nil_of_quiet {s : XSt} {m : MSt} {a : Reader} (h : RRel s m a) (hq : Quiet s) :
    judgeRecs m [] = (m, none) := by
  unfold judgeRecs
  cases hmw : m.waiting with
  | none => rfl
  | some k =>
    simp only
    have haw : a.waiting = some k := by rw [← h.waiting]; exact hmw
    rcases hq with hp | ⟨hp, hrq⟩
    · have := h.pending_iff.1 hp
      rw [hmw] at this; cases this
    · have hpend := h.rel.pend
      unfold Proofs.NetbufRead.PendRel at hpend
      rw [hp, haw] at hpend
      simp only at hpend
      have hdb := dataBefore_of h.toks
      rw [hrq] at hdb
      simp only [qtoks, lead, List.length_nil, Nat.add_zero] at hdb
      have hfm : firstMark m.items = none := by
        rw [firstMark_eq, h.toks, markOf_bytes, hrq]; rfl
      rw [if_neg (by omega), if_neg (by simp [hfm])]

/-- writer calls and script lines leave the reader half alone -/
theorem sound_of_writer {s s' : XSt} {m m' : MSt} (h : Sound s m) (hb : s'.bad = none)
    (hw : WRel s' m') (hs : SameR s s') (hm : SameMR m m') : Sound s' m' := by
  obtain ⟨a, hr⟩ := h.r
  exact ⟨hb, ⟨a, hr.of_same hs hm⟩, hw⟩

theorem step_sound (s : XSt) (m : MSt) (h : Sound s m) (op : Op) :
    ∃ m', monStep m op (stepOp s op).2.ans = (m', none) ∧ Sound (stepOp s op).1 m' := by
  obtain ⟨a, hr⟩ := h.r
  have hbad := h.bad
  have hw := h.w
  have hav := hr.avail
  have hdb := dataBefore_of hr.toks
  cases op with
  | rWait k =>
    by_cases hmw : m.waiting = none
    · have hp := hr.pending_iff.2 hmw
      have haw : a.waiting = none := by rw [← hr.waiting]; exact hmw
      obtain ⟨r', e, hr'⟩ := Proofs.NetbufRead.wait_rel hr.rel haw k
      have hst : stepOp s (.rWait k) = ({ s with waitk := k, loopN := 0, r := r' }, .okR r') := by
        simp [stepOp, hbad, hp, e, rOp]
      rw [hst]
      refine ⟨{ m with waiting := some k, loopJ := 0, loopK := k, loopN := 0 }, by simp [monStep, hmw, Out.ans], ?_⟩
      exact sound_of_reader h hbad
        ⟨hr', hr.toks, hr.known, rfl, fun k' hk' => by simpa using hk', rfl, fun h0 => by simp at h0, hr.rqne⟩
        ⟨rfl, rfl, rfl, rfl⟩ ⟨rfl, rfl, rfl, rfl⟩
    · have hp : s.r.pending ≠ .none := fun hp => hmw (hr.pending_iff.1 hp)
      have hst : stepOp s (.rWait k) = (s, .contract) := by simp [stepOp, hbad, hp]
      rw [hst]
      exact ⟨m, by simp [monStep, isSome_of_ne_none hmw, Out.ans, expect], h⟩
  | rLoop j k n =>
    by_cases hmw : m.waiting = none
    · have hp := hr.pending_iff.2 hmw
      have haw : a.waiting = none := by rw [← hr.waiting]; exact hmw
      obtain ⟨r', e, hr'⟩ := Proofs.NetbufRead.wait_rel hr.rel haw k
      have hst : stepOp s (.rLoop j k n) = ({ s with waitk := k, loopJ := j, loopK := k, loopN := n, r := r' }, .okR r') := by
        simp [stepOp, hbad, hp, e, rOp]
      rw [hst]
      refine ⟨{ m with waiting := some k, loopJ := j, loopK := k, loopN := n }, by simp [monStep, hmw, Out.ans], ?_⟩
      exact sound_of_reader h hbad
        ⟨hr', hr.toks, hr.known, rfl, fun k' hk' => by simpa using hk', rfl, fun _ => ⟨rfl, rfl⟩, hr.rqne⟩
        ⟨rfl, rfl, rfl, rfl⟩ ⟨rfl, rfl, rfl, rfl⟩
    · have hp : s.r.pending ≠ .none := fun hp => hmw (hr.pending_iff.1 hp)
      have hst : stepOp s (.rLoop j k n) = (s, .contract) := by simp [stepOp, hbad, hp]
      rw [hst]
      exact ⟨m, by simp [monStep, isSome_of_ne_none hmw, Out.ans, expect], h⟩
  | rPeek =>
    have hpeek : NetbufRead.peek s.r = .ok a.visible := by
      rw [Proofs.NetbufRead.peek_eq hr.rel.geo, hr.rel.win]
    have hst : stepOp s .rPeek = (s, .peek a.visible.length (shownOf a.visible a.visible.length) s.r) := by
      simp [stepOp, hbad, hpeek, hav]
    rw [hst]
    have htd : takeData a.visible.length m.items = a.visible := by
      rw [takeData_of hr.toks _ (Nat.le_refl _), List.take_length]
    refine ⟨{ m with known := a.visible.length }, ?_, ?_⟩
    · simp only [Out.ans, monStep]
      rw [if_neg (by have := hr.known; omega), if_neg (by omega), if_neg (by simp [htd])]
    · exact sound_of_reader h hbad
        ⟨hr.rel, hr.toks, Nat.le_refl _, hr.waiting, hr.waitk, hr.loopN, hr.loopJK, hr.rqne⟩
        ⟨rfl, rfl, rfl, rfl⟩ ⟨rfl, rfl, rfl, rfl⟩
  | rConsume j =>
    by_cases hmw : m.waiting = none
    · have hp := hr.pending_iff.2 hmw
      have haw : a.waiting = none := by rw [← hr.waiting]; exact hmw
      by_cases hj : j ≤ a.visible.length
      · obtain ⟨r', e, hr'⟩ := Proofs.NetbufRead.consume_rel hr.rel haw j hj
        have hst : stepOp s (.rConsume j) = ({ s with r := r' }, .okR r') := by
          simp [stepOp, hbad, hp, hav, e, rOp]; omega
        rw [hst]
        refine ⟨{ m with items := dropData j m.items, known := m.known - j }, ?_, ?_⟩
        · simp only [Out.ans, monStep, hmw, Option.isSome_none, Bool.false_eq_true, if_false, if_true]
          rw [if_neg (by omega)]
        · refine sound_of_reader h hbad (a' := { a with consumed := a.consumed + j })
            ⟨hr', ?_, ?_, hr.waiting, hr.waitk, hr.loopN, hr.loopJK, hr.rqne⟩ ⟨rfl, rfl, rfl, rfl⟩ ⟨rfl, rfl, rfl, rfl⟩
          · show toks (dropData j m.items) = _
            rw [toks_dropData _ _ (by omega), hr.toks, drop_bytes _ _ _ hj, visible_consume]
          · show m.known - j ≤ _
            rw [visible_consume, List.length_drop]; have := hr.known; omega
      · have hst : stepOp s (.rConsume j) = (s, .contract) := by
          simp [stepOp, hbad, hp, hav]; omega
        rw [hst]
        refine ⟨m, ?_, h⟩
        simp only [Out.ans, monStep, hmw, Option.isSome_none, Bool.false_eq_true, if_false]
        rw [if_neg (by decide), if_pos trivial, if_neg (by have := hr.known; omega)]
    · have hp : s.r.pending ≠ .none := fun hp => hmw (hr.pending_iff.1 hp)
      have hst : stepOp s (.rConsume j) = (s, .contract) := by simp [stepOp, hbad, hp]
      rw [hst]
      exact ⟨m, by simp [monStep, isSome_of_ne_none hmw, Out.ans, expect], h⟩
  | rConsumeUpto j =>
    by_cases hmw : m.waiting = none
    · have hp := hr.pending_iff.2 hmw
      have haw : a.waiting = none := by rw [← hr.waiting]; exact hmw
      have hj : min j a.visible.length ≤ a.visible.length := Nat.min_le_right _ _
      obtain ⟨r', e, hr'⟩ := Proofs.NetbufRead.consume_rel hr.rel haw _ hj
      have hst : stepOp s (.rConsumeUpto j) = ({ s with r := r' }, .okN (min j a.visible.length) r') := by
        simp [stepOp, hbad, hp, hav, e]
      rw [hst]
      refine ⟨{ m with items := dropData (min j a.visible.length) m.items,
                       known := if min j a.visible.length < j then 0 else m.known - min j a.visible.length }, ?_, ?_⟩
      · simp only [Out.ans, monStep, hmw, Option.isSome_none, Bool.false_eq_true, if_false]
        rw [if_neg (by omega), if_neg (by omega), if_neg (by have := hr.known; omega)]
      · refine sound_of_reader h hbad (a' := { a with consumed := a.consumed + min j a.visible.length })
          ⟨hr', ?_, ?_, hr.waiting, hr.waitk, hr.loopN, hr.loopJK, hr.rqne⟩ ⟨rfl, rfl, rfl, rfl⟩ ⟨rfl, rfl, rfl, rfl⟩
        · show toks (dropData _ m.items) = _
          rw [toks_dropData _ _ (by omega), hr.toks, drop_bytes _ _ _ hj, visible_consume]
        · show (if min j a.visible.length < j then 0 else m.known - min j a.visible.length) ≤ _
          rw [visible_consume, List.length_drop]; have := hr.known; split <;> omega
    · have hp : s.r.pending ≠ .none := fun hp => hmw (hr.pending_iff.1 hp)
      have hst : stepOp s (.rConsumeUpto j) = (s, .contract) := by simp [stepOp, hbad, hp]
      rw [hst]
      exact ⟨m, by simp [monStep, isSome_of_ne_none hmw, Out.ans, expect], h⟩
  | rCancel =>
    have hst : stepOp s .rCancel = ({ s with loopN := 0, r := NetbufRead.cancel s.r }, .okR (NetbufRead.cancel s.r)) := by
      simp [stepOp, hbad, rOp]
    rw [hst]
    refine ⟨{ m with waiting := none, loopN := 0 }, by simp [monStep, Out.ans], ?_⟩
    exact sound_of_reader h hbad (a' := { a with waiting := none })
      ⟨Proofs.NetbufRead.cancel_rel hr.rel, hr.toks, hr.known, rfl, fun _ h0 => by simp at h0, rfl,
       fun h0 => by simp at h0, hr.rqne⟩ ⟨rfl, rfl, rfl, rfl⟩ ⟨rfl, rfl, rfl, rfl⟩
  | netDeliver d =>
    by_cases hd : d.isEmpty = true
    · have hst : stepOp s (.netDeliver d) = (s, .badOp) := by simp [stepOp, hbad, hd]
      rw [hst]
      exact ⟨m, by simp [monStep, hd, Out.ans, expect], h⟩
    · have hst : stepOp s (.netDeliver d) = ({ s with rq := s.rq ++ [.data d] }, .ok) := by simp [stepOp, hbad, hd]
      rw [hst]
      refine ⟨{ m with items := m.items ++ [.data d] }, by simp [monStep, hd, Out.ans, script], ?_⟩
      refine sound_of_reader h hbad (a' := a)
        ⟨hr.rel, ?_, hr.known, hr.waiting, hr.waitk, hr.loopN, hr.loopJK, ?_⟩ ⟨rfl, rfl, rfl, rfl⟩ ⟨rfl, rfl, rfl, rfl⟩
      · show toks (m.items ++ [.data d]) = _ ++ qtoks (s.rq ++ [.data d])
        rw [toks_append, qtoks_append, hr.toks]; simp [toks, qtoks]
      · intro x hx
        simp only [List.mem_append, List.mem_singleton, KAns.data.injEq] at hx
        rcases hx with hx | rfl
        · exact hr.rqne x hx
        · intro h0; rw [h0] at hd; simp at hd
  | netEagain =>
    have hst : stepOp s .netEagain = ({ s with rq := s.rq ++ [.eagain] }, .ok) := by simp [stepOp, hbad]
    rw [hst]
    refine ⟨m, by simp [monStep, Out.ans, expect], ?_⟩
    refine sound_of_reader h hbad (a' := a)
      ⟨hr.rel, ?_, hr.known, hr.waiting, hr.waitk, hr.loopN, hr.loopJK, ?_⟩ ⟨rfl, rfl, rfl, rfl⟩ ⟨rfl, rfl, rfl, rfl⟩
    · show toks m.items = _ ++ qtoks (s.rq ++ [.eagain])
      rw [qtoks_append, hr.toks]; simp [qtoks]
    · intro x hx
      simp only [List.mem_append, List.mem_singleton] at hx
      rcases hx with hx | hx
      · exact hr.rqne x hx
      · cases hx
  | netEof =>
    have hst : stepOp s .netEof = ({ s with rq := s.rq ++ [.eof] }, .ok) := by simp [stepOp, hbad]
    rw [hst]
    refine ⟨{ m with items := m.items ++ [.eof] }, by simp [monStep, Out.ans, script], ?_⟩
    refine sound_of_reader h hbad (a' := a)
      ⟨hr.rel, ?_, hr.known, hr.waiting, hr.waitk, hr.loopN, hr.loopJK, ?_⟩ ⟨rfl, rfl, rfl, rfl⟩ ⟨rfl, rfl, rfl, rfl⟩
    · show toks (m.items ++ [.eof]) = _ ++ qtoks (s.rq ++ [.eof])
      rw [toks_append, qtoks_append, hr.toks]; simp [toks, qtoks]
    · intro x hx
      simp only [List.mem_append, List.mem_singleton] at hx
      rcases hx with hx | hx
      · exact hr.rqne x hx
      · cases hx
  | netErr =>
    have hst : stepOp s .netErr = ({ s with rq := s.rq ++ [.err] }, .ok) := by simp [stepOp, hbad]
    rw [hst]
    refine ⟨{ m with items := m.items ++ [.err] }, by simp [monStep, Out.ans, script], ?_⟩
    refine sound_of_reader h hbad (a' := a)
      ⟨hr.rel, ?_, hr.known, hr.waiting, hr.waitk, hr.loopN, hr.loopJK, ?_⟩ ⟨rfl, rfl, rfl, rfl⟩ ⟨rfl, rfl, rfl, rfl⟩
    · show toks (m.items ++ [.err]) = _ ++ qtoks (s.rq ++ [.err])
      rw [toks_append, qtoks_append, hr.toks]; simp [toks, qtoks]
    · intro x hx
      simp only [List.mem_append, List.mem_singleton] at hx
      rcases hx with hx | hx
      · exact hr.rqne x hx
      · cases hx
  | netAccept n =>
    by_cases hn : n = 0
    · have hst : stepOp s (.netAccept n) = (s, .badOp) := by simp [stepOp, hbad, hn]
      rw [hst]
      exact ⟨m, by simp [monStep, hn, Out.ans, expect], h⟩
    · have hst : stepOp s (.netAccept n) = ({ s with wq := s.wq ++ [.accept n] }, .ok) := by simp [stepOp, hbad, hn]
      rw [hst]
      refine ⟨{ m with wq := m.wq ++ [.accept n] }, by simp [monStep, hn, Out.ans, script], ?_⟩
      refine sound_of_writer h hbad ⟨hw.inv, hw.resv, hw.wresv, hw.failed, ?_, ?_, hw.pos, hw.pend, hw.pendF⟩
        ⟨rfl, rfl, rfl, rfl, rfl, rfl⟩ ⟨rfl, rfl, rfl, rfl, rfl, rfl⟩
      · show m.wq ++ _ = s.wq ++ _
        rw [hw.wq]
      · intro x hx
        simp only [List.mem_append, List.mem_singleton, SAns.accept.injEq] at hx
        rcases hx with hx | rfl
        · exact hw.acc x hx
        · omega
  | netWeagain =>
    have hst : stepOp s .netWeagain = ({ s with wq := s.wq ++ [.eagain] }, .ok) := by simp [stepOp, hbad]
    rw [hst]
    refine ⟨{ m with wq := m.wq ++ [.eagain] }, by simp [monStep, Out.ans, script], ?_⟩
    refine sound_of_writer h hbad ⟨hw.inv, hw.resv, hw.wresv, hw.failed, ?_, ?_, hw.pos, hw.pend, hw.pendF⟩
      ⟨rfl, rfl, rfl, rfl, rfl, rfl⟩ ⟨rfl, rfl, rfl, rfl, rfl, rfl⟩
    · show m.wq ++ _ = s.wq ++ _
      rw [hw.wq]
    · intro x hx
      simp only [List.mem_append, List.mem_singleton] at hx
      rcases hx with hx | hx
      · exact hw.acc x hx
      · cases hx
  | netSendfail =>
    have hst : stepOp s .netSendfail = ({ s with wq := s.wq ++ [.fail] }, .ok) := by simp [stepOp, hbad]
    rw [hst]
    refine ⟨{ m with wq := m.wq ++ [.fail] }, by simp [monStep, Out.ans, script], ?_⟩
    refine sound_of_writer h hbad ⟨hw.inv, hw.resv, hw.wresv, hw.failed, ?_, ?_, hw.pos, hw.pend, hw.pendF⟩
      ⟨rfl, rfl, rfl, rfl, rfl, rfl⟩ ⟨rfl, rfl, rfl, rfl, rfl, rfl⟩
    · show m.wq ++ _ = s.wq ++ _
      rw [hw.wq]
    · intro x hx
      simp only [List.mem_append, List.mem_singleton] at hx
      rcases hx with hx | hx
      · exact hw.acc x hx
      · cases hx
  | wReserve n =>
    cases hmr : m.resv with
    | some n0 =>
      have hres : s.w.reserved = true := by have := hw.resv; rw [hmr] at this; exact this.1
      have hst : stepOp s (.wReserve n) = (s, .contract) := by simp [stepOp, hbad, hres]
      rw [hst]
      exact ⟨m, by simp [monStep, hmr, Out.ans, expect], h⟩
    | none =>
      have hrr : ResvRel s.w none := by have := hw.resv; rw [hmr] at this; exact this
      have hres : s.w.reserved = false := hrr
      obtain ⟨w', e, hi', hr', hpd, hf', hc'⟩ := reserve_spec hw.inv hrr n
      have hst : stepOp s (.wReserve n) = ({ s with wresv := n, w := w' }, .okW w') := by
        simp [stepOp, hbad, hres, e, wOp]
      rw [hst]
      refine ⟨{ m with resv := some n }, by simp [monStep, hmr, Out.ans], ?_⟩
      have hD : D { s with wresv := n, w := w' } = D s := by simp only [D, hpd]
      refine sound_of_writer h hbad ⟨hi', hr', fun n' hn' => by simpa using hn', by rw [hw.failed]; exact hf'.symm, hw.wq,
        hw.acc, posOK_of_call hw.pos hi' rfl (fun wb hc => by show w'.curr = _; rw [hc', hc]), ?_, ?_⟩
        ⟨rfl, rfl, rfl, rfl, rfl, rfl⟩ ⟨rfl, rfl, rfl, rfl, rfl, rfl⟩
      · intro hf
        show m.pending = _
        rw [hD]; exact hw.pend (by rw [← hf']; exact hf)
      · intro hf
        exact hw.pendF (by rw [← hf']; exact hf)
  | wConsume d =>
    cases hmr : m.resv with
    | none =>
      have hres : s.w.reserved = false := by have := hw.resv; rw [hmr] at this; exact this
      have hst : stepOp s (.wConsume d) = (s, .contract) := by simp [stepOp, hbad, hres]
      rw [hst]
      exact ⟨m, by simp [monStep, hmr, Out.ans, expect], h⟩
    | some n =>
      have hrr : ResvRel s.w (some n) := by have := hw.resv; rw [hmr] at this; exact this
      have hres : s.w.reserved = true := hrr.1
      have hwr : s.wresv = n := hw.wresv n hmr
      by_cases hd : d.length ≤ n
      · obtain ⟨w', e, hi', hr', hf', hpd, _⟩ := consume_spec hw.inv n hrr d hd
        have hst : stepOp s (.wConsume d) = ({ s with w := w' }, .okW w') := by
          simp [stepOp, hbad, hres, hwr, e, wOp]; omega
        rw [hst]
        refine ⟨{ m with resv := none, pending := if m.failed then m.pending else m.pending ++ d }, ?_, ?_⟩
        · simp only [Out.ans, monStep, hmr]
          rw [if_neg (by omega), if_pos trivial]
        · refine sound_of_writer h hbad ⟨hi', hr', fun n' hn' => by simp at hn', by rw [hw.failed]; exact hf'.symm, hw.wq,
            hw.acc, posOK_of_call hw.pos hi' rfl (fun wb hc => consume_curr e hc), ?_, ?_⟩
            ⟨rfl, rfl, rfl, rfl, rfl, rfl⟩ ⟨rfl, rfl, rfl, rfl, rfl, rfl⟩
          · intro hf
            have hf0 : s.w.failed = false := by rw [← hf']; exact hf
            show (if m.failed then m.pending else m.pending ++ d) = _
            rw [hw.failed, hf0]
            simp only [Bool.false_eq_true, if_false]
            rw [hw.pend hf0, D_append (s' := { s with w := w' }) hw.inv hw.pos d rfl (hpd hf0)]
          · intro hf
            have hf0 : s.w.failed = true := by rw [← hf']; exact hf
            show (if m.failed then m.pending else m.pending ++ d) = _
            rw [hw.failed, hf0]
            simp only [if_true]
            exact hw.pendF hf0
      · have hst : stepOp s (.wConsume d) = (s, .contract) := by
          simp [stepOp, hbad, hres, hwr]; omega
        rw [hst]
        refine ⟨m, ?_, h⟩
        simp only [Out.ans, monStep, hmr]
        rw [if_pos (by omega)]
        simp [expect]
  | wWrite d =>
    cases hmr : m.resv with
    | some n0 =>
      have hres : s.w.reserved = true := by have := hw.resv; rw [hmr] at this; exact this.1
      have hst : stepOp s (.wWrite d) = (s, .contract) := by simp [stepOp, hbad, hres]
      rw [hst]
      exact ⟨m, by simp [monStep, hmr, Out.ans, expect], h⟩
    | none =>
      have hrr : ResvRel s.w none := by have := hw.resv; rw [hmr] at this; exact this
      have hres : s.w.reserved = false := hrr
      obtain ⟨w', e, hi', hr', hf', hpd, hsame⟩ := write_spec hw.inv hrr d
      have hst : stepOp s (.wWrite d) = ({ s with w := w' }, .okW w') := by
        simp [stepOp, hbad, hres, e, wOp]
      rw [hst]
      refine ⟨{ m with pending := if m.failed then m.pending else m.pending ++ d }, by simp [monStep, hmr, Out.ans], ?_⟩
      refine sound_of_writer h hbad ⟨hi', by rw [hmr]; exact hr', hw.wresv, by rw [hw.failed]; exact hf'.symm, hw.wq,
        hw.acc, posOK_of_call hw.pos hi' rfl (fun wb hc => write_curr hw.inv hrr e hc), ?_, ?_⟩
        ⟨rfl, rfl, rfl, rfl, rfl, rfl⟩ ⟨rfl, rfl, rfl, rfl, rfl, rfl⟩
      · intro hf
        have hf0 : s.w.failed = false := by rw [← hf']; exact hf
        show (if m.failed then m.pending else m.pending ++ d) = _
        rw [hw.failed, hf0]
        simp only [Bool.false_eq_true, if_false]
        rw [hw.pend hf0, D_append (s' := { s with w := w' }) hw.inv hw.pos d rfl (hpd hf0)]
      · intro hf
        have hf0 : s.w.failed = true := by rw [← hf']; exact hf
        show (if m.failed then m.pending else m.pending ++ d) = _
        rw [hw.failed, hf0]
        simp only [if_true]
        exact hw.pendF hf0
  | spin =>
    cases hmr : m.resv with
    | some n0 =>
      have hres : s.w.reserved = true := by have := hw.resv; rw [hmr] at this; exact this.1
      have hst : stepOp s .spin = (s, .contract) := by simp [stepOp, hbad, hres]
      rw [hst]
      exact ⟨m, by simp [monStep, hmr, Out.ans, expect], h⟩
    | none =>
      have hrr : ResvRel s.w none := by have := hw.resv; rw [hmr] at this; exact this
      have hres : s.w.reserved = false := hrr
      rw [stepOp_spin s hbad hres]
      -- reader half
      obtain ⟨new, m1, a1, e1, _, hj1, hr1, hb1, hq1, hsw1, hmw1⟩ :=
        spinR_sound (s.loopN + rqWeight s.rq + 2) s m a [] hr hbad (by unfold need; split <;> omega)
      generalize spinR (s.loopN + rqWeight s.rq + 2) s [] = X at e1 hr1 hb1 hq1 hsw1 ⊢
      obtain ⟨s1, recs⟩ := X
      simp only [List.nil_append] at e1
      subst e1
      simp only at hr1 hb1 hq1 hsw1 ⊢
      have hjr : judgeRecs m (recs.map convRec) = (m1, none) := by
        have := hj1 []
        rw [List.append_nil] at this
        rw [this]; exact judgeRecs_nil_of_quiet hr1 hq1
      have hw1 : WRel s1 m1 := hw.of_same hsw1 hmw1
      have hmr1 : m1.resv = none := by rw [hmw1.2.2.2]; exact hmr
      have hrr1 : ResvRel s1.w none := by have := hw1.resv; rw [hmr1] at this; exact this
      -- writer half
      cases hf1 : s1.w.failed with
      | true =>
        have hc1 := hw1.inv.failedIdle hf1
        rw [spinW_idle s1 s1.wq [] 0 0 hc1]
        simp only [hb1]
        refine ⟨m1, ?_, ?_⟩
        · rw [ans_spin]
          simp only [monStep, hmr, Option.isSome_none, Bool.false_eq_true, if_false, hjr, List.length_nil]
          exact judgeSend_failed m1 (by rw [hw1.failed]; exact hf1)
        · exact ⟨(by first | exact hb1 | rfl), ⟨a1, hr1.of_same ⟨rfl, rfl, rfl, rfl, rfl, rfl⟩ ⟨rfl, rfl, rfl, rfl, rfl, rfl⟩⟩,
            hw1.of_same ⟨rfl, rfl, rfl, rfl⟩ ⟨rfl, rfl, rfl, rfl⟩⟩
      | false =>
        obtain ⟨k, delta, fc, hk, e2, e3, e4, e5, e6, e7, e8, e9, e10, e11, e12⟩ :=
          spinW_sound s1.wq s1 [] 0 0 hw1.inv hrr1 hw1.pos hb1 hf1 hw1.acc
        generalize spinW s1 s1.wq [] 0 0 = Y at e2 e3 e4 e5 e6 e7 e8 e9 e10 e11 e12 ⊢
        obtain ⟨s2, peer, fails, used⟩ := Y
        simp only [List.nil_append, Nat.zero_add] at e2 e3 e4 e5 e6 e7 e8 e9 e10 e11 e12
        subst e2 e3 e4
        simp only [e9]
        rw [← hw1.pend hf1, ← hw1.wq] at e12
        obtain ⟨m2, hjs, p1, p2, p3, p4, p5⟩ :=
          judgeSend_ok m1 (D s2) s2.w.failed used peer fails (by rw [hw1.failed]; exact hf1)
            (by rw [hw1.wq]; exact hk) e12
        refine ⟨m2, ?_, ?_⟩
        · rw [ans_spin]
          simp only [monStep, hmr, Option.isSome_none, Bool.false_eq_true, if_false, hjr]
          exact hjs
        · refine ⟨e9, ⟨a1, hr1.of_same e10 p5⟩, ⟨e6, (by rw [p4, hmr1]; exact e7),
            (fun n hn => by rw [p4, hmr1] at hn; cases hn), p3, (by rw [p2, hw1.wq, e5]), ?_, e8, ?_, ?_⟩⟩
          · intro n hn
            rw [e5] at hn
            exact hw1.acc n (List.mem_of_mem_drop hn)
          · intro hf
            rw [p1, hf]; rfl
          · intro hf
            rw [p1, hf]; rfl

/-! ## whole cases -/

theorem run_sound (ops : List Op) : ∀ (s : XSt) (m : MSt), Sound s m →
    acceptsRun m (ops.zip ((runOps s ops).2.map Out.ans)) = true ∧ (runOps s ops).1.bad = none := by
  induction ops with
  | nil => intro s m h; exact ⟨rfl, h.bad⟩
  | cons op ops ih =>
    intro s m h
    obtain ⟨m', e, h'⟩ := step_sound s m h op
    obtain ⟨i1, i2⟩ := ih _ m' h'
    refine ⟨?_, i2⟩
    simp only [runOps, List.map_cons, List.zip_cons_cons, acceptsRun, e]
    exact i1

/-- every callback record of a `spin` line could be printed (no `0:<a>:model-oob`) -/
def OutReadable : Out → Prop
  | .spin recs _ _ _ _ _ _ => ∀ r ∈ recs, Readable r
  | _ => True

theorem rOp_readable (s : XSt) (res : Res NetbufRead.R) : OutReadable (rOp s res).2 := by
  unfold rOp; split <;> trivial

theorem wOp_readable (s : XSt) (res : Res NetbufWrite.W) : OutReadable (wOp s res).2 := by
  unfold wOp; split <;> trivial

theorem step_readable (s : XSt) (m : MSt) (h : Sound s m) (op : Op) : OutReadable (stepOp s op).2 := by
  cases op with
  | spin =>
    by_cases hres : s.w.reserved = true
    · have hst : stepOp s .spin = (s, .contract) := by simp [stepOp, h.bad, hres]
      rw [hst]; trivial
    · rw [stepOp_spin s h.bad (by simpa using hres)]
      obtain ⟨a, hr⟩ := h.r
      obtain ⟨new, m1, a1, e1, hrd, _⟩ :=
        spinR_sound (s.loopN + rqWeight s.rq + 2) s m a [] hr h.bad (by unfold need; split <;> omega)
      split
      · trivial
      · show ∀ r ∈ _, Readable r
        rw [e1]; simpa using hrd
  | _ =>
    unfold stepOp
    rw [h.bad]
    simp only []
    (repeat' split) <;> first | trivial | exact rOp_readable _ _ | exact wOp_readable _ _

theorem run_readable (ops : List Op) : ∀ (s : XSt) (m : MSt), Sound s m →
    ∀ o ∈ (runOps s ops).2, OutReadable o := by
  induction ops with
  | nil => intro s m _ o ho; simp [runOps] at ho
  | cons op ops ih =>
    intro s m h o ho
    obtain ⟨m', _, h'⟩ := step_sound s m h op
    simp only [runOps, List.mem_cons] at ho
    rcases ho with rfl | ho
    · exact step_readable s m h op
    · exact ih _ m' h' o ho

/-- a line `failed …` is printed only together with setting the failure latch -/
def FailLatched (p : XSt × Out) : Prop := ∀ f, p.2 = .failed f → p.1.bad = some f

theorem rOp_fl (s : XSt) (res : Res NetbufRead.R) : FailLatched (rOp s res) := by
  unfold rOp; split <;> intro f h <;> simp_all

theorem wOp_fl (s : XSt) (res : Res NetbufWrite.W) : FailLatched (wOp s res) := by
  unfold wOp; split <;> intro f h <;> simp_all

theorem stepOp_fl (s : XSt) (op : Op) : FailLatched (stepOp s op) := by
  unfold stepOp
  split
  · intro f h; simp_all
  · cases op <;> simp only [] <;> (repeat' split) <;>
      (first | exact rOp_fl _ _ | exact wOp_fl _ _ | (intro f h; simp_all))

theorem run_no_failed (ops : List Op) : ∀ (s : XSt) (m : MSt), Sound s m →
    ∀ o ∈ (runOps s ops).2, ∀ f, o ≠ .failed f := by
  induction ops with
  | nil => intro s m _ o ho; simp [runOps] at ho
  | cons op ops ih =>
    intro s m h o ho f
    obtain ⟨m', _, h'⟩ := step_sound s m h op
    simp only [runOps, List.mem_cons] at ho
    rcases ho with rfl | ho
    · intro hf
      have := stepOp_fl s op f hf
      rw [h'.bad] at this
      cases this
    · exact ih _ m' h' o ho f

end Percival.Proofs.NetbufMonSound
