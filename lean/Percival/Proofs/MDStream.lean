import Percival.Model.Hash
import Percival.Proofs.MDAbsorb
/-! The streaming context of `Model.Hash` computes `Spec.MD.hash` for every partition of the
message (helper lemmas for C01; the property theorems are in `Properties/C01.lean`). -/
namespace Percival.Proofs.MDStream
open Percival.Spec Percival.Spec.MD Percival.Model.Hash Percival.Proofs.MD

/-- the C's way of keeping the bit count is `(· + 8·len) mod 2^64` -/
structure CounterOK (cnt : Counter) (lenEnc : Nat → Bytes) where
  val : cnt.C → Nat
  zero : val cnt.zero = 0
  add : ∀ c len, val (cnt.add c len) = (val c + 8 * len) % 2^64
  r : ∀ c, cnt.r c = val c / 8 % 64
  enc : ∀ c, cnt.enc c = lenEnc (val c)

/-- what has to be shown about a C file's pieces for its streaming interface to compute `p` -/
structure Refines (a : Alg) (p : Params) where
  R : a.St → p.St
  init : R a.init = p.init
  transform : ∀ s b, b.length = 64 → R (a.transform s b) = p.compress (R s) b
  digest : ∀ s, a.digest s = p.out (R s)
  PAD : a.PAD = 0x80 :: List.replicate 63 0
  cnt : CounterOK a.cnt p.lenEnc

variable {a : Alg} {p : Params} (rf : Refines a p)

/-- what the context means after absorbing `msg` -/
structure Inv (c : Ctx a) (msg : Bytes) : Prop where
  buflen : c.buf.length = 64
  count : rf.cnt.val c.count = 8 * msg.length % 2^64
  state : rf.R c.state = absorb p p.init (msg.take (msg.length / 64 * 64))
  pending : c.buf.take (msg.length % 64) = msg.drop (msg.length / 64 * 64)

theorem r_eq (n : Nat) : (8 * n % 2^64) / 8 % 64 = n % 64 := by omega

theorem memcpy_length (dst src : Bytes) (off : Nat) (h : off + src.length ≤ dst.length) :
    (memcpy dst off src).length = dst.length := by
  simp [memcpy, List.length_take, List.length_drop]; omega

theorem memcpy_take (dst src : Bytes) (off : Nat) (h : off ≤ dst.length) :
    (memcpy dst off src).take (off + src.length) = dst.take off ++ src := by
  unfold memcpy
  have hl : (dst.take off ++ src).length = off + src.length := by simp [List.length_take]; omega
  rw [← hl, List.take_left']
  rfl

theorem memcpy_eq_of_take (dst src : Bytes) (off : Nat) (h : off + src.length = dst.length) :
    memcpy dst off src = dst.take off ++ src := by
  unfold memcpy
  rw [List.drop_of_length_le (by omega)]; simp

theorem init_inv : Inv rf (init a) [] := by
  constructor <;> simp [init, absorb_short, rf.init, rf.cnt.zero]

/-- the `while (len >= 64)` loop is `absorb`, and leaves `src` advanced past the complete blocks -/
theorem blocksLoop_spec (s : a.St) (src : Bytes) (n : Nat) (hn : src.length = n) :
    rf.R (blocksLoop a s src n).1 = absorb p (rf.R s) src ∧
    (blocksLoop a s src n).2 = src.drop (n / 64 * 64) := by
  induction n using Nat.strongRecOn generalizing s src with
  | _ n ih =>
    rw [blocksLoop]
    by_cases h : n ≥ 64
    · simp only [h, if_true]
      have hsplit : src = src.take 64 ++ src.drop 64 := (List.take_append_drop 64 src).symm
      have h1 : (src.take 64).length = 64 := by simp [List.length_take]; omega
      have h2 : (src.drop 64).length = n - 64 := by simp [List.length_drop]; omega
      obtain ⟨i1, i2⟩ := ih (n - 64) (by omega) (a.transform s (src.take 64)) (src.drop 64) h2
      refine ⟨?_, ?_⟩
      · rw [i1, rf.transform _ _ h1]
        conv => rhs; rw [hsplit]
        rw [absorb_block p _ _ _ h1]
      · rw [i2, List.drop_drop]
        congr 1; omega
    · simp only [h, if_false]
      have : n / 64 * 64 = 0 := by omega
      exact ⟨(absorb_short p _ _ (by omega)).symm, by simp [this]⟩

theorem update_inv (c : Ctx a) (msg src : Bytes) (h : Inv rf c msg) :
    Inv rf (update a c src) (msg ++ src) := by
  obtain ⟨hbl, hcnt, hst, hpend⟩ := h
  unfold update
  by_cases h0 : src.length = 0
  · have : src = [] := List.eq_nil_of_length_eq_zero h0
    subst this
    simp only [List.length_nil, if_true, List.append_nil]
    exact ⟨hbl, hcnt, hst, hpend⟩
  · simp only [h0, if_false]
    have hr : a.cnt.r c.count = msg.length % 64 := by rw [rf.cnt.r, hcnt]; exact r_eq _
    rw [hr]
    generalize hn : msg.length = n at *
    generalize hk : src.length = k at *
    have hcount' : rf.cnt.val (a.cnt.add c.count k) = 8 * (n + k) % 2^64 := by
      rw [rf.cnt.add, hcnt]; omega
    have hmsplit : msg = msg.take (n / 64 * 64) ++ msg.drop (n / 64 * 64) := (List.take_append_drop _ _).symm
    have hfull : (msg.take (n / 64 * 64)).length = 64 * (n / 64) := by simp [List.length_take, hn]; omega
    have hpl : (msg.drop (n / 64 * 64)).length = n % 64 := by simp [List.length_drop, hn]; omega
    by_cases hsmall : k < 64 - n % 64
    · simp only [hsmall, if_true]
      have hdiv : (n + k) / 64 = n / 64 := by omega
      have hmod : (n + k) % 64 = n % 64 + k := by omega
      refine ⟨?_, ?_, ?_, ?_⟩
      · simp only; rw [memcpy_length]; exact hbl; omega
      · simp [List.length_append, hn, hk, hcount']
      · simp only [List.length_append, hn, hk, hdiv]
        rw [hst]; congr 1
        rw [List.take_append_of_le_length (by omega)]
      · simp only [List.length_append, hn, hk, hdiv, hmod]
        rw [← hk, memcpy_take _ _ _ (by omega), hpend]
        rw [List.drop_append_of_le_length (by omega)]
    · simp only [hsmall, if_false]
      have hk' : 64 - n % 64 ≤ k := by omega
      have hheadlen : (src.take (64 - n % 64)).length = 64 - n % 64 := by simp [List.length_take, hk]; omega
      have hrestlen : (src.drop (64 - n % 64)).length = k - (64 - n % 64) := by simp [List.length_drop, hk]
      have hsrc : src = src.take (64 - n % 64) ++ src.drop (64 - n % 64) := (List.take_append_drop _ _).symm
      generalize src.take (64 - n % 64) = head at *
      generalize src.drop (64 - n % 64) = rest at *
      have hbuf1 : memcpy c.buf (n % 64) head = msg.drop (n / 64 * 64) ++ head := by
        have := memcpy_take c.buf head (n % 64) (by omega)
        have hlen : (memcpy c.buf (n % 64) head).length = 64 := by rw [memcpy_length]; exact hbl; omega
        rw [← hpend, ← this]
        exact (List.take_of_length_le (by omega)).symm
      have hb1len : (msg.drop (n / 64 * 64) ++ head).length = 64 := by simp [hpl, hheadlen]; omega
      obtain ⟨hl1, hl2⟩ := blocksLoop_spec rf (a.transform c.state (memcpy c.buf (n % 64) head)) rest
        (k - (64 - n % 64)) hrestlen
      -- name the loop's result
      generalize hloop : blocksLoop a (a.transform c.state (memcpy c.buf (n % 64) head)) rest (k - (64 - n % 64)) = res at *
      obtain ⟨st2, tail⟩ := res
      simp only at hl1 hl2 ⊢
      rw [← hrestlen] at hl2
      subst hl2
      rw [hbuf1] at hl1 ⊢
      rw [rf.transform _ _ hb1len] at hl1
      have hq : (n + k) / 64 * 64 = 64 * (n / 64) + 64 + rest.length / 64 * 64 := by omega
      have hnew : (msg ++ src) = (msg.take (n / 64 * 64) ++ (msg.drop (n / 64 * 64) ++ head)) ++ rest := by
        rw [← List.append_assoc, ← hmsplit, List.append_assoc, ← hsrc]
      have hrsplit : rest = rest.take (rest.length / 64 * 64) ++ rest.drop (rest.length / 64 * 64) := (List.take_append_drop _ _).symm
      have hrfull : (rest.take (rest.length / 64 * 64)).length = 64 * (rest.length / 64) := by simp [List.length_take]; omega
      have hrtail : (rest.drop (rest.length / 64 * 64)).length = (n + k) % 64 := by simp [List.length_drop]; omega
      refine ⟨?_, ?_, ?_, ?_⟩
      · simp only; rw [memcpy_length]; exact hb1len; omega
      · simp [List.length_append, hn, hk, hcount']
      · simp only [List.length_append, hn, hk]
        rw [hl1, hst]
        have : (msg ++ src).take ((n + k) / 64 * 64) =
            msg.take (n / 64 * 64) ++ (msg.drop (n / 64 * 64) ++ head) ++ rest.take (rest.length / 64 * 64) := by
          rw [hnew, hq]
          have hl : (msg.take (n / 64 * 64) ++ (msg.drop (n / 64 * 64) ++ head)).length = 64 * (n / 64) + 64 := by
            simp [hfull, hb1len]
          rw [← hl, List.take_length_add_append]
        rw [this, List.append_assoc, absorb_append p _ _ _ _ hfull, absorb_block p _ _ _ hb1len]
        exact absorb_full p _ rest
      · simp only [List.length_append, hn, hk]
        have h1 : (memcpy (msg.drop (n / 64 * 64) ++ head) 0 (rest.drop (rest.length / 64 * 64))).take (0 + (rest.drop (rest.length / 64 * 64)).length) = _ :=
          memcpy_take _ _ 0 (by omega)
        rw [Nat.zero_add, hrtail] at h1
        rw [h1]
        simp only [List.take_zero, List.nil_append]
        rw [hnew, hq]
        have hl : (msg.take (n / 64 * 64) ++ (msg.drop (n / 64 * 64) ++ head)).length = 64 * (n / 64) + 64 := by
          simp [hfull, hb1len]
        rw [← hl, List.drop_length_add_append]

theorem foldl_inv (c : Ctx a) (msg : Bytes) (chunks : List Bytes) (h : Inv rf c msg) :
    Inv rf (chunks.foldl (update a) c) (msg ++ chunks.flatten) := by
  induction chunks generalizing c msg with
  | nil => simpa using h
  | cons x xs ih =>
    simp only [List.foldl_cons, List.flatten_cons, ← List.append_assoc]
    exact ih _ _ (update_inv rf c msg x h)

end Percival.Proofs.MDStream
