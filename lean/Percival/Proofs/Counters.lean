import Percival.Proofs.MDFinal
/-! The three ways the C keeps the bit count all implement `(· + 8·len) mod 2^64`
(carry lemmas; helper lemmas for C01). -/
namespace Percival.Proofs.Counters
open Percival.Spec Percival.Model.Hash Percival.Proofs.MDStream

theorem and63 (x : Nat) : x &&& 63 = x % 64 := Nat.and_two_pow_sub_one_eq_mod x 6

theorem u8_of_shift64 (x : UInt64) (k : Nat) (hk : k < 64) :
    (x >>> UInt64.ofNat k).toUInt8 = UInt8.ofNat (x.toNat / 2^k) := by
  apply UInt8.toNat_inj.mp
  simp [UInt64.toNat_shiftRight, Nat.shiftRight_eq_div_pow, Nat.mod_eq_of_lt hk]

theorem add64 (c : UInt64) (len : Nat) :
    (c + ((UInt64.ofNat len) <<< 3)).toNat = (c.toNat + 8 * len) % 2^64 := by
  simp [UInt64.toNat_add, UInt64.toNat_shiftLeft, Nat.shiftLeft_eq]
  omega

theorem r64 (c : UInt64) : ((c >>> 3) &&& 0x3f).toNat = c.toNat / 8 % 64 := by
  simp [UInt64.toNat_and, UInt64.toNat_shiftRight, Nat.shiftRight_eq_div_pow, and63]

theorem enc64 (x : UInt64) :
    [(x >>> 56).toUInt8, (x >>> 48).toUInt8, (x >>> 40).toUInt8, (x >>> 32).toUInt8,
     (x >>> 24).toUInt8, (x >>> 16).toUInt8, (x >>> 8).toUInt8, x.toUInt8] = be64enc x.toNat := by
  unfold be64enc
  have h := u8_of_shift64 x
  rw [show (56 : UInt64) = UInt64.ofNat 56 from rfl, h 56 (by omega)]
  rw [show (48 : UInt64) = UInt64.ofNat 48 from rfl, h 48 (by omega)]
  rw [show (40 : UInt64) = UInt64.ofNat 40 from rfl, h 40 (by omega)]
  rw [show (32 : UInt64) = UInt64.ofNat 32 from rfl, h 32 (by omega)]
  rw [show (24 : UInt64) = UInt64.ofNat 24 from rfl, h 24 (by omega)]
  rw [show (16 : UInt64) = UInt64.ofNat 16 from rfl, h 16 (by omega)]
  rw [show (8 : UInt64) = UInt64.ofNat 8 from rfl, h 8 (by omega)]
  congr 7

/-- SHA-256's `uint64_t count` -/
def cnt64OK : CounterOK cnt64 be64enc where
  val c := UInt64.toNat c
  zero := rfl
  add c len := add64 c len
  r c := r64 c
  enc c := enc64 c

/-- the value of a (high, low) pair of 32-bit words -/
def val2 (hi lo : UInt32) : Nat := hi.toNat * 2^32 + lo.toNat

/-- **carry lemma**: the C's add-with-carry-test on two 32-bit words is addition mod 2^64 -/
theorem addLoHi_val (lo hi : UInt32) (len : Nat) :
    val2 (addLoHi lo hi len).2 (addLoHi lo hi len).1 = (val2 hi lo + 8 * len) % 2^64 := by
  unfold addLoHi val2
  simp only
  have hlo := lo.toNat_lt
  have hhi := hi.toNat_lt
  have hbl : ((UInt32.ofNat len) <<< 3).toNat = 8 * len % 2^32 := by
    simp [UInt32.toNat_shiftLeft, Nat.shiftLeft_eq]; omega
  have hbh : (UInt32.ofNat (len >>> 29)).toNat = len / 2^29 % 2^32 := by
    simp [Nat.shiftRight_eq_div_pow]
  generalize (UInt32.ofNat len) <<< 3 = bl at *
  generalize UInt32.ofNat (len >>> 29) = bh at *
  by_cases hc : lo + bl < bl
  · simp only [hc, if_true]
    have hc' : (lo + bl).toNat < bl.toNat := UInt32.lt_iff_toNat_lt.mp hc
    simp only [UInt32.toNat_add] at *
    simp at *
    omega
  · simp only [hc, if_false]
    have hc' : ¬ (lo + bl).toNat < bl.toNat := fun h => hc (UInt32.lt_iff_toNat_lt.mpr h)
    simp only [UInt32.toNat_add] at *
    simp at *
    omega

theorem r32 (lo hi : UInt32) : ((lo >>> 3) &&& 0x3f).toNat = val2 hi lo / 8 % 64 := by
  unfold val2
  simp [UInt32.toNat_and, UInt32.toNat_shiftRight, Nat.shiftRight_eq_div_pow, and63]
  omega

theorem u8_of_shift32 (x : UInt32) (k : Nat) (hk : k < 32) :
    (x >>> UInt32.ofNat k).toUInt8 = UInt8.ofNat (x.toNat / 2^k) := by
  apply UInt8.toNat_inj.mp
  simp [UInt32.toNat_shiftRight, Nat.shiftRight_eq_div_pow, Nat.mod_eq_of_lt hk]

theorem ofNat8_congr (a b : Nat) (h : a % 256 = b % 256) : UInt8.ofNat a = UInt8.ofNat b := by
  apply UInt8.toNat_inj.mp; simpa using h

theorem be32enc_pair (hi lo : UInt32) : be32enc hi ++ be32enc lo = be64enc (val2 hi lo) := by
  unfold be32enc be64enc val2
  have hlo := lo.toNat_lt
  have hhi := hi.toNat_lt
  have h1 := u8_of_shift32 hi
  have h2 := u8_of_shift32 lo
  rw [show (24 : UInt32) = UInt32.ofNat 24 from rfl, show (16 : UInt32) = UInt32.ofNat 16 from rfl,
    show (8 : UInt32) = UInt32.ofNat 8 from rfl]
  rw [h1 24 (by omega), h1 16 (by omega), h1 8 (by omega), h2 24 (by omega), h2 16 (by omega), h2 8 (by omega)]
  have e1 : hi.toUInt8 = UInt8.ofNat hi.toNat := by apply UInt8.toNat_inj.mp; simp
  have e2 : lo.toUInt8 = UInt8.ofNat lo.toNat := by apply UInt8.toNat_inj.mp; simp
  rw [e1, e2]
  simp only [List.cons_append, List.nil_append]
  congr 1; apply ofNat8_congr; omega
  congr 1; apply ofNat8_congr; omega
  congr 1; apply ofNat8_congr; omega
  congr 1; apply ofNat8_congr; omega
  congr 1; apply ofNat8_congr; omega
  congr 1; apply ofNat8_congr; omega
  congr 1; apply ofNat8_congr; omega
  congr 1; apply ofNat8_congr; omega

theorem le32enc_pair (lo hi : UInt32) : le32enc lo ++ le32enc hi = le64enc (val2 hi lo) := by
  unfold le64enc
  rw [← be32enc_pair]
  simp [be32enc, le32enc]

/-- SHA-1's `uint32_t count[2]`, `count[0]` high -/
def cntSha1OK : CounterOK cntSha1 be64enc where
  val c := val2 c.c0 c.c1
  zero := rfl
  add c len := addLoHi_val c.c1 c.c0 len
  r c := r32 c.c1 c.c0
  enc c := be32enc_pair c.c0 c.c1

/-- MD5's `uint32_t count[2]`, `count[0]` low -/
def cntMd5OK : CounterOK cntMd5 le64enc where
  val c := val2 c.c1 c.c0
  zero := rfl
  add c len := addLoHi_val c.c0 c.c1 len
  r c := r32 c.c0 c.c1
  enc c := le32enc_pair c.c0 c.c1

end Percival.Proofs.Counters
