import Percival.Model.B64
import Percival.Spec.Rfc4648
import Percival.Proofs.ByteDecide
/-! Helper lemmas and main theorems about `Model.B64` against `Spec.Rfc4648`. -/
namespace Percival.Proofs.B64
open Percival.Model Percival.Spec Percival.Gen Percival.Proofs

/-- Gen obligation: the table in the C source is Table 1 of RFC 4648 followed by '=' -/
theorem b64chars_eq : CodecTables.b64chars = Rfc4648.alphabet ++ [Rfc4648.pad] := by decide

/-! ### generic helpers -/

theorem ind3 {α : Type} {P : List α → Prop} (h0 : P []) (h1 : ∀ a, P [a]) (h2 : ∀ a b, P [a, b])
    (h3 : ∀ a b c r, P r → P (a :: b :: c :: r)) : ∀ l, P l
  | [] => h0
  | [a] => h1 a
  | [a, b] => h2 a b
  | a :: b :: c :: r => h3 a b c r (ind3 h0 h1 h2 h3 r)

theorem rdR_append (pre l : List UInt8) (j : Nat) (c : UInt8) (h : l[j]? = some c) :
    rdR (pre ++ l).toArray (pre.length + j) = .ok c := by
  have : (pre ++ l).toArray[pre.length + j]? = some c := by
    rw [List.getElem?_toArray, List.getElem?_append_right (Nat.le_add_right _ _), Nat.add_sub_cancel_left]; exact h
  simp only [rdR, rd, this]

theorem tbl_alpha : ∀ i : Fin 64, B64.tbl[i.val]? = some (Rfc4648.alphaChar i.val) := by decide

theorem tblRd_alpha (i : Nat) (h : i < 64) : tblRd B64.tbl i = .ok (Rfc4648.alphaChar i) := by
  have := tbl_alpha ⟨i, h⟩
  simp only at this
  simp [tblRd, this]

/-! ### bit-group arithmetic (Spec side) -/
open Rfc4648 in
theorem nb_6_2_4 : ∀ x1 x0 y3 y2 y1 y0 : Bool,
    natOfBits [x1, x0, y3, y2, y1, y0] = natOfBits [x1, x0] * 16 + natOfBits [y3, y2, y1, y0] := by decide
open Rfc4648 in
theorem nb_6_4_2 : ∀ x3 x2 x1 x0 y1 y0 : Bool,
    natOfBits [x3, x2, x1, x0, y1, y0] = natOfBits [x3, x2, x1, x0] * 4 + natOfBits [y1, y0] := by decide

open Rfc4648 in
theorem byte_hi6 : ∀ a : UInt8, natOfBits [a.toNat.testBit 7, a.toNat.testBit 6, a.toNat.testBit 5,
    a.toNat.testBit 4, a.toNat.testBit 3, a.toNat.testBit 2] = a.toNat / 4 := by decide +kernel
open Rfc4648 in
theorem byte_lo2 : ∀ a : UInt8, natOfBits [a.toNat.testBit 1, a.toNat.testBit 0] = a.toNat % 4 := by decide +kernel
open Rfc4648 in
theorem byte_hi4 : ∀ a : UInt8, natOfBits [a.toNat.testBit 7, a.toNat.testBit 6, a.toNat.testBit 5,
    a.toNat.testBit 4] = a.toNat / 16 := by decide +kernel
open Rfc4648 in
theorem byte_lo4 : ∀ a : UInt8, natOfBits [a.toNat.testBit 3, a.toNat.testBit 2, a.toNat.testBit 1,
    a.toNat.testBit 0] = a.toNat % 16 := by decide +kernel
open Rfc4648 in
theorem byte_hi2 : ∀ a : UInt8, natOfBits [a.toNat.testBit 7, a.toNat.testBit 6] = a.toNat / 64 := by decide +kernel
open Rfc4648 in
theorem byte_lo6 : ∀ a : UInt8, natOfBits [a.toNat.testBit 5, a.toNat.testBit 4, a.toNat.testBit 3,
    a.toNat.testBit 2, a.toNat.testBit 1, a.toNat.testBit 0] = a.toNat % 64 := by decide +kernel

/-- the four 6-bit values of a 24-bit group -/
def sx0 (a : UInt8) : Nat := a.toNat / 4
def sx1 (a b : UInt8) : Nat := a.toNat % 4 * 16 + b.toNat / 16
def sx2 (b c : UInt8) : Nat := b.toNat % 16 * 4 + c.toNat / 64
def sx3 (c : UInt8) : Nat := c.toNat % 64

open Rfc4648 in
theorem encodeChars_cons3 (a b c : UInt8) (r : List UInt8) :
    encodeChars (a :: b :: c :: r) =
      [alphaChar (sx0 a), alphaChar (sx1 a b), alphaChar (sx2 b c), alphaChar (sx3 c)] ++ encodeChars r := by
  simp only [encodeChars, bits, bitsOfByte, List.cons_append, List.nil_append, sextets, List.map_cons]
  rw [nb_6_2_4 (a.toNat.testBit 1), nb_6_4_2 (b.toNat.testBit 3), byte_hi6, byte_lo2, byte_hi4, byte_lo4,
    byte_hi2, byte_lo6]
  rfl

open Rfc4648 in
theorem encode_cons3 (a b c : UInt8) (r : List UInt8) :
    encode (a :: b :: c :: r) =
      [alphaChar (sx0 a), alphaChar (sx1 a b), alphaChar (sx2 b c), alphaChar (sx3 c)] ++ encode r := by
  have : padding (a :: b :: c :: r).length = padding r.length := by
    simp only [padding, List.length_cons]
    have : (r.length + 1 + 1 + 1) % 3 = r.length % 3 := by omega
    simp only [this]
  simp only [encode, encodeChars_cons3, this, List.append_assoc]

open Rfc4648 in
theorem encode_one (a : UInt8) :
    encode [a] = [alphaChar (sx0 a), alphaChar (sx1 a 0), pad, pad] := by
  simp only [encode, encodeChars, bits, bitsOfByte, List.cons_append, List.nil_append, List.append_nil,
    sextets, List.map_cons, List.map_nil]
  rw [nb_6_2_4 (a.toNat.testBit 1), byte_hi6, byte_lo2]
  simp [padding, sx0, sx1, natOfBits]

open Rfc4648 in
theorem encode_two (a b : UInt8) :
    encode [a, b] = [alphaChar (sx0 a), alphaChar (sx1 a b), alphaChar (sx2 b 0), pad] := by
  simp only [encode, encodeChars, bits, bitsOfByte, List.cons_append, List.nil_append, List.append_nil,
    sextets, List.map_cons, List.map_nil]
  rw [nb_6_2_4 (a.toNat.testBit 1), nb_6_4_2 (b.toNat.testBit 3), byte_hi6, byte_lo2, byte_hi4, byte_lo4]
  simp [padding, sx0, sx1, sx2, natOfBits]

/-! ### encoder, model side -/

theorem idx6 (t : UInt32) : ((t >>> 18) &&& 0x3f).toNat = t.toNat / 262144 % 64 := by
  rw [UInt32.toNat_and, UInt32.toNat_shiftRight]
  show t.toNat >>> 18 &&& (2^6 - 1) = _
  rw [Nat.and_two_pow_sub_one_eq_mod, Nat.shiftRight_eq_div_pow]

theorem shl6 (t : UInt32) : (t <<< 6).toNat = t.toNat * 64 % 4294967296 := by
  rw [UInt32.toNat_shiftLeft]
  show t.toNat <<< 6 % _ = _
  rw [Nat.shiftLeft_eq]
theorem shl12 (t : UInt32) : (t <<< 12).toNat = t.toNat * 4096 % 4294967296 := by
  rw [UInt32.toNat_shiftLeft]
  show t.toNat <<< 12 % _ = _
  rw [Nat.shiftLeft_eq]
theorem shl18 (t : UInt32) : (t <<< 18).toNat = t.toNat * 262144 % 4294967296 := by
  rw [UInt32.toNat_shiftLeft]
  show t.toNat <<< 18 % _ = _
  rw [Nat.shiftLeft_eq]
theorem shl8 (t : UInt32) : (t <<< 8).toNat = t.toNat * 256 % 4294967296 := by
  rw [UInt32.toNat_shiftLeft]
  show t.toNat <<< 8 % _ = _
  rw [Nat.shiftLeft_eq]
theorem shl16 (t : UInt32) : (t <<< 16).toNat = t.toNat * 65536 % 4294967296 := by
  rw [UInt32.toNat_shiftLeft]
  show t.toNat <<< 16 % _ = _
  rw [Nat.shiftLeft_eq]

open Rfc4648 in
theorem writeGroup_eq (t : UInt32) (a b c : UInt8) (len : Nat) (hl : 1 ≤ len)
    (ht : t.toNat = a.toNat * 65536 + b.toNat * 256 + c.toNat) :
    B64.writeGroup t len = .ok [alphaChar (sx0 a), alphaChar (sx1 a b),
      if 2 ≤ len then alphaChar (sx2 b c) else pad, if 3 ≤ len then alphaChar (sx3 c) else pad] := by
  have ha := a.toNat_lt
  have hb := b.toNat_lt
  have hc := c.toNat_lt
  have e0 : ((t >>> 18) &&& 0x3f).toNat = sx0 a := by rw [idx6, ht]; unfold sx0; omega
  have e1 : (((t <<< 6) >>> 18) &&& 0x3f).toNat = sx1 a b := by rw [idx6, shl6, ht]; unfold sx1; omega
  have e2 : (((t <<< 12) >>> 18) &&& 0x3f).toNat = sx2 b c := by rw [idx6, shl12, ht]; unfold sx2; omega
  have e3 : (((t <<< 18) >>> 18) &&& 0x3f).toNat = sx3 c := by rw [idx6, shl18, ht]; unfold sx3; omega
  have l0 : sx0 a < 64 := by unfold sx0; omega
  have l1 : sx1 a b < 64 := by unfold sx1; omega
  have l2 : sx2 b c < 64 := by unfold sx2; omega
  have l3 : sx3 c < 64 := by unfold sx3; omega
  simp only [B64.writeGroup, B64.outChar, e0, e1, e2, e3, Nat.zero_le, hl, if_true, tblRd_alpha _ l0,
    tblRd_alpha _ l1, Res.ok_bind]
  by_cases h2 : 2 ≤ len <;> by_cases h3 : 3 ≤ len <;>
    simp [h2, h3, tblRd_alpha _ l2, tblRd_alpha _ l3, pad]


theorem readGroup3 (pre r : List UInt8) (a b c : UInt8) (len : Nat) (hl : 3 ≤ len) :
    ∃ t, B64.readGroup (pre ++ a :: b :: c :: r).toArray pre.length len = .ok t ∧
      t.toNat = a.toNat * 65536 + b.toNat * 256 + c.toNat := by
  have h0 : 0 < len := by omega
  have h1 : 1 < len := by omega
  have h2 : 2 < len := by omega
  refine ⟨(((((0 : UInt32) <<< 8) + a.toUInt32) <<< 8) + b.toUInt32) <<< 8 + c.toUInt32, ?_, ?_⟩
  · simp only [B64.readGroup, B64.grpStep, h0, h1, h2, if_true,
      rdR_append pre (a :: b :: c :: r) 0 a rfl, rdR_append pre (a :: b :: c :: r) 1 b rfl,
      rdR_append pre (a :: b :: c :: r) 2 c rfl, Res.ok_bind]
  · have ha := a.toNat_lt
    have hb := b.toNat_lt
    have hc := c.toNat_lt
    simp only [UInt32.toNat_add, shl8, UInt8.toNat_toUInt32, UInt32.toNat_zero]
    omega

theorem readGroup2 (pre : List UInt8) (a b : UInt8) :
    ∃ t, B64.readGroup (pre ++ [a, b]).toArray pre.length 2 = .ok t ∧
      t.toNat = a.toNat * 65536 + b.toNat * 256 + (0 : UInt8).toNat := by
  refine ⟨(((((0 : UInt32) <<< 8) + a.toUInt32) <<< 8) + b.toUInt32) <<< 8, ?_, ?_⟩
  · simp only [B64.readGroup, B64.grpStep, show 0 < 2 by omega, show 1 < 2 by omega, Nat.lt_irrefl, if_true, if_false,
      rdR_append pre [a, b] 0 a rfl, rdR_append pre [a, b] 1 b rfl, Res.ok_bind]
  · have ha := a.toNat_lt
    have hb := b.toNat_lt
    simp only [UInt32.toNat_add, shl8, UInt8.toNat_toUInt32, UInt32.toNat_zero]
    show _ = _ + _ + 0
    omega

theorem readGroup1 (pre : List UInt8) (a : UInt8) :
    ∃ t, B64.readGroup (pre ++ [a]).toArray pre.length 1 = .ok t ∧
      t.toNat = a.toNat * 65536 + (0 : UInt8).toNat * 256 + (0 : UInt8).toNat := by
  refine ⟨((((0 : UInt32) <<< 8) + a.toUInt32) <<< 8) <<< 8, ?_, ?_⟩
  · simp only [B64.readGroup, B64.grpStep, show 0 < 1 by omega, show ¬ 1 < 1 by omega, show ¬ 2 < 1 by omega,
      if_true, if_false, rdR_append pre [a] 0 a rfl, Res.ok_bind]
  · have ha := a.toNat_lt
    simp only [UInt32.toNat_add, shl8, UInt8.toNat_toUInt32, UInt32.toNat_zero]
    show _ = _ + 0 * 256 + 0
    omega

theorem encodeF_zero (inb : Buf) (f pos : Nat) (h : 1 ≤ f) : B64.encodeF inb f pos 0 = .ok [0] := by
  match f, h with
  | f+1, _ => simp [B64.encodeF]

theorem encodeF_eq (f : Nat) : ∀ (pre b : List UInt8), (b.length + 2) / 3 + 1 ≤ f →
    B64.encodeF (pre ++ b).toArray f pre.length b.length = .ok (Rfc4648.encode b ++ [0]) := by
  induction f with
  | zero => intro pre b h; omega
  | succ f ih =>
    intro pre b h
    match b, h with
    | [], _ => simp [B64.encodeF]; decide
    | [a], h =>
      obtain ⟨t, h1, h2⟩ := readGroup1 pre a
      have hw := writeGroup_eq t a 0 0 1 (Nat.le_refl _) h2
      have hf : 1 ≤ f := by simp at h; omega
      simp [B64.encodeF, h1, hw, encodeF_zero _ _ _ hf, encode_one]
    | [a, b], h =>
      obtain ⟨t, h1, h2⟩ := readGroup2 pre a b
      have hw := writeGroup_eq t a b 0 2 (by omega) h2
      have hf : 1 ≤ f := by simp at h; omega
      simp [B64.encodeF, h1, hw, encodeF_zero _ _ _ hf, encode_two]
    | a :: b :: c :: r, h =>
      obtain ⟨t, h1, h2⟩ := readGroup3 pre r a b c (r.length + 3) (by omega)
      have hw := writeGroup_eq t a b c (r.length + 3) (by omega) h2
      have hf : (r.length + 2) / 3 + 1 ≤ f := by simp at h; omega
      have := ih (pre ++ [a, b, c]) r hf
      simp only [List.append_assoc, List.cons_append, List.nil_append, List.length_append, List.length_cons,
        List.length_nil] at this
      have hm : min (r.length + 3) 3 = 3 := by omega
      have hn : ¬ (r.length + 1 + 1 + 1 < 3) := by omega
      have this' : B64.encodeF (pre ++ a :: b :: c :: r).toArray f (pre.length + 3) r.length =
          Res.ok (Rfc4648.encode r ++ [0]) := this
      simp [B64.encodeF, h1, hw, encode_cons3, hm, this', hn]

theorem b64encode_eq (b : List UInt8) :
    B64.b64encode b.toArray b.length = .ok (Rfc4648.encode b ++ [0]) := by
  have := encodeF_eq (b.length / 3 + 2) [] b (by omega)
  simpa [B64.b64encode] using this


/-! ### decoder: validation -/

theorem cls_bad : ∀ c : UInt8, (c == 0 || (strchrIdx B64.tbl c).isNone) = !(Rfc4648.isAlpha c || c == Rfc4648.pad) := by
  decide +kernel
theorem alpha_ne_pad : ∀ c : UInt8, Rfc4648.isAlpha c = true → (c == Rfc4648.pad) = false := by decide +kernel
theorem strchr_alpha : ∀ c : UInt8, Rfc4648.isAlpha c = true → strchrIdx B64.tbl c = Rfc4648.alphaVal c := by
  decide +kernel
theorem strchr_pad : strchrIdx B64.tbl Rfc4648.pad = some 64 := by decide +kernel
theorem alphaVal_lt : ∀ c : UInt8, ∀ v, Rfc4648.alphaVal c = some v → v < 64 := by
  intro c v h
  have : ∀ c : UInt8, (Rfc4648.alphaVal c).all (· < 64) = true := by decide +kernel
  have := this c
  rw [h] at this
  simpa using this

/-- the validation loop as a list function -/
def validate : List UInt8 → Nat → Option Nat
  | [], dead => some dead
  | c :: cs, dead =>
    if Rfc4648.isAlpha c then (if dead > 0 then none else validate cs dead)
    else if c == Rfc4648.pad then validate cs (dead + 1)
    else none

theorem validateF_eq (f : Nat) : ∀ (pre s : List UInt8) (dead : Nat), s.length + 1 ≤ f →
    B64.validateF (pre ++ s).toArray (pre ++ s).length f pre.length dead = .ok (validate s dead) := by
  induction f with
  | zero => intro pre s dead h; omega
  | succ f ih =>
    intro pre s dead h
    match s, h with
    | [], _ => simp [B64.validateF, validate]
    | c :: cs, h =>
      have hlt : pre.length < (pre ++ c :: cs).length := by simp
      have hr := rdR_append pre (c :: cs) 0 c rfl
      have hf : cs.length + 1 ≤ f := by simp at h; omega
      have := ih (pre ++ [c]) cs
      simp only [List.append_assoc, List.cons_append, List.nil_append, List.length_append, List.length_cons,
        List.length_nil] at this
      simp only [Nat.add_zero] at hr
      simp only [B64.validateF, hlt, if_true, hr, Res.ok_bind, cls_bad, validate]
      by_cases ha : Rfc4648.isAlpha c = true
      · have hp := alpha_ne_pad c ha
        have hp' : ¬ c = 0x3d := by simpa [Rfc4648.pad] using hp
        simp [ha, hp', this _ hf]
        by_cases hd : 0 < dead <;> simp [hd]
      · simp only [Bool.not_eq_true] at ha
        by_cases hp : (c == Rfc4648.pad) = true
        · have hp' : c = 0x3d := by simpa [Rfc4648.pad] using hp
          subst hp'
          have e : Rfc4648.pad = 61 := rfl
          simp only [Nat.zero_add] at this
          simp [ha, e, this _ hf]
        · simp only [Bool.not_eq_true] at hp
          simp [ha, hp]


theorem validate_body (body rest : List UInt8) (h : ∀ c ∈ body, Rfc4648.isAlpha c = true) :
    validate (body ++ rest) 0 = validate rest 0 := by
  induction body with
  | nil => rfl
  | cons c cs ih =>
    have hc : Rfc4648.isAlpha c = true := h c (by simp)
    have := ih (fun x hx => h x (by simp [hx]))
    simp [validate, hc, this]

theorem validate_pads (s : List UInt8) : ∀ d n, validate s (d + 1) = some n →
    s = List.replicate (n - d - 1) Rfc4648.pad ∧ d + 1 ≤ n := by
  induction s with
  | nil => intro d n h; simp [validate] at h; subst h; simp
  | cons c cs ih =>
    intro d n h
    simp only [validate] at h
    by_cases ha : Rfc4648.isAlpha c = true
    · simp [ha] at h
    · by_cases hp : (c == Rfc4648.pad) = true
      · simp [ha, hp] at h
        obtain ⟨h1, h2⟩ := ih (d + 1) n h
        have hc : c = Rfc4648.pad := by simpa using hp
        refine ⟨?_, by omega⟩
        have : n - d - 1 = (n - (d + 1) - 1) + 1 := by omega
        rw [this, List.replicate_succ, ← h1, hc]
      · simp [ha, hp] at h

theorem validate_some (s : List UInt8) : ∀ n, validate s 0 = some n →
    ∃ body, s = body ++ List.replicate n Rfc4648.pad ∧ ∀ c ∈ body, Rfc4648.isAlpha c = true := by
  induction s with
  | nil => intro n h; simp [validate] at h; subst h; exact ⟨[], by simp⟩
  | cons c cs ih =>
    intro n h
    simp only [validate] at h
    by_cases ha : Rfc4648.isAlpha c = true
    · simp [ha] at h
      obtain ⟨body, h1, h2⟩ := ih n h
      refine ⟨c :: body, by simp [h1], ?_⟩
      intro x hx
      simp at hx
      rcases hx with rfl | hx
      · exact ha
      · exact h2 x hx
    · by_cases hp : (c == Rfc4648.pad) = true
      · simp [ha, hp] at h
        obtain ⟨h1, h2⟩ := validate_pads cs 0 n h
        have hc : c = Rfc4648.pad := by simpa using hp
        refine ⟨[], ?_, by simp⟩
        have : n = (n - 0 - 1) + 1 := by omega
        rw [this, List.replicate_succ, ← h1, hc]; rfl
      · simp [ha, hp] at h

theorem wf_of_validate (s : List UInt8) (n : Nat) (hl : s.length % 4 = 0) (h : validate s 0 = some n) (hn : n ≤ 2) :
    Rfc4648.WF s := by
  obtain ⟨body, h1, h2⟩ := validate_some s n h
  refine ⟨hl, body, List.replicate n Rfc4648.pad, h1, h2, ?_⟩
  match n, hn with
  | 0, _ => simp
  | 1, _ => simp
  | 2, _ => simp [List.replicate]

theorem validate_of_wf (body pads : List UInt8) (h2 : ∀ c ∈ body, Rfc4648.isAlpha c = true)
    (h3 : pads = [] ∨ pads = [Rfc4648.pad] ∨ pads = [Rfc4648.pad, Rfc4648.pad]) :
    validate (body ++ pads) 0 = some pads.length := by
  rw [validate_body _ _ h2]
  rcases h3 with rfl | rfl | rfl <;> decide


/-! ### decoder: the group loop -/

theorem ind4 {α : Type} {P : List α → Prop} (h0 : P []) (h1 : ∀ a, P [a]) (h2 : ∀ a b, P [a, b])
    (h3 : ∀ a b c, P [a, b, c]) (h4 : ∀ a b c d r, P r → P (a :: b :: c :: d :: r)) : ∀ l, P l
  | [] => h0
  | [a] => h1 a
  | [a, b] => h2 a b
  | [a, b, c] => h3 a b c
  | a :: b :: c :: d :: r => h4 a b c d r (ind4 h0 h1 h2 h3 h4 r)

/-- `pos & 0x3f` for the character `c` -/
def cv (c : UInt8) : UInt32 :=
  match strchrIdx B64.tbl c with
  | some p => UInt32.ofNat p &&& 0x3f
  | none => 0

def tOf4 (c0 c1 c2 c3 : UInt8) : UInt32 :=
  ((((((0 : UInt32) <<< 6) + cv c0) <<< 6) + cv c1) <<< 6 + cv c2) <<< 6 + cv c3

def decAll : List UInt8 → List UInt8
  | c0 :: c1 :: c2 :: c3 :: r => B64.outBytes (tOf4 c0 c1 c2 c3) ++ decAll r
  | _ => []

def okc (c : UInt8) : Bool := Rfc4648.isAlpha c || c == Rfc4648.pad

theorem okc_some : ∀ c : UInt8, okc c = true → (strchrIdx B64.tbl c).isSome = true := by decide +kernel
theorem cv_lt : ∀ c : UInt8, (cv c).toNat < 64 := by decide +kernel
theorem cv_alpha : ∀ c : UInt8, Rfc4648.isAlpha c = true → some (cv c).toNat = Rfc4648.alphaVal c := by decide +kernel
theorem cv_pad : cv Rfc4648.pad = 0 := by decide +kernel

theorem decStep_eq (pre l : List UInt8) (i : Nat) (c : UInt8) (t : UInt32) (h : l[i]? = some c) (hc : okc c = true) :
    B64.decStep (pre ++ l).toArray pre.length i t = .ok ((t <<< 6) + cv c) := by
  have hs := okc_some c hc
  simp only [B64.decStep, rdR_append pre l i c h, Res.ok_bind, cv]
  cases hx : strchrIdx B64.tbl c with
  | none => simp [hx] at hs
  | some p => rfl

theorem decGroup_eq (pre r : List UInt8) (c0 c1 c2 c3 : UInt8)
    (h0 : okc c0 = true) (h1 : okc c1 = true) (h2 : okc c2 = true) (h3 : okc c3 = true) :
    B64.decGroup (pre ++ c0 :: c1 :: c2 :: c3 :: r).toArray pre.length = .ok (tOf4 c0 c1 c2 c3) := by
  simp only [B64.decGroup, decStep_eq pre (c0 :: c1 :: c2 :: c3 :: r) 0 c0 _ rfl h0,
    decStep_eq pre (c0 :: c1 :: c2 :: c3 :: r) 1 c1 _ rfl h1,
    decStep_eq pre (c0 :: c1 :: c2 :: c3 :: r) 2 c2 _ rfl h2,
    decStep_eq pre (c0 :: c1 :: c2 :: c3 :: r) 3 c3 _ rfl h3, Res.ok_bind, tOf4]

theorem decodeF_eq (f : Nat) : ∀ (pre s : List UInt8), s.length % 4 = 0 → (∀ c ∈ s, okc c = true) →
    s.length / 4 + 1 ≤ f → B64.decodeF (pre ++ s).toArray f pre.length s.length = .ok (decAll s) := by
  induction f with
  | zero => intro pre s _ _ h; omega
  | succ f ih =>
    intro pre s hl hok h
    match s, hl, hok, h with
    | [], _, _, _ => simp [B64.decodeF, decAll]
    | [_], hl, _, _ => simp at hl
    | [_, _], hl, _, _ => simp at hl
    | [_, _, _], hl, _, _ => simp at hl
    | c0 :: c1 :: c2 :: c3 :: r, hl, hok, h =>
      have hg := decGroup_eq pre r c0 c1 c2 c3 (hok _ (by simp)) (hok _ (by simp)) (hok _ (by simp)) (hok _ (by simp))
      have hl' : r.length % 4 = 0 := by simp at hl; omega
      have hf : r.length / 4 + 1 ≤ f := by simp at h; omega
      have := ih (pre ++ [c0, c1, c2, c3]) r hl' (fun c hc => hok c (by simp [hc])) hf
      simp only [List.append_assoc, List.cons_append, List.nil_append, List.length_append, List.length_cons,
        List.length_nil] at this
      have this' : B64.decodeF (pre ++ c0 :: c1 :: c2 :: c3 :: r).toArray f (pre.length + 4) r.length =
          .ok (decAll r) := this
      have hn : ¬ (r.length + 1 + 1 + 1 + 1 < 4) := by omega
      simp [B64.decodeF, hg, this', hn, decAll]

theorem decAll_length (s : List UInt8) : (decAll s).length = 3 * (s.length / 4) := by
  induction s using ind4 with
  | h0 => rfl
  | h1 => simp [decAll]
  | h2 => simp [decAll]
  | h3 => simp [decAll]
  | h4 a b c d r ih =>
    simp only [decAll, List.length_append, ih, List.length_cons, B64.outBytes, List.length_nil]
    omega


/-- anything else is rejected (and nothing was read outside the block, nothing stored) -/
theorem b64decode_not_wf (s : List UInt8) (h : ¬ Rfc4648.WF s) :
    B64.b64decode s.toArray s.length = .ok none := by
  unfold B64.b64decode
  by_cases hl : s.length % 4 = 0
  · have hv := validateF_eq (s.length + 1) [] s 0 (Nat.le_refl _)
    simp only [List.nil_append, List.length_nil] at hv
    simp only [hl, bne_self_eq_false, Bool.false_eq_true, if_false, hv, Res.ok_bind]
    cases hn : validate s 0 with
    | none => rfl
    | some n =>
      by_cases h2 : n > 2
      · simp [h2]
      · exact absurd (wf_of_validate s n hl hn (by omega)) h
  · simp [hl]

theorem okc_of_wf (body pads : List UInt8) (h2 : ∀ c ∈ body, Rfc4648.isAlpha c = true)
    (h3 : pads = [] ∨ pads = [Rfc4648.pad] ∨ pads = [Rfc4648.pad, Rfc4648.pad]) :
    ∀ c ∈ body ++ pads, okc c = true := by
  intro c hc
  simp only [List.mem_append] at hc
  rcases hc with hc | hc
  · simp [okc, h2 c hc]
  · have : c = Rfc4648.pad := by
      rcases h3 with rfl | rfl | rfl <;> simp at hc <;> exact hc
    subst this; rfl

theorem b64decode_wf_acc (body pads : List UInt8) (hl : (body ++ pads).length % 4 = 0)
    (h2 : ∀ c ∈ body, Rfc4648.isAlpha c = true)
    (h3 : pads = [] ∨ pads = [Rfc4648.pad] ∨ pads = [Rfc4648.pad, Rfc4648.pad]) :
    B64.b64decode (body ++ pads).toArray (body ++ pads).length =
        .ok (some (decAll (body ++ pads), (decAll (body ++ pads)).length - pads.length)) ∧
      pads.length ≤ (decAll (body ++ pads)).length := by
  have hp : pads.length ≤ 2 := by rcases h3 with rfl | rfl | rfl <;> simp
  have hle : pads.length ≤ (decAll (body ++ pads)).length := by
    rw [decAll_length]
    have : pads.length ≤ (body ++ pads).length := by simp
    generalize (body ++ pads).length = n at *
    omega
  refine ⟨?_, hle⟩
  unfold B64.b64decode
  have hv := validateF_eq ((body ++ pads).length + 1) [] (body ++ pads) 0 (Nat.le_refl _)
  simp only [List.nil_append, List.length_nil] at hv
  have hd := decodeF_eq ((body ++ pads).length / 4 + 1) [] (body ++ pads) hl (okc_of_wf body pads h2 h3) (Nat.le_refl _)
  simp only [List.nil_append, List.length_nil] at hd
  have hp' : ¬ pads.length > 2 := by omega
  simp only [hl, bne_self_eq_false, Bool.false_eq_true, if_false, hv, Res.ok_bind, validate_of_wf body pads h2 h3,
    hp', hd, hle, if_true]


/-! ### decoder: the value -/
section
open Rfc4648

theorem nb_8_6_2 : ∀ x5 x4 x3 x2 x1 x0 y1 y0 : Bool,
    natOfBits [x5, x4, x3, x2, x1, x0, y1, y0] = natOfBits [x5, x4, x3, x2, x1, x0] * 4 + natOfBits [y1, y0] := by
  decide
theorem nb_8_4_4 : ∀ x3 x2 x1 x0 y3 y2 y1 y0 : Bool,
    natOfBits [x3, x2, x1, x0, y3, y2, y1, y0] = natOfBits [x3, x2, x1, x0] * 16 + natOfBits [y3, y2, y1, y0] := by
  decide
theorem nb_8_2_6 : ∀ x1 x0 y5 y4 y3 y2 y1 y0 : Bool,
    natOfBits [x1, x0, y5, y4, y3, y2, y1, y0] = natOfBits [x1, x0] * 64 + natOfBits [y5, y4, y3, y2, y1, y0] := by
  decide

theorem s_all' : ∀ v : Fin 64, natOfBits [v.val.testBit 5, v.val.testBit 4, v.val.testBit 3, v.val.testBit 2,
    v.val.testBit 1, v.val.testBit 0] = v.val := by decide +kernel
theorem s_hi2' : ∀ v : Fin 64, natOfBits [v.val.testBit 5, v.val.testBit 4] = v.val / 16 := by decide +kernel
theorem s_lo4' : ∀ v : Fin 64, natOfBits [v.val.testBit 3, v.val.testBit 2, v.val.testBit 1, v.val.testBit 0] =
    v.val % 16 := by decide +kernel
theorem s_hi4' : ∀ v : Fin 64, natOfBits [v.val.testBit 5, v.val.testBit 4, v.val.testBit 3, v.val.testBit 2] =
    v.val / 4 := by decide +kernel
theorem s_lo2' : ∀ v : Fin 64, natOfBits [v.val.testBit 1, v.val.testBit 0] = v.val % 4 := by decide +kernel

theorem s_all (v : Nat) (h : v < 64) : natOfBits [v.testBit 5, v.testBit 4, v.testBit 3, v.testBit 2,
    v.testBit 1, v.testBit 0] = v := s_all' ⟨v, h⟩
theorem s_hi2 (v : Nat) (h : v < 64) : natOfBits [v.testBit 5, v.testBit 4] = v / 16 := s_hi2' ⟨v, h⟩
theorem s_lo4 (v : Nat) (h : v < 64) : natOfBits [v.testBit 3, v.testBit 2, v.testBit 1, v.testBit 0] = v % 16 :=
  s_lo4' ⟨v, h⟩
theorem s_hi4 (v : Nat) (h : v < 64) : natOfBits [v.testBit 5, v.testBit 4, v.testBit 3, v.testBit 2] = v / 4 :=
  s_hi4' ⟨v, h⟩
theorem s_lo2 (v : Nat) (h : v < 64) : natOfBits [v.testBit 1, v.testBit 0] = v % 4 := s_lo2' ⟨v, h⟩

def by0 (v0 v1 : Nat) : UInt8 := UInt8.ofNat (v0 * 4 + v1 / 16)
def by1 (v1 v2 : Nat) : UInt8 := UInt8.ofNat (v1 % 16 * 16 + v2 / 4)
def by2 (v2 v3 : Nat) : UInt8 := UInt8.ofNat (v2 % 4 * 64 + v3)

theorem octets4 (c0 c1 c2 c3 : UInt8) (r : List UInt8) (v0 v1 v2 v3 : Nat)
    (h0 : alphaVal c0 = some v0) (h1 : alphaVal c1 = some v1) (h2 : alphaVal c2 = some v2) (h3 : alphaVal c3 = some v3) :
    octets (charBits (c0 :: c1 :: c2 :: c3 :: r)) = by0 v0 v1 :: by1 v1 v2 :: by2 v2 v3 :: octets (charBits r) := by
  have l0 := alphaVal_lt _ _ h0
  have l1 := alphaVal_lt _ _ h1
  have l2 := alphaVal_lt _ _ h2
  have l3 := alphaVal_lt _ _ h3
  simp only [charBits, h0, h1, h2, h3, bitsOfSextet, List.cons_append, List.nil_append, octets]
  rw [nb_8_6_2, nb_8_4_4 (v1.testBit 3), nb_8_2_6 (v2.testBit 1), s_all _ l0, s_hi2 _ l1, s_lo4 _ l1, s_hi4 _ l2,
    s_lo2 _ l2, s_all _ l3]
  rfl

theorem octets3 (c0 c1 c2 : UInt8) (v0 v1 v2 : Nat)
    (h0 : alphaVal c0 = some v0) (h1 : alphaVal c1 = some v1) (h2 : alphaVal c2 = some v2) :
    octets (charBits [c0, c1, c2]) = [by0 v0 v1, by1 v1 v2] := by
  have l0 := alphaVal_lt _ _ h0
  have l1 := alphaVal_lt _ _ h1
  have l2 := alphaVal_lt _ _ h2
  simp only [charBits, h0, h1, h2, bitsOfSextet, List.cons_append, List.nil_append, List.append_nil, octets]
  rw [nb_8_6_2, nb_8_4_4 (v1.testBit 3), s_all _ l0, s_hi2 _ l1, s_lo4 _ l1, s_hi4 _ l2]
  rfl

theorem octets2 (c0 c1 : UInt8) (v0 v1 : Nat)
    (h0 : alphaVal c0 = some v0) (h1 : alphaVal c1 = some v1) :
    octets (charBits [c0, c1]) = [by0 v0 v1] := by
  have l0 := alphaVal_lt _ _ h0
  have l1 := alphaVal_lt _ _ h1
  simp only [charBits, h0, h1, bitsOfSextet, List.cons_append, List.nil_append, List.append_nil, octets]
  rw [nb_8_6_2, s_all _ l0, s_hi2 _ l1]
  rfl
end

theorem byte16 (t : UInt32) : ((t >>> 16) &&& 0xff).toUInt8.toNat = t.toNat / 65536 % 256 := by
  rw [UInt32.toNat_toUInt8, UInt32.toNat_and, UInt32.toNat_shiftRight]
  show (t.toNat >>> 16 &&& (2^8 - 1)) % 2^8 = _
  rw [Nat.and_two_pow_sub_one_eq_mod, Nat.shiftRight_eq_div_pow]
  omega

theorem outBytes_eq (t : UInt32) (v0 v1 v2 v3 : Nat) (_l0 : v0 < 64) (_l1 : v1 < 64) (l2 : v2 < 64) (l3 : v3 < 64)
    (ht : t.toNat = v0 * 262144 + v1 * 4096 + v2 * 64 + v3) :
    B64.outBytes t = [by0 v0 v1, by1 v1 v2, by2 v2 v3] := by
  have e0 : ((t >>> 16) &&& 0xff).toUInt8 = by0 v0 v1 := by
    rw [← UInt8.toNat_inj, byte16, ht, by0, UInt8.toNat_ofNat']; omega
  have e1 : (((t <<< 8) >>> 16) &&& 0xff).toUInt8 = by1 v1 v2 := by
    rw [← UInt8.toNat_inj, byte16, shl8, ht, by1, UInt8.toNat_ofNat']; omega
  have e2 : (((t <<< 16) >>> 16) &&& 0xff).toUInt8 = by2 v2 v3 := by
    rw [← UInt8.toNat_inj, byte16, shl16, ht, by2, UInt8.toNat_ofNat']; omega
  simp only [B64.outBytes, e0, e1, e2]

theorem tOf4_toNat (c0 c1 c2 c3 : UInt8) :
    (tOf4 c0 c1 c2 c3).toNat = (cv c0).toNat * 262144 + (cv c1).toNat * 4096 + (cv c2).toNat * 64 + (cv c3).toNat := by
  have l0 := cv_lt c0
  have l1 := cv_lt c1
  have l2 := cv_lt c2
  have l3 := cv_lt c3
  simp only [tOf4, UInt32.toNat_add, shl6, UInt32.toNat_zero]
  omega


theorem alpha_val (c : UInt8) (h : Rfc4648.isAlpha c = true) :
    ∃ v, Rfc4648.alphaVal c = some v ∧ (cv c).toNat = v ∧ v < 64 := by
  have h1 := cv_alpha c h
  exact ⟨(cv c).toNat, h1.symm, rfl, cv_lt c⟩

theorem decAll_group (c0 c1 c2 c3 : UInt8) :
    B64.outBytes (tOf4 c0 c1 c2 c3) = [by0 (cv c0).toNat (cv c1).toNat, by1 (cv c1).toNat (cv c2).toNat,
      by2 (cv c2).toNat (cv c3).toNat] :=
  outBytes_eq _ _ _ _ _ (cv_lt c0) (cv_lt c1) (cv_lt c2) (cv_lt c3) (tOf4_toNat c0 c1 c2 c3)

theorem decAll_wf (body : List UInt8) : ∀ (pads : List UInt8), (body ++ pads).length % 4 = 0 →
    (∀ c ∈ body, Rfc4648.isAlpha c = true) →
    (pads = [] ∨ pads = [Rfc4648.pad] ∨ pads = [Rfc4648.pad, Rfc4648.pad]) →
    ∃ junk, decAll (body ++ pads) = Rfc4648.octets (Rfc4648.charBits body) ++ junk ∧ junk.length = pads.length := by
  induction body using ind4 with
  | h0 =>
    intro pads hl _ h3
    rcases h3 with rfl | rfl | rfl
    · exact ⟨[], rfl, rfl⟩
    · simp at hl
    · simp at hl
  | h1 a =>
    intro pads hl _ h3
    rcases h3 with rfl | rfl | rfl <;> simp at hl
  | h2 a b =>
    intro pads hl h2 h3
    rcases h3 with rfl | rfl | rfl
    · simp at hl
    · simp at hl
    · obtain ⟨va, ha1, ha2, _⟩ := alpha_val a (h2 a (by simp))
      obtain ⟨vb, hb1, hb2, _⟩ := alpha_val b (h2 b (by simp))
      refine ⟨[by1 vb 0, by2 0 0], ?_, rfl⟩
      simp only [List.cons_append, List.nil_append, decAll, decAll_group, cv_pad, ha2, hb2, UInt32.toNat_zero,
        octets2 a b va vb ha1 hb1, List.append_nil]
  | h3 a b c =>
    intro pads hl h2 h3
    rcases h3 with rfl | rfl | rfl
    · simp at hl
    · obtain ⟨va, ha1, ha2, _⟩ := alpha_val a (h2 a (by simp))
      obtain ⟨vb, hb1, hb2, _⟩ := alpha_val b (h2 b (by simp))
      obtain ⟨vc, hc1, hc2, _⟩ := alpha_val c (h2 c (by simp))
      refine ⟨[by2 vc 0], ?_, rfl⟩
      simp only [List.cons_append, List.nil_append, decAll, decAll_group, cv_pad, ha2, hb2, hc2, UInt32.toNat_zero,
        octets3 a b c va vb vc ha1 hb1 hc1, List.append_nil]
    · simp at hl
  | h4 a b c d r ih =>
    intro pads hl h2 h3
    obtain ⟨va, ha1, ha2, _⟩ := alpha_val a (h2 a (by simp))
    obtain ⟨vb, hb1, hb2, _⟩ := alpha_val b (h2 b (by simp))
    obtain ⟨vc, hc1, hc2, _⟩ := alpha_val c (h2 c (by simp))
    obtain ⟨vd, hd1, hd2, _⟩ := alpha_val d (h2 d (by simp))
    have hl' : (r ++ pads).length % 4 = 0 := by
      simp only [List.length_append, List.length_cons] at hl ⊢; omega
    obtain ⟨junk, hj1, hj2⟩ := ih pads hl' (fun x hx => h2 x (by simp [hx])) h3
    refine ⟨junk, ?_, hj2⟩
    simp only [List.cons_append, decAll, decAll_group, ha2, hb2, hc2, hd2, hj1,
      octets4 a b c d r va vb vc vd ha1 hb1 hc1 hd1, List.nil_append]

theorem body_eq (body pads : List UInt8) (h2 : ∀ c ∈ body, Rfc4648.isAlpha c = true)
    (h3 : pads = [] ∨ pads = [Rfc4648.pad] ∨ pads = [Rfc4648.pad, Rfc4648.pad]) :
    Rfc4648.body (body ++ pads) = body := by
  induction body with
  | nil => rcases h3 with rfl | rfl | rfl <;> rfl
  | cons c cs ih =>
    have hc := alpha_ne_pad c (h2 c (by simp))
    have := ih (fun x hx => h2 x (by simp [hx]))
    simp only [Rfc4648.body] at this ⊢
    have hc' : (c != Rfc4648.pad) = true := by simp [bne, hc]
    rw [List.cons_append, List.takeWhile_cons, hc', this]; rfl

/-- a well-formed text is accepted; the stores are exactly 3 per group and the first `n` are what the text denotes -/
theorem b64decode_wf (s : List UInt8) (h : Rfc4648.WF s) :
    ∃ w n, B64.b64decode s.toArray s.length = .ok (some (w, n)) ∧ w.take n = Rfc4648.decode s ∧
      w.length = 3 * (s.length / 4) ∧ n ≤ w.length := by
  obtain ⟨hl, body, pads, rfl, h2, h3⟩ := h
  obtain ⟨hacc, hle⟩ := b64decode_wf_acc body pads hl h2 h3
  obtain ⟨junk, hj1, hj2⟩ := decAll_wf body pads hl h2 h3
  refine ⟨_, _, hacc, ?_, decAll_length _, Nat.sub_le _ _⟩
  rw [Rfc4648.decode, body_eq body pads h2 h3, hj1, List.length_append, hj2, Nat.add_sub_cancel]
  simp


/-! ### the RFC text of `b` -/
section
open Rfc4648

theorem alphaChar_ok' : ∀ v : Fin 64, alphaVal (alphaChar v.val) = some v.val := by decide +kernel
theorem alphaVal_alphaChar (v : Nat) (h : v < 64) : alphaVal (alphaChar v) = some v := alphaChar_ok' ⟨v, h⟩
theorem isAlpha_alphaChar (v : Nat) (h : v < 64) : isAlpha (alphaChar v) = true := by
  simp [isAlpha, alphaVal_alphaChar v h]

theorem sx0_lt (a : UInt8) : sx0 a < 64 := by have := a.toNat_lt; unfold sx0; omega
theorem sx1_lt (a b : UInt8) : sx1 a b < 64 := by have := a.toNat_lt; have := b.toNat_lt; unfold sx1; omega
theorem sx2_lt (a b : UInt8) : sx2 a b < 64 := by have := a.toNat_lt; have := b.toNat_lt; unfold sx2; omega
theorem sx3_lt (a : UInt8) : sx3 a < 64 := by unfold sx3; omega

theorem wf_cons4 (c0 c1 c2 c3 : UInt8) (s : List UInt8) (h0 : isAlpha c0 = true) (h1 : isAlpha c1 = true)
    (h2 : isAlpha c2 = true) (h3 : isAlpha c3 = true) (h : WF s) : WF (c0 :: c1 :: c2 :: c3 :: s) := by
  obtain ⟨hl, body, pads, rfl, hb, hp⟩ := h
  refine ⟨by simp only [List.length_cons]; omega, c0 :: c1 :: c2 :: c3 :: body, pads, rfl, ?_, hp⟩
  intro c hc
  simp only [List.mem_cons] at hc
  rcases hc with rfl | rfl | rfl | rfl | hc
  · exact h0
  · exact h1
  · exact h2
  · exact h3
  · exact hb c hc

/-- the RFC text of `b` is well formed and denotes `b` -/
theorem encode_wf (b : List UInt8) : WF (encode b) := by
  induction b using ind3 with
  | h0 => exact ⟨rfl, [], [], rfl, by simp, Or.inl rfl⟩
  | h1 a =>
    rw [encode_one]
    refine ⟨by simp, [alphaChar (sx0 a), alphaChar (sx1 a 0)], [pad, pad], rfl, ?_, Or.inr (Or.inr rfl)⟩
    intro c hc
    simp only [List.mem_cons, List.not_mem_nil, or_false] at hc
    rcases hc with rfl | rfl
    · exact isAlpha_alphaChar _ (sx0_lt _)
    · exact isAlpha_alphaChar _ (sx1_lt _ _)
  | h2 a b =>
    rw [encode_two]
    refine ⟨by simp, [alphaChar (sx0 a), alphaChar (sx1 a b), alphaChar (sx2 b 0)], [pad], rfl, ?_, Or.inr (Or.inl rfl)⟩
    intro c hc
    simp only [List.mem_cons, List.not_mem_nil, or_false] at hc
    rcases hc with rfl | rfl | rfl
    · exact isAlpha_alphaChar _ (sx0_lt _)
    · exact isAlpha_alphaChar _ (sx1_lt _ _)
    · exact isAlpha_alphaChar _ (sx2_lt _ _)
  | h3 a b c r ih =>
    rw [encode_cons3]
    exact wf_cons4 _ _ _ _ _ (isAlpha_alphaChar _ (sx0_lt _)) (isAlpha_alphaChar _ (sx1_lt _ _))
      (isAlpha_alphaChar _ (sx2_lt _ _)) (isAlpha_alphaChar _ (sx3_lt _)) ih

theorem by0_sx (a b : UInt8) : by0 (sx0 a) (sx1 a b) = a := by
  have : sx0 a * 4 + sx1 a b / 16 = a.toNat := by have := b.toNat_lt; unfold sx0 sx1; omega
  rw [by0, this]; exact UInt8.ofNat_toNat
theorem by1_sx (a b c : UInt8) : by1 (sx1 a b) (sx2 b c) = b := by
  have : sx1 a b % 16 * 16 + sx2 b c / 4 = b.toNat := by
    have := b.toNat_lt; have := c.toNat_lt; unfold sx1 sx2; omega
  rw [by1, this]; exact UInt8.ofNat_toNat
theorem by2_sx (b c : UInt8) : by2 (sx2 b c) (sx3 c) = c := by
  have : sx2 b c % 4 * 64 + sx3 c = c.toNat := by
    have := c.toNat_lt; unfold sx2 sx3; omega
  rw [by2, this]; exact UInt8.ofNat_toNat

theorem body_cons (c : UInt8) (s : List UInt8) (h : isAlpha c = true) : body (c :: s) = c :: body s := by
  have hc := alpha_ne_pad c h
  have hc' : (c != pad) = true := by simp [bne, hc]
  simp only [body]
  rw [List.takeWhile_cons, hc']; rfl

theorem decode_encode (b : List UInt8) : decode (encode b) = b := by
  induction b using ind3 with
  | h0 => rfl
  | h1 a =>
    have h0 := alphaVal_alphaChar _ (sx0_lt a)
    have h1 := alphaVal_alphaChar _ (sx1_lt a 0)
    have hb : body (encode [a]) = [alphaChar (sx0 a), alphaChar (sx1 a 0)] := by
      rw [encode_one, body_cons _ _ (isAlpha_alphaChar _ (sx0_lt _)), body_cons _ _ (isAlpha_alphaChar _ (sx1_lt _ _))]
      rfl
    rw [decode, hb, octets2 _ _ _ _ h0 h1, by0_sx]
  | h2 a b =>
    have h0 := alphaVal_alphaChar _ (sx0_lt a)
    have h1 := alphaVal_alphaChar _ (sx1_lt a b)
    have h2 := alphaVal_alphaChar _ (sx2_lt b 0)
    have hb : body (encode [a, b]) = [alphaChar (sx0 a), alphaChar (sx1 a b), alphaChar (sx2 b 0)] := by
      rw [encode_two, body_cons _ _ (isAlpha_alphaChar _ (sx0_lt _)), body_cons _ _ (isAlpha_alphaChar _ (sx1_lt _ _)),
        body_cons _ _ (isAlpha_alphaChar _ (sx2_lt _ _))]
      rfl
    rw [decode, hb, octets3 _ _ _ _ _ _ h0 h1 h2, by0_sx, by1_sx]
  | h3 a b c r ih =>
    have h0 := alphaVal_alphaChar _ (sx0_lt a)
    have h1 := alphaVal_alphaChar _ (sx1_lt a b)
    have h2 := alphaVal_alphaChar _ (sx2_lt b c)
    have h3 := alphaVal_alphaChar _ (sx3_lt c)
    rw [decode] at ih ⊢
    rw [encode_cons3]
    simp only [List.cons_append, List.nil_append]
    rw [body_cons _ _ (isAlpha_alphaChar _ (sx0_lt _)), body_cons _ _ (isAlpha_alphaChar _ (sx1_lt _ _)),
      body_cons _ _ (isAlpha_alphaChar _ (sx2_lt _ _)), body_cons _ _ (isAlpha_alphaChar _ (sx3_lt _)),
      octets4 _ _ _ _ _ _ _ _ _ h0 h1 h2 h3, ih, by0_sx, by1_sx, by2_sx]

end

/-- round trip through the model decoder -/
theorem b64decode_encode (b : List UInt8) :
    ∃ w, B64.b64decode (Rfc4648.encode b).toArray (Rfc4648.encode b).length = .ok (some (w, b.length)) ∧
      w.take b.length = b := by
  obtain ⟨w, n, h1, h2, _, h4⟩ := b64decode_wf _ (encode_wf b)
  rw [decode_encode] at h2
  have hn : n = b.length := by
    have := congrArg List.length h2
    rw [List.length_take] at this
    omega
  subst hn
  exact ⟨w, h1, h2⟩

open Rfc4648

theorem takeWhile_append_drop {α : Type} (p : α → Bool) (l : List α) :
    l = l.takeWhile p ++ l.drop (l.takeWhile p).length := by
  induction l with
  | nil => rfl
  | cons a l ih =>
    rw [List.takeWhile_cons]
    by_cases h : p a = true
    · simp only [h, if_true, List.length_cons, List.drop_succ_cons, List.cons_append]
      rw [← ih]
    · simp [h]

/-- executable `wfb` decides `WF` -/
theorem wfb_iff (s : List UInt8) : wfb s = true ↔ WF s := by
  constructor
  · intro h
    simp only [wfb, Bool.and_eq_true, beq_iff_eq, Bool.or_eq_true, List.all_eq_true] at h
    obtain ⟨hl, hb, hp⟩ := h
    exact ⟨hl, body s, s.drop (body s).length, takeWhile_append_drop _ s, hb, by
      rcases hp with (hp | hp) | hp
      · exact Or.inl hp
      · exact Or.inr (Or.inl hp)
      · exact Or.inr (Or.inr hp)⟩
  · rintro ⟨hl, bd, pads, rfl, hb, hp⟩
    have hbe := body_eq bd pads hb hp
    simp only [wfb, Bool.and_eq_true, beq_iff_eq, Bool.or_eq_true, List.all_eq_true, hbe, List.drop_left']
    refine ⟨hl, hb, ?_⟩
    rcases hp with hp | hp | hp
    · exact Or.inl (Or.inl hp)
    · exact Or.inl (Or.inr hp)
    · exact Or.inr hp

end Percival.Proofs.B64
