import Percival.Proofs.AfMonRel
import Percival.Proofs.AllocFail
import Percival.Proofs.HeapRun
import Percival.Proofs.HeapCreateAlloc
/-!
# C14: the pointer-heap piece of the relation between `pmodel af` and the monitor `pmodel afmon`

`HeapRel s ms`: the monitor's ideal heap `ms.heap` (the list of live ids) and keys `ms.keys` are the harness'
bookkeeping `s.hlive` / `s.keys` of the model state; the model's heap `s.h` exists exactly when the monitor's
does, holds exactly the live ids, satisfies C13's invariant under the current keys (`Proofs.Heap.Inv`) and the
storage invariant `AllocFail.HInv`.

`heap_step`: for every operation but `end`, `HeapRel` is preserved by `next`, and for the six heap operations
the monitor accepts the model's answer.
-/
namespace Percival.Proofs.AfMonHeap
open Percival.Model Percival.Model.AfStep Percival.Model.HeapAlloc
open Percival.Model.DsStep (rf)
open Percival.Spec Percival.Spec.AfMon
open Percival.Proofs.AfMonRel (ansOf Accepts next)
open Percival.Proofs.AllocFail (HInv heap_add_spec shape_inv)
open Percival.Proofs.Heap (Inv)

/-- the heap part of a state of `stepOp` that has a heap, against the monitor's list of live ids -/
structure HeapOk (keys : List (Nat × Int)) (ha : HeapA) (live : List Nat) : Prop where
  nodup : live.Nodup
  small : ∀ e ∈ live, e < MAXID
  perm : ha.h.a.toList.Perm live
  inv : Inv (keyFn keys) ha.h
  hinv : HInv ha

/-- the heap piece of the state relation -/
structure HeapRel (s : S) (ms : MState) : Prop where
  keys : ms.keys = s.keys
  noHeap : s.h = none → ms.heap = none
  heap : ∀ ha, s.h = some ha → ms.heap = some s.hlive ∧ HeapOk s.keys ha s.hlive

theorem heapRel_init : HeapRel {} {} := ⟨rfl, fun _ => rfl, fun _ h => by cases h⟩

def isHeapOp : Op → Bool
  | .hInit | .hAdd _ _ | .hMin | .hDelmin | .hFree | .hCreate _ => true
  | _ => false

/-! ## pigeonhole: at most `n` distinct naturals below `n` -/

theorem nodup_length_le : ∀ (n : Nat) (l : List Nat), l.Nodup → (∀ e ∈ l, e < n) → l.length ≤ n
  | 0, l, _, hs => by
    cases l with
    | nil => simp
    | cons x _ => exact absurd (hs x List.mem_cons_self) (Nat.not_lt_zero _)
  | n+1, l, hnd, hs => by
    have ih := nodup_length_le n (l.erase n) (hnd.erase n) (by
      intro e he
      have := (hnd.mem_erase_iff).mp he
      have := hs e this.2
      omega)
    have := List.length_erase (a := n) (l := l)
    split at this <;> omega

/-! ## frame: the other operations touch neither side of the heap piece -/

theorem frame_model (s : S) (op : Op) (hh : isHeapOp op = false) (he : op ≠ .end_) :
    (stepOp s op).1.h = s.h ∧ (stepOp s op).1.keys = s.keys ∧ (stepOp s op).1.hlive = s.hlive := by
  cases op <;> simp only [isHeapOp] at hh <;> try (exact absurd rfl he) <;> try (cases hh)
  all_goals (simp only [stepOp]; repeat' split) <;> (refine ⟨?_, ?_, ?_⟩ <;> first | rfl | trivial)

theorem frame_mon (ms : MState) (op : Op) (a : Ans) (hh : isHeapOp op = false) :
    (monStep ms op a).1.heap = ms.heap ∧ (monStep ms op a).1.keys = ms.keys ∨ op = .end_ := by
  cases op <;> simp only [isHeapOp] at hh <;> try (cases hh)
  all_goals first
    | (right; rfl)
    | (left; simp only [monStep]; repeat' split) <;> (refine ⟨?_, ?_⟩ <;> first | rfl | trivial)

theorem heapRel_frame (s : S) (ms : MState) (op : Op) (hh : isHeapOp op = false) (he : op ≠ .end_)
    (h : HeapRel s ms) : HeapRel (next s ms op).1 (next s ms op).2 := by
  obtain ⟨m1, m2, m3⟩ := frame_model s op hh he
  rcases frame_mon ms op (ansOf s op) hh with ⟨f1, f2⟩ | f
  · simp only [next]
    exact ⟨by rw [f2, m2]; exact h.keys, fun hn => by rw [f1]; exact h.noHeap (m1 ▸ hn),
      fun ha hha => by rw [f1, m2, m3]; exact h.heap ha (m1 ▸ hha)⟩
  · exact absurd f he

/-! ## `hInit` -/

/-- the allocator state `ptrheap_init` starts from: an existing heap is freed first -/
def initMem (s : S) : Mem := match s.h with | some ha => HeapAlloc.free ha s.m | none => s.m

theorem stepOp_hInit (s : S) : stepOp s .hInit =
    match HeapAlloc.init (initMem s) with
    | (some ha, m') => ({ s with m := m', h := some ha, hlive := [] },
        .heap true (rf (initMem s) m') none (hView (some ha) (initMem s) m'))
    | (none, m') => ({ s with m := m', h := none, hlive := [] },
        .heap false (rf (initMem s) m') none (hView none (initMem s) m')) := rfl

theorem hInit_ok (s : S) (ms : MState) (h : HeapRel s ms) :
    Accepts s ms .hInit ∧ HeapRel (next s ms .hInit).1 (next s ms .hInit).2 := by
  simp only [Accepts, next, ansOf, stepOp_hInit]
  generalize initMem s = m0
  have hs := Percival.Proofs.EvRegTimer.heapInit_spec m0
  rcases hres : HeapAlloc.init m0 with ⟨_ | ha, m'⟩
  · rw [hres] at hs
    simp only at hs
    have hrf : rf m0 m' > 0 := by simp only [rf]; omega
    simp only [Out.ans, monStep, Ans.failRefused, Ans.rfn]
    simp [hrf]
    exact ⟨h.keys, fun _ => rfl, fun _ hh => by cases hh⟩
  · rw [hres] at hs
    simp only at hs
    simp only [Out.ans, monStep]
    simp
    refine ⟨h.keys, fun hh => (by cases hh), fun ha' hh => ?_⟩
    cases hh
    refine ⟨rfl, List.nodup_nil, fun _ he => (by cases he), ?_, ?_, ?_, hs.2.1⟩
    · rw [hs.1]; simp [Heap.empty]
    · rw [hs.1]; exact Percival.Proofs.Heap.inv_empty _
    · rw [hs.1]; simp [Heap.empty]

/-! ## `hAdd` -/

theorem stepOp_hAdd_none (s : S) (e : Nat) (k : Int) (h : s.h = none) : stepOp s (.hAdd e k) = (s, .word .skip) := by
  simp only [stepOp, h]

theorem stepOp_hAdd_skip (s : S) (e : Nat) (k : Int) (ha : HeapA) (h : s.h = some ha)
    (hc : (decide (e ≥ MAXID) || s.hlive.contains e) = true) : stepOp s (.hAdd e k) = (s, .word .skip) := by
  simp only [stepOp, h, hc, if_true]

theorem stepOp_hAdd_go (s : S) (e : Nat) (k : Int) (ha : HeapA) (h : s.h = some ha)
    (hc : (decide (e ≥ MAXID) || s.hlive.contains e) = false) :
    stepOp s (.hAdd e k) =
      let r := HeapAlloc.add (keyFn ((e, k) :: s.keys)) ha e s.m
      if r.1 = true then
        ({ s with m := r.2.2, h := some r.2.1, keys := (e, k) :: s.keys, hlive := e :: s.hlive },
         .heap true (rf s.m r.2.2) none (hView (some r.2.1) s.m r.2.2))
      else
        ({ s with m := r.2.2, h := some r.2.1, keys := (e, k) :: s.keys },
         .heap false (rf s.m r.2.2) none (hView (some r.2.1) s.m r.2.2)) := by
  simp only [stepOp, h, hc]
  rcases HeapAlloc.add (keyFn ((e, k) :: s.keys)) ha e s.m with ⟨_ | _, ha', m'⟩ <;> simp

theorem keyFn_cons_ne (keys : List (Nat × Int)) (e x : Nat) (k : Int) (h : x ≠ e) :
    keyFn ((e, k) :: keys) x = keyFn keys x := by
  have : (e == x) = false := by simpa using fun h' => h h'.symm
  simp [keyFn, List.find?, this]

theorem hAdd_ok (s : S) (ms : MState) (e : Nat) (k : Int) (h : HeapRel s ms) :
    Accepts s ms (.hAdd e k) ∧ HeapRel (next s ms (.hAdd e k)).1 (next s ms (.hAdd e k)).2 := by
  simp only [Accepts, next, ansOf]
  cases hsh : s.h with
  | none =>
    have hm := h.noHeap hsh
    simp only [stepOp_hAdd_none s e k hsh, Out.ans, monStep, hm, accept, Ans.isJust]
    exact ⟨by simp, h⟩
  | some ha =>
    obtain ⟨hm, hok⟩ := h.heap ha hsh
    cases hc : (decide (e ≥ MAXID) || s.hlive.contains e) with
    | true =>
      simp only [stepOp_hAdd_skip s e k ha hsh hc, Out.ans, monStep, hm, hc, accept, Ans.isJust]
      exact ⟨by simp, h⟩
    | false =>
      have hfresh : e ∉ s.hlive := by
        intro hmem; simp [hmem] at hc
      have hlen : s.hlive.length ≤ 4096 := nodup_length_le 4096 _ hok.nodup hok.small
      have hsz : ha.h.a.size = s.hlive.length := by
        have := hok.perm.length_eq; simpa using this
      have hnotin : ∀ i : Nat, ha.h.a[i]? ≠ some e := by
        intro i hi
        exact hfresh (hok.perm.mem_iff.mp ((Percival.Proofs.Heap.mem_iff_get _ _).mpr ⟨i, hi⟩))
      have hinv2 : Inv (keyFn ((e, k) :: s.keys)) ha.h := by
        apply Percival.Proofs.Heap.inv_key_congr (keyFn s.keys) _ ha.h hok.inv
        intro i x hx
        apply keyFn_cons_ne
        intro hxe; subst hxe; exact hnotin i hx
      have hspec := heap_add_spec (keyFn ((e, k) :: s.keys)) ha e s.m hok.hinv (by
        rw [hsz]; simp only [Percival.Proofs.EArray.SIZE_MAX_eq]; omega)
      simp only [stepOp_hAdd_go s e k ha hsh hc, monStep, hm, hc]
      cases hr : (HeapAlloc.add (keyFn ((e, k) :: s.keys)) ha e s.m).1 with
      | true =>
        obtain ⟨hh, hhinv, _⟩ := hspec.1 hr
        simp only [if_true, Out.ans]
        simp
        refine ⟨by rw [h.keys], fun hh' => (by cases hh'), fun ha' hh' => ?_⟩
        cases hh'
        refine ⟨rfl, List.nodup_cons.mpr ⟨hfresh, hok.nodup⟩, ?_, ?_, ?_, hhinv⟩
        · intro x hx
          rcases List.mem_cons.mp hx with rfl | hx
          · simp at hc; exact hc.1
          · exact hok.small x hx
        · rw [hh]
          exact (Percival.Proofs.Heap.add_perm _ _ _).trans ((List.perm_cons e).mpr hok.perm)
        · rw [hh]
          exact Percival.Proofs.Heap.add_inv _ _ _ hinv2 hnotin
      | false =>
        obtain ⟨hh, hrf, _⟩ := hspec.2.1 hr
        have hrf' : rf s.m (HeapAlloc.add (keyFn ((e, k) :: s.keys)) ha e s.m).2.2 > 0 := by
          simp only [rf]; omega
        simp only [Bool.false_eq_true, if_false, Out.ans, Ans.failRefused, Ans.rfn]
        simp [hrf']
        refine ⟨by rw [h.keys], fun hh' => (by cases hh'), fun ha' hh' => ?_⟩
        cases hh'
        rw [hh]
        exact ⟨rfl, hok.nodup, hok.small, hok.perm, hinv2, hok.hinv⟩

/-! ## `hMin` -/

theorem hMin_ok (s : S) (ms : MState) (h : HeapRel s ms) :
    Accepts s ms .hMin ∧ HeapRel (next s ms .hMin).1 (next s ms .hMin).2 := by
  simp only [Accepts, next, ansOf]
  cases hsh : s.h with
  | none =>
    have hm := h.noHeap hsh
    simp only [stepOp, hsh, Out.ans, monStep, hm, accept, Ans.isJust]
    exact ⟨by simp, h⟩
  | some ha =>
    obtain ⟨hm, hok⟩ := h.heap ha hsh
    simp only [stepOp, hsh, monStep, hm, h.keys]
    cases hg : Heap.getmin ha.h with
    | none =>
      have hnil := (Percival.Proofs.Heap.getmin_none_iff ha.h).mp hg
      have hp := hok.perm
      rw [hnil] at hp
      have : s.hlive = [] := by simpa using hp
      simp only [Out.ans, accept]
      exact ⟨by simp [PQ.getminOk, this], h⟩
    | some x =>
      have hl := Percival.Proofs.Heap.isLeast_perm hok.perm
        (Percival.Proofs.Heap.getmin_isLeast (keyFn s.keys) ha.h x hok.inv hg)
      simp only [Out.ans, accept]
      exact ⟨by simp [PQ.getminOk, (PQ.isLeast_iff _ _ _).mpr hl], h⟩

/-! ## `hDelmin` -/

theorem heapA_delete_spec (key : Nat → Int) (ha : HeapA) (m : Mem) (hi : Inv key ha.h) (hh : HInv ha)
    (hne : 0 < ha.h.a.size) :
    ∃ ha' m' x, HeapAlloc.delete key ha 0 m = some (ha', m') ∧ Heap.getmin ha.h = some x ∧ Inv key ha'.h ∧
      ha.h.a.toList.Perm (x :: ha'.h.a.toList) ∧ HInv ha' := by
  obtain ⟨h', x, hdel, hi', hx, _, hperm, hsz'⟩ := Percival.Proofs.Heap.delete_spec key ha.h 0 hi hne
  have hs := Percival.Proofs.EArray.shrink_spec (HeapAlloc.shape ha.h.a.size ha.alloc) 1 SeqMap.ptrLen m
    (shape_inv hh.1 hh.2)
  unfold HeapAlloc.delete
  rw [hdel]
  dsimp only
  rcases hres : EArray.shrink (HeapAlloc.shape ha.h.a.size ha.alloc) 1 SeqMap.ptrLen m with ⟨a', m'⟩
  rw [hres] at hs
  dsimp only at hs ⊢
  refine ⟨_, _, x, rfl, hx, hi', hperm, ⟨?_, hs.1.lt⟩⟩
  show 8 * h'.a.size ≤ a'.alloc
  have := hs.1.le
  have hsz := hs.2.1
  simp only [HeapAlloc.shape, SeqMap.ptrLen, Nat.one_mul] at hsz
  omega

theorem heapA_delete_none (key : Nat → Int) (ha : HeapA) (m : Mem) (hne : ha.h.a.size = 0) :
    HeapAlloc.delete key ha 0 m = none := by
  unfold HeapAlloc.delete
  rw [Percival.Proofs.Heap.delete_none key ha.h 0 (by omega)]

theorem hDelmin_ok (s : S) (ms : MState) (h : HeapRel s ms) :
    Accepts s ms .hDelmin ∧ HeapRel (next s ms .hDelmin).1 (next s ms .hDelmin).2 := by
  simp only [Accepts, next, ansOf]
  cases hsh : s.h with
  | none =>
    have hm := h.noHeap hsh
    simp only [stepOp, hsh, Out.ans, monStep, hm, accept, Ans.isJust]
    exact ⟨by simp, h⟩
  | some ha =>
    obtain ⟨hm, hok⟩ := h.heap ha hsh
    by_cases hne : 0 < ha.h.a.size
    · obtain ⟨ha', m', x, hdel, hg, hi', hperm, hh'⟩ :=
        heapA_delete_spec (keyFn s.keys) ha s.m hok.inv hok.hinv hne
      have hl := Percival.Proofs.Heap.isLeast_perm hok.perm
        (Percival.Proofs.Heap.getmin_isLeast (keyFn s.keys) ha.h x hok.inv hg)
      simp only [stepOp, hsh, hg, hdel, monStep, hm, h.keys, Out.ans, Ans.isJust]
      simp [(PQ.isLeast_iff _ _ _).mpr hl]
      refine ⟨rfl, fun hh'' => (by cases hh''), fun ha'' hh'' => ?_⟩
      cases hh''
      refine ⟨rfl, (hok.nodup.erase x), ?_, ?_, hi', hh'⟩
      · intro y hy; exact hok.small y (List.mem_of_mem_erase hy)
      · exact (Percival.Proofs.Heap.perm_erase_of_cons (hok.perm.symm.trans hperm)).symm
    · have hz : ha.h.a.size = 0 := by omega
      have hd := heapA_delete_none (keyFn s.keys) ha s.m hz
      have hlive : s.hlive = [] := by
        have := hok.perm.length_eq
        simp only [Array.length_toList, hz] at this
        exact List.eq_nil_of_length_eq_zero this.symm
      have hg : Heap.getmin ha.h = none := by
        simp only [Heap.getmin]; rw [Array.getElem?_eq_none_iff]; omega
      simp only [stepOp, hsh, hd, hg, monStep, hm, Out.ans, Ans.isJust, accept]
      exact ⟨by simp [hlive], h⟩

/-! ## `hFree` -/

theorem hFree_ok (s : S) (ms : MState) (h : HeapRel s ms) :
    Accepts s ms .hFree ∧ HeapRel (next s ms .hFree).1 (next s ms .hFree).2 := by
  simp only [Accepts, next, ansOf]
  cases hsh : s.h with
  | none =>
    have hm := h.noHeap hsh
    simp only [stepOp, hsh, Out.ans, monStep, hm, accept, Ans.isJust]
    exact ⟨by simp, h⟩
  | some ha =>
    obtain ⟨hm, hok⟩ := h.heap ha hsh
    simp only [stepOp, hsh, Out.ans, monStep, hm, accept]
    simp
    exact ⟨h.keys, fun _ => rfl, fun _ hh => (by cases hh)⟩

/-! ## `hCreate` -/

theorem distinct_iff_nodup : ∀ l : List Nat, distinct l = true ↔ l.Nodup
  | [] => by simp [distinct]
  | x :: r => by
    simp only [distinct, Bool.and_eq_true, Bool.not_eq_true', List.nodup_cons, distinct_iff_nodup r]
    constructor
    · rintro ⟨h1, h2⟩; exact ⟨by intro hm; simp [hm] at h1, h2⟩
    · rintro ⟨h1, h2⟩; exact ⟨by simpa using h1, h2⟩

/-- a `h_create` line that is carried out names distinct ids the harness can name (so at most 4096 of them) -/
theorem createSkip_false (els : List (Nat × Int)) (h : createSkip els = false) :
    (els.map (·.1)).Nodup ∧ (∀ e ∈ els.map (·.1), e < MAXID) ∧ (els.map (·.1)).length ≤ 4096 := by
  simp only [createSkip, Bool.or_eq_false_iff, Bool.not_eq_false'] at h
  have hnd := (distinct_iff_nodup _).mp h.2
  have hsm : ∀ e ∈ els.map (·.1), e < MAXID := by
    intro e he
    obtain ⟨p, hp, rfl⟩ := List.mem_map.mp he
    have := h.1
    rw [List.any_eq_false] at this
    have := this p hp
    simpa using this
  exact ⟨hnd, hsm, nodup_length_le 4096 _ hnd hsm⟩

theorem stepOp_hCreate_skip (s : S) (els : List (Nat × Int)) (hc : createSkip els = true) :
    stepOp s (.hCreate els) = (s, .word .skip) := by
  simp only [stepOp, hc, if_true]

theorem stepOp_hCreate_go (s : S) (els : List (Nat × Int)) (hc : createSkip els = false) :
    stepOp s (.hCreate els) =
      match HeapAlloc.create (keyFn (els ++ s.keys)) (els.map (·.1)) (initMem s) with
      | (some ha, m') => ({ s with m := m', h := some ha, keys := els ++ s.keys, hlive := els.map (·.1) },
          .heap true (rf (initMem s) m') none (hView (some ha) (initMem s) m'))
      | (none, m') => ({ s with m := m', h := none, keys := els ++ s.keys, hlive := [] },
          .heap false (rf (initMem s) m') none (hView none (initMem s) m')) := by
  simp only [stepOp, hc]
  rfl

theorem hCreate_ok (s : S) (ms : MState) (els : List (Nat × Int)) (h : HeapRel s ms) :
    Accepts s ms (.hCreate els) ∧ HeapRel (next s ms (.hCreate els)).1 (next s ms (.hCreate els)).2 := by
  simp only [Accepts, next, ansOf]
  cases hc : createSkip els with
  | true =>
    simp only [stepOp_hCreate_skip s els hc, Out.ans, monStep, hc, if_true, accept, Ans.isJust]
    exact ⟨by simp, h⟩
  | false =>
    obtain ⟨hnd, hsm, hlen⟩ := createSkip_false els hc
    simp only [stepOp_hCreate_go s els hc]
    generalize initMem s = m0
    have hs := Percival.Proofs.HeapCreateAlloc.create_spec (keyFn (els ++ s.keys)) (els.map (·.1)) m0
    rcases hres : HeapAlloc.create (keyFn (els ++ s.keys)) (els.map (·.1)) m0 with ⟨_ | ha, m'⟩
    · rw [hres] at hs ⊢
      simp only at hs
      have hrf : rf m0 m' > 0 := by
        simp only [rf]
        rcases hs.2 with h1 | h1
        · omega
        · simp only [Percival.Proofs.EArray.SIZE_MAX_eq] at h1; omega
      simp only [Out.ans, monStep, hc, Ans.failRefused, Ans.rfn]
      simp [hrf]
      exact ⟨by rw [h.keys], fun _ => rfl, fun _ hh => by cases hh⟩
    · rw [hres] at hs ⊢
      simp only at hs
      obtain ⟨hh, hhinv, _, hrf, _⟩ := hs
      have hrf0 : rf m0 m' = 0 := by simp only [rf]; omega
      simp only [Out.ans, monStep, hc, Ans.rfn, hrf0]
      simp
      refine ⟨by rw [h.keys], fun hh' => (by cases hh'), fun ha' hh' => ?_⟩
      cases hh'
      refine ⟨rfl, hnd, hsm, ?_, ?_, hhinv⟩
      · rw [hh]; exact Percival.Proofs.Heap.create_perm _ _
      · rw [hh]; exact Percival.Proofs.Heap.create_inv _ _ hnd

/-! ## all operations -/

/-- the heap piece of the relation is kept by every operation but `end` (assuming nothing about the other
pieces), and the monitor accepts the model's answer to each of the six heap operations -/
theorem heap_step (s : S) (ms : MState) (op : Op) (hop : op ≠ .end_) (h : HeapRel s ms) :
    (isHeapOp op = true → Accepts s ms op) ∧ HeapRel (next s ms op).1 (next s ms op).2 := by
  cases hh : isHeapOp op with
  | false => exact ⟨fun hf => (by cases hf), heapRel_frame s ms op hh hop h⟩
  | true =>
    cases op <;> simp only [isHeapOp] at hh <;> try (cases hh)
    · exact ⟨fun _ => (hInit_ok s ms h).1, (hInit_ok s ms h).2⟩
    · exact ⟨fun _ => (hAdd_ok s ms _ _ h).1, (hAdd_ok s ms _ _ h).2⟩
    · exact ⟨fun _ => (hMin_ok s ms h).1, (hMin_ok s ms h).2⟩
    · exact ⟨fun _ => (hDelmin_ok s ms h).1, (hDelmin_ok s ms h).2⟩
    · exact ⟨fun _ => (hFree_ok s ms h).1, (hFree_ok s ms h).2⟩
    · exact ⟨fun _ => (hCreate_ok s ms _ h).1, (hCreate_ok s ms _ h).2⟩

/-- along any sequence of operations without `end`: `HeapRel` holds throughout -/
theorem heapRel_run (ops : List Op) (hops : ∀ op ∈ ops, op ≠ .end_) :
    ∀ (s : S) (ms : MState), HeapRel s ms →
      HeapRel (ops.foldl (fun p op => next p.1 p.2 op) (s, ms)).1 (ops.foldl (fun p op => next p.1 p.2 op) (s, ms)).2 := by
  induction ops with
  | nil => intro s ms h; exact h
  | cons op rest ih =>
    intro s ms h
    simp only [List.foldl_cons]
    exact ih (fun o ho => hops o (List.mem_cons_of_mem _ ho)) _ _
      (heap_step s ms op (hops op List.mem_cons_self) h).2

/-! ## non-vacuity -/

/-- the states after `hinit; hadd 5 7; hadd 3 2; hadd 9 2` (the allocator grants everything) -/
def exOps : List Op := [.hInit, .hAdd 5 7, .hAdd 3 2, .hAdd 9 2]
def exState : S × MState := exOps.foldl (fun p op => next p.1 p.2 op) ({}, {})

example : HeapRel exState.1 exState.2 := heapRel_run exOps (by decide) _ _ heapRel_init

-- a heap of three elements, `3` (key 2) at the root, and the monitor knows the same three
example : exState.1.h.map (·.h.a) = some #[3, 5, 9] ∧ exState.2.heap = some [9, 3, 5] ∧ exState.1.hlive = [9, 3, 5] ∧
    exState.2.keys = [(9, 2), (3, 2), (5, 7)] := by decide

-- `hmin` / `hdelmin` in that state answer `ok id=3`, which the monitor judges by `isLeast` (and accepts)
example : (ansOf exState.1 .hDelmin).id = .val 3 ∧ (ansOf exState.1 .hDelmin).head = .ok ∧
    (monStep exState.2 .hDelmin (ansOf exState.1 .hDelmin)).2 = none ∧
    (monStep exState.2 .hDelmin { ansOf exState.1 .hDelmin with id := .val 5 }).2 ≠ none := by decide

-- under a refusing allocator `hinit` and `hadd` answer `fail` with `rf > 0`, which is accepted only because of `rf`
example : let s := (stepOp {} (.failfrom 1)).1
    (ansOf s .hInit).head = .fail ∧ (ansOf s .hInit).rf = some 1 ∧ (monStep {} .hInit (ansOf s .hInit)).2 = none ∧
    (monStep {} .hInit { ansOf s .hInit with rf := some 0 }).2 ≠ none := by decide

example : let s := (stepOp (stepOp {} .hInit).1 (.failfrom 1)).1
    (ansOf s (.hAdd 1 1)).head = .fail ∧ (ansOf s (.hAdd 1 1)).rf = some 1 := by decide

end Percival.Proofs.AfMonHeap
