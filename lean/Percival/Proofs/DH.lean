import Percival.Model.DH
/-! Helper lemmas for C10 (core Lean only). -/
namespace Percival.Proofs.DH
open Percival.Model.DH Percival
open Percival.Spec.DH (ofBE)

theorem powModAux_eq (a m : Nat) (f e : Nat) (h : e < 2^f) : powModAux a m f e = a^e % m := by
  induction f generalizing a e with
  | zero =>
    have : e = 0 := by simpa using h
    subst this; simp [powModAux]
  | succ f ih =>
    simp only [powModAux]
    split
    · rename_i h0; subst h0; simp
    · have hlt : e / 2 < 2^f := by
        have : 2^(f+1) = 2 * 2^f := by rw [Nat.pow_succ]; omega
        omega
      rw [ih (a * a % m) (e / 2) hlt]
      have he : e = 2 * (e / 2) + e % 2 := by omega
      have hsq : (a * a % m)^(e/2) % m = a^(2 * (e/2)) % m := by
        rw [← Nat.pow_mod, Nat.pow_mul]; congr 2; exact (Nat.pow_two a).symm
      split
      · rename_i h1
        rw [hsq]
        conv => rhs; rw [he, h1, Nat.pow_succ, Nat.mul_comm]
        rw [Nat.mul_mod, Nat.mod_mod, ← Nat.mul_mod]
      · rename_i h1
        have h2 : e % 2 = 0 := by omega
        rw [hsq]
        conv => rhs; rw [he, h2, Nat.add_zero]

/-- the model's `BN_mod_exp` is modular exponentiation -/
theorem powMod_eq (a e m : Nat) : powMod a e m = a^e % m :=
  powModAux_eq a m _ e Nat.lt_log2_self

/-! ### big-endian encodings -/

theorem ofBE_lt (l : List UInt8) : ofBE l < 256^l.length := by
  induction l with
  | nil => simp [Spec.DH.ofBE]
  | cons b bs ih =>
    have hb : b.toNat < 256 := by have := b.toNat_lt; simpa using this
    simp only [Spec.DH.ofBE, List.length_cons, Nat.pow_succ] at *
    generalize (256:Nat)^bs.length = k at *
    calc b.toNat * k + Spec.DH.ofBE bs < b.toNat * k + k := by omega
      _ = (b.toNat + 1) * k := by rw [Nat.add_mul]; omega
      _ ≤ 256 * k := Nat.mul_le_mul_right k (by omega)
      _ = k * 256 := Nat.mul_comm _ _

theorem ofBE_append_single (l : List UInt8) (b : UInt8) : ofBE (l ++ [b]) = ofBE l * 256 + b.toNat := by
  induction l with
  | nil => simp [Spec.DH.ofBE]
  | cons c cs ih =>
    simp only [Spec.DH.ofBE, List.cons_append, List.length_append, List.length_cons,
      List.length_nil] at *
    rw [ih, Nat.pow_succ]
    generalize (256:Nat)^cs.length = k
    rw [Nat.add_mul, Nat.mul_assoc]; omega

theorem toBE_length (len n : Nat) : (toBE len n).length = len := by
  induction len generalizing n with
  | zero => simp [toBE]
  | succ len ih => simp [toBE, ih]

theorem ofBE_toBE (len n : Nat) (h : n < 256^len) : ofBE (toBE len n) = n := by
  induction len generalizing n with
  | zero =>
    have : n = 0 := by simpa using h
    simp [toBE, Spec.DH.ofBE, this]
  | succ len ih =>
    simp only [toBE]
    rw [ofBE_append_single, ih (n / 256) (by rw [Nat.pow_succ] at h; omega)]
    have : (UInt8.ofNat (n % 256)).toNat = n % 256 := by
      simp [UInt8.toNat_ofNat']
    rw [this]; omega

theorem ofBE_inj (a b : List UInt8) (h : a.length = b.length) (he : ofBE a = ofBE b) : a = b := by
  induction a generalizing b with
  | nil => cases b with
    | nil => rfl
    | cons _ _ => simp at h
  | cons x xs ih =>
    cases b with
    | nil => simp at h
    | cons y ys =>
      have hl : xs.length = ys.length := by simpa using h
      have hx := ofBE_lt xs
      have hy := ofBE_lt ys
      simp only [Spec.DH.ofBE] at *
      rw [hl] at hx he
      generalize (256:Nat)^ys.length = k at *
      have hk : 0 < k := by omega
      have h1 : x.toNat = y.toNat := by
        have e1 : (x.toNat * k + Spec.DH.ofBE xs) / k = x.toNat := by
          rw [Nat.mul_comm, Nat.mul_add_div hk, Nat.div_eq_of_lt hx]; omega
        have e2 : (y.toNat * k + Spec.DH.ofBE ys) / k = y.toNat := by
          rw [Nat.mul_comm, Nat.mul_add_div hk, Nat.div_eq_of_lt hy]; omega
        rw [← e1, ← e2, he]
      have h2 : Spec.DH.ofBE xs = Spec.DH.ofBE ys := by rw [h1] at he; omega
      rw [ih ys hl h2, UInt8.toNat_inj.mp h1]

theorem toBE_ofBE (l : List UInt8) : toBE l.length (ofBE l) = l :=
  ofBE_inj _ _ (toBE_length _ _) (ofBE_toBE _ _ (ofBE_lt l))

theorem toBE_zero (len : Nat) : toBE len 0 = List.replicate len 0 := by
  induction len with
  | zero => simp [toBE]
  | succ len ih =>
    simp only [toBE, Nat.zero_div, Nat.zero_mod, ih]
    rw [List.replicate_succ']
    rfl

theorem bn2bin_zero : bn2bin 0 = [] := by
  rw [bn2bin]; simp

theorem bn2bin_pos (n : Nat) (h : n ≠ 0) : bn2bin n = bn2bin (n / 256) ++ [UInt8.ofNat (n % 256)] := by
  rw [bn2bin]; simp [h]

/-- zero padding + minimal encoding = fixed-width encoding, and the minimal encoding fits -/
theorem pad_bn2bin (len n : Nat) (h : n < 256^len) :
    numBytes n ≤ len ∧ List.replicate (len - numBytes n) 0 ++ bn2bin n = toBE len n := by
  induction len generalizing n with
  | zero =>
    have : n = 0 := by simpa using h
    subst this
    simp [numBytes, bn2bin_zero, toBE]
  | succ len ih =>
    by_cases hn : n = 0
    · subst hn
      simp [numBytes, bn2bin_zero, toBE_zero]
    · have hlt : n / 256 < 256^len := by rw [Nat.pow_succ] at h; omega
      obtain ⟨hle, heq⟩ := ih (n / 256) hlt
      have hnb : numBytes n = numBytes (n / 256) + 1 := by
        simp [numBytes, bn2bin_pos n hn]
      constructor
      · omega
      · rw [hnb, bn2bin_pos n hn, toBE, ← heq]
        have : len + 1 - (numBytes (n / 256) + 1) = len - numBytes (n / 256) := by omega
        rw [this, List.append_assoc]

/-! ### memcmp = numeric comparison on equal-length big-endian strings -/

theorem memcmp_spec (a b : List UInt8) (h : a.length = b.length) :
    (memcmp a b < 0 ↔ ofBE a < ofBE b) ∧ (memcmp a b = 0 ↔ ofBE a = ofBE b) ∧
    (memcmp a b > 0 ↔ ofBE a > ofBE b) := by
  induction a generalizing b with
  | nil =>
    cases b with
    | nil => simp [memcmp, Spec.DH.ofBE]
    | cons _ _ => simp at h
  | cons x xs ih =>
    cases b with
    | nil => simp at h
    | cons y ys =>
      have hl : xs.length = ys.length := by simpa using h
      obtain ⟨i1, i2, i3⟩ := ih ys hl
      have hx := ofBE_lt xs
      have hy := ofBE_lt ys
      simp only [memcmp, Spec.DH.ofBE] at *
      rw [hl] at hx ⊢
      generalize (256:Nat)^ys.length = k at *
      have hxy : x < y ↔ x.toNat < y.toNat := UInt8.lt_iff_toNat_lt
      have hyx : y < x ↔ y.toNat < x.toNat := UInt8.lt_iff_toNat_lt
      by_cases c1 : x < y
      · have c1' := hxy.mp c1
        have : x.toNat * k + k ≤ y.toNat * k := by
          have := Nat.mul_le_mul_right k (show x.toNat + 1 ≤ y.toNat by omega)
          rw [Nat.add_mul] at this; omega
        simp only [c1, if_true]
        constructor
        · constructor
          · intro _; omega
          · intro _; decide
        · constructor
          · constructor
            · intro hc; exact absurd hc (by decide)
            · intro _; omega
          · constructor
            · intro hc; exact absurd hc (by decide)
            · intro _; omega
      · by_cases c2 : x > y
        · have c2' := hyx.mp c2
          have : y.toNat * k + k ≤ x.toNat * k := by
            have := Nat.mul_le_mul_right k (show y.toNat + 1 ≤ x.toNat by omega)
            rw [Nat.add_mul] at this; omega
          simp only [c1, c2, if_true, if_false]
          constructor
          · constructor
            · intro hc; exact absurd hc (by decide)
            · intro _; omega
          · constructor
            · constructor
              · intro hc; exact absurd hc (by decide)
              · intro _; omega
            · constructor
              · intro _; omega
              · intro _; decide
        · have heq : x.toNat = y.toNat := by
            have n1 : ¬ x.toNat < y.toNat := fun h => c1 (hxy.mpr h)
            have n2 : ¬ y.toNat < x.toNat := fun h => c2 (hyx.mpr h)
            omega
          simp only [c1, c2, if_false, heq]
          constructor
          · rw [i1]; omega
          · constructor
            · rw [i2]; omega
            · rw [i3]; omega

/-! ### the blinding identity -/

theorem blinded_identity (a p e b : Nat) (hle : b ≤ e) :
    (a^b % p) * (a^(e - b) % p) % p = a^e % p := by
  rw [← Nat.mul_mod, ← Nat.pow_add, Nat.add_sub_cancel' hle]

end Percival.Proofs.DH
