import Percival.Model.Events
/-!
# The event-loop model does not read its event log

`Model.Events.State.trace` is only ever prepended to (`emit`, `faulted`): running any function of the model on a
state whose log has older events `T` below gives the same state and the same new events on top of `T`
(`*_app`).  Hence cutting the log after every input line, as `Model.Events.stepOp` does, changes nothing:
the lines `pmodel events` prints, concatenated, are `Model.Events.run` (`runOps_concat`).
-/
set_option linter.unusedSimpArgs false
namespace Percival.Proofs.EventsStep
open Percival.Spec.Events Percival.Model.Events

/-- the same state with older events `T` below its event log -/
abbrev app (s : State) (T : List Ev) : State := { s with trace := s.trace ++ T }

theorem emit_app (s : State) (T) (e : Ev) : emit (app s T) e = app (emit s e) T := rfl
theorem faulted_app (s : State) (T) : faulted (app s T) = app (faulted s) T := rfl
theorem isLive_app (s : State) (T) (id : Nat) : isLive (app s T) id = isLive s id := rfl
@[simp] theorem app_fault (s : State) (T) : (app s T).fault = s.fault := rfl
@[simp] theorem app_imm (s : State) (T) : (app s T).imm = s.imm := rfl
@[simp] theorem app_net (s : State) (T) : (app s T).net = s.net := rfl
@[simp] theorem app_tq (s : State) (T) : (app s T).tq = s.tq := rfl
@[simp] theorem app_timers (s : State) (T) : (app s T).timers = s.timers := rfl
@[simp] theorem app_nextRec (s : State) (T) : (app s T).nextRec = s.nextRec := rfl
@[simp] theorem app_intr (s : State) (T) : (app s T).intr = s.intr := rfl
@[simp] theorem app_scripts (s : State) (T) : (app s T).scripts = s.scripts := rfl
@[simp] theorem app_clock (s : State) (T) : (app s T).clock = s.clock := rfl
@[simp] theorem app_pollq (s : State) (T) : (app s T).pollq = s.pollq := rfl
@[simp] theorem app_cbcount (s : State) (T) : (app s T).cbcount = s.cbcount := rfl
@[simp] theorem app_done (s : State) (T) : (app s T).done = s.done := rfl
@[simp] theorem app_trace (s : State) (T) : (app s T).trace = s.trace ++ T := rfl

theorem applyOp_app (s : State) (T) (o : Op) : applyOp (app s T) o = app (applyOp s o) T := by
  unfold applyOp
  simp only [app_fault, isLive_app, app_imm, app_net, app_tq, app_timers, app_nextRec, app_clock]
  by_cases h : s.fault = true
  · simp only [h, if_true]
  · simp only [h]
    cases o with
    | regImm id prio =>
      simp only
      by_cases hc : (isLive s id || decide (prio ≥ 32)) = true
      · rw [if_pos hc, if_pos hc]; rfl
      · rw [if_neg hc, if_neg hc]
        cases immRegister s.imm id prio <;> rfl
    | cancelImm id =>
      simp only
      cases immPrioOf s.imm id with
      | none => rfl
      | some p =>
        simp only
        cases immCancel s.imm id p <;> rfl
    | regNet id fd d =>
      simp only
      by_cases hc : isLive s id = true
      · rw [if_pos hc, if_pos hc]; rfl
      · rw [if_neg hc, if_neg hc]
        cases netRegister s.net id fd d with
        | none => rfl
        | some x => rfl
    | cancelNet fd d =>
      simp only
      cases netCancel s.net fd d with
      | none => rfl
      | some x => rfl
    | regTimer id usec =>
      simp only
      by_cases hc : isLive s id = true
      · rw [if_pos hc, if_pos hc]; rfl
      · rw [if_neg hc, if_neg hc]; rfl
    | cancelTimer id =>
      simp only
      have ht : timerOf (app s T) id = timerOf s id := rfl
      rw [ht]
      cases timerOf s id with
      | none => rfl
      | some t =>
        simp only
        cases Percival.Model.TimerQueue.delete s.tq t.qrec <;> rfl
    | resetTimer id =>
      simp only
      have ht : timerOf (app s T) id = timerOf s id := rfl
      rw [ht]
      cases timerOf s id with
      | none => rfl
      | some t =>
        simp only
        cases Percival.Model.TimerQueue.increase s.tq t.qrec (gettimeout s.clock t.osec t.ousec).1 (gettimeout s.clock t.osec t.ousec).2 <;> rfl
    | interrupt => rfl
    | clock us => rfl
    | done => rfl

theorem foldl_applyOp_app (ops : List Op) : ∀ (s : State) (T), ops.foldl applyOp (app s T) = app (ops.foldl applyOp s) T := by
  induction ops with
  | nil => intro s T; rfl
  | cons o ops ih => intro s T; simp only [List.foldl_cons, applyOp_app, ih]

theorem doevent_app (s : State) (T) (id : Nat) : doevent (app s T) id = (app (doevent s id).1 T, (doevent s id).2) := by
  have h1 : emit { app s T with cbcount := (app s T).cbcount + 1 } (.cb id) =
      app (emit { s with cbcount := s.cbcount + 1 } (.cb id)) T := rfl
  have hs : ∀ x : State, scriptOf (app x T) id = scriptOf x id := fun _ => rfl
  unfold doevent
  rw [h1]
  simp only [app_cbcount, hs, foldl_applyOp_app, emit_app]
  by_cases hc : (emit { s with cbcount := s.cbcount + 1 } (.cb id)).cbcount > cbCap
  · rw [if_pos hc]; try rw [if_pos hc]
  · rw [if_neg hc]; try rw [if_neg hc]

theorem answer_app (s : State) (T) (timeout : Int) (adv : Nat) (a : List (Nat × Bits)) (rest : List PollAns) :
    pollLoop.answer (app s T) timeout adv a rest = app (pollLoop.answer s timeout adv a rest) T := by
  unfold pollLoop.answer
  refine Eq.trans ?_ (apply_ite (fun x => app x T) _ _ _).symm
  rfl

theorem pollLoop_app (wait : Option ((Int × Int) × Nat)) : ∀ (q : List PollAns) (s : State) (T) (timeout : Int),
    pollLoop (app s T) wait timeout q = app (pollLoop s wait timeout q) T := by
  intro q
  induction q with
  | nil => intro s T timeout; simp only [pollLoop, answer_app]
  | cons x rest ih =>
    intro s T timeout
    cases x with
    | ans adv a => simp only [pollLoop, answer_app]
    | eintr adv =>
      simp only [pollLoop]
      have h1 : emit { app s T with clock := (app s T).clock + adv, pollq := rest }
            (.poll timeout adv (pollEntries (app s T).net.fds (fun _ => {})) .eintr) =
          app (emit { s with clock := s.clock + adv, pollq := rest }
            (.poll timeout adv (pollEntries s.net.fds (fun _ => {})) .eintr)) T := rfl
      rw [h1]
      simp only [app_intr, app_clock]
      split
      · rfl
      · exact ih _ _ _
    | intr adv => simp only [pollLoop]; rfl

theorem netSelect_app (s : State) (T) (tv : Option (Int × Int)) : netSelect (app s T) tv = app (netSelect s tv) T := by
  unfold netSelect
  have hw : waitStart (app s T) tv = waitStart s tv := rfl
  simp only [hw, pollLoop_app]

theorem timerGet_app (s : State) (T) : timerGet (app s T) = (app (timerGet s).1 T, (timerGet s).2) := by
  unfold timerGet
  simp only [app_tq, app_clock]
  split <;> rfl

theorem immGetS_app (s : State) (T) : immGetS (app s T) = (app (immGetS s).1 T, (immGetS s).2) := rfl

theorem netGetS_app (s : State) (T) : netGetS (app s T) = (app (netGetS s).1 T, (netGetS s).2) := by
  unfold netGetS
  simp only [app_net]
  split <;> rfl

theorem immLoop_app : ∀ (f : Nat) (s : State) (T) (id : Nat),
    immLoop f (app s T) id = (app (immLoop f s id).1 T, (immLoop f s id).2) := by
  intro f
  induction f with
  | zero => intro s T id; rfl
  | succ f ih =>
    intro s T id
    simp only [immLoop, doevent_app]
    split
    · rfl
    · split
      · rfl
      · split
        · rfl
        · simp only [immGetS_app]
          cases hg : immGetS (doevent s id).1 with
          | mk s2 r =>
            cases r with
            | none => rfl
            | some id' => simp only [ih]

theorem mainLoop_app : ∀ (f : Nat) (s : State) (T),
    mainLoop f (app s T) = (app (mainLoop f s).1 T, (mainLoop f s).2) := by
  intro f
  induction f with
  | zero => intro s T; rfl
  | succ f ih =>
    intro s T
    simp only [mainLoop]
    by_cases hf : s.fault = true
    · rw [if_pos hf, if_pos hf]
    rw [if_neg hf, if_neg hf]
    by_cases hi : s.intr = true
    · rw [if_pos hi, if_pos hi]
    rw [if_neg hi, if_neg hi]
    have hde : ∀ (s1 : State) (id : Nat),
        (if (doevent (app s1 T) id).2 ≠ 0 then ((doevent (app s1 T) id).1, (doevent (app s1 T) id).2)
          else mainLoop f (doevent (app s1 T) id).1) =
        (app (if (doevent s1 id).2 ≠ 0 then ((doevent s1 id).1, (doevent s1 id).2) else mainLoop f (doevent s1 id).1).1 T,
         (if (doevent s1 id).2 ≠ 0 then ((doevent s1 id).1, (doevent s1 id).2) else mainLoop f (doevent s1 id).1).2) := by
      intro s1 id
      rw [doevent_app]
      by_cases hrc : (doevent s1 id).2 ≠ 0
      · simp only [hrc, if_true, ne_eq, not_false_eq_true]
      · simp only [hrc, if_false, ne_eq, not_true_eq_false]
        exact ih _ _
    rw [immGetS_app]
    cases h1 : immGetS s with
    | mk s1 r1 =>
    cases r1 with
    | some id => exact hde s1 id
    | none =>
    simp only []
    rw [netGetS_app]
    cases h2 : netGetS s1 with
    | mk s2 r2 =>
    cases r2 with
    | some id => exact hde s2 id
    | none =>
    simp only []
    by_cases hf2 : s2.fault = true
    · rw [if_pos hf2, if_pos hf2]
    rw [if_neg hf2, if_neg hf2]
    rw [netSelect_app, netGetS_app]
    cases h4 : netGetS (netSelect s2 (some (0, 0))) with
    | mk s4 r4 =>
    cases r4 with
    | some id => exact hde s4 id
    | none =>
    simp only []
    by_cases hf4 : s4.fault = true
    · rw [if_pos hf4, if_pos hf4]
    rw [if_neg hf4, if_neg hf4]
    rw [timerGet_app]
    cases h5 : timerGet s4 with
    | mk s5 r5 =>
    cases r5 with
    | some id => exact hde s5 id
    | none => rfl

theorem runInternal_app (fuel : Nat) (s : State) (T) :
    runInternal fuel (app s T) = (app (runInternal fuel s).1 T, (runInternal fuel s).2) := by
  unfold runInternal
  simp only [immGetS_app]
  cases h1 : immGetS s with
  | mk s1 r1 =>
    cases r1 with
    | some id => simp only [immLoop_app]
    | none =>
      have ht : timerMin (app s1 T) = timerMin s1 := rfl
      simp only [ht, netSelect_app, mainLoop_app]

theorem eventsRun_app (fuel : Nat) (s : State) (T) : eventsRun fuel (app s T) = app (eventsRun fuel s) T := by
  unfold eventsRun
  have h0 : emit { app s T with cbcount := 0 } .runBegin = app (emit { s with cbcount := 0 } .runBegin) T := rfl
  simp only [h0, runInternal_app, app_fault]
  split <;> rfl

theorem spinLoop_app (fuel : Nat) : ∀ (n : Nat) (s : State) (T) (rc : Int),
    spinLoop fuel n (app s T) rc = (app (spinLoop fuel n s rc).1 T, (spinLoop fuel n s rc).2) := by
  intro n
  induction n with
  | zero => intro s T rc; rfl
  | succ n ih =>
    intro s T rc
    simp only [spinLoop, runInternal_app, app_done, app_intr, app_fault]
    split
    · exact ih _ _ _
    · rfl

theorem eventsSpin_app (fuel : Nat) (s : State) (T) : eventsSpin fuel (app s T) = app (eventsSpin fuel s) T := by
  unfold eventsSpin
  have h0 : emit { app s T with cbcount := 0 } .spinBegin = app (emit { s with cbcount := 0 } .spinBegin) T := rfl
  simp only [h0, spinLoop_app, app_fault]
  split <;> rfl

/-- **the step does not read the log** -/
theorem stepTop_app (fuel : Nat) (s : State) (T) (t : Top) : stepTop fuel (app s T) t = app (stepTop fuel s t) T := by
  cases t with
  | api o => exact applyOp_app s T o
  | script id sc => rfl
  | pollAns a => rfl
  | run =>
    simp only [stepTop, app_fault]
    split
    · rfl
    · exact eventsRun_app fuel s T
  | spin =>
    simp only [stepTop, app_fault]
    split
    · rfl
    · exact eventsSpin_app fuel s T


/-! ## the lines `pmodel events` prints, concatenated, are the model's trace -/

/-- the state with its log cut -/
abbrev cut (s : State) : State := { s with trace := [] }

theorem app_cut (s : State) : app (cut s) s.trace = s := rfl

/-- one line: the full-log step is the cut-log step with the old log below; the line shows the new events -/
theorem stepOp_spec (s : State) (t : Top) :
    stepTop runFuel s t = app (stepTop runFuel (cut s) t) s.trace ∧
    (stepOp s t).1 = cut (stepTop runFuel s t) ∧
    (stepTop runFuel s t).trace = (stepOp s t).2.reverse ++ s.trace := by
  have h : stepTop runFuel s t = app (stepTop runFuel (cut s) t) s.trace := by
    rw [← stepTop_app, app_cut]
  refine ⟨h, ?_, ?_⟩
  · rw [h]; rfl
  · rw [h]; simp [stepOp]

theorem stepOp_cut (s : State) (t : Top) : stepOp (cut s) t = stepOp s t := rfl

theorem runOps_cut (prog : List Top) : ∀ s : State, runOps (cut s) prog = (cut (runOps s prog).1, (runOps s prog).2) := by
  induction prog with
  | nil => intro s; rfl
  | cons t ts ih =>
    intro s
    simp only [runOps, stepOp_cut]
    have : (stepOp s t).1 = cut (stepOp s t).1 := rfl
    rw [this, ih]

/-- **Whole programs**: the full-log run of the model (`Model.Events.run`, the object of `run_admissible_C04` /
`run_admissible_C05`) has, as its trace, the old trace followed by the lines `runOps` prints, and ends in the
state `runOps` ends in (log cut). -/
theorem runOps_concat (prog : List Top) : ∀ s : State,
    (prog.foldl (stepTop runFuel) s).trace.reverse = s.trace.reverse ++ (runOps s prog).2.flatten ∧
    cut (prog.foldl (stepTop runFuel) s) = cut (runOps s prog).1 := by
  induction prog with
  | nil => intro s; simp [runOps]
  | cons t ts ih =>
    intro s
    obtain ⟨h1, h2, h3⟩ := stepOp_spec s t
    obtain ⟨i1, i2⟩ := ih (stepTop runFuel s t)
    have hc : runOps (stepTop runFuel s t) ts = (cut (runOps (stepTop runFuel s t) ts).1 , (runOps (stepTop runFuel s t) ts).2) →
        True := fun _ => trivial
    have hr := runOps_cut ts (stepTop runFuel s t)
    rw [← h2] at hr
    simp only [List.foldl_cons, runOps]
    constructor
    · rw [i1, h3, hr]
      simp [List.reverse_append]
    · rw [i2, hr]

theorem run_eq_lines (prog : List Top) : Model.Events.run runFuel prog = (runOps {} prog).2.flatten := by
  have := (runOps_concat prog {}).1
  simpa [Model.Events.run] using this

/-! ## feeding a monitor line by line is feeding it the concatenation -/

theorem run4_append (m : C04.M) (t1 t2 : Trace) :
    C04.run m (t1 ++ t2) = (C04.run m t1).bind (fun m' => C04.run m' t2) := by
  induction t1 generalizing m with
  | nil => rfl
  | cons e es ih =>
    simp only [List.cons_append, C04.run]
    cases hs : C04.step m e with
    | error err => rfl
    | ok m' => simp only [bind, Except.bind]; exact ih m'

theorem run5_append (m : C05.M) (t1 t2 : Trace) :
    C05.run m (t1 ++ t2) = (C05.run m t1).bind (fun m' => C05.run m' t2) := by
  induction t1 generalizing m with
  | nil => rfl
  | cons e es ih =>
    simp only [List.cons_append, C05.run]
    cases hs : C05.step m e with
    | error err => rfl
    | ok m' => simp only [bind, Except.bind]; exact ih m'

theorem feed4_append (m : Except String C04.M) (a b : Trace) : feed4 m (a ++ b) = feed4 (feed4 m a) b := by
  cases m with
  | error e => rfl
  | ok m =>
    simp only [feed4, bind, Except.bind, run4_append]

theorem feed5_append (m : Except String C05.M) (a b : Trace) : feed5 m (a ++ b) = feed5 (feed5 m a) b := by
  cases m with
  | error e => rfl
  | ok m =>
    simp only [feed5, bind, Except.bind, run5_append]

theorem feed4_error (e : String) (b : Trace) : feed4 (.error e) b = .error e := rfl
theorem feed5_error (e : String) (b : Trace) : feed5 (.error e) b = .error e := rfl

def IsOk {α : Type} (x : Except String α) : Prop := ∃ a, x = .ok a

/-- if each monitor in use accepts the concatenation of the lines, the pair accepts every line -/
theorem acceptsLines_of_flatten (use4 use5 : Bool) : ∀ (lines : List (List Ev)) (s : MM),
    IsOk (if use4 then feed4 s.m4 lines.flatten else s.m4) →
    IsOk (if use5 then feed5 s.m5 lines.flatten else s.m5) →
    acceptsLines use4 use5 s lines = true := by
  intro lines
  induction lines with
  | nil => intro s _ _; rfl
  | cons l ls ih =>
    intro s h4 h5
    simp only [List.flatten_cons, feed4_append, feed5_append] at h4 h5
    have g4 : IsOk (if use4 then feed4 s.m4 l else s.m4) := by
      cases use4 with
      | false => exact h4
      | true =>
        simp only [if_true] at h4 ⊢
        cases hm : feed4 s.m4 l with
        | ok m => exact ⟨m, rfl⟩
        | error e => rw [hm, feed4_error] at h4; obtain ⟨_, h⟩ := h4; cases h
    have g5 : IsOk (if use5 then feed5 s.m5 l else s.m5) := by
      cases use5 with
      | false => exact h5
      | true =>
        simp only [if_true] at h5 ⊢
        cases hm : feed5 s.m5 l with
        | ok m => exact ⟨m, rfl⟩
        | error e => rw [hm, feed5_error] at h5; obtain ⟨_, h⟩ := h5; cases h
    obtain ⟨a4, e4⟩ := g4
    obtain ⟨a5, e5⟩ := g5
    simp only [acceptsLines, monStep, e4, e5, Bool.true_and]
    apply ih
    · simp only []; cases use4 <;> simp_all
    · simp only []; cases use5 <;> simp_all

end Percival.Proofs.EventsStep
