import Percival.Proofs.AfMonHeap
import Percival.Proofs.AfMonReg
import Percival.Proofs.AfMonRun
import Percival.Proofs.AfMonEnd
/-!
# C14: the monitor `pmodel afmon` accepts every answer of the model `pmodel af` — assembly

The state relation `Rel` is the conjunction of four pieces:

* `HeapRel` (`Proofs/AfMonHeap.lean`): the monitor's multiset of live elements and keys is the model's heap, which
  satisfies C13's heap invariant and the storage invariant;
* `RegRel` (`Proofs/AfMonRel.lean`, `AfMonReg*.lean`): the monitor's ideal registry is what is registered in the
  model's event layer, whose own invariants hold;
* `DlRel` (`Proofs/AfMonRun*.lean`): every timer's record in the timer queue carries the deadline the monitor
  remembers; the immediate queues' `minq` is sound;
* `AcctRel` (`Proofs/AfMonEnd*.lean`): the allocator's count of live blocks is exactly what the event layer and the
  heap hold, and the harness knows every descriptor registration.

Well-formedness of a case: `end` at most as the last line (it resets the monitor's keys but not the model's), and
`reg_imm` with a priority below 32 (`OpOk`; the C asserts it; with a priority ≥ 32 the model registers nothing,
answers `ok` and keeps the two blocks, so a following `end` would be rejected).
-/
namespace Percival.Proofs.AfMonSound
open Percival.Model Percival.Model.AfStep
open Percival.Spec.AfMon (Op Ans MState monStep acceptsRun)
open Percival.Proofs.AfMonRel Percival.Proofs.AfMonHeap
open Percival.Proofs.AfMonReg (reg_step answered)
open Percival.Proofs.AfMonRun (DlRel run_step dlRel_init)
open Percival.Proofs.AfMonEnd (AcctRel OpOk acctRel_next acctRel_init accepts_end_of_regRel tmLink_of_tmInv)

/-- `end` occurs at most as the last op -/
def EndLast : List Op → Prop
  | [] => True
  | [_] => True
  | op :: rest => op ≠ .end_ ∧ EndLast rest

/-- a case the harness can be given: `end` only last, immediate priorities below 32 -/
def OpsOk (ops : List Op) : Prop := EndLast ops ∧ ∀ op ∈ ops, OpOk op

structure Rel (s : S) (ms : MState) : Prop where
  heap : HeapRel s ms
  reg : RegRel s ms
  dl : DlRel s ms
  acct : AcctRel s

theorem rel_init : Rel {} {} := ⟨heapRel_init, AfMonReg.regRel_init, dlRel_init, acctRel_init⟩

theorem isReg_or_heap (op : Op) (h1 : op ≠ .end_) (h2 : op ≠ .run) :
    AfMonReg.isRegOp op = true ∨ AfMonHeap.isHeapOp op = true := by
  cases op <;> simp_all [AfMonReg.isRegOp, AfMonHeap.isHeapOp]

/-- **one line that is not `end`**: the monitor accepts the model's answer and the relation holds afterwards -/
theorem step_sound (s : S) (ms : MState) (op : Op) (hop : op ≠ .end_) (hok : OpOk op) (h : Rel s ms) :
    Accepts s ms op ∧ Rel (next s ms op).1 (next s ms op).2 := by
  have hH := heap_step s ms op hop h.heap
  have hD := run_step s ms op hop h.reg h.dl
  have hA : AcctRel (next s ms op).1 := acctRel_next s ms op h.reg h.acct hok
    (fun _ => tmLink_of_tmInv h.reg.tmInv h.dl.tidNd (fun t ht x hx => by
      obtain ⟨rc, d, h1, h2, _⟩ := h.dl.recs t ht x hx
      exact ⟨rc, h1, h2⟩))
  by_cases hrun : op = .run
  · obtain ⟨hacc, hR⟩ := hD.1 hrun
    exact ⟨hacc, hH.2, hR, hD.2, hA⟩
  · have hR := reg_step s ms op ⟨hop, hrun⟩ h.reg
    refine ⟨?_, hH.2, hR.2, hD.2, hA⟩
    rcases isReg_or_heap op hop hrun with h' | h'
    · exact hR.1 h'
    · exact hH.1 h'

/-- **`end`**: accepted (the model's `release_all` leaves `live=0`) -/
theorem end_sound (s : S) (ms : MState) (h : Rel s ms) : Accepts s ms .end_ :=
  accepts_end_of_regRel s ms h.reg h.acct

theorem sound_from : ∀ (ops : List Op) (s : S) (ms : MState), OpsOk ops → Rel s ms →
    acceptsRun ms (answered s ops) = true
  | [], _, _, _, _ => rfl
  | op :: rest, s, ms, hok, h => by
    by_cases hop : op = .end_
    · subst hop
      have hrest : rest = [] := by
        cases rest with
        | nil => rfl
        | cons o r => exact absurd rfl hok.1.1
      subst hrest
      have hacc : (monStep ms .end_ (ansOf s .end_)).2 = none := end_sound s ms h
      simp only [answered, acceptsRun]
      rcases hm : monStep ms .end_ (ansOf s .end_) with ⟨ms', v⟩
      rw [hm] at hacc
      simp only at hacc
      subst hacc
      rfl
    · obtain ⟨hacc, h'⟩ := step_sound s ms op hop (hok.2 op List.mem_cons_self) h
      have hok' : OpsOk rest := by
        refine ⟨?_, fun o ho => hok.2 o (List.mem_cons_of_mem _ ho)⟩
        cases rest with
        | nil => trivial
        | cons o r => exact hok.1.2
      have ih := sound_from rest (stepOp s op).1 (monStep ms op (ansOf s op)).1 hok' h'
      have hacc' : (monStep ms op (ansOf s op)).2 = none := hacc
      simp only [answered, acceptsRun]
      rcases hm : monStep ms op (ansOf s op) with ⟨ms', v⟩
      rw [hm] at hacc' ih
      simp only at hacc' ih
      subst hacc'
      exact ih

/-- a whole case from the initial states -/
theorem sound (ops : List Op) (hok : OpsOk ops) : acceptsRun {} (answered {} ops) = true :=
  sound_from ops {} {} hok rel_init

/-- the relation holds along every run without `end` -/
theorem rel_run : ∀ (ops : List Op) (s : S) (ms : MState), (∀ op ∈ ops, op ≠ .end_ ∧ OpOk op) → Rel s ms →
    Rel (ops.foldl (fun p op => next p.1 p.2 op) (s, ms)).1 (ops.foldl (fun p op => next p.1 p.2 op) (s, ms)).2
  | [], _, _, _, h => h
  | op :: rest, s, ms, hops, h => by
    have h' := (step_sound s ms op (hops op List.mem_cons_self).1 (hops op List.mem_cons_self).2 h).2
    exact rel_run rest _ _ (fun o ho => hops o (List.mem_cons_of_mem _ ho)) h'

end Percival.Proofs.AfMonSound
