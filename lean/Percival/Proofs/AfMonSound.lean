import Percival.Proofs.AfMonHeap
import Percival.Proofs.AfMonReg
/-!
# C14: the monitor `pmodel afmon` accepts every answer of the model `pmodel af` — assembly

The state relation is a conjunction of pieces: `HeapRel` (`Proofs/AfMonHeap.lean`: the monitor's multiset of live
elements and keys is the model's heap, which satisfies C13's invariant), `RegRel` (`Proofs/AfMonRel.lean`,
`Proofs/AfMonReg.lean`: the monitor's ideal registry is what is registered in the model's event layer) and a further
piece `X.P` for what `events_run` and `end` need (deadlines of the timers, accounting of every block).  `sound`
puts them together for a whole case; `end` may only be the last line of a case (it resets the monitor's keys but not
the model's).
-/
namespace Percival.Proofs.AfMonSound
open Percival.Model Percival.Model.AfStep
open Percival.Spec.AfMon (Op Ans MState monStep acceptsRun)
open Percival.Proofs.AfMonRel Percival.Proofs.AfMonHeap Percival.Proofs.AfMonReg

/-- `end` occurs at most as the last op -/
def EndLast : List Op → Prop
  | [] => True
  | [_] => True
  | op :: rest => op ≠ .end_ ∧ EndLast rest

/-- the piece of the relation and the facts about `events_run` and `end` that the heap and registry pieces do not
provide -/
structure Extra where
  P : S → MState → Prop
  init : P {} {}
  /-- preserved by every op but `end`, given the other pieces before the op -/
  step : ∀ s ms op, op ≠ .end_ → HeapRel s ms → RegRel s ms → P s ms → P (next s ms op).1 (next s ms op).2
  /-- `events_run`: accepted, and the registries still agree -/
  run : ∀ s ms, HeapRel s ms → RegRel s ms → P s ms →
    Accepts s ms .run ∧ RegRel (next s ms .run).1 (next s ms .run).2
  /-- `end`: accepted (`live=0`) -/
  end_ : ∀ s ms, HeapRel s ms → RegRel s ms → P s ms → Accepts s ms .end_

theorem isReg_or_heap (op : Op) (h1 : op ≠ .end_) (h2 : op ≠ .run) :
    AfMonReg.isRegOp op = true ∨ AfMonHeap.isHeapOp op = true := by
  cases op <;> simp_all [AfMonReg.isRegOp, AfMonHeap.isHeapOp]

/-- one line that is not `end`: accepted, all pieces preserved -/
theorem step_sound (X : Extra) (s : S) (ms : MState) (op : Op) (hop : op ≠ .end_)
    (hh : HeapRel s ms) (hr : RegRel s ms) (hx : X.P s ms) :
    Accepts s ms op ∧ HeapRel (next s ms op).1 (next s ms op).2 ∧ RegRel (next s ms op).1 (next s ms op).2 ∧
    X.P (next s ms op).1 (next s ms op).2 := by
  have hH := heap_step s ms op hop hh
  have hX := X.step s ms op hop hh hr hx
  by_cases hrun : op = .run
  · subst hrun
    exact ⟨(X.run s ms hh hr hx).1, hH.2, (X.run s ms hh hr hx).2, hX⟩
  · have hR := reg_step s ms op ⟨hop, hrun⟩ hr
    refine ⟨?_, hH.2, hR.2, hX⟩
    rcases isReg_or_heap op hop hrun with h | h
    · exact hR.1 h
    · exact hH.1 h

theorem sound_from (X : Extra) : ∀ (ops : List Op) (s : S) (ms : MState), EndLast ops →
    HeapRel s ms → RegRel s ms → X.P s ms → acceptsRun ms (answered s ops) = true
  | [], _, _, _, _, _, _ => rfl
  | op :: rest, s, ms, hend, hh, hr, hx => by
    by_cases hop : op = .end_
    · subst hop
      have hrest : rest = [] := by
        cases rest with
        | nil => rfl
        | cons o r => exact absurd rfl hend.1
      subst hrest
      have hacc : (monStep ms .end_ (ansOf s .end_)).2 = none := X.end_ s ms hh hr hx
      simp only [answered, acceptsRun]
      rcases hm : monStep ms .end_ (ansOf s .end_) with ⟨ms', v⟩
      rw [hm] at hacc
      simp only at hacc
      subst hacc
      rfl
    · obtain ⟨hacc, h1, h2, h3⟩ := step_sound X s ms op hop hh hr hx
      have hend' : EndLast rest := by
        cases rest with
        | nil => trivial
        | cons o r => exact hend.2
      have ih := sound_from X rest (stepOp s op).1 (monStep ms op (ansOf s op)).1 hend' h1 h2 h3
      have hacc' : (monStep ms op (ansOf s op)).2 = none := hacc
      simp only [answered, acceptsRun]
      rcases hm : monStep ms op (ansOf s op) with ⟨ms', v⟩
      rw [hm] at hacc' ih
      simp only at hacc' ih
      subst hacc'
      exact ih

/-- a whole case from the initial states -/
theorem sound (X : Extra) (ops : List Op) (hend : EndLast ops) : acceptsRun {} (answered {} ops) = true :=
  sound_from X ops {} {} hend heapRel_init regRel_init X.init

/-- cases without `events_run` and `end`: the heap and registry pieces alone suffice -/
theorem sound_norun_from : ∀ (ops : List Op) (s : S) (ms : MState), (∀ op ∈ ops, op ≠ .run ∧ op ≠ .end_) →
    HeapRel s ms → RegRel s ms → acceptsRun ms (answered s ops) = true
  | [], _, _, _, _, _ => rfl
  | op :: rest, s, ms, hops, hh, hr => by
    have hop := hops op List.mem_cons_self
    have hH := heap_step s ms op hop.2 hh
    have hR := reg_step s ms op ⟨hop.2, hop.1⟩ hr
    have hacc : (monStep ms op (ansOf s op)).2 = none := by
      rcases isReg_or_heap op hop.2 hop.1 with h | h
      · exact hR.1 h
      · exact hH.1 h
    have ih := sound_norun_from rest (stepOp s op).1 (monStep ms op (ansOf s op)).1
      (fun o ho => hops o (List.mem_cons_of_mem _ ho)) hH.2 hR.2
    simp only [answered, acceptsRun]
    rcases hm : monStep ms op (ansOf s op) with ⟨ms', v⟩
    rw [hm] at hacc ih
    simp only at hacc ih
    subst hacc
    exact ih

end Percival.Proofs.AfMonSound
