import Percival.Proofs.HeapCreate
import Percival.Model.HeapRun
/-!
# C13 helper lemmas, part 6: every reachable state; the model's traces are accepted by the monitor
-/
namespace Percival.Proofs.Heap
open Percival.Model Percival.Model.Heap Percival.Model.HeapRun Percival.Spec Percival.Spec.PQ

/-- what holds in every reachable state: the heap invariant under the *current* keys, and the
array holds exactly the ids the caller has inserted and not yet deleted -/
structure Reach (s : St) : Prop where
  inv : Inv s.key s.h
  perm : s.h.a.toList.Perm s.live

theorem isLeast_perm {key : Nat → Int} {l l' : List Nat} {e : Nat} (hp : l.Perm l')
    (h : IsLeast key l e) : IsLeast key l' e :=
  ⟨hp.mem_iff.mp h.1, fun x hx => h.2 x (hp.mem_iff.mpr hx)⟩

theorem mem_iff_get (a : Array Nat) (e : Nat) : e ∈ a.toList ↔ ∃ i : Nat, a[i]? = some e := by
  rw [Array.mem_toList_iff, Array.mem_iff_getElem?]

theorem upd_ne (key : Nat → Int) (e x : Nat) (k : Int) (h : x ≠ e) : upd key e k x = key x := by
  simp [upd, h]

theorem upd_eq (key : Nat → Int) (e : Nat) (k : Int) : upd key e k e = k := by
  simp [upd]

theorem perm_erase_of_cons {l l' : List Nat} {x : Nat} (h : l.Perm (x :: l')) : (l.erase x).Perm l' := by
  have := h.erase x
  simpa using this

theorem drainList_ok (key : Nat → Int) (fuel : Nat) (h : Heap) (live : List Nat) (hi : Inv key h)
    (hp : h.a.toList.Perm live) (hs : h.a.size = fuel) :
    drainOk key live (drainList key fuel h) = true := by
  induction fuel generalizing h live with
  | zero =>
    have : h.a = #[] := Array.eq_empty_of_size_eq_zero hs
    rw [this] at hp
    have : live = [] := by simpa using hp
    subst this
    simp [drainList, drainOk]
  | succ fuel ih =>
    obtain ⟨h', x, hdel, hi', hx, _, hperm, hsz⟩ := delete_spec key h 0 hi (by omega)
    have hg : getmin h = some x := hx
    have hdm : deletemin key h = some h' := hdel
    simp only [drainList, hg, hdm, drainOk, Bool.and_eq_true]
    constructor
    · rw [isLeast_iff]; exact isLeast_perm hp (getmin_isLeast key h x hi hg)
    · apply ih h' _ hi'
      · exact (perm_erase_of_cons (hp.symm.trans hperm)).symm
      · omega

/-- one step: `Reach` is preserved and the monitor accepts the model's answer, moving to the
monitor state that consists of the model's keys and live list -/
theorem step_ok (s : St) (op : Op) (hr : Reach s) :
    Reach (step s op).1 ∧
    monStep ⟨s.key, s.live⟩ op (step s op).2 = (⟨(step s op).1.key, (step s op).1.live⟩, true) := by
  obtain ⟨hi, hp⟩ := hr
  have hmem : ∀ e, e ∈ s.live ↔ ∃ i : Nat, s.h.a[i]? = some e := by
    intro e; rw [← hp.mem_iff, mem_iff_get]
  cases op with
  | create ps =>
    simp only [step, monStep]
    split
    · rename_i hnd
      exact ⟨⟨create_inv _ _ hnd, create_perm _ _⟩, by simp⟩
    · exact ⟨⟨hi, hp⟩, by simp⟩
  | add e k =>
    simp only [step, monStep]
    split
    · exact ⟨⟨hi, hp⟩, by simp⟩
    · rename_i hc
      have hc' : e ∉ s.live := by simpa using hc
      have hfresh : ∀ i : Nat, s.h.a[i]? ≠ some e := by
        intro i hie; exact hc' ((hmem e).mpr ⟨i, hie⟩)
      have hi2 : Inv (upd s.key e k) s.h := by
        apply inv_key_congr s.key _ s.h hi
        intro i x hx
        apply upd_ne
        intro hxe; subst hxe; exact hfresh i hx
      refine ⟨⟨add_inv _ _ _ hi2 hfresh, ?_⟩, by simp⟩
      exact (add_perm _ _ _).trans ((List.perm_cons e).mpr hp)
  | getmin =>
    simp only [step, monStep]
    refine ⟨⟨hi, hp⟩, ?_⟩
    cases hg : getmin s.h with
    | none =>
      have := (getmin_none_iff s.h).mp hg
      rw [this] at hp
      have : s.live = [] := by simpa using hp
      simp [getminOk, this]
    | some e =>
      have := isLeast_perm hp (getmin_isLeast s.key s.h e hi hg)
      simp only [getminOk, (isLeast_iff _ _ _).mpr this]
  | delmin =>
    simp only [step]
    cases hg : getmin s.h with
    | none =>
      have := (getmin_none_iff s.h).mp hg
      rw [this] at hp
      have : s.live = [] := by simpa using hp
      simp only [monStep]
      exact ⟨⟨hi, by rw [‹s.h.a.toList = []›, this]⟩, by simp [this]⟩
    | some e =>
      have hsz : 0 < s.h.a.size := lt_of_get hg
      obtain ⟨h', x, hdel, hi', hx, _, hperm, _⟩ := delete_spec s.key s.h 0 hi hsz
      have hxe : x = e := by
        have : s.h.a[0]? = some e := hg
        rw [hx] at this; cases this; rfl
      subst hxe
      have hdm : deletemin s.key s.h = some h' := hdel
      simp only [hdm, monStep]
      refine ⟨⟨hi', (perm_erase_of_cons (hp.symm.trans hperm)).symm⟩, ?_⟩
      have := isLeast_perm hp (getmin_isLeast s.key s.h x hi hg)
      simp only [(isLeast_iff _ _ _).mpr this]
  | del e =>
    simp only [step, monStep]
    by_cases hc : s.live.contains e = true
    · have hc' : e ∈ s.live := by simpa using hc
      obtain ⟨rc, hrc⟩ := (hmem e).mp hc'
      have hpos := hi.handles rc e hrc
      obtain ⟨h', x, hdel, hi', hx, _, hperm, _⟩ := delete_spec s.key s.h rc hi (lt_of_get hrc)
      have hxe : x = e := by rw [hx] at hrc; cases hrc; rfl
      subst hxe
      simp only [hc, Bool.not_true, Bool.false_eq_true, if_false, hpos, hdel]
      exact ⟨⟨hi', (perm_erase_of_cons (hp.symm.trans hperm)).symm⟩, by simp⟩
    · simp only [hc, Bool.not_false, if_true]
      exact ⟨⟨hi, hp⟩, by simp⟩
  | inc e k =>
    simp only [step, monStep]
    split
    · exact ⟨⟨hi, hp⟩, by simp⟩
    · rename_i hcond
      simp only [Bool.or_eq_true, Bool.not_eq_true', decide_eq_true_eq, not_or, Bool.not_eq_false,
        Int.not_lt] at hcond
      obtain ⟨hc, hk⟩ := hcond
      have hc' : e ∈ s.live := by simpa using hc
      obtain ⟨rc, hrc⟩ := (hmem e).mp hc'
      have hpos := hi.handles rc e hrc
      have hsome : increase (upd s.key e k) s.h rc = some (siftDown (upd s.key e k) true s.h.a.size s.h.a.size s.h rc) := by
        simp [increase, lt_of_get hrc]
      simp only [hpos, hsome]
      refine ⟨⟨?_, ?_⟩, by simp⟩
      · exact increase_inv_key (upd s.key e k) s.key s.h _ rc e hi hrc (fun x hx => upd_ne _ _ _ _ hx)
          (by rw [upd_eq]; exact hk) hsome
      · exact (increase_perm _ _ _ _ hsome).trans hp
  | dec e k =>
    simp only [step, monStep]
    split
    · exact ⟨⟨hi, hp⟩, by simp⟩
    · rename_i hcond
      simp only [Bool.or_eq_true, Bool.not_eq_true', decide_eq_true_eq, not_or, Bool.not_eq_false,
        Int.not_lt, gt_iff_lt] at hcond
      obtain ⟨hc, hk⟩ := hcond
      have hc' : e ∈ s.live := by simpa using hc
      obtain ⟨rc, hrc⟩ := (hmem e).mp hc'
      have hpos := hi.handles rc e hrc
      have hsome : decrease (upd s.key e k) s.h rc = some (siftUp (upd s.key e k) true rc s.h rc) := by
        simp [decrease, lt_of_get hrc]
      simp only [hpos, hsome]
      refine ⟨⟨?_, ?_⟩, by simp⟩
      · exact decrease_inv_key (upd s.key e k) s.key s.h _ rc e hi hrc (fun x hx => upd_ne _ _ _ _ hx)
          (by rw [upd_eq]; exact hk) hsome
      · exact (decrease_perm _ _ _ _ hsome).trans hp
  | incmin k =>
    simp only [step]
    cases hg : getmin s.h with
    | none => simp only [monStep]; exact ⟨⟨hi, hp⟩, trivial⟩
    | some e =>
      simp only
      split
      · simp only [monStep]; exact ⟨⟨hi, hp⟩, trivial⟩
      · rename_i hk
        simp only [monStep]
        refine ⟨⟨?_, ?_⟩, ?_⟩
        · exact increasemin_inv_key (upd s.key e k) s.key s.h e hi hg (fun x hx => upd_ne _ _ _ _ hx)
            (by rw [upd_eq]; omega)
        · exact (increasemin_perm _ _).trans hp
        · have := isLeast_perm hp (getmin_isLeast s.key s.h e hi hg)
          simp only [(isLeast_iff _ _ _).mpr this]
  | drain =>
    simp only [step, monStep]
    refine ⟨⟨inv_empty _, by simp [Heap.empty]⟩, ?_⟩
    rw [drainList_ok s.key _ s.h s.live hi hp rfl]

theorem reach_init : Reach St.init := ⟨inv_empty _, by simp [St.init, Heap.empty]⟩

theorem reach_run (s : St) (ops : List Op) (hr : Reach s) : Reach (run s ops) := by
  induction ops generalizing s with
  | nil => exact hr
  | cons op ops ih => exact ih _ (step_ok s op hr).1

theorem accepts_trace (s : St) (ops : List Op) (hr : Reach s) :
    accepts ⟨s.key, s.live⟩ (trace s ops) = true := by
  induction ops generalizing s with
  | nil => rfl
  | cons op ops ih =>
    have := step_ok s op hr
    simp only [trace, accepts, this.2, Bool.true_and]
    exact ih _ this.1

end Percival.Proofs.Heap
