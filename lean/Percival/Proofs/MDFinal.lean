import Percival.Proofs.MDStream
/-! Both `_Pad` shapes produce the specified hash; the streaming theorems (helper lemmas for C01). -/
namespace Percival.Proofs.MDStream
open Percival.Spec Percival.Spec.MD Percival.Model.Hash Percival.Proofs.MD

variable {a : Alg} {p : Params} (rf : Refines a p)

theorem pad_take (n : Nat) (h1 : 1 ≤ n) (h2 : n ≤ 64) :
    ((0x80 : UInt8) :: List.replicate 63 0).take n = 0x80 :: List.replicate (n - 1) 0 := by
  obtain ⟨m, rfl⟩ : ∃ m, n = m + 1 := ⟨n - 1, by omega⟩
  simp only [List.take_succ_cons, List.take_replicate, Nat.add_sub_cancel]
  congr 2; omega

theorem split_app (m y : Bytes) (k : Nat) : m ++ y = m.take k ++ (m.drop k ++ y) := by
  rw [← List.append_assoc, List.take_append_drop]

/-- SHA-1 / MD5 `_Pad` (two `_Update`s) -/
theorem padUpd_state (c : Ctx a) (msg : Bytes) (h : Inv rf c msg) :
    rf.R (padUpd a c).state = absorb p p.init (msg ++ padding p msg.length) := by
  unfold padUpd
  have hr : a.cnt.r c.count = msg.length % 64 := by rw [rf.cnt.r, h.count]; exact r_eq _
  simp only [hr]
  have hc : rf.cnt.val c.count = 8 * msg.length % 2^64 := h.count
  have hpt : a.PAD.take (if msg.length % 64 < 56 then 56 - msg.length % 64 else 120 - msg.length % 64)
      = 0x80 :: List.replicate ((if msg.length % 64 < 56 then 56 - msg.length % 64 else 120 - msg.length % 64) - 1) 0 := by
    rw [rf.PAD]; apply pad_take <;> split <;> omega
  rw [hpt]
  have i1 := update_inv rf c msg (0x80 :: List.replicate ((if msg.length % 64 < 56 then 56 - msg.length % 64 else 120 - msg.length % 64) - 1) 0) h
  have i2 := update_inv rf _ _ (a.cnt.enc c.count) i1
  rw [i2.state]
  obtain ⟨k, hk⟩ := padded_len p msg
  rw [padding_eq, ← hc, ← rf.cnt.enc, ← List.append_assoc] at hk ⊢
  have : (msg ++ 0x80 :: List.replicate ((if msg.length % 64 < 56 then 56 - msg.length % 64 else 120 - msg.length % 64) - 1) 0 ++
      a.cnt.enc c.count).length / 64 * 64 = (msg ++ 0x80 :: List.replicate ((if msg.length % 64 < 56 then 56 - msg.length % 64 else 120 - msg.length % 64) - 1) 0 ++
      a.cnt.enc c.count).length := by omega
  rw [this, List.take_length]

theorem finalUpd_eq_hash (c : Ctx a) (msg : Bytes) (h : Inv rf c msg) : finalUpd a c = MD.hash p msg := by
  unfold finalUpd MD.hash
  rw [rf.digest, padUpd_state rf c msg h]

/-- SHA-256 `_Pad` (padding written into `buf`) -/
theorem pad256_state (c : Ctx a) (msg : Bytes) (h : Inv rf c msg) :
    rf.R (pad256 a c).state = absorb p p.init (msg ++ padding p msg.length) := by
  obtain ⟨hbl, hcnt, hst, hpend⟩ := h
  unfold pad256
  have hr : a.cnt.r c.count = msg.length % 64 := by rw [rf.cnt.r, hcnt]; exact r_eq _
  simp only [hr]
  generalize hn : msg.length = n at *
  have hmsplit : msg = msg.take (n / 64 * 64) ++ msg.drop (n / 64 * 64) := (List.take_append_drop _ _).symm
  have hfull : (msg.take (n / 64 * 64)).length = 64 * (n / 64) := by simp [List.length_take, hn]; omega
  have hpl : (msg.drop (n / 64 * 64)).length = n % 64 := by simp [List.length_drop, hn]; omega
  have hlen8 : (a.cnt.enc c.count).length = 8 := by rw [rf.cnt.enc]; exact p.lenEnc_len _
  rw [padding_eq, ← hcnt, ← rf.cnt.enc]
  by_cases hlt : n % 64 < 56
  · simp only [hlt, if_true]
    rw [rf.PAD, pad_take _ (by omega) (by omega)]
    have e55 : 56 - n % 64 - 1 = 55 - n % 64 := by omega
    rw [e55]
    have hb1 : (memcpy c.buf (n % 64) (0x80 :: List.replicate (55 - n % 64) 0)).take 56
        = msg.drop (n / 64 * 64) ++ 0x80 :: List.replicate (55 - n % 64) 0 := by
      have := memcpy_take c.buf (0x80 :: List.replicate (55 - n % 64) 0) (n % 64) (by omega)
      rw [← hpend, ← this]; congr 1; simp; omega
    have hl1 : (memcpy c.buf (n % 64) (0x80 :: List.replicate (55 - n % 64) 0)).length = 64 := by
      rw [memcpy_length]; exact hbl; simp; omega
    rw [memcpy_eq_of_take _ _ 56 (by omega), hb1]
    have hblk : (msg.drop (n / 64 * 64) ++ 0x80 :: List.replicate (55 - n % 64) 0 ++ a.cnt.enc c.count).length = 64 := by
      simp [hpl, hlen8]; omega
    have : msg ++ (0x80 :: List.replicate (55 - n % 64) 0 ++ a.cnt.enc c.count)
        = msg.take (n / 64 * 64) ++ (msg.drop (n / 64 * 64) ++ 0x80 :: List.replicate (55 - n % 64) 0 ++ a.cnt.enc c.count) := by
      simp only [List.append_assoc, List.cons_append]
      exact split_app _ _ _
    rw [this, absorb_append p _ _ _ _ hfull, ← hst, absorb_one p _ _ hblk, rf.transform _ _ hblk]
  · simp only [hlt, if_false]
    rw [rf.PAD, pad_take _ (by omega) (by omega)]
    have e63 : 64 - n % 64 - 1 = 63 - n % 64 := by omega
    rw [e63]
    have hb1 : memcpy c.buf (n % 64) (0x80 :: List.replicate (63 - n % 64) 0)
        = msg.drop (n / 64 * 64) ++ 0x80 :: List.replicate (63 - n % 64) 0 := by
      rw [memcpy_eq_of_take _ _ _ (by simp; omega), hpend]
    have hl1 : (msg.drop (n / 64 * 64) ++ 0x80 :: List.replicate (63 - n % 64) 0).length = 64 := by
      simp [hpl]; omega
    rw [hb1]
    have hb2 : (memcpy (msg.drop (n / 64 * 64) ++ 0x80 :: List.replicate (63 - n % 64) 0) 0 (List.replicate 56 0)).take 56
        = List.replicate 56 0 := by
      have := memcpy_take (msg.drop (n / 64 * 64) ++ 0x80 :: List.replicate (63 - n % 64) 0) (List.replicate 56 0) 0 (by omega)
      simpa using this
    have hl2 : (memcpy (msg.drop (n / 64 * 64) ++ 0x80 :: List.replicate (63 - n % 64) 0) 0 (List.replicate 56 0)).length = 64 := by
      rw [memcpy_length]; exact hl1; simp; omega
    rw [memcpy_eq_of_take _ _ 56 (by omega), hb2]
    have hblk2 : (List.replicate 56 (0:UInt8) ++ a.cnt.enc c.count).length = 64 := by simp [hlen8]
    have : msg ++ (0x80 :: List.replicate (120 - n % 64 - 1) 0 ++ a.cnt.enc c.count)
        = msg.take (n / 64 * 64) ++ ((msg.drop (n / 64 * 64) ++ 0x80 :: List.replicate (63 - n % 64) 0) ++ (List.replicate 56 0 ++ a.cnt.enc c.count)) := by
      have e : 120 - n % 64 - 1 = (63 - n % 64) + 56 := by omega
      rw [e, ← List.replicate_append_replicate]
      simp only [List.append_assoc, List.cons_append]
      exact split_app _ _ _
    rw [this, absorb_append p _ _ _ _ hfull, ← hst, absorb_block p _ _ _ hl1, absorb_one p _ _ hblk2,
      rf.transform _ _ hblk2, rf.transform _ _ hl1]

theorem final256_eq_hash (c : Ctx a) (msg : Bytes) (h : Inv rf c msg) : final256 a c = MD.hash p msg := by
  unfold final256 MD.hash
  rw [rf.digest, pad256_state rf c msg h]

/-- any partition of the message into update calls gives the specified hash (SHA-256 shape) -/
theorem stream256_eq_spec (rf : Refines a p) (chunks : List Bytes) :
    final256 a (chunks.foldl (update a) (init a)) = MD.hash p chunks.flatten := by
  have := foldl_inv rf (init a) [] chunks (init_inv rf)
  simpa using final256_eq_hash rf _ _ this

/-- any partition of the message into update calls gives the specified hash (SHA-1 / MD5 shape) -/
theorem streamUpd_eq_spec (rf : Refines a p) (chunks : List Bytes) :
    finalUpd a (chunks.foldl (update a) (init a)) = MD.hash p chunks.flatten := by
  have := foldl_inv rf (init a) [] chunks (init_inv rf)
  simpa using finalUpd_eq_hash rf _ _ this

end Percival.Proofs.MDStream
