import Percival.Proofs.EArray
/-!
# Every elastic-array operation is admitted by the ideal array, and `abs` commutes (C12)
-/
namespace Percival.Proofs.EArray
open Percival.Model Percival.Model.EArray Percival.Spec.DS

theorem SIZE_MAX_same : EArray.SIZE_MAX = Percival.Spec.DS.SIZE_MAX := by decide

/-- what has to be shown about one step -/
def StepOk (a : EA) (op : EaOp) (m : Mem) : Prop :=
  Inv (step a op m).2.1 ∧ eaAdmit (abs a) op (step a op m).1 = some (abs (step a op m).2.1)

theorem abs_eq {a : EA} {bytes : List UInt8} (hb : a.buf.take a.size = bytes) (ht : Tight a) :
    ({ bytes := bytes, loose := false } : EaIdeal) = abs a := by
  simp only [abs, hb]; congr 1; simp only [Tight] at ht; simp; omega

theorem fillFrom_spec {a' : EA} {old : Nat} {fill : List UInt8} (h : Inv a')
    (hf : fill.length = a'.size - old) :
    ∃ a'', fillFrom a' old fill = some a'' ∧ a''.size = a'.size ∧ a''.alloc = a'.alloc ∧ Inv a'' ∧
      a''.buf.take a''.size = a'.buf.take (min old a'.size) ++ fill := by
  unfold fillFrom
  by_cases hle : a'.size ≤ old
  · have : fill = [] := List.eq_nil_of_length_eq_zero (by omega)
    refine ⟨a', by simp [hle], rfl, rfl, h, ?_⟩
    simp [this, Nat.min_eq_right hle]
  · have hlen := h.len; have hsz := h.le
    have hw := writeAt_some (b := a'.buf) (off := old) (src := fill) (by omega)
    simp only [hle, if_false, show old + fill.length ≤ a'.size from by omega, if_true, hw, Option.map_some]
    refine ⟨_, rfl, rfl, rfl, ⟨hsz, ?_, h.lt⟩, ?_⟩
    · simp [List.length_take, List.length_drop]; omega
    · have := writeAt_take hw
      simp only at this ⊢
      rw [show a'.size = old + fill.length from by omega, this, Nat.min_eq_left (by omega)]

theorem step_resize (a : EA) (n : Nat) (r : RecLen) (fill : List UInt8) (m : Mem) (h : Inv a)
    (hc : eaContract (abs a) (.resize n r fill)) : StepOk a (.resize n r fill) m := by
  have hs := resizeRec_spec a n r m h
  have hal := abs_length h
  simp only [eaContract, hal] at hc
  unfold StepOk
  simp only [step]
  rcases hres : resizeRec a n r m with ⟨ok, a', m'⟩
  rw [hres] at hs
  cases ok
  · -- failure: nothing changed
    have hf := hs.2.2.1 rfl
    simp only at hf
    obtain ⟨ha', hrf⟩ := hf
    subst ha'
    refine ⟨h, ?_⟩
    have hcond : (ans St.fail a' m m' none).refused = true ∨ n * r.val > Percival.Spec.DS.SIZE_MAX := by
      rcases hrf with h1 | ⟨_, h2⟩
      · left; simp [ans, h1]
      · right; rw [← SIZE_MAX_same]; exact h2
    simp only [eaAdmit]
    have : (ans St.fail a' m m' none).st = St.fail := rfl
    simp only [this]
    rw [if_pos ⟨hcond, rfl⟩]
    exact shape_abs h _ _ _ _
  · have hok := hs.2.1 rfl
    simp only at hok
    obtain ⟨hle, hsz, htight, _, htake⟩ := hok
    have hinv' : Inv a' := hs.1
    have hfill : fill.length = a'.size - a.size := by rw [hsz]; exact hc (by rw [← SIZE_MAX_same]; exact hle)
    obtain ⟨a'', hff, hs1, hs2, hinv'', hbytes⟩ := fillFrom_spec hinv' (old := a.size) hfill
    simp only [hff]
    refine ⟨hinv'', ?_⟩
    simp only [eaAdmit]
    have : (ans St.ok a'' m m' none).st = St.ok := rfl
    simp only [this]
    have hcond : n * r.val ≤ Percival.Spec.DS.SIZE_MAX ∧ fill.length = n * r.val - (abs a).bytes.length ∧
        (ans St.ok a'' m m' none).out = none := by
      refine ⟨by rw [← SIZE_MAX_same]; exact hle, by rw [hal, ← hsz]; exact hfill, rfl⟩
    rw [if_pos hcond]
    have hb : a''.buf.take a''.size = resizeBytes (abs a).bytes (n * r.val) fill := by
      rw [hbytes, resizeBytes, hsz]
      simp only [abs, List.take_take]
      rw [Nat.min_comm (n * r.val) a.size, htake]
    rw [abs_eq hb (by simp only [Tight, hs1, hs2] at *; exact htight)]
    exact shape_abs hinv'' _ _ _ _

theorem append_spec (a : EA) (data : List UInt8) (n : Nat) (r : RecLen) (m : Mem) (h : Inv a)
    (hd : n * r.val ≤ EArray.SIZE_MAX → n * r.val ≤ data.length) :
    Inv (append a data n r m).2.1 ∧ (append a data n r m).1 ≠ .oob ∧
    ((append a data n r m).1 = .ok →
      a.size + n * r.val ≤ EArray.SIZE_MAX ∧ (append a data n r m).2.1.size = a.size + n * r.val ∧
      Tight (append a data n r m).2.1 ∧ (append a data n r m).2.2.refusals = m.refusals ∧
      (append a data n r m).2.1.buf.take (append a data n r m).2.1.size = a.buf.take a.size ++ data.take (n * r.val)) ∧
    ((append a data n r m).1 = .fail →
      (append a data n r m).2.1 = a ∧
      ((append a data n r m).2.2.refusals = m.refusals + 1 ∨
       ((append a data n r m).2.2.refusals = m.refusals ∧ a.size + n * r.val > EArray.SIZE_MAX))) ∧
    (append a data n r m).2.2.live + bufBlocks a = m.live + bufBlocks (append a data n r m).2.1 := by
  have hsl : a.size < SZ := Nat.lt_of_le_of_lt h.le h.lt
  unfold append
  by_cases hg1 : n > EArray.SIZE_MAX / r.val
  · have := (guard_iff n r).1 hg1
    simp only [hg1, true_or, if_true]
    exact ⟨h, by simp, by simp, fun _ => ⟨trivial, Or.inr ⟨trivial, by omega⟩⟩, by simp⟩
  · have hle : n * r.val ≤ EArray.SIZE_MAX := by
      have : ¬ n * r.val > EArray.SIZE_MAX := fun h' => hg1 ((guard_iff n r).2 h')
      omega
    have hmod : n * r.val % SZ = n * r.val := Nat.mod_eq_of_lt (by simp only [SZ_eq, SIZE_MAX_eq] at *; omega)
    simp only [hmod]
    have hdl := hd hle
    have hk0 : n = 0 → n * r.val = 0 := fun h0 => by simp [h0]
    generalize n * r.val = k at *
    by_cases hg2 : k > EArray.SIZE_MAX - a.size
    · simp only [hg1, hg2, or_true, if_true]
      exact ⟨h, by simp, by simp, fun _ => ⟨trivial, Or.inr ⟨trivial, by omega⟩⟩, by simp⟩
    · simp only [hg1, hg2, or_self, if_false]
      have hsum : a.size + k < SZ := by simp only [SZ_eq, SIZE_MAX_eq] at *; omega
      rw [Nat.mod_eq_of_lt hsum]
      have hs := resize_spec a (a.size + k) m h hsum
      rcases hres : resize a (a.size + k) m with ⟨ok, a', m'⟩
      rw [hres] at hs
      cases ok
      · have hf := hs.2.2.1 rfl
        simp only at hf ⊢
        exact ⟨hs.1, by simp, by simp, fun _ => ⟨hf.1, Or.inl hf.2.1⟩, hs.2.2.2⟩
      · have hok := hs.2.1 rfl
        have hinv' : Inv a' := hs.1
        simp only at hok ⊢
        obtain ⟨hsz, htight, hrf, htake⟩ := hok
        rw [Nat.min_eq_left (by omega)] at htake
        by_cases hn : n > 0
        · simp only [hn, if_true, show ¬ data.length < k from by omega, if_false]
          have hw := writeAt_some (b := a'.buf) (off := a.size) (src := data.take k)
            (by rw [List.length_take, Nat.min_eq_left hdl, hinv'.len]; have := hinv'.le; omega)
          have hlen : (data.take k).length = k := by rw [List.length_take, Nat.min_eq_left hdl]
          simp only [hw]
          refine ⟨⟨hinv'.le, ?_, hinv'.lt⟩, by simp, ?_, by simp, hs.2.2.2⟩
          · simp [List.length_take, List.length_drop, hlen]; have := hinv'.le; have := hinv'.len; omega
          · intro _
            refine ⟨by simp only [SZ_eq, SIZE_MAX_eq] at *; omega, hsz, htight, hrf, ?_⟩
            have := writeAt_take hw
            simp only [hlen] at this
            simp only [hsz, hlen]; rw [← htake]; exact this
        · have hn0 : n = 0 := by omega
          simp only [hn, if_false]
          refine ⟨hinv', by simp, ?_, by simp, hs.2.2.2⟩
          intro _
          have hk : k = 0 := hk0 hn0
          refine ⟨by simp only [SZ_eq, SIZE_MAX_eq] at *; omega, hsz, htight, hrf, ?_⟩
          subst hk
          simp only [hsz, Nat.add_zero, htake, List.take_zero, List.append_nil]

theorem step_append (a : EA) (data : List UInt8) (n : Nat) (r : RecLen) (m : Mem) (h : Inv a)
    (hc : eaContract (abs a) (.append data n r)) : StepOk a (.append data n r) m := by
  have hal := abs_length h
  simp only [eaContract] at hc
  have hs := append_spec a data n r m h (fun hle => by rw [hc (by rw [← SIZE_MAX_same]; exact hle)]; exact Nat.le_refl _)
  unfold StepOk
  simp only [step]
  rcases hres : append a data n r m with ⟨st, a', m'⟩
  rw [hres] at hs
  obtain ⟨hinv', hno, hok, hfail, _⟩ := hs
  simp only at hinv' hno hok hfail ⊢
  refine ⟨hinv', ?_⟩
  simp only [eaAdmit]
  cases st
  · obtain ⟨hle, hsz, htight, _, hbytes⟩ := hok rfl
    have : (ans St.ok a' m m' none).st = St.ok := rfl
    simp only [this]
    rw [if_pos ⟨by rw [hal, ← SIZE_MAX_same]; exact hle, rfl⟩]
    rw [abs_eq (a := a') (by rw [hbytes]; rfl) htight]
    exact shape_abs hinv' _ _ _ _
  · obtain ⟨ha', hrf⟩ := hfail rfl
    subst ha'
    have : (ans St.fail a' m m' none).st = St.fail := rfl
    simp only [this]
    have hcond : (ans St.fail a' m m' none).refused = true ∨ (abs a').bytes.length + n * r.val > Percival.Spec.DS.SIZE_MAX := by
      rcases hrf with h1 | ⟨_, h2⟩
      · left; simp [ans, h1]
      · right; rw [hal, ← SIZE_MAX_same]; exact h2
    rw [if_pos ⟨hcond, rfl⟩]
    exact shape_abs h _ _ _ _
  · exact absurd rfl hno

theorem shrink_spec (a : EA) (n : Nat) (r : RecLen) (m : Mem) (h : Inv a) :
    Inv (shrink a n r m).1 ∧ (shrink a n r m).1.size = a.size - n * r.val ∧
    (shrink a n r m).1.buf.take (shrink a n r m).1.size = a.buf.take (a.size - n * r.val) ∧
    (((shrink a n r m).2.refusals = m.refusals ∧ Tight (shrink a n r m).1) ∨
     ((shrink a n r m).2.refusals = m.refusals + 1 ∧ ¬ Tight (shrink a n r m).1 ∧
      (shrink a n r m).1.alloc = a.alloc ∧ (shrink a n r m).1.buf = a.buf)) ∧
    (shrink a n r m).2.live + bufBlocks a = m.live + bufBlocks (shrink a n r m).1 := by
  have hsl : a.size < SZ := Nat.lt_of_le_of_lt h.le h.lt
  have hnsize : (if n > EArray.SIZE_MAX / r.val ∨ n * r.val % SZ > a.size then 0 else a.size - n * r.val % SZ)
      = a.size - n * r.val := by
    by_cases hg1 : n > EArray.SIZE_MAX / r.val
    · have := (guard_iff n r).1 hg1
      simp only [hg1, true_or, if_true]; simp only [SZ_eq, SIZE_MAX_eq] at *; omega
    · have hle : n * r.val ≤ EArray.SIZE_MAX := by
        have : ¬ n * r.val > EArray.SIZE_MAX := fun h' => hg1 ((guard_iff n r).2 h')
        omega
      have hmod : n * r.val % SZ = n * r.val := Nat.mod_eq_of_lt (by simp only [SZ_eq, SIZE_MAX_eq] at *; omega)
      simp only [hg1, false_or, hmod]
      split <;> omega
  unfold shrink
  simp only [hnsize]
  generalize a.size - n * r.val = k at *
  have hk : k ≤ a.size := by
    have := hnsize; split at this <;> omega
  have hs := resize_spec a k m h (by omega)
  rcases hres : resize a k m with ⟨ok, a', m'⟩
  rw [hres] at hs
  cases ok
  · obtain ⟨ha', hrf, hq⟩ := hs.2.2.1 rfl
    simp only at ha' hrf hq ⊢
    subst ha'
    have hq' := hq (by have := h.le; omega)
    refine ⟨⟨?_, h.len, h.lt⟩, ?_, ?_, Or.inr ⟨hrf, ?_, ?_, ?_⟩, ?_⟩
    · show k ≤ a'.alloc; have := h.le; omega
    · first | trivial | rfl
    · first | trivial | rfl
    · show ¬ (a'.alloc / 4 ≤ k); omega
    · first | trivial | rfl
    · first | trivial | rfl
    · have := hs.2.2.2; simpa [bufBlocks] using this
  · obtain ⟨hsz, htight, hrf, htake⟩ := hs.2.1 rfl
    simp only at hsz htight hrf htake ⊢
    rw [Nat.min_eq_right hk] at htake
    refine ⟨hs.1, hsz, by rw [hsz]; exact htake, Or.inl ⟨hrf, htight⟩, hs.2.2.2⟩

theorem step_shrink (a : EA) (n : Nat) (r : RecLen) (m : Mem) (h : Inv a) : StepOk a (.shrink n r) m := by
  have hal := abs_length h
  have hs := shrink_spec a n r m h
  unfold StepOk
  simp only [step]
  rcases hres : shrink a n r m with ⟨a', m'⟩
  rw [hres] at hs
  obtain ⟨hinv', hsz, hbytes, hcases, _⟩ := hs
  simp only at hinv' hsz hbytes hcases ⊢
  refine ⟨hinv', ?_⟩
  simp only [eaAdmit]
  rw [if_pos ⟨rfl, rfl⟩]
  have hb : (abs a).bytes.take ((abs a).bytes.length - n * r.val) = a'.buf.take a'.size := by
    rw [hal, hbytes]; simp only [abs, List.take_take]; congr 1; omega
  have : ({ bytes := (abs a).bytes.take ((abs a).bytes.length - n * r.val),
            loose := (ans St.ok a' m m' none).refused } : EaIdeal) = abs a' := by
    rw [hb]
    simp only [abs, ans]; congr 1
    rcases hcases with ⟨h1, ht⟩ | ⟨h1, ht, _, _⟩
    · simp only [Tight] at ht; simp [h1]; omega
    · simp only [Tight] at ht
      have e1 : (m.refusals + 1 != m.refusals) = true := by simp
      rw [h1, e1, eq_comm, decide_eq_true_eq]; omega
  rw [this]
  exact shape_abs hinv' _ _ _ _

theorem truncate_spec (a : EA) (m : Mem) (h : Inv a) :
    Inv (truncate a m).2.1 ∧
    ((truncate a m).1 = true →
      (truncate a m).2.1.size = a.size ∧ (truncate a m).2.1.alloc = a.size ∧
      (truncate a m).2.1.buf = a.buf.take a.size) ∧
    ((truncate a m).1 = false → (truncate a m).2.1 = a ∧ (truncate a m).2.2.refusals = m.refusals + 1) ∧
    (truncate a m).2.2.live + bufBlocks a = m.live + bufBlocks (truncate a m).2.1 := by
  obtain ⟨hle, hlen, hlt⟩ := h
  unfold truncate
  by_cases h0 : a.size = 0
  · simp only [h0, if_true]
    refine ⟨⟨by simp, by simp, by simp [SZ_eq]⟩, fun _ => ⟨by simp, by simp, by simp⟩, by simp, ?_⟩
    have := (free_facts m (a.alloc == 0)).2.1
    simp only [bufBlocks]; by_cases ha : a.alloc = 0 <;> simp [ha] at this ⊢ <;> omega
  · simp only [h0, if_false]
    by_cases hgt : a.alloc > a.size
    · simp only [hgt, if_true]
      cases hr : (m.realloc false a.size).1
      · have hf := realloc_fail hr
        rw [pair_eta _ hr]
        exact ⟨⟨hle, hlen, hlt⟩, by simp, fun _ => ⟨by simp, by simpa using hf.1⟩, by simp [hf.2.1]⟩
      · have hf := realloc_ok hr
        rw [pair_eta _ hr]
        refine ⟨⟨by simp, by simp [List.length_take]; omega, by simp; omega⟩, fun _ => ⟨by simp, by simp, by simp⟩, by simp, ?_⟩
        simp only [bufBlocks, hf.2.1]
        have : a.alloc ≠ 0 := by omega
        simp [this, h0]
    · simp only [hgt, if_false]
      have : a.alloc = a.size := by omega
      refine ⟨⟨hle, hlen, hlt⟩, fun _ => ⟨by simp, by simp [this], ?_⟩, by simp, by simp⟩
      rw [List.take_of_length_le (by omega)]

theorem step_truncate (a : EA) (m : Mem) (h : Inv a) : StepOk a .truncate m := by
  have hs := truncate_spec a m h
  unfold StepOk
  simp only [step]
  rcases hres : truncate a m with ⟨ok, a', m'⟩
  rw [hres] at hs
  obtain ⟨hinv', hok, hfail, _⟩ := hs
  simp only at hinv' hok hfail ⊢
  cases ok
  · obtain ⟨ha', hrf⟩ := hfail rfl
    subst ha'
    refine ⟨h, ?_⟩
    simp only [eaAdmit]
    have : (ans St.fail a' m m' none).st = St.fail := rfl
    simp only [this]
    rw [if_pos ⟨by simp [ans, hrf], rfl⟩]
    exact shape_abs h _ _ _ _
  · obtain ⟨hsz, hal, hbuf⟩ := hok rfl
    refine ⟨hinv', ?_⟩
    simp only [eaAdmit]
    have : (ans St.ok a' m m' none).st = St.ok := rfl
    simp only [this]
    rw [if_pos ⟨by simp [ans, hsz, hal], rfl⟩]
    have : ({ (abs a) with loose := false } : EaIdeal) = abs a' := by
      apply abs_eq
      · simp only [abs, hbuf, hsz, List.take_take, Nat.min_self]
      · simp only [Tight, hal, hsz]; omega
    rw [this]
    exact shape_abs hinv' _ _ _ _

theorem readAt_some {b : List UInt8} {off len : Nat} (h : off + len ≤ b.length) :
    readAt b off len = some ((b.drop off).take len) := by simp [readAt, h]

theorem getRec_spec (a : EA) (pos : Nat) (r : RecLen) (h : Inv a) (hc : pos * r.val + r.val ≤ a.size) :
    getRec a pos r = some (getBytes (a.buf.take a.size) pos r.val) := by
  have := h.le; have := h.len
  unfold getRec
  rw [if_pos hc, readAt_some (by omega)]
  simp only [getBytes]
  congr 1
  rw [List.drop_take, List.take_take, Nat.min_eq_left (by omega)]

theorem step_get (a : EA) (pos : Nat) (r : RecLen) (m : Mem) (h : Inv a)
    (hc : eaContract (abs a) (.get pos r)) : StepOk a (.get pos r) m := by
  have hal := abs_length h
  simp only [eaContract, hal] at hc
  unfold StepOk
  simp only [step, getRec_spec a pos r h hc]
  refine ⟨h, ?_⟩
  simp only [eaAdmit]
  rw [if_pos ⟨rfl, by rw [hal]; exact hc, rfl⟩]
  exact shape_abs h _ _ _ _

theorem setRec_spec (a : EA) (pos : Nat) (r : RecLen) (rec : List UInt8) (h : Inv a)
    (hc : pos * r.val + r.val ≤ a.size) (hr : rec.length = r.val) :
    ∃ a', setRec a pos r rec = some a' ∧ a'.size = a.size ∧ a'.alloc = a.alloc ∧ Inv a' ∧
      a'.buf.take a'.size = setBytes (a.buf.take a.size) pos r.val rec := by
  have := h.le; have := h.len
  unfold setRec
  rw [if_pos ⟨hc, hr⟩, writeAt_some (by omega)]
  refine ⟨_, rfl, rfl, rfl, ⟨h.le, ?_, h.lt⟩, ?_⟩
  · simp [List.length_take, List.length_drop]; omega
  · simp only [setBytes, hr]
    generalize pos * r.val = P at *
    have hX : (a.buf.take P).length = P := by rw [List.length_take]; omega
    rw [List.take_append, List.take_of_length_le (l := a.buf.take P ++ rec) (by simp [hX, hr]; omega)]
    simp only [List.length_append, hX, hr]
    rw [List.take_take, Nat.min_eq_left (by omega), List.drop_take]

theorem step_set (a : EA) (pos : Nat) (r : RecLen) (rec : List UInt8) (m : Mem) (h : Inv a)
    (hc : eaContract (abs a) (.set pos r rec)) : StepOk a (.set pos r rec) m := by
  have hal := abs_length h
  simp only [eaContract, hal] at hc
  obtain ⟨a', hset, hsz, halloc, hinv', hbytes⟩ := setRec_spec a pos r rec h hc.1 hc.2
  unfold StepOk
  simp only [step, hset]
  refine ⟨hinv', ?_⟩
  simp only [eaAdmit]
  rw [if_pos ⟨rfl, by rw [hal]; exact hc.1, hc.2, rfl⟩]
  have : ({ (abs a) with bytes := setBytes (abs a).bytes pos r.val rec } : EaIdeal) = abs a' := by
    rw [hsz] at hbytes
    simp only [abs, hbytes, hsz, halloc]
  rw [this]
  exact shape_abs hinv' _ _ _ _

theorem step_getsize (a : EA) (r : RecLen) (m : Mem) (h : Inv a) : StepOk a (.getsize r) m := by
  have hal := abs_length h
  unfold StepOk
  simp only [step]
  refine ⟨h, ?_⟩
  simp only [eaAdmit]
  rw [if_pos ⟨rfl, by simp [ans, getsize, hal]⟩]
  exact shape_abs h _ _ _ _

theorem exportdup_spec (a : EA) (r : RecLen) (m : Mem) (h : Inv a) :
    ((exportdup a r m).1 = .ok ∧ (exportdup a r m).2.1 = some (a.buf.take a.size, a.size / r.val) ∧
      (exportdup a r m).2.2.refusals = m.refusals ∧ (exportdup a r m).2.2.live = m.live + 1) ∨
    ((exportdup a r m).1 = .fail ∧ (exportdup a r m).2.1 = none ∧
      (exportdup a r m).2.2.refusals = m.refusals + 1 ∧ (exportdup a r m).2.2.live = m.live) := by
  have := h.le; have := h.len
  unfold exportdup
  cases hr : (m.malloc a.size).1
  · have hf := malloc_fail hr
    rw [pair_eta _ hr]
    right; exact ⟨by simp, by simp, hf.1, hf.2.1⟩
  · have hf := malloc_ok hr
    rw [pair_eta _ hr]
    left
    simp only [readAt_some (b := a.buf) (off := 0) (len := a.size) (by omega), List.drop_zero]
    exact ⟨by simp, by simp [getsize], hf.1, hf.2.1⟩

theorem step_exportdup (a : EA) (r : RecLen) (m : Mem) (h : Inv a) : StepOk a (.exportdup r) m := by
  have hal := abs_length h
  have hs := exportdup_spec a r m h
  unfold StepOk
  simp only [step]
  rcases hres : exportdup a r m with ⟨st, out, m'⟩
  rw [hres] at hs
  simp only at hs ⊢
  refine ⟨h, ?_⟩
  simp only [eaAdmit]
  rcases hs with ⟨h1, h2, _, _⟩ | ⟨h1, h2, h3, _⟩
  · subst h1; subst h2
    have : (ans St.ok a m m' (some (a.buf.take a.size, a.size / r.val))).st = St.ok := rfl
    simp only [this]
    rw [if_pos (by simp [ans, abs]; rw [← hal]; simp [abs])]
    exact shape_abs h _ _ _ _
  · subst h1; subst h2
    have : (ans St.fail a m m' none).st = St.fail := rfl
    simp only [this]
    rw [if_pos ⟨by simp [ans, h3], rfl⟩]
    exact shape_abs h _ _ _ _

/-- **every step is admitted by the ideal array and `abs` commutes** -/
theorem step_ok (a : EA) (op : EaOp) (m : Mem) (h : Inv a) (hc : eaContract (abs a) op) : StepOk a op m := by
  cases op with
  | resize n r fill => exact step_resize a n r fill m h hc
  | append data n r => exact step_append a data n r m h hc
  | shrink n r => exact step_shrink a n r m h
  | truncate => exact step_truncate a m h
  | get pos r => exact step_get a pos r m h hc
  | set pos r rec => exact step_set a pos r rec m h hc
  | getsize r => exact step_getsize a r m h
  | exportdup r => exact step_exportdup a r m h

/-! ### creation, export, release -/

theorem inv_empty : Inv { size := 0, alloc := 0, buf := [] } := ⟨Nat.le_refl _, rfl, by simp [SZ_eq]⟩

/-- `elasticarray_init`: on success a tight array of exactly `nrec * reclen` bytes, two-or-one blocks
allocated; on failure (a refused request, or a product that does not fit `size_t`) nothing stays allocated -/
theorem init_spec (nrec : Nat) (r : RecLen) (m : Mem) :
    match EArray.init nrec r m with
    | (some a, m') => Inv a ∧ Tight a ∧ a.size = nrec * r.val ∧ nrec * r.val ≤ EArray.SIZE_MAX ∧
        m'.live = m.live + 1 + bufBlocks a ∧ m'.refusals = m.refusals
    | (none, m') => m'.live = m.live ∧ (m'.refusals > m.refusals ∨ nrec * r.val > EArray.SIZE_MAX) := by
  unfold EArray.init
  cases hr : (m.malloc structSize).1
  · have hf := malloc_fail hr
    rw [pair_eta _ hr]
    simp only
    exact ⟨hf.2.1, Or.inl (by omega)⟩
  · have hf := malloc_ok hr
    rw [pair_eta _ hr]
    simp only
    have hs := resizeRec_spec { size := 0, alloc := 0, buf := [] } nrec r (m.malloc structSize).2 inv_empty
    rcases hres : resizeRec { size := 0, alloc := 0, buf := [] } nrec r (m.malloc structSize).2 with ⟨ok, a, m2⟩
    rw [hres] at hs
    obtain ⟨hinv, hok, hfail, hlive⟩ := hs
    simp only at hinv hok hfail hlive ⊢
    cases ok
    · obtain ⟨ha, hrf⟩ := hfail rfl
      subst ha
      simp only [EArray.free]
      have f1 := free_facts m2 ((0:Nat) == 0)
      have f2 := free_facts (m2.free ((0:Nat) == 0)) false
      simp only [bufBlocks] at hlive
      refine ⟨by rw [f2.2.1, f1.2.1]; simp at hlive ⊢; omega, ?_⟩
      rw [f2.1, f1.1]
      rcases hrf with h1 | ⟨h1, h2⟩
      · left; omega
      · right; exact h2
    · obtain ⟨hle, hsz, htight, hrf, _⟩ := hok rfl
      simp only [bufBlocks] at hlive ⊢
      exact ⟨hinv, htight, hsz, hle, by simp at hlive; omega, by omega⟩

/-- `elasticarray_export`: hands over exactly the contents and their record count; on failure the array
is untouched and a request was refused -/
theorem export_spec (a : EA) (r : RecLen) (m : Mem) (h : Inv a) :
    match exportBuf a r m with
    | (some (b, n), _, m') => b = a.buf.take a.size ∧ n = a.size / r.val ∧
        m'.live + bufBlocks a + 1 = m.live + (if a.size = 0 then 0 else 1)
    | (none, a', m') => a' = a ∧ m'.refusals = m.refusals + 1 ∧ m'.live = m.live := by
  have hs := truncate_spec a m h
  unfold exportBuf
  rcases hres : truncate a m with ⟨ok, a', m'⟩
  rw [hres] at hs
  obtain ⟨hinv', hok, hfail, hlive⟩ := hs
  simp only at hinv' hok hfail hlive ⊢
  cases ok
  · obtain ⟨ha, hrf⟩ := hfail rfl
    subst ha
    exact ⟨rfl, hrf, by omega⟩
  · obtain ⟨hsz, hal, hbuf⟩ := hok rfl
    simp only
    refine ⟨hbuf, by simp [getsize, hsz], ?_⟩
    have f := (free_facts m' false).2.1
    have hb : bufBlocks a' = if a.size = 0 then 0 else 1 := by simp [bufBlocks, hal]
    rw [hb] at hlive
    rw [f]; simp; omega

/-- `elasticarray_free` releases the structure and its buffer -/
theorem free_live (a : EA) (m : Mem) : (EArray.free a m).live = m.live - 1 - bufBlocks a := by
  simp only [EArray.free, bufBlocks]
  have f1 := free_facts m (a.alloc == 0)
  have f2 := free_facts (m.free (a.alloc == 0)) false
  rw [f2.2.1, f1.2.1]
  by_cases ha : a.alloc = 0 <;> simp [ha] <;> omega

/-! ### whole runs -/

/-- the caller keeps its side of the contract at every operation of the run -/
def Contracts (a : EA) : List EaOp → Mem → Prop
  | [], _ => True
  | op :: rest, m => eaContract (abs a) op ∧ Contracts (step a op m).2.1 rest (step a op m).2.2

theorem run_ok : ∀ (ops : List EaOp) (a : EA) (m : Mem), Inv a → Contracts a ops m →
    Inv (run a ops m).2.1 ∧ eaAdmitAll (abs a) (run a ops m).1 = some (abs (run a ops m).2.1)
  | [], a, m, h, _ => ⟨h, rfl⟩
  | op :: rest, a, m, h, hc => by
    obtain ⟨hc1, hc2⟩ := hc
    have hs := step_ok a op m h hc1
    unfold StepOk at hs
    have ih := run_ok rest (step a op m).2.1 (step a op m).2.2 hs.1 hc2
    simp only [run]
    rcases hst : step a op m with ⟨an, a', m'⟩
    rw [hst] at hs ih
    simp only at hs ih ⊢
    rcases hrun : run a' rest m' with ⟨tr, a'', m''⟩
    rw [hrun] at ih
    simp only at ih ⊢
    exact ⟨ih.1, by simp only [eaAdmitAll, hs.2]; exact ih.2⟩

/-! ### what an admitted answer implies -/

theorem eaCheck_some {i i' : EaIdeal} {a : EaAns} (h : eaCheck i a = some i') : i' = i ∧ eaShape i a = true := by
  unfold eaCheck at h
  split at h
  · cases h; exact ⟨rfl, by assumption⟩
  · cases h

/-- the monitor never admits an out-of-bounds outcome -/
theorem eaAdmit_not_oob {i i' : EaIdeal} {op : EaOp} {a : EaAns} (h : eaAdmit i op a = some i') : a.st ≠ .oob := by
  intro hst
  cases op <;> simp [eaAdmit, hst] at h

/-- after an admitted operation the sizes agree with the ideal array, `size ≤ alloc`, and the array is
within the factor-4 bound unless the documented exception is in force -/
theorem eaAdmit_shape {i i' : EaIdeal} {op : EaOp} {a : EaAns} (h : eaAdmit i op a = some i') :
    a.size = i'.bytes.length ∧ a.size ≤ a.alloc ∧ (i'.loose = false → a.alloc / 4 ≤ a.size) := by
  have key : ∀ j, eaCheck j a = some i' → a.size = i'.bytes.length ∧ a.size ≤ a.alloc ∧ (i'.loose = false → a.alloc / 4 ≤ a.size) := by
    intro j hj
    obtain ⟨rfl, hs⟩ := eaCheck_some hj
    simp only [eaShape, tight, Bool.and_eq_true, beq_iff_eq, decide_eq_true_eq, Bool.or_eq_true] at hs
    refine ⟨hs.1.1, hs.1.2, fun hl => ?_⟩
    rcases hs.2 with h1 | h1
    · rw [hl] at h1; cases h1
    · exact h1
  cases op <;> simp only [eaAdmit] at h <;> (repeat' split at h) <;> first | exact key _ h | cases h

/-- which admitted operations clear the exception flag -/
theorem eaAdmit_loose {i i' : EaIdeal} {op : EaOp} {a : EaAns} (h : eaAdmit i op a = some i') :
    (match op with
     | .resize _ _ _ | .append _ _ _ | .truncate => a.st = .ok → i'.loose = false
     | .shrink _ _ => a.refused = false → i'.loose = false
     | _ => True) := by
  cases op <;> simp only [eaAdmit] at h <;> (repeat' split at h) <;>
    first
    | trivial
    | cases h
    | (intro hh; obtain ⟨rfl, _⟩ := eaCheck_some h; first | rfl | exact hh | (simp_all))

end Percival.Proofs.EArray
