import Percival.Proofs.AfMonRegA
/-!
# C14 monitor soundness, registry piece: the registration operations keep `RegRel` and are accepted

For every operation of `Spec.AfMon.Op` except `.run` and `.end_`: if `RegRel s ms` holds, the monitor accepts the answer
of the model (`Accepts s ms op`, for the registration / clock / schedule ops) and `RegRel` holds between the next
states (`reg_step`).  The heap ops are handled by the frame lemma of `Proofs/AfMonRegA.lean`.
-/
namespace Percival.Proofs.AfMonReg
open Percival.Model Percival.Model.EvReg Percival.Model.AfStep
open Percival.Spec.AfMon (Op Ans MState monStep MAXID MAXFD)
open Percival.Spec.Reg (Reg)
open Percival.Proofs.EvRegNet (regNet NetInv netRegistered)
open Percival.Proofs.EvRegTimer (regImm regTimers TmInv Step)
open Percival.Proofs.AfMonRel

theorem regImm_step {s : S} {ms : MState} (i prio : Nat) (h : RegRel s ms) :
    Accepts s ms (.regImm i prio) ∧ RegRel (next s ms (.regImm i prio)).1 (next s ms (.regImm i prio)).2 := by
  have hid := hasId_eq h i
  unfold Accepts next ansOf
  rw [stepOp, monStep]
  by_cases hskip : (decide (i ≥ MAXID) || registeredImm s.ev i || registeredTm s.ev i) = true
  · have hs2 : (decide (i ≥ MAXID) || ms.reg.hasId i) = true := by rw [hid, ← Bool.or_assoc]; exact hskip
    rw [if_pos hskip, if_pos hs2]
    exact ⟨rfl, h⟩
  · have hs2 : ¬ (decide (i ≥ MAXID) || ms.reg.hasId i) = true := by rw [hid, ← Bool.or_assoc]; exact hskip
    rw [if_neg hskip, if_neg hs2]
    have hni : i ∉ (regImm s.ev).flatten := by
      intro hh; apply hskip; simp [(registeredImm_iff s.ev i).mpr hh]
    have hnt : i ∉ regTimers s.ev := by
      intro hh; apply hskip; simp [(registeredTm_iff s.ev i).mpr hh]
    have hoth := (EvRegTimer.immReg_master s.ev i prio s.m).1
    have hst := (EvRegTimer.immReg_master s.ev i prio s.m).2.1
    have hok := EvRegTimer.immReg_ok s.ev i prio s.m
    have hfr := EvRegTimer.immReg_fail_refused s.ev i prio s.m
    have hfu := AllocFail.imm_fail_unchanged s.ev i prio s.m
    rcases hr : immReg s.ev i prio s.m with ⟨ok, e', m'⟩
    rw [hr] at hoth hst hok hfr hfu
    simp only at hoth hst hok hfr hfu ⊢
    obtain ⟨o1, o2, o3, o4, o5, o6⟩ := hoth
    have hni' : NetInv e' := EvRegNet.netInv_congr _ _ h.netInv o3 o4 o5 o6
    have hti' : TmInv e' m' := EvRegTimer.tmInv_congr _ _ _ _ h.tmInv o1 o2 hst.n
    have hrt : regTimers e' = regTimers s.ev := by simp only [regTimers, registry, o2]
    have hrn : regNet e' = regNet s.ev := by simp only [regNet, registry, o4]
    cases ok
    · have hrf : DsStep.rf s.m m' > 0 := by have := hfr rfl; unfold DsStep.rf; omega
      have hreg := hfu rfl
      have hri : regImm e' = regImm s.ev := by simp only [regImm, hreg]
      have e1 : ((Out.ev (boolRes false) (DsStep.rf s.m m') none (evView e' s.m m')).ans.head == Spec.AfMon.Head.ok) = false := rfl
      have e2 : (Out.ev (boolRes false) (DsStep.rf s.m m') none (evView e' s.m m')).ans.failRefused = true := by
        simp [Out.ans, Ans.failRefused, Ans.rfn, boolRes, headOf, hrf]
      simp only [e1, e2, if_true, Bool.false_eq_true, if_false]
      refine ⟨trivial, ?_⟩
      exact ⟨h.now, by rw [hri]; exact h.imm, by rw [hrt]; exact h.tm, by rw [hrn]; exact h.net, hni', hti',
        by rw [hri]; exact h.immNd, by rw [hri, hrt]; exact h.disj, by rw [hrt]; exact h.tmSmall⟩
    · have hri := hok rfl
      have e1 : ((Out.ev (boolRes true) (DsStep.rf s.m m') none (evView e' s.m m')).ans.head == Spec.AfMon.Head.ok) = true := rfl
      simp only [e1, if_true]
      refine ⟨trivial, ?_⟩
      have hperm := flatten_modify_append i (regImm s.ev) prio
      refine ⟨h.now, by rw [hri]; simp only; rw [h.imm], by rw [hrt]; exact h.tm, by rw [hrn]; exact h.net, hni', hti', ?_, ?_,
        by rw [hrt]; exact h.tmSmall⟩
      · rw [hri]
        rcases hperm with hp | hp
        · exact hp.nodup_iff.mpr h.immNd
        · exact hp.nodup_iff.mpr (List.nodup_cons.mpr ⟨hni, h.immNd⟩)
      · rw [hri, hrt]
        intro j hj
        rcases hperm with hp | hp
        · exact h.disj j (hp.mem_iff.mp hj)
        · have := hp.mem_iff.mp hj
          rcases List.mem_cons.mp this with rfl | hj'
          · exact hnt
          · exact h.disj j hj'

theorem cancelImm_step {s : S} {ms : MState} (i : Nat) (h : RegRel s ms) :
    Accepts s ms (.cancelImm i) ∧ RegRel (next s ms (.cancelImm i)).1 (next s ms (.cancelImm i)).2 := by
  have hany := immAny_iff h i
  unfold Accepts next ansOf
  rw [stepOp, monStep]
  by_cases hreg : i ∈ (regImm s.ev).flatten
  · obtain ⟨e', m', hc, hri, o1, o2, o3, o4, o5, o6, _, hn, _⟩ := EvRegTimer.immCancel_ok s.ev i s.m hreg
    have hs2 : ¬ (!(ms.reg.imm.any (·.contains i))) = true := by simp only [hany.mpr hreg]; decide
    rw [hc, if_neg hs2]
    simp only
    have e1 : ((Out.ev NetRes.ok (DsStep.rf s.m m') none (evView e' s.m m')).ans.head == Spec.AfMon.Head.ok) = true := rfl
    simp only [e1, if_true]
    refine ⟨trivial, ?_⟩
    have hni' : NetInv e' := EvRegNet.netInv_congr _ _ h.netInv o3 o4 o5 o6
    have hti' : TmInv e' m' := EvRegTimer.tmInv_congr _ _ _ _ h.tmInv o1 o2 hn
    have hrt : regTimers e' = regTimers s.ev := by simp only [regTimers, registry, o2]
    have hrn : regNet e' = regNet s.ev := by simp only [regNet, registry, o4]
    have hnt : i ∉ ms.reg.timers.map (·.1) := by rw [h.tm]; exact h.disj i hreg
    have hfl : (regImm e').flatten = (regImm s.ev).flatten.filter (· != i) := by
      rw [hri, List.filter_flatten]
    refine ⟨h.now, ?_, ?_, by rw [hrn]; exact h.net, hni', hti', ?_, ?_, by rw [hrt]; exact h.tmSmall⟩
    · simp only [Reg.remove, removeOne_pred, hri, h.imm]
    · simp only [Reg.remove]
      rw [filter_ne_self _ _ _ hnt, hrt]; exact h.tm
    · rw [hfl]; exact h.immNd.filter _
    · rw [hfl, hrt]
      intro j hj
      exact h.disj j (List.mem_filter.mp hj).1
  · have hs2 : (!(ms.reg.imm.any (·.contains i))) = true := by
      have : ms.reg.imm.any (·.contains i) = false := by
        cases hb : ms.reg.imm.any (·.contains i)
        · rfl
        · exact absurd (hany.mp hb) hreg
      rw [this]; rfl
    rw [immCancel_none s.ev i s.m hreg, if_pos hs2]
    exact ⟨rfl, h⟩

/-- under `RegRel` fewer than `2^32` timers are registered (distinct ids below `MAXID`) -/
theorem timers_small {s : S} {ms : MState} (h : RegRel s ms) : s.ev.timers.length < 2 ^ 32 := by
  have := nodup_bound MAXID (regTimers s.ev) h.tmInv.nodup h.tmSmall
  simp only [regTimers, registry, List.length_map] at this
  have : MAXID = 4096 := rfl
  omega

theorem regTm_step {s : S} {ms : MState} (i : Nat) (us : Int) (h : RegRel s ms) :
    Accepts s ms (.regTm i us) ∧ RegRel (next s ms (.regTm i us)).1 (next s ms (.regTm i us)).2 := by
  have hid := hasId_eq h i
  unfold Accepts next ansOf
  rw [stepOp, monStep]
  by_cases hskip : (decide (i ≥ MAXID) || registeredImm s.ev i || registeredTm s.ev i) = true
  · have hs2 : (decide (i ≥ MAXID) || ms.reg.hasId i) = true := by rw [hid, ← Bool.or_assoc]; exact hskip
    rw [if_pos hskip, if_pos hs2]
    exact ⟨rfl, h⟩
  · have hs2 : ¬ (decide (i ≥ MAXID) || ms.reg.hasId i) = true := by rw [hid, ← Bool.or_assoc]; exact hskip
    rw [if_neg hskip, if_neg hs2]
    have hni : i ∉ (regImm s.ev).flatten := by
      intro hh; apply hskip; simp [(registeredImm_iff s.ev i).mpr hh]
    have hnt : i ∉ regTimers s.ev := by
      intro hh; apply hskip; simp [(registeredTm_iff s.ev i).mpr hh]
    have hsm : i < MAXID := by
      apply Nat.lt_of_not_le; intro hh; apply hskip; simp [hh]
    obtain ⟨hoth, hst, hok, hinv, hfr⟩ := EvRegTimer.tmReg_master s.ev i us s.now s.m _ rfl
    have hfu := AllocFail.tm_fail_unchanged s.ev i us s.now s.m
    rcases hr : tmReg s.ev i us s.now s.m with ⟨ok, e', m'⟩
    rw [hr] at hoth hst hok hinv hfr hfu
    simp only at hoth hst hok hinv hfr hfu ⊢
    obtain ⟨o1, o2, o3, o4, o5, o6, o7⟩ := hoth
    have hni' : NetInv e' := EvRegNet.netInv_congr _ _ h.netInv o4 o5 o6 o7
    have hti' : TmInv e' m' := hinv h.tmInv hnt
    have hri : regImm e' = regImm s.ev := by simp only [regImm, registry, o1]
    have hrn : regNet e' = regNet s.ev := by simp only [regNet, registry, o5]
    cases ok
    · have hrf : DsStep.rf s.m m' > 0 := by
        have := hfr h.tmInv (timers_small h) rfl; unfold DsStep.rf; omega
      have hreg := hfu rfl
      have hrt : regTimers e' = regTimers s.ev := by simp only [regTimers, hreg]
      have e1 : ((Out.ev (boolRes false) (DsStep.rf s.m m') none (evView e' s.m m')).ans.head == Spec.AfMon.Head.ok) = false := rfl
      have e2 : (Out.ev (boolRes false) (DsStep.rf s.m m') none (evView e' s.m m')).ans.failRefused = true := by
        simp [Out.ans, Ans.failRefused, Ans.rfn, boolRes, headOf, hrf]
      simp only [e1, e2, if_true, Bool.false_eq_true, if_false]
      refine ⟨trivial, ?_⟩
      exact ⟨h.now, by rw [hri]; exact h.imm, by rw [hrt]; exact h.tm, by rw [hrn]; exact h.net, hni', hti',
        by rw [hri]; exact h.immNd, by rw [hri, hrt]; exact h.disj, by rw [hrt]; exact h.tmSmall⟩
    · have hrt := (hok rfl).1
      have e1 : ((Out.ev (boolRes true) (DsStep.rf s.m m') none (evView e' s.m m')).ans.head == Spec.AfMon.Head.ok) = true := rfl
      simp only [e1, if_true]
      refine ⟨trivial, ?_⟩
      refine ⟨h.now, by rw [hri]; exact h.imm, by rw [hrt]; simp only [List.map_cons]; rw [h.tm],
        by rw [hrn]; exact h.net, hni', hti', by rw [hri]; exact h.immNd, ?_, ?_⟩
      · rw [hri, hrt]
        intro j hj hm
        rcases List.mem_cons.mp hm with rfl | hm'
        · exact hni hj
        · exact h.disj j hj hm'
      · rw [hrt]
        intro j hj
        rcases List.mem_cons.mp hj with rfl | hj'
        · exact hsm
        · exact h.tmSmall j hj'

theorem cancelTm_step {s : S} {ms : MState} (i : Nat) (h : RegRel s ms) :
    Accepts s ms (.cancelTm i) ∧ RegRel (next s ms (.cancelTm i)).1 (next s ms (.cancelTm i)).2 := by
  have hany := tmAny_iff h i
  unfold Accepts next ansOf
  rw [stepOp, monStep]
  by_cases hreg : i ∈ regTimers s.ev
  · obtain ⟨e', m', hc, hti', hrt, o1, o2, o3, o4, o5, o6, o7, _, hn⟩ := EvRegTimer.tmCancel_ok s.ev i s.m h.tmInv hreg
    have hs2 : ¬ (!(ms.reg.timers.any (·.1 == i))) = true := by simp only [hany.mpr hreg]; decide
    rw [hc, if_neg hs2]
    simp only
    have e1 : ((Out.ev NetRes.ok (DsStep.rf s.m m') none (evView e' s.m m')).ans.head == Spec.AfMon.Head.ok) = true := rfl
    simp only [e1, if_true]
    refine ⟨trivial, ?_⟩
    have hni' : NetInv e' := EvRegNet.netInv_congr _ _ h.netInv o4 o5 o6 o7
    have hri : regImm e' = regImm s.ev := by simp only [regImm, registry, o1]
    have hrn : regNet e' = regNet s.ev := by simp only [regNet, registry, o5]
    have hnim : i ∉ ms.reg.imm.flatten := by rw [h.imm]; exact fun hh => h.disj i hh hreg
    refine ⟨h.now, ?_, ?_, by rw [hrn]; exact h.net, hni', hti', by rw [hri]; exact h.immNd, ?_, ?_⟩
    · simp only [Reg.remove]
      rw [map_filter_ne_self _ _ hnim, hri]; exact h.imm
    · simp only [Reg.remove, removeOne_pred, hrt, ← h.tm, List.filter_map]
      rfl
    · rw [hri, hrt]
      intro j hj hm
      exact h.disj j hj (List.mem_filter.mp hm).1
    · rw [hrt]
      intro j hj
      exact h.tmSmall j (List.mem_filter.mp hj).1
  · have hs2 : (!(ms.reg.timers.any (·.1 == i))) = true := by
      have : ms.reg.timers.any (·.1 == i) = false := by
        cases hb : ms.reg.timers.any (·.1 == i)
        · rfl
        · exact absurd (hany.mp hb) hreg
      rw [this]; rfl
    rw [tmCancel_none s.ev i s.m hreg, if_pos hs2]
    exact ⟨rfl, h⟩

theorem regNet_step {s : S} {ms : MState} (i fd : Nat) (w : Bool) (h : RegRel s ms) :
    Accepts s ms (.regNet i fd w) ∧ RegRel (next s ms (.regNet i fd w)).1 (next s ms (.regNet i fd w)).2 := by
  unfold Accepts next ansOf
  rw [stepOp, monStep]
  by_cases hskip : (decide (i ≥ MAXID) || decide (fd ≥ MAXFD)) = true
  · rw [if_pos hskip, if_pos hskip]
    exact ⟨rfl, h⟩
  · rw [if_neg hskip, if_neg hskip]
    have hfd : 24 * (fd + 1) ≤ EArray.SIZE_MAX := by
      have : fd < MAXFD := by apply Nat.lt_of_not_le; intro hh; apply hskip; simp [hh]
      have h64 : MAXFD = 64 := rfl
      rw [Percival.Proofs.EArray.SIZE_MAX_eq]; omega
    obtain ⟨hni', hsp⟩ := EvRegNet.netReg_spec s.ev i fd w s.m h.netInv
    obtain ⟨o1, o2, o3, o4, o5⟩ := EvRegNet.netReg_other s.ev i fd w s.m
    obtain ⟨_, hn, _⟩ := EvRegNet.netReg_mono s.ev i fd w s.m
    rcases hr : netReg s.ev i fd w s.m with ⟨r, e', m'⟩
    rw [hr] at hni' hsp o1 o2 o3 o4 o5 hn
    simp only at hni' hsp o1 o2 o3 o4 o5 hn ⊢
    have hti' : TmInv e' m' := EvRegTimer.tmInv_congr _ _ _ _ h.tmInv o3 o4 hn
    have hri : regImm e' = regImm s.ev := by simp only [regImm, registry, o1]
    have hrt : regTimers e' = regTimers s.ev := by simp only [regTimers, registry, o4]
    -- the relation when the registry did not change
    have same : registry e' = registry s.ev → RegRel
        ({ s with m := m', ev := e', net := if r = NetRes.ok then (fd, w) :: s.net else s.net } : S) ms := by
      intro hreg
      have hrn : regNet e' = regNet s.ev := by simp only [regNet, hreg]
      exact ⟨h.now, by rw [hri]; exact h.imm, by rw [hrt]; exact h.tm, by rw [hrn]; exact h.net, hni', hti',
        by rw [hri]; exact h.immNd, by rw [hri, hrt]; exact h.disj, by rw [hrt]; exact h.tmSmall⟩
    rcases hsp with ⟨rfl, hnr, hmem⟩ | ⟨rfl, hrg, hreg⟩ | ⟨rfl, hreg, hrf⟩
    · -- ok
      rcases netSlot_cases h fd w with ⟨hns, _⟩ | ⟨x, _, hx⟩
      · rw [hns]
        simp only
        have e1 : ((Out.ev NetRes.ok (DsStep.rf s.m m') none (evView e' s.m m')).ans.head == Spec.AfMon.Head.ok) = true := rfl
        simp only [e1, if_true]
        refine ⟨trivial, ?_⟩
        refine ⟨h.now, by rw [hri]; exact h.imm, by rw [hrt]; exact h.tm, ?_, hni', hti',
          by rw [hri]; exact h.immNd, by rw [hri, hrt]; exact h.disj, by rw [hrt]; exact h.tmSmall⟩
        intro a b c
        rw [hmem (a, b, c), List.mem_cons, h.net]
      · exact absurd ⟨x, hx⟩ hnr
    · -- exists
      rcases netSlot_cases h fd w with ⟨_, hnr⟩ | ⟨x, hns, _⟩
      · exact absurd hrg hnr
      · rw [hns]
        simp only
        exact ⟨rfl, same hreg⟩
    · -- fail
      have hrf' : DsStep.rf s.m m' > 0 := by
        rcases hrf with hrf | hrf
        · unfold DsStep.rf; omega
        · omega
      have e1 : ((Out.ev NetRes.fail (DsStep.rf s.m m') none (evView e' s.m m')).ans.head == Spec.AfMon.Head.ok) = false := rfl
      have e2 : (Out.ev NetRes.fail (DsStep.rf s.m m') none (evView e' s.m m')).ans.failRefused = true := by
        simp [Out.ans, Ans.failRefused, Ans.rfn, headOf, hrf']
      rcases netSlot_cases h fd w with ⟨hns, _⟩ | ⟨x, hns, _⟩
      · rw [hns]
        simp only [e1, e2, if_true, Bool.false_eq_true, if_false]
        exact ⟨trivial, same hreg⟩
      · rw [hns]
        simp only [e2, Bool.or_true]
        exact ⟨rfl, same hreg⟩

theorem cancelNet_step {s : S} {ms : MState} (fd : Nat) (w : Bool) (h : RegRel s ms) :
    Accepts s ms (.cancelNet fd w) ∧ RegRel (next s ms (.cancelNet fd w)).1 (next s ms (.cancelNet fd w)).2 := by
  unfold Accepts next ansOf
  rw [stepOp, monStep]
  by_cases hskip : fd ≥ MAXFD
  · rw [if_pos hskip, if_pos hskip]
    exact ⟨rfl, h⟩
  · rw [if_neg hskip, if_neg hskip]
    obtain ⟨o1, o2, o3, o4, o5⟩ := EvRegNet.netCancel_other s.ev fd w s.m
    obtain ⟨_, hn, _⟩ := EvRegNet.netCancel_mono s.ev fd w s.m
    have hti0 : TmInv (netCancel s.ev fd w s.m).2.1 (netCancel s.ev fd w s.m).2.2 :=
      EvRegTimer.tmInv_congr _ _ _ _ h.tmInv o3 o4 hn
    have hri0 : regImm (netCancel s.ev fd w s.m).2.1 = regImm s.ev := by simp only [regImm, registry, o1]
    have hrt0 : regTimers (netCancel s.ev fd w s.m).2.1 = regTimers s.ev := by simp only [regTimers, registry, o4]
    rcases netSlot_cases h fd w with ⟨hns, hnr⟩ | ⟨x, hns, hx⟩
    · rw [hns]
      obtain ⟨hni', hreg, hres⟩ := netCancel_nothing s.ev fd w s.m h.netInv hnr
      rcases hr : netCancel s.ev fd w s.m with ⟨r, e', m'⟩
      rw [hr] at hti0 hri0 hrt0 hni' hreg hres
      simp only at hti0 hri0 hrt0 hni' hreg hres ⊢
      have hrn : regNet e' = regNet s.ev := by simp only [regNet, hreg]
      refine ⟨?_, ⟨h.now, by rw [hri0]; exact h.imm, by rw [hrt0]; exact h.tm, by rw [hrn]; exact h.net, hni', hti0,
        by rw [hri0]; exact h.immNd, by rw [hri0, hrt0]; exact h.disj, by rw [hrt0]; exact h.tmSmall⟩⟩
      rcases hres with rfl | ⟨rfl, hrf⟩
      · rfl
      · have hrf' : DsStep.rf s.m m' > 0 := by unfold DsStep.rf; omega
        have e2 : (Out.ev NetRes.fail (DsStep.rf s.m m') none (evView e' s.m m')).ans.failRefused = true := by
          simp [Out.ans, Ans.failRefused, Ans.rfn, headOf, hrf']
        simp only [e2, Bool.or_true]
        rfl
    · rw [hns]
      obtain ⟨hok, hni', hperm⟩ := EvRegNet.netCancel_ok s.ev fd x w s.m h.netInv hx
      rcases hr : netCancel s.ev fd w s.m with ⟨r, e', m'⟩
      rw [hr] at hti0 hri0 hrt0 hni' hok hperm
      simp only at hti0 hri0 hrt0 hni' hok hperm ⊢
      subst hok
      have e1 : ((Out.ev NetRes.ok (DsStep.rf s.m m') none (evView e' s.m m')).ans.head == Spec.AfMon.Head.ok) = true := rfl
      simp only [e1, if_true]
      refine ⟨trivial, ⟨h.now, by rw [hri0]; exact h.imm, by rw [hrt0]; exact h.tm, ?_, hni', hti0,
        by rw [hri0]; exact h.immNd, by rw [hri0, hrt0]; exact h.disj, by rw [hrt0]; exact h.tmSmall⟩⟩
      have hnd : ((fd, w, x) :: regNet e').Nodup := hperm.nodup_iff.mp (EvRegNet.regNet_nodup s.ev)
      intro a b c
      simp only [List.mem_filter, h.net, hperm.mem_iff, List.mem_cons, Prod.mk.injEq, Bool.not_eq_true',
        Bool.and_eq_false_iff, beq_eq_false_iff_ne, ne_eq]
      constructor
      · rintro ⟨h1 | h1, h2⟩
        · exact absurd h1.2.1 (by rcases h2 with h2 | h2; exact absurd h1.1 h2; exact h2)
        · exact h1
      · intro hm
        refine ⟨Or.inr hm, ?_⟩
        by_cases ha : a = fd
        · by_cases hb : b = w
          · exfalso
            subst ha hb
            have hin : (a, b, c) ∈ regNet s.ev := hperm.mem_iff.mpr (List.mem_cons_of_mem _ hm)
            have : c = x := EvRegNet.regNet_unique s.ev a b c x hin hx
            subst this
            exact (List.nodup_cons.mp hnd).1 hm
          · exact Or.inr hb
        · exact Or.inl ha

theorem clock_step {s : S} {ms : MState} (us : Int) (h : RegRel s ms) :
    Accepts s ms (.clock us) ∧ RegRel (next s ms (.clock us)).1 (next s ms (.clock us)).2 := by
  unfold Accepts next ansOf
  rw [stepOp, monStep]
  refine ⟨rfl, ?_⟩
  obtain ⟨a, b, c, d, e, f, g, i, j⟩ := h
  exact ⟨by simp only [a], b, c, d, e, f, g, i, j⟩

theorem failat_step {s : S} {ms : MState} (k : Nat) (h : RegRel s ms) :
    Accepts s ms (.failat k) ∧ RegRel (next s ms (.failat k)).1 (next s ms (.failat k)).2 := by
  unfold Accepts next ansOf
  rw [stepOp, monStep]
  exact ⟨rfl, regRel_frame h rfl rfl (Nat.le_refl _) rfl rfl⟩

theorem failfrom_step {s : S} {ms : MState} (k : Nat) (h : RegRel s ms) :
    Accepts s ms (.failfrom k) ∧ RegRel (next s ms (.failfrom k)).1 (next s ms (.failfrom k)).2 := by
  unfold Accepts next ansOf
  rw [stepOp, monStep]
  exact ⟨rfl, regRel_frame h rfl rfl (Nat.le_refl _) rfl rfl⟩

theorem failoff_step {s : S} {ms : MState} (h : RegRel s ms) :
    Accepts s ms .failoff ∧ RegRel (next s ms .failoff).1 (next s ms .failoff).2 := by
  unfold Accepts next ansOf
  rw [stepOp, monStep]
  exact ⟨rfl, regRel_frame h rfl rfl (Nat.le_refl _) rfl rfl⟩

/-! ### the whole piece -/

theorem regRel_init : RegRel {} {} :=
  ⟨rfl, rfl, rfl, fun _ _ _ => Iff.rfl, EvRegNet.netInv_init, EvRegTimer.tmInv_init _, by decide,
   fun i hi => by simp [regTimers, registry], fun i hi => by simp [regTimers, registry] at hi⟩

/-- the operations whose answers this piece judges: registration / cancellation, the clock, the failure schedule -/
def isRegOp : Op → Bool
  | .regImm _ _ | .cancelImm _ | .regTm _ _ | .cancelTm _ | .regNet _ _ _ | .cancelNet _ _ | .clock _
  | .failat _ | .failfrom _ | .failoff => true
  | _ => false

/-- every op except `run` and `end` is a registration op or a heap op -/
theorem reg_or_heap (op : Op) (hop : op ≠ .end_ ∧ op ≠ .run) : isRegOp op = true ∨ isHeapOp op = true := by
  cases op <;> simp [isRegOp, isHeapOp] at hop ⊢

/-- **Registry piece of the monitor-soundness proof.**  For every op other than `end` / `run`: `RegRel` is kept by the
model's step together with the monitor's judgement of the model's answer, and for the registration ops that judgement
is "accepted". -/
theorem reg_step (s : S) (ms : MState) (op : Op) (hop : op ≠ .end_ ∧ op ≠ .run) (h : RegRel s ms) :
    (isRegOp op = true → Accepts s ms op) ∧ RegRel (next s ms op).1 (next s ms op).2 := by
  cases op with
  | failat k => exact ⟨fun _ => (failat_step k h).1, (failat_step k h).2⟩
  | failfrom k => exact ⟨fun _ => (failfrom_step k h).1, (failfrom_step k h).2⟩
  | failoff => exact ⟨fun _ => (failoff_step h).1, (failoff_step h).2⟩
  | end_ => exact absurd rfl hop.1
  | hInit => exact ⟨fun hh => (by cases hh), heap_frame (.hInit) rfl h⟩
  | hAdd e k => exact ⟨fun hh => (by cases hh), heap_frame (.hAdd e k) rfl h⟩
  | hMin => exact ⟨fun hh => (by cases hh), heap_frame (.hMin) rfl h⟩
  | hDelmin => exact ⟨fun hh => (by cases hh), heap_frame (.hDelmin) rfl h⟩
  | hFree => exact ⟨fun hh => (by cases hh), heap_frame (.hFree) rfl h⟩
  | hCreate els => exact ⟨fun hh => (by cases hh), heap_frame (.hCreate els) rfl h⟩
  | regImm i prio => exact ⟨fun _ => (regImm_step i prio h).1, (regImm_step i prio h).2⟩
  | cancelImm i => exact ⟨fun _ => (cancelImm_step i h).1, (cancelImm_step i h).2⟩
  | regTm i us => exact ⟨fun _ => (regTm_step i us h).1, (regTm_step i us h).2⟩
  | cancelTm i => exact ⟨fun _ => (cancelTm_step i h).1, (cancelTm_step i h).2⟩
  | regNet i fd w => exact ⟨fun _ => (regNet_step i fd w h).1, (regNet_step i fd w h).2⟩
  | cancelNet fd w => exact ⟨fun _ => (cancelNet_step fd w h).1, (cancelNet_step fd w h).2⟩
  | clock us => exact ⟨fun _ => (clock_step us h).1, (clock_step us h).2⟩
  | run => exact absurd rfl hop.2

/-- the ops of a case with the model's answers, as the monitor reads them -/
def answered : S → List Op → List (Op × Ans)
  | _, [] => []
  | s, op :: rest => (op, ansOf s op) :: answered (stepOp s op).1 rest

/-- a case made of registration / clock / schedule ops only, from related states (in particular from the initial
ones): the monitor accepts every answer of the model -/
theorem reg_run : ∀ (ops : List Op) (s : S) (ms : MState), (∀ op ∈ ops, isRegOp op = true) → RegRel s ms →
    Percival.Spec.AfMon.acceptsRun ms (answered s ops) = true
  | [], _, _, _, _ => rfl
  | op :: ops, s, ms, hops, h => by
    have hr : isRegOp op = true := hops op (by simp)
    have hne : op ≠ .end_ ∧ op ≠ .run := by
      constructor <;> (intro hh; subst hh; cases hr)
    obtain ⟨h1, h2⟩ := reg_step s ms op hne h
    have hacc : (monStep ms op (ansOf s op)).2 = none := h1 hr
    have ih := reg_run ops (stepOp s op).1 (monStep ms op (ansOf s op)).1
      (fun o ho => hops o (List.mem_cons_of_mem _ ho)) h2
    simp only [answered, Percival.Spec.AfMon.acceptsRun]
    rcases hm : monStep ms op (ansOf s op) with ⟨ms', v⟩
    rw [hm] at hacc ih
    simp only at hacc ih
    subst hacc
    exact ih

theorem reg_run_init (ops : List Op) (hops : ∀ op ∈ ops, isRegOp op = true) :
    Percival.Spec.AfMon.acceptsRun {} (answered {} ops) = true := reg_run ops {} {} hops regRel_init

/-! ### non-vacuity -/

/-- a concrete non-initial related pair: after `register_imm 7 3` on the initial states (the default schedule grants
the two pool allocations), the monitor accepted, id 7 is registered at priority 3 on both sides, and `RegRel` holds -/
example :
    Accepts {} {} (.regImm 7 3) ∧
    (next {} {} (.regImm 7 3)).2.reg.imm[3]? = some [7] ∧
    regImm (next {} {} (.regImm 7 3)).1.ev = (List.replicate 32 ([] : List Nat)).modify 3 (· ++ [7]) ∧
    RegRel (next {} {} (.regImm 7 3)).1 (next {} {} (.regImm 7 3)).2 := by
  refine ⟨(regImm_step 7 3 regRel_init).1, by decide, by decide, (regImm_step 7 3 regRel_init).2⟩

/-- under the schedule `failfrom 1` (every request refused) the same registration answers `fail` with one refused
request, the monitor accepts that, and nothing is registered -/
example :
    (ansOf (stepOp {} (.failfrom 1)).1 (.regImm 7 3)).head = .fail ∧
    (ansOf (stepOp {} (.failfrom 1)).1 (.regImm 7 3)).rf = some 1 ∧
    Accepts (stepOp {} (.failfrom 1)).1 {} (.regImm 7 3) ∧
    (next (stepOp {} (.failfrom 1)).1 {} (.regImm 7 3)).2.reg = {} := by
  refine ⟨by decide, by decide, ?_, by decide⟩
  unfold Accepts
  decide

end Percival.Proofs.AfMonReg
