import Percival.Spec.MD
/-! The newest-first list construction `Spec.extendSchedule` satisfies the textbook recurrence
`W_t = f(W_{t-1-a}, W_{t-1-b}, W_{t-1-c}, W_{t-1-d})` with `W_t = M_t` for `t < 16`
(helper lemmas for C01, shared by SHA-256 and SHA-1). -/
namespace Percival.Proofs.Schedule
open Percival.Spec

variable (next : List UInt32 → Option UInt32) (F : List UInt32 → UInt32)

theorem extend_succ (hnext : ∀ l, 16 ≤ l.length → next l = some (F l)) (n : Nat) (ws : List UInt32)
    (h : 16 ≤ ws.length) :
    extendSchedule next (n + 1) ws = F (extendSchedule next n ws) :: extendSchedule next n ws ∧
    (extendSchedule next n ws).length = ws.length + n := by
  induction n generalizing ws with
  | zero => simp [extendSchedule, hnext ws h]
  | succ n ih =>
    have h' : 16 ≤ (F ws :: ws).length := by simp; omega
    obtain ⟨i1, i2⟩ := ih (F ws :: ws) h'
    have e : ∀ m, extendSchedule next (m + 1) ws = extendSchedule next m (F ws :: ws) := by
      intro m; simp [extendSchedule, hnext ws h]
    refine ⟨?_, ?_⟩
    · rw [e (n + 1), i1, e n]
    · rw [e n, i2]; simp; omega

/-- the schedule in oldest-first order -/
def R (M : List UInt32) (n : Nat) : List UInt32 := (extendSchedule next n M.reverse).reverse

theorem R_succ (hnext : ∀ l, 16 ≤ l.length → next l = some (F l)) (M : List UInt32) (hM : M.length = 16) (n : Nat) :
    R next M (n + 1) = R next M n ++ [F (extendSchedule next n M.reverse)] ∧ (R next M n).length = 16 + n := by
  obtain ⟨i1, i2⟩ := extend_succ next F hnext n M.reverse (by simp [hM])
  unfold R
  rw [i1]
  simp [i2, hM]

/-- reading the newest-first list at offset `a` is reading the oldest-first list at `len - 1 - a` -/
theorem getD_newest (l : List UInt32) (a : Nat) (ha : a < l.length) :
    l.getD a 0 = l.reverse.getD (l.length - 1 - a) 0 := by
  simp only [List.getD_eq_getElem?_getD]
  rw [List.getElem?_reverse (by omega)]
  congr 2; omega

theorem sched_spec (f : UInt32 → UInt32 → UInt32 → UInt32 → UInt32) (a b c d : Nat)
    (ha : a < 16) (hb : b < 16) (hc : c < 16) (hd : d < 16)
    (hnext : ∀ l, 16 ≤ l.length →
      next l = some (f (l.getD a 0) (l.getD b 0) (l.getD c 0) (l.getD d 0)))
    (M : List UInt32) (hM : M.length = 16) (n : Nat) :
    (R next M n).length = 16 + n ∧
    (∀ t, t < 16 → (R next M n).getD t 0 = M.getD t 0) ∧
    (∀ t, 16 ≤ t → t < 16 + n → (R next M n).getD t 0 =
      f ((R next M n).getD (t - 1 - a) 0) ((R next M n).getD (t - 1 - b) 0)
        ((R next M n).getD (t - 1 - c) 0) ((R next M n).getD (t - 1 - d) 0)) := by
  induction n with
  | zero =>
    refine ⟨by simp [R, extendSchedule, hM], ?_, ?_⟩
    · intro t _; simp [R, extendSchedule]
    · intro t h1 h2; omega
  | succ n ih =>
    obtain ⟨il, i16, irec⟩ := ih
    obtain ⟨e1, _⟩ := R_succ next _ hnext M hM n
    have elen : (extendSchedule next n M.reverse).length = 16 + n := by
      have := il; unfold R at this; simpa using this
    have pre : ∀ s, s < 16 + n → (R next M (n + 1)).getD s 0 = (R next M n).getD s 0 := by
      intro s hs
      rw [e1]
      simp only [List.getD_eq_getElem?_getD]
      rw [List.getElem?_append_left (by omega)]
    refine ⟨by rw [e1]; simp [il]; omega, ?_, ?_⟩
    · intro t ht; rw [pre t (by omega)]; exact i16 t ht
    · intro t h1 h2
      by_cases hlt : t < 16 + n
      · rw [pre t hlt, pre (t - 1 - a) (by omega), pre (t - 1 - b) (by omega), pre (t - 1 - c) (by omega), pre (t - 1 - d) (by omega)]
        exact irec t h1 hlt
      · have ht : t = 16 + n := by omega
        subst ht
        rw [pre (16 + n - 1 - a) (by omega), pre (16 + n - 1 - b) (by omega), pre (16 + n - 1 - c) (by omega), pre (16 + n - 1 - d) (by omega)]
        have hlast : (R next M (n + 1)).getD (16 + n) 0 =
            f ((extendSchedule next n M.reverse).getD a 0) ((extendSchedule next n M.reverse).getD b 0)
              ((extendSchedule next n M.reverse).getD c 0) ((extendSchedule next n M.reverse).getD d 0) := by
          rw [e1]
          simp only [List.getD_eq_getElem?_getD]
          rw [List.getElem?_append_right (by omega)]
          simp [il]
        rw [hlast]
        rw [getD_newest _ a (by omega), getD_newest _ b (by omega), getD_newest _ c (by omega),
          getD_newest _ d (by omega), elen]
        rfl

end Percival.Proofs.Schedule
