import Percival.Proofs.AllocFail
import Percival.Proofs.TimerQueue
/-!
# C14, upper layer: a contract for immediate-event and timer registration / cancellation

`EvReg.immReg / immCancel / tmReg / tmCancel` as seen by a caller (network_connect with a timeout,
netbuf_read_wait): what becomes registered, what the other parts of the event state keep, how the
allocation oracle moves, when a call can fail.  `TmInv` is the consistency of the timer part (the timer
queue of C13 under `TQInv`, its storage, the cookies held by `events_timer.c`) with the oracle position.
-/
namespace Percival.Proofs.EvRegTimer
open Percival.Model Percival.Model.EvReg
open Percival.Proofs.EArray (malloc_ok malloc_fail realloc_ok realloc_fail free_facts pair_eta)
open Percival.Proofs.AllocFail (HInv)
open Percival.Proofs.TQ (TQInv)

def regImm (e : Ev) : List (List Nat) := (registry e).imm
def regTimers (e : Ev) : List Nat := (registry e).timers

/-- every request from `m.n` on is granted -/
def Granted (m : Mem) : Prop := ∀ n sz, m.n ≤ n → m.f n sz = true

/-! ### how an operation moves the oracle -/

/-- `m'` is `m` after some requests: same decision function, position and refusal count only grow, and
nothing is refused if everything from `m.n` on is granted -/
structure Step (m m' : Mem) : Prop where
  f : m'.f = m.f
  n : m.n ≤ m'.n
  r : m.refusals ≤ m'.refusals
  g : Granted m → m'.refusals = m.refusals

theorem Step.refl (m : Mem) : Step m m := ⟨rfl, Nat.le_refl _, Nat.le_refl _, fun _ => rfl⟩

theorem Granted.step {m m' : Mem} (hg : Granted m) (h : Step m m') : Granted m' := by
  intro n sz hn; rw [h.f]; exact hg n sz (Nat.le_trans h.n hn)

theorem Step.trans {a b c : Mem} (h1 : Step a b) (h2 : Step b c) : Step a c :=
  ⟨by rw [h2.f, h1.f], Nat.le_trans h1.n h2.n, Nat.le_trans h1.r h2.r,
   fun hg => by rw [h2.g (hg.step h1), h1.g hg]⟩

theorem step_malloc (m : Mem) (sz : Nat) : Step m (m.malloc sz).2 := by
  refine ⟨rfl, by simp [Mem.malloc], ?_, ?_⟩
  · simp only [Mem.malloc]; split <;> omega
  · intro hg; simp [Mem.malloc, hg m.n sz (Nat.le_refl _)]

theorem step_realloc (m : Mem) (w : Bool) (sz : Nat) : Step m (m.realloc w sz).2 := by
  refine ⟨rfl, by simp [Mem.realloc], ?_, ?_⟩
  · simp only [Mem.realloc]; split <;> omega
  · intro hg; simp [Mem.realloc, hg m.n sz (Nat.le_refl _)]

theorem step_free (m : Mem) (b : Bool) : Step m (m.free b) := by
  have f := free_facts m b
  exact ⟨f.2.2.1, by rw [f.2.2.2]; exact Nat.le_refl _, by rw [f.1]; exact Nat.le_refl _, fun _ => f.1⟩

theorem malloc_granted {m : Mem} (hg : Granted m) (sz : Nat) : (m.malloc sz).1 = true := by
  simp [Mem.malloc, hg m.n sz (Nat.le_refl _)]

theorem malloc_n (m : Mem) (sz : Nat) : (m.malloc sz).2.n = m.n + 1 := rfl

/-! ### elastic array -/

theorem step_resize (a : EArray.EA) (n : Nat) (m : Mem) : Step m (EArray.resize a n m).2.2 := by
  unfold EArray.resize
  simp only
  split
  · exact step_free _ _
  · split
    · have := step_realloc m (a.alloc == 0) (EArray.wantAlloc a.alloc n)
      split <;> (rename_i heq; rw [heq] at this; exact this)
    · exact Step.refl _

theorem resize_ok_ref (a : EArray.EA) (n : Nat) (m : Mem) (h : (EArray.resize a n m).1 = true) :
    (EArray.resize a n m).2.2.refusals = m.refusals := by
  unfold EArray.resize at h ⊢
  simp only at h ⊢
  split
  · exact (free_facts _ _).1
  · rename_i h0
    simp only [h0, if_false] at h
    split
    · rename_i hne
      rw [if_pos hne] at h
      cases hr : (m.realloc (a.alloc == 0) (EArray.wantAlloc a.alloc n)).1
      · rw [pair_eta _ hr] at h; simp at h
      · rw [pair_eta _ hr]; exact (realloc_ok hr).1
    · rfl

theorem step_append (a : EArray.EA) (d : List UInt8) (k : Nat) (r : Spec.DS.RecLen) (m : Mem) :
    Step m (EArray.append a d k r m).2.2 := by
  unfold EArray.append
  simp only
  split
  · exact Step.refl _
  · have := step_resize a ((a.size + k * r.val % EArray.SZ) % EArray.SZ) m
    split
    · rename_i heq; rw [heq] at this; exact this
    · rename_i heq; rw [heq] at this
      split
      · split
        · exact this
        · split <;> exact this
      · exact this

theorem append_ok_ref (a : EArray.EA) (d : List UInt8) (k : Nat) (r : Spec.DS.RecLen) (m : Mem)
    (h : (EArray.append a d k r m).1 = .ok) : (EArray.append a d k r m).2.2.refusals = m.refusals := by
  unfold EArray.append at h ⊢
  simp only at h ⊢
  split
  · rename_i hc; simp only [hc, if_true] at h; cases h
  · rename_i hc
    simp only [hc, if_false] at h
    have := resize_ok_ref a ((a.size + k * r.val % EArray.SZ) % EArray.SZ) m
    split
    · rename_i heq; rw [heq] at h; cases h
    · rename_i heq; rw [heq] at this
      have h' := this rfl
      split
      · split
        · exact h'
        · split <;> exact h'
      · exact h'

theorem step_shrink (a : EArray.EA) (k : Nat) (r : Spec.DS.RecLen) (m : Mem) :
    Step m (EArray.shrink a k r m).2 := by
  unfold EArray.shrink
  simp only
  generalize (if k > EArray.SIZE_MAX / r.val ∨ k * r.val % EArray.SZ > a.size then 0
    else a.size - k * r.val % EArray.SZ) = ns
  have := step_resize a ns m
  split <;> (rename_i heq; rw [heq] at this; exact this)

theorem step_resizeRec (a : EArray.EA) (k : Nat) (r : Spec.DS.RecLen) (m : Mem) :
    Step m (EArray.resizeRec a k r m).2.2 := by
  unfold EArray.resizeRec
  split
  · exact Step.refl _
  · exact step_resize _ _ _

theorem step_eaInit (k : Nat) (r : Spec.DS.RecLen) (m : Mem) : Step m (EArray.init k r m).2 := by
  unfold EArray.init
  have h1 := step_malloc m EArray.structSize
  split
  · rename_i heq; rw [heq] at h1; exact h1
  · rename_i m1 heq; rw [heq] at h1
    have h2 := step_resizeRec { size := 0, alloc := 0, buf := [] } k r m1
    split
    · rename_i heq2; rw [heq2] at h2; exact h1.trans h2
    · rename_i a' m2 heq2; rw [heq2] at h2
      have h2' : Step m1 m2 := h2
      show Step m ((m2.free (a'.alloc == 0)).free false)
      exact h1.trans (h2'.trans ((step_free _ _).trans (step_free _ _)))

/-! ### the pools, `events_mkrec` / `events_freerec` -/

theorem step_mpMalloc (p : MPool.MP) (len : Nat) (m : Mem) : Step m (MPool.malloc p len m).2.2 := by
  unfold MPool.malloc
  simp only
  split
  · exact Step.refl _
  · have := step_malloc m len
    split <;> (rename_i heq; rw [heq] at this; exact this)

theorem mpMalloc_some_ref (p : MPool.MP) (len : Nat) (m : Mem) (x : Nat) (h : (MPool.malloc p len m).1 = some x) :
    (MPool.malloc p len m).2.2.refusals = m.refusals := by
  unfold MPool.malloc at h ⊢
  simp only at h ⊢
  split
  · rfl
  · rename_i hst
    rw [hst] at h
    cases hr : (m.malloc len).1
    · rw [pair_eta _ hr] at h; simp at h
    · rw [pair_eta _ hr]; exact (malloc_ok hr).1

theorem mpMalloc_none_ref (p : MPool.MP) (len : Nat) (m : Mem) (h : (MPool.malloc p len m).1 = none) :
    (MPool.malloc p len m).2.2.refusals = m.refusals + 1 := by
  unfold MPool.malloc at h ⊢
  simp only at h ⊢
  split
  · rename_i hst; rw [hst] at h; simp at h
  · rename_i hst
    rw [hst] at h
    cases hr : (m.malloc len).1
    · rw [pair_eta _ hr]; exact (malloc_fail hr).1
    · rw [pair_eta _ hr] at h; simp at h

theorem step_mpFree (p : MPool.MP) (x : Nat) (m : Mem) : Step m (MPool.free p x m).2 := by
  unfold MPool.free
  split
  · exact Step.refl _
  · split
    · have := step_malloc m ((p.allocsize * 2 * 8) % EArray.SZ)
      split
      · rename_i heq; rw [heq] at this
        simp only
        split
        · exact this.trans (step_free _ _)
        · exact this
      · rename_i heq; rw [heq] at this
        dsimp only at this ⊢
        exact this.trans (step_free _ _)
    · dsimp only; exact step_free _ _

theorem mpFree_fast (p : MPool.MP) (x : Nat) (m : Mem) (h : p.stacklen < p.allocsize) : (MPool.free p x m).2 = m := by
  unfold MPool.free; rw [if_pos h]

theorem mkrec_eq (e : Ev) (m : Mem) :
    mkrec e m = ((MPool.malloc e.recPool recSize m).1, { e with recPool := (MPool.malloc e.recPool recSize m).2.1 },
      (MPool.malloc e.recPool recSize m).2.2) := rfl

theorem freerec_eq (e : Ev) (rid : Nat) (m : Mem) :
    freerec e rid m = ({ e with recPool := (MPool.free e.recPool rid m).1 }, (MPool.free e.recPool rid m).2) := rfl

theorem step_mkrec (e : Ev) (m : Mem) : Step m (mkrec e m).2.2 := step_mpMalloc _ _ _
theorem step_freerec (e : Ev) (rid : Nat) (m : Mem) : Step m (freerec e rid m).2 := step_mpFree _ _ _

/-! ### `ptrheap_init`, `timerqueue_init / add / delete` -/

theorem step_heapInit (m : Mem) : Step m (HeapAlloc.init m).2 := by
  unfold HeapAlloc.init
  have h1 := step_malloc m HeapAlloc.structSize
  split
  · rename_i heq; rw [heq] at h1; exact h1
  · rename_i m1 heq; rw [heq] at h1
    have h2 := step_eaInit 0 SeqMap.ptrLen m1
    split
    · rename_i heq2; rw [heq2] at h2; exact h1.trans h2
    · rename_i m2 heq2; rw [heq2] at h2
      have h2' : Step m1 m2 := h2
      dsimp only
      exact h1.trans (h2'.trans (step_free _ _))

theorem step_tqInit (m : Mem) : Step m (HeapAlloc.tqInit m).2 := by
  unfold HeapAlloc.tqInit
  have h1 := step_malloc m HeapAlloc.tqStructSize
  split
  · rename_i heq; rw [heq] at h1; exact h1
  · rename_i m1 heq; rw [heq] at h1
    have h2 := step_heapInit m1
    split
    · rename_i heq2; rw [heq2] at h2; exact h1.trans h2
    · rename_i m2 heq2; rw [heq2] at h2
      have h2' : Step m1 m2 := h2
      dsimp only
      exact h1.trans (h2'.trans (step_free _ _))

theorem heapInit_spec (m : Mem) :
    match HeapAlloc.init m with
    | (some ha, m') => ha.h = Heap.empty ∧ ha.alloc < EArray.SZ ∧ m'.refusals = m.refusals
    | (none, m') => m'.refusals > m.refusals := by
  unfold HeapAlloc.init
  cases hr : (m.malloc HeapAlloc.structSize).1
  · rw [pair_eta _ hr]; dsimp only; have := (malloc_fail hr).1; omega
  · rw [pair_eta _ hr]; dsimp only
    have hs := Percival.Proofs.EArray.init_spec 0 SeqMap.ptrLen (m.malloc HeapAlloc.structSize).2
    rcases hres : EArray.init 0 SeqMap.ptrLen (m.malloc HeapAlloc.structSize).2 with ⟨oa, m2⟩
    rw [hres] at hs
    cases oa with
    | some a =>
      dsimp only at hs ⊢
      exact ⟨rfl, hs.1.lt, by rw [hs.2.2.2.2.2, (malloc_ok hr).1]⟩
    | none =>
      dsimp only at hs ⊢
      rw [(free_facts _ _).1]
      have := (malloc_ok hr).1
      rcases hs.2 with h | h
      · omega
      · simp at h

theorem tqInit_spec (m : Mem) :
    match HeapAlloc.tqInit m with
    | (some t, m') => t.q = TimerQueue.empty ∧ HInv (HeapAlloc.heapOf t) ∧ m'.refusals = m.refusals
    | (none, m') => m'.refusals > m.refusals := by
  unfold HeapAlloc.tqInit
  cases hr : (m.malloc HeapAlloc.tqStructSize).1
  · rw [pair_eta _ hr]; dsimp only; have := (malloc_fail hr).1; omega
  · rw [pair_eta _ hr]; dsimp only
    have hs := heapInit_spec (m.malloc HeapAlloc.tqStructSize).2
    rcases hres : HeapAlloc.init (m.malloc HeapAlloc.tqStructSize).2 with ⟨oa, m2⟩
    rw [hres] at hs
    have := (malloc_ok hr).1
    cases oa with
    | some ha =>
      dsimp only at hs ⊢
      refine ⟨by rw [hs.1]; rfl, ⟨?_, hs.2.1⟩, by omega⟩
      simp [HeapAlloc.heapOf, hs.1, Heap.empty]
    | none =>
      dsimp only at hs ⊢
      rw [(free_facts _ _).1]; omega

theorem step_tqAdd (t : HeapAlloc.TQA) (sec usec : Int) (ptr : Nat) (m : Mem) :
    Step m (HeapAlloc.tqAdd t sec usec ptr m).2.2 := by
  unfold HeapAlloc.tqAdd
  have h1 := step_malloc m HeapAlloc.tqRecSize
  split
  · rename_i heq; rw [heq] at h1; exact h1
  · rename_i m1 heq; rw [heq] at h1
    dsimp only
    have h2 := step_append (HeapAlloc.shape t.q.h.a.size t.alloc) (SeqMap.encPtr m.n) 1 SeqMap.ptrLen m1
    split
    · rename_i heq2; rw [heq2] at h2; exact h1.trans h2
    · rename_i m2 _ heq2; rw [heq2] at h2
      have h2' : Step m1 m2 := h2
      dsimp only
      exact h1.trans (h2'.trans (step_free _ _))

theorem tqAdd_some (t : HeapAlloc.TQA) (sec usec : Int) (ptr : Nat) (m : Mem) (r : Nat)
    (h : (HeapAlloc.tqAdd t sec usec ptr m).1 = some r) :
    r = m.n ∧ m.n < (HeapAlloc.tqAdd t sec usec ptr m).2.2.n ∧
    (HeapAlloc.tqAdd t sec usec ptr m).2.1.q = TimerQueue.add t.q r sec usec ptr ∧
    (HeapAlloc.tqAdd t sec usec ptr m).2.2.refusals = m.refusals ∧
    (HInv (HeapAlloc.heapOf t) → HInv (HeapAlloc.heapOf (HeapAlloc.tqAdd t sec usec ptr m).2.1)) := by
  unfold HeapAlloc.tqAdd at h ⊢
  cases hr : (m.malloc HeapAlloc.tqRecSize).1
  · rw [pair_eta _ hr] at h; simp at h
  · have hm := malloc_ok hr
    rw [pair_eta _ hr] at h ⊢
    dsimp only at h ⊢
    have hst := step_append (HeapAlloc.shape t.q.h.a.size t.alloc) (SeqMap.encPtr m.n) 1 SeqMap.ptrLen
      (m.malloc HeapAlloc.tqRecSize).2
    have hrf := append_ok_ref (HeapAlloc.shape t.q.h.a.size t.alloc) (SeqMap.encPtr m.n) 1 SeqMap.ptrLen
      (m.malloc HeapAlloc.tqRecSize).2
    have hsp := fun hi => Percival.Proofs.EArray.append_spec (HeapAlloc.shape t.q.h.a.size t.alloc)
      (SeqMap.encPtr m.n) 1 SeqMap.ptrLen (m.malloc HeapAlloc.tqRecSize).2 hi
      (by intro _; simp [SeqMap.ptrLen, SeqMap.encPtr])
    rcases hres : EArray.append (HeapAlloc.shape t.q.h.a.size t.alloc) (SeqMap.encPtr m.n) 1 SeqMap.ptrLen
      (m.malloc HeapAlloc.tqRecSize).2 with ⟨st, a', m2⟩
    rw [hres] at h hst hrf hsp
    cases st
    · dsimp only at h hst hrf hsp ⊢
      cases h
      refine ⟨rfl, ?_, rfl, ?_, ?_⟩
      · have := hst.n; omega
      · rw [hrf rfl]; exact hm.1
      · intro hh
        obtain ⟨hinv', _, hok, _, _⟩ := hsp (Percival.Proofs.AllocFail.shape_inv hh.1 hh.2)
        obtain ⟨_, hsz, _⟩ := hok rfl
        refine ⟨?_, hinv'.lt⟩
        show 8 * (TimerQueue.add t.q m.n sec usec ptr).h.a.size ≤ a'.alloc
        have := hinv'.le
        simp only [HeapAlloc.shape, SeqMap.ptrLen, Nat.one_mul] at hsz
        simp only [TimerQueue.add, Percival.Proofs.AllocFail.heap_add_size]
        omega
    · simp at h
    · simp at h

theorem tqAdd_none (t : HeapAlloc.TQA) (sec usec : Int) (ptr : Nat) (m : Mem)
    (h : (HeapAlloc.tqAdd t sec usec ptr m).1 = none) (hh : HInv (HeapAlloc.heapOf t)) :
    (HeapAlloc.tqAdd t sec usec ptr m).2.1 = t := by
  unfold HeapAlloc.tqAdd at h ⊢
  cases hr : (m.malloc HeapAlloc.tqRecSize).1
  · rw [pair_eta _ hr]
  · rw [pair_eta _ hr] at h ⊢
    dsimp only at h ⊢
    have hsp := Percival.Proofs.EArray.append_spec (HeapAlloc.shape t.q.h.a.size t.alloc)
      (SeqMap.encPtr m.n) 1 SeqMap.ptrLen (m.malloc HeapAlloc.tqRecSize).2
      (Percival.Proofs.AllocFail.shape_inv hh.1 hh.2) (by intro _; simp [SeqMap.ptrLen, SeqMap.encPtr])
    rcases hres : EArray.append (HeapAlloc.shape t.q.h.a.size t.alloc) (SeqMap.encPtr m.n) 1 SeqMap.ptrLen
      (m.malloc HeapAlloc.tqRecSize).2 with ⟨st, a', m2⟩
    rw [hres] at h hsp
    obtain ⟨_, hno, _, hfail, _⟩ := hsp
    cases st
    · simp at h
    · have := (hfail rfl).1
      dsimp only at this ⊢
      subst this
      rfl
    · exact absurd rfl hno

theorem tqDelete_spec (t : HeapAlloc.TQA) (r : Nat) (m : Mem) (hq : TQInv t.q) (hh : HInv (HeapAlloc.heapOf t))
    (hr : r ∈ t.q.h.a.toList) :
    ∃ t' m', HeapAlloc.tqDelete t r m = some (t', m') ∧ TQInv t'.q ∧ t.q.h.a.toList.Perm (r :: t'.q.h.a.toList) ∧
      HInv (HeapAlloc.heapOf t') ∧ Step m m' := by
  obtain ⟨q', hdel, hq', hperm, _⟩ := Percival.Proofs.TQ.tq_delete t.q r hq hr
  have hs := Percival.Proofs.EArray.shrink_spec (HeapAlloc.shape t.q.h.a.size t.alloc) 1 SeqMap.ptrLen m
    (Percival.Proofs.AllocFail.shape_inv hh.1 hh.2)
  have hst := step_shrink (HeapAlloc.shape t.q.h.a.size t.alloc) 1 SeqMap.ptrLen m
  unfold HeapAlloc.tqDelete
  rw [hdel]
  dsimp only
  rcases hres : EArray.shrink (HeapAlloc.shape t.q.h.a.size t.alloc) 1 SeqMap.ptrLen m with ⟨a', m'⟩
  rw [hres] at hs hst
  dsimp only at hs hst ⊢
  refine ⟨_, _, rfl, hq', hperm, ⟨?_, hs.1.lt⟩, hst.trans (step_free _ _)⟩
  show 8 * q'.h.a.size ≤ a'.alloc
  have hlen := hperm.length_eq
  simp only [Array.length_toList, List.length_cons] at hlen
  have := hs.1.le
  have hsz := hs.2.1
  simp only [HeapAlloc.shape, SeqMap.ptrLen, Nat.one_mul] at hsz
  omega

/-! ### immediate events -/

theorem immReg_eq (e : Ev) (id prio : Nat) (m : Mem) : immReg e id prio m =
    match MPool.malloc e.recPool recSize m with
    | (none, p, m1) => (false, { e with recPool := p }, m1)
    | (some rid, p, m1) =>
      match MPool.malloc e.qPool qSize m1 with
      | (none, qp, m2) =>
        (false, { e with recPool := (MPool.free p rid m2).1, qPool := qp }, (MPool.free p rid m2).2)
      | (some qid, qp, m2) =>
        (true, { e with recPool := p, qPool := qp, heads := e.heads.modify prio (· ++ [⟨qid, rid, id⟩])
                        minq := if prio < e.minq then prio else e.minq }, m2) := by
  unfold immReg
  rw [mkrec_eq]
  rcases MPool.malloc e.recPool recSize m with ⟨o, p, m1⟩
  cases o
  · rfl
  · dsimp only
    rcases MPool.malloc e.qPool qSize m1 with ⟨oq, qp, m2⟩
    cases oq <;> rfl

/-- everything about one `events_immediate_register` call -/
theorem immReg_master (e : Ev) (id prio : Nat) (m : Mem) :
    ((immReg e id prio m).2.1.tq = e.tq ∧ (immReg e id prio m).2.1.timers = e.timers ∧
      (immReg e id prio m).2.1.sAlloc = e.sAlloc ∧ (immReg e id prio m).2.1.socks = e.socks ∧
      (immReg e id prio m).2.1.fds = e.fds ∧ (immReg e id prio m).2.1.fdsAlloc = e.fdsAlloc) ∧
    Step m (immReg e id prio m).2.2 ∧
    ((immReg e id prio m).1 = true →
      (∃ qid rid, (immReg e id prio m).2.1.heads = e.heads.modify prio (· ++ [⟨qid, rid, id⟩])) ∧
      (immReg e id prio m).2.2.refusals = m.refusals) ∧
    ((immReg e id prio m).1 = false → (immReg e id prio m).2.2.refusals > m.refusals) := by
  rw [immReg_eq]
  have s1 := step_mpMalloc e.recPool recSize m
  have r1 := mpMalloc_some_ref e.recPool recSize m
  have n1 := mpMalloc_none_ref e.recPool recSize m
  rcases h1 : MPool.malloc e.recPool recSize m with ⟨o, p, m1⟩
  rw [h1] at s1 r1 n1
  dsimp only at s1 r1 n1
  cases o with
  | none =>
    dsimp only
    have := n1 rfl
    exact ⟨⟨rfl, rfl, rfl, rfl, rfl, rfl⟩, s1, by simp, fun _ => by omega⟩
  | some rid =>
    dsimp only
    have := r1 rid rfl
    have s2 := step_mpMalloc e.qPool qSize m1
    have r2 := mpMalloc_some_ref e.qPool qSize m1
    have n2 := mpMalloc_none_ref e.qPool qSize m1
    rcases h2 : MPool.malloc e.qPool qSize m1 with ⟨oq, qp, m2⟩
    rw [h2] at s2 r2 n2
    dsimp only at s2 r2 n2
    cases oq with
    | none =>
      dsimp only
      have := n2 rfl
      have s3 := step_mpFree p rid m2
      have := s3.r
      exact ⟨⟨rfl, rfl, rfl, rfl, rfl, rfl⟩, s1.trans (s2.trans s3), by simp, fun _ => by omega⟩
    | some qid =>
      dsimp only
      have := r2 qid rfl
      exact ⟨⟨rfl, rfl, rfl, rfl, rfl, rfl⟩, s1.trans s2, fun _ => ⟨⟨qid, rid, rfl⟩, by omega⟩, by simp⟩

theorem immReg_other (e : Ev) (id prio : Nat) (m : Mem) :
    let e' := (immReg e id prio m).2.1
    e'.tq = e.tq ∧ e'.timers = e.timers ∧ e'.sAlloc = e.sAlloc ∧ e'.socks = e.socks ∧ e'.fds = e.fds ∧
      e'.fdsAlloc = e.fdsAlloc := (immReg_master e id prio m).1

theorem map_modify {α β : Type} (g : α → β) (f : α → α) (f' : β → β) (hfg : ∀ x, g (f x) = f' (g x)) :
    ∀ (l : List α) (i : Nat), (l.modify i f).map g = (l.map g).modify i f'
  | [], i => by simp
  | x :: l, 0 => by simp [hfg]
  | x :: l, i+1 => by simp [map_modify g f f' hfg l i]

theorem immReg_ok (e : Ev) (id prio : Nat) (m : Mem) (hok : (immReg e id prio m).1 = true) :
    regImm (immReg e id prio m).2.1 = (regImm e).modify prio (· ++ [id]) := by
  obtain ⟨⟨qid, rid, hh⟩, _⟩ := (immReg_master e id prio m).2.2.1 hok
  simp only [regImm, registry, hh]
  apply map_modify
  intro x; simp

theorem immReg_refused (e : Ev) (id prio : Nat) (m : Mem)
    (hr : (immReg e id prio m).2.2.refusals ≠ m.refusals) : (immReg e id prio m).1 = false := by
  cases h : (immReg e id prio m).1
  · rfl
  · exact absurd ((immReg_master e id prio m).2.2.1 h).2 hr

theorem immReg_fail_refused (e : Ev) (id prio : Nat) (m : Mem) (hf : (immReg e id prio m).1 = false) :
    (immReg e id prio m).2.2.refusals > m.refusals := (immReg_master e id prio m).2.2.2 hf

theorem immReg_mono (e : Ev) (id prio : Nat) (m : Mem) :
    let m' := (immReg e id prio m).2.2
    m'.f = m.f ∧ m.n ≤ m'.n ∧ m.refusals ≤ m'.refusals :=
  have s := (immReg_master e id prio m).2.1
  ⟨s.f, s.n, s.r⟩

theorem immCancel_ok (e : Ev) (id : Nat) (m : Mem) (hreg : id ∈ (regImm e).flatten) :
    ∃ e' m', immCancel e id m = some (e', m') ∧ regImm e' = (regImm e).map (·.filter (· != id)) ∧
      e'.tq = e.tq ∧ e'.timers = e.timers ∧ e'.sAlloc = e.sAlloc ∧ e'.socks = e.socks ∧ e'.fds = e.fds ∧
      e'.fdsAlloc = e.fdsAlloc ∧ m'.f = m.f ∧ m.n ≤ m'.n ∧
      (e.recPool.stacklen < e.recPool.allocsize → e.qPool.stacklen < e.qPool.allocsize → m'.n = m.n) := by
  cases hfind : e.heads.flatten.find? (·.id == id) with
  | none =>
    exfalso
    simp only [regImm, registry, ← List.map_flatten, List.mem_map] at hreg
    obtain ⟨ent, hent, hid⟩ := hreg
    have := List.find?_eq_none.mp hfind ent hent
    simp [hid] at this
  | some ent =>
    unfold immCancel
    rw [hfind]
    simp only [freerec_eq]
    refine ⟨_, _, rfl, ?_, rfl, rfl, rfl, rfl, rfl, rfl, ?_, ?_, ?_⟩
    · simp only [regImm, registry, List.map_map]
      apply List.map_congr_left
      intro l _
      simp only [Function.comp, List.filter_map]
      rfl
    · exact ((step_mpFree _ _ _).trans (step_mpFree _ _ _)).f
    · exact ((step_mpFree _ _ _).trans (step_mpFree _ _ _)).n
    · intro h1 h2
      rw [mpFree_fast _ _ _ h2, mpFree_fast _ _ _ h1]

/-! ### the timer part of the event state -/

/-- consistency of `events_timer.c`'s state with the oracle position: no queue, no timers; otherwise the
queue satisfies C13's invariant, holds exactly the cookies of the registered timers in a buffer that is
large enough, every cookie is the index of a request already made, and registrations have distinct ids -/
structure TmInv (e : Ev) (m : Mem) : Prop where
  noq : e.tq = none → e.timers = []
  tq : ∀ t, e.tq = some t → TQInv t.q ∧ t.q.h.a.toList.Perm (e.timers.map (·.tqr)) ∧ HInv (HeapAlloc.heapOf t)
  lt : ∀ x ∈ e.timers, x.tqr < m.n
  nodup : (e.timers.map (·.id)).Nodup

theorem tmInv_init (m : Mem) : TmInv ({} : Ev) m :=
  ⟨fun _ => rfl, fun t h => (by cases h), fun x h => (by cases h), List.nodup_nil⟩

theorem tmInv_congr (e e' : Ev) (m m' : Mem) (h : TmInv e m) (h1 : e'.tq = e.tq) (h2 : e'.timers = e.timers)
    (hn : m.n ≤ m'.n) : TmInv e' m' :=
  ⟨fun hq => by rw [h2]; exact h.noq (by rw [← h1]; exact hq),
   fun t ht => by rw [h2]; exact h.tq t (by rw [← h1]; exact ht),
   fun x hx => Nat.lt_of_lt_of_le (h.lt x (by rw [← h2]; exact hx)) hn,
   by rw [h2]; exact h.nodup⟩

/-- under `TmInv` the heap has one element per registered timer -/
theorem TmInv.size {e : Ev} {m : Mem} (h : TmInv e m) {t : HeapAlloc.TQA} (ht : e.tq = some t) :
    t.q.h.a.size = e.timers.length := by
  have := (h.tq t ht).2.1.length_eq
  simpa using this

/-- the timer queue exists after this step of `events_timer_register` (it is created when missing) -/
def tmQ (e : Ev) (m : Mem) : Option HeapAlloc.TQA × Mem :=
  match e.tq with
  | some t => (some t, m)
  | none => HeapAlloc.tqInit m

theorem tmQ_spec (e : Ev) (m : Mem) :
    Step m (tmQ e m).2 ∧
    ((tmQ e m).1 = none → e.tq = none ∧ (tmQ e m).2.refusals > m.refusals) ∧
    (∀ t, (tmQ e m).1 = some t → (tmQ e m).2.refusals = m.refusals ∧
      (TmInv e m → TmInv { e with tq := some t } (tmQ e m).2)) := by
  unfold tmQ
  cases htq : e.tq with
  | some t =>
    dsimp only
    refine ⟨Step.refl _, by simp, ?_⟩
    intro t' ht'
    cases ht'
    exact ⟨rfl, fun h => tmInv_congr e _ m m h (by rw [htq]) rfl (Nat.le_refl _)⟩
  | none =>
    dsimp only
    have hs := tqInit_spec m
    have hst := step_tqInit m
    rcases hres : HeapAlloc.tqInit m with ⟨o, m0⟩
    rw [hres] at hs hst
    cases o with
    | none => exact ⟨hst, fun _ => ⟨rfl, hs⟩, by simp⟩
    | some t =>
      dsimp only at hs ⊢
      refine ⟨hst, by simp, ?_⟩
      intro t' ht'
      cases ht'
      refine ⟨hs.2.2, fun h => ?_⟩
      have hnil := h.noq htq
      refine ⟨by simp, ?_, by simp [hnil], by simp [hnil]⟩
      intro t' ht'
      cases ht'
      refine ⟨by rw [hs.1]; exact Percival.Proofs.TQ.tq_inv_empty, ?_, hs.2.1⟩
      simp [hnil, hs.1, TimerQueue.empty, Heap.empty]

/-- `events_timer_register` once the queue `t` exists -/
def tmBody (e : Ev) (t : HeapAlloc.TQA) (id : Nat) (usec now : Int) (m0 : Mem) : Bool × Ev × Mem :=
  match MPool.malloc e.recPool recSize m0 with
  | (none, p, m1) => (false, { e with tq := some t, recPool := p }, m1)
  | (some rid, p, m1) =>
    match m1.malloc tmSize with
    | (false, m2) =>
      (false, { e with tq := some t, recPool := (MPool.free p rid m2).1 }, (MPool.free p rid m2).2)
    | (true, m2) =>
      match HeapAlloc.tqAdd t (secOf (now + usec)) (usecOf (now + usec)) m1.n m2 with
      | (none, t', m3) =>
        (false, { e with tq := some t', recPool := (MPool.free p rid (m3.free false)).1 },
          (MPool.free p rid (m3.free false)).2)
      | (some r, t', m3) =>
        (true, { e with tq := some t', recPool := p, timers := ⟨m1.n, rid, id, r⟩ :: e.timers }, m3)

theorem tmReg_eq (e : Ev) (id : Nat) (usec now : Int) (m : Mem) : tmReg e id usec now m =
    match tmQ e m with
    | (none, m0) => (false, e, m0)
    | (some t, m0) => tmBody e t id usec now m0 := by
  have body : ∀ (t : HeapAlloc.TQA) (m0 : Mem),
      (match mkrec { e with tq := some t } m0 with
       | (none, e1, m1) => (false, e1, m1)
       | (some rid, e1, m1) =>
         match m1.malloc tmSize with
         | (false, m2) =>
           match freerec e1 rid m2 with
           | (e2, m3) => (false, e2, m3)
         | (true, m2) =>
           let tid := m1.n
           match HeapAlloc.tqAdd t (secOf (now + usec)) (usecOf (now + usec)) tid m2 with
           | (none, t', m3) =>
             match freerec { e1 with tq := some t' } rid (m3.free false) with
             | (e2, m4) => (false, e2, m4)
           | (some r, t', m3) =>
             (true, { e1 with tq := some t', timers := ⟨tid, rid, id, r⟩ :: e1.timers }, m3))
      = tmBody e t id usec now m0 := by
    intro t m0
    unfold tmBody
    rw [mkrec_eq]
    dsimp only
    rcases MPool.malloc e.recPool recSize m0 with ⟨o, p, m1⟩
    cases o with
    | none => rfl
    | some rid =>
      dsimp only
      rcases m1.malloc tmSize with ⟨b, m2⟩
      cases b with
      | false => rfl
      | true =>
        dsimp only
        rcases HeapAlloc.tqAdd t (secOf (now + usec)) (usecOf (now + usec)) m1.n m2 with ⟨oc, t', m3⟩
        cases oc <;> rfl
  unfold tmReg tmQ
  cases htq : e.tq with
  | some t => dsimp only; exact body t m
  | none =>
    dsimp only
    rcases HeapAlloc.tqInit m with ⟨o, m0⟩
    cases o with
    | none => rfl
    | some t => dsimp only; exact body t m0

/-- everything about `events_timer_register` once the queue exists -/
theorem tmBody_master (e : Ev) (t : HeapAlloc.TQA) (id : Nat) (usec now : Int) (m0 : Mem) :
    ∀ R, tmBody e t id usec now m0 = R →
    (R.2.1.heads = e.heads ∧ R.2.1.minq = e.minq ∧ R.2.1.qPool = e.qPool ∧ R.2.1.sAlloc = e.sAlloc ∧
      R.2.1.socks = e.socks ∧ R.2.1.fds = e.fds ∧ R.2.1.fdsAlloc = e.fdsAlloc) ∧
    Step m0 R.2.2 ∧
    (R.1 = true → (∃ tid rid r, R.2.1.timers = ⟨tid, rid, id, r⟩ :: e.timers) ∧ R.2.2.refusals = m0.refusals) ∧
    (R.1 = false → R.2.1.timers = e.timers) ∧
    (TmInv { e with tq := some t } m0 → id ∉ e.timers.map (·.id) → TmInv R.2.1 R.2.2) ∧
    (HInv (HeapAlloc.heapOf t) → 8 * (t.q.h.a.size + 1) ≤ EArray.SIZE_MAX → R.1 = false →
      R.2.2.refusals > m0.refusals) := by
  intro R hR
  unfold tmBody at hR
  have s1 := step_mpMalloc e.recPool recSize m0
  have r1 := mpMalloc_some_ref e.recPool recSize m0
  have n1 := mpMalloc_none_ref e.recPool recSize m0
  rcases h1 : MPool.malloc e.recPool recSize m0 with ⟨o, p, m1⟩
  rw [h1] at hR s1 r1 n1
  dsimp only at hR s1 r1 n1
  cases o with
  | none =>
    dsimp only at hR
    subst hR
    dsimp only
    have := n1 rfl
    refine ⟨⟨rfl, rfl, rfl, rfl, rfl, rfl, rfl⟩, s1, by simp, fun _ => rfl, ?_, fun _ _ _ => by omega⟩
    intro hi _
    exact tmInv_congr _ _ m0 m1 hi rfl rfl s1.n
  | some rid =>
    dsimp only at hR
    have hr1 := r1 rid rfl
    have s2 := step_malloc m1 tmSize
    cases hr : (m1.malloc tmSize).1
    · rw [pair_eta _ hr] at hR
      dsimp only at hR
      subst hR
      dsimp only
      have hm := (malloc_fail hr).1
      have s3 := step_mpFree p rid (m1.malloc tmSize).2
      have := s3.r
      refine ⟨⟨rfl, rfl, rfl, rfl, rfl, rfl, rfl⟩, s1.trans (s2.trans s3), by simp, fun _ => rfl, ?_,
        fun _ _ _ => by omega⟩
      intro hi _
      exact tmInv_congr _ _ m0 _ hi rfl rfl (s1.trans (s2.trans s3)).n
    · rw [pair_eta _ hr] at hR
      dsimp only at hR
      have hm := (malloc_ok hr).1
      have s3 := step_tqAdd t (secOf (now + usec)) (usecOf (now + usec)) m1.n (m1.malloc tmSize).2
      have a3 := tqAdd_some t (secOf (now + usec)) (usecOf (now + usec)) m1.n (m1.malloc tmSize).2
      have b3 := tqAdd_none t (secOf (now + usec)) (usecOf (now + usec)) m1.n (m1.malloc tmSize).2
      have c3 := Percival.Proofs.AllocFail.tq_add_fail_spec t (secOf (now + usec)) (usecOf (now + usec)) m1.n
        (m1.malloc tmSize).2
      rcases h3 : HeapAlloc.tqAdd t (secOf (now + usec)) (usecOf (now + usec)) m1.n (m1.malloc tmSize).2
        with ⟨oc, t', m3⟩
      rw [h3] at hR s3 a3 b3 c3
      dsimp only at hR s3 a3 b3 c3
      cases oc with
      | none =>
        dsimp only at hR
        subst hR
        dsimp only
        have s4 := (step_free m3 false).trans (step_mpFree p rid (m3.free false))
        have hall := s1.trans (s2.trans (s3.trans s4))
        refine ⟨⟨rfl, rfl, rfl, rfl, rfl, rfl, rfl⟩, hall, by simp, fun _ => rfl, ?_, ?_⟩
        · intro hi _
          have ht := b3 rfl (hi.tq t rfl).2.2
          subst ht
          exact tmInv_congr _ _ m0 _ hi rfl rfl hall.n
        · intro hh hsm _
          have := (c3 hh hsm rfl).2.2
          have := s4.r
          omega
      | some r =>
        dsimp only at hR
        subst hR
        dsimp only
        obtain ⟨hrn, hlt, hq', hrf, hh'⟩ := a3 r rfl
        refine ⟨⟨rfl, rfl, rfl, rfl, rfl, rfl, rfl⟩, s1.trans (s2.trans s3), fun _ => ⟨⟨_, _, _, rfl⟩, by omega⟩,
          by simp, ?_, by simp⟩
        intro hi hid
        obtain ⟨hq, hperm, hh⟩ := hi.tq t rfl
        have hn01 : m0.n ≤ (m1.malloc tmSize).2.n := (s1.trans s2).n
        have hfresh : r ∉ t.q.h.a.toList := by
          intro hmem
          have := hperm.mem_iff.mp hmem
          obtain ⟨x, hx, hxr⟩ := List.mem_map.mp this
          have := hi.lt x hx
          omega
        obtain ⟨hq2, hperm2, _⟩ := Percival.Proofs.TQ.tq_add t.q r (secOf (now + usec)) (usecOf (now + usec)) m1.n
          hq hfresh
        refine ⟨by simp, ?_, ?_, ?_⟩
        · intro t'' ht''
          cases ht''
          refine ⟨by rw [hq']; exact hq2, ?_, hh' hh⟩
          rw [hq']
          simp only [List.map_cons]
          exact hperm2.trans (hperm.cons r)
        · intro x hx
          simp only [List.mem_cons] at hx
          rcases hx with hx | hx
          · subst hx; dsimp only; omega
          · have := hi.lt x hx; omega
        · simp only [List.map_cons]
          exact List.nodup_cons.mpr ⟨hid, hi.nodup⟩

/-- everything about one `events_timer_register` call -/
theorem tmReg_master (e : Ev) (id : Nat) (usec now : Int) (m : Mem) :
    ∀ R, tmReg e id usec now m = R →
    (R.2.1.heads = e.heads ∧ R.2.1.minq = e.minq ∧ R.2.1.qPool = e.qPool ∧ R.2.1.sAlloc = e.sAlloc ∧
      R.2.1.socks = e.socks ∧ R.2.1.fds = e.fds ∧ R.2.1.fdsAlloc = e.fdsAlloc) ∧
    Step m R.2.2 ∧
    (R.1 = true → regTimers R.2.1 = id :: regTimers e ∧ R.2.2.refusals = m.refusals) ∧
    (TmInv e m → id ∉ regTimers e → TmInv R.2.1 R.2.2) ∧
    (TmInv e m → e.timers.length < 2^32 → R.1 = false → R.2.2.refusals > m.refusals) := by
  intro R hR
  rw [tmReg_eq] at hR
  obtain ⟨q1, q2, q3⟩ := tmQ_spec e m
  rcases hq : tmQ e m with ⟨ot, m0⟩
  rw [hq] at hR q1 q2 q3
  dsimp only at hR q1 q2 q3
  cases ot with
  | none =>
    dsimp only at hR
    subst hR
    dsimp only
    exact ⟨⟨rfl, rfl, rfl, rfl, rfl, rfl, rfl⟩, q1, by simp,
      fun hi _ => tmInv_congr e e m m0 hi rfl rfl q1.n, fun _ _ _ => (q2 rfl).2⟩
  | some t =>
    dsimp only at hR
    obtain ⟨b1, b2, b3, _, b5, b6⟩ := tmBody_master e t id usec now m0 R hR
    obtain ⟨hrf0, hinv0⟩ := q3 t rfl
    refine ⟨b1, q1.trans b2, ?_, ?_, ?_⟩
    · intro hok
      obtain ⟨⟨tid, rid, r, htm⟩, hrf⟩ := b3 hok
      exact ⟨by simp [regTimers, registry, htm], by omega⟩
    · intro hi hid
      exact b5 (hinv0 hi) hid
    · intro hi hsz hf
      have hi0 := hinv0 hi
      have hsize : t.q.h.a.size = e.timers.length := hi0.size rfl
      have := b6 (hi0.tq t rfl).2.2 (by rw [hsize, Percival.Proofs.EArray.SIZE_MAX_eq]; omega) hf
      omega

theorem tmReg_other (e : Ev) (id : Nat) (usec now : Int) (m : Mem) :
    let e' := (tmReg e id usec now m).2.1
    e'.heads = e.heads ∧ e'.minq = e.minq ∧ e'.qPool = e.qPool ∧ e'.sAlloc = e.sAlloc ∧ e'.socks = e.socks ∧
      e'.fds = e.fds ∧ e'.fdsAlloc = e.fdsAlloc := (tmReg_master e id usec now m _ rfl).1

/-- success or failure (a failed call may have created the empty queue) -/
theorem tmReg_inv (e : Ev) (id : Nat) (usec now : Int) (m : Mem) (h : TmInv e m) (hid : id ∉ regTimers e) :
    TmInv (tmReg e id usec now m).2.1 (tmReg e id usec now m).2.2 :=
  (tmReg_master e id usec now m _ rfl).2.2.2.1 h hid

theorem tmReg_ok (e : Ev) (id : Nat) (usec now : Int) (m : Mem) (hok : (tmReg e id usec now m).1 = true) :
    regTimers (tmReg e id usec now m).2.1 = id :: regTimers e :=
  ((tmReg_master e id usec now m _ rfl).2.2.1 hok).1

theorem tmReg_refused (e : Ev) (id : Nat) (usec now : Int) (m : Mem)
    (hr : (tmReg e id usec now m).2.2.refusals ≠ m.refusals) : (tmReg e id usec now m).1 = false := by
  cases h : (tmReg e id usec now m).1
  · rfl
  · exact absurd ((tmReg_master e id usec now m _ rfl).2.2.1 h).2 hr

theorem tmReg_fail_refused (e : Ev) (id : Nat) (usec now : Int) (m : Mem) (h : TmInv e m)
    (hsz : e.timers.length < 2^32) (hf : (tmReg e id usec now m).1 = false) :
    (tmReg e id usec now m).2.2.refusals > m.refusals :=
  (tmReg_master e id usec now m _ rfl).2.2.2.2 h hsz hf

theorem tmReg_mono (e : Ev) (id : Nat) (usec now : Int) (m : Mem) :
    let m' := (tmReg e id usec now m).2.2
    m'.f = m.f ∧ m.n ≤ m'.n ∧ m.refusals ≤ m'.refusals :=
  have s := (tmReg_master e id usec now m _ rfl).2.1
  ⟨s.f, s.n, s.r⟩

theorem tmReg_granted (e : Ev) (id : Nat) (usec now : Int) (m : Mem) (h : TmInv e m) (hg : Granted m)
    (hsz : e.timers.length < 2^32) : (tmReg e id usec now m).1 = true := by
  cases hf : (tmReg e id usec now m).1
  · have h1 := tmReg_fail_refused e id usec now m h hsz hf
    have h2 := (tmReg_master e id usec now m _ rfl).2.1.g hg
    omega
  · rfl

/-! ### `events_timer_cancel` -/

theorem perm_filter_id : ∀ (l : List TmEnt) (ent : TmEnt), ent ∈ l → (l.map (·.id)).Nodup →
    l.Perm (ent :: l.filter (·.id != ent.id))
  | [], _, hmem, _ => by cases hmem
  | x :: xs, ent, hmem, hnd => by
    simp only [List.map_cons, List.nodup_cons] at hnd
    obtain ⟨hx, hnd'⟩ := hnd
    by_cases hxe : x = ent
    · subst hxe
      have hall : xs.filter (·.id != x.id) = xs := by
        apply List.filter_eq_self.mpr
        intro a ha
        have : a.id ≠ x.id := fun h => hx (List.mem_map.mpr ⟨a, ha, h⟩)
        simpa using this
      simp [hall]
    · have hmem' : ent ∈ xs := by
        cases hmem with
        | head => exact absurd rfl hxe
        | tail _ h => exact h
      have hne : x.id ≠ ent.id := fun h => hx (List.mem_map.mpr ⟨ent, hmem', h.symm⟩)
      have ih := perm_filter_id xs ent hmem' hnd'
      have : (x :: xs).filter (·.id != ent.id) = x :: xs.filter (·.id != ent.id) := by
        simp [hne]
      rw [this]
      exact (ih.cons x).trans (List.Perm.swap ent x _)

/-- cancel cannot fail, for every oracle (the shrinking realloc inside `timerqueue_delete` may be refused
harmlessly) -/
theorem tmCancel_ok (e : Ev) (id : Nat) (m : Mem) (h : TmInv e m) (hreg : id ∈ regTimers e) :
    ∃ e' m', tmCancel e id m = some (e', m') ∧ TmInv e' m' ∧ regTimers e' = (regTimers e).filter (· != id) ∧
      e'.heads = e.heads ∧ e'.minq = e.minq ∧ e'.qPool = e.qPool ∧ e'.sAlloc = e.sAlloc ∧ e'.socks = e.socks ∧
      e'.fds = e.fds ∧ e'.fdsAlloc = e.fdsAlloc ∧ m'.f = m.f ∧ m.n ≤ m'.n := by
  simp only [regTimers, registry, List.mem_map] at hreg
  obtain ⟨ent0, hent0, hid0⟩ := hreg
  cases hfind : e.timers.find? (·.id == id) with
  | none =>
    have := List.find?_eq_none.mp hfind ent0 hent0
    simp [hid0] at this
  | some ent =>
    have hmem := List.mem_of_find?_eq_some hfind
    have hid : ent.id = id := by simpa using List.find?_some hfind
    subst hid
    cases htq : e.tq with
    | none => rw [h.noq htq] at hmem; cases hmem
    | some t =>
      obtain ⟨hq, hperm, hh⟩ := h.tq t htq
      have hin : ent.tqr ∈ t.q.h.a.toList := hperm.mem_iff.mpr (List.mem_map.mpr ⟨ent, hmem, rfl⟩)
      obtain ⟨t', m1, hdel, hq', hperm', hh', hst⟩ := tqDelete_spec t ent.tqr m hq hh hin
      have hall : Step m ((MPool.free e.recPool ent.rid m1).2.free false) :=
        hst.trans ((step_mpFree _ _ _).trans (step_free _ _))
      unfold tmCancel
      rw [hfind, htq]
      dsimp only
      rw [hdel]
      dsimp only
      rw [freerec_eq]
      dsimp only
      refine ⟨_, _, rfl, ?_, ?_, rfl, rfl, rfl, rfl, rfl, rfl, rfl, hall.f, hall.n⟩
      · have pf := perm_filter_id e.timers ent hmem h.nodup
        refine ⟨by simp, ?_, ?_, ?_⟩
        · intro t'' ht''
          cases ht''
          refine ⟨hq', ?_, hh'⟩
          have p1 := hperm'.symm.trans (hperm.trans (pf.map (·.tqr)))
          simp only [List.map_cons] at p1
          exact p1.cons_inv
        · intro x hx
          exact Nat.lt_of_lt_of_le (h.lt x (List.mem_filter.mp hx).1) hall.n
        · exact (List.filter_sublist.map _).nodup h.nodup
      · simp only [regTimers, registry, List.filter_map]
        rfl

/- all theorems of the contract are proved above -/

end Percival.Proofs.EvRegTimer
