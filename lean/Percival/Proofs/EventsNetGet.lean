import Percival.Proofs.EventsNet
/-!
# `events_network_cancel` / `events_network_get` keep the invariants (C04/C05 helper lemmas)
-/
set_option linter.unusedSimpArgs false
namespace Percival.Proofs.EventsNet
open Percival.Spec.Events Percival.Model.Events

theorem dropDir_i6 (n n' : Net) (fd : Nat) (s : Sock) (pp : Nat) (d : Dir) (h : Inv n)
    (hs : n.S[fd]? = some s) (hpp : s.pollpos = some pp) (heq : dropDir n fd s pp d = some n')
    (hscan : n'.scan = n.scan) : I6 n' := by
  intro j' e' hj hany
  obtain ⟨j, e, he, ⟨_, hr, hw, hee, hh⟩, _⟩ := dropDir_entries n n' fd s pp d h.inv0 hs hpp heq j' e' hj
  have hany0 : e.rev.any = true := by
    simp only [Bits.any, Bool.or_eq_true] at *
    grind
  obtain ⟨p, hp, _⟩ := h.i6 j e he hany0
  refine ⟨p, by rw [hscan, hp], ?_⟩
  have hb : Below n p := by
    intro j2 e2 h2 ha2
    obtain ⟨p2, hp2, hle⟩ := h.i6 j2 e2 h2 ha2
    rw [hp] at hp2; cases hp2; exact hle
  exact dropDir_below n n' fd s pp d h.inv0 hs hpp heq p hb j' e' hj hany

theorem dropDir_inv (n : Net) (fd : Nat) (s : Sock) (pp : Nat) (d : Dir) (h : Inv n)
    (hs : n.S[fd]? = some s) (hpp : s.pollpos = some pp) :
    ∃ n', dropDir n fd s pp d = some n' ∧ Inv n' ∧ n'.scan = n.scan := by
  obtain ⟨n', heq, h0, hsc⟩ := dropDir_inv0 n fd s pp d h.inv0 hs hpp
  exact ⟨n', heq, ⟨h0, dropDir_i6 n n' fd s pp d h hs hpp heq hsc⟩, hsc⟩

/-- `events_network_cancel` never faults under the invariants, keeps them, answers ENOENT exactly
    when the slot is empty and otherwise empties exactly that slot -/
theorem netCancel_spec (n : Net) (fd : Nat) (d : Dir) (h : Inv n) :
    (slot n fd d = none ∧ netCancel n fd d = some (n, .enoent)) ∨
    (∃ id n', slot n fd d = some id ∧ netCancel n fd d = some (n', .ok) ∧ Inv n' ∧ n'.scan = n.scan ∧
      (∀ i d', slot n' i d' = if i = fd ∧ d' = d then none else slot n i d') ∧
      EntriesFrom n' n fd d) := by
  unfold netCancel slot
  cases hS : n.S[fd]? with
  | none => left; simp
  | some s =>
    simp only [Option.bind_some]
    cases hg : s.get d with
    | none => left; simp
    | some id =>
      right
      simp only [Option.isNone_some, Bool.false_eq_true, if_false]
      have hsome : s.pollpos.isSome = true := by
        apply h.inv0.i2 fd s hS
        cases d <;> simp_all [Sock.get]
      cases hpp : s.pollpos with
      | none => simp [hpp] at hsome
      | some pp =>
        obtain ⟨n', heq, hinv, hsc⟩ := dropDir_inv n fd s pp d h hS hpp
        have heq' := heq
        unfold dropDir at heq'
        refine ⟨id, n', rfl, by simp [heq'], hinv, hsc, ?_, ?_⟩
        · intro i d'
          have := dropDir_slot n n' fd s pp d h.inv0 hS hpp heq i d'
          simpa [slot] using this
        · exact dropDir_entries n n' fd s pp d h.inv0 hS hpp heq


/-! ### events_network_get -/

theorem expand_idem (e : PollFd) : expandErrHup (expandErrHup e) = expandErrHup e := by
  unfold expandErrHup
  split <;> simp_all

/-- `n1` is `n` with the ERR/HUP expansion applied to some entries (and any `fdscanpos`) -/
structure Expanded (n n1 : Net) : Prop where
  S : n1.S = n.S
  size : n1.fds.size = n.fds.size
  ent : ∀ (j : Nat) (e1 : PollFd), n1.fds[j]? = some e1 →
          ∃ e : PollFd, n.fds[j]? = some e ∧ (e1 = e ∨ e1 = expandErrHup e)

theorem Expanded.refl (n : Net) (sc : Option Nat) : Expanded n { n with scan := sc } :=
  ⟨rfl, rfl, fun _ e1 h => ⟨e1, h, Or.inl rfl⟩⟩

theorem Expanded.trans {a b c : Net} (h1 : Expanded a b) (h2 : Expanded b c) : Expanded a c := by
  refine ⟨h2.S.trans h1.S, h2.size.trans h1.size, ?_⟩
  intro j e2 hj
  obtain ⟨e1, h1e, hc1⟩ := h2.ent j e2 hj
  obtain ⟨e, h0e, hc0⟩ := h1.ent j e1 h1e
  refine ⟨e, h0e, ?_⟩
  rcases hc1 with rfl | rfl <;> rcases hc0 with rfl | rfl
  · exact Or.inl rfl
  · exact Or.inr rfl
  · exact Or.inr rfl
  · exact Or.inr (expand_idem e)

theorem expand_fields (e : PollFd) :
    (expandErrHup e).fd = e.fd ∧ (expandErrHup e).ev = e.ev ∧
    ((expandErrHup e).rev.r = true → e.rev.r = true ∨ ((e.rev.e = true ∨ e.rev.h = true) ∧ e.ev.r = true)) ∧
    ((expandErrHup e).rev.w = true → e.rev.w = true ∨ ((e.rev.e = true ∨ e.rev.h = true) ∧ e.ev.w = true)) ∧
    ((expandErrHup e).rev.e = true → e.rev.e = true) ∧ ((expandErrHup e).rev.h = true → e.rev.h = true) ∧
    ((expandErrHup e).rev.any = true → e.rev.any = true) := by
  unfold expandErrHup Bits.any
  split <;> simp_all <;> grind

theorem Expanded.inv0 {n n1 : Net} (hx : Expanded n n1) (h : Inv0 n) : Inv0 n1 := by
  have hS := hx.S
  constructor
  · intro i s p hs hp
    rw [hS] at hs
    obtain ⟨e, he, hfd⟩ := h.i1a i s p hs hp
    obtain ⟨hlt, _⟩ := Array.getElem?_eq_some_iff.mp he
    have hlt1 : p < n1.fds.size := by rw [hx.size]; exact hlt
    obtain ⟨e0, he0, hc⟩ := hx.ent p n1.fds[p] (by simp [hlt1])
    refine ⟨n1.fds[p], by simp [hlt1], ?_⟩
    have : e0 = e := by rw [he] at he0; cases he0; rfl
    subst this
    rcases hc with hc | hc <;> rw [hc]
    · exact hfd
    · rw [(expand_fields e0).1]; exact hfd
  · intro j e1 hj
    obtain ⟨e, he, hc⟩ := hx.ent j e1 hj
    obtain ⟨s, hs, hp⟩ := h.i1b j e he
    refine ⟨s, ?_, hp⟩
    rw [hS]
    rcases hc with rfl | rfl
    · exact hs
    · rw [(expand_fields e).1]; exact hs
  · intro i s hs; rw [hS] at hs; exact h.i2 i s hs
  · intro i s hs; rw [hS] at hs; exact h.i3 i s hs
  · intro j e1 s hj hs
    obtain ⟨e, he, hc⟩ := hx.ent j e1 hj
    rw [hS] at hs
    rcases hc with rfl | rfl
    · exact h.i4 j _ s he hs
    · rw [(expand_fields e).1] at hs; rw [(expand_fields e).2.1]; exact h.i4 j _ s he hs
  · intro j e1 hj
    obtain ⟨e, he, hc⟩ := hx.ent j e1 hj
    have h5 := h.i5 j e he
    rcases hc with rfl | rfl
    · exact h5
    · have hf := expand_fields e
      rw [hf.2.1]
      constructor
      · intro hr; rcases hf.2.2.1 hr with h1 | h1
        · exact h5.1 h1
        · exact h1.2
      · intro hw; rcases hf.2.2.2.1 hw with h1 | h1
        · exact h5.2 h1
        · exact h1.2
  · intro j e1 hj
    obtain ⟨e, he, hc⟩ := hx.ent j e1 hj
    rcases hc with rfl | rfl
    · exact h.ev0 j _ he
    · rw [(expand_fields e).2.1]; exact h.ev0 j _ he

theorem Expanded.below {n n1 : Net} (hx : Expanded n n1) {p : Nat} (hb : Below n p) : Below n1 p := by
  intro j e1 hj hany
  obtain ⟨e, he, hc⟩ := hx.ent j e1 hj
  rcases hc with rfl | rfl
  · exact hb j _ he hany
  · exact hb j _ he ((expand_fields e).2.2.2.2.2.2 hany)

/-- one step of the scan: entry `p` replaced by its expansion, `fdscanpos = p` -/
theorem expanded_step (n : Net) (p : Nat) (e : PollFd) (he : n.fds[p]? = some e) :
    Expanded n { n with fds := n.fds.setIfInBounds p (expandErrHup e), scan := some p } := by
  refine ⟨rfl, by simp, ?_⟩
  intro j e1 hj
  simp only [Array.getElem?_setIfInBounds] at hj
  by_cases hjp : p = j
  · subst hjp
    obtain ⟨hlt, _⟩ := Array.getElem?_eq_some_iff.mp he
    simp [hlt] at hj
    exact ⟨e, he, Or.inr hj.symm⟩
  · simp [hjp] at hj
    exact ⟨e1, hj, Or.inl rfl⟩


/-- what `events_network_get` found: after expanding some entries (`n1`), the entry at `q` reports
    direction `d`; the eventrec in that slot is returned and the slot dropped -/
structure Found (n n1 n' : Net) (p : Nat) (id : Nat) : Prop where
  ex : Expanded n n1
  inv0 : Inv0 n1
  spec : ∃ (q : Nat) (e : PollFd) (s : Sock) (d : Dir), q ≤ p ∧ n1.fds[q]? = some e ∧ e.rev.dir d = true ∧
      n1.S[e.fd]? = some s ∧ s.pollpos = some q ∧ s.get d = some id ∧ n1.scan = some q ∧ Below n1 q ∧
      dropDir n1 e.fd s q d = some n'

theorem takeDir_found (n n1 : Net) (p : Nat) (e : PollFd) (d : Dir) (hx : Expanded n n1) (h1 : Inv0 n1)
    (hsc : n1.scan = some p) (hb1 : Below n1 p) (he : n1.fds[p]? = some e) (hr : e.rev.dir d = true) :
    ∃ n' id, takeDir n1 p e d = some (n', some id) ∧ Found n n1 n' p id := by
  obtain ⟨s, hs, hpp⟩ := h1.i1b p e he
  have h4 := h1.i4 p e s he hs
  have h5 := h1.i5 p e he
  obtain ⟨id, hid⟩ : ∃ id, s.get d = some id := by
    cases d <;> simp only [Bits.dir, Sock.get] at * <;>
    (apply Option.isSome_iff_exists.mp; grind)
  obtain ⟨n', heq, _, _⟩ := dropDir_inv0 n1 e.fd s p d h1 hs hpp
  refine ⟨n', id, ?_, hx, h1, p, e, s, d, Nat.le_refl _, he, hr, hs, hpp, hid, hsc, hb1, heq⟩
  unfold takeDir
  unfold dropDir at heq
  simp [hs, heq, hid]

theorem netGetFrom_spec : ∀ (p : Nat) (n : Net), Inv0 n → Below n p →
    ∃ n', (netGetFrom p n = some (n', none) ∧ Inv n' ∧ Expanded n n' ∧
            (p < n.fds.size → ∀ (j : Nat) (e : PollFd), n'.fds[j]? = some e → e.rev.any = false)) ∨
          (∃ id n1, netGetFrom p n = some (n', some id) ∧ Found n n1 n' p id) := by
  intro p
  induction p with
  | zero =>
    intro n h0 hb
    unfold netGetFrom
    cases he : n.fds[0]? with
    | none =>
      refine ⟨_, Or.inl ⟨rfl, ⟨(Expanded.refl n (some 0)).inv0 h0, ?_⟩, Expanded.refl n (some 0), ?_⟩⟩
      · intro j e hj hany; exact ⟨0, rfl, hb j e hj hany⟩
      · intro hlt; have := Array.getElem?_eq_none_iff.mp he; omega
    | some e =>
      simp only
      have hx := expanded_step n 0 e he
      have h1 := hx.inv0 h0
      have hb1 := hx.below hb
      obtain ⟨hlt, _⟩ := Array.getElem?_eq_some_iff.mp he
      have he1 : ({ n with fds := n.fds.setIfInBounds 0 (expandErrHup e), scan := some 0 } : Net).fds[0]? = some (expandErrHup e) := by
        simp [hlt]
      by_cases hr : (expandErrHup e).rev.r = true
      · simp only [hr, if_true]
        obtain ⟨n', id, heq, hf⟩ := takeDir_found n _ 0 (expandErrHup e) .rd hx h1 rfl hb1 he1 hr
        exact ⟨n', Or.inr ⟨id, _, heq, hf⟩⟩
      · by_cases hw : (expandErrHup e).rev.w = true
        · simp only [hr, hw, if_true, if_false, Bool.false_eq_true]
          obtain ⟨n', id, heq, hf⟩ := takeDir_found n _ 0 (expandErrHup e) .wr hx h1 rfl hb1 he1 hw
          exact ⟨n', Or.inr ⟨id, _, heq, hf⟩⟩
        · simp only [hr, hw, if_false, Bool.false_eq_true]
          have hx' : Expanded n { n with fds := n.fds.setIfInBounds 0 (expandErrHup e), scan := none } :=
            ⟨hx.S, hx.size, hx.ent⟩
          have hnone : ∀ (j : Nat) (e' : PollFd),
              ({ n with fds := n.fds.setIfInBounds 0 (expandErrHup e), scan := none } : Net).fds[j]? = some e' → e'.rev.any = false := by
            intro j e' hj
            cases hany : e'.rev.any with
            | false => rfl
            | true =>
              have hj0 : j = 0 := Nat.le_zero.mp (hb1 j e' hj hany)
              subst hj0
              rw [he1] at hj; cases hj
              exfalso
              revert hany hr hw
              unfold expandErrHup Bits.any
              split <;> simp_all
          refine ⟨_, Or.inl ⟨rfl, ⟨hx'.inv0 h0, ?_⟩, hx', fun _ => hnone⟩⟩
          intro j e' hj hany
          rw [hnone j e' hj] at hany; cases hany
  | succ q ih =>
    intro n h0 hb
    unfold netGetFrom
    cases he : n.fds[q+1]? with
    | none =>
      refine ⟨_, Or.inl ⟨rfl, ⟨(Expanded.refl n (some (q+1))).inv0 h0, ?_⟩, Expanded.refl n (some (q+1)), ?_⟩⟩
      · intro j e hj hany; exact ⟨q+1, rfl, hb j e hj hany⟩
      · intro hlt; have := Array.getElem?_eq_none_iff.mp he; omega
    | some e =>
      simp only
      have hx := expanded_step n (q+1) e he
      have h1 := hx.inv0 h0
      have hb1 := hx.below hb
      obtain ⟨hlt, _⟩ := Array.getElem?_eq_some_iff.mp he
      have he1 : ({ n with fds := n.fds.setIfInBounds (q+1) (expandErrHup e), scan := some (q+1) } : Net).fds[q+1]? = some (expandErrHup e) := by
        simp [hlt]
      by_cases hr : (expandErrHup e).rev.r = true
      · simp only [hr, if_true]
        obtain ⟨n', id, heq, hf⟩ := takeDir_found n _ (q+1) (expandErrHup e) .rd hx h1 rfl hb1 he1 hr
        exact ⟨n', Or.inr ⟨id, _, heq, hf⟩⟩
      · by_cases hw : (expandErrHup e).rev.w = true
        · simp only [hr, hw, if_true, if_false, Bool.false_eq_true]
          obtain ⟨n', id, heq, hf⟩ := takeDir_found n _ (q+1) (expandErrHup e) .wr hx h1 rfl hb1 he1 hw
          exact ⟨n', Or.inr ⟨id, _, heq, hf⟩⟩
        · simp only [hr, hw, if_false, Bool.false_eq_true]
          have hbq : Below { n with fds := n.fds.setIfInBounds (q+1) (expandErrHup e), scan := some (q+1) } q := by
            intro j e' hj hany
            have hle := hb1 j e' hj hany
            by_cases hjq : j = q + 1
            · subst hjq
              rw [he1] at hj; cases hj
              exfalso
              revert hany hr hw
              unfold expandErrHup Bits.any
              split <;> simp_all
            · omega
          obtain ⟨n', hres⟩ := ih _ h1 hbq
          refine ⟨n', ?_⟩
          rcases hres with ⟨heq, hinv, hx2, hall⟩ | ⟨id, n2, heq, hf⟩
          · refine Or.inl ⟨heq, hinv, hx.trans hx2, fun _ => hall (by simp; omega)⟩
          · refine Or.inr ⟨id, n2, heq, ⟨hx.trans hf.ex, hf.inv0, ?_⟩⟩
            obtain ⟨q', e', s', d', hq', rest⟩ := hf.spec
            exact ⟨q', e', s', d', by omega, rest⟩


theorem Found.inv {n n1 n' : Net} {p id : Nat} (hf : Found n n1 n' p id) : Inv n' := by
  obtain ⟨q, e, s, d, _, he, _, hs, hpp, _, hsc, hb, heq⟩ := hf.spec
  have h1 : Inv n1 := ⟨hf.inv0, fun j e' hj hany => ⟨q, hsc, hb j e' hj hany⟩⟩
  obtain ⟨n'', heq', hinv, _⟩ := dropDir_inv n1 e.fd s q d h1 hs hpp
  rw [heq] at heq'; cases heq'; exact hinv

/-- `events_network_get()`: never faults under the invariants and keeps them; either nothing is
    found (then only ERR/HUP expansions happened, and after a scan that started inside the array no
    `revents` is left), or the record in a slot whose direction is reported is returned and dropped -/
theorem netGet_spec (n : Net) (h : Inv n) :
    ∃ n', (netGet n = some (n', none) ∧ Inv n' ∧ Expanded n n' ∧
            (∀ p, n.scan = some p → p < n.fds.size → ∀ (j : Nat) (e : PollFd), n'.fds[j]? = some e → e.rev.any = false)) ∨
          (∃ id n1 p, netGet n = some (n', some id) ∧ Found n n1 n' p id ∧ Inv n') := by
  unfold netGet
  cases hsc : n.scan with
  | none =>
    refine ⟨n, Or.inl ⟨rfl, h, ?_, by simp⟩⟩
    have := Expanded.refl n n.scan
    exact this
  | some p =>
    have hb : Below n p := by
      intro j e hj hany
      obtain ⟨p', hp', hle⟩ := h.i6 j e hj hany
      rw [hsc] at hp'; cases hp'; exact hle
    obtain ⟨n', hres⟩ := netGetFrom_spec p n h.inv0 hb
    refine ⟨n', ?_⟩
    rcases hres with ⟨heq, hinv, hx, hall⟩ | ⟨id, n1, heq, hf⟩
    · refine Or.inl ⟨heq, hinv, hx, ?_⟩
      intro p' hp'; cases hp'; exact hall
    · exact Or.inr ⟨id, n1, p, heq, hf, hf.inv⟩

end Percival.Proofs.EventsNet
