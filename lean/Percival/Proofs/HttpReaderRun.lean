import Percival.Proofs.HttpReader
/-!
# The scripted reader of `pmodel http` refines the proved model of `netbuf_read.c`, one whole wait at a time

`fill_refines`: the event loop of one pending wait (`Model.HttpStep.fill`: `recv` after `recv` of the scripted network
until `k` bytes are buffered or the stream ends) answers exactly what `Model.NetbufRead` answers when it is driven
over the same script with the stream's bytes: there is a sequence of transport completions — `data d₁ … data dₙ`,
closed by `eof` / `err` if the stream ends first — which satisfies the transport contract (`transportOK`), whose
bytes are the next bytes of the stream, under which `NetbufRead.run` stays inside its buffer, makes exactly one
callback, at the end, with the status of `fill`'s answer, and ends with the geometry `fill` ends with.
`readerWait_refines`: the same for `netbuf_read_consume(c)`; `netbuf_read_wait(k)`; event loop.
-/
namespace Percival.Proofs.HttpReader
open Percival.Spec.ByteStream (ROp REv ROut delivered)
open Percival.Model Percival.Model.HttpStep Percival.Model.Netbuf Percival.Proofs.NetbufRead Percival.Proofs.HttpStep

/-- status of the callback with which a completed wait is answered -/
def statusOf : Http.Arrival → Int
  | .more _ => 0
  | .eof => 1
  | .err => -1

/-- a sequence of transport completions only -/
def AllNet (evs : List ROp) : Prop := ∀ op ∈ evs, ∃ ev, op = .net ev

/-- one callback, at the end -/
def OneCallback (evs : List ROp) (outs : List ROut) (st : Int) : Prop :=
  evs ≠ [] ∧ outs = List.replicate (evs.length - 1) .none ++ [.cb st]

theorem run_net_end (nb : NetbufRead.R) (hp : nb.pending = .read) (ev : REv) (st : Int)
    (hev : (ev = .eof ∧ st = 1) ∨ (ev = .err ∧ st = -1)) :
    NetbufRead.run nb [.net ev] = .ok ({ nb with pending := .none }, [.cb st]) := by
  rcases hev with ⟨rfl, rfl⟩ | ⟨rfl, rfl⟩ <;>
    simp [NetbufRead.run, NetbufRead.step, NetbufRead.callbackRead, hp, NetbufRead.outOfStatus]

theorem take_take_drop (l : List UInt8) (a b : Nat) : l.take a ++ (l.drop a).take b = l.take (a + b) := by
  rw [List.take_add]

theorem fill_refines (k : Nat) : ∀ (f : Nat) (r : Reader) (nb : NetbufRead.R) (rest : List UInt8),
    mu r + 2 ≤ f → Geo nb → SameGeo r nb → nb.pending = .read → nb.waitlen = k → k ≤ nb.buflen - nb.bufpos →
    nb.datalen - nb.bufpos < k → r.cancelRecv = none → SegOK r.seg → rest.length = r.remaining →
    ∃ r' a evs nb' outs, fill k f r = (r', some a) ∧
      NetbufRead.run nb evs = .ok (nb', outs) ∧ NetbufRead.transportOK nb evs ∧ AllNet evs ∧
      r'.remaining ≤ r.remaining ∧ delivered evs = rest.take (r.remaining - r'.remaining) ∧
      window nb' = window nb ++ delivered evs ∧ Geo nb' ∧ SameGeo r' nb' ∧ nb'.pending = .none ∧
      OneCallback evs outs (statusOf a) ∧ (∀ e, a = .more e → nb'.datalen - nb'.bufpos = k + e) ∧
      (a = .eof ∨ a = .err → r'.remaining = 0 ∧ nb'.datalen - nb'.bufpos < k) := by
  intro f
  induction f with
  | zero => intro r nb rest h; omega
  | succ f ih =>
    intro r nb rest hf hgeo heq hp hwl hroom hlt hcr hok hrest
    obtain ⟨e1, e2, e3⟩ := heq
    have hg := hgeo
    obtain ⟨g1, g2, g3⟩ := hg
    simp only [fill]
    rw [if_neg (by rw [e2, e3]; omega)]
    have harm : armed r = false := by simp [armed, hcr]
    rw [harm]
    simp only [Bool.false_eq_true, if_false]
    have hspace : 1 ≤ r.cap - r.datalen := by rw [e1, e3]; omega
    have hsp := recvOne_spec r (r.cap - r.datalen) hspace hok
    generalize recvOne r (r.cap - r.datalen) = p at hsp
    obtain ⟨r1, ans⟩ := p
    obtain ⟨hsame, hcase⟩ := hsp
    simp only at hsame hcase
    have hgeo1 : SameGeo r1 nb := ⟨by rw [hsame.cap]; exact e1, by rw [hsame.bufpos]; exact e2, by rw [hsame.datalen]; exact e3⟩
    rcases hcase with ⟨h0, hans, hrem⟩ | ⟨h0, hans, hrem, hmu⟩ | ⟨h0, n, hans, hn1, hn2, hrem, hmu⟩
    · -- the stream has ended
      subst hans
      have hst : statusOf (if r.endReset = true then Http.Arrival.err else Http.Arrival.eof) =
          (if r.endReset = true then (-1 : Int) else 1) := by split <;> rfl
      refine ⟨r1, _, [.net (if r.endReset then .err else .eof)], { nb with pending := .none },
        [.cb (if r.endReset then -1 else 1)], rfl, ?_, ⟨(by split <;> trivial), fun _ _ _ => trivial⟩, ?_, by omega, ?_, ?_,
        ⟨g1, g2, g3⟩, hgeo1, rfl, ⟨by simp, by rw [hst]; rfl⟩, ?_, ?_⟩
      · exact run_net_end nb hp _ _ (by split <;> simp)
      · intro op hop
        simp only [List.mem_singleton] at hop
        exact ⟨_, hop⟩
      · have : delivered [ROp.net (if r.endReset = true then REv.err else REv.eof)] = [] := by
          split <;> rfl
        rw [this, hrem, h0]; simp
      · have : delivered [ROp.net (if r.endReset = true then REv.err else REv.eof)] = [] := by
          split <;> rfl
        rw [this, List.append_nil]; rfl
      · intro e he
        split at he <;> cases he
      · intro _
        exact ⟨hrem, hlt⟩
    · -- EAGAIN
      subst hans
      obtain ⟨r', a, evs, nb', outs, q1, q2, q3, q4, q5, q6, q7, q8, q9, q10, q11, q12, q13⟩ :=
        ih r1 nb rest (by omega) hgeo hgeo1 hp hwl hroom hlt (by rw [hsame.cancelRecv]; exact hcr)
          (by rw [hsame.seg]; exact hok) (by rw [hrem]; exact hrest)
      refine ⟨r', a, evs, nb', outs, q1, q2, q3, q4, by rw [← hrem]; exact q5, by rw [← hrem]; exact q6, q7, q8, q9, q10,
        q11, q12, q13⟩
    · -- n + 1 bytes arrive
      subst hans
      have hdl : (rest.take (n + 1)).length = n + 1 := by rw [List.length_take]; omega
      obtain ⟨nb1, st, ecb, geo1, win1, b1, b2, b3, b4, hdone, hmore⟩ :=
        recv_geometry nb (rest.take (n + 1)) hgeo hp (by rw [hwl]; exact hroom) (by rw [hdl]; omega)
          (by rw [hdl, ← e1, ← e3]; exact hn1)
      rw [hdl] at b3 hdone hmore
      have hstep : NetbufRead.step nb (.net (.data (rest.take (n + 1)))) = .ok (nb1, NetbufRead.outOfStatus st) := by
        simp [NetbufRead.step, ecb]
      have hfits : NetbufRead.fits nb (.net (.data (rest.take (n + 1)))) := by
        intro off len mn hreq
        simp only [NetbufRead.request, hp, Option.some.injEq, Prod.mk.injEq] at hreq
        obtain ⟨_, rfl, rfl⟩ := hreq
        rw [hdl]
        exact ⟨by show Percival.Gen.Netbuf.readMin ≤ n + 1; have : Percival.Gen.Netbuf.readMin = 1 := rfl; omega,
          by rw [← e1, ← e3]; exact hn1⟩
      have hgeo2 : SameGeo { r1 with datalen := r1.datalen + (n + 1) } nb1 :=
        ⟨by show r1.cap = nb1.buflen; rw [b1, hsame.cap]; exact e1,
         by show r1.bufpos = nb1.bufpos; rw [b2, hsame.bufpos]; exact e2,
         by show r1.datalen + (n + 1) = nb1.datalen; rw [b3, hsame.datalen, e3]⟩
      by_cases hd : nb.waitlen ≤ nb.datalen + (n + 1) - nb.bufpos
      · -- the wait is complete
        obtain ⟨rfl, hpn⟩ := hdone hd
        have hf1 : ∃ f', f = f' + 1 := ⟨f - 1, by omega⟩
        obtain ⟨f', rfl⟩ := hf1
        simp only [fill]
        rw [if_pos (by show r1.datalen + (n + 1) - r1.bufpos ≥ k; rw [hsame.datalen, hsame.bufpos, e2, e3, ← hwl]; exact hd)]
        refine ⟨_, _, [.net (.data (rest.take (n + 1)))], nb1, [.cb 0], rfl, ?_,
          ⟨hfits, fun _ _ _ => trivial⟩, ?_, by show r1.remaining ≤ r.remaining; omega, ?_, ?_, geo1, hgeo2, hpn,
          ⟨by simp, rfl⟩, ?_, ?_⟩
        · simp [NetbufRead.run, hstep, NetbufRead.outOfStatus]
        · intro op hop
          simp only [List.mem_singleton] at hop
          exact ⟨_, hop⟩
        · show delivered [ROp.net (REv.data (rest.take (n + 1)))] = rest.take (r.remaining - r1.remaining)
          simp only [delivered, List.append_nil]
          congr 1
          omega
        · simp only [delivered, List.append_nil]; exact win1
        · intro e he
          simp only [Http.Arrival.more.injEq] at he
          rw [b3, b2, ← he, hsame.datalen, hsame.bufpos, e2, e3]
          rw [hwl] at hd
          omega
        · intro h; rcases h with h | h <;> cases h
      · -- more is needed
        obtain ⟨rfl, hpr⟩ := hmore hd
        obtain ⟨r', a, evs, nb', outs, q1, q2, q3, q4, q5, q6, q7, q8, q9, q10, q11, q12, q13⟩ :=
          ih { r1 with datalen := r1.datalen + (n + 1) } nb1 (rest.drop (n + 1)) (by show mu r1 + 2 ≤ f; omega) geo1 hgeo2
            hpr (by rw [b4]; exact hwl) (by rw [b1, b2]; exact hroom) (by rw [b3, b2, ← hwl]; omega)
            (by show r1.cancelRecv = none; rw [hsame.cancelRecv]; exact hcr)
            (by show SegOK r1.seg; rw [hsame.seg]; exact hok)
            (by show (rest.drop (n + 1)).length = r1.remaining; rw [List.length_drop, hrem, hrest])
        have q5' : r'.remaining ≤ r1.remaining := q5
        have q6' : delivered evs = (rest.drop (n + 1)).take (r1.remaining - r'.remaining) := q6
        refine ⟨r', a, .net (.data (rest.take (n + 1))) :: evs, nb', .none :: outs, q1, ?_, ⟨hfits, ?_⟩, ?_, by omega, ?_,
          ?_, q8, q9, q10, ⟨by simp, ?_⟩, q12, q13⟩
        · simp [NetbufRead.run, hstep, NetbufRead.outOfStatus, q2]
        · intro nbx o hs
          rw [hstep] at hs
          simp only [Res.ok.injEq, Prod.mk.injEq] at hs
          rw [← hs.1]; exact q3
        · intro op hop
          rcases List.mem_cons.1 hop with rfl | hop
          · exact ⟨_, rfl⟩
          · exact q4 op hop
        · simp only [delivered]
          rw [q6', take_take_drop]
          congr 1
          omega
        · simp only [delivered]
          rw [q7, win1, List.append_assoc]
        · obtain ⟨hne, ho⟩ := q11
          rw [ho]
          have : (ROp.net (REv.data (rest.take (n + 1))) :: evs).length - 1 = (evs.length - 1) + 1 := by
            have := List.length_pos_iff.2 hne
            simp only [List.length_cons]; omega
          rw [this, List.replicate_succ, List.cons_append]

/-- **One whole wait of the scripted reader is a run of `Model.NetbufRead`.**  From a state with the geometry of a
consistent `NetbufRead.R` without an outstanding wait, `readerWait rd c k` answers `a` exactly when
`netbuf_read_consume(c)`, `netbuf_read_wait(k)` followed by the immediate callback, resp. by a sequence of transport
completions which satisfies the transport contract and carries the next bytes of the stream, runs inside its
buffer and makes exactly one callback, the last thing it does, with the status of `a`; the window then holds what
it held without its first `c` bytes followed by the bytes received, and the geometry is again the reader's. -/
theorem readerWait_refines (rd : Reader) (nb : NetbufRead.R) (rest : List UInt8) (c k : Nat)
    (hgeo : Geo nb) (hp : nb.pending = .none) (heq : SameGeo rd nb) (hc : c ≤ nb.datalen - nb.bufpos)
    (hcr : rd.cancelRecv = none) (hok : SegOK rd.seg) (hrest : rest.length = rd.remaining) :
    ∃ rd' a evs nb' outs, readerWait rd c k = (rd', some a) ∧
      NetbufRead.run nb (.consume c :: .wait k :: evs) = .ok (nb', .none :: .none :: outs) ∧
      NetbufRead.transportOK nb (.consume c :: .wait k :: evs) ∧
      (evs = [.fire] ∨ AllNet evs) ∧
      rd'.remaining ≤ rd.remaining ∧ delivered evs = rest.take (rd.remaining - rd'.remaining) ∧
      window nb' = (window nb).drop c ++ delivered evs ∧ Geo nb' ∧ SameGeo rd' nb' ∧ nb'.pending = .none ∧
      OneCallback evs outs (statusOf a) ∧ (∀ e, a = .more e → nb'.datalen - nb'.bufpos = k + e) ∧
      (a = .eof ∨ a = .err → rd'.remaining = 0 ∧ nb'.datalen - nb'.bufpos < k) := by
  obtain ⟨nb2, e2, geo2, win2, himm, hread⟩ := wait_geometry rd nb c k hgeo hp heq hc
  -- split the bind into its two steps
  have hsteps : ∃ nb1, NetbufRead.consume nb c = .ok nb1 ∧ NetbufRead.wait nb1 k = .ok nb2 := by
    cases hc1 : NetbufRead.consume nb c with
    | ok nb1 => rw [hc1] at e2; exact ⟨nb1, rfl, e2⟩
    | oob => rw [hc1] at e2; cases e2
    | abort => rw [hc1] at e2; cases e2
    | contract => rw [hc1] at e2; cases e2
  obtain ⟨nb1, ec, ew⟩ := hsteps
  have hs1 : NetbufRead.step nb (.consume c) = .ok (nb1, .none) := by simp [NetbufRead.step, ec]
  have hs2 : NetbufRead.step nb1 (.wait k) = .ok (nb2, .none) := by simp [NetbufRead.step, ew]
  have hrun : ∀ evs nb' outs, NetbufRead.run nb2 evs = .ok (nb', outs) →
      NetbufRead.run nb (.consume c :: .wait k :: evs) = .ok (nb', .none :: .none :: outs) := by
    intro evs nb' outs h
    simp [NetbufRead.run, hs1, hs2, h]
  have htr : ∀ evs, NetbufRead.transportOK nb2 evs → NetbufRead.transportOK nb (.consume c :: .wait k :: evs) := by
    intro evs h
    refine ⟨trivial, fun x o hx => ?_⟩
    rw [hs1] at hx
    simp only [Res.ok.injEq, Prod.mk.injEq] at hx
    rw [← hx.1]
    refine ⟨trivial, fun y o' hy => ?_⟩
    rw [hs2] at hy
    simp only [Res.ok.injEq, Prod.mk.injEq] at hy
    rw [← hy.1]; exact h
  rw [readerWait_eq]
  obtain ⟨e1, e2', e3⟩ := heq
  by_cases hk : k ≤ nb.datalen - nb.bufpos - c
  · -- immediate
    obtain ⟨hpi, hg2⟩ := himm hk
    rw [if_pos (by rw [e2', e3]; omega)]
    have hfire : NetbufRead.run nb2 [.fire] = .ok ({ nb2 with pending := .none }, [.cb 0]) := by
      simp [NetbufRead.run, NetbufRead.step, NetbufRead.callbackSuccess, hpi]
    refine ⟨_, _, [.fire], { nb2 with pending := .none }, [.cb 0], rfl, hrun _ _ _ hfire,
      htr _ ⟨trivial, fun _ _ _ => trivial⟩, Or.inl rfl, Nat.le_refl _, by simp [delivered], ?_,
      ⟨geo2.len, geo2.pos, geo2.dat⟩, hg2, rfl, ⟨by simp, rfl⟩, ?_, ?_⟩
    · simp only [delivered, List.append_nil]; exact win2
    · intro e he
      simp only [Http.Arrival.more.injEq] at he
      obtain ⟨_, h2, h3⟩ := hg2
      show nb2.datalen - nb2.bufpos = k + e
      rw [← h2, ← h3, ← he]
      show rd.datalen - (rd.bufpos + c) = _
      omega
    · intro h; rcases h with h | h <;> cases h
  · obtain ⟨hpr, hwl, hroom, hg2⟩ := hread hk
    rw [if_neg (by rw [e2', e3]; omega)]
    have hav2 : nb2.datalen - nb2.bufpos < k := by
      have hl : (window nb2).length = nb2.datalen - nb2.bufpos := window_length geo2
      rw [win2, List.length_drop, window_length hgeo] at hl
      omega
    have hmu : mu (prep rd c k) + 2 ≤ 2 * ((prep rd c k).remaining + k) + 1000000 := by unfold mu; split <;> omega
    have hkeep : (prep rd c k).cancelRecv = rd.cancelRecv ∧ (prep rd c k).seg = rd.seg ∧
        (prep rd c k).remaining = rd.remaining := by
      unfold prep
      simp only
      split <;> split <;> exact ⟨rfl, rfl, rfl⟩
    obtain ⟨r', a, evs, nb', outs, q1, q2, q3, q4, q5, q6, q7, q8, q9, q10, q11, q12, q13⟩ :=
      fill_refines k _ (prep rd c k) nb2 rest hmu geo2 hg2 hpr hwl hroom hav2 (by rw [hkeep.1]; exact hcr)
        (by rw [hkeep.2.1]; exact hok) (by rw [hkeep.2.2]; exact hrest)
    rw [hkeep.2.2] at q5 q6
    exact ⟨r', a, evs, nb', outs, q1, hrun _ _ _ q2, htr _ q3, Or.inr q4, q5, q6, by rw [q7, win2], q8, q9, q10, q11,
      q12, q13⟩

end Percival.Proofs.HttpReader
