import Percival.Model.NetIO
import Percival.Model.Connect
/-! Helper lemmas for C06. -/
namespace Percival.Proofs.NetIO
open Percival.Model.NetIO

/-! ### read -/

/-- what a pending read request satisfies: it still needs data, and it has room for it -/
structure ReadInv (s : ReadSt) : Prop where
  room : s.got.length < s.buflen
  need : s.got.length < s.minlen ∨ s.got = []
  minle : s.minlen ≤ s.buflen

theorem readInit_inv (bl ml : Nat) (h0 : 0 < bl) (hm : ml ≤ bl) : ReadInv (readInit bl ml) :=
  ⟨by simpa [readInit] using h0, Or.inr rfl, hm⟩

theorem take_append_drop_cons (seg : List UInt8) (k : Nat) (c : UInt8) (cs : List UInt8)
    (h : seg.drop k = c :: cs) : seg.take k ++ (c :: cs) = seg := by
  rw [← h, List.take_append_drop]

/-- what the outcome of driving a read request from `(s, q)` must satisfy -/
def ReadPost (s : ReadSt) (q : List Ans) : Out ReadSt → Prop
  | .done n s' q' =>
      s'.buflen = s.buflen ∧ s'.minlen = s.minlen ∧
      (n = -1 ∨ n = 0 ∨
        (n = s'.got.length ∧ s.minlen ≤ s'.got.length ∧ 1 ≤ s'.got.length ∧ s'.got.length ≤ s.buflen ∧
         s'.got ++ streamOf q' = s.got ++ streamOf q))
  | .pending s' q' =>
      q' = [] ∧ s'.buflen = s.buflen ∧ s'.minlen = s.minlen ∧ ReadInv s' ∧ s'.got = s.got ++ streamOf q
  | .fuel => True

theorem ReadPost_trans (s s1 : ReadSt) (q q1 : List Ans) (r : Out ReadSt)
    (hb : s1.buflen = s.buflen) (hm : s1.minlen = s.minlen)
    (hs : s1.got ++ streamOf q1 = s.got ++ streamOf q) (h : ReadPost s1 q1 r) : ReadPost s q r := by
  cases r with
  | done n s' q' =>
    obtain ⟨h1, h2, h3⟩ := h
    refine ⟨h1.trans hb, h2.trans hm, ?_⟩
    rcases h3 with h3 | h3 | ⟨e1, e2, e3, e4, e5⟩
    · exact Or.inl h3
    · exact Or.inr (Or.inl h3)
    · exact Or.inr (Or.inr ⟨e1, hm ▸ e2, e3, hb ▸ e4, e5.trans hs⟩)
  | pending s' q' =>
    obtain ⟨h0, h1, h2, h3, h4⟩ := h
    exact ⟨h0, h1.trans hb, h2.trans hm, h3, h4.trans hs⟩
  | fuel => trivial

/-- the re-queueing of the unread part of a segment preserves the stream -/
theorem requeue_stream (got seg : List UInt8) (q : List Ans) (oplen k : Nat)
    (hk : k = min seg.length oplen) (_hk1 : 1 ≤ k) :
    (got ++ seg.take k) ++ streamOf (if seg.length ≤ oplen then q else
        match seg.drop k with
        | [] => q
        | c :: cs => .data c cs :: q) = got ++ (seg ++ streamOf q) := by
  by_cases hfit : seg.length ≤ oplen
  · have : k = seg.length := by omega
    rw [if_pos hfit, this, List.take_length, List.append_assoc]
  · rw [if_neg hfit]
    have hd : (seg.drop k).length = seg.length - k := by simp
    cases hdr : seg.drop k with
    | nil => rw [hdr] at hd; simp at hd; omega
    | cons c cs =>
      have := take_append_drop_cons seg k c cs hdr
      simp only [streamOf]
      rw [List.append_assoc]
      congr 1
      rw [← List.append_assoc, this]

/-- The main safety lemma for reads, for every fuel, state and kernel script. -/
theorem runRead_spec (f : Nat) (s : ReadSt) (q : List Ans) (hinv : ReadInv s) :
    ReadPost s q (runRead f s q) := by
  induction f generalizing s q with
  | zero => simp [runRead, ReadPost]
  | succ f ih =>
    cases q with
    | nil =>
      simp only [runRead, ReadPost, streamOf, List.append_nil]
      exact ⟨trivial, trivial, trivial, hinv, trivial⟩
    | cons a q =>
      cases a with
      | data b bs =>
        obtain ⟨hroom, hneed, hmin⟩ := hinv
        have hseglen : (b :: bs).length = bs.length + 1 := by simp
        generalize hk : min (b :: bs).length (s.buflen - s.got.length) = k
        have hk1 : 1 ≤ k := by omega
        have hk2 : k ≤ s.buflen - s.got.length := by omega
        have hlen : (s.got ++ (b :: bs).take k).length = s.got.length + k := by
          rw [List.length_append, List.length_take]; omega
        have hstream := requeue_stream s.got (b :: bs) q (s.buflen - s.got.length) k hk.symm hk1
        rw [runRead]
        simp only [hk]
        by_cases hlt : (s.got ++ (b :: bs).take k).length < s.minlen
        · rw [if_pos hlt]
          rw [hlen] at hlt
          refine ReadPost_trans s _ _ _ _ ?_ ?_ ?_ (ih _ _ ⟨?_, ?_, hmin⟩)
          · rfl
          · rfl
          · exact hstream
          · show (s.got ++ (b :: bs).take k).length < s.buflen
            rw [hlen]; omega
          · exact Or.inl (by show (s.got ++ (b :: bs).take k).length < s.minlen; rw [hlen]; exact hlt)
        · rw [if_neg hlt]
          rw [hlen] at hlt
          refine ⟨rfl, rfl, Or.inr (Or.inr ⟨rfl, ?_, ?_, ?_, ?_⟩)⟩
          · show s.minlen ≤ (s.got ++ (b :: bs).take k).length
            rw [hlen]; omega
          · show 1 ≤ (s.got ++ (b :: bs).take k).length
            rw [hlen]; omega
          · show (s.got ++ (b :: bs).take k).length ≤ s.buflen
            rw [hlen]; omega
          · exact hstream
      | again =>
        rw [runRead]
        exact ReadPost_trans s _ _ _ _ rfl rfl (by simp [streamOf]) (ih _ _ ⟨hinv.room, hinv.need, hinv.minle⟩)
      | room n =>
        rw [runRead]
        exact ReadPost_trans s _ _ _ _ rfl rfl (by simp [streamOf]) (ih _ _ ⟨hinv.room, hinv.need, hinv.minle⟩)
      | eof => simp [runRead, ReadPost]
      | err => simp [runRead, ReadPost]

/-- enough fuel: the request always either completes or drains the kernel's script -/
theorem runRead_fuel (f : Nat) (s : ReadSt) (q : List Ans) (hinv : ReadInv s) (hf : weight q < f) :
    runRead f s q ≠ .fuel := by
  induction f generalizing s q with
  | zero => omega
  | succ f ih =>
    cases q with
    | nil => simp [runRead]
    | cons a q =>
      cases a with
      | data b bs =>
        simp only [runRead]
        obtain ⟨hroom, hneed, hmin⟩ := hinv
        generalize hseg : b :: bs = seg
        have hsl : seg.length = bs.length + 1 := by rw [← hseg]; simp
        generalize hk : min seg.length (s.buflen - s.got.length) = k
        have hk1 : 1 ≤ k := by omega
        have hlen : (s.got ++ seg.take k).length = s.got.length + k := by
          simp [List.length_take]; omega
        split
        · rename_i hlt
          simp only [hlen] at hlt
          apply ih
          · exact ⟨by simp only [hlen]; omega, Or.inl (by simp only [hlen]; exact hlt), hmin⟩
          · simp only [weight] at hf
            by_cases hfit : seg.length ≤ s.buflen - s.got.length
            · rw [if_pos hfit]; omega
            · rw [if_neg hfit]
              have hd : (seg.drop k).length = seg.length - k := by simp
              cases hdr : seg.drop k with
              | nil => simp only []; omega
              | cons c cs =>
                rw [hdr] at hd
                simp only [weight]
                simp at hd; omega
        · simp
      | again => simp only [runRead]; exact ih _ _ ⟨hinv.room, hinv.need, hinv.minle⟩ (by simp [weight] at hf; omega)
      | room n => simp only [runRead]; exact ih _ _ ⟨hinv.room, hinv.need, hinv.minle⟩ (by simp [weight] at hf; omega)
      | eof => simp [runRead]
      | err => simp [runRead]

/-! ### write -/

structure WriteInv (s : WriteSt) : Prop where
  pos : s.pos < s.buf.length
  sent : s.sent = s.buf.take s.pos
  need : s.pos < s.minlen ∨ s.pos = 0
  minle : s.minlen ≤ s.buf.length

theorem writeInit_inv (buf : List UInt8) (ml : Nat) (h0 : 0 < buf.length) (hm : ml ≤ buf.length) :
    WriteInv (writeInit buf ml) :=
  ⟨by simpa [writeInit] using h0, by simp [writeInit], Or.inr rfl, hm⟩

theorem take_add_drop_take (l : List UInt8) (p k : Nat) :
    l.take p ++ (l.drop p).take k = l.take (p + k) := by
  rw [List.take_add]

/-- what the outcome of driving a write request from `s` must satisfy -/
def WritePost (s : WriteSt) : Out WriteSt → Prop
  | .done n s' _ =>
      s'.buf = s.buf ∧ s'.sent = s.buf.take s'.pos ∧ s'.pos ≤ s.buf.length ∧
      (n = -1 ∨ (n = s'.pos ∧ s.minlen ≤ s'.pos ∧ 1 ≤ s'.pos))
  | .pending s' q' => q' = [] ∧ s'.buf = s.buf ∧ s'.minlen = s.minlen ∧ WriteInv s'
  | .fuel => True

theorem WritePost_trans (s s1 : WriteSt) (r : Out WriteSt)
    (hb : s1.buf = s.buf) (hm : s1.minlen = s.minlen) (h : WritePost s1 r) : WritePost s r := by
  cases r with
  | done n s' q' =>
    obtain ⟨h1, h2, h3, h4⟩ := h
    refine ⟨h1.trans hb, hb ▸ h2, hb ▸ h3, ?_⟩
    rcases h4 with h4 | ⟨e1, e2, e3⟩
    · exact Or.inl h4
    · exact Or.inr ⟨e1, hm ▸ e2, e3⟩
  | pending s' q' =>
    obtain ⟨h0, h1, h2, h3⟩ := h
    exact ⟨h0, h1.trans hb, h2.trans hm, h3⟩
  | fuel => trivial

theorem runWrite_spec (f : Nat) (s : WriteSt) (q : List Ans) (hinv : WriteInv s) :
    WritePost s (runWrite f s q) := by
  induction f generalizing s q with
  | zero => simp [runWrite, WritePost]
  | succ f ih =>
    cases q with
    | nil => simp only [runWrite, WritePost]; exact ⟨trivial, trivial, trivial, hinv⟩
    | cons a q =>
      obtain ⟨hpos, hsent, hneed, hmin⟩ := hinv
      cases a with
      | room n =>
        generalize hk : min (n + 1) (s.buf.length - s.pos) = k
        have hk1 : 1 ≤ k := by omega
        have hk2 : s.pos + k ≤ s.buf.length := by omega
        have hsent' : s.sent ++ (s.buf.drop s.pos).take k = s.buf.take (s.pos + k) := by
          rw [hsent, take_add_drop_take]
        rw [runWrite]
        simp only [hk]
        by_cases hlt : s.pos + k < s.minlen
        · rw [if_pos hlt]
          refine WritePost_trans s _ _ ?_ ?_ (ih _ q ⟨?_, ?_, ?_, ?_⟩)
          · rfl
          · rfl
          · show s.pos + k < s.buf.length
            omega
          · exact hsent'
          · exact Or.inl hlt
          · exact hmin
        · rw [if_neg hlt]
          exact ⟨rfl, hsent', hk2, Or.inr ⟨rfl, by show s.minlen ≤ s.pos + k; omega, by show 1 ≤ s.pos + k; omega⟩⟩
      | again => rw [runWrite]; exact WritePost_trans s _ _ rfl rfl (ih _ _ ⟨hpos, hsent, hneed, hmin⟩)
      | data b bs => rw [runWrite]; exact WritePost_trans s _ _ rfl rfl (ih _ _ ⟨hpos, hsent, hneed, hmin⟩)
      | eof => rw [runWrite]; exact WritePost_trans s _ _ rfl rfl (ih _ _ ⟨hpos, hsent, hneed, hmin⟩)
      | err =>
        rw [runWrite]
        exact ⟨rfl, hsent, by show s.pos ≤ s.buf.length; omega, Or.inl rfl⟩

/-! ### accept -/

/-- accept retries exactly on the "try again" answers … -/
theorem runAccept_retry (n : Nat) (q : List AccAns) :
    runAccept (List.replicate n .retry ++ q) = runAccept q := by
  induction n with
  | zero => simp
  | succ n ih => simp [List.replicate_succ, runAccept, ih]

/-- … delivers the first connection … -/
theorem runAccept_conn (n s : Nat) (r : List AccAns) :
    runAccept (List.replicate n .retry ++ .conn s :: r) = (some (s : Int), r) := by
  rw [runAccept_retry]; simp [runAccept]

/-- … reports -1 on the first hard error … -/
theorem runAccept_hard (n : Nat) (r : List AccAns) :
    runAccept (List.replicate n .retry ++ .hard :: r) = (some (-1), r) := by
  rw [runAccept_retry]; simp [runAccept]

/-- … and otherwise stays pending. -/
theorem runAccept_pending (n : Nat) : runAccept (List.replicate n .retry) = (none, []) := by
  have := runAccept_retry n []
  simpa [runAccept] using this

end Percival.Proofs.NetIO
